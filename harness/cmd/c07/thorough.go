//go:build verifshadow

package main

import (
	"fmt"
	"os"
	"path/filepath"
	"sort"
	"strings"

	"github.com/pdfcpu/pdfcpu/pkg/api"
	"github.com/pdfcpu/pdfcpu/pkg/font"
	"verif/harness/internal/fontcase"
	"verif/harness/internal/fontkit"
	"verif/harness/internal/osmon"
	"verif/harness/internal/ref/plfs"
	"verif/harness/internal/vk"
)

// step is one installation call: a route and its logical inputs (fontcase names: R A B C D E fonts, A2 a
// second font with A's PostScript name, T the collection of D and E, X a corrupt font; built here: U the
// collection of B and C, V the three-member collection of R, A and B).
type step struct {
	route  string // installfonts | truetypefont | frombytes | frombytesquiet | ttc
	inputs []string
	// fails: the call must return an error (corrupt input X); its trace is crash-checked like any other, but
	// there is no success return to judge. Only used in front of a successful installation.
	fails bool
}

// scenario is a sequence of installations into one font directory, recorded as ONE trace.
type scenario struct {
	name  string
	pre   []string // installed beforehand, unmonitored (tweaked variants: a replaced target differs in bytes)
	steps []step
	// seeded: input order and pre-existing subset were drawn from the seed
	seeded bool
}

func expand(inputs []string) []string {
	var out []string
	for _, in := range inputs {
		switch in {
		case "T":
			out = append(out, "D", "E")
		case "U":
			out = append(out, "B", "C")
		case "V":
			out = append(out, "R", "A", "B")
		case "X":
		case "A2":
			out = append(out, "A")
		default:
			out = append(out, in)
		}
	}
	return out
}

func plus(l []string) string {
	if len(l) == 0 {
		return "none"
	}
	return strings.Join(l, "+")
}

// scenarios enumerates every installation route and batch shape of fontcase's success cases.
func scenarios(t *vk.T) []scenario {
	var out []scenario
	add := func(name string, pre []string, steps ...step) {
		out = append(out, scenario{name: name, pre: pre, steps: steps})
	}
	one := func(route string, in ...string) step { return step{route: route, inputs: in} }
	bad := func(route string, in ...string) step { return step{route: route, inputs: in, fails: true} }
	// A. api.InstallFonts batches of 1-3 inputs (collections inside) × every subset of the targets pre-existing,
	//    plus an unrelated font pre-existing
	batches := [][]string{{"R"}, {"R", "A"}, {"R", "A", "B"}, {"T"}, {"R", "T"}, {"T", "R"}, {"R", "A", "T"}, {"T", "U"}, {"V"}, {"R", "A", "B", "T"}}
	for _, b := range batches {
		tg := expand(b)
		for mask := 0; mask < 1<<len(tg); mask++ {
			var pre []string
			for i, x := range tg {
				if mask&(1<<i) != 0 {
					pre = append(pre, x)
				}
			}
			add(fmt.Sprintf("installfonts[%s]/pre=%s", plus(b), plus(pre)), pre, one("installfonts", b...))
		}
		add(fmt.Sprintf("installfonts[%s]/pre=C(unrelated)", plus(b)), []string{"C"}, one("installfonts", b...))
	}
	// seed-chosen input orders and pre-existing subsets for the 3-input batches
	rng := t.RNG("c07-perm")
	for _, b := range [][]string{{"R", "A", "B"}, {"R", "A", "T"}, {"T", "A", "B"}} {
		p := append([]string(nil), b...)
		for same := true; same; {
			rng.Shuffle(len(p), func(i, j int) { p[i], p[j] = p[j], p[i] })
			same = strings.Join(p, "") == strings.Join(b, "")
		}
		tg := expand(p)
		mask := rng.IntN(1 << len(tg))
		var pre []string
		for i, x := range tg {
			if mask&(1<<i) != 0 {
				pre = append(pre, x)
			}
		}
		add(fmt.Sprintf("installfonts[%s]/pre=%s", plus(p), plus(pre)), pre, one("installfonts", p...))
		out[len(out)-1].seeded = true
	}
	// random installation histories: 2-4 calls over all routes into one directory, random pre-existing fonts
	for k := 0; k < 16; k++ {
		r := t.RNGi("c07-history", k)
		var pre []string
		for _, x := range []string{"R", "A", "B", "C", "D", "E"} {
			if r.IntN(3) == 0 {
				pre = append(pre, x)
			}
		}
		var steps []step
		var label []string
		for n := 2 + r.IntN(3); len(steps) < n; {
			var st step
			switch r.IntN(6) {
			case 0:
				st = one("truetypefont", []string{"R", "A", "A2", "B", "C", "D", "E"}[r.IntN(7)])
			case 1:
				st = one("frombytes", []string{"R", "A", "A2", "B", "C", "D", "E"}[r.IntN(7)])
			case 2:
				st = one("ttc", []string{"T", "U", "V"}[r.IntN(3)])
			default:
				// a batch of 1-3 inputs without two sources of one PostScript name
				names := map[string]bool{}
				pool := []string{"R", "A", "A2", "B", "C", "D", "E", "T", "U", "V"}
				r.Shuffle(len(pool), func(i, j int) { pool[i], pool[j] = pool[j], pool[i] })
				var in []string
				for _, x := range pool {
					clash := false
					for _, y := range expand([]string{x}) {
						clash = clash || names[y]
					}
					if clash || len(in) >= 1+k%3 {
						continue
					}
					for _, y := range expand([]string{x}) {
						names[y] = true
					}
					in = append(in, x)
				}
				st = one("installfonts", in...)
			}
			steps = append(steps, st)
			label = append(label, fmt.Sprintf("%s[%s]", st.route, plus(st.inputs)))
		}
		add(fmt.Sprintf("history/%s/pre=%s", strings.Join(label, ">"), plus(pre)), pre, steps...)
		out[len(out)-1].seeded = true
	}
	// B. the single-font routes of package font
	for _, r := range []string{"truetypefont", "frombytes", "frombytesquiet"} {
		for _, f := range []string{"R", "A"} {
			add(fmt.Sprintf("%s[%s]/pre=none", r, f), nil, one(r, f))
			add(fmt.Sprintf("%s[%s]/pre=%s", r, f, f), []string{f}, one(r, f))
			add(fmt.Sprintf("%s[%s]/pre=C(unrelated)", r, f), []string{"C"}, one(r, f))
			add(fmt.Sprintf("%s[%s]/pre=%s+C", r, f, f), []string{f, "C"}, one(r, f))
		}
	}
	// C. collections installed directly
	for _, pre := range [][]string{nil, {"D"}, {"E"}, {"D", "E"}, {"R"}, {"D", "E", "R"}} {
		add(fmt.Sprintf("ttc[T]/pre=%s", plus(pre)), pre, one("ttc", "T"))
	}
	for mask := 0; mask < 8; mask++ {
		var pre []string
		for i, x := range []string{"R", "A", "B"} {
			if mask&(1<<i) != 0 {
				pre = append(pre, x)
			}
		}
		add(fmt.Sprintf("ttc[V]/pre=%s", plus(pre)), pre, one("ttc", "V"))
	}
	// D. re-installation: sequences recorded as one trace (the second installation meets what the first published)
	single := []string{"installfonts", "truetypefont", "frombytes"}
	for _, x := range single {
		for _, y := range single {
			add(fmt.Sprintf("seq/%s[R]>%s[R]", x, y), nil, one(x, "R"), one(y, "R"))
			add(fmt.Sprintf("seq/%s[A]>%s[A2]", x, y), nil, one(x, "A"), one(y, "A2"))
		}
		add(fmt.Sprintf("seq/%s[R]x3", x), nil, one(x, "R"), one(x, "R"), one(x, "R"))
	}
	add("seq/ttc[T]>ttc[T]", nil, one("ttc", "T"), one("ttc", "T"))
	add("seq/ttc[T]x3/pre=D", []string{"D"}, one("ttc", "T"), one("ttc", "T"), one("ttc", "T"))
	add("seq/installfonts[R+T]>installfonts[R+T]", nil, one("installfonts", "R", "T"), one("installfonts", "R", "T"))
	add("seq/ttc[T]>installfonts[T]", nil, one("ttc", "T"), one("installfonts", "T"))
	add("seq/installfonts[T]>ttc[T]", nil, one("installfonts", "T"), one("ttc", "T"))
	add("seq/ttc[T]>truetypefont[D]", nil, one("ttc", "T"), one("truetypefont", "D"))
	add("seq/truetypefont[D]>ttc[T]", nil, one("truetypefont", "D"), one("ttc", "T"))
	add("seq/frombytes[E]>ttc[T]", nil, one("frombytes", "E"), one("ttc", "T"))
	add("seq/ttc[T]>frombytes[E]", nil, one("ttc", "T"), one("frombytes", "E"))
	add("seq/installfonts[R+A]>installfonts[A+B]", nil, one("installfonts", "R", "A"), one("installfonts", "A", "B"))
	add("seq/ttc[V]>ttc[U]>ttc[T]", nil, one("ttc", "V"), one("ttc", "U"), one("ttc", "T"))
	add("seq/installfonts[V]>installfonts[U+T]/pre=C", []string{"C"}, one("installfonts", "V"), one("installfonts", "U", "T"))
	// a failed installation in front of the successful one (its trace is crash-checked too)
	add("seq/installfonts[X]!>installfonts[R]", nil, bad("installfonts", "X"), one("installfonts", "R"))
	add("seq/installfonts[R+X]!>installfonts[R]/pre=R", []string{"R"}, bad("installfonts", "R", "X"), one("installfonts", "R"))
	add("seq/installfonts[T+A+X]!>installfonts[T+A]/pre=D", []string{"D"}, bad("installfonts", "T", "A", "X"), one("installfonts", "T", "A"))
	add("seq/truetypefont[X]!>truetypefont[R]/pre=R", []string{"R"}, bad("truetypefont", "X"), one("truetypefont", "R"))
	add("seq/frombytes[X]!>frombytes[R]", nil, bad("frombytes", "X"), one("frombytes", "R"))
	add("seq/installfonts[A+A2]!>installfonts[A2]/pre=A", []string{"A"}, bad("installfonts", "A", "A2"), one("installfonts", "A2"))
	add("seq/installfonts[R+A+B]>installfonts[B+A+R]/pre=A", []string{"A"}, one("installfonts", "R", "A", "B"), one("installfonts", "B", "A", "R"))
	return out
}

// call performs one step against the sandbox.
func call(c *fontcase.Case, files map[string]string, st step) (err error, pv any) {
	defer func() {
		if r := recover(); r != nil {
			pv = r
		}
	}()
	mat := c.Material()
	switch st.route {
	case "installfonts":
		var fs []string
		for _, in := range st.inputs {
			fs = append(fs, files[in])
		}
		return api.InstallFonts(fs), nil
	case "truetypefont":
		_, err := font.InstallTrueTypeFont(c.FontDir, files[st.inputs[0]])
		return err, nil
	case "frombytes":
		return font.InstallFontFromBytes(c.FontDir, mat.PS[st.inputs[0]], mat.Fonts[st.inputs[0]]), nil
	case "frombytesquiet":
		return font.InstallFontFromBytesQuiet(c.FontDir, mat.PS[st.inputs[0]], mat.Fonts[st.inputs[0]]), nil
	case "ttc":
		_, err := font.InstallTrueTypeCollection(c.FontDir, files[st.inputs[0]])
		return err, nil
	}
	return fmt.Errorf("unknown route %s", st.route), nil
}

// productLimit bounds the brute-force product over ALL directories per crash point.
const productLimit = 200000

func thorough(t *vk.T, mat *fontcase.Material, ctl *control) {
	t.Assume("thorough: the same traces are judged by two independent implementations of the stated model (plfs.Model: the font directory's own queue; plfs.Full: inode tree resolved from the sandbox root through every allowed view of every directory on the way); they must agree on the number of outcomes at every crash point, and a brute-force product over ALL directories with queued operations (bounded per crash point) must produce exactly the views the walk produces, else the run is BROKEN")
	t.Assume("harsh model variant (counted under observed harsh_model/*, never judged: the property text names the stated model only): any SUBSET of a directory's unflushed operations may be on disk, a rename over an existing name is unlink + link, and the halves of a rename between two directories settle only once both directories were fsynced after it")
	scs := scenarios(t)
	t.Extra("thorough_scenarios", len(scs))
	var chosen []string
	for _, sc := range scs {
		if sc.seeded {
			chosen = append(chosen, sc.name)
		}
	}
	t.Extra("seed_chosen_scenarios", chosen)
	for _, sc := range scs {
		runScenario(t, mat, sc, ctl)
	}
	if t.Counter("thorough_scenarios_judged") == 0 {
		t.Broken("thorough tier observed nothing")
	}
}

func runScenario(t *vk.T, mat *fontcase.Material, sc scenario, ctl *control) {
	root := filepath.Join(t.Scratch(), "sb")
	// sandbox: the distinct logical inputs of all steps, in order of first use
	var inputs []string
	seen := map[string]bool{}
	for _, st := range sc.steps {
		for _, in := range st.inputs {
			if !seen[in] {
				seen[in] = true
				inputs = append(inputs, in)
			}
		}
	}
	// collections fontcase does not offer are built here and written next to its inputs
	var known, extra []string
	for _, in := range inputs {
		if in == "U" || in == "V" {
			extra = append(extra, in)
		} else {
			known = append(known, in)
		}
	}
	c, err := fontcase.Setup(root, fontcase.Shape{Name: sc.name, Kind: "installfonts", Inputs: known, Pre: sc.pre}, mat)
	if err != nil {
		t.Inconclusive("setup-failed/" + sc.name + ": " + err.Error())
		return
	}
	files := map[string]string{}
	for i, f := range c.Files() {
		files[known[i]] = f
	}
	for _, in := range extra {
		members := [][]byte{mat.Fonts["B"], mat.Fonts["C"]}
		if in == "V" {
			members = [][]byte{mat.Fonts["R"], mat.Fonts["A"], mat.Fonts["B"]}
		}
		b, err := fontkit.TTC(members...)
		if err != nil {
			t.Broken("collection %s: %v", in, err)
		}
		files[in] = filepath.Join(root, "in", "x-"+in+".ttc")
		if err := os.WriteFile(files[in], b, 0o644); err != nil {
			t.Broken("collection %s: %v", in, err)
		}
	}
	font.ReloadUserFonts()
	tree := plfs.Scan(root)
	tr := &trace{}
	var raw []*osmon.Event
	var cum []string
	has := map[string]bool{}
	for si, st := range sc.steps {
		m := &osmon.Mon{Scope: root, Record: true}
		var rerr error
		var pv any
		m.Run(func() { rerr, pv = call(c, files, st) })
		if st.fails && rerr == nil && pv == nil {
			t.Inconclusive(fmt.Sprintf("install-did-not-fail/%s step %d", sc.name, si+1))
			return
		}
		if !st.fails && (rerr != nil || pv != nil) {
			t.Inconclusive(fmt.Sprintf("install-failed/%s step %d: %v %v", sc.name, si+1, rerr, pv))
			return
		}
		if st.fails && pv != nil {
			t.Count("pdfcpu_panics", 1)
		}
		n0 := len(tr.evs)
		for _, e := range m.Events() {
			if e.Depth > 0 {
				continue
			}
			ev := toEv(e)
			ev.Seq = int64(len(tr.evs) + 1)
			tr.evs = append(tr.evs, ev)
			raw = append(raw, e)
		}
		if !st.fails {
			for _, x := range expand(st.inputs) {
				if n := mat.PS[x] + ".gob"; !has[n] {
					has[n] = true
					cum = append(cum, n)
				}
			}
		} else {
			t.Count("failed_installations_crash_checked", 1)
		}
		if len(tr.evs) == n0 {
			// the call was refused before it touched the sandbox: nothing to replay
			t.Count("installations_without_fs_calls", 1)
			if !st.fails {
				t.Inconclusive("success-without-fs-calls/" + sc.name)
				return
			}
			continue
		}
		tr.bounds = append(tr.bounds, len(tr.evs))
		tr.expected = append(tr.expected, append([]string(nil), cum...))
		tr.routes = append(tr.routes, st.route)
		tr.fails = append(tr.fails, st.fails)
	}
	if os.Getenv("C07_DUMP") != "" {
		dump(root, sc.name, raw)
	}
	// the live filesystem must agree with what the trace is expected to have published
	for _, n := range cum {
		if fi, err := os.Stat(filepath.Join(c.FontDir, n)); err != nil || fi.Size() == 0 {
			t.Inconclusive("expected-name-missing/" + sc.name + "/" + n)
			return
		}
	}
	reported := map[string]bool{}
	violate := func(route string, f plfs.Finding, e *plfs.Ev) {
		k := "shape=" + route + "/class=" + f.Class
		if reported[k] {
			return
		}
		reported[k] = true
		what := sc.name + ": " + f.Detail
		if e != nil {
			what += fmt.Sprintf(" [event %d: %s %s]", e.Seq, e.Op, rel(root, e.Path))
		}
		t.Violate(k, what, map[string]any{"scenario": sc.name, "finding": f})
	}
	old := plfs.NewFrom(root, tree)
	full := plfs.NewFullFrom(root, tree, plfs.Base)
	harsh := plfs.NewFullFrom(root, tree, plfs.Harsh)
	harshSeen := map[string]bool{}
	step := 0
	for step < len(tr.bounds) && tr.bounds[step] == 0 {
		step++ // a (failing) call that touched nothing
	}
	var product, productSkipped int64
	fileSyncs, dirSyncs, renames, cross := 0, 0, 0, 0
	for i := range tr.evs {
		e := &tr.evs[i]
		route := tr.routes[min(step, len(tr.routes)-1)]
		old.Apply(*e)
		note := full.Apply(*e)
		harsh.Apply(*e)
		switch note.Kind {
		case "sync-file":
			fileSyncs++
		case "sync-dir":
			dirSyncs++
		case "rename":
			renames++
			if note.Cross {
				cross++
			}
		}
		// stated model, implementation 1 (as in the quick tier)
		fs1, states1 := old.CheckCrash(c.FontDir, watch, e.Seq)
		for _, f := range fs1 {
			violate(route, f, e)
		}
		// stated model, implementation 2: every outcome over the directories on the way from the root
		fs2, st2 := full.CheckCrash(c.FontDir, watch, e.Seq)
		for _, f := range fs2 {
			violate(route, f, e)
		}
		if int64(states1) != st2.States || (len(fs1) > 0) != (len(fs2) > 0) {
			t.Broken("model implementations disagree at %s event %d (%s %s): %d outcomes / %d findings vs %d outcomes / %d findings", sc.name, i, e.Op, rel(root, e.Path), states1, len(fs1), st2.States, len(fs2))
		}
		t.Count("crash_states_checked", int64(states1))
		t.Count("thorough_outcomes_tree_model", st2.States)
		// brute force: the complete product over ALL directories must produce exactly the walk's views
		if pv, combos, ok := full.ProductViews(c.FontDir, productLimit); ok {
			product += combos
			wv := full.WatchViews(c.FontDir)
			if !sameSet(pv, wv) {
				t.Broken("complete product and walk disagree at %s event %d: %d vs %d views", sc.name, i, len(pv), len(wv))
			}
		} else {
			productSkipped++
		}
		// harsh variant: counted only
		fh, sth := harsh.CheckCrash(c.FontDir, watch, e.Seq)
		t.Count("harsh_model/outcomes", sth.States)
		t.Count("harsh_model/subset_cap_hits", sth.SubsetCapHits)
		for _, f := range fh {
			if k := route + "/" + f.Class; !harshSeen[k] {
				harshSeen[k] = true
				t.Count("harsh_model/findings/shape="+route+"/class="+f.Class, 1)
			}
		}
		key := ""
		if st2.States > 1 || sth.States > 1 {
			key = fmt.Sprintf("%s/%d/%d/%d", sc.name, i, st2.States, sth.States)
		}
		t.Eval(key)
		for step < len(tr.bounds) && tr.bounds[step] == i+1 {
			for _, f := range old.CheckDurable(c.FontDir, tr.expected[step], e.Seq) {
				violate(route, f, nil)
			}
			for _, f := range full.CheckDurable(c.FontDir, tr.expected[step], e.Seq) {
				violate(route, f, nil)
			}
			for _, f := range harsh.CheckDurable(c.FontDir, tr.expected[step], e.Seq) {
				if k := route + "/" + f.Class; !harshSeen[k] {
					harshSeen[k] = true
					t.Count("harsh_model/findings/shape="+route+"/class="+f.Class, 1)
					if os.Getenv("C07_DUMP") != "" {
						fmt.Fprintf(os.Stderr, "HARSH %s: %s\n", sc.name, f.Detail)
					}
				}
			}
			if !tr.fails[step] {
				t.Count("success_returns_checked", 1)
			}
			step++
		}
	}
	t.Count("thorough_scenarios_judged", 1)
	t.Count("thorough_product_combinations_enumerated", product)
	t.Count("thorough_product_crash_points_over_limit", productSkipped)
	t.Count("events_replayed", int64(len(tr.evs)))
	t.Count("file_fsyncs_seen", int64(fileSyncs))
	t.Count("dir_fsyncs_seen", int64(dirSyncs))
	t.Count("renames_seen", int64(renames))
	t.Count("cross_directory_renames_seen", int64(cross))
	for _, st := range sc.steps {
		t.Count("route/"+st.route, 1)
	}
	t.Sample(map[string]any{"scenario": sc.name, "events": len(tr.evs), "file_fsyncs": fileSyncs, "dir_fsyncs": dirSyncs, "renames": renames, "expected": cum})
	ctl.run(t, sc.name, root, tree, c.FontDir, tr, true)
}

func sameSet(a, b map[string]bool) bool {
	if len(a) != len(b) {
		return false
	}
	ks := make([]string, 0, len(a))
	for k := range a {
		ks = append(ks, k)
	}
	sort.Strings(ks)
	for _, k := range ks {
		if !b[k] {
			return false
		}
	}
	return true
}
