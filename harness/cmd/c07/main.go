//go:build verifshadow

// C07 — installed fonts survive power loss once installation reports success.
// Offline checker over a recorded trace: the successful installation is run once under the
// package-os interposer (every create / write / fsync / close / rename / remove / mkdir / directory
// fsync with file identities), and the trace is replayed into an explicit power-loss model
// (internal/ref/plfs). After every event every allowed power-loss outcome is materialised and each
// font name must be absent, or hold its previous complete representation, or its new complete one;
// after the success return every installed name must be durable in every outcome.
//
// Both tiers end with a control: the RECORDED trace is broken in memory (a file fsync dropped, the
// directory fsyncs after the last publication dropped, a file fsync moved behind the publishing rename)
// and the model checker must flag every kind of break; a checker that stays silent is a dead oracle and
// the run is BROKEN.
//
// The thorough tier (thorough.go) adds every installation route and batch shape, installation sequences
// (re-installation), a second tree-shaped implementation of the model with the complete product of
// per-directory outcomes, and a harsher model variant that is counted, not judged.
package main

import (
	"fmt"
	"os"
	"path/filepath"
	"strings"

	"github.com/pdfcpu/pdfcpu/pkg/api"
	"github.com/pdfcpu/pdfcpu/pkg/font"
	"verif/harness/internal/fontcase"
	"verif/harness/internal/osmon"
	"verif/harness/internal/ref/plfs"
	"verif/harness/internal/vk"
)

func watch(name string) bool { return strings.HasSuffix(name, ".gob") && !strings.HasPrefix(name, ".") }

func main() {
	vk.Run("C07", "fault_enumeration", func(t *vk.T) {
		api.DisableConfigDir()
		t.Rule("case = (installation shape, crash point = prefix of the recorded filesystem trace, power-loss outcome = per-directory prefix of the not-yet-fsynced directory operations); non-trivial = crash points with at least one pending directory operation or unsynced file; distinct by (shape, event index, outcome)")
		t.Assume("power-loss model: an inode's data is durable exactly up to its last fsync (no torn sectors); directory operations are queued per directory in issue order, made durable by an fsync of that directory, and at a power loss any prefix of a directory's queue may have reached the disk; the initial tree is durable")
		t.Assume("the trace is the sequence of package-os calls (the sandbox cannot cut power); the verdict is relative to the stated model")
		mat, err := fontcase.NewMaterial(vk.RepoDir())
		if err != nil {
			t.Broken("material: %v", err)
		}
		ctl := &control{}
		n := 0
		for _, sh := range fontcase.Shapes(false) {
			if sh.Invalid || (sh.Kind != "installfonts" && sh.Kind != "ttc" && sh.Kind != "frombytes") {
				continue
			}
			runShape(t, mat, sh, ctl)
			n++
		}
		if n == 0 || t.Counter("crash_states_checked") == 0 {
			t.Broken("nothing observed")
		}
		if !t.Quick() {
			thorough(t, mat, ctl)
		}
		ctl.verdict(t)
	})
}

func toEv(e *osmon.Event) plfs.Ev {
	return plfs.Ev{Seq: e.Seq, Op: e.Op, Path: e.Path, Path2: e.Path2, Flag: e.Flag, FID: e.FID, N: e.N, Pos: e.Pos, OK: e.Done && e.Err == ""}
}

func runShape(t *vk.T, mat *fontcase.Material, sh fontcase.Shape, ctl *control) {
	root := filepath.Join(t.Scratch(), "sb")
	c, err := fontcase.Setup(root, sh, mat)
	if err != nil {
		t.Inconclusive("setup-failed/" + sh.Name + ": " + err.Error())
		return
	}
	font.ReloadUserFonts()
	tree := plfs.Scan(root)
	model := plfs.NewFrom(root, tree)
	m := &osmon.Mon{Scope: root, Record: true}
	var rerr error
	var pv any
	m.Run(func() { rerr, pv = c.Run() })
	if rerr != nil || pv != nil {
		t.Inconclusive(fmt.Sprintf("install-failed/%s: %v %v", sh.Name, rerr, pv))
		return
	}
	evs := m.Events()
	if os.Getenv("C07_DUMP") != "" {
		dump(root, sh.Name, evs)
	}
	reported := map[string]bool{}
	syncs, dirSyncs, renames := 0, 0, 0
	var tr []plfs.Ev
	for i, e := range evs {
		if e.Depth > 0 {
			continue
		}
		tr = append(tr, toEv(e))
		model.Apply(toEv(e))
		switch e.Op {
		case "sync":
			syncs++
			if fi, err := os.Stat(e.Path); err == nil && fi.IsDir() {
				dirSyncs++
			}
		case "rename":
			renames++
		}
		fs, states := model.CheckCrash(c.FontDir, watch, e.Seq)
		t.Count("crash_states_checked", int64(states))
		key := ""
		if states > 1 {
			key = fmt.Sprintf("%s/%d/%d", sh.Name, i, states)
		}
		t.Eval(key)
		for _, f := range fs {
			k := "shape=" + sh.Kind + "/class=" + f.Class
			if !reported[k] {
				reported[k] = true
				t.Violate(k, sh.Name+": "+f.Detail+fmt.Sprintf(" [event %d: %s %s]", e.Seq, e.Op, rel(root, e.Path)),
					map[string]any{"shape": sh.Name, "event": e, "finding": f})
			}
		}
	}
	for _, f := range model.CheckDurable(c.FontDir, c.Expected, int64(len(evs))) {
		k := "shape=" + sh.Kind + "/class=" + f.Class
		if !reported[k] {
			reported[k] = true
			t.Violate(k, sh.Name+": "+f.Detail, map[string]any{"shape": sh.Name, "finding": f})
		}
	}
	t.Count("events_replayed", int64(len(evs)))
	t.Count("file_fsyncs_seen", int64(syncs-dirSyncs))
	t.Count("dir_fsyncs_seen", int64(dirSyncs))
	t.Count("renames_seen", int64(renames))
	t.Sample(map[string]any{"shape": sh.Name, "events": len(evs), "fsyncs": syncs, "dir_fsyncs": dirSyncs, "renames": renames, "expected": c.Expected})
	ctl.run(t, sh.Name, root, tree, c.FontDir, &trace{evs: tr, bounds: []int{len(tr)}, expected: [][]string{c.Expected}}, false)
}

func rel(root, p string) string {
	if r, err := filepath.Rel(root, p); err == nil {
		return r
	}
	return p
}

func dump(root, name string, evs []*osmon.Event) {
	fmt.Fprintf(os.Stderr, "---- trace %s (%d events)\n", name, len(evs))
	for _, e := range evs {
		if e.Op == "read" || e.Op == "readat" || e.Op == "stat" || e.Op == "lstat" || e.Op == "fstat" {
			continue
		}
		fmt.Fprintf(os.Stderr, "%4d d%d %-9s %s", e.Seq, e.Depth, e.Op, rel(root, e.Path))
		if e.Path2 != "" {
			fmt.Fprintf(os.Stderr, " -> %s", rel(root, e.Path2))
		}
		fmt.Fprintf(os.Stderr, " fid=%d flag=%#x n=%d err=%q\n", e.FID, e.Flag, e.N, e.Err)
	}
}
