//go:build verifshadow

package main

import (
	"fmt"
	"sort"

	"verif/harness/internal/ref/plfs"
	"verif/harness/internal/vk"
)

// trace is one recorded installation (or sequence of installations) as the model sees it.
type trace struct {
	evs      []plfs.Ev  // top-level package-os calls in issue order
	bounds   []int      // bounds[s] = number of events up to and including the success return of step s
	expected [][]string // expected[s] = names that must be durable once step s has returned
	routes   []string   // route of each step (violation keys)
	fails    []bool     // the step returned an error (no success return to judge)
}

// verdictOf is what a checker says about a trace: finding classes with one example each.
type verdictOf map[string]string

// replayOld judges a trace with plfs.Model (the quick tier's checker).
func replayOld(root string, tree []plfs.TreeEntry, fontDir string, tr *trace) verdictOf {
	v := verdictOf{}
	m := plfs.NewFrom(root, tree)
	step := 0
	for step < len(tr.bounds) && tr.bounds[step] == 0 {
		step++ // a call that touched nothing
	}
	for i, e := range tr.evs {
		m.Apply(e)
		fs, _ := m.CheckCrash(fontDir, watch, e.Seq)
		for _, f := range fs {
			if _, ok := v[f.Class]; !ok {
				v[f.Class] = f.Detail
			}
		}
		for step < len(tr.bounds) && tr.bounds[step] == i+1 {
			for _, f := range m.CheckDurable(fontDir, tr.expected[step], e.Seq) {
				if _, ok := v[f.Class]; !ok {
					v[f.Class] = f.Detail
				}
			}
			step++
		}
	}
	return v
}

// replayFull judges a trace with plfs.Full under a model variant and returns the per-event notes too.
func replayFull(root string, tree []plfs.TreeEntry, fontDir string, tr *trace, variant plfs.Variant) (verdictOf, []plfs.Note, int) {
	v := verdictOf{}
	m := plfs.NewFullFrom(root, tree, variant)
	watchID := m.DirID(fontDir)
	notes := make([]plfs.Note, len(tr.evs))
	step := 0
	for step < len(tr.bounds) && tr.bounds[step] == 0 {
		step++
	}
	for i, e := range tr.evs {
		notes[i] = m.Apply(e)
		fs, _ := m.CheckCrash(fontDir, watch, e.Seq)
		for _, f := range fs {
			if _, ok := v[f.Class]; !ok {
				v[f.Class] = f.Detail
			}
		}
		for step < len(tr.bounds) && tr.bounds[step] == i+1 {
			for _, f := range m.CheckDurable(fontDir, tr.expected[step], e.Seq) {
				if _, ok := v[f.Class]; !ok {
					v[f.Class] = f.Detail
				}
			}
			step++
		}
	}
	return v, notes, watchID
}

// mutant is a deliberately broken copy of a recorded trace.
type mutant struct {
	class string // drop-file-sync | drop-dir-syncs-after-publication | drop-all-dir-syncs | sync-after-rename
	what  string
	tr    *trace
}

// without returns a copy of tr with the events at the given indices removed.
func without(tr *trace, drop map[int]bool) *trace {
	out := &trace{expected: tr.expected, routes: tr.routes}
	b := 0
	for i, e := range tr.evs {
		if !drop[i] {
			out.evs = append(out.evs, e)
		}
		for b < len(tr.bounds) && tr.bounds[b] == i+1 {
			out.bounds = append(out.bounds, len(out.evs))
			b++
		}
	}
	return out
}

// moved returns a copy of tr with the events at indices idx (ascending) re-issued right after event j (> all idx).
func moved(tr *trace, idx []int, j int) *trace {
	mv := map[int]bool{}
	for _, i := range idx {
		mv[i] = true
	}
	out := &trace{expected: tr.expected, routes: tr.routes}
	b := 0
	for i, e := range tr.evs {
		if !mv[i] {
			out.evs = append(out.evs, e)
		}
		if i == j {
			for _, k := range idx {
				out.evs = append(out.evs, tr.evs[k])
			}
		}
		for b < len(tr.bounds) && tr.bounds[b] == i+1 {
			out.bounds = append(out.bounds, len(out.evs))
			b++
		}
	}
	return out
}

// mutants derives the broken traces. notes / watchID come from a Full replay of the unbroken trace.
func mutants(tr *trace, notes []plfs.Note, watchID int) []mutant {
	var out []mutant
	type pub struct{ at, ino int }
	var pubs []pub
	for i, n := range notes {
		if (n.Kind == "rename" || n.Kind == "link") && n.DstDir == watchID && watch(n.DstName) {
			pubs = append(pubs, pub{i, n.Ino})
		}
	}
	if len(pubs) == 0 {
		return nil
	}
	// a file fsync is load-bearing for publication p if it is the only fsync of that inode between the inode's
	// last write before p and p
	for _, p := range pubs {
		lastWrite := -1
		for i := 0; i < p.at; i++ {
			if notes[i].Kind == "write" && notes[i].Ino == p.ino {
				lastWrite = i
			}
		}
		var syncs []int
		for i := lastWrite + 1; i < p.at; i++ {
			if notes[i].Kind == "sync-file" && notes[i].Ino == p.ino {
				syncs = append(syncs, i)
			}
		}
		if lastWrite < 0 || len(syncs) != 1 {
			continue
		}
		s := syncs[0]
		out = append(out, mutant{"drop-file-sync", fmt.Sprintf("fsync at event %d (inode %d, published at event %d) dropped", s, p.ino, p.at), without(tr, map[int]bool{s: true})})
		// the descriptor must stay open for the moved fsync to mean anything: its close moves along
		idx := []int{s}
		for i := s + 1; i < p.at; i++ {
			if tr.evs[i].Op == "close" && tr.evs[i].FID == tr.evs[s].FID {
				idx = append(idx, i)
				break
			}
		}
		out = append(out, mutant{"sync-after-rename", fmt.Sprintf("fsync at event %d (inode %d) moved behind the publishing rename at event %d", s, p.ino, p.at), moved(tr, idx, p.at)})
	}
	last := pubs[len(pubs)-1].at
	after, all := map[int]bool{}, map[int]bool{}
	for i, n := range notes {
		if n.Kind == "sync-dir" {
			all[i] = true
			if n.Ino == watchID && i > last {
				after[i] = true
			}
		}
	}
	if len(after) > 0 {
		out = append(out, mutant{"drop-dir-syncs-after-publication", fmt.Sprintf("%d fsyncs of the font directory after the last publication (event %d) dropped", len(after), last), without(tr, after)})
	}
	if len(all) > 0 {
		out = append(out, mutant{"drop-all-dir-syncs", fmt.Sprintf("all %d directory fsyncs dropped", len(all)), without(tr, all)})
	}
	return out
}

// control accumulates the dead-oracle self-test over all traces of a run.
type control struct {
	mutants, flagged map[string]int // by class
	dead             []string       // (trace, class) for which mutants existed and none was flagged
	unflagged        []string
	// harsh-only control (thorough)
	harshMutants, harshFlagged int
	baseFlaggedHarshOnly       []string
}

// run breaks the recorded trace in memory and demands that the checker(s) flag it. full: the tree-shaped
// implementation has to flag every mutant too (thorough tier).
func (c *control) run(t *vk.T, name, root string, tree []plfs.TreeEntry, fontDir string, tr *trace, full bool) {
	if c.mutants == nil {
		c.mutants, c.flagged = map[string]int{}, map[string]int{}
	}
	_, notes, watchID := replayFull(root, tree, fontDir, tr, plfs.Base)
	per, hit := map[string]int{}, map[string]int{}
	for _, mu := range mutants(tr, notes, watchID) {
		per[mu.class]++
		ok := len(replayOld(root, tree, fontDir, mu.tr)) > 0
		if full {
			vf, _, _ := replayFull(root, tree, fontDir, mu.tr, plfs.Base)
			ok = ok && len(vf) > 0
		}
		if ok {
			hit[mu.class]++
		} else if len(c.unflagged) < 20 {
			c.unflagged = append(c.unflagged, name+": "+mu.class+": "+mu.what)
		}
	}
	if full {
		// liveness of the harsh variant: without the fsyncs of the OTHER directories the stated model still holds
		// (only the font directory's own queue decides), the harsh one must object (halves of a cross-directory
		// rename settle only once both directories were fsynced)
		drop, crossPub := map[int]bool{}, false
		for i, n := range notes {
			if n.Kind == "sync-dir" && n.Ino != watchID {
				drop[i] = true
			}
			if n.Kind == "rename" && n.Cross && n.DstDir == watchID && watch(n.DstName) {
				crossPub = true
			}
		}
		if crossPub && len(drop) > 0 {
			mt := without(tr, drop)
			vb, _, _ := replayFull(root, tree, fontDir, mt, plfs.Base)
			vh, _, _ := replayFull(root, tree, fontDir, mt, plfs.Harsh)
			c.harshMutants++
			t.Count("control_harsh_only/broken_traces", 1)
			if len(vh) > 0 {
				c.harshFlagged++
				t.Count("control_harsh_only/flagged_by_harsh_model", 1)
			}
			if len(vb) > 0 || len(replayOld(root, tree, fontDir, mt)) > 0 {
				c.baseFlaggedHarshOnly = append(c.baseFlaggedHarshOnly, name)
				t.Count("control_harsh_only/flagged_by_stated_model", 1)
			}
		}
	}
	for cl, n := range per {
		c.mutants[cl] += n
		c.flagged[cl] += hit[cl]
		t.Count("control_broken_traces/"+cl, int64(n))
		t.Count("control_broken_traces_flagged/"+cl, int64(hit[cl]))
		if hit[cl] == 0 {
			c.dead = append(c.dead, name+"/"+cl)
		}
	}
}

// verdict fails the run as BROKEN if the checker missed a whole class of breaks anywhere.
func (c *control) verdict(t *vk.T) {
	classes := []string{"drop-file-sync", "sync-after-rename", "drop-dir-syncs-after-publication", "drop-all-dir-syncs"}
	t.Assume("control: every recorded trace is broken in memory (single file fsync dropped; file fsync moved behind the publishing rename; font-directory fsyncs after the last publication dropped; all directory fsyncs dropped) and the model checker must flag the broken traces; an unflagged class is a dead oracle (BROKEN)")
	sort.Strings(c.dead)
	if len(c.dead) > 0 {
		t.Broken("dead oracle: broken traces not flagged by the model checker: %v (examples: %v)", c.dead, c.unflagged)
	}
	if c.harshMutants > 0 && c.harshFlagged < c.harshMutants {
		t.Broken("dead harsh model variant: %d of %d traces without the other directories' fsyncs were not flagged by it", c.harshMutants-c.harshFlagged, c.harshMutants)
	}
	if len(c.baseFlaggedHarshOnly) > 0 {
		t.Broken("the stated model flags traces that only lost fsyncs of directories other than the font directory: %v", c.baseFlaggedHarshOnly)
	}
	if t.Violations() > 0 {
		// the tree under test already breaks the property: its traces need not offer every kind of mutant
		return
	}
	for _, cl := range classes {
		if c.mutants[cl] == 0 {
			t.Broken("control: no broken trace of class %s could be derived from any recorded trace", cl)
		}
	}
	if n := len(c.unflagged); n > 0 {
		t.Count("control_broken_traces_unflagged", int64(n))
	}
}
