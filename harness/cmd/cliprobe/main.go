//go:build verifshadow

// cliprobe: self-test of the pkg/cli form catalogue (internal/cliprop) — every (form, shape,
// destination kind) must build and SUCCEED fault-free in-process (or fail cleanly for outdir-missing);
// prints the number of monitored filesystem calls and the time of one run.
// usage: cliprobe [nameFilter]
package main

import (
	"fmt"
	"os"
	"path/filepath"
	"strings"
	"time"

	"github.com/pdfcpu/pdfcpu/pkg/api"
	"verif/harness/internal/cliprop"
	"verif/harness/internal/opcat"
	"verif/harness/internal/osmon"
	"verif/harness/internal/vk"
)

func main() {
	api.DisableConfigDir()
	filter := ""
	if len(os.Args) > 1 {
		filter = os.Args[1]
	}
	base, err := os.MkdirTemp(os.Getenv("VERIF_CACHE")+"/run", "cliprobe-")
	if err != nil {
		panic(err)
	}
	defer os.RemoveAll(base)
	fx := filepath.Join(base, "fx")
	os.MkdirAll(fx, 0o755)
	if err := opcat.Prepare(vk.RepoDir(), fx); err != nil {
		fmt.Println("PREPARE FAILED:", err)
		os.Exit(1)
	}
	bad, n := 0, 0
	var total time.Duration
	var calls int64
	for _, it := range cliprop.All() {
		name := it.OpName() + "/" + string(it.Scenario())
		if filter != "" && !strings.Contains(name, filter) {
			continue
		}
		n++
		root := filepath.Join(base, "sb")
		c, err := cliprop.Build(fx, root, it)
		if err != nil {
			bad++
			fmt.Printf("FAIL %-60s %v\n", name, err)
			continue
		}
		m := &osmon.Mon{Scope: root, Record: true}
		t0 := time.Now()
		var rerr error
		var pv any
		m.Run(func() { rerr, pv = c.Run() })
		d := time.Since(t0)
		total += d
		calls += m.Calls()
		if pv != nil || (rerr != nil) != c.ExpectFail {
			bad++
			fmt.Printf("FAIL %-60s monitored run: err=%v panic=%v\n", name, rerr, pv)
			continue
		}
		fmt.Printf("ok   %-60s calls=%-5d %6.1fms dest=%v aux=%v\n", name, m.Calls(), float64(d.Microseconds())/1000, c.Dest, c.Aux)
		if os.Getenv("CLIPROBE_TRACE") != "" {
			for _, e := range m.Events() {
				r, _ := filepath.Rel(root, e.Path)
				fmt.Printf("       %3d %-9s %-40s n=%d err=%s depth=%d\n", e.Seq, e.Op, r, e.N, e.Err, e.Depth)
			}
		}
	}
	fmt.Printf("%d items, %d failed, %d fs calls, %.1fs\n", n, bad, calls, total.Seconds())
	if bad > 0 {
		os.Exit(1)
	}
}
