package main

import (
	"encoding/json"
	"fmt"
	"math"
	"math/rand/v2"
	"strings"

	"github.com/pdfcpu/pdfcpu/pkg/pdfcpu"
	"github.com/pdfcpu/pdfcpu/pkg/pdfcpu/color"
	"verif/harness/internal/pdftext"
)

// node is the harness' own bookmark tree type (what is added, what the exported JSON says,
// what the independent reader sees).
type node struct {
	Title  string      `json:"title"`
	Page   int         `json:"page"` // 1-based
	Bold   bool        `json:"bold,omitempty"`
	Italic bool        `json:"italic,omitempty"`
	Color  *[3]float64 `json:"color,omitempty"`
	Kids   []*node     `json:"kids,omitempty"`
}

func countNodes(ns []*node) int {
	n := 0
	for _, x := range ns {
		n += 1 + countNodes(x.Kids)
	}
	return n
}

func depthOf(ns []*node) int {
	d := 0
	for _, x := range ns {
		if k := 1 + depthOf(x.Kids); k > d {
			d = k
		}
	}
	return d
}

// ordered: the input rule AddBookmarks enforces (ErrInvalidBookmark): target pages do not
// decrease among siblings and a first child does not point before its parent.
func ordered(ns []*node, parentPage int) bool {
	prev := 0
	for i, x := range ns {
		if i == 0 && x.Page < parentPage {
			return false
		}
		if i > 0 && x.Page < prev {
			return false
		}
		prev = x.Page
		if !ordered(x.Kids, x.Page) {
			return false
		}
	}
	return true
}

var long300 = strings.Repeat("A long bookmark title 0123456789 ", 9)

var fragments = []string{
	"Chapter", "1.2", "Intro", "Appendix A", "x", "Z",
	"(", ")", "a(b", "a)b", "(x)", "((", "))", ")(",
	"\\", "end\\", "\\(", "\\)", "\\n", "\\\\", "\\101", "a\\b",
	"\u00fc", "\u00e9t\u00e9", "\u03a9", "\u65e5\u672c\u8a9e", "\u20ac",
	"\ud7ff", "\ue000", "\ufffd", "\uffff", "\ufffe", "\U0001F600", "\U00010000", "\U0010FFFF",
	"#", "/", "%", "<>", "[]", "{}", "&", "\"", "'",
	"\u00fe\u00ff", "\u5c5c", "\u5c28", "\u285c", // UTF-16 code units containing the bytes 0x5C / 0x28
}

func genTitle(rng *rand.Rand, used []string) string {
	switch rng.IntN(20) {
	case 0:
		if len(used) > 0 {
			return used[rng.IntN(len(used))] // duplicate title
		}
	case 1:
		return " "
	case 2:
		return long300 + fragments[rng.IntN(len(fragments))]
	case 3:
		return " lead and trail "
	}
	n := 1 + rng.IntN(3)
	var parts []string
	for i := 0; i < n; i++ {
		parts = append(parts, fragments[rng.IntN(len(fragments))])
	}
	sep := []string{"", " ", " - "}[rng.IntN(3)]
	return strings.Join(parts, sep)
}

var colorValues = []float64{0, 1, 0.5, 0.25, 0.1, 1.0 / 3, 0.123456789, 0.9999999, 0.0000001, 0.7}

// genTree draws a valid bookmark forest: depth 1-5, 1-6 siblings, at most maxNodes items,
// target pages within [1,pages] obeying the ordering rule.
func genTree(rng *rand.Rand, pages int) []*node {
	wantDepth := 1 + rng.IntN(5)
	budget := 6 + rng.IntN(50)
	var used []string
	var gen func(level, parentPage int, spine bool) []*node
	gen = func(level, parentPage int, spine bool) []*node {
		n := 1 + rng.IntN(6)
		if level > 1 {
			n = 1 + rng.IntN(4)
		}
		var out []*node
		cur := parentPage
		spineIdx := rng.IntN(n)
		for i := 0; i < n && (budget > 0 || i == 0); i++ {
			budget--
			if rng.IntN(2) == 0 && cur < pages {
				cur += rng.IntN(pages - cur + 1)
			}
			x := &node{Title: genTitle(rng, used), Page: cur}
			used = append(used, x.Title)
			switch rng.IntN(6) {
			case 0:
				x.Bold = true
			case 1:
				x.Italic = true
			case 2:
				x.Bold, x.Italic = true, true
			}
			if rng.IntN(3) == 0 {
				x.Color = &[3]float64{colorValues[rng.IntN(len(colorValues))], colorValues[rng.IntN(len(colorValues))], colorValues[rng.IntN(len(colorValues))]}
			}
			out = append(out, x)
		}
		for i, x := range out {
			onSpine := spine && (i == spineIdx || (spineIdx >= len(out) && i == len(out)-1))
			if level < wantDepth && (onSpine || (budget > 0 && rng.IntN(3) == 0)) {
				x.Kids = gen(level+1, x.Page, onSpine)
			}
		}
		return out
	}
	return gen(1, 1, true)
}

func toBookmarks(ns []*node) []pdfcpu.Bookmark {
	var out []pdfcpu.Bookmark
	for _, x := range ns {
		bm := pdfcpu.Bookmark{Title: x.Title, PageFrom: x.Page, Bold: x.Bold, Italic: x.Italic, Kids: toBookmarks(x.Kids)}
		if x.Color != nil {
			bm.Color = &color.SimpleColor{R: float32(x.Color[0]), G: float32(x.Color[1]), B: float32(x.Color[2])}
		}
		out = append(out, bm)
	}
	return out
}

func fromBookmarks(bms []pdfcpu.Bookmark) []*node {
	var out []*node
	for _, b := range bms {
		x := &node{Title: b.Title, Page: b.PageFrom, Bold: b.Bold, Italic: b.Italic, Kids: fromBookmarks(b.Kids)}
		if b.Color != nil {
			x.Color = &[3]float64{float64(b.Color.R), float64(b.Color.G), float64(b.Color.B)}
		}
		out = append(out, x)
	}
	return out
}

// the exported JSON, parsed with the harness' own types
type jsonBM struct {
	Title  string `json:"title"`
	Page   int    `json:"page"`
	Bold   bool   `json:"bold"`
	Italic bool   `json:"italic"`
	Color  *struct {
		R, G, B float64
	} `json:"color"`
	Kids []jsonBM `json:"kids"`
}

func parseExport(b []byte) ([]*node, error) {
	var doc struct {
		Bookmarks []jsonBM `json:"bookmarks"`
	}
	if err := json.Unmarshal(b, &doc); err != nil {
		return nil, err
	}
	var conv func([]jsonBM) []*node
	conv = func(js []jsonBM) []*node {
		var out []*node
		for _, j := range js {
			x := &node{Title: j.Title, Page: j.Page, Bold: j.Bold, Italic: j.Italic, Kids: conv(j.Kids)}
			if j.Color != nil {
				x.Color = &[3]float64{j.Color.R, j.Color.G, j.Color.B}
			}
			out = append(out, x)
		}
		return out
	}
	return conv(doc.Bookmarks), nil
}

// colour tolerance: pdfcpu holds colours as float32 and writes reals with 12 decimals; the
// property asks for the same colour, not the same bits.
const colorTol = 1e-6

type diff struct {
	Key  string // key suffix
	What string
}

// compare returns the differences between two forests, at most one per aspect.
func compare(want, got []*node) []diff {
	seen := map[string]bool{}
	var out []diff
	add := func(key, what string) {
		if !seen[key] {
			seen[key] = true
			out = append(out, diff{key, what})
		}
	}
	var walk func(path string, w, g []*node)
	walk = func(path string, w, g []*node) {
		if len(w) != len(g) {
			cls := "more-children"
			if len(g) < len(w) {
				cls = "fewer-children"
				// which one is missing?
				pre := true
				for i := range g {
					if g[i].Title != w[i].Title {
						pre = false
					}
				}
				if pre && len(g) == len(w)-1 {
					cls = "last-child-missing"
				}
			}
			add("nesting/class="+cls, fmt.Sprintf("at %s: want %d children %q, got %d %q", path, len(w), titles(w), len(g), titles(g)))
		}
		for i := 0; i < len(w) && i < len(g); i++ {
			a, b := w[i], g[i]
			p := fmt.Sprintf("%s/%d", path, i)
			if a.Title != b.Title {
				// order problem or text problem?
				cls := "title/class=" + pdftext.DiffClass(a.Title, b.Title)
				for j := range g {
					if j != i && g[j].Title == a.Title && (j >= len(w) || w[j].Title != a.Title) {
						cls = "order"
					}
				}
				add(cls, fmt.Sprintf("at %s: want title [%s] got [%s]", p, pdftext.Q(a.Title), pdftext.Q(b.Title)))
			}
			if a.Page != b.Page {
				add("page/titleclass="+titleClass(a.Title), fmt.Sprintf("at %s [%s]: want page %d got %d", p, pdftext.Q(a.Title), a.Page, b.Page))
			}
			if a.Bold != b.Bold {
				add("style=bold", fmt.Sprintf("at %s [%s]: want bold=%v got %v (italic want %v got %v)", p, pdftext.Q(a.Title), a.Bold, b.Bold, a.Italic, b.Italic))
			}
			if a.Italic != b.Italic {
				add("style=italic", fmt.Sprintf("at %s [%s]: want italic=%v got %v (bold want %v got %v)", p, pdftext.Q(a.Title), a.Italic, b.Italic, a.Bold, b.Bold))
			}
			switch {
			case a.Color == nil && b.Color != nil:
				add("color/class=extra", fmt.Sprintf("at %s: no colour wanted, got %v", p, *b.Color))
			case a.Color != nil && b.Color == nil:
				add("color/class=missing", fmt.Sprintf("at %s: want colour %v, got none", p, *a.Color))
			case a.Color != nil:
				for c := 0; c < 3; c++ {
					if math.Abs(float64(float32(a.Color[c]))-b.Color[c]) > colorTol {
						add("color/class=value", fmt.Sprintf("at %s: want colour %v got %v", p, *a.Color, *b.Color))
					}
				}
			}
			walk(p, a.Kids, b.Kids)
		}
	}
	walk("", want, got)
	return out
}

func titles(ns []*node) []string {
	var out []string
	for _, x := range ns {
		out = append(out, pdftext.Q(x.Title))
	}
	return out
}

// titleClass: the most special character class in a title (for keys of non-title aspects that
// may depend on the title, e.g. the target page is stored under a named destination = title).
func titleClass(s string) string {
	order := []string{"backslash", "paren", "hash", "delimiter"}
	present := map[string]bool{}
	nonASCII := false
	for _, r := range s {
		present[pdftext.RuneClass(r)] = true
		if r >= 0x80 {
			nonASCII = true
		}
	}
	for _, c := range order {
		if present[c] {
			return c
		}
	}
	if nonASCII {
		return "non-ascii"
	}
	if len(s) > 127 {
		return "long"
	}
	return "ascii"
}

func charClasses(ns []*node, into map[string]bool) {
	for _, x := range ns {
		into[titleClass(x.Title)] = true
		charClasses(x.Kids, into)
	}
}
