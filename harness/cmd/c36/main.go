// C36 — bookmark export and import round-trip; reading bookmarks terminates on any outline.
//
// Round trip (in process): a random bookmark forest (depth 1-5, 1-6 siblings, Unicode titles
// incl. U+D7FF U+E000 U+FFFD U+FFFF, astral characters, ( ) \, duplicates, bold/italic,
// colours, ordered target pages) is added with api.AddBookmarksFile to a pdfgen document (with
// or without an outline of its own) or a corpus file; then
//
//	ExportBookmarksFile -> JSON E1            E1 must equal the forest that was added
//	ImportBookmarksFile(E1, replace) into the same document or into the base document (same pages)
//	ExportBookmarksFile -> JSON E2            E2 must equal E1
//
// (titles, pages, nesting, order, bold, italic, colour within 1e-6). api.Bookmarks must show the
// same forest, and an independent reader (pdfstrict + pdftext) must find the same titles, target
// pages, nesting, order, /F flags and /C colours by following /First and /Next, with consistent
// /Parent, /Prev and /Last links. For pdfgen documents that come with an outline, that outline
// is exported, imported with replace and exported again (when it satisfies the ordering rule
// ImportBookmarks enforces).
//
// Termination (child processes, child.go): pdfgen documents whose outlines carry /Next, /Prev,
// /First, /Parent, /Last cycles and self references, absurd /Count values, deep /First chains
// and long /Next chains are read with api.Bookmarks, api.ExportBookmarksFile and (on the context
// as read, without validation) pdfcpu.BookmarksForOutlineItem; each call must return (value or
// error) without panic within the CPU bound measured by the kernel. Hand-made outlines (hand.go)
// repeat every cycle shape with the items on the cycle drawn from every item kind the walker
// distinguishes (regular, GoTo action, URI action, empty / missing title, title only, unresolved
// named destination, page out of range), alone and in pairs, at top level and in a kids list.
package main

import (
	"encoding/json"
	"errors"
	"fmt"
	"math/rand/v2"
	"os"
	"path/filepath"
	"regexp"
	"sort"
	"strings"

	"github.com/pdfcpu/pdfcpu/pkg/api"
	"github.com/pdfcpu/pdfcpu/pkg/pdfcpu"
	"verif/harness/internal/pdfgen"
	"verif/harness/internal/pdfstrict"
	"verif/harness/internal/pdftext"
	"verif/harness/internal/vk"
)

type baseSpec struct {
	Kind   string `json:"kind"` // gen | gen-outlined | corpus
	Seed   uint64 `json:"seed,omitempty"`
	Corpus string `json:"corpus,omitempty"`
}

type rtCase struct {
	Base           baseSpec `json:"base"`
	Tree           []*node  `json:"tree"`
	Replace        bool     `json:"replace"`
	ImportIntoBase bool     `json:"importIntoBase"`
}

type hostileCase struct {
	Attack string    `json:"attack"`
	Seed   uint64    `json:"seed"`
	Hand   *handSpec `json:"hand,omitempty"` // hand-made outline (hand.go); Attack is "Hand-<shape>"
}

type replayCase struct {
	RT      *rtCase      `json:"roundtrip,omitempty"`
	Hostile *hostileCase `json:"hostile,omitempty"`
}

var corpus = []string{"Walden.pdf", "testWithText.pdf", "bookletTest.pdf", "zineTest.pdf"}

type base struct {
	Bytes    []byte
	Pages    int
	Outlines []*pdfgen.OutlineTruth
}

func makeBase(b baseSpec) (*base, error) {
	switch b.Kind {
	case "gen", "gen-outlined":
		rng := rand.New(rand.NewPCG(b.Seed, 0xC36))
		ds := pdfgen.DocSpec{
			Seed: rng.Uint64(), Pages: 1 + rng.IntN(9), Filters: pdfgen.FiltersFlate,
			Info: rng.IntN(2) == 0, Inherit: rng.IntN(2) == 0, MaxFanout: 1 + rng.IntN(4),
			Write: pdfgen.RandomOptions(rng),
		}
		if rng.IntN(3) == 0 {
			ds.Dests = 1 + rng.IntN(4) // a /Dests name tree of its own
		}
		if b.Kind == "gen-outlined" {
			ds.Outlines = 2 + rng.IntN(10)
			ds.OutlineDepth = 1 + rng.IntN(4)
		}
		bt := pdfgen.Build(ds)
		return &base{Bytes: bt.Bytes, Pages: len(bt.Truth.Pages), Outlines: bt.Truth.Outlines}, nil
	case "corpus":
		data, err := os.ReadFile(filepath.Join(vk.RepoDir(), "pkg", "testdata", b.Corpus))
		if err != nil {
			return nil, err
		}
		doc, err := pdfstrict.Open(data, pdfstrict.Options{})
		if err != nil {
			return nil, err
		}
		pp, err := doc.Pages()
		if err != nil {
			return nil, err
		}
		return &base{Bytes: data, Pages: len(pp)}, nil
	}
	return nil, fmt.Errorf("unknown base kind %q", b.Kind)
}

var numRe = regexp.MustCompile(`\(obj#:? ?\d+\)|obj#:? ?\d+|#\d+|\d+`)

func errClass(err error) string {
	if p, ok := err.(*panicErr); ok {
		return "panic:" + p.Frame
	}
	s := err.Error()
	if i := strings.Index(s, "/verif/"); i >= 0 {
		s = s[:i] + "PATH"
	}
	// titles are quoted in messages: drop quoted parts
	s = regexp.MustCompile(`"(?:[^"\\]|\\.)*"`).ReplaceAllString(s, "Q")
	s = numRe.ReplaceAllString(s, "N")
	parts := strings.Split(s, ": ")
	if len(parts) > 2 {
		parts = parts[len(parts)-2:]
	}
	s = strings.Join(parts, ":")
	s = strings.Map(func(r rune) rune {
		if r <= ' ' || r > '~' {
			return '_'
		}
		return r
	}, s)
	if len(s) > 90 {
		s = s[:90]
	}
	return s
}

type rtRunner struct {
	t  *vk.T
	rc rtCase
}

func (r *rtRunner) violate(key, what string) {
	r.t.Violate(key, what, replayCase{RT: &r.rc})
}

func (r *rtRunner) diffs(prefix string, want, got []*node, wantName, gotName string) bool {
	ds := compare(want, got)
	for _, d := range ds {
		r.violate(prefix+"/"+d.Key, fmt.Sprintf("%s vs %s: %s", wantName, gotName, d.What))
	}
	return len(ds) == 0
}

func exportTree(pdf, js string) ([]*node, error) {
	os.Remove(js)
	if err := guard(func() error { return api.ExportBookmarksFile(pdf, js, newConf()) }); err != nil {
		return nil, err
	}
	b, err := os.ReadFile(js)
	if err != nil {
		return nil, fmt.Errorf("exported JSON: %w", err)
	}
	ns, err := parseExport(b)
	if err != nil {
		return nil, fmt.Errorf("exported JSON does not parse: %w", err)
	}
	return ns, nil
}

func (r *rtRunner) strict(file string, want []*node, stage string) {
	t := r.t
	data, err := os.ReadFile(file)
	if err != nil {
		t.Broken("read %s: %v", file, err)
	}
	so, err := readOutline(data)
	if err != nil {
		r.violate("strict/unreadable/stage="+stage, fmt.Sprintf("independent reader cannot read the result: %v", err))
		return
	}
	t.Count("strict_outlines_read", 1)
	t.Count("strict_items_read", int64(so.N))
	if !so.Present {
		r.violate("strict/no-outline/stage="+stage, "the catalog has no /Outlines dictionary")
		return
	}
	r.diffs("strict", want, so.Items, "forest added", "outline in the file after "+stage)
	seen := map[string]bool{}
	for i, c := range so.Links {
		if !seen[c] {
			seen[c] = true
			r.violate("strict/links/class="+c, fmt.Sprintf("after %s: %s", stage, so.LinkMsg[i]))
		}
	}
	for _, c := range so.Counts {
		t.Count("strict_count_deviation_"+c, 1)
	}
	if so.BadText > 0 {
		t.Count("strict_titles_not_wellformed_text", int64(so.BadText))
	}
}

func truthForest(os []*pdfgen.OutlineTruth) []*node {
	var out []*node
	for _, o := range os {
		x := &node{Title: o.Title, Page: o.Page + 1, Bold: o.Bold, Italic: o.Italic, Color: o.Color, Kids: truthForest(o.Kids)}
		out = append(out, x)
	}
	return out
}

func runRoundTrip(t *vk.T, idx int, rc rtCase, rng *rand.Rand) {
	dir := filepath.Join(t.Scratch(), fmt.Sprintf("rt-%d", idx))
	if err := os.MkdirAll(dir, 0o755); err != nil {
		t.Broken("mkdir: %v", err)
	}
	defer os.RemoveAll(dir)
	b, err := makeBase(rc.Base)
	if err != nil {
		t.Broken("base %+v: %v", rc.Base, err)
	}
	in := filepath.Join(dir, "in.pdf")
	if err := os.WriteFile(in, b.Bytes, 0o644); err != nil {
		t.Broken("%v", err)
	}
	if rc.Tree == nil {
		rc.Tree = genTree(rng, b.Pages)
		rc.Replace = len(b.Outlines) > 0 || rng.IntN(2) == 0
		rc.ImportIntoBase = rng.IntN(2) == 0
	}
	r := &rtRunner{t: t, rc: rc}
	tree := rc.Tree
	classes := map[string]bool{}
	charClasses(tree, classes)
	cl := make([]string, 0, len(classes))
	for c := range classes {
		cl = append(cl, c)
	}
	sort.Strings(cl)
	n := countNodes(tree)
	t.Eval(fmt.Sprintf("rt|%s|depth=%d|size=%d|%s|into-base=%v", rc.Base.Kind, depthOf(tree), n/8, strings.Join(cl, "+"), rc.ImportIntoBase))
	t.Count("roundtrip_cases", 1)
	t.Count("bookmarks_added", int64(n))
	if idx < 3 {
		t.Sample(map[string]any{"base": rc.Base, "pages": b.Pages, "items": n, "depth": depthOf(tree), "first_titles": titles(tree)})
	}

	// the document's own outline: export -> import(replace) -> export
	if len(b.Outlines) > 0 {
		j0 := filepath.Join(dir, "e0.json")
		e0, err := exportTree(in, j0)
		switch {
		case err != nil && errors.Is(err, pdfcpu.ErrNoBookmarks):
			t.Count("generated_outline_nothing_exportable", 1)
		case err != nil:
			r.violate("op=ExportBookmarksFile/class=unexpected-error/"+errClass(err), fmt.Sprintf("export of a pdfgen outline failed: %v", err))
		default:
			t.Count("generated_outline_exported", 1)
			if len(compare(truthFilter(truthForest(b.Outlines)), e0)) > 0 {
				t.Count("generated_outline_export_differs_from_generator_truth", 1)
			}
			if !ordered(e0, 1) {
				t.Count("generated_outline_not_page_ordered_import_skipped", 1)
			} else {
				g1 := filepath.Join(dir, "g1.pdf")
				if err := guard(func() error { return api.ImportBookmarksFile(in, j0, g1, true, newConf()) }); err != nil {
					r.violate("op=ImportBookmarksFile/class=unexpected-error/"+errClass(err), fmt.Sprintf("import of the document's own exported outline failed: %v", err))
				} else if e1, err := exportTree(g1, filepath.Join(dir, "g1.json")); err != nil {
					r.violate("op=ExportBookmarksFile/class=unexpected-error/"+errClass(err), fmt.Sprintf("export after import failed: %v", err))
				} else {
					t.Count("generated_outline_roundtrips", 1)
					r.diffs("roundtrip", e0, e1, "first export (pdfgen outline)", "export after import")
				}
			}
		}
		// without replace an existing outline must be kept and the call refused
		if idx%4 == 0 {
			out0 := filepath.Join(dir, "norepl.pdf")
			err := guard(func() error { return api.AddBookmarksFile(in, out0, toBookmarks(tree), false, newConf()) })
			_, statErr := os.Stat(out0)
			switch {
			case err == nil:
				r.violate("op=AddBookmarksFile/replace=false/class=unexpected-success", "adding without replace to a document that has an outline succeeded")
			case !errors.Is(err, pdfcpu.ErrExistingBookmarks):
				if _, isPanic := err.(*panicErr); isPanic {
					r.violate("op=AddBookmarksFile/replace=false/class=panic/"+errClass(err), err.Error())
				} else {
					t.Count("add_without_replace_other_error", 1)
				}
			case statErr == nil:
				r.violate("op=AddBookmarksFile/replace=false/class=error-left-output", "refused, but the output file exists")
			default:
				t.Count("add_without_replace_refused", 1)
			}
		}
	}

	// add
	out1 := filepath.Join(dir, "out1.pdf")
	if err := guard(func() error { return api.AddBookmarksFile(in, out1, toBookmarks(tree), rc.Replace, newConf()) }); err != nil {
		r.violate("op=AddBookmarksFile/class=unexpected-error/"+errClass(err), fmt.Sprintf("adding a valid forest of %d items failed: %v", n, err))
		return
	}
	j1 := filepath.Join(dir, "e1.json")
	e1, err := exportTree(out1, j1)
	if err != nil {
		r.violate("op=ExportBookmarksFile/class=unexpected-error/"+errClass(err), fmt.Sprintf("export after AddBookmarksFile failed: %v", err))
		return
	}
	t.Count("exports_compared", 1)
	r.diffs("added-vs-export", tree, e1, "forest added", "first export")

	// listing path
	var listed []*node
	err = guard(func() error {
		f, err := os.Open(out1)
		if err != nil {
			return err
		}
		defer f.Close()
		bms, err := api.Bookmarks(f, newConf())
		listed = fromBookmarks(bms)
		return err
	})
	if err != nil {
		r.violate("op=Bookmarks/class=unexpected-error/"+errClass(err), err.Error())
	} else {
		r.diffs("added-vs-list", tree, listed, "forest added", "api.Bookmarks")
	}
	r.strict(out1, tree, "AddBookmarksFile")

	// import the exported JSON with replace into a document with the same pages
	target := out1
	if rc.ImportIntoBase {
		target = in
	}
	out2 := filepath.Join(dir, "out2.pdf")
	if err := guard(func() error { return api.ImportBookmarksFile(target, j1, out2, true, newConf()) }); err != nil {
		r.violate("op=ImportBookmarksFile/class=unexpected-error/"+errClass(err), fmt.Sprintf("importing the exported JSON failed: %v", err))
		return
	}
	e2, err := exportTree(out2, filepath.Join(dir, "e2.json"))
	if err != nil {
		r.violate("op=ExportBookmarksFile/class=unexpected-error/"+errClass(err), fmt.Sprintf("export after ImportBookmarksFile failed: %v", err))
		return
	}
	t.Count("roundtrips_compared", 1)
	if r.diffs("roundtrip", e1, e2, "first export", "export after import") && len(compare(tree, e1)) == 0 {
		r.strict(out2, tree, "ImportBookmarksFile")
	}
}

// truthFilter drops what pdfcpu's export skips by design: items without a destination.
func truthFilter(ns []*node) []*node {
	var out []*node
	for _, x := range ns {
		if x.Page <= 0 || x.Title == "" {
			continue
		}
		y := *x
		y.Kids = truthFilter(x.Kids)
		out = append(out, &y)
	}
	return out
}

// ---------------------------------------------------------------------------------------------
// hostile outlines
// ---------------------------------------------------------------------------------------------

var pdfgenAttacks = map[string]pdfgen.GraphAttack{
	"OutlineNextSelf": pdfgen.OutlineNextSelf, "OutlineNextCycle": pdfgen.OutlineNextCycle, "OutlinePrevCycle": pdfgen.OutlinePrevCycle,
	"OutlineFirstSelf": pdfgen.OutlineFirstSelf, "OutlineFirstParent": pdfgen.OutlineFirstParent, "OutlineParentSelf": pdfgen.OutlineParentSelf,
	"OutlineRootFirstRoot": pdfgen.OutlineRootFirstRoot, "OutlineCountLie": pdfgen.OutlineCountLie,
}

var customAttacks = []string{"PrevSelf", "LastIsRoot", "NextIsParent", "NextBackTwo", "FirstIsNextSibling", "FirstIsGrandparent", "DeepFirstChain", "LongNextChain", "Control"}

func attackNames() []string {
	var out []string
	for n := range pdfgenAttacks {
		out = append(out, n)
	}
	sort.Strings(out)
	return append(out, customAttacks...)
}

func refOf(o pdfgen.Object) (pdfgen.Ref, bool) { r, ok := o.(pdfgen.Ref); return r, ok }

// buildHostile returns the bytes of the attacked document ("" description if the attack does not apply).
func buildHostile(hc hostileCase) ([]byte, string, bool) {
	if hc.Hand != nil {
		data, desc, err := buildHand(*hc.Hand)
		if err != nil {
			panic(fmt.Sprintf("hand-made outline: %v", err))
		}
		return data, desc, true
	}
	rng := rand.New(rand.NewPCG(hc.Seed, 0xBAD36))
	ds := pdfgen.DocSpec{
		Seed: rng.Uint64(), Pages: 2 + rng.IntN(4), Filters: pdfgen.FiltersFlate,
		Outlines: 4 + rng.IntN(10), OutlineDepth: 2 + rng.IntN(3), Dests: rng.IntN(4),
		Write: pdfgen.RandomOptions(rng),
	}
	bt := pdfgen.Build(ds)
	write := func(doc *pdfgen.Doc) []byte {
		opts := ds.Write
		opts.Version = pdfgen.FitVersion(opts, bt.Truth.MinVersion)
		out, err := pdfgen.Write(doc, opts)
		if err != nil {
			panic(fmt.Sprintf("pdfgen: %v", err))
		}
		return out.Bytes
	}
	if a, ok := pdfgenAttacks[hc.Attack]; ok {
		doc, desc, ok := pdfgen.ApplyGraphAttack(bt, a, rng, 0)
		if !ok {
			return nil, "", false
		}
		return write(doc), desc, true
	}
	doc := bt.Doc.Clone()
	o := bt.Truth.Objs
	items := o.OutlineItems
	if len(items) == 0 {
		return nil, "", false
	}
	get := func(num int, key string) (pdfgen.Ref, bool) {
		d, ok := doc.GetDict(num)
		if !ok {
			return pdfgen.Ref{}, false
		}
		v, _ := d.Get(pdfgen.Name(key))
		return refOf(v)
	}
	ref := func(n int) pdfgen.Ref { return pdfgen.Ref{Num: n} }
	it := items[rng.IntN(len(items))]
	switch hc.Attack {
	case "Control":
		return write(doc), "unmodified outline", true
	case "PrevSelf":
		return write(doc), fmt.Sprintf("item %d /Prev = itself", it), doc.SetKey(it, "Prev", ref(it))
	case "LastIsRoot":
		return write(doc), fmt.Sprintf("item %d /Last = outline root", it), doc.SetKey(it, "Last", ref(o.OutlineRoot))
	case "NextIsParent":
		for _, c := range items {
			if p, ok := get(c, "Parent"); ok && p.Num != o.OutlineRoot {
				doc.SetKey(c, "Next", p)
				return write(doc), fmt.Sprintf("item %d /Next = its parent %d", c, p.Num), true
			}
		}
	case "NextBackTwo":
		for _, c := range items {
			if p, ok := get(c, "Prev"); ok {
				if pp, ok := get(p.Num, "Prev"); ok {
					doc.SetKey(c, "Next", p)
					return write(doc), fmt.Sprintf("item %d /Next = its predecessor %d (cycle that does not include the first sibling %d)", c, p.Num, pp.Num), true
				}
			}
		}
	case "FirstIsNextSibling":
		for _, c := range items {
			if nx, ok := get(c, "Next"); ok {
				doc.SetKey(c, "First", nx)
				doc.SetKey(c, "Last", nx)
				return write(doc), fmt.Sprintf("item %d /First = its next sibling %d", c, nx.Num), true
			}
		}
	case "FirstIsGrandparent":
		for _, c := range items {
			if p, ok := get(c, "Parent"); ok && p.Num != o.OutlineRoot {
				if gp, ok := get(p.Num, "Parent"); ok {
					doc.SetKey(c, "First", gp)
					return write(doc), fmt.Sprintf("item %d /First = its grandparent %d", c, gp.Num), true
				}
			}
		}
	case "DeepFirstChain", "LongNextChain":
		// a valid but extreme outline appended below / after the last top-level item
		n := 1000 + rng.IntN(2000)
		if hc.Attack == "LongNextChain" {
			n = 1000 + rng.IntN(1000)
		}
		page := ref(o.PageObjs[0])
		last, ok := get(o.OutlineRoot, "Last")
		if !ok {
			return nil, "", false
		}
		refs := make([]pdfgen.Ref, n)
		for i := range refs {
			refs[i] = doc.Alloc()
		}
		for i, r := range refs {
			d := pdfgen.D("Title", pdfgen.String(fmt.Sprintf("chain %d", i)), "Dest", pdfgen.Array{page, pdfgen.Name("Fit")})
			if hc.Attack == "DeepFirstChain" {
				parent := last
				if i > 0 {
					parent = refs[i-1]
				}
				d.Set("Parent", parent)
				if i+1 < n {
					d.Set("First", refs[i+1])
					d.Set("Last", refs[i+1])
					d.Set("Count", pdfgen.Int(1))
				}
			} else {
				d.Set("Parent", ref(o.OutlineRoot))
				prev := last
				if i > 0 {
					prev = refs[i-1]
				}
				d.Set("Prev", prev)
				if i+1 < n {
					d.Set("Next", refs[i+1])
				}
			}
			doc.Put(r, d)
		}
		if hc.Attack == "DeepFirstChain" {
			doc.SetKey(last.Num, "First", refs[0])
			doc.SetKey(last.Num, "Last", refs[0])
			doc.SetKey(last.Num, "Count", pdfgen.Int(1))
		} else {
			doc.SetKey(last.Num, "Next", refs[0])
			doc.SetKey(o.OutlineRoot, "Last", refs[n-1])
		}
		return write(doc), fmt.Sprintf("%s of %d items", hc.Attack, n), true
	}
	return nil, "", false
}

// slowCallMs: a call that returned but needed this much CPU is reported too (normal: a few ms).
const slowCallMs = 10000

func judgeHostile(t *vk.T, hc hostileCase, desc string, res []callResult) {
	for j, r := range res {
		a := apis[j]
		if hc.Hand != nil {
			t.Eval(fmt.Sprintf("hostile|%s|%s|%s|%s", hc.Attack, hc.Hand.id(), a, r.Outcome))
			if r.Outcome == "error" && strings.Contains(r.Detail, "circular") {
				t.Count("hand_"+a+"_cycle_reported", 1)
			}
		} else {
			t.Eval(fmt.Sprintf("hostile|%s|%s|%s", hc.Attack, a, r.Outcome))
		}
		t.Count("hostile_"+hc.Attack+"_"+r.Outcome, 1)
		where := fmt.Sprintf("attack=%s/api=%s", hc.Attack, a)
		what := fmt.Sprintf("%s (%s): %s after %d ms CPU: %s", hc.Attack, desc, r.Outcome, r.CPUms, r.Detail)
		rc := replayCase{Hostile: &hc}
		switch r.Outcome {
		case "ok", "error":
			if r.CPUms > slowCallMs {
				t.Violate("termination/cpu/"+where, what, rc)
			}
			if hc.Attack == "Control" && r.Outcome != "ok" && a != "BookmarksForOutlineItem" {
				t.Violate("termination/control-rejected/api="+a, what, rc)
			}
		case "panic":
			frame, _, _ := strings.Cut(r.Detail, " ")
			t.Violate("termination/panic/"+frame, what, rc)
		case "cpu":
			t.Violate("termination/cpu/"+where, what, rc)
		case "memory":
			t.Violate("termination/memory/"+where, what, rc)
		case "stack-overflow", "crash":
			t.Violate("termination/"+r.Outcome+"/"+where, what, rc)
		case "watchdog":
			t.Inconclusive("watchdog")
		case "not-run":
			t.Count("hostile_calls_skipped_after_child_death", 1)
		}
	}
}

func main() {
	if os.Getenv("C36_CHILD") != "" {
		childMain()
	}
	vk.Run("C36", "exploration", func(t *vk.T) {
		api.DisableConfigDir()
		t.Rule("round-trip case = one random bookmark forest on one base document (key: base kind, depth, size bucket, title character classes, import target); hostile case = one attacked outline x one API (key: attack, api, outcome)")
		t.Assume("bookmark forests obey the ordering rule AddBookmarks enforces (ErrInvalidBookmark): pages do not decrease among siblings, a first child does not point before its parent")
		t.Assume("titles contain no C0 control characters and are not empty (pdfcpu drops control bytes from titles and skips untitled items when reading)")
		t.Assume("colour components are compared within 1e-6 of their float32 value (pdfcpu holds float32, writes 12 decimals)")
		t.Assume("/Count values are observed (counters) but not judged: the property names titles, pages, nesting, order, colour, bold, italic")
		t.Assume(fmt.Sprintf("termination: CPU bound %d s per child batch of <= %d documents (%d s for the hand-made outlines of <= 7 items; 3 calls each; normal cost: milliseconds); memory bound %d MiB; a wall-clock watchdog of %v without reaching the CPU bound is inconclusive", cpuBoundSec, batchSize, cpuBoundHandSec, memBoundByte>>20, wallWatchdog))
		t.Assume("pdfgen outlines that are not page-ordered are exported but not re-imported (ImportBookmarks refuses them by design)")

		if t.Replay != nil {
			var rc replayCase
			if err := json.Unmarshal(t.Replay.Case, &rc); err != nil {
				t.Broken("replay case: %v", err)
			}
			switch {
			case rc.RT != nil:
				runRoundTrip(t, 0, *rc.RT, nil)
			case rc.Hostile != nil:
				bound := cpuBoundSec
				if rc.Hostile.Hand != nil {
					bound = cpuBoundHandSec
				}
				runHostileCases(t, []hostileCase{*rc.Hostile}, "replay", bound)
			}
			t.Eval("replay-a")
			t.Eval("replay-b")
			return
		}

		n := t.Pick(600, 6000)
		vk.Parallel(n, func(i int) {
			rng := t.RNGi("roundtrip", i)
			b := baseSpec{Kind: "gen", Seed: rng.Uint64()}
			switch i % 6 {
			case 1, 4:
				b.Kind = "gen-outlined"
			case 5:
				b = baseSpec{Kind: "corpus", Corpus: corpus[(i/6)%len(corpus)]}
			}
			runRoundTrip(t, i, rtCase{Base: b}, rng)
		})

		var hcs []hostileCase
		seeds := t.Pick(8, 80)
		rng := t.RNG("hostile")
		for _, a := range attackNames() {
			k := seeds
			if a == "DeepFirstChain" || a == "LongNextChain" || a == "Control" {
				k = max(2, seeds/4)
			}
			for s := 0; s < k; s++ {
				hcs = append(hcs, hostileCase{Attack: a, Seed: rng.Uint64()})
			}
		}
		runHostileCases(t, hcs, "hostile", cpuBoundSec)

		// hand-made outlines (hand.go): every cycle shape x every item kind (pair) on the cycle x level
		var hand []hostileCase
		for _, h := range handSpecs() {
			h := h
			hand = append(hand, hostileCase{Attack: "Hand-" + h.Shape, Hand: &h})
		}
		t.Count("hand_made_outlines", int64(len(hand)))
		runHostileCases(t, hand, "hand", cpuBoundHandSec)
	})
}

func runHostileCases(t *vk.T, hcs []hostileCase, sub string, cpuBound int) {
	dir := filepath.Join(t.Scratch(), sub)
	if err := os.MkdirAll(dir, 0o755); err != nil {
		t.Broken("mkdir: %v", err)
	}
	type built struct {
		hc   hostileCase
		file string
		desc string
	}
	var bs []built
	for i, hc := range hcs {
		data, desc, ok := buildHostile(hc)
		if !ok {
			t.Count("hostile_attack_not_applicable", 1)
			continue
		}
		f := filepath.Join(dir, fmt.Sprintf("h%04d-%s.pdf", i, hc.Attack))
		if err := os.WriteFile(f, data, 0o644); err != nil {
			t.Broken("%v", err)
		}
		bs = append(bs, built{hc, f, desc})
	}
	if len(bs) > 0 && t.Replay == nil {
		t.Sample(map[string]any{"hostile_example": bs[0].desc, "hostile_documents": len(bs)})
	}
	nBatches := (len(bs) + batchSize - 1) / batchSize
	vk.Parallel(nBatches, func(b int) {
		lo, hi := b*batchSize, min((b+1)*batchSize, len(bs))
		var files []string
		for _, x := range bs[lo:hi] {
			files = append(files, x.file)
		}
		res := runHostile(files, cpuBound)
		for i, x := range bs[lo:hi] {
			if res[i] == nil {
				t.Inconclusive("hostile-no-verdict")
				continue
			}
			judgeHostile(t, x.hc, x.desc, res[i])
		}
	})
}

var _ = pdftext.Q
