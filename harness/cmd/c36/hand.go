package main

import (
	"fmt"
	"strings"

	"verif/harness/internal/pdfgen"
)

// Hand-made hostile outlines (termination clause), in addition to pdfgen's graph attacks.
//
// pdfgen's outlines consist of regular items only (a title and a destination). The outline
// walker treats other items differently (it SKIPS items without a title or without a page
// destination, and fails on some destinations), so every cycle shape is also built from every
// item kind: the items ON the cycle (X1, or X1 and X2) take every kind / every pair of kinds.
//
//	kinds   dest                    /Title + /Dest [page /Fit]
//	        goto                    /Title + /A << /S /GoTo /D [page /Fit] >>
//	        uri                     /Title + /A << /S /URI ... >>          (no destination)
//	        empty-title             /Title () + /Dest
//	        no-title                /Dest only
//	        separator               /Title only
//	        dest-unresolved         /Title + /Dest /NoSuchDestination       (no /Dests, no name tree)
//	        dest-page-out-of-range  /Title + /Dest [99 /Fit] in a 3 page document
//
//	shapes (sibling list L X1 [X2] T; L = lead-in, T = regular tail item)
//	        NoCycle         L X1 X2 T untouched (control for the item kinds)
//	        NextSelf        X1 /Next = X1
//	        Next2Cycle      list X1 X2 T (no lead-in), X2 /Next = X1
//	        NextBackMiddle  list L X1 X2 T, X2 /Next = X1 (cycle that does not contain the first sibling)
//	        NextIsParent    X1 /Next = the item (or outline root) the list hangs off
//	        FirstSelf       X1 /First = /Last = X1
//	        FirstAncestor   X1 has the kid X2; X2 /First = /Last = X1
//	        ParentSelf      X1 /Parent = X1
//	        ParentLoop      X1 /Parent = X2, X2 /Parent = X1
//
//	level   top   the list is the top level list of the outline
//	        kids  the list is the kids list of a regular top level item P (between regular items A and B)
//	lead    kind of the lead-in item L: dest | separator (alternating)
type handSpec struct {
	Shape string   `json:"shape"`
	Kinds []string `json:"kinds"`
	Level string   `json:"level"`
	Lead  string   `json:"lead"`
}

var handKinds = []string{"dest", "goto", "uri", "empty-title", "no-title", "separator", "dest-unresolved", "dest-page-out-of-range"}

// shape -> number of items on the cycle
var handShapes = []struct {
	Name string
	M    int
}{
	{"NoCycle", 2}, {"NextSelf", 1}, {"Next2Cycle", 2}, {"NextBackMiddle", 2}, {"NextIsParent", 1},
	{"FirstSelf", 1}, {"FirstAncestor", 2}, {"ParentSelf", 1}, {"ParentLoop", 2},
}

func (h handSpec) id() string {
	return fmt.Sprintf("%s/%s/lead=%s", strings.Join(h.Kinds, "+"), h.Level, h.Lead)
}

// handSpecs: every shape x every kind (pair) x both levels; the lead-in kind alternates.
func handSpecs() []handSpec {
	var out []handSpec
	leads := []string{"dest", "separator"}
	for _, sh := range handShapes {
		for _, level := range []string{"top", "kids"} {
			for i, k1 := range handKinds {
				if sh.M == 1 {
					out = append(out, handSpec{Shape: sh.Name, Kinds: []string{k1}, Level: level, Lead: leads[len(out)%2]})
					continue
				}
				for j, k2 := range handKinds {
					out = append(out, handSpec{Shape: sh.Name, Kinds: []string{k1, k2}, Level: level, Lead: leads[(i+j)%2]})
				}
			}
		}
	}
	return out
}

const handPages = 3

func handItem(kind, label string, page pdfgen.Ref) (pdfgen.Dict, error) {
	dest := pdfgen.Array{page, pdfgen.Name("Fit")}
	switch kind {
	case "dest":
		return pdfgen.D("Title", pdfgen.String(label), "Dest", dest), nil
	case "goto":
		return pdfgen.D("Title", pdfgen.String(label), "A", pdfgen.D("Type", pdfgen.Name("Action"), "S", pdfgen.Name("GoTo"), "D", dest)), nil
	case "uri":
		return pdfgen.D("Title", pdfgen.String(label), "A", pdfgen.D("Type", pdfgen.Name("Action"), "S", pdfgen.Name("URI"), "URI", pdfgen.String("https://example.com/"+label))), nil
	case "empty-title":
		return pdfgen.D("Title", pdfgen.String(""), "Dest", dest), nil
	case "no-title":
		return pdfgen.D("Dest", dest), nil
	case "separator":
		return pdfgen.D("Title", pdfgen.String("-- "+label+" --")), nil
	case "dest-unresolved":
		return pdfgen.D("Title", pdfgen.String(label), "Dest", pdfgen.Name("NoSuchDestination")), nil
	case "dest-page-out-of-range":
		return pdfgen.D("Title", pdfgen.String(label), "Dest", pdfgen.Array{pdfgen.Int(99), pdfgen.Name("Fit")}), nil
	}
	return nil, fmt.Errorf("unknown item kind %q", kind)
}

// buildHand returns the document and a description.
func buildHand(h handSpec) ([]byte, string, error) {
	m := 0
	for _, sh := range handShapes {
		if sh.Name == h.Shape {
			m = sh.M
		}
	}
	if m == 0 || len(h.Kinds) != m {
		return nil, "", fmt.Errorf("hand-made outline %s: %d kinds", h.Shape, len(h.Kinds))
	}
	doc := pdfgen.NewDoc()
	pagesRef, catRef, olRef := doc.Alloc(), doc.Alloc(), doc.Alloc()
	font := doc.Add(pdfgen.D("Type", pdfgen.Name("Font"), "Subtype", pdfgen.Name("Type1"), "BaseFont", pdfgen.Name("Helvetica")))
	var pageRefs pdfgen.Array
	var pages []pdfgen.Ref
	for i := 0; i < handPages; i++ {
		cs := doc.Add(&pdfgen.Stream{Dict: pdfgen.Dict{}, Data: []byte(fmt.Sprintf("BT /F1 12 Tf 40 700 Td (page %d) Tj ET\n", i+1))})
		r := doc.Add(pdfgen.D("Type", pdfgen.Name("Page"), "Parent", pagesRef, "MediaBox", pdfgen.Rect(0, 0, 500, 800),
			"Resources", pdfgen.D("Font", pdfgen.D("F1", font)), "Contents", cs))
		pages = append(pages, r)
		pageRefs = append(pageRefs, r)
	}
	doc.Put(pagesRef, pdfgen.D("Type", pdfgen.Name("Pages"), "Kids", pageRefs, "Count", pdfgen.Int(handPages)))

	type item struct {
		ref pdfgen.Ref
		d   pdfgen.Dict
	}
	nItem := 0
	mk := func(kind, label string) (*item, error) {
		d, err := handItem(kind, label, pages[nItem%handPages])
		nItem++
		if err != nil {
			return nil, err
		}
		return &item{ref: doc.Alloc(), d: d}, nil
	}
	// link makes a sibling list under parent and returns first and last
	link := func(parent pdfgen.Ref, list []*item) {
		for i, it := range list {
			it.d.Set("Parent", parent)
			if i > 0 {
				it.d.Set("Prev", list[i-1].ref)
			}
			if i+1 < len(list) {
				it.d.Set("Next", list[i+1].ref)
			}
		}
	}
	var all []*item
	must := func(it *item, err error) *item {
		if err != nil {
			panic(err)
		}
		all = append(all, it)
		return it
	}
	var berr error
	func() {
		defer func() {
			if r := recover(); r != nil {
				berr = fmt.Errorf("%v", r)
			}
		}()
		var L *item
		if h.Shape != "Next2Cycle" {
			L = must(mk(h.Lead, "lead"))
		}
		X1 := must(mk(h.Kinds[0], "x1"))
		var X2 *item
		if m == 2 {
			X2 = must(mk(h.Kinds[1], "x2"))
		}
		T := must(mk("dest", "tail"))
		var list []*item
		switch h.Shape {
		case "NoCycle", "NextBackMiddle", "ParentLoop":
			list = []*item{L, X1, X2, T}
		case "Next2Cycle":
			list = []*item{X1, X2, T}
		default: // one item in the list; FirstAncestor: X2 is the kid of X1
			list = []*item{L, X1, T}
		}
		container := olRef
		top := list
		if h.Level == "kids" {
			A, P, B := must(mk("dest", "chapter A")), must(mk("dest", "chapter P")), must(mk("dest", "chapter B"))
			container = P.ref
			P.d.Set("First", list[0].ref)
			P.d.Set("Last", list[len(list)-1].ref)
			P.d.Set("Count", pdfgen.Int(len(list)))
			top = []*item{A, P, B}
		}
		link(container, list)
		if h.Level == "kids" {
			link(olRef, top)
		}
		switch h.Shape {
		case "NextSelf":
			X1.d.Set("Next", X1.ref)
		case "Next2Cycle", "NextBackMiddle":
			X2.d.Set("Next", X1.ref)
		case "NextIsParent":
			X1.d.Set("Next", container)
		case "FirstSelf":
			X1.d.Set("First", X1.ref)
			X1.d.Set("Last", X1.ref)
			X1.d.Set("Count", pdfgen.Int(1))
		case "FirstAncestor":
			link(X1.ref, []*item{X2})
			X1.d.Set("First", X2.ref)
			X1.d.Set("Last", X2.ref)
			X1.d.Set("Count", pdfgen.Int(1))
			X2.d.Set("First", X1.ref)
			X2.d.Set("Last", X1.ref)
			X2.d.Set("Count", pdfgen.Int(1))
		case "ParentSelf":
			X1.d.Set("Parent", X1.ref)
		case "ParentLoop":
			X1.d.Set("Parent", X2.ref)
			X2.d.Set("Parent", X1.ref)
		}
		for _, it := range all {
			doc.Put(it.ref, it.d)
		}
		doc.Put(olRef, pdfgen.D("Type", pdfgen.Name("Outlines"), "First", top[0].ref, "Last", top[len(top)-1].ref, "Count", pdfgen.Int(len(top))))
	}()
	if berr != nil {
		return nil, "", berr
	}
	doc.Put(catRef, pdfgen.D("Type", pdfgen.Name("Catalog"), "Pages", pagesRef, "Outlines", olRef, "PageMode", pdfgen.Name("UseOutlines")))
	doc.SetRoot(catRef)
	out, err := pdfgen.Write(doc, pdfgen.Options{Version: "1.7", BinaryComment: true})
	if err != nil {
		return nil, "", err
	}
	return out.Bytes, fmt.Sprintf("hand-made outline %s, items on the cycle: %s, level %s, lead-in %s", h.Shape, strings.Join(h.Kinds, " + "), h.Level, h.Lead), nil
}
