package main

import (
	"bufio"
	"bytes"
	"context"
	"fmt"
	"io"
	"os"
	"os/exec"
	"runtime"
	"runtime/debug"
	"strconv"
	"strings"
	"syscall"
	"time"

	"github.com/pdfcpu/pdfcpu/pkg/api"
	"github.com/pdfcpu/pdfcpu/pkg/pdfcpu"
	"github.com/pdfcpu/pdfcpu/pkg/pdfcpu/model"
)

// Termination clause. Hostile outlines are read in a CHILD process so that an endless loop,
// unbounded recursion or unbounded allocation cannot take the worker down and so that the
// CPU time is measured by the kernel (getrusage of the reaped child).
//
// Protocol (stdout of the child, one line per event):
//   BEGIN <idx> <api>
//   END <idx> <api> <outcome> <cpu_ms> <detail>       outcome: ok | error | panic | memory
// The child gives itself RLIMIT_CPU = cpuBoundSec (hard): the kernel kills it when the batch
// has used that much CPU. Normal batches need well under a second.

const (
	cpuBoundSec     = 30                // CPU seconds one child (batch of <= batchSize files, 3 calls each) may use
	cpuBoundHandSec = 8                 // the same for a batch of hand-made outlines (<= 7 outline items, 3 pages each)
	memBoundByte    = 3 << 29           // heap+stacks the child may obtain from the OS
	wallWatchdog    = 300 * time.Second // generous: firing without the CPU bound being reached is inconclusive
	batchSize       = 12
)

// Bookmarks and ExportBookmarksFile validate first (the relaxed validator repairs some cycles);
// BookmarksForOutlineItem is the exported walker of pkg/pdfcpu/bookmark.go itself, called on the
// context as read, starting at the outline root's /First.
var apis = []string{"Bookmarks", "ExportBookmarksFile", "BookmarksForOutlineItem"}

func newConf() *model.Configuration {
	c := model.NewDefaultConfiguration()
	c.Offline = true
	return c
}

func innermostPdfcpuFrame() string {
	pcs := make([]uintptr, 96)
	n := runtime.Callers(3, pcs)
	frames := runtime.CallersFrames(pcs[:n])
	for {
		f, more := frames.Next()
		if strings.Contains(f.Function, "github.com/pdfcpu/pdfcpu/") && !strings.Contains(f.Function, "/fault.") {
			return f.Function[strings.LastIndex(f.Function, "/")+1:]
		}
		if !more {
			break
		}
	}
	return "unknown"
}

type panicErr struct{ Val, Frame string }

func (p *panicErr) Error() string { return "panic: " + p.Val + " at " + p.Frame }

func guard(f func() error) (err error) {
	defer func() {
		if r := recover(); r != nil {
			err = &panicErr{Val: fmt.Sprint(r), Frame: innermostPdfcpuFrame()}
		}
	}()
	return f()
}

func selfCPU() time.Duration {
	var ru syscall.Rusage
	if err := syscall.Getrusage(syscall.RUSAGE_SELF, &ru); err != nil {
		return 0
	}
	return time.Duration(ru.Utime.Nano() + ru.Stime.Nano())
}

// childMain: os.Args[1:] = files. Never returns.
func childMain() {
	api.DisableConfigDir()
	bound := uint64(cpuBoundSec)
	if n, err := strconv.Atoi(os.Getenv("C36_CPU_BOUND")); err == nil && n > 0 {
		bound = uint64(n)
	}
	lim := syscall.Rlimit{Cur: bound, Max: bound}
	_ = syscall.Setrlimit(syscall.RLIMIT_CPU, &lim)
	debug.SetMaxStack(256 << 20) // an unbounded recursion ends in a fatal "stack exceeds" quickly
	out := bufio.NewWriter(os.Stdout)
	cur := ""
	go func() { // memory guard
		var ms runtime.MemStats
		for {
			time.Sleep(50 * time.Millisecond)
			runtime.ReadMemStats(&ms)
			if ms.Sys > memBoundByte {
				fmt.Fprintf(os.Stdout, "\nEND %s memory 0 sys=%d\n", cur, ms.Sys)
				os.Exit(3)
			}
		}
	}()
	for idx, file := range os.Args[1:] {
		for _, a := range apis {
			cur = fmt.Sprintf("%d %s", idx, a)
			fmt.Fprintf(out, "BEGIN %s\n", cur)
			out.Flush()
			c0 := selfCPU()
			err := guard(func() error {
				switch a {
				case "Bookmarks":
					f, err := os.Open(file)
					if err != nil {
						return err
					}
					defer f.Close()
					_, err = api.Bookmarks(f, newConf())
					return err
				case "ExportBookmarksFile":
					js := file + ".json"
					defer os.Remove(js)
					return api.ExportBookmarksFile(file, js, newConf())
				default:
					f, err := os.Open(file)
					if err != nil {
						return err
					}
					defer f.Close()
					ctx, err := api.ReadContext(f, newConf())
					if err != nil {
						return err
					}
					root, err := ctx.Catalog()
					if err != nil {
						return err
					}
					ol, err := ctx.DereferenceDict(root["Outlines"])
					if err != nil || ol == nil {
						return fmt.Errorf("no outline dictionary: %v", err)
					}
					_, err = pdfcpu.BookmarksForOutlineItem(ctx, ol.IndirectRefEntry("First"), nil)
					return err
				}
			})
			cpu := selfCPU() - c0
			outcome, detail := "ok", "-"
			if err != nil {
				outcome, detail = "error", strings.ReplaceAll(err.Error(), "\n", " ")
				if p, ok := err.(*panicErr); ok {
					outcome, detail = "panic", p.Frame+" "+strings.ReplaceAll(p.Val, "\n", " ")
				}
			}
			if len(detail) > 300 {
				detail = detail[:300]
			}
			fmt.Fprintf(out, "END %s %s %d %s\n", cur, outcome, cpu.Milliseconds(), detail)
			out.Flush()
		}
	}
	os.Exit(0)
}

// callResult is the verdict for one (file, api) call.
type callResult struct {
	Outcome string // ok | error | panic | memory | cpu | crash | watchdog | not-run
	CPUms   int64
	Detail  string
}

// runChild runs one child over files and returns per file, per api results. A call that was in
// progress when the child died gets the verdict derived from how it died; later ones "not-run".
func runChild(files []string, cpuBound int) [][]callResult {
	res := make([][]callResult, len(files))
	for i := range res {
		res[i] = make([]callResult, len(apis))
		for j := range res[i] {
			res[i][j] = callResult{Outcome: "not-run"}
		}
	}
	ctx, cancel := context.WithTimeout(context.Background(), wallWatchdog)
	defer cancel()
	cmd := exec.CommandContext(ctx, os.Args[0], files...)
	cmd.Env = append(os.Environ(), "C36_CHILD=1", "GOTRACEBACK=single", fmt.Sprintf("C36_CPU_BOUND=%d", cpuBound))
	var stdout bytes.Buffer
	stderr := &tailBuffer{max: 32 << 10}
	cmd.Stdout, cmd.Stderr = &stdout, stderr
	runErr := cmd.Run()

	apiIdx := map[string]int{}
	for j, a := range apis {
		apiIdx[a] = j
	}
	inProgress := [2]int{-1, -1}
	sc := bufio.NewScanner(&stdout)
	sc.Buffer(make([]byte, 1<<20), 1<<20)
	for sc.Scan() {
		f := strings.SplitN(sc.Text(), " ", 6)
		if len(f) < 3 {
			continue
		}
		i, err := strconv.Atoi(f[1])
		j, ok := apiIdx[f[2]]
		if err != nil || !ok || i < 0 || i >= len(files) {
			continue
		}
		switch f[0] {
		case "BEGIN":
			inProgress = [2]int{i, j}
		case "END":
			if len(f) < 5 {
				continue
			}
			ms, _ := strconv.ParseInt(f[4], 10, 64)
			d := ""
			if len(f) == 6 {
				d = f[5]
			}
			res[i][j] = callResult{Outcome: f[3], CPUms: ms, Detail: d}
			if f[3] != "memory" {
				inProgress = [2]int{-1, -1}
			}
		}
	}
	if runErr == nil {
		return res
	}
	// the child died: how?
	var cpu time.Duration
	killedBy := syscall.Signal(0)
	if ps := cmd.ProcessState; ps != nil {
		cpu = ps.UserTime() + ps.SystemTime()
		if ws, ok := ps.Sys().(syscall.WaitStatus); ok && ws.Signaled() {
			killedBy = ws.Signal()
		}
	}
	if inProgress[0] < 0 {
		return res // died between calls: nothing to attribute (exit code of os.Exit(0) path cannot get here)
	}
	r := &res[inProgress[0]][inProgress[1]]
	tail := stderr.String()
	switch {
	case r.Outcome == "memory":
	case cpu >= time.Duration(cpuBound-1)*time.Second:
		*r = callResult{Outcome: "cpu", CPUms: cpu.Milliseconds(), Detail: fmt.Sprintf("child used %.1fs CPU (bound %ds), killed by %v", cpu.Seconds(), cpuBound, killedBy)}
	case ctx.Err() != nil:
		*r = callResult{Outcome: "watchdog", CPUms: cpu.Milliseconds(), Detail: fmt.Sprintf("wall-clock watchdog after %v with %.1fs CPU", wallWatchdog, cpu.Seconds())}
	default:
		kind := "crash"
		if strings.Contains(tail, "stack overflow") || strings.Contains(tail, "stack exceeds") {
			kind = "stack-overflow"
		}
		*r = callResult{Outcome: kind, CPUms: cpu.Milliseconds(), Detail: firstLines(tail, 6)}
	}
	return res
}

// tailBuffer keeps the first max bytes (a Go crash report names its reason at the top) and the last max bytes.
type tailBuffer struct {
	max  int
	head []byte
	buf  []byte
}

func (t *tailBuffer) Write(p []byte) (int, error) {
	n := len(p)
	if room := t.max - len(t.head); room > 0 {
		k := min(room, len(p))
		t.head = append(t.head, p[:k]...)
		p = p[k:]
	}
	t.buf = append(t.buf, p...)
	if len(t.buf) > 2*t.max {
		t.buf = append([]byte(nil), t.buf[len(t.buf)-t.max:]...)
	}
	return n, nil
}

func (t *tailBuffer) String() string { return string(t.head) + string(t.buf) }

var _ io.Writer = (*tailBuffer)(nil)

func firstLines(s string, n int) string {
	lines := strings.Split(s, "\n")
	// the head of a Go crash report names the reason; for a stack overflow the reason is at the top too
	if len(lines) > n {
		lines = lines[:n]
	}
	return strings.Join(lines, " | ")
}

// runHostile runs all files (in order) through children, restarting after a death so that every
// file gets a verdict.
func runHostile(files []string, cpuBound int) [][]callResult {
	all := make([][]callResult, len(files))
	start := 0
	for start < len(files) {
		res := runChild(files[start:], cpuBound)
		progressed := 0
		for i := range res {
			if allNotRun(res[i]) {
				break // the child died before it got here: next child starts with this file
			}
			all[start+i] = res[i]
			progressed++
			partial := false
			for j := range res[i] {
				if res[i][j].Outcome == "not-run" {
					partial = true
				}
			}
			if partial {
				break // the child died inside this file; its remaining call is skipped
			}
		}
		if progressed == 0 { // child did not even start the first call: do not loop forever
			all[start] = res[0]
			progressed = 1
		}
		start += progressed
	}
	return all
}

func allNotRun(rs []callResult) bool {
	for _, r := range rs {
		if r.Outcome != "not-run" {
			return false
		}
	}
	return true
}
