// longchain: CPU time of api.Bookmarks on a valid outline with n top-level siblings (observation:
// grows quadratically; not a termination failure).
package main

import (
	"fmt"
	"os"
	"path/filepath"
	"syscall"
	"time"

	"github.com/pdfcpu/pdfcpu/pkg/api"
	"github.com/pdfcpu/pdfcpu/pkg/pdfcpu/model"
	"verif/harness/internal/pdfgen"
)

func cpu() time.Duration {
	var ru syscall.Rusage
	syscall.Getrusage(syscall.RUSAGE_SELF, &ru)
	return time.Duration(ru.Utime.Nano() + ru.Stime.Nano())
}

func main() {
	api.DisableConfigDir()
	dir, _ := os.MkdirTemp(os.Args[1], "longchain")
	defer os.RemoveAll(dir)
	for _, n := range []int{500, 1000, 2000, 4000, 8000} {
		doc := pdfgen.NewDoc()
		pages := doc.Alloc()
		page := doc.Add(pdfgen.D("Type", pdfgen.Name("Page"), "Parent", pages, "MediaBox", pdfgen.Rect(0, 0, 200, 200)))
		doc.Put(pages, pdfgen.D("Type", pdfgen.Name("Pages"), "Kids", pdfgen.Array{page}, "Count", 1))
		root := doc.Alloc()
		refs := make([]pdfgen.Ref, n)
		for i := range refs {
			refs[i] = doc.Alloc()
		}
		for i, r := range refs {
			d := pdfgen.D("Title", pdfgen.String(fmt.Sprintf("item %d", i)), "Parent", root, "Dest", pdfgen.Array{page, pdfgen.Name("Fit")})
			if i > 0 {
				d.Set("Prev", refs[i-1])
			}
			if i+1 < n {
				d.Set("Next", refs[i+1])
			}
			doc.Put(r, d)
		}
		doc.Put(root, pdfgen.D("Type", pdfgen.Name("Outlines"), "First", refs[0], "Last", refs[n-1], "Count", n))
		doc.SetRoot(doc.Add(pdfgen.D("Type", pdfgen.Name("Catalog"), "Pages", pages, "Outlines", root)))
		file := filepath.Join(dir, "c.pdf")
		os.WriteFile(file, pdfgen.MustWrite(doc, pdfgen.Options{}).Bytes, 0o644)
		f, _ := os.Open(file)
		c0 := cpu()
		conf := model.NewDefaultConfiguration()
		conf.Offline = true
		bms, err := api.Bookmarks(f, conf)
		fmt.Printf("n=%d: %d bookmarks, err=%v, cpu=%v\n", n, len(bms), err, (cpu() - c0).Round(time.Millisecond))
		f.Close()
	}
}
