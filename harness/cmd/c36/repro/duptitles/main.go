// duptitles: bookmarks with equal titles get each other's target pages (the title is used as the
// key of a named destination).
// usage: cd /verif/harness && $GO125 run -tags verif ./cmd/c36/repro/duptitles <scratch dir>
package main

import (
	"fmt"
	"os"
	"path/filepath"

	"github.com/pdfcpu/pdfcpu/pkg/api"
	"github.com/pdfcpu/pdfcpu/pkg/pdfcpu"
	"github.com/pdfcpu/pdfcpu/pkg/pdfcpu/model"
	"verif/harness/internal/pdfgen"
)

func conf() *model.Configuration { c := model.NewDefaultConfiguration(); c.Offline = true; return c }

func show(prefix string, bms []pdfcpu.Bookmark, indent string) {
	for _, b := range bms {
		fmt.Printf("%s%s%q -> page %d\n", prefix, indent, b.Title, b.PageFrom)
		show(prefix, b.Kids, indent+"  ")
	}
}

func try(dir, name string, bms []pdfcpu.Bookmark) {
	in := filepath.Join(dir, "in.pdf")
	out := filepath.Join(dir, "out.pdf")
	os.Remove(out)
	os.WriteFile(in, pdfgen.Build(pdfgen.DocSpec{Seed: 1, Pages: 9}).Bytes, 0o644)
	fmt.Println("==", name)
	show("  added    ", bms, "")
	if err := api.AddBookmarksFile(in, out, bms, true, conf()); err != nil {
		fmt.Println("  AddBookmarksFile:", err)
		return
	}
	f, _ := os.Open(out)
	defer f.Close()
	got, err := api.Bookmarks(f, conf())
	if err != nil {
		fmt.Println("  Bookmarks:", err)
	}
	show("  read back", got, "")
}

func main() {
	api.DisableConfigDir()
	dir, _ := os.MkdirTemp(os.Args[1], "duptitles")
	defer os.RemoveAll(dir)
	try(dir, "three equal titles", []pdfcpu.Bookmark{{Title: "Intro", PageFrom: 1}, {Title: "Intro", PageFrom: 2}, {Title: "Intro", PageFrom: 3}})
	try(dir, "equal titles with others between", []pdfcpu.Bookmark{{Title: "A", PageFrom: 1}, {Title: "Intro", PageFrom: 2}, {Title: "B", PageFrom: 3}, {Title: "Intro", PageFrom: 4}, {Title: "C", PageFrom: 5}, {Title: "Intro", PageFrom: 6}, {Title: "Intro", PageFrom: 7}})
	try(dir, "non-ASCII equal titles", []pdfcpu.Bookmark{{Title: "Übersicht", PageFrom: 1}, {Title: "Übersicht", PageFrom: 2}})
	try(dir, "three equal non-ASCII titles", []pdfcpu.Bookmark{{Title: "Übersicht", PageFrom: 1}, {Title: "Übersicht", PageFrom: 2}, {Title: "Übersicht", PageFrom: 3}})
	try(dir, "leading/trailing space", []pdfcpu.Bookmark{{Title: " lead and trail ", PageFrom: 3}})
	try(dir, "nested equal titles", []pdfcpu.Bookmark{{Title: "Part", PageFrom: 1, Kids: []pdfcpu.Bookmark{{Title: "Intro", PageFrom: 1}, {Title: "Body", PageFrom: 2}}}, {Title: "Part", PageFrom: 5, Kids: []pdfcpu.Bookmark{{Title: "Intro", PageFrom: 5}, {Title: "Body", PageFrom: 6}}}})
}
