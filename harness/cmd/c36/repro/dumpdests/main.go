// dumpdests: development aid - what an independent reader sees after AddBookmarksFile with equal titles.
package main

import (
	"fmt"
	"os"
	"path/filepath"

	"github.com/pdfcpu/pdfcpu/pkg/api"
	"github.com/pdfcpu/pdfcpu/pkg/pdfcpu"
	"github.com/pdfcpu/pdfcpu/pkg/pdfcpu/model"
	"verif/harness/internal/pdfgen"
	"verif/harness/internal/pdfstrict"
)

func conf() *model.Configuration { c := model.NewDefaultConfiguration(); c.Offline = true; return c }

func main() {
	api.DisableConfigDir()
	dir, _ := os.MkdirTemp(os.Args[1], "dumpdests")
	defer os.RemoveAll(dir)
	in := filepath.Join(dir, "in.pdf")
	out := filepath.Join(dir, "out.pdf")
	os.WriteFile(in, pdfgen.Build(pdfgen.DocSpec{Seed: 1, Pages: 9}).Bytes, 0o644)
	bms := []pdfcpu.Bookmark{{Title: "A", PageFrom: 1}, {Title: "Intro", PageFrom: 2}, {Title: "B", PageFrom: 3}, {Title: "Intro", PageFrom: 4}, {Title: "C", PageFrom: 5}, {Title: "Intro", PageFrom: 6}, {Title: "Intro", PageFrom: 7}}
	if err := api.AddBookmarksFile(in, out, bms, true, conf()); err != nil {
		fmt.Println(err)
		return
	}
	data, _ := os.ReadFile(out)
	doc, _ := pdfstrict.Open(data, pdfstrict.Options{})
	pages, _ := doc.Pages()
	pn := map[pdfstrict.Ref]int{}
	for i, p := range pages {
		pn[p.Ref] = i + 1
	}
	root, _ := doc.ResolveDict(doc.Trailer()["Root"])
	names, _ := doc.ResolveDict(root["Names"])
	dt, _ := doc.ResolveDict(names["Dests"])
	fmt.Printf("Dests tree root: %v\n", dt)
	arr, _ := doc.Resolve(dt["Names"]).(pdfstrict.Array)
	for i := 0; i+1 < len(arr); i += 2 {
		k, _ := doc.Resolve(arr[i]).(pdfstrict.String)
		v, _ := doc.Resolve(arr[i+1]).(pdfstrict.Array)
		pg := 0
		if len(v) > 0 {
			if r, ok := v[0].(pdfstrict.Ref); ok {
				pg = pn[r]
			}
		}
		fmt.Printf("  key %q -> %v (page %d)\n", string(k), arr[i+1], pg)
	}
	ol, _ := doc.ResolveDict(root["Outlines"])
	cur := ol["First"]
	for !pdfstrict.IsNull(cur) {
		d, _ := doc.ResolveDict(cur)
		t, _ := doc.Resolve(d["Title"]).(pdfstrict.String)
		ds, _ := doc.Resolve(d["Dest"]).(pdfstrict.String)
		fmt.Printf("item %v title %q Dest %q\n", cur, string(t), string(ds))
		cur = d["Next"]
	}
}
