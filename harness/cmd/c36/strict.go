package main

import (
	"fmt"

	"verif/harness/internal/pdfstrict"
	"verif/harness/internal/pdftext"
)

// strictOutline is the outline as an independent reader (pdfstrict, no pdfcpu code) sees it:
// the forest reached through /First and /Next, plus what is inconsistent in the back links.
type strictOutline struct {
	Present bool
	Items   []*node
	N       int
	Links   []string // link inconsistencies: class names
	LinkMsg []string
	Counts  []string // /Count deviations from ISO 32000-1 12.3.3 (observed only, not part of the property)
	BadText int      // titles that are not well-formed text strings
}

const maxStrictItems = 200000

func readOutline(data []byte) (*strictOutline, error) {
	doc, err := pdfstrict.Open(data, pdfstrict.Options{})
	if err != nil {
		return nil, err
	}
	root, ok := doc.ResolveDict(doc.Trailer()["Root"])
	if !ok {
		return nil, fmt.Errorf("no catalog")
	}
	so := &strictOutline{}
	olObj := root["Outlines"]
	ol, ok := doc.ResolveDict(olObj)
	if !ok {
		return so, nil
	}
	so.Present = true
	pages, err := doc.Pages()
	if err != nil {
		return nil, fmt.Errorf("pages: %w", err)
	}
	pageNr := map[pdfstrict.Ref]int{}
	for i, p := range pages {
		pageNr[p.Ref] = i + 1
	}

	// named destinations: /Names /Dests name tree and the catalog's /Dests dictionary
	named := map[string]pdfstrict.Object{}
	if names, ok := doc.ResolveDict(root["Names"]); ok {
		if dt, ok := doc.ResolveDict(names["Dests"]); ok {
			seen := map[pdfstrict.Ref]bool{}
			var walk func(n pdfstrict.Dict, depth int)
			walk = func(n pdfstrict.Dict, depth int) {
				if depth > 64 {
					return
				}
				if kids, ok := doc.Resolve(n["Kids"]).(pdfstrict.Array); ok {
					for _, k := range kids {
						if r, ok := k.(pdfstrict.Ref); ok {
							if seen[r] {
								continue
							}
							seen[r] = true
						}
						if kd, ok := doc.ResolveDict(k); ok {
							walk(kd, depth+1)
						}
					}
				}
				if arr, ok := doc.Resolve(n["Names"]).(pdfstrict.Array); ok {
					for i := 0; i+1 < len(arr); i += 2 {
						if ks, ok := doc.Resolve(arr[i]).(pdfstrict.String); ok {
							named[string(ks)] = arr[i+1]
						}
					}
				}
			}
			walk(dt, 0)
		}
	}
	oldDests, _ := doc.ResolveDict(root["Dests"])

	destPage := func(o pdfstrict.Object) int {
		for hop := 0; hop < 4; hop++ {
			switch x := doc.Resolve(o).(type) {
			case pdfstrict.Array:
				if len(x) == 0 {
					return 0
				}
				if r, ok := x[0].(pdfstrict.Ref); ok {
					return pageNr[r]
				}
				return 0
			case pdfstrict.Dict:
				o = x["D"]
			case pdfstrict.String:
				v, ok := named[string(x)]
				if !ok {
					return 0
				}
				o = v
			case pdfstrict.Name:
				if oldDests == nil {
					return 0
				}
				o = oldDests[string(x)]
			default:
				return 0
			}
		}
		return 0
	}

	link := func(class, msg string) {
		so.Links = append(so.Links, class)
		so.LinkMsg = append(so.LinkMsg, msg)
	}
	visited := map[pdfstrict.Ref]bool{}
	refOf := func(o pdfstrict.Object) (pdfstrict.Ref, bool) { r, ok := o.(pdfstrict.Ref); return r, ok }

	// visible descendants of a list of items if their parent is open
	type meta struct {
		count    *int64
		kidsMeta []*meta
	}
	var visible func(ms []*meta) int64
	visible = func(ms []*meta) int64 {
		var n int64
		for _, m := range ms {
			n++
			if m.count != nil && *m.count > 0 {
				n += visible(m.kidsMeta)
			}
		}
		return n
	}

	var walk func(parent pdfstrict.Object, pd pdfstrict.Dict, depth int) ([]*node, []*meta)
	walk = func(parent pdfstrict.Object, pd pdfstrict.Dict, depth int) ([]*node, []*meta) {
		var out []*node
		var metas []*meta
		if depth > 200 {
			link("too-deep", "outline deeper than 200 levels")
			return nil, nil
		}
		cur := pd["First"]
		parentRef, parentIsRef := refOf(parent)
		var prev pdfstrict.Object
		var lastRef pdfstrict.Object
		for !pdfstrict.IsNull(cur) {
			r, isRef := refOf(cur)
			if !isRef {
				link("item-not-indirect", "outline item is not an indirect reference")
				break
			}
			if visited[r] {
				link("cycle", fmt.Sprintf("item %v reached twice", r))
				break
			}
			visited[r] = true
			so.N++
			if so.N > maxStrictItems {
				link("too-many", "more than 200000 items")
				break
			}
			d, ok := doc.ResolveDict(cur)
			if !ok {
				link("item-not-dict", fmt.Sprintf("item %v is not a dictionary", r))
				break
			}
			x := &node{}
			if ts, ok := doc.Resolve(d["Title"]).(pdfstrict.String); ok {
				var wf bool
				x.Title, wf = pdftext.Decode(ts)
				if !wf {
					so.BadText++
				}
			}
			dest := d["Dest"]
			if pdfstrict.IsNull(dest) {
				if a, ok := doc.ResolveDict(d["A"]); ok {
					if s, _ := doc.Resolve(a["S"]).(pdfstrict.Name); s == "GoTo" {
						dest = a["D"]
					}
				}
			}
			x.Page = destPage(dest)
			if f, ok := doc.Resolve(d["F"]).(pdfstrict.Int); ok {
				x.Italic, x.Bold = f&1 != 0, f&2 != 0
			}
			if c, ok := doc.Resolve(d["C"]).(pdfstrict.Array); ok && len(c) == 3 {
				var col [3]float64
				okc := true
				for i := range col {
					v, isNum := pdfstrict.Number(doc.Resolve(c[i]))
					if !isNum {
						okc = false
					}
					col[i] = v
				}
				if okc {
					x.Color = &col
				}
			}
			m := &meta{}
			if c, ok := doc.Resolve(d["Count"]).(pdfstrict.Int); ok {
				v := int64(c)
				m.count = &v
			}
			// back links
			if pr, ok := refOf(d["Parent"]); !ok || !parentIsRef || pr != parentRef {
				link("parent", fmt.Sprintf("item %v: /Parent %v, reached from %v", r, d["Parent"], parent))
			}
			if prev == nil {
				if !pdfstrict.IsNull(d["Prev"]) {
					link("first-has-prev", fmt.Sprintf("first item %v has /Prev %v", r, d["Prev"]))
				}
			} else if pv, ok := refOf(d["Prev"]); !ok || pv != prev.(pdfstrict.Ref) {
				link("prev", fmt.Sprintf("item %v: /Prev %v, predecessor is %v", r, d["Prev"], prev))
			}
			if !pdfstrict.IsNull(d["First"]) {
				x.Kids, m.kidsMeta = walk(cur, d, depth+1)
				if m.count == nil || *m.count == 0 {
					so.Counts = append(so.Counts, "missing-on-parent")
				} else {
					abs := *m.count
					if abs < 0 {
						abs = -abs
					}
					if abs != visible(m.kidsMeta) {
						so.Counts = append(so.Counts, "magnitude")
					}
				}
			} else {
				if !pdfstrict.IsNull(d["Last"]) {
					link("last-without-first", fmt.Sprintf("item %v has /Last but no /First", r))
				}
				if m.count != nil && *m.count != 0 {
					so.Counts = append(so.Counts, "on-leaf")
				}
			}
			out = append(out, x)
			metas = append(metas, m)
			prev, lastRef = cur, cur
			cur = d["Next"]
		}
		if lastRef != nil {
			if lr, ok := refOf(pd["Last"]); !ok || lr != lastRef.(pdfstrict.Ref) {
				link("last", fmt.Sprintf("/Last of %v is %v, the sibling chain ends at %v", parent, pd["Last"], lastRef))
			}
		}
		return out, metas
	}
	var metas []*meta
	so.Items, metas = walk(olObj, ol, 0)
	if c, ok := doc.Resolve(ol["Count"]).(pdfstrict.Int); ok {
		if int64(c) < 0 || int64(c) != visible(metas) {
			so.Counts = append(so.Counts, "root")
		}
	} else if visible(metas) > 0 {
		// Table 152: omitted only if there are no open (visible) items
		so.Counts = append(so.Counts, "root-missing")
	}
	return so, nil
}
