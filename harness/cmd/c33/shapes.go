package main

import (
	"fmt"
	"io"
	"math"
	"math/rand/v2"
	"os"
	"sort"

	"github.com/pdfcpu/pdfcpu/pkg/api"
	"github.com/pdfcpu/pdfcpu/pkg/cli"
)

// Page-number lists and spans OUTSIDE the comfortable range (2..n sorted unique; span 1..31), and the sibling entry
// points that share the split code (reader variants, pkg/cli commands, SplitRaw).
//
// What the unchanged tree does with each shape (repro/pagenrs prints it; validateSplitPageNumbers in pkg/api/split.go):
//
//	empty / nil list                                      refused (ErrMissingSplitPageNumbers)
//	first entry < 2 (1, 0, negative) or > page count      refused (ErrInvalidSplitPageNumberSequence)
//	duplicate or descending neighbours anywhere           refused (doc comment: "sorted, unique, and at least 2")
//	sorted, unique, first in 2..n, LATER entries > n      accepted; entries beyond the last page are ignored
//	  (n+1, 40, MaxInt alike), the last part runs to page n
//	entry == n                                            accepted; the last part is page n alone
//	span < 0                                              refused (ErrInvalidSplitSpan)
//	span > n (n+1 .. MaxInt)                              accepted; one part 1..n
//
// The oracle does not depend on that table: a REFUSED call (error) of a shape outside "sorted, unique, 2..n" is
// counted under refused/<shape> and not judged; an ACCEPTED call (nil error) of ANY shape must have produced parts
// that tile the original page sequence. The table only decides which file names are expected (the spans before
// every listed page that exists) and is reported through the accepted/<shape> and refused/<shape> counters.

// listShape classifies a page-number list for a document of n pages.
func listShape(nrs []int, n int) string {
	if len(nrs) == 0 {
		return "empty"
	}
	for i := 1; i < len(nrs); i++ {
		if nrs[i] == nrs[i-1] {
			return "duplicate"
		}
		if nrs[i] < nrs[i-1] {
			return "unsorted"
		}
	}
	switch {
	case nrs[0] < 2:
		return "first-below-2"
	case nrs[0] > n:
		return "first-beyond-last-page"
	case nrs[len(nrs)-1] > n:
		return "later-beyond-last-page"
	}
	return "in-range"
}

// documented: the doc comments promise a result for the shape (an error is then a violation, as before).
func documentedShape(shape string) bool { return shape == "in-range" }

// namesKnown: the part files of an accepted call are determined (split before every listed page that exists).
func namesKnown(shape string) bool { return shape == "in-range" || shape == "later-beyond-last-page" }

var bigNrs = []int{40, 1000, math.MaxInt32, math.MaxInt}

func sortedUnique(set map[int]bool) []int {
	var out []int
	for p := range set {
		out = append(out, p)
	}
	sort.Ints(out)
	return out
}

// inRange draws k distinct numbers in 2..n, sorted (n >= 2).
func inRange(rng *rand.Rand, n, k int) []int {
	k = min(k, n-1)
	set := map[int]bool{}
	for len(set) < k {
		set[2+rng.IntN(n-1)] = true
	}
	return sortedUnique(set)
}

// genShapeLists: the page-number lists of one document beyond the plain ones of genPageNrs. Deterministic in rng.
func genShapeLists(rng *rand.Rand, n int) [][]int {
	beyond := func() int { // a number > n: n+1, a little more, or very large
		switch rng.IntN(4) {
		case 0:
			return n + 1
		case 1:
			return n + 2 + rng.IntN(10)
		}
		return max(n+1, bigNrs[rng.IntN(len(bigNrs))])
	}
	lists := [][]int{
		nil,        // missing
		{},         // empty
		{n + 1},    // single entry just beyond the last page
		{beyond()}, // single entry beyond
		{1},        // entry 1
		{n},        // single entry = page count (n = 1: entry 1)
	}
	if n < 2 {
		return append(lists, []int{2}, []int{2, 3}, []int{1, 2})
	}
	k := inRange(rng, n, 1)[0]
	lists = append(lists,
		[]int{k},        // single entry
		[]int{k, n + 1}, // page count + 1 after a valid entry
		append(inRange(rng, n, 1+rng.IntN(3)), beyond()),                                    // valid entries, then one beyond
		append(inRange(rng, n, 1+rng.IntN(3)), n+1, n+2+rng.IntN(5), bigNrs[2+rng.IntN(2)]), // several beyond
		[]int{1, max(2, k)},       // entry 1 first
		[]int{0, k}, []int{-k, k}, // below 1
		[]int{k, k},           // duplicate
		[]int{k, beyond(), k}, // unsorted through an entry beyond
	)
	// entry == page count inside a longer list, with and without entries beyond
	head := inRange(rng, n, rng.IntN(3))
	if len(head) == 0 || head[len(head)-1] != n {
		head = append(head, n)
	}
	lists = append(lists, head, append(append([]int(nil), head...), n+1), append(append([]int(nil), head...), beyond()))
	// duplicate of an entry beyond; unsorted valid list
	b := beyond()
	lists = append(lists, []int{k, b, b})
	if l := inRange(rng, n, 2+rng.IntN(3)); len(l) >= 2 {
		p := rng.IntN(len(l) - 1)
		l[p], l[p+1] = l[p+1], l[p]
		lists = append(lists, l)
	}
	// random lists over 1..n+4, random order and repetitions: any shape
	for j := 0; j < 2; j++ {
		l := make([]int, 1+rng.IntN(5))
		for i := range l {
			l[i] = 1 + rng.IntN(n+4)
		}
		if rng.IntN(3) != 0 {
			sort.Ints(l)
		}
		lists = append(lists, l)
	}
	return lists
}

// genShapeSpans: spans outside 1..31 for one document.
func genShapeSpans(rng *rand.Rand, n int) []int {
	big := []int{n + 32 + rng.IntN(100), 1000, math.MaxInt32, math.MaxInt, math.MaxInt - rng.IntN(n+1)}
	return []int{-1 - rng.IntN(5), math.MinInt, big[rng.IntN(len(big))], big[rng.IntN(len(big))]}
}

var vias = []string{"file", "reader", "cli"}

// callSplit runs one split case through the entry point c.Via names. raw is set for split-raw only.
func callSplit(c *Case, in, outDir string) (raw []*api.PageSpan, err error) {
	reader := func(f func(rs io.ReadSeeker) error) error {
		fh, err := os.Open(in)
		if err != nil {
			return err
		}
		defer fh.Close()
		return f(fh)
	}
	switch c.Kind {
	case "split-raw":
		err = reader(func(rs io.ReadSeeker) error {
			var e error
			raw, e = api.SplitRaw(rs, c.Span, newConf())
			return e
		})
		return raw, err
	case "split-pagenr":
		switch c.Via {
		case "reader":
			return nil, reader(func(rs io.ReadSeeker) error { return api.SplitByPageNr(rs, outDir, "in.pdf", c.PageNrs, newConf()) })
		case "cli":
			_, err = cli.Dispatch(cli.SplitByPageNrCommand(in, outDir, c.PageNrs, newConf()))
			return nil, err
		}
		return nil, api.SplitByPageNrFile(in, outDir, c.PageNrs, newConf())
	}
	switch c.Via {
	case "reader":
		return nil, reader(func(rs io.ReadSeeker) error { return api.Split(rs, outDir, "in.pdf", c.Span, newConf()) })
	case "cli":
		_, err = cli.Dispatch(cli.SplitCommand(in, outDir, c.Span, newConf()))
		return nil, err
	}
	return nil, api.SplitFile(in, outDir, c.Span, newConf())
}

// rawParts reads the spans SplitRaw returned, in the order returned.
func rawParts(spans []*api.PageSpan) ([]part, error) {
	var parts []part
	for i, ps := range spans {
		if ps == nil || ps.Reader == nil {
			return nil, fmt.Errorf("span %d is nil / has no reader", i)
		}
		data, err := io.ReadAll(ps.Reader)
		if err != nil {
			return nil, err
		}
		p := part{name: fmt.Sprintf("span[%d]=%d-%d", i, ps.From, ps.Thru), from: ps.From, thru: ps.Thru}
		if p.pages, err = observe(data); err != nil {
			return nil, fmt.Errorf("%s: %v", p.name, err)
		}
		parts = append(parts, p)
	}
	return parts, nil
}

func splitDesc(c *Case, n int) string {
	via := c.Via
	if via == "" {
		via = "file"
	}
	switch c.Kind {
	case "split-raw":
		return fmt.Sprintf("SplitRaw(%d pages, span %d)", n, c.Span)
	case "split-pagenr":
		return fmt.Sprintf("SplitByPageNr[%s](%d pages, %v)", via, n, c.PageNrs)
	}
	return fmt.Sprintf("Split[%s](%d pages, span %d)", via, n, c.Span)
}
