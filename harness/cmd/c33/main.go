// C33 — split and merge preserve the page sequence.
//
// Split: pdfgen documents with 1..30 marked pages x api.SplitFile with every span 1..31, api.SplitByPageNrFile with
// random page-number lists, and api.SplitFile(span 0) along top-level bookmarks. The output directory is listed; the
// part files must be exactly those of the documented naming scheme (<base>_<from>.pdf / <base>_<from>-<thru>.pdf, see
// spanFileName in pkg/api/split.go), each part must hold thru-from+1 pages, and the parts — ordered NUMERICALLY by
// <from> — must concatenate to the original page sequence (content identity via marker / content hash, read with
// pdfstrict). Bookmark parts (named after titles) are only required to be contiguous runs of the original.
// Merge: 1..5 pdfgen (sometimes corpus) documents through MergeCreateFile, MergeAppendFile (existing and missing
// destination) and MergeCreateZipFile, with and without divider pages and bookmarks: page sequence = concatenation
// (zip: 1A 1B 2A 2B ... then the rest of the longer document), blank pages exactly where a divider was requested,
// every page keeps its effective /Rotate and boxes and the fonts its content uses (attributes inherited from page
// tree nodes must survive), inputs byte-identical afterwards.
package main

import (
	"bytes"
	"encoding/json"
	"fmt"
	"math/rand/v2"
	"os"
	"path/filepath"
	"regexp"
	"sort"
	"strconv"
	"strings"
	"sync"

	"github.com/pdfcpu/pdfcpu/pkg/api"
	"github.com/pdfcpu/pdfcpu/pkg/pdfcpu/model"
	"verif/harness/internal/pdfgen"
	"verif/harness/internal/vk"
)

// Case is a replayable case.
type Case struct {
	Kind string `json:"kind"` // split-span | split-pagenr | split-bookmarks | split-raw | merge-create | merge-append | merge-append-new | merge-zip
	// split
	Doc     int    `json:"doc,omitempty"`   // generator index
	Pages   int    `json:"pages,omitempty"` // page count of the generated document
	Span    int    `json:"span,omitempty"`
	PageNrs []int  `json:"page_nrs,omitempty"`
	Via     string `json:"via,omitempty"`   // split entry point: "" / file | reader | cli (the same code behind api.Split*File, api.Split*, pkg/cli commands)
	Shape   bool   `json:"shape,omitempty"` // drawn by genShapeLists / genShapeSpans (request possibly outside the documented range)
	// merge
	Docs      []DocRef `json:"docs,omitempty"` // merge-append: Docs[0] is the existing destination
	Divider   bool     `json:"divider,omitempty"`
	Bookmarks bool     `json:"bookmarks,omitempty"`
	Optimize  bool     `json:"optimize,omitempty"`
}

// DocRef names an input document: generator index (+ page bound) or corpus file.
type DocRef struct {
	Gen    int    `json:"gen,omitempty"`
	Max    int    `json:"max_pages,omitempty"`
	Corpus string `json:"corpus,omitempty"`
}

type violation struct{ key, what string }

type stats map[string]int64

type doc struct {
	data  []byte
	pages []Page
	tops  []int // split docs: 0-based target pages of the top-level outline items
}

var corpusFiles = []string{"Acroforms2.pdf", "testRot.pdf", "annotTest.pdf", "zineTest.pdf"}

func newConf() *model.Configuration {
	c := model.NewDefaultConfiguration()
	c.Offline = true
	return c
}

// genSplitDoc: the i-th split document has exactly `pages` pages.
func genSplitDoc(t *vk.T, i, pages int) (*doc, error) {
	rng := t.RNGi("split-doc", i)
	spec := pdfgen.RandomSpec(rng, 30)
	spec.Pages = pages
	spec.Inherit, spec.Rotate, spec.CropBox = rng.IntN(4) != 0, rng.IntN(4) != 0, rng.IntN(3) != 0
	spec.Signatures, spec.Secrets, spec.RandomFiles, spec.EmbeddedFiles = 0, false, 0, nil
	if i%2 == 0 && spec.Outlines == 0 {
		spec.Outlines = 1 + rng.IntN(2*pages)
		spec.OutlineDepth = 1 + rng.IntN(3)
	}
	if spec.Outlines > 40 {
		spec.Outlines = 40
	}
	bt := pdfgen.Build(spec)
	d := &doc{data: bt.Bytes, pages: fromTruth(bt.Truth)}
	for _, o := range bt.Truth.Outlines {
		d.tops = append(d.tops, o.Page)
	}
	got, err := observe(bt.Bytes)
	if err != nil {
		return nil, err
	}
	return d, sameStart(d.pages, got)
}

func genMergeDoc(t *vk.T, r DocRef, corpus map[string]*doc) (*doc, error) {
	if r.Corpus != "" {
		d, ok := corpus[r.Corpus]
		if !ok {
			return nil, fmt.Errorf("corpus file %s not usable", r.Corpus)
		}
		return d, nil
	}
	rng := t.RNGi("merge-doc", r.Gen)
	spec := pdfgen.RandomSpec(rng, max(1, r.Max))
	spec.Inherit, spec.Rotate, spec.CropBox = rng.IntN(5) != 0, rng.IntN(4) != 0, rng.IntN(3) != 0
	spec.Signatures, spec.Secrets, spec.RandomFiles, spec.EmbeddedFiles = 0, false, 0, nil
	if spec.Outlines > 10 {
		spec.Outlines = 10
	}
	bt := pdfgen.Build(spec)
	d := &doc{data: bt.Bytes, pages: fromTruth(bt.Truth)}
	got, err := observe(bt.Bytes)
	if err != nil {
		return nil, err
	}
	return d, sameStart(d.pages, got)
}

// cleanup removes a case directory; with C33_DUMP=<dir> (debugging aid for --replay) it is kept there instead.
func cleanup(dir string) {
	if dump := os.Getenv("C33_DUMP"); dump != "" {
		_ = os.RemoveAll(dump)
		if os.Rename(dir, dump) == nil {
			return
		}
	}
	os.RemoveAll(dir)
}

func guard(f func() error) (err error, panicked bool) {
	defer func() {
		if r := recover(); r != nil {
			err, panicked = fmt.Errorf("panic: %v", r), true
		}
	}()
	return f(), false
}

var digitsRE = regexp.MustCompile(`[0-9]+`)
var goTypeRE = regexp.MustCompile(`types\.[A-Za-z]+`)

func errClass(msg string) string {
	parts := strings.Split(msg, ": ")
	if len(parts) > 2 {
		parts = parts[len(parts)-2:]
	}
	s := digitsRE.ReplaceAllString(strings.Join(parts, ":"), "N")
	s = goTypeRE.ReplaceAllString(s, "types.T") // which object a stray reference happens to hit is incidental
	s = strings.Map(func(r rune) rune {
		if r == ' ' {
			return '_'
		}
		if r < ' ' || r > '~' {
			return -1
		}
		return r
	}, s)
	if len(s) > 80 {
		s = s[:80]
	}
	return s
}

// ---------------------------------------------------------------------------------------------
// split

type part struct {
	name       string
	from, thru int
	pages      []Page
}

var partRE = regexp.MustCompile(`^in_([0-9]+)(?:-([0-9]+))?\.pdf$`)

// readParts lists outDir. Files that do not follow the documented scheme are returned in other.
func readParts(outDir string) (parts []part, other []string, err error) {
	ents, err := os.ReadDir(outDir)
	if err != nil {
		return nil, nil, err
	}
	for _, e := range ents {
		m := partRE.FindStringSubmatch(e.Name())
		if m == nil {
			other = append(other, e.Name())
			continue
		}
		p := part{name: e.Name()}
		p.from, _ = strconv.Atoi(m[1])
		p.thru = p.from
		if m[2] != "" {
			p.thru, _ = strconv.Atoi(m[2])
		}
		data, rerr := os.ReadFile(filepath.Join(outDir, e.Name()))
		if rerr != nil {
			return nil, nil, rerr
		}
		if p.pages, err = observe(data); err != nil {
			return nil, nil, fmt.Errorf("%s: %v", e.Name(), err)
		}
		parts = append(parts, p)
	}
	sort.Slice(parts, func(i, j int) bool { return parts[i].from < parts[j].from }) // numeric, not lexicographic
	sort.Strings(other)
	return parts, other, nil
}

// expectedSpans: the spans [from, thru] the documentation promises.
func expectedSpans(c *Case, n int) [][2]int {
	var out [][2]int
	if c.Kind == "split-span" || c.Kind == "split-raw" {
		for from := 1; from <= n; {
			thru := n
			if c.Span < n-from+1 { // no from+span arithmetic: spans up to MaxInt are generated
				thru = from + c.Span - 1
			}
			out = append(out, [2]int{from, thru})
			from = thru + 1
		}
		return out
	}
	from := 1
	for _, nr := range c.PageNrs { // split BEFORE the given page numbers; a page that does not exist cannot start a part
		if nr > n {
			continue
		}
		out = append(out, [2]int{from, nr - 1})
		from = nr
	}
	return append(out, [2]int{from, n})
}

func spanName(s [2]int) string {
	if s[0] == s[1] {
		return fmt.Sprintf("in_%d.pdf", s[0])
	}
	return fmt.Sprintf("in_%d-%d.pdf", s[0], s[1])
}

func checkPagesKept(op string, want, got []Page, where string, vv *[]violation) {
	for i := range want {
		what, text := attrDiffs(want[i], got[i])
		for k, w := range what {
			*vv = append(*vv, violation{op + "/class=page-changed/what=" + w, fmt.Sprintf("%s: page %s: %s", where, want[i].id(), text[k])})
		}
	}
}

func runSplit(c *Case, d *doc, dir string, st stats) (vv []violation) {
	_ = os.MkdirAll(dir, 0o755)
	defer cleanup(dir)
	in, outDir := filepath.Join(dir, "in.pdf"), filepath.Join(dir, "out")
	_ = os.MkdirAll(outDir, 0o755)
	if err := os.WriteFile(in, d.data, 0o644); err != nil {
		return []violation{{"harness/write", err.Error()}}
	}
	n := len(d.pages)
	op := map[string]string{"split-span": "op=split/span", "split-pagenr": "op=split/pagenr", "split-bookmarks": "op=split/bookmarks", "split-raw": "op=split/raw"}[c.Kind]
	desc := splitDesc(c, n)
	var raw []*api.PageSpan
	err, panicked := guard(func() (e error) {
		raw, e = callSplit(c, in, outDir)
		return e
	})
	st["calls/"+c.Kind]++
	if panicked {
		st["pdfcpu_panics"]++
	}
	if now, rerr := os.ReadFile(in); rerr != nil || !bytes.Equal(now, d.data) {
		vv = append(vv, violation{op + "/class=input-modified", desc + ": the input file changed"})
	}
	if c.Kind == "split-bookmarks" {
		if err != nil {
			st["split_bookmarks_refused"]++
			return vv
		}
		ents, _ := os.ReadDir(outDir)
		pos := map[string]int{}
		for i, p := range d.pages {
			pos[p.Hash] = i
		}
		tops := map[int]bool{}
		for _, p := range d.tops {
			tops[p] = true
		}
		for _, e := range ents {
			data, _ := os.ReadFile(filepath.Join(outDir, e.Name()))
			got, oerr := observe(data)
			if oerr != nil {
				vv = append(vv, violation{op + "/class=output-unreadable", fmt.Sprintf("%s: part %q: %v", desc, e.Name(), oerr)})
				continue
			}
			st["parts_read"]++
			for i, p := range got {
				at, known := pos[p.Hash]
				if !known || (i > 0 && at != pos[got[i-1].Hash]+1) {
					vv = append(vv, violation{op + "/class=part-not-contiguous", fmt.Sprintf("%s: part %q holds [%s], not a contiguous run of the original [%s]", desc, e.Name(), ids(got), ids(d.pages))})
					break
				}
			}
			if len(got) > 0 {
				if at, known := pos[got[0].Hash]; known && !tops[at] {
					vv = append(vv, violation{op + "/class=part-start", fmt.Sprintf("%s: part %q starts at page %d, no top-level bookmark points there (top-level targets %v)", desc, e.Name(), at+1, d.tops)})
				}
			}
		}
		return vv
	}
	// shape: is the request inside what the doc comments promise a result for?
	shape := "in-range"
	switch {
	case c.Kind == "split-pagenr":
		shape = listShape(c.PageNrs, n)
	case c.Span < 0:
		shape = "negative-span"
	case c.Span > 31:
		shape = "huge-span"
	}
	documented := documentedShape(shape) || shape == "huge-span"
	if c.Shape {
		st["shape_calls/"+c.Kind+"/"+shape]++
	}
	if err != nil {
		if !documented && !panicked {
			// refused: not judged (left-over files are counted only)
			st["refused/"+c.Kind+"/"+shape]++
			if ents, _ := os.ReadDir(outDir); len(ents) > 0 {
				st["refused_but_files_written(not_judged)"]++
			}
			return vv
		}
		return append(vv, violation{op + "/class=error/" + errClass(err.Error()), desc + " fails: " + err.Error()})
	}
	if c.Shape {
		st["accepted/"+c.Kind+"/"+shape]++
	}
	var parts []part
	var other []string
	var perr error
	if c.Kind == "split-raw" {
		parts, perr = rawParts(raw) // in the order returned
	} else {
		parts, other, perr = readParts(outDir)
	}
	if perr != nil {
		return append(vv, violation{op + "/class=output-unreadable", desc + ": " + perr.Error()})
	}
	if !documented && !namesKnown(shape) {
		// accepted although the doc comments rule the request out: which parts to expect is undefined, but whatever
		// was written must still tile the original (below)
		return append(vv, checkTiling(op, desc, d, parts, other, nil, st)...)
	}
	want := expectedSpans(c, n)
	return append(vv, checkTiling(op, desc, d, parts, other, want, st)...)
}

// checkTiling: the parts (in documented order) are named after the expected spans (when want is given), hold as many
// pages as their names say, and concatenate to exactly the original page sequence.
func checkTiling(op, desc string, d *doc, parts []part, other []string, want [][2]int, st stats) (vv []violation) {
	n := len(d.pages)
	var wantNames, gotNames []string
	for _, s := range want {
		wantNames = append(wantNames, spanName(s))
	}
	sort.Strings(wantNames)
	for _, p := range parts {
		gotNames = append(gotNames, p.name)
	}
	gotNames = append(gotNames, other...)
	sort.Strings(gotNames)
	if strings.HasSuffix(op, "/raw") {
		// SplitRaw: From/Thru of the returned spans, in the order returned
		wantNames, gotNames = nil, nil
		for _, s := range want {
			wantNames = append(wantNames, fmt.Sprintf("%d-%d", s[0], s[1]))
		}
		for _, p := range parts {
			gotNames = append(gotNames, fmt.Sprintf("%d-%d", p.from, p.thru))
		}
	}
	if len(other) > 0 && want == nil {
		vv = append(vv, violation{op + "/class=file-names", fmt.Sprintf("%s: output directory holds files outside the documented naming scheme: %v", desc, other)})
	}
	if want != nil && strings.Join(wantNames, " ") != strings.Join(gotNames, " ") {
		vv = append(vv, violation{op + "/class=file-names", fmt.Sprintf("%s: expected part files %v, output directory holds %v", desc, wantNames, gotNames)})
	}
	var concat []Page
	for _, p := range parts {
		st["parts_read"]++
		if len(p.pages) != p.thru-p.from+1 {
			vv = append(vv, violation{op + "/class=part-page-count", fmt.Sprintf("%s: part %s holds %d pages, its name promises %d", desc, p.name, len(p.pages), p.thru-p.from+1)})
		}
		concat = append(concat, p.pages...)
	}
	st["pages_compared"] += int64(len(concat))
	same := len(concat) == n
	for i := 0; same && i < n; i++ {
		same = concat[i].Hash == d.pages[i].Hash
	}
	if !same {
		vv = append(vv, violation{op + "/class=sequence", fmt.Sprintf("%s: parts in file-name order concatenate to [%s], original is [%s]", desc, ids(concat), ids(d.pages))})
		return vv
	}
	checkPagesKept(op, d.pages, concat, desc, &vv)
	return vv
}

// ---------------------------------------------------------------------------------------------
// merge

func blankPage() Page { return Page{Blank: true} }

// expectedMerge: the documented page sequence. src[i] names for every expected page the input page (doc, page) or -1 for a divider.
func expectedMerge(c *Case, docs []*doc) (want []Page) {
	if c.Kind == "merge-zip" {
		a, b := docs[0].pages, docs[1].pages
		for i := 0; i < max(len(a), len(b)); i++ {
			if i < len(a) {
				want = append(want, a[i])
			}
			if i < len(b) {
				want = append(want, b[i])
			}
		}
		return want
	}
	for i, d := range docs {
		if i > 0 && c.Divider {
			want = append(want, blankPage())
		}
		want = append(want, d.pages...)
	}
	return want
}

func stripBlanks(l []Page) []Page {
	var out []Page
	for _, p := range l {
		if !p.Blank {
			out = append(out, p)
		}
	}
	return out
}

func sameSeq(a, b []Page) bool {
	if len(a) != len(b) {
		return false
	}
	for i := range a {
		if a[i].Blank != b[i].Blank || (!a[i].Blank && a[i].Hash != b[i].Hash) {
			return false
		}
	}
	return true
}

func runMerge(c *Case, docs []*doc, dir string, st stats) (vv []violation) {
	_ = os.MkdirAll(dir, 0o755)
	defer cleanup(dir)
	op := "op=" + strings.TrimSuffix(c.Kind, "-new")
	files := make([]string, len(docs))
	for i := range docs {
		files[i] = filepath.Join(dir, fmt.Sprintf("d%d.pdf", i))
		if i > 0 && c.Docs[i] == c.Docs[i-1] {
			files[i] = files[i-1] // the same file listed twice
			continue
		}
		if err := os.WriteFile(files[i], docs[i].data, 0o644); err != nil {
			return []violation{{"harness/write", err.Error()}}
		}
	}
	out := filepath.Join(dir, "out.pdf")
	conf := newConf()
	conf.CreateBookmarks = c.Bookmarks
	conf.OptimizeBeforeWriting = c.Optimize
	var ns []string
	for _, d := range docs {
		ns = append(ns, fmt.Sprint(len(d.pages)))
	}
	desc := fmt.Sprintf("%s(pages %s, divider=%v, bookmarks=%v)", c.Kind, strings.Join(ns, "+"), c.Divider, c.Bookmarks)
	inputs := files
	err, panicked := guard(func() error {
		switch c.Kind {
		case "merge-create":
			return api.MergeCreateFile(files, out, c.Divider, conf)
		case "merge-append-new": // destination does not exist: "it will be created (like in default mode)"
			return api.MergeAppendFile(files, out, c.Divider, conf)
		case "merge-append":
			if err := os.WriteFile(out, docs[0].data, 0o644); err != nil {
				return err
			}
			inputs = files[1:]
			return api.MergeAppendFile(files[1:], out, c.Divider, conf)
		case "merge-zip":
			return api.MergeCreateZipFile(files[0], files[1], out, conf)
		}
		return fmt.Errorf("unknown kind %s", c.Kind)
	})
	st["calls/"+c.Kind]++
	if panicked {
		st["pdfcpu_panics"]++
	}
	for i, f := range inputs {
		k := i + len(files) - len(inputs)
		if now, rerr := os.ReadFile(f); rerr != nil || !bytes.Equal(now, docs[k].data) {
			vv = append(vv, violation{op + "/class=input-modified", fmt.Sprintf("%s: input %d is not byte-identical afterwards", desc, k+1)})
		}
	}
	if err != nil {
		return append(vv, violation{op + "/class=error/" + errClass(err.Error()), desc + " fails: " + err.Error()})
	}
	data, rerr := os.ReadFile(out)
	if rerr != nil {
		return append(vv, violation{op + "/class=no-output", desc + ": " + rerr.Error()})
	}
	got, oerr := observe(data)
	if oerr != nil {
		return append(vv, violation{op + "/class=output-unreadable", desc + ": " + oerr.Error()})
	}
	want := expectedMerge(c, docs)
	st["pages_compared"] += int64(len(got))
	if !sameSeq(want, got) {
		cls := "sequence"
		switch {
		case sameSeq(stripBlanks(want), stripBlanks(got)):
			cls = "divider"
		case c.Kind == "merge-zip":
			cls = "interleaving"
		}
		return append(vv, violation{op + "/class=" + cls, fmt.Sprintf("%s: expected page sequence [%s], output has [%s]", desc, ids(want), ids(got))})
	}
	for i := range want {
		if want[i].Blank {
			continue
		}
		what, text := attrDiffs(want[i], got[i])
		for k, w := range what {
			cls := "page-changed"
			if want[i].Inh[w] || (w == "cropbox" && !want[i].Inh[w] && want[i].Crop.eq(want[i].Media)) {
				// inherited in the input — or absent in the input and now inherited from a foreign node
				cls = "inherited-attr-lost"
			}
			vv = append(vv, violation{op + "/class=" + cls + "/what=" + w, fmt.Sprintf("%s: output page %d (%s): %s", desc, i+1, want[i].id(), text[k])})
		}
	}
	return vv
}

// ---------------------------------------------------------------------------------------------

func genPageNrs(rng *rand.Rand, n int) []int {
	// sorted, unique, 2..n
	k := 1 + rng.IntN(min(5, n-1))
	set := map[int]bool{}
	for len(set) < k {
		set[2+rng.IntN(n-1)] = true
	}
	var out []int
	for p := range set {
		out = append(out, p)
	}
	sort.Ints(out)
	return out
}

func genMerge(rng *rand.Rand, i int, corpusNames []string) *Case {
	kinds := []string{"merge-create", "merge-create", "merge-append", "merge-append-new", "merge-zip", "merge-zip"}
	c := &Case{Kind: kinds[rng.IntN(len(kinds))], Divider: rng.IntN(2) == 0, Bookmarks: rng.IntN(2) == 0, Optimize: rng.IntN(4) != 0}
	k := 1 + rng.IntN(5)
	switch c.Kind {
	case "merge-zip":
		k, c.Divider = 2, false // "not applicable for zipping"
	case "merge-append":
		k = max(k, 2) // destination + at least one input
	}
	for j := 0; j < k; j++ {
		r := DocRef{Gen: i*8 + j, Max: []int{1, 2, 3, 5, 8, 12}[rng.IntN(6)]}
		if len(corpusNames) > 0 && rng.IntN(12) == 0 {
			r = DocRef{Corpus: corpusNames[rng.IntN(len(corpusNames))]}
		}
		if j > 0 && c.Kind != "merge-zip" && rng.IntN(12) == 0 {
			r = c.Docs[j-1] // the same document twice in a row
		}
		c.Docs = append(c.Docs, r)
	}
	return c
}

func main() {
	vk.Run("C33", "exploration", func(t *vk.T) {
		api.DisableConfigDir()
		scratch := t.Scratch()

		corpus := map[string]*doc{}
		var corpusNames []string
		for _, name := range corpusFiles {
			data, err := os.ReadFile(filepath.Join(vk.RepoDir(), "pkg", "testdata", name))
			if err != nil {
				continue
			}
			pages, err := observe(data)
			if err != nil || len(pages) < 1 || len(pages) > 20 {
				continue
			}
			usable := true
			for i := range pages {
				pages[i].Fonts = nil // unknown which fonts the content uses
				usable = usable && !pages[i].Blank
			}
			if usable {
				corpus[name] = &doc{data: data, pages: pages}
				corpusNames = append(corpusNames, name)
			}
		}

		type cached struct {
			once sync.Once
			d    *doc
			err  error
		}
		var cacheMu sync.Mutex
		splitDocs := map[int]*cached{}
		splitDoc := func(i, pages int) (*doc, error) {
			cacheMu.Lock()
			e := splitDocs[i]
			if e == nil {
				e = &cached{}
				splitDocs[i] = e
			}
			cacheMu.Unlock()
			e.once.Do(func() { e.d, e.err = genSplitDoc(t, i, pages) })
			return e.d, e.err
		}
		run := func(c *Case, dir string, st stats) ([]violation, error) {
			if strings.HasPrefix(c.Kind, "split") {
				d, err := splitDoc(c.Doc, c.Pages)
				if err != nil {
					return nil, err
				}
				return runSplit(c, d, dir, st), nil
			}
			docs := make([]*doc, len(c.Docs))
			for i, r := range c.Docs {
				d, err := genMergeDoc(t, r, corpus)
				if err != nil {
					return nil, err
				}
				docs[i] = d
			}
			return runMerge(c, docs, dir, st), nil
		}

		if t.Replay != nil {
			var c Case
			if err := json.Unmarshal(t.Replay.Case, &c); err != nil {
				t.Broken("replay case: %v", err)
			}
			vv, err := run(&c, filepath.Join(scratch, "replay"), stats{})
			if err != nil {
				t.Broken("replay input: %v", err)
			}
			for _, v := range vv {
				t.Violate(v.key, v.what, &c)
			}
			t.Eval("replay")
			return
		}

		// ---- case list (deterministic) ----
		var cases []*Case
		docsPerCount := t.Pick(1, 6)
		listsPerDoc := t.Pick(4, 12)
		shapeReps := 1 // draws of the shape set per document (quick keeps every second shape of the draw)
		di := 0
		for rep := 0; rep < docsPerCount; rep++ {
			for n := 1; n <= 30; n++ {
				for span := 1; span <= 31; span++ {
					cases = append(cases, &Case{Kind: "split-span", Doc: di, Pages: n, Span: span})
				}
				rng := t.RNGi("pagenrs", di)
				for k := 0; k < listsPerDoc && n >= 2; k++ {
					cases = append(cases, &Case{Kind: "split-pagenr", Doc: di, Pages: n, PageNrs: genPageNrs(rng, n)})
				}
				cases = append(cases, &Case{Kind: "split-bookmarks", Doc: di, Pages: n, Span: 0})
				// requests at and beyond the edges of the documented range, rotating through the entry points
				srng := t.RNGi("shapes", di)
				v := di
				// quick: every second shape per document, alternating with the document index (each shape on 15 of the 30
				// page counts); thorough: all of them
				keep := func(j int) bool { return !t.Quick() || (j+di)%2 == 0 }
				for rep2 := 0; rep2 < shapeReps; rep2++ {
					for j, l := range genShapeLists(srng, n) {
						if keep(j) {
							cases = append(cases, &Case{Kind: "split-pagenr", Doc: di, Pages: n, PageNrs: l, Via: vias[v%len(vias)], Shape: true})
							v++
						}
					}
					for j, sp := range genShapeSpans(srng, n) {
						if keep(j) {
							cases = append(cases, &Case{Kind: "split-span", Doc: di, Pages: n, Span: sp, Via: vias[v%len(vias)], Shape: true})
							v++
						}
					}
					// the in-memory sibling of SplitFile (pageSpans is a copy of writePageSpans)
					for j, sp := range []int{1 + srng.IntN(31), n, n + 1 + srng.IntN(3), genShapeSpans(srng, n)[2+srng.IntN(2)], -1 - srng.IntN(3)} {
						if keep(j) {
							cases = append(cases, &Case{Kind: "split-raw", Doc: di, Pages: n, Span: sp, Shape: true})
						}
					}
					// the ordinary requests through the other entry points
					if sp := 1 + srng.IntN(31); keep(0) {
						cases = append(cases, &Case{Kind: "split-span", Doc: di, Pages: n, Span: sp, Via: vias[1+v%2]})
					}
					if n >= 2 && keep(1) {
						cases = append(cases, &Case{Kind: "split-pagenr", Doc: di, Pages: n, PageNrs: genPageNrs(srng, n), Via: vias[1+(v+1)%2]})
					}
				}
				di++
			}
		}
		nSplit := len(cases)
		nMerge := t.Pick(500, 5000)
		for i := 0; i < nMerge; i++ {
			cases = append(cases, genMerge(t.RNGi("merge", i), i, corpusNames))
		}
		t.Rule(fmt.Sprintf("split: %d generated documents (every page count 1..30, %d per count; nested page trees, inherited attributes, outlines on every second one) x SplitFile with EVERY span 1..31, x %d random sorted page-number lists (1..5 numbers in 2..n) for SplitByPageNrFile, x SplitFile span 0 (bookmarks); "+
			"per document also %d x (quick: every second of) {~25 page-number lists at and beyond the documented range: nil, empty, [n+1], one entry far beyond, [1], [n], one entry, valid entries followed by n+1 / several entries beyond the last page up to MaxInt, entry = page count inside longer lists, entry 1 / 0 / negative first, duplicates (also of an entry beyond), unsorted (also through an entry beyond), random lists over 1..n+4; 4 spans outside 1..31 (negative, MinInt, n+32.. MaxInt); 5 SplitRaw calls (span in 1..31, n, just above n, huge, negative); one ordinary span and list}, "+
			"rotating through the entry points SplitFile/SplitByPageNrFile, Split/SplitByPageNr (reader) and cli.Dispatch(SplitCommand/SplitByPageNrCommand) = %d split cases. "+
			"merge: %d cases: 1..5 documents (pdfgen 1..12 pages, 1 in 12 a corpus file of %v, 1 in 12 the previous file again) x {create, append onto an existing destination, append with a missing destination, zip of two} x divider on/off (never for zip) x bookmarks on/off x OptimizeBeforeWriting. "+
			"A case is non-trivial when the operation produced output that was read back and compared", 30*docsPerCount, docsPerCount, listsPerDoc, shapeReps, nSplit, nMerge, corpusNames))
		t.Assume("part files are named <base>_<from>.pdf / <base>_<from>-<thru>.pdf (spanFileName, usage text); their order is the numeric order of <from>; any other file in the output directory is a violation")
		t.Assume("SplitByPageNrFile splits BEFORE the given page numbers (doc comment: sorted, unique, at least 2). A list inside that description with every entry <= pageCount must succeed. Any other list (empty, entry < 2, duplicates, unsorted, first entry beyond the last page - all refused by validateSplitPageNumbers - or later entries beyond the last page - accepted, those entries are ignored) may be refused with an error (counted under refused/, not judged); when the call returns nil the parts must tile the original page sequence whatever the list was, and for sorted unique lists the part files are those of the splits before the listed pages that exist")
		t.Assume("span < 0 may be refused (ErrInvalidSplitSpan); every span >= 1 including spans far beyond the page count must succeed (one part 1..n); SplitRaw's spans are judged in the order returned by their From/Thru and content")
		t.Assume("bookmark split (span 0): the property claims the sequence only for span and page-number splits; a bookmark part must be a contiguous run of original pages starting at a page some top-level bookmark targets; a refusal (no usable bookmarks) is counted, not judged")
		t.Assume("zip merge: 1A 1B 2A 2B ... (MergeXRefTables doc comment), the remaining pages of the longer document follow in order; divider pages are 'not applicable for zipping'")
		t.Assume("divider: exactly one blank page between consecutive merged documents (append: also between the existing destination and the first input), none after the last; a divider's boxes and rotation are not judged")
		t.Assume("pages are compared by effective values after inheritance (pdfstrict): /Rotate mod 360, MediaBox, CropBox (default MediaBox), explicit Trim/Bleed/ArtBox, and presence of the font resources the page content uses (generated documents only)")

		type outcome struct {
			vv  []violation
			err error
		}
		outs := make([]outcome, len(cases))
		var mu sync.Mutex
		total := stats{}
		vk.Parallel(len(cases), func(i int) {
			c := cases[i]
			st := stats{}
			vv, err := run(c, filepath.Join(scratch, fmt.Sprintf("c%d", i)), st)
			outs[i] = outcome{vv, err}
			key := ""
			if st["pages_compared"] > 0 || st["parts_read"] > 0 {
				b, _ := json.Marshal(c)
				key = string(b)
			}
			t.Eval(key)
			if i == 40 || i == nSplit-1 || i == nSplit || i == nSplit+1 {
				t.Sample(c)
			}
			mu.Lock()
			for k, v := range st {
				total[k] += v
			}
			mu.Unlock()
		})
		for i, o := range outs {
			if o.err != nil {
				t.Broken("case %d: generated document and strict reader disagree: %v", i, o.err)
			}
		}
		// one report per key: the smallest case (fewest pages / documents), ties by case order
		size := func(c *Case) int {
			if c.Pages > 0 {
				return c.Pages*100 + min(max(c.Span, 0), 99) + len(c.PageNrs)
			}
			s := 0
			for _, r := range c.Docs {
				s += 100 + r.Max
			}
			return s
		}
		best := map[string]int{}
		what := map[string]string{}
		var keys []string
		for i, o := range outs {
			seen := map[string]bool{}
			for _, v := range o.vv {
				if seen[v.key] {
					continue
				}
				seen[v.key] = true
				total["violations/"+v.key]++
				j, ok := best[v.key]
				if !ok {
					keys = append(keys, v.key)
				}
				if !ok || size(cases[i]) < size(cases[j]) {
					best[v.key], what[v.key] = i, v.what
				}
			}
		}
		for _, k := range keys {
			t.Violate(k, what[k], cases[best[k]])
		}
		names := make([]string, 0, len(total))
		for k := range total {
			names = append(names, k)
		}
		sort.Strings(names)
		for _, k := range names {
			t.Count(k, total[k])
		}
		if total["pages_compared"] == 0 && len(keys) == 0 {
			t.Broken("no page was compared")
		}
	})
}
