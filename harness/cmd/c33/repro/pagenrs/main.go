// Probe: what do SplitByPageNrFile / SplitFile / SplitRaw do for the page-number-list and span shapes the C33 worker
// generates (error = refused, else the part files written)? Run against /repo's current tree:
//
//	. /verif/env.sh; cd /verif/harness; $GO125 run -tags verif ./cmd/c33/repro/pagenrs
package main

import (
	"bytes"
	"fmt"
	"math"
	"os"
	"path/filepath"
	"sort"

	"github.com/pdfcpu/pdfcpu/pkg/api"
	"github.com/pdfcpu/pdfcpu/pkg/pdfcpu/model"
	"verif/harness/internal/pdfgen"
)

func conf() *model.Configuration {
	c := model.NewDefaultConfiguration()
	c.Offline = true
	return c
}

func doc(n int) []byte {
	d := pdfgen.NewDoc()
	root := d.Alloc()
	var kids pdfgen.Array
	for i := 1; i <= n; i++ {
		c := d.Add(&pdfgen.Stream{Dict: pdfgen.Dict{}, Data: []byte(fmt.Sprintf("%% page %d\nq Q\n", i))})
		kids = append(kids, d.Add(pdfgen.D("Type", pdfgen.Name("Page"), "Parent", root, "Contents", c, "MediaBox", pdfgen.Rect(0, 0, 500, 800), "Resources", pdfgen.D())))
	}
	d.Put(root, pdfgen.D("Type", pdfgen.Name("Pages"), "Kids", kids, "Count", n))
	d.SetRoot(d.Add(pdfgen.D("Type", pdfgen.Name("Catalog"), "Pages", root)))
	return pdfgen.MustWrite(d, pdfgen.Options{}).Bytes
}

func list(dir string) []string {
	ents, _ := os.ReadDir(dir)
	var out []string
	for _, e := range ents {
		out = append(out, e.Name())
	}
	sort.Strings(out)
	return out
}

func main() {
	api.DisableConfigDir()
	base := os.Getenv("VERIF_SCRATCH")
	if base == "" {
		base = "/verif/.cache/run"
	}
	tmp, _ := os.MkdirTemp(base, "c33probe")
	defer os.RemoveAll(tmp)
	const n = 10
	in := filepath.Join(tmp, "in.pdf")
	data := doc(n)
	_ = os.WriteFile(in, data, 0o644)
	for i, nrs := range [][]int{nil, {}, {1}, {2}, {n}, {n + 1}, {40}, {5, 40}, {5, n}, {5, n + 1}, {5, n, n + 1, 40}, {2, 7, 11}, {1, 5}, {0, 5}, {-3, 5}, {5, 5}, {5, 3}, {5, 40, 7}, {5, 40, 40}, {5, math.MaxInt}, {n, n + 1}} {
		out := filepath.Join(tmp, fmt.Sprintf("p%d", i))
		_ = os.MkdirAll(out, 0o755)
		err := api.SplitByPageNrFile(in, out, nrs, conf())
		fmt.Printf("SplitByPageNrFile(%d pages, %v): err=%v files=%v\n", n, nrs, err, list(out))
	}
	for i, span := range []int{-1, n - 1, n, n + 1, 1000, math.MaxInt32, math.MaxInt} {
		out := filepath.Join(tmp, fmt.Sprintf("s%d", i))
		_ = os.MkdirAll(out, 0o755)
		err := api.SplitFile(in, out, span, conf())
		fmt.Printf("SplitFile(%d pages, span %d): err=%v files=%v\n", n, span, err, list(out))
		ps, err := api.SplitRaw(bytes.NewReader(data), span, conf())
		var spans [][2]int
		for _, p := range ps {
			spans = append(spans, [2]int{p.From, p.Thru})
		}
		fmt.Printf("SplitRaw(%d pages, span %d): err=%v spans=%v\n", n, span, err, spans)
	}
}
