// Stand-alone reproducers for the C33 findings (run against /repo's current tree):
//
//	. /verif/env.sh; cd /verif/harness; $GO125 run -tags verif ./cmd/c33/repro
package main

import (
	"fmt"
	"os"
	"path/filepath"

	"github.com/pdfcpu/pdfcpu/pkg/api"
	"github.com/pdfcpu/pdfcpu/pkg/pdfcpu/model"
	"verif/harness/internal/pdfgen"
)

func conf() *model.Configuration {
	c := model.NewDefaultConfiguration()
	c.Offline = true
	return c
}

// doc: root -> node(attrs) -> one page (no own CropBox / Resources when inherit is set)
func doc(label string, inherit bool) []byte {
	d := pdfgen.NewDoc()
	root, node := d.Alloc(), d.Alloc()
	font := d.Add(pdfgen.D("Type", pdfgen.Name("Font"), "Subtype", pdfgen.Name("Type1"), "BaseFont", pdfgen.Name("Helvetica")))
	res := pdfgen.D("Font", pdfgen.D("F1", font))
	var kids pdfgen.Array
	for i := 1; i <= 2; i++ {
		c := d.Add(&pdfgen.Stream{Dict: pdfgen.Dict{}, Data: []byte(fmt.Sprintf("BT /F1 12 Tf 72 700 Td (%s-%d) Tj ET\n", label, i))})
		pg := pdfgen.D("Type", pdfgen.Name("Page"), "Parent", node, "Contents", c, "MediaBox", pdfgen.Rect(0, 0, 500, 800))
		if !inherit {
			pg.Set("Resources", res)
		}
		kids = append(kids, d.Add(pg))
	}
	nd := pdfgen.D("Type", pdfgen.Name("Pages"), "Parent", root, "Kids", kids, "Count", 2)
	if inherit {
		nd.Set("Resources", res)
		nd.Set("CropBox", pdfgen.Rect(10, 10, 300, 400))
	}
	d.Put(node, nd)
	d.Put(root, pdfgen.D("Type", pdfgen.Name("Pages"), "Kids", pdfgen.Array{node}, "Count", 2))
	d.SetRoot(d.Add(pdfgen.D("Type", pdfgen.Name("Catalog"), "Pages", root)))
	return pdfgen.MustWrite(d, pdfgen.Options{}).Bytes
}

func show(file string) {
	ctx, err := api.ReadContextFile(file)
	if err != nil {
		fmt.Println("  read:", err)
		return
	}
	for i := 1; i <= ctx.PageCount; i++ {
		_, _, inh, err := ctx.PageDict(i, false)
		if err != nil {
			fmt.Println("  page", i, err)
			continue
		}
		crop := "none"
		if inh.CropBox != nil {
			crop = fmt.Sprintf("[%.0f %.0f %.0f %.0f]", inh.CropBox.LL.X, inh.CropBox.LL.Y, inh.CropBox.UR.X, inh.CropBox.UR.Y)
		}
		fonts := 0
		if inh.Resources != nil {
			if f := inh.Resources.DictEntry("Font"); f != nil {
				fonts = len(f)
			}
		}
		fmt.Printf("  page %d: CropBox=%s fonts in effective resources=%d\n", i, crop, fonts)
	}
}

func main() {
	api.DisableConfigDir()
	dir, _ := os.MkdirTemp("/verif/.cache/run", "c33repro-")
	defer os.RemoveAll(dir)
	a, b, out := filepath.Join(dir, "a.pdf"), filepath.Join(dir, "b.pdf"), filepath.Join(dir, "out.pdf")

	fmt.Println("Z1  MergeCreateZipFile: pages of the second document lose the CropBox and Resources they inherit from their page tree node")
	os.WriteFile(a, doc("A", false), 0o644)
	os.WriteFile(b, doc("B", true), 0o644)
	fmt.Println("  input B:")
	show(b)
	fmt.Println("  MergeCreateZipFile(A, B):", api.MergeCreateZipFile(a, b, out, conf()))
	show(out)

	fmt.Println("Z2  MergeCreateZipFile: pages of the second document without a CropBox pick up the CropBox of the FIRST document's node")
	os.WriteFile(a, doc("A", true), 0o644)
	os.WriteFile(b, doc("B", false), 0o644)
	os.Remove(out)
	fmt.Println("  MergeCreateZipFile(A, B):", api.MergeCreateZipFile(a, b, out, conf()))
	show(out)

	fmt.Println("M1  MergeCreateFile: a source with a /Dests name tree holding direct destination arrays and objects in object streams; 30 identical calls")
	os.WriteFile(a, pdfgen.Build(pdfgen.DocSpec{Seed: 7, Pages: 2}).Bytes, 0o644)
	for _, spec := range []pdfgen.DocSpec{
		{Seed: 11, Pages: 6, Dests: 20, NameTreeLeafMax: 2, Outlines: 6, Write: pdfgen.Options{XRef: pdfgen.XRefStream, ObjStm: true, ObjStmMax: 2}},
		{Seed: 12, Pages: 8, Dests: 30, NameTreeLeafMax: 3, Annotations: true, Write: pdfgen.Options{XRef: pdfgen.XRefStream, ObjStm: true, ObjStmMax: 5}},
	} {
		os.WriteFile(b, pdfgen.Build(spec).Bytes, 0o644)
		fails, last := 0, error(nil)
		for i := 0; i < 30; i++ {
			os.Remove(out)
			if err := api.MergeCreateFile([]string{a, b}, out, false, conf()); err != nil {
				fails++
				last = err
			}
		}
		fmt.Printf("  source pdfgen{Seed:%d Pages:%d Dests:%d ObjStmMax:%d}: %d of 30 calls fail; last error: %v\n", spec.Seed, spec.Pages, spec.Dests, spec.Write.ObjStmMax, fails, last)
	}

	fmt.Println("S1  SplitFile: a CropBox inherited from a page tree node is lost in the parts (ExtractPages, same defect as C32 R1)")
	os.WriteFile(b, doc("B", true), 0o644)
	outDir := filepath.Join(dir, "parts")
	os.MkdirAll(outDir, 0o755)
	fmt.Println("  SplitFile(B, span 1):", api.SplitFile(b, outDir, 1, conf()))
	show(filepath.Join(outDir, "b_1.pdf"))

}
