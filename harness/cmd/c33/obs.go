package main

import (
	"bytes"
	"crypto/sha256"
	"encoding/hex"
	"fmt"
	"math"
	"regexp"
	"sort"
	"strconv"
	"strings"

	"verif/harness/internal/pdfgen"
	"verif/harness/internal/pdfstrict"
)

// Rect is llx lly urx ury.
type Rect [4]float64

func (r Rect) eq(o Rect) bool {
	for i := range r {
		if math.Abs(r[i]-o[i]) > 1e-6 {
			return false
		}
	}
	return true
}

func (r Rect) String() string {
	f := func(v float64) string { return strconv.FormatFloat(v, 'f', -1, 64) }
	return "[" + f(r[0]) + " " + f(r[1]) + " " + f(r[2]) + " " + f(r[3]) + "]"
}

// Page is what the oracle knows or sees of one page.
type Page struct {
	Marker string // "" for blank and corpus pages
	Hash   string // identity of the decoded content bytes
	Blank  bool
	Rot    int
	Media  Rect
	Crop   Rect            // effective (defaults to Media)
	Extra  map[string]Rect // explicit TrimBox / BleedBox / ArtBox
	Fonts  []string        // truth: fonts the content uses; observed: fonts in the effective resources
	// Inh: attribute name (rotate, mediabox, cropbox, resources) -> the input page inherits it from a page tree node
	Inh map[string]bool
}

func (p Page) id() string {
	switch {
	case p.Blank:
		return "blank"
	case p.Marker != "":
		return p.Marker[len(p.Marker)-6:]
	}
	return "#" + p.Hash[:6]
}

func ids(l []Page) string {
	ss := make([]string, len(l))
	for i, p := range l {
		ss[i] = p.id()
	}
	return strings.Join(ss, " ")
}

var markerRE = regexp.MustCompile(`\((VERIF-PAGE-[0-9A-Fa-f]{32})\) Tj`)

func hashOf(b []byte) string {
	h := sha256.Sum256(b)
	return hex.EncodeToString(h[:8])
}

func normRot(r int) int {
	r %= 360
	if r < 0 {
		r += 360
	}
	return r
}

// observe reads a PDF with the independent strict reader.
func observe(data []byte) ([]Page, error) {
	d, err := pdfstrict.Open(data, pdfstrict.Options{})
	if err != nil {
		return nil, fmt.Errorf("pdfstrict open: %v", err)
	}
	pages, err := d.Pages()
	if err != nil {
		return nil, fmt.Errorf("pdfstrict pages: %v", err)
	}
	for _, k := range []string{pdfstrict.KindPagesTree, pdfstrict.KindPagesCount} {
		if d.HasDefect(k) {
			for _, df := range d.Defects {
				if df.Kind == k {
					return nil, fmt.Errorf("page tree defect %s: %s", k, df.Msg)
				}
			}
		}
	}
	out := make([]Page, len(pages))
	for i, pg := range pages {
		if pg.ContentErr != nil {
			return nil, fmt.Errorf("page %d: %v", i+1, pg.ContentErr)
		}
		if !pg.HasMediaBox {
			return nil, fmt.Errorf("page %d: no MediaBox", i+1)
		}
		p := Page{Hash: hashOf(pg.Content), Rot: normRot(pg.Rotate), Media: Rect(pg.MediaBox), Crop: Rect(pg.CropBox), Extra: map[string]Rect{}}
		if m := markerRE.FindAllSubmatch(pg.Content, -1); len(m) == 1 {
			p.Marker = string(m[0][1])
		}
		p.Blank = len(bytes.TrimSpace(pg.Content)) == 0
		for _, k := range []string{"TrimBox", "BleedBox", "ArtBox"} {
			a, ok := d.Resolve(pg.Dict[k]).(pdfstrict.Array)
			if !ok || len(a) != 4 {
				continue
			}
			var r Rect
			good := true
			for j, x := range a {
				f, isNum := pdfstrict.Number(d.Resolve(x))
				good = good && isNum
				r[j] = f
			}
			if good {
				p.Extra[k] = r
			}
		}
		if pg.Resources != nil {
			if fd, ok := d.ResolveDict(pg.Resources["Font"]); ok {
				for name := range fd {
					p.Fonts = append(p.Fonts, name)
				}
				sort.Strings(p.Fonts)
			}
		}
		out[i] = p
	}
	return out, nil
}

// fromTruth turns the generator's ground truth into pages.
func fromTruth(tr *pdfgen.Truth) []Page {
	out := make([]Page, len(tr.Pages))
	for i := range tr.Pages {
		pt := &tr.Pages[i]
		p := Page{Marker: pt.Marker, Hash: hashOf(pt.Content()), Rot: normRot(pt.Rotate), Media: Rect(pt.MediaBox), Crop: Rect(pt.MediaBox), Extra: map[string]Rect{},
			Fonts: append([]string(nil), pt.Fonts...),
			Inh:   map[string]bool{"rotate": pt.RotateFrom > 0, "mediabox": pt.MediaBoxFrom > 0, "cropbox": pt.CropBoxFrom > 0, "resources": pt.ResourcesFrom > 0}}
		if pt.CropBox != nil {
			p.Crop = Rect(*pt.CropBox)
		}
		out[i] = p
	}
	return out
}

// sameStart: harness self-check, the strict reader must see the input as the truth says.
func sameStart(want, got []Page) error {
	if len(want) != len(got) {
		return fmt.Errorf("truth has %d pages, strict reader %d", len(want), len(got))
	}
	for i := range want {
		w, g := want[i], got[i]
		if w.Hash != g.Hash || w.Marker != g.Marker || w.Rot != g.Rot || !w.Media.eq(g.Media) || !w.Crop.eq(g.Crop) {
			return fmt.Errorf("page %d: truth %+v, strict reader %+v", i+1, w, g)
		}
	}
	return nil
}

// attrDiffs lists the attributes in which an output page differs from the input page it stems from.
func attrDiffs(w, g Page) (what []string, text []string) {
	add := func(k, s string) { what = append(what, k); text = append(text, s) }
	if w.Rot != g.Rot {
		add("rotate", fmt.Sprintf("effective /Rotate %d -> %d", w.Rot, g.Rot))
	}
	if !w.Media.eq(g.Media) {
		add("mediabox", fmt.Sprintf("effective MediaBox %v -> %v", w.Media, g.Media))
	}
	if !w.Crop.eq(g.Crop) {
		add("cropbox", fmt.Sprintf("effective CropBox %v -> %v", w.Crop, g.Crop))
	}
	for _, k := range []string{"TrimBox", "BleedBox", "ArtBox"} {
		wr, wok := w.Extra[k]
		gr, gok := g.Extra[k]
		if wok != gok || (wok && !wr.eq(gr)) {
			add(strings.ToLower(k), fmt.Sprintf("%s %v(%v) -> %v(%v)", k, wr, wok, gr, gok))
		}
	}
	if len(w.Fonts) > 0 {
		have := map[string]bool{}
		for _, f := range g.Fonts {
			have[f] = true
		}
		for _, f := range w.Fonts {
			if !have[f] {
				add("resources", fmt.Sprintf("font /%s used by the content is not in the effective resources %v", f, g.Fonts))
				break
			}
		}
	}
	return
}
