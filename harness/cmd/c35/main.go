// C35 — document metadata edits behave like a simple key/value store.
//
// Random histories of 1-10 edits (keywords, properties, page layout, page mode, viewer
// preferences in struct and JSON form, attachments) are executed through pkg/api's *File
// functions on pdfgen documents and corpus files. A reference model (model.go) is advanced
// in lock step. After EVERY step
//
//   - every listing call (Keywords, Properties, PageLayoutFile/ListPageLayoutFile,
//     PageModeFile/ListPageModeFile, ViewerPreferencesFile + JSON + text listing, Attachments,
//     ExtractAttachmentsRaw, ExtractAttachmentsFile, extraction of one attachment by name)
//     must equal the model, and
//   - an independent reading of the written file (pdfstrict + pdftext; no pdfcpu code) must
//     show the same Info entries, /Keywords, catalog /PageLayout /PageMode /ViewerPreferences
//     and EmbeddedFiles (names, descriptions, decoded stream bytes).
//
// Calls the model expects to fail (removing absent keys) must return the documented sentinel
// and must leave the input untouched and no output behind.
//
// Once a store (keywords, properties, ...) has shown a violation in a history, model and file
// have diverged there: that store is neither checked nor edited for the rest of the history
// (the other stores go on), so that one defect is reported once, under the operation that
// exposed it.
//
// Violation keys: store=<store>/op=<op>/class=<what>/<detail>, e.g.
// store=properties/op=add/class=missing/keyclass=hash-sign.
package main

import (
	"bytes"
	"crypto/sha256"
	"encoding/json"
	"errors"
	"fmt"
	"math/rand/v2"
	"os"
	"path/filepath"
	"regexp"
	"sort"
	"strings"

	"github.com/pdfcpu/pdfcpu/pkg/api"
	"verif/harness/internal/pdfgen"
	"verif/harness/internal/pdftext"
	"verif/harness/internal/vk"
)

type baseSpec struct {
	Kind   string `json:"kind"` // gen | corpus
	Seed   uint64 `json:"seed,omitempty"`
	Corpus string `json:"corpus,omitempty"`
}

type replayCase struct {
	Base baseSpec `json:"base"`
	Ops  []op     `json:"ops"`
	Step int      `json:"step"`
}

var corpus = []string{"test.pdf", "empty.pdf", "zineTest.pdf", "testWithText.pdf", "Paclitaxel.PDF", "Walden.pdf", "bookletTestA6.pdf"}

const baseKeywords = "alpha; base kw, gamma"

// makeBase writes the base document and returns the state it holds.
func makeBase(b baseSpec, path string) (*state, error) {
	st := newState()
	switch b.Kind {
	case "gen":
		rng := rand.New(rand.NewPCG(b.Seed, 0xC35))
		ds := pdfgen.DocSpec{
			Seed: rng.Uint64(), Pages: 1 + rng.IntN(3), Filters: pdfgen.FiltersFlate,
			Info: rng.IntN(3) != 0, XMP: rng.IntN(4) == 0, ViewerPrefs: rng.IntN(2) == 0,
			NameTreeLeafMax: 1 + rng.IntN(4), Write: pdfgen.RandomOptions(rng),
		}
		n := []int{0, 0, 1, 3, 6}[rng.IntN(5)]
		for j := 0; j < n; j++ {
			name := fmt.Sprintf("base-%d.dat", j)
			desc := ""
			if rng.IntN(2) == 0 {
				desc = fmt.Sprintf("base description %d", j)
			}
			data := randData(rng)
			ds.EmbeddedFiles = append(ds.EmbeddedFiles, pdfgen.EmbeddedFileSpec{F: []byte(name), UF: []byte(name), Desc: desc, Data: data})
			st.Att[name] = attEntry{Data: data, Desc: desc}
		}
		doc, truth := pdfgen.BuildDoc(ds)
		if truth.Objs.Info != 0 {
			kw := baseKeywords
			if rng.IntN(3) == 0 {
				kw = "solo"
			}
			doc.SetKey(truth.Objs.Info, "Keywords", pdfgen.EncodeText(kw))
			for _, k := range splitKeywords(kw) {
				st.Kw[k] = true
			}
			for k, v := range truth.Info {
				if strings.HasPrefix(k, "VerifCustom") && v != "" {
					st.Props[k] = v
				}
			}
		}
		st.Layout, st.Mode = truth.PageLayout, truth.PageMode
		for k, v := range truth.ViewerPrefs {
			st.VP[k] = strings.TrimPrefix(v, "/")
		}
		opts := ds.Write
		opts.Version = pdfgen.FitVersion(opts, truth.MinVersion)
		out, err := pdfgen.Write(doc, opts)
		if err != nil {
			return nil, fmt.Errorf("pdfgen: %w", err)
		}
		return st, os.WriteFile(path, out.Bytes, 0o644)
	case "corpus":
		data, err := os.ReadFile(filepath.Join(vk.RepoDir(), "pkg", "testdata", b.Corpus))
		if err != nil {
			return nil, err
		}
		if err := os.WriteFile(path, data, 0o644); err != nil {
			return nil, err
		}
		v := readStrict(path)
		if v.Err != nil {
			return nil, fmt.Errorf("strict read of corpus file: %w", v.Err)
		}
		for _, k := range splitKeywords(v.Kw) {
			st.Kw[k] = true
		}
		for k, val := range v.Info {
			switch k {
			case "Title", "Author", "Subject", "Creator", "Producer", "CreationDate", "ModDate", "Trapped", "AAPL:Keywords":
				continue
			}
			if val != "" {
				st.Props[k] = val
			}
		}
		st.Layout, st.Mode = v.Layout, v.Mode
		for k, val := range v.VP {
			st.VP[k] = val
		}
		for _, a := range v.Att {
			st.Att[a.name()] = attEntry{Data: a.Data, Desc: a.Desc}
		}
		return st, nil
	}
	return nil, fmt.Errorf("unknown base kind %q", b.Kind)
}

// ---------------------------------------------------------------------------------------------

type runner struct {
	t       *vk.T
	base    baseSpec
	ops     []op
	dir     string
	renamed map[string]bool // attachment IDs pdfcpu invented for re-added names
	tainted map[string]bool // stores in which this history already showed a violation: model and file have diverged, no further checks or operations there
	stop    bool            // history cannot be continued (output unreadable, panic)
	fired   bool
}

func (r *runner) violate(checked string, o op, class, detail, what string) {
	label := o.short()
	if o.Kind == "initial" {
		label = "initial"
	} else if o.store() != checked {
		label = "other:" + o.Kind
	}
	key := fmt.Sprintf("store=%s/op=%s/class=%s", checked, label, class)
	if detail != "" {
		key += "/" + detail
	}
	r.fired = true
	r.tainted[checked] = true
	r.t.Violate(key, fmt.Sprintf("step %d %s: %s", len(r.ops), o.Kind, what),
		replayCase{Base: r.base, Ops: append([]op(nil), r.ops...), Step: len(r.ops)})
}

var obNum = regexp.MustCompile(`\(obj#:? ?\d+\)|obj#:? ?\d+|#\d+|\d{2,}`)

// errClass reduces an error text to a short stable class: the last two segments, numbers removed.
func errClass(err error) string {
	if p, ok := isPanic(err); ok {
		return "panic:" + p.Frame
	}
	s := obNum.ReplaceAllString(err.Error(), "N")
	if i := strings.Index(s, "/verif/"); i >= 0 { // scratch paths
		s = s[:i] + "PATH"
	}
	parts := strings.Split(s, ": ")
	if len(parts) > 2 {
		parts = parts[len(parts)-2:]
	}
	s = strings.Join(parts, ":")
	s = strings.Map(func(r rune) rune {
		if r <= ' ' || r > '~' {
			return '_'
		}
		return r
	}, s)
	if len(s) > 90 {
		s = s[:90]
	}
	return s
}

func keyClass(k string) string {
	switch {
	case stdKey(k):
		return "standard"
	case strings.Contains(k, "#"):
		return "hash-sign"
	case strings.ContainsAny(k, "()<>[]{}/%"):
		return "delimiter"
	case strings.Contains(k, " "):
		return "space"
	case strings.IndexFunc(k, func(r rune) bool { return r >= 0x80 }) >= 0:
		return "non-ascii"
	case len(k) > 127:
		return "long"
	}
	return "plain"
}

// textClass: the most "special" rune class present in s (for missing/extra whole entries).
func textClass(s string) string {
	order := []string{"backslash", "paren", "cr", "lf", "tab", "control", "hash", "delimiter", "separator"}
	present := map[string]bool{}
	var boundary, other string
	for _, r := range s {
		c := pdftext.RuneClass(r)
		present[c] = true
		if strings.HasPrefix(c, "U+") && boundary == "" {
			boundary = c
		}
		switch c {
		case "astral", "private-use", "bmp", "latin1":
			if other == "" || c == "astral" {
				other = c
			}
		}
	}
	for _, c := range order {
		if present[c] {
			return c
		}
	}
	if boundary != "" {
		return boundary
	}
	if other != "" {
		return other
	}
	if len(s) > 127 {
		return "long"
	}
	if present["space"] {
		return "space"
	}
	return "ascii"
}

func dataClass(b []byte) string {
	switch {
	case len(b) == 0:
		return "empty"
	case bytes.Contains(b, []byte("endstream")):
		return "eol-marker"
	case len(b) < 64:
		return "small"
	}
	return "large"
}

var plainName = regexp.MustCompile(`^[A-Za-z0-9][A-Za-z0-9._()#%-]*[A-Za-z0-9)]$`)

func hashes(bb [][]byte) []string {
	out := make([]string, len(bb))
	for i, b := range bb {
		h := sha256.Sum256(b)
		out[i] = fmt.Sprintf("%x", h[:8])
	}
	sort.Strings(out)
	return out
}

// verify compares everything pdfcpu and the independent reader say about file with st.
// pre is the model before the operation (needed to reconcile re-added attachments).
func (r *runner) verify(o op, file string, st, pre *state) {
	t := r.t
	exDir := filepath.Join(r.dir, "extract")
	os.RemoveAll(exDir)
	os.MkdirAll(exDir, 0o755)
	one := ""
	if keys := sortedKeys(st.Att); len(keys) > 0 {
		one = keys[len(r.ops)%len(keys)]
	}
	l := list(file, exDir, one, o.Kind == "initial" || o.store() == stAtt)
	v := readStrict(file)
	t.Count("listings_compared", 1)

	// a file no listing call can read any more
	if l.KwErr != nil && l.PropErr != nil && l.LayoutErr != nil {
		r.violate(o.store(), o, "output-unreadable", errClass(l.KwErr), fmt.Sprintf("the result cannot be read back: %v", l.KwErr))
		r.stop = true
		return
	}
	if v.Err != nil {
		r.violate(o.store(), o, "strict-unreadable", "", fmt.Sprintf("independent reader cannot open the result: %v", v.Err))
		r.stop = true
		return
	}
	t.Count("strict_reads", 1)

	// --- keywords
	if r.tainted[stKeywords] {
	} else if l.KwErr != nil {
		r.violate(stKeywords, o, "list-error", errClass(l.KwErr), l.KwErr.Error())
	} else {
		got := map[string]bool{}
		for _, k := range l.Kw {
			got[k] = true
		}
		if len(got) != len(l.Kw) {
			r.violate(stKeywords, o, "duplicate", "", fmt.Sprintf("listing has duplicates: %q", l.Kw))
		}
		bad := false
		for _, k := range st.kwList() {
			if !got[k] {
				bad = true
				r.violate(stKeywords, o, "missing", "kwclass="+textClass(k), fmt.Sprintf("keyword [%s] not listed; listed %q", pdftext.Q(k), l.Kw))
			}
		}
		for _, k := range l.Kw {
			if !st.Kw[k] {
				bad = true
				r.violate(stKeywords, o, "extra", "kwclass="+textClass(k), fmt.Sprintf("keyword [%s] listed but not in model %q", pdftext.Q(k), st.kwList()))
			}
		}
		if !bad {
			// the file itself: /Keywords of the Info dictionary
			sk := map[string]bool{}
			for _, k := range splitKeywords(v.Kw) {
				sk[k] = true
			}
			for k := range st.Kw {
				if !sk[k] {
					r.violate(stKeywords, o, "strict-missing", "kwclass="+textClass(k), fmt.Sprintf("Info /Keywords [%s] lacks [%s]", pdftext.Q(v.Kw), pdftext.Q(k)))
				}
			}
			for k := range sk {
				if !st.Kw[k] {
					r.violate(stKeywords, o, "strict-extra", "kwclass="+textClass(k), fmt.Sprintf("Info /Keywords [%s] has [%s], model %q", pdftext.Q(v.Kw), pdftext.Q(k), st.kwList()))
				}
			}
		}
	}

	// --- properties
	if r.tainted[stProps] {
	} else if l.PropErr != nil {
		r.violate(stProps, o, "list-error", errClass(l.PropErr), l.PropErr.Error())
	} else {
		for _, k := range sortedKeys(st.Props) {
			want := st.Props[k]
			got, ok := l.Props[k]
			switch {
			case !ok:
				r.violate(stProps, o, "missing", "keyclass="+keyClass(k), fmt.Sprintf("property [%s] not listed; listed keys %q", pdftext.Q(k), sortedKeys(l.Props)))
			case got != want:
				r.violate(stProps, o, "value-mismatch", "valclass="+pdftext.DiffClass(want, got), fmt.Sprintf("property [%s]: want [%s] got [%s]", pdftext.Q(k), pdftext.Q(want), pdftext.Q(got)))
			}
		}
		for _, k := range sortedKeys(l.Props) {
			if _, ok := st.Props[k]; !ok {
				r.violate(stProps, o, "extra", "keyclass="+keyClass(k), fmt.Sprintf("property [%s]=[%s] listed but not in model %q", pdftext.Q(k), pdftext.Q(l.Props[k]), sortedKeys(st.Props)))
			}
		}
		// the file itself
		for _, k := range sortedKeys(st.Props) {
			want := st.Props[k]
			got, ok := v.Info[k]
			switch {
			case !ok:
				r.violate(stProps, o, "strict-missing", "keyclass="+keyClass(k), fmt.Sprintf("Info dictionary has no entry [%s]; has %q", pdftext.Q(k), sortedKeys(v.Info)))
			case got != want:
				r.violate(stProps, o, "strict-value-mismatch", "valclass="+pdftext.DiffClass(want, got), fmt.Sprintf("Info entry [%s]: want [%s], file has [%s]", pdftext.Q(k), pdftext.Q(want), pdftext.Q(got)))
			}
		}
		for _, k := range sortedKeys(st.Std) {
			if got, ok := v.Info[k]; !ok || got != st.Std[k] {
				r.violate(stProps, o, "strict-value-mismatch", "keyclass=standard/valclass="+pdftext.DiffClass(st.Std[k], got), fmt.Sprintf("Info entry [%s]: want [%s], file has [%s] (present=%v)", k, pdftext.Q(st.Std[k]), pdftext.Q(got), ok))
			}
		}
		for _, k := range sortedKeys(v.Info) {
			switch k {
			case "Title", "Author", "Subject", "Creator", "Producer", "CreationDate", "ModDate", "Trapped", "AAPL:Keywords":
				continue
			}
			if _, ok := st.Props[k]; !ok && v.Info[k] != "" {
				r.violate(stProps, o, "strict-extra", "keyclass="+keyClass(k), fmt.Sprintf("Info dictionary has entry [%s]=[%s] the model does not have", pdftext.Q(k), pdftext.Q(v.Info[k])))
			}
		}
	}

	// --- page layout, page mode
	if r.tainted[stLayout] {
	} else if l.LayoutErr != nil {
		r.violate(stLayout, o, "list-error", errClass(l.LayoutErr), l.LayoutErr.Error())
	} else if l.Layout != st.Layout || l.LayoutText != st.Layout {
		r.violate(stLayout, o, "value-mismatch", "view=list", fmt.Sprintf("want %q, PageLayoutFile %q, ListPageLayoutFile %q", st.Layout, l.Layout, l.LayoutText))
	} else if v.Layout != st.Layout {
		r.violate(stLayout, o, "value-mismatch", "view=file", fmt.Sprintf("want %q, catalog /PageLayout %q", st.Layout, v.Layout))
	}
	if r.tainted[stMode] {
	} else if l.ModeErr != nil {
		r.violate(stMode, o, "list-error", errClass(l.ModeErr), l.ModeErr.Error())
	} else if l.Mode != st.Mode || l.ModeText != st.Mode {
		r.violate(stMode, o, "value-mismatch", "view=list", fmt.Sprintf("want %q, PageModeFile %q, ListPageModeFile %q", st.Mode, l.Mode, l.ModeText))
	} else if v.Mode != st.Mode {
		r.violate(stMode, o, "value-mismatch", "view=file", fmt.Sprintf("want %q, catalog /PageMode %q", st.Mode, v.Mode))
	}

	// --- viewer preferences
	if r.tainted[stVP] {
	} else if l.VPErr != nil {
		r.violate(stVP, o, "list-error", errClass(l.VPErr), l.VPErr.Error())
	} else {
		views := []struct {
			name string
			m    map[string]string
			view string
		}{{"catalog /ViewerPreferences", v.VP, "file"}, {"ViewerPreferencesFile", l.VP, "list"}, {"JSON listing", l.VPJSON, "list"}, {"text listing", l.VPText, "list"}}
		bad := false
		for _, vw := range views {
			fields := map[string]bool{}
			for k := range st.VP {
				fields[k] = true
			}
			for k := range vw.m {
				fields[k] = true
			}
			for _, f := range sortedKeys(fields) {
				want, wok := st.VP[f]
				got, gok := vw.m[f]
				if wok == gok && want == got {
					continue
				}
				class := "value-mismatch"
				if !gok {
					class = "missing"
				} else if !wok {
					class = "extra"
				}
				detail := "field=" + f + "/view=" + vw.view
				if f == "NonFullScreenPageMode" && wok {
					detail += "/want=" + want
				}
				bad = true
				r.violate(stVP, o, class, detail, fmt.Sprintf("%s: field %s want %q (set=%v) got %q (set=%v)", vw.name, f, want, wok, got, gok))
			}
			if bad {
				break // one view is enough to name the defect
			}
		}
	}

	// --- attachments
	if r.tainted[stAtt] {
		return
	}
	if l.AttErr != nil {
		r.violate(stAtt, o, "list-error", errClass(l.AttErr), l.AttErr.Error())
		return
	}
	if o.Kind == attAdd && pre != nil {
		r.reconcileReadds(o, l, st, pre)
		if r.tainted[stAtt] {
			return
		}
	}
	bad := false
	for _, id := range l.AttDup {
		bad = true
		r.violate(stAtt, o, "duplicate", "nameclass="+textClass(id), fmt.Sprintf("attachment ID [%s] listed twice", pdftext.Q(id)))
	}
	for _, k := range sortedKeys(st.Att) {
		want := st.Att[k]
		got, ok := l.Att[k]
		if !ok {
			bad = true
			r.violate(stAtt, o, "missing", "nameclass="+textClass(k), fmt.Sprintf("attachment [%s] not listed; listed %q", pdftext.Q(k), sortedKeys(l.Att)))
			continue
		}
		if got.FileName != k {
			r.violate(stAtt, o, "filename-mismatch", "nameclass="+pdftext.DiffClass(k, got.FileName), fmt.Sprintf("attachment [%s] listed with file name [%s]", pdftext.Q(k), pdftext.Q(got.FileName)))
		}
		if got.Desc != want.Desc {
			r.violate(stAtt, o, "desc-mismatch", "valclass="+pdftext.DiffClass(want.Desc, got.Desc), fmt.Sprintf("attachment [%s]: description want [%s] got [%s]", pdftext.Q(k), pdftext.Q(want.Desc), pdftext.Q(got.Desc)))
		}
		if l.RawErr == nil {
			if b, ok := l.Raw[k]; !ok {
				r.violate(stAtt, o, "extract-missing", "nameclass="+textClass(k), fmt.Sprintf("ExtractAttachmentsRaw(all) does not return [%s]", pdftext.Q(k)))
			} else if !bytes.Equal(b, want.Data) {
				r.violate(stAtt, o, "bytes-mismatch", "data="+dataClass(want.Data), fmt.Sprintf("attachment [%s]: extracted %d bytes differ from the %d bytes added", pdftext.Q(k), len(b), len(want.Data)))
			}
		}
	}
	for _, k := range sortedKeys(l.Att) {
		if _, ok := st.Att[k]; !ok {
			bad = true
			r.violate(stAtt, o, "extra", "nameclass="+textClass(k), fmt.Sprintf("attachment [%s] listed but not in model %q", pdftext.Q(k), sortedKeys(st.Att)))
		}
	}
	if len(st.Att) > 0 && l.RawErr != nil {
		r.violate(stAtt, o, "extract-error", errClass(l.RawErr), l.RawErr.Error())
	}
	if !bad && len(st.Att) > 0 && l.RawErr == nil {
		// extraction into a directory: same multiset of contents; plain names keep their name
		switch {
		case !l.DirDone:
		case l.DirErr != nil && errors.Is(l.DirErr, api.ErrAttachmentOutputCollision):
			t.Count("extract_dir_collisions", 1)
		case l.DirErr != nil:
			r.violate(stAtt, o, "extract-dir-error", errClass(l.DirErr), l.DirErr.Error())
		default:
			var want [][]byte
			for _, k := range sortedKeys(st.Att) {
				want = append(want, st.Att[k].Data)
			}
			if fmt.Sprint(hashes(want)) != fmt.Sprint(hashes(l.Dir)) {
				r.violate(stAtt, o, "extract-dir-mismatch", "", fmt.Sprintf("ExtractAttachmentsFile wrote %d files %q whose contents differ from the %d attachments of the model %q", len(l.Dir), l.DirNames, len(want), sortedKeys(st.Att)))
			}
			for _, k := range sortedKeys(st.Att) {
				if !plainName.MatchString(k) {
					continue
				}
				b, err := os.ReadFile(filepath.Join(exDir, k))
				if err != nil || !bytes.Equal(b, st.Att[k].Data) {
					r.violate(stAtt, o, "extract-dir-name", "nameclass="+textClass(k), fmt.Sprintf("ExtractAttachmentsFile: file %q missing or different (err=%v); directory has %q", k, err, l.DirNames))
				}
			}
			t.Count("extract_dir_checked", 1)
		}
		if len(l.DirLeft) > 0 {
			t.Count("extract_dir_leftovers", int64(len(l.DirLeft)))
		}
		if l.OneWanted {
			switch {
			case l.OneErr != nil:
				r.violate(stAtt, o, "extract-by-name-error", errClass(l.OneErr), l.OneErr.Error())
			case !l.OneFound:
				r.violate(stAtt, o, "extract-by-name-missing", "nameclass="+textClass(l.OneName), fmt.Sprintf("extracting [%s] by name returns nothing", pdftext.Q(l.OneName)))
			case !bytes.Equal(l.OneBytes, st.Att[l.OneName].Data):
				r.violate(stAtt, o, "extract-by-name-bytes", "data="+dataClass(st.Att[l.OneName].Data), fmt.Sprintf("extracting [%s] by name returns other bytes", pdftext.Q(l.OneName)))
			}
		}
	}
	// the file itself
	if !bad {
		if v.AttErr != "" {
			r.violate(stAtt, o, "strict-tree", strings.ReplaceAll(v.AttErr, " ", "_"), v.AttErr)
		}
		if len(v.Att) != len(st.Att) {
			r.violate(stAtt, o, "strict-count", "", fmt.Sprintf("EmbeddedFiles name tree has %d entries, model %d", len(v.Att), len(st.Att)))
		}
		used := make([]bool, len(v.Att))
		for _, k := range sortedKeys(st.Att) {
			want := st.Att[k]
			idx := -1
			for i, a := range v.Att {
				if used[i] {
					continue
				}
				if r.renamed[k] {
					if bytes.Equal(a.Data, want.Data) && a.Desc == want.Desc {
						idx = i
						break
					}
				} else if a.name() == k {
					idx = i
					break
				}
			}
			if idx < 0 {
				var names []string
				for _, a := range v.Att {
					names = append(names, pdftext.Q(a.name()))
				}
				r.violate(stAtt, o, "strict-missing", "nameclass="+textClass(k), fmt.Sprintf("no file specification named [%s] in the file; has %q", pdftext.Q(k), names))
				continue
			}
			used[idx] = true
			a := v.Att[idx]
			switch {
			case a.DataErr != "":
				r.violate(stAtt, o, "strict-stream", strings.ReplaceAll(a.DataErr, " ", "_"), fmt.Sprintf("[%s]: %s", pdftext.Q(k), a.DataErr))
			case !bytes.Equal(a.Data, want.Data):
				r.violate(stAtt, o, "strict-bytes-mismatch", "data="+dataClass(want.Data), fmt.Sprintf("[%s]: embedded stream decodes to %d bytes, %d were added", pdftext.Q(k), len(a.Data), len(want.Data)))
			}
			if a.Desc != want.Desc {
				r.violate(stAtt, o, "strict-desc-mismatch", "valclass="+pdftext.DiffClass(want.Desc, a.Desc), fmt.Sprintf("[%s]: /Desc want [%s], file has [%s]", pdftext.Q(k), pdftext.Q(want.Desc), pdftext.Q(a.Desc)))
			}
		}
	}
}

// reconcileReadds: adding a file whose name is already attached. Neither the API nor the
// CLI text says whether that replaces; the model accepts both "replaced" and "kept both,
// new one under an ID pdfcpu derives from the name" - but the bytes just added must be
// retrievable and nothing else may change.
func (r *runner) reconcileReadds(o op, l *listing, st, pre *state) {
	added := map[string]bool{}
	for _, f := range o.Files {
		added[f.Name] = true
	}
	for _, f := range o.Files {
		old, was := pre.Att[f.Name]
		if !was {
			continue
		}
		r.t.Count("att_readds", 1)
		// kept both? (checked first: old and new content may be equal)
		var fresh []string
		for id := range l.Att {
			if _, inPre := pre.Att[id]; !inPre && !added[id] && strings.HasPrefix(id, f.Name) {
				fresh = append(fresh, id)
			}
		}
		sort.Strings(fresh)
		found := ""
		for _, id := range fresh {
			if _, taken := st.Att[id]; taken {
				continue
			}
			if bytes.Equal(l.Raw[id], f.Data) {
				found = id
				break
			}
		}
		if found == "" {
			if b, ok := l.Raw[f.Name]; ok && bytes.Equal(b, f.Data) && (l.Att[f.Name].Desc == f.Desc) {
				r.t.Count("att_readd_replaced", 1)
				continue // replaced: the model already says so
			}
			r.violate(stAtt, op{Kind: "att-readd"}, "new-bytes-lost", "", fmt.Sprintf("[%s] was attached again with new content; afterwards no attachment holds the new bytes (listed %q)", pdftext.Q(f.Name), sortedKeys(l.Att)))
			continue
		}
		r.t.Count("att_readd_kept_both", 1)
		st.Att[f.Name] = old
		st.Att[found] = attEntry{Data: f.Data, Desc: f.Desc}
		r.renamed[found] = true
	}
}

// runCase executes one history. ops == nil: generate from rng.
func runCase(t *vk.T, idx int, base baseSpec, rng *rand.Rand, fixed []op) {
	dir := filepath.Join(t.Scratch(), fmt.Sprintf("case-%d", idx))
	if err := os.MkdirAll(dir, 0o755); err != nil {
		t.Broken("mkdir: %v", err)
	}
	defer os.RemoveAll(dir)
	cur := filepath.Join(dir, "s0.pdf")
	st, err := makeBase(base, cur)
	if err != nil {
		t.Broken("base document %+v: %v", base, err)
	}
	r := &runner{t: t, base: base, dir: dir, renamed: map[string]bool{}, tainted: map[string]bool{}}

	r.verify(op{Kind: "initial"}, cur, st, nil)
	if r.stop {
		t.Eval("")
		return
	}
	nSteps := len(fixed)
	if fixed == nil {
		nSteps = 1 + rng.IntN(10)
	}
	var kinds []string
	for step := 0; step < nSteps && !r.stop; step++ {
		var o op
		if fixed != nil {
			o = fixed[step]
		} else {
			minor := readStrict(cur).Minor
			for tries := 0; ; tries++ {
				o = genOp(rng, st, minor)
				if !r.tainted[o.store()] {
					break
				}
				if tries > 100 {
					r.stop = true
					break
				}
			}
		}
		if r.stop || r.tainted[o.store()] {
			break
		}
		r.ops = append(r.ops, o)
		kinds = append(kinds, o.Kind)
		t.Count("op_"+o.Kind, 1)

		pre := st.clone()
		before, _ := os.ReadFile(cur)
		next := filepath.Join(dir, fmt.Sprintf("s%d.pdf", step+1))
		exp := st.apply(o)
		out, err := run(o, cur, next, filepath.Join(dir, "att"))

		if p, ok := isPanic(err); ok {
			r.violate(o.store(), o, "panic", p.Frame, err.Error())
			return
		}
		switch {
		case err != nil && strings.HasPrefix(err.Error(), "harness:"):
			t.Broken("%v", err)
		case exp.ErrIs == "" && err != nil:
			r.violate(o.store(), o, "unexpected-error", errClass(err), fmt.Sprintf("%+v failed: %v", brief(o), err))
			*st = *pre
			out = cur
		case exp.ErrIs != "" && err == nil:
			if !exp.EitherOK {
				r.violate(o.store(), o, "unexpected-success", "", fmt.Sprintf("%+v succeeded although nothing it names exists (model keys: kw %q props %q att %q)", brief(o), pre.kwList(), sortedKeys(pre.Props), sortedKeys(pre.Att)))
			}
		case exp.ErrIs != "" && err != nil:
			t.Count("expected_errors", 1)
			if !errors.Is(err, sentinel(exp.ErrIs)) {
				r.violate(o.store(), o, "wrong-error", errClass(err), fmt.Sprintf("%+v: want %s, got %v", brief(o), exp.ErrIs, err))
			}
			*st = *pre
			out = cur
			after, rerr := os.ReadFile(cur)
			if rerr != nil || !bytes.Equal(before, after) {
				r.violate(o.store(), o, "error-modified-input", "", fmt.Sprintf("%+v failed (%v) but the input file changed", brief(o), err))
			}
			if !o.InPlace {
				if _, serr := os.Stat(next); serr == nil {
					r.violate(o.store(), o, "error-left-output", "", fmt.Sprintf("%+v failed (%v) but the output file exists", brief(o), err))
				}
			}
		}
		if err != nil && exp.ErrIs == "" {
			// keep going on the unchanged input
			if after, rerr := os.ReadFile(cur); rerr != nil || !bytes.Equal(before, after) {
				r.violate(o.store(), o, "error-modified-input", "", fmt.Sprintf("%+v failed (%v) but the input file changed", brief(o), err))
				return
			}
		}
		cur = out
		r.verify(o, cur, st, pre)
	}
	sort.Strings(kinds)
	t.Eval(base.Kind + "|" + strings.Join(kinds, ","))
	if idx < 4 {
		t.Sample(map[string]any{"base": base, "ops": briefs(r.ops), "final_keywords": st.kwList(), "final_properties": sortedKeys(st.Props), "final_attachments": sortedKeys(st.Att)})
	}
}

// brief renders an op without attachment payloads.
func brief(o op) map[string]any {
	m := map[string]any{"kind": o.Kind, "inPlace": o.InPlace}
	if len(o.Keys) > 0 {
		var ks []string
		for _, k := range o.Keys {
			ks = append(ks, pdftext.Q(k))
		}
		m["keys"] = ks
	}
	if len(o.KV) > 0 {
		kv := map[string]string{}
		for k, v := range o.KV {
			kv[pdftext.Q(k)] = pdftext.Q(v)
		}
		m["kv"] = kv
	}
	if o.Value != "" {
		m["value"] = o.Value
	}
	for _, f := range o.Files {
		m["file:"+pdftext.Q(f.Name)] = fmt.Sprintf("%d bytes, desc [%s]", len(f.Data), pdftext.Q(f.Desc))
	}
	return m
}

func briefs(ops []op) []map[string]any {
	var out []map[string]any
	for _, o := range ops {
		out = append(out, brief(o))
	}
	return out
}

func main() {
	vk.Run("C35", "exploration", func(t *vk.T) {
		api.DisableConfigDir()
		t.Rule("case = one history of 1-10 random metadata edits on a pdfgen or corpus document; distinct key = base kind + multiset of operation kinds; after every step all listing/extraction calls and an independent pdfstrict reading are compared with the reference model")
		t.Assume("keywords containing , ; or CR are not generated: they delimit keywords inside the /Keywords text string (pdfcpu's reader splits on them); keywords are generated trimmed")
		t.Assume("Title/Author/Subject/Creator set through AddProperties are checked in the file only (api.Properties lists custom entries only); Keywords/Producer/CreationDate/ModDate/Trapped are refused by the API and not generated")
		t.Assume("attachment file names contain no comma (the API splits name,description at the first comma) and no slash; descriptions are not names of other attachments")
		t.Assume("re-attaching an existing name may replace the entry or keep both (undocumented); the new bytes must be retrievable either way")
		t.Assume("SetViewerPreferences merges the given fields into existing preferences (model.ViewerPreferences.Populate); fields outside the document's PDF version are not generated")
		t.Assume("initial state of corpus documents is taken from the independent reader")

		if t.Replay != nil {
			var rc replayCase
			if err := json.Unmarshal(t.Replay.Case, &rc); err != nil {
				t.Broken("replay case: %v", err)
			}
			runCase(t, 0, rc.Base, nil, rc.Ops)
			t.Eval("replay-a")
			t.Eval("replay-b")
			return
		}

		n := t.Pick(700, 7000)
		vk.Parallel(n, func(i int) {
			rng := t.RNGi("history", i)
			base := baseSpec{Kind: "gen", Seed: rng.Uint64()}
			if i%5 == 4 {
				base = baseSpec{Kind: "corpus", Corpus: corpus[(i/5)%len(corpus)]}
			}
			runCase(t, i, base, rng, nil)
		})
	})
}
