package main

import (
	"fmt"
	"math/rand/v2"
	"sort"
	"strings"
)

// ---------------------------------------------------------------------------------------------
// Reference model: the state a sequence of metadata edits describes.
// ---------------------------------------------------------------------------------------------

type attEntry struct {
	Data []byte
	Desc string
}

type state struct {
	Kw     map[string]bool
	Props  map[string]string // custom properties (listed by api.Properties)
	Std    map[string]string // standard Info text entries set through AddProperties (Title, ...): strict view only
	Layout string            // "" = not set
	Mode   string
	VP     map[string]string // field -> canonical value
	Att    map[string]attEntry
}

func newState() *state {
	return &state{Kw: map[string]bool{}, Props: map[string]string{}, Std: map[string]string{}, VP: map[string]string{}, Att: map[string]attEntry{}}
}

func (s *state) kwList() []string {
	out := make([]string, 0, len(s.Kw))
	for k := range s.Kw {
		out = append(out, k)
	}
	sort.Strings(out)
	return out
}

func sortedKeys[V any](m map[string]V) []string {
	out := make([]string, 0, len(m))
	for k := range m {
		out = append(out, k)
	}
	sort.Strings(out)
	return out
}

// Operation kinds.
const (
	kwAdd         = "kw-add"
	kwRemove      = "kw-remove"
	kwRemoveAll   = "kw-remove-all"
	propAdd       = "prop-add"
	propRemove    = "prop-remove"
	propRemoveAll = "prop-remove-all"
	layoutSet     = "layout-set"
	layoutReset   = "layout-reset"
	modeSet       = "mode-set"
	modeReset     = "mode-reset"
	vpSetStruct   = "vp-set-struct"
	vpSetJSON     = "vp-set-json"
	vpReset       = "vp-reset"
	attAdd        = "att-add"
	attRemove     = "att-remove"
	attRemoveAll  = "att-remove-all"
)

const (
	stKeywords = "keywords"
	stProps    = "properties"
	stLayout   = "pagelayout"
	stMode     = "pagemode"
	stVP       = "viewerpref"
	stAtt      = "attachments"
)

type attFile struct {
	Name string `json:"name"`
	Desc string `json:"desc,omitempty"`
	Data []byte `json:"data"`
}

// op is one edit; it is JSON-serialisable so that a violation can be replayed exactly.
type op struct {
	Kind    string            `json:"kind"`
	Keys    []string          `json:"keys,omitempty"`  // keywords / property names / attachment names
	KV      map[string]string `json:"kv,omitempty"`    // properties to add / viewer preference fields
	Value   string            `json:"value,omitempty"` // page layout / page mode
	Files   []attFile         `json:"files,omitempty"`
	InPlace bool              `json:"inPlace"`
}

func (o op) store() string {
	switch {
	case strings.HasPrefix(o.Kind, "kw-"):
		return stKeywords
	case strings.HasPrefix(o.Kind, "prop-"):
		return stProps
	case strings.HasPrefix(o.Kind, "layout-"):
		return stLayout
	case strings.HasPrefix(o.Kind, "mode-"):
		return stMode
	case strings.HasPrefix(o.Kind, "vp-"):
		return stVP
	case strings.HasPrefix(o.Kind, "att-"):
		return stAtt
	}
	return "initial"
}

// short is the operation name inside its store (add, remove, remove-all, set, set-json, ...).
func (o op) short() string {
	if i := strings.IndexByte(o.Kind, '-'); i >= 0 {
		return o.Kind[i+1:]
	}
	return o.Kind
}

// ---------------------------------------------------------------------------------------------
// Alphabets. Small on purpose: histories of 1-10 steps must hit the same key again (replace,
// remove existing, remove absent). Inputs the API documents/defines as invalid are left out:
// keywords and names that are empty after trimming, the Info keys AddProperties refuses,
// attachment file names with a comma (the comma separates name and description), keyword
// separators (, ; CR delimit keywords inside the single /Keywords text string).
// ---------------------------------------------------------------------------------------------

var long200 = strings.Repeat("long-0123456789", 14)

var kwAlphabet = []string{
	"alpha", "alphabet", "alpha beta", "beta", "be", // prefixes of each other
	"a(b", ")", "(bal)(", "c\\d", "\\", "end\\", "\\)",
	"\u00fc", "\u03a9mega", "\u65e5\u672c\u8a9e",
	"\ud7ff", "\ue000x", "\ufffd", "y\uffff", "\U0001F600", "a\U0010FFFFb",
	"tab\there", "hash#20", "per%cent", "sl/ash", "<ang>", "[sq]{cu}",
	long200 + "-kw",
}

var propKeyAlphabet = []string{
	"VerifK1", "Custom", "dept", "dep", // plain
	"my key", " lead", "trail ", // space -> #20
	"a#b", "x#20y", "#", // number sign itself
	"p(q)", "a/b", "c%d", "<e>", "[f]", "{g}", // delimiters
	"\u00e9", "\u043a\u043b\u044e\u0447", "\u30ad\u30fc", "k\U0001F600", "k\ue000", "k\uffff", // non-ASCII (UTF-8 bytes, #xx each)
	long200,
	"Title", "Author", "Subject", "Creator", // standard text entries (not listed as properties)
}

var valueAlphabet = []string{
	"v", "hello world", "0",
	"(", ")", "a(b", "a)b", "(bal(anced))", ")(",
	"\\", "a\\b", "trail\\", "\\(", "x\\)y", "\\\\", "\\n", "\\101",
	"\u00fc", "\u00dcn\u00efc\u00f6d\u00e9", "\u03b1\u03b2\u03b3", "\u65e5\u672c\u8a9e", "\u20ac",
	"\ud7ff", "\ue000", "x\ue000y", "\ufffd", "\uffff", "a\ufffeb", "\ufeffbom",
	"\U0001F600", "a\U0001F600b\U0010FFFF", "\U00010000",
	" pad ", "line1\nline2", "tab\there", "cr\rx", "crlf\r\nx",
	"a,b;c", "\u00fe\u00ff", "\u00fe\u00ffx", // looks like a BOM in PDFDocEncoding
	long200 + "(\\)" + "\u65e5\u672c",
}

var attNameAlphabet = []string{
	"a.txt", "a.txt.bak", "b.bin", "a", // prefixes
	"with space.dat", "p(1).txt", "q).x", "(r.y",
	"back\\slash.txt", "h#sh.txt", "per%.txt",
	"\u00fc.txt", "\u65e5\u672c.pdf", "\ue000.bin", "\uffff.bin", "\ud7ff.bin", "\U0001F600.txt",
	long200[:150] + ".long",
}

var attDescAlphabet = []string{
	"", "", "", "d1", "desc, with; commas", "(paren", "clo)se", "back\\", "\u00dcn\u00ef d\u00e8sc", "D\ue000", "D\U0001F600", "D\uffff",
}

var layouts = []string{"SinglePage", "TwoColumnLeft", "TwoColumnRight", "TwoPageLeft", "TwoPageRight", "OneColumn"}
var modes = []string{"UseNone", "UseOutlines", "UseThumbs", "FullScreen", "UseOC", "UseAttachments"}

// Viewer preference fields (ISO 32000-1 Table 150) with the version range pdfcpu documents
// on model.ViewerPreferences; fields outside the document's version are not generated.
type vpField struct {
	Name         string
	Since, Until int // PDF 1.x minor version; Until 0 = open
	Values       []string
}

var boxes = []string{"MediaBox", "CropBox", "TrimBox", "BleedBox", "ArtBox"}
var bools = []string{"true", "false"}

var vpFields = []vpField{
	{"HideToolbar", 0, 0, bools}, {"HideMenubar", 0, 0, bools}, {"HideWindowUI", 0, 0, bools},
	{"FitWindow", 0, 0, bools}, {"CenterWindow", 0, 0, bools}, {"DisplayDocTitle", 4, 0, bools},
	{"NonFullScreenPageMode", 0, 0, []string{"UseNone", "UseOutlines", "UseThumbs", "UseOC"}},
	{"Direction", 3, 0, []string{"L2R", "R2L"}},
	{"ViewArea", 4, 7, boxes}, {"ViewClip", 4, 7, boxes}, {"PrintArea", 4, 7, boxes}, {"PrintClip", 4, 7, boxes},
	{"PrintScaling", 6, 0, []string{"None", "AppDefault"}},
	{"Duplex", 7, 0, []string{"Simplex", "DuplexFlipShortEdge", "DuplexFlipLongEdge"}},
	{"PickTrayByPDFSize", 7, 0, bools},
	{"PrintPageRange", 7, 0, []string{"1,2", "1,3,5,9", "2,4,6,8,10,12"}},
	{"NumCopies", 7, 0, []string{"1", "2", "5"}},
}

func pick(rng *rand.Rand, ss []string) string { return ss[rng.IntN(len(ss))] }

// pickSome draws n distinct members; with probability pExisting a member of existing is used.
func pickSome(rng *rand.Rand, alphabet, existing []string, n, pctExisting int) []string {
	seen := map[string]bool{}
	var out []string
	for tries := 0; len(out) < n && tries < 50; tries++ {
		var s string
		if len(existing) > 0 && rng.IntN(100) < pctExisting {
			s = existing[rng.IntN(len(existing))]
		} else {
			s = alphabet[rng.IntN(len(alphabet))]
		}
		if !seen[s] {
			seen[s] = true
			out = append(out, s)
		}
	}
	return out
}

func stdKey(k string) bool {
	switch k {
	case "Title", "Author", "Subject", "Creator":
		return true
	}
	return false
}

// genOp draws the next operation given the model state and the document's PDF minor version.
func genOp(rng *rand.Rand, s *state, minor int) op {
	o := op{InPlace: rng.IntN(2) == 0}
	switch rng.IntN(20) {
	case 0, 1, 2:
		o.Kind = kwAdd
		o.Keys = pickSome(rng, kwAlphabet, s.kwList(), 1+rng.IntN(3), 15)
	case 3, 4:
		o.Kind = kwRemove
		o.Keys = pickSome(rng, kwAlphabet, s.kwList(), 1+rng.IntN(2), 70)
	case 5:
		o.Kind = kwRemoveAll
	case 6, 7, 8:
		o.Kind = propAdd
		o.KV = map[string]string{}
		for _, k := range pickSome(rng, propKeyAlphabet, sortedKeys(s.Props), 1+rng.IntN(3), 20) {
			o.KV[k] = pick(rng, valueAlphabet)
		}
	case 9, 10:
		o.Kind = propRemove
		existing := append(sortedKeys(s.Props), sortedKeys(s.Std)...)
		o.Keys = pickSome(rng, propKeyAlphabet, existing, 1+rng.IntN(2), 70)
	case 11:
		o.Kind = propRemoveAll
	case 12:
		if rng.IntN(4) == 0 {
			o.Kind = layoutReset
		} else {
			o.Kind, o.Value = layoutSet, pick(rng, layouts)
		}
	case 13:
		if rng.IntN(4) == 0 {
			o.Kind = modeReset
		} else {
			o.Kind, o.Value = modeSet, pick(rng, modes)
		}
	case 14, 15:
		switch rng.IntN(5) {
		case 0:
			o.Kind = vpReset
		case 1, 2:
			o.Kind = vpSetStruct
		default:
			o.Kind = vpSetJSON
		}
		if o.Kind != vpReset {
			o.KV = map[string]string{}
			n := 1 + rng.IntN(4)
			for tries := 0; len(o.KV) < n && tries < 40; tries++ {
				f := vpFields[rng.IntN(len(vpFields))]
				if minor < f.Since || (f.Until > 0 && minor > f.Until) {
					continue
				}
				o.KV[f.Name] = pick(rng, f.Values)
			}
		}
	case 16, 17:
		o.Kind = attAdd
		for _, n := range pickSome(rng, attNameAlphabet, sortedKeys(s.Att), 1+rng.IntN(2), 20) {
			o.Files = append(o.Files, attFile{Name: n, Desc: pick(rng, attDescAlphabet), Data: randData(rng)})
		}
	case 18:
		o.Kind = attRemove
		o.Keys = pickSome(rng, attNameAlphabet, sortedKeys(s.Att), 1+rng.IntN(2), 80)
	case 19:
		if rng.IntN(3) == 0 {
			o.Kind = attRemoveAll
		} else {
			o.Kind = attRemove
			o.Keys = pickSome(rng, attNameAlphabet, sortedKeys(s.Att), 1, 90)
		}
	}
	return o
}

func randData(rng *rand.Rand) []byte {
	var n int
	switch rng.IntN(6) {
	case 0:
		n = 0
	case 1:
		n = 1
	case 2:
		n = 2 + rng.IntN(30)
	case 3:
		b := []byte("text\r\nendstream\nendobj\r%%EOF\n")
		return append(b, byte(rng.IntN(256)))
	default:
		n = 100 + rng.IntN(5000)
	}
	b := make([]byte, n)
	for i := range b {
		b[i] = byte(rng.IntN(256))
	}
	return b
}

// outcome is what the model expects of an operation.
type outcome struct {
	// ErrIs: "" = must succeed; otherwise the documented sentinel the call must return
	// (and the input must stay untouched / no output must appear).
	ErrIs string
	// EitherOK: the call may succeed or return ErrIs (removing "all" from an empty store).
	EitherOK bool
}

// apply advances the model by o and says what the call must do.
func (s *state) apply(o op) outcome {
	switch o.Kind {
	case kwAdd:
		for _, k := range o.Keys {
			s.Kw[strings.TrimSpace(k)] = true
		}
	case kwRemove:
		any := false
		for _, k := range o.Keys {
			if s.Kw[k] {
				any = true
			}
		}
		if !any {
			return outcome{ErrIs: "ErrNoKeywordRemoved"}
		}
		for _, k := range o.Keys {
			delete(s.Kw, k)
		}
	case kwRemoveAll:
		if len(s.Kw) == 0 {
			return outcome{ErrIs: "ErrNoKeywordRemoved", EitherOK: true}
		}
		s.Kw = map[string]bool{}
	case propAdd:
		for k, v := range o.KV {
			if stdKey(k) {
				s.Std[k] = v
			} else {
				s.Props[k] = v
			}
		}
	case propRemove:
		any := false
		for _, k := range o.Keys {
			if _, ok := s.Props[k]; ok {
				any = true
			}
			if _, ok := s.Std[k]; ok {
				any = true
			}
		}
		if !any {
			// a standard key may exist in the base document without the model knowing its value
			for _, k := range o.Keys {
				if stdKey(k) {
					return outcome{ErrIs: "ErrNoPropertyRemoved", EitherOK: true}
				}
			}
			return outcome{ErrIs: "ErrNoPropertyRemoved"}
		}
		for _, k := range o.Keys {
			delete(s.Props, k)
			delete(s.Std, k)
		}
	case propRemoveAll:
		// documented: removes all properties and the catalog XMP metadata; succeeds if either existed
		had := len(s.Props) > 0
		s.Props = map[string]string{}
		s.Std = map[string]string{} // standard entries are not properties: no longer asserted
		if !had {
			return outcome{ErrIs: "ErrNoPropertyRemoved", EitherOK: true}
		}
	case layoutSet:
		s.Layout = o.Value
	case layoutReset:
		s.Layout = ""
	case modeSet:
		s.Mode = o.Value
	case modeReset:
		s.Mode = ""
	case vpSetStruct, vpSetJSON:
		for k, v := range o.KV {
			s.VP[k] = v
		}
	case vpReset:
		s.VP = map[string]string{}
	case attAdd:
		for _, f := range o.Files {
			s.Att[f.Name] = attEntry{Data: f.Data, Desc: f.Desc} // re-adds are reconciled by the checker
		}
	case attRemove:
		for _, k := range o.Keys {
			if _, ok := s.Att[k]; !ok {
				return outcome{ErrIs: "ErrNoAttachmentRemoved"} // all-or-nothing: nothing is written
			}
		}
		for _, k := range o.Keys {
			delete(s.Att, k)
		}
	case attRemoveAll:
		if len(s.Att) == 0 {
			return outcome{ErrIs: "ErrNoAttachmentRemoved"}
		}
		s.Att = map[string]attEntry{}
	default:
		panic(fmt.Sprintf("unknown op %q", o.Kind))
	}
	return outcome{}
}

func (s *state) clone() *state {
	c := newState()
	for k, v := range s.Kw {
		c.Kw[k] = v
	}
	for k, v := range s.Props {
		c.Props[k] = v
	}
	for k, v := range s.Std {
		c.Std[k] = v
	}
	for k, v := range s.VP {
		c.VP[k] = v
	}
	for k, v := range s.Att {
		c.Att[k] = v
	}
	c.Layout, c.Mode = s.Layout, s.Mode
	return c
}
