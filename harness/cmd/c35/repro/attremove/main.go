// attremove: removing one attachment from a multi-level EmbeddedFiles name tree (pdfgen
// document, leaves of 1..4 entries) damages / removes OTHER attachments.
// usage: go run -tags verif ./cmd/c35/repro/attremove <scratch dir>
package main

import (
	"fmt"
	"os"
	"path/filepath"
	"sort"

	"github.com/pdfcpu/pdfcpu/pkg/api"
	"github.com/pdfcpu/pdfcpu/pkg/pdfcpu/model"
	"verif/harness/internal/pdfgen"
)

func conf() *model.Configuration { c := model.NewDefaultConfiguration(); c.Offline = true; return c }

func listIDs(file string) ([]string, error) {
	f, err := os.Open(file)
	if err != nil {
		return nil, err
	}
	defer f.Close()
	aa, err := api.Attachments(f, conf())
	var ids []string
	for _, a := range aa {
		ids = append(ids, a.ID)
	}
	sort.Strings(ids)
	return ids, err
}

func main() {
	api.DisableConfigDir()
	dir, _ := os.MkdirTemp(os.Args[1], "attremove")
	defer os.RemoveAll(dir)
	for leafMax := 1; leafMax <= 4; leafMax++ {
		for n := 2; n <= 6; n++ {
			for victim := 0; victim < n; victim++ {
				ds := pdfgen.DocSpec{Seed: 1, Pages: 1, NameTreeLeafMax: leafMax}
				for j := 0; j < n; j++ {
					name := fmt.Sprintf("base-%d.dat", j)
					ds.EmbeddedFiles = append(ds.EmbeddedFiles, pdfgen.EmbeddedFileSpec{F: []byte(name), UF: []byte(name), Data: []byte(name)})
				}
				in := filepath.Join(dir, "in.pdf")
				out := filepath.Join(dir, "out.pdf")
				os.Remove(out)
				os.WriteFile(in, pdfgen.Build(ds).Bytes, 0o644)
				before, _ := listIDs(in)
				name := fmt.Sprintf("base-%d.dat", victim)
				var err error
				func() {
					defer func() {
						if r := recover(); r != nil {
							err = fmt.Errorf("PANIC %v", r)
						}
					}()
					err = api.RemoveAttachmentsFile(in, out, []string{name}, conf())
				}()
				if err != nil {
					fmt.Printf("leafMax=%d n=%d remove %s: ERROR %v\n", leafMax, n, name, err)
					continue
				}
				after, lerr := listIDs(out)
				if lerr != nil || len(after) != len(before)-1 {
					fmt.Printf("leafMax=%d n=%d remove %s: before %v after %v err=%v\n", leafMax, n, name, before, after, lerr)
				}
			}
		}
	}
}
