// findings: stand-alone reproducers of the C35 defects on pkg/testdata/empty.pdf.
// usage: cd /verif/harness && $GO125 run -tags verif ./cmd/c35/repro/findings <scratch dir under /verif/.cache/run>
// (add -modfile=<alt go.mod> to run against a scratch worktree)
package main

import (
	"fmt"
	"os"
	"path/filepath"
	"sort"

	"github.com/pdfcpu/pdfcpu/pkg/api"
	"github.com/pdfcpu/pdfcpu/pkg/pdfcpu/model"
	"verif/harness/internal/vk"
)

func conf() *model.Configuration { c := model.NewDefaultConfiguration(); c.Offline = true; return c }

func props(file string) (map[string]string, error) {
	f, err := os.Open(file)
	if err != nil {
		return nil, err
	}
	defer f.Close()
	return api.Properties(f, conf())
}

func keys(m map[string]string) []string {
	var ks []string
	for k := range m {
		ks = append(ks, k)
	}
	sort.Strings(ks)
	return ks
}

func fresh(dir, name string) string {
	b, err := os.ReadFile(filepath.Join(vk.RepoDir(), "pkg", "testdata", "empty.pdf"))
	if err != nil {
		panic(err)
	}
	p := filepath.Join(dir, name)
	os.WriteFile(p, b, 0o644)
	return p
}

func main() {
	api.DisableConfigDir()
	dir, _ := os.MkdirTemp(os.Args[1], "c35findings")
	defer os.RemoveAll(dir)

	// A: property names containing '#': the Info key is decoded a second time when read
	in := fresh(dir, "a.pdf")
	fmt.Println("A1 add {x#20y: v}:", api.AddPropertiesFile(in, "", map[string]string{"x#20y": "v"}, conf()))
	m, err := props(in)
	fmt.Printf("A1 listed %q err=%v   (want [\"x#20y\"])\n", keys(m), err)
	in = fresh(dir, "a2.pdf")
	fmt.Println("A2 add {a#b: v}:", api.AddPropertiesFile(in, "", map[string]string{"a#b": "v"}, conf()))
	m, err = props(in)
	fmt.Printf("A2 listed %q err=%v   (want [\"a#b\"], no error: the file pdfcpu wrote must stay readable)\n", keys(m), err)

	// B: remove all properties leaves those whose name needs #xx escapes
	in = fresh(dir, "b.pdf")
	fmt.Println("B add:", api.AddPropertiesFile(in, "", map[string]string{"plain": "1", "my key": "2", "p(q)": "3", "é": "4"}, conf()))
	fmt.Println("B remove all:", api.RemovePropertiesFile(in, "", nil, conf()))
	m, err = props(in)
	fmt.Printf("B listed after remove-all %q err=%v   (want [])\n", keys(m), err)

	// C: model.NFSPageModeUseOC is written as /FullScreen, which pdfcpu itself then rejects
	in = fresh(dir, "c.pdf")
	vp := model.ViewerPreferences{}
	nfs := model.NFSPageModeUseOC
	vp.NonFullScreenPageMode = &nfs
	fmt.Println("C set NonFullScreenPageMode=NFSPageModeUseOC:", api.SetViewerPreferencesFile(in, "", vp, conf()))
	got, err := api.ViewerPreferencesFile(in, false, conf())
	if err == nil && got != nil && got.NonFullScreenPageMode != nil {
		fmt.Printf("C read back %s   (want UseOC)\n", (*model.PageMode)(got.NonFullScreenPageMode).String())
	} else {
		fmt.Printf("C read back err=%v   (want UseOC)\n", err)
	}

	// D: removing the last attachment together with an absent name dereferences the deleted tree
	in = fresh(dir, "d.pdf")
	att := filepath.Join(dir, "only.txt")
	os.WriteFile(att, []byte("x"), 0o644)
	fmt.Println("D add only.txt:", api.AddAttachmentsFile(in, "", []string{att}, false, conf()))
	func() {
		defer func() {
			if r := recover(); r != nil {
				fmt.Printf("D remove [only.txt absent.txt]: PANIC %v   (want: remove attachments: no attachment removed)\n", r)
			}
		}()
		fmt.Println("D remove [only.txt absent.txt]:", api.RemoveAttachmentsFile(in, "", []string{"only.txt", "absent.txt"}, conf()))
	}()
}
