// probe: baseline behaviour of metadata APIs (development aid for C35).
package main

import (
	"fmt"
	"io"
	"os"
	"path/filepath"

	"github.com/pdfcpu/pdfcpu/pkg/api"
	"github.com/pdfcpu/pdfcpu/pkg/pdfcpu/model"
)

func conf() *model.Configuration {
	c := model.NewDefaultConfiguration()
	c.Offline = true
	return c
}

func must(err error) {
	if err != nil {
		fmt.Println("ERR:", err)
	}
}

func main() {
	api.DisableConfigDir()
	dir, _ := os.MkdirTemp(os.Args[1], "probe")
	defer os.RemoveAll(dir)
	in := filepath.Join(dir, "in.pdf")
	b, _ := os.ReadFile("/repo/pkg/testdata/empty.pdf")
	os.WriteFile(in, b, 0o644)

	// properties
	must(api.AddPropertiesFile(in, "", map[string]string{"a b": "v1", "x#20y": "v2", "p(q)": "v3", "é": "v4", "Title": "T(1)\\"}, conf()))
	f, _ := os.Open(in)
	p, err := api.Properties(f, conf())
	f.Close()
	fmt.Printf("props: %q %v\n", p, err)
	must(api.RemovePropertiesFile(in, "", []string{"a b"}, conf()))
	f, _ = os.Open(in)
	p, err = api.Properties(f, conf())
	f.Close()
	fmt.Printf("props after rm 'a b': %q %v\n", p, err)
	must(api.RemovePropertiesFile(in, "", nil, conf()))
	f, _ = os.Open(in)
	p, err = api.Properties(f, conf())
	f.Close()
	fmt.Printf("props after rm all: %q %v\n", p, err)
	fmt.Println("rm absent:", api.RemovePropertiesFile(in, "", []string{"nope"}, conf()))

	// keywords
	must(api.AddKeywordsFile(in, "", []string{"k1", " k2 ", "a(b", "c\\d", "ü"}, conf()))
	f, _ = os.Open(in)
	ks, err := api.Keywords(f, conf())
	f.Close()
	fmt.Printf("kw: %q %v\n", ks, err)
	fmt.Println("rm absent kw:", api.RemoveKeywordsFile(in, "", []string{"nope"}, conf()))
	fmt.Println("rm kw k1+nope:", api.RemoveKeywordsFile(in, "", []string{"k1", "nope"}, conf()))
	f, _ = os.Open(in)
	ks, err = api.Keywords(f, conf())
	f.Close()
	fmt.Printf("kw: %q %v\n", ks, err)

	// attachments
	a1 := filepath.Join(dir, "a.txt")
	os.WriteFile(a1, []byte("one"), 0o644)
	must(api.AddAttachmentsFile(in, "", []string{a1 + ",desc, with comma"}, false, conf()))
	os.WriteFile(a1, []byte("two"), 0o644)
	must(api.AddAttachmentsFile(in, "", []string{a1}, false, conf()))
	f, _ = os.Open(in)
	aa, err := api.Attachments(f, conf())
	f.Close()
	for _, a := range aa {
		fmt.Printf("att: id=%q fn=%q desc=%q\n", a.ID, a.FileName, a.Desc)
	}
	f, _ = os.Open(in)
	aa, err = api.ExtractAttachmentsRaw(f, "", nil, conf())
	for _, a := range aa {
		bb, _ := io.ReadAll(a)
		fmt.Printf("ext: id=%q fn=%q desc=%q bytes=%q\n", a.ID, a.FileName, a.Desc, bb)
	}
	f.Close()
	fmt.Println("rm absent att:", api.RemoveAttachmentsFile(in, "", []string{"nope"}, conf()))

	// page layout / mode
	fmt.Println(api.ListPageLayoutFile(in, conf()))
	must(api.SetPageLayoutFile(in, "", model.PageLayoutTwoPageLeft, conf()))
	fmt.Println(api.ListPageLayoutFile(in, conf()))
	fmt.Println(api.ListPageModeFile(in, conf()))
	must(api.SetPageModeFile(in, "", model.PageModeUseOC, conf()))
	fmt.Println(api.ListPageModeFile(in, conf()))

	// viewer prefs
	vp := model.ViewerPreferences{}
	vp.SetFitWindow(true)
	m := model.NFSPageModeUseThumb
	vp.NonFullScreenPageMode = &m
	must(api.SetViewerPreferencesFile(in, "", vp, conf()))
	fmt.Println(api.ListViewerPreferencesFile(in, false, false, conf()))
	must(api.SetViewerPreferencesFileFromJSONBytes(in, "", []byte(`{"hideToolbar": true, "nonFullScreenPageMode":"UseOC","printPageRange":[1,2,4,6],"numCopies":3}`), conf()))
	fmt.Println(api.ListViewerPreferencesFile(in, false, true, conf()))
}
