package main

import (
	"fmt"
	"os"
	"strconv"
	"strings"

	"verif/harness/internal/pdfstrict"
	"verif/harness/internal/pdftext"
)

// strictView is what an independent reading of the file (pdfstrict, no pdfcpu code) says.
type strictView struct {
	Err     error
	Minor   int               // PDF minor version: max(header, catalog /Version); 2.0 -> 10
	Info    map[string]string // every text-string entry of the Info dictionary, name decoded
	InfoBad []string          // entries whose string is not a well-formed text string
	HasKw   bool
	Kw      string
	Layout  string
	Mode    string
	VP      map[string]string
	Att     []strictAtt
	AttErr  string
}

type strictAtt struct {
	Key     []byte
	F, UF   string
	HasUF   bool
	Desc    string
	Data    []byte
	DataErr string
}

func minorOf(v string) int {
	maj, min, ok := strings.Cut(v, ".")
	if !ok {
		return 0
	}
	a, _ := strconv.Atoi(maj)
	b, _ := strconv.Atoi(min)
	if a >= 2 {
		return 10 + b
	}
	return b
}

func readStrict(file string) *strictView {
	v := &strictView{Info: map[string]string{}, VP: map[string]string{}}
	data, err := os.ReadFile(file)
	if err != nil {
		v.Err = err
		return v
	}
	doc, err := pdfstrict.Open(data, pdfstrict.Options{})
	if err != nil {
		v.Err = err
		return v
	}
	v.Minor = minorOf(doc.Version)
	tr := doc.Trailer()
	root, ok := doc.ResolveDict(tr["Root"])
	if !ok {
		v.Err = fmt.Errorf("no catalog")
		return v
	}
	if n, ok := doc.Resolve(root["Version"]).(pdfstrict.Name); ok {
		if m := minorOf(string(n)); m > v.Minor {
			v.Minor = m
		}
	}
	if info, ok := doc.ResolveDict(tr["Info"]); ok {
		for k, o := range info {
			s, ok := doc.Resolve(o).(pdfstrict.String)
			if !ok {
				continue
			}
			txt, wellFormed := pdftext.Decode(s)
			if !wellFormed {
				v.InfoBad = append(v.InfoBad, k)
			}
			if k == "Keywords" {
				v.HasKw, v.Kw = true, txt
				continue
			}
			v.Info[k] = txt
		}
	}
	if n, ok := doc.Resolve(root["PageLayout"]).(pdfstrict.Name); ok {
		v.Layout = string(n)
	}
	if n, ok := doc.Resolve(root["PageMode"]).(pdfstrict.Name); ok {
		v.Mode = string(n)
	}
	if vp, ok := doc.ResolveDict(root["ViewerPreferences"]); ok {
		for k, o := range vp {
			switch x := doc.Resolve(o).(type) {
			case pdfstrict.Bool:
				v.VP[k] = strconv.FormatBool(bool(x))
			case pdfstrict.Name:
				v.VP[k] = string(x)
			case pdfstrict.Int:
				v.VP[k] = strconv.FormatInt(int64(x), 10)
			case pdfstrict.Array:
				var parts []string
				for _, e := range x {
					switch y := doc.Resolve(e).(type) {
					case pdfstrict.Int:
						parts = append(parts, strconv.FormatInt(int64(y), 10))
					case pdfstrict.Name:
						parts = append(parts, string(y))
					default:
						parts = append(parts, fmt.Sprintf("?%v", y))
					}
				}
				v.VP[k] = strings.Join(parts, ",")
			default:
				v.VP[k] = fmt.Sprintf("?%T", x)
			}
		}
	}
	if names, ok := doc.ResolveDict(root["Names"]); ok {
		if ef, ok := doc.ResolveDict(names["EmbeddedFiles"]); ok {
			seen := map[string]bool{}
			var walk func(n pdfstrict.Dict, depth int)
			walk = func(n pdfstrict.Dict, depth int) {
				if depth > 50 || len(v.Att) > 10000 {
					v.AttErr = "name tree too deep / too large"
					return
				}
				if kids, ok := doc.Resolve(n["Kids"]).(pdfstrict.Array); ok {
					for _, k := range kids {
						if r, ok := k.(pdfstrict.Ref); ok {
							if seen[r.String()] {
								v.AttErr = "name tree cycle"
								continue
							}
							seen[r.String()] = true
						}
						if kd, ok := doc.ResolveDict(k); ok {
							walk(kd, depth+1)
						} else {
							v.AttErr = "name tree kid is not a dictionary"
						}
					}
				}
				if arr, ok := doc.Resolve(n["Names"]).(pdfstrict.Array); ok {
					if len(arr)%2 != 0 {
						v.AttErr = "odd /Names array"
					}
					for i := 0; i+1 < len(arr); i += 2 {
						a := strictAtt{}
						if ks, ok := doc.Resolve(arr[i]).(pdfstrict.String); ok {
							a.Key = ks
						} else {
							v.AttErr = "name tree key is not a string"
						}
						fs, ok := doc.ResolveDict(arr[i+1])
						if !ok {
							v.AttErr = "file specification is not a dictionary"
							continue
						}
						if s, ok := doc.Resolve(fs["F"]).(pdfstrict.String); ok {
							a.F, _ = pdftext.Decode(s)
						}
						if s, ok := doc.Resolve(fs["UF"]).(pdfstrict.String); ok {
							a.UF, _ = pdftext.Decode(s)
							a.HasUF = true
						}
						if s, ok := doc.Resolve(fs["Desc"]).(pdfstrict.String); ok {
							a.Desc, _ = pdftext.Decode(s)
						}
						if efd, ok := doc.ResolveDict(fs["EF"]); ok {
							o := efd["F"]
							if o == nil {
								o = efd["UF"]
							}
							if st, ok := doc.Resolve(o).(*pdfstrict.Stream); ok {
								b, err := doc.DecodeStream(st)
								if err != nil {
									a.DataErr = err.Error()
								}
								a.Data = b
							} else {
								a.DataErr = "EF/F is not a stream"
							}
						} else {
							a.DataErr = "no /EF"
						}
						v.Att = append(v.Att, a)
					}
				}
			}
			walk(ef, 0)
		}
	}
	return v
}

// name the strict view gives an attachment: /UF if present, else /F.
func (a strictAtt) name() string {
	if a.HasUF {
		return a.UF
	}
	return a.F
}

// splitKeywords applies the delimiters of the /Keywords text string (ISO 32000 leaves the
// inner syntax open; pdfcpu writes "; " and documents , ; as separators in its reader).
func splitKeywords(s string) []string {
	var out []string
	for _, f := range strings.FieldsFunc(s, func(r rune) bool { return r == ',' || r == ';' || r == '\r' }) {
		if t := strings.TrimSpace(f); t != "" {
			out = append(out, t)
		}
	}
	return out
}
