package main

import (
	"encoding/json"
	"errors"
	"fmt"
	"io"
	"os"
	"path/filepath"
	"runtime"
	"sort"
	"strconv"
	"strings"

	"github.com/pdfcpu/pdfcpu/pkg/api"
	"github.com/pdfcpu/pdfcpu/pkg/pdfcpu/model"
	"github.com/pdfcpu/pdfcpu/pkg/pdfcpu/types"
)

func newConf() *model.Configuration {
	c := model.NewDefaultConfiguration()
	c.Offline = true
	return c
}

// panicErr marks a recovered pdfcpu panic; Frame is the innermost pdfcpu frame.
type panicErr struct {
	Val   string
	Frame string
}

func (p *panicErr) Error() string { return "panic: " + p.Val + " at " + p.Frame }

func innermostPdfcpuFrame() string {
	pcs := make([]uintptr, 64)
	n := runtime.Callers(3, pcs)
	frames := runtime.CallersFrames(pcs[:n])
	for {
		f, more := frames.Next()
		if strings.Contains(f.Function, "github.com/pdfcpu/pdfcpu/") && !strings.Contains(f.Function, "/fault.") {
			fn := f.Function[strings.LastIndex(f.Function, "/")+1:]
			return fn
		}
		if !more {
			break
		}
	}
	return "unknown"
}

// guard runs f and converts a panic into *panicErr.
func guard(f func() error) (err error) {
	defer func() {
		if r := recover(); r != nil {
			err = &panicErr{Val: fmt.Sprint(r), Frame: innermostPdfcpuFrame()}
		}
	}()
	return f()
}

func sentinel(name string) error {
	switch name {
	case "ErrNoKeywordRemoved":
		return api.ErrNoKeywordRemoved
	case "ErrNoPropertyRemoved":
		return api.ErrNoPropertyRemoved
	case "ErrNoAttachmentRemoved":
		return api.ErrNoAttachmentRemoved
	}
	return nil
}

// canonical viewer preference map from pdfcpu's struct
func vpToMap(vp *model.ViewerPreferences) map[string]string {
	m := map[string]string{}
	if vp == nil {
		return m
	}
	b := func(k string, p *bool) {
		if p != nil {
			m[k] = strconv.FormatBool(*p)
		}
	}
	b("HideToolbar", vp.HideToolbar)
	b("HideMenubar", vp.HideMenubar)
	b("HideWindowUI", vp.HideWindowUI)
	b("FitWindow", vp.FitWindow)
	b("CenterWindow", vp.CenterWindow)
	b("DisplayDocTitle", vp.DisplayDocTitle)
	b("PickTrayByPDFSize", vp.PickTrayByPDFSize)
	if vp.NonFullScreenPageMode != nil {
		m["NonFullScreenPageMode"] = (*model.PageMode)(vp.NonFullScreenPageMode).String()
	}
	if vp.Direction != nil {
		m["Direction"] = vp.Direction.String()
	}
	if vp.ViewArea != nil {
		m["ViewArea"] = vp.ViewArea.String()
	}
	if vp.ViewClip != nil {
		m["ViewClip"] = vp.ViewClip.String()
	}
	if vp.PrintArea != nil {
		m["PrintArea"] = vp.PrintArea.String()
	}
	if vp.PrintClip != nil {
		m["PrintClip"] = vp.PrintClip.String()
	}
	if vp.PrintScaling != nil {
		m["PrintScaling"] = vp.PrintScaling.String()
	}
	if vp.Duplex != nil {
		m["Duplex"] = vp.Duplex.String()
	}
	if len(vp.PrintPageRange) > 0 {
		var ss []string
		for _, o := range vp.PrintPageRange {
			if i, ok := o.(types.Integer); ok {
				ss = append(ss, strconv.Itoa(i.Value()))
			} else {
				ss = append(ss, fmt.Sprintf("?%v", o))
			}
		}
		m["PrintPageRange"] = strings.Join(ss, ",")
	}
	if vp.NumCopies != nil {
		m["NumCopies"] = strconv.Itoa(vp.NumCopies.Value())
	}
	if len(vp.Enforce) > 0 {
		var ss []string
		for _, o := range vp.Enforce {
			ss = append(ss, fmt.Sprint(o))
		}
		m["Enforce"] = strings.Join(ss, ",")
	}
	return m
}

// the exported constants of type model.NonFullScreenPageMode, by the name they carry
var nfsConst = map[string]model.NonFullScreenPageMode{
	"UseNone":     model.NFSPageModeUseNone,
	"UseOutlines": model.NFSPageModeUseOutlines,
	"UseThumbs":   model.NFSPageModeUseThumb,
	"UseOC":       model.NFSPageModeUseOC,
}

// struct variant: built the way a Go caller would, from setters, exported constants and the
// exported XxxFor constructors.
func vpStruct(kv map[string]string) model.ViewerPreferences {
	vp := model.ViewerPreferences{}
	for k, v := range kv {
		bv := v == "true"
		switch k {
		case "HideToolbar":
			vp.SetHideToolBar(bv)
		case "HideMenubar":
			vp.SetHideMenuBar(bv)
		case "HideWindowUI":
			vp.SetHideWindowUI(bv)
		case "FitWindow":
			vp.SetFitWindow(bv)
		case "CenterWindow":
			vp.SetCenterWindow(bv)
		case "DisplayDocTitle":
			vp.SetDisplayDocTitle(bv)
		case "PickTrayByPDFSize":
			vp.SetPickTrayByPDFSize(bv)
		case "NonFullScreenPageMode":
			c := nfsConst[v]
			vp.NonFullScreenPageMode = &c
		case "Direction":
			vp.Direction = model.DirectionFor(v)
		case "ViewArea":
			vp.ViewArea = model.PageBoundaryFor(v)
		case "ViewClip":
			vp.ViewClip = model.PageBoundaryFor(v)
		case "PrintArea":
			vp.PrintArea = model.PageBoundaryFor(v)
		case "PrintClip":
			vp.PrintClip = model.PageBoundaryFor(v)
		case "PrintScaling":
			vp.PrintScaling = model.PrintScalingFor(v)
		case "Duplex":
			vp.Duplex = model.PaperHandlingFor(v)
		case "PrintPageRange":
			vp.PrintPageRange = types.NewIntegerArray(ints(v)...)
		case "NumCopies":
			n, _ := strconv.Atoi(v)
			vp.SetNumCopies(n)
		}
	}
	return vp
}

func ints(s string) []int {
	var out []int
	for _, f := range strings.Split(s, ",") {
		n, _ := strconv.Atoi(f)
		out = append(out, n)
	}
	return out
}

func lowerFirst(s string) string { return strings.ToLower(s[:1]) + s[1:] }
func upperFirst(s string) string { return strings.ToUpper(s[:1]) + s[1:] }

// JSON variant: the documented JSON form (lower camel case keys).
func vpJSON(kv map[string]string) []byte {
	m := map[string]any{}
	for k, v := range kv {
		switch k {
		case "HideToolbar", "HideMenubar", "HideWindowUI", "FitWindow", "CenterWindow", "DisplayDocTitle", "PickTrayByPDFSize":
			m[lowerFirst(k)] = v == "true"
		case "PrintPageRange":
			m[lowerFirst(k)] = ints(v)
		case "NumCopies":
			n, _ := strconv.Atoi(v)
			m[lowerFirst(k)] = n
		default:
			m[lowerFirst(k)] = v
		}
	}
	b, _ := json.Marshal(m)
	return b
}

// run executes o against the file cur; out is the file holding the result afterwards
// (cur itself for in-place calls). attDir is where attachment source files are created.
func run(o op, cur, next, attDir string) (out string, err error) {
	outArg := next
	out = next
	if o.InPlace {
		outArg = ""
		out = cur
	}
	err = guard(func() error {
		switch o.Kind {
		case kwAdd:
			return api.AddKeywordsFile(cur, outArg, o.Keys, newConf())
		case kwRemove:
			return api.RemoveKeywordsFile(cur, outArg, o.Keys, newConf())
		case kwRemoveAll:
			return api.RemoveKeywordsFile(cur, outArg, nil, newConf())
		case propAdd:
			return api.AddPropertiesFile(cur, outArg, o.KV, newConf())
		case propRemove:
			return api.RemovePropertiesFile(cur, outArg, o.Keys, newConf())
		case propRemoveAll:
			return api.RemovePropertiesFile(cur, outArg, nil, newConf())
		case layoutSet:
			pl := model.PageLayoutFor(o.Value)
			if pl == nil {
				return fmt.Errorf("harness: PageLayoutFor(%q) = nil", o.Value)
			}
			return api.SetPageLayoutFile(cur, outArg, *pl, newConf())
		case layoutReset:
			return api.ResetPageLayoutFile(cur, outArg, newConf())
		case modeSet:
			pm := model.PageModeFor(o.Value)
			if pm == nil {
				return fmt.Errorf("harness: PageModeFor(%q) = nil", o.Value)
			}
			return api.SetPageModeFile(cur, outArg, *pm, newConf())
		case modeReset:
			return api.ResetPageModeFile(cur, outArg, newConf())
		case vpSetStruct:
			return api.SetViewerPreferencesFile(cur, outArg, vpStruct(o.KV), newConf())
		case vpSetJSON:
			return api.SetViewerPreferencesFileFromJSONBytes(cur, outArg, vpJSON(o.KV), newConf())
		case vpReset:
			return api.ResetViewerPreferencesFile(cur, outArg, newConf())
		case attAdd:
			if err := os.RemoveAll(attDir); err != nil {
				return err
			}
			if err := os.MkdirAll(attDir, 0o755); err != nil {
				return err
			}
			var specs []string
			for _, f := range o.Files {
				p := filepath.Join(attDir, f.Name)
				if err := os.WriteFile(p, f.Data, 0o644); err != nil {
					return fmt.Errorf("harness: %w", err)
				}
				if f.Desc != "" {
					p += "," + f.Desc
				}
				specs = append(specs, p)
			}
			return api.AddAttachmentsFile(cur, outArg, specs, false, newConf())
		case attRemove:
			return api.RemoveAttachmentsFile(cur, outArg, o.Keys, newConf())
		case attRemoveAll:
			return api.RemoveAttachmentsFile(cur, outArg, nil, newConf())
		}
		return fmt.Errorf("harness: unknown op %s", o.Kind)
	})
	return out, err
}

// listing is everything pdfcpu's list/extract calls say about a file.
type listing struct {
	Kw      []string
	KwErr   error
	Props   map[string]string
	PropErr error

	Layout, LayoutText string // "" = none
	LayoutErr          error
	Mode, ModeText     string
	ModeErr            error

	VP, VPJSON, VPText map[string]string
	VPErr              error

	Att       map[string]listedAtt // by ID
	AttDup    []string             // IDs listed more than once
	AttErr    error
	Raw       map[string][]byte // ExtractAttachmentsRaw (all)
	RawErr    error
	Dir       [][]byte // contents of the files ExtractAttachmentsFile wrote
	DirNames  []string
	DirErr    error
	DirDone   bool
	DirLeft   []string // leftovers that are not regular extracted files
	OneName   string   // a single attachment extracted by name
	OneBytes  []byte
	OneFound  bool
	OneErr    error
	OneWanted bool
}

type listedAtt struct {
	FileName, Desc string
}

func withFile[T any](file string, f func(rs io.ReadSeeker) (T, error)) (v T, err error) {
	err = guard(func() error {
		fh, e := os.Open(file)
		if e != nil {
			return e
		}
		defer fh.Close()
		v, e = f(fh)
		return e
	})
	return v, err
}

func parseVPText(ss []string) map[string]string {
	m := map[string]string{}
	for _, ln := range ss {
		k, v, ok := strings.Cut(strings.TrimSpace(ln), " = ")
		if !ok {
			continue
		}
		if k == "PrintPageRange" { // "1-2,4-6" -> "1,2,4,6"
			v = strings.ReplaceAll(v, "-", ",")
		}
		m[k] = v
	}
	return m
}

func parseVPJSON(ss []string) (map[string]string, error) {
	if len(ss) != 1 {
		return nil, fmt.Errorf("JSON listing has %d elements", len(ss))
	}
	var doc struct {
		VP map[string]any `json:"viewerPreferences"`
	}
	if err := json.Unmarshal([]byte(ss[0]), &doc); err != nil {
		return nil, fmt.Errorf("JSON listing: %w", err)
	}
	m := map[string]string{}
	for k, v := range doc.VP {
		K := upperFirst(k)
		switch x := v.(type) {
		case bool:
			m[K] = strconv.FormatBool(x)
		case float64:
			m[K] = strconv.Itoa(int(x))
		case string:
			m[K] = x
		case []any:
			var parts []string
			for _, e := range x {
				switch y := e.(type) {
				case float64:
					parts = append(parts, strconv.Itoa(int(y)))
				default:
					parts = append(parts, fmt.Sprint(y))
				}
			}
			m[K] = strings.Join(parts, ",")
		default:
			m[K] = fmt.Sprint(v)
		}
	}
	return m, nil
}

// list reads everything back through pdfcpu. extractDir is an empty scratch directory.
func list(file, extractDir string, oneName string, toDir bool) *listing {
	l := &listing{}
	l.Kw, l.KwErr = withFile(file, func(rs io.ReadSeeker) ([]string, error) { return api.Keywords(rs, newConf()) })
	l.Props, l.PropErr = withFile(file, func(rs io.ReadSeeker) (map[string]string, error) { return api.Properties(rs, newConf()) })

	l.LayoutErr = guard(func() error {
		pl, err := api.PageLayoutFile(file, newConf())
		if err != nil {
			return err
		}
		if pl != nil {
			l.Layout = pl.String()
		}
		ss, err := api.ListPageLayoutFile(file, newConf())
		if err != nil {
			return err
		}
		if len(ss) == 1 && !strings.HasPrefix(ss[0], "No page layout set") {
			l.LayoutText = ss[0]
		} else if len(ss) != 1 {
			l.LayoutText = fmt.Sprintf("?%q", ss)
		}
		return nil
	})
	l.ModeErr = guard(func() error {
		pm, err := api.PageModeFile(file, newConf())
		if err != nil {
			return err
		}
		if pm != nil {
			l.Mode = pm.String()
		}
		ss, err := api.ListPageModeFile(file, newConf())
		if err != nil {
			return err
		}
		if len(ss) == 1 && !strings.HasPrefix(ss[0], "No page mode set") {
			l.ModeText = ss[0]
		} else if len(ss) != 1 {
			l.ModeText = fmt.Sprintf("?%q", ss)
		}
		return nil
	})
	l.VPErr = guard(func() error {
		vp, err := api.ViewerPreferencesFile(file, false, newConf())
		if err != nil {
			return err
		}
		l.VP = vpToMap(vp)
		ss, err := api.ListViewerPreferencesFile(file, false, true, newConf())
		if err != nil {
			return fmt.Errorf("json: %w", err)
		}
		if l.VPJSON, err = parseVPJSON(ss); err != nil {
			return err
		}
		ss, err = api.ListViewerPreferencesFile(file, false, false, newConf())
		if err != nil {
			return fmt.Errorf("text: %w", err)
		}
		l.VPText = parseVPText(ss)
		return nil
	})

	aa, err := withFile(file, func(rs io.ReadSeeker) ([]model.Attachment, error) { return api.Attachments(rs, newConf()) })
	l.AttErr = err
	l.Att = map[string]listedAtt{}
	for _, a := range aa {
		if _, dup := l.Att[a.ID]; dup {
			l.AttDup = append(l.AttDup, a.ID)
		}
		l.Att[a.ID] = listedAtt{FileName: a.FileName, Desc: a.Desc}
	}
	if err == nil && len(aa) > 0 {
		l.Raw = map[string][]byte{}
		_, l.RawErr = withFile(file, func(rs io.ReadSeeker) (int, error) {
			xs, err := api.ExtractAttachmentsRaw(rs, "", nil, newConf())
			if err != nil {
				return 0, err
			}
			for _, a := range xs {
				b, err := io.ReadAll(a)
				if err != nil {
					return 0, err
				}
				l.Raw[a.ID] = b
			}
			return len(xs), nil
		})
		l.DirDone = toDir
		if toDir {
			l.DirErr = guard(func() error { return api.ExtractAttachmentsFile(file, extractDir, nil, newConf()) })
		}
		if ents, err := os.ReadDir(extractDir); err == nil && toDir {
			for _, e := range ents {
				if !e.Type().IsRegular() || strings.Contains(e.Name(), ".pdfcpu-reservation-") || strings.Contains(e.Name(), ".tmp") {
					l.DirLeft = append(l.DirLeft, e.Name())
					continue
				}
				b, err := os.ReadFile(filepath.Join(extractDir, e.Name()))
				if err != nil {
					l.DirLeft = append(l.DirLeft, e.Name())
					continue
				}
				l.DirNames = append(l.DirNames, e.Name())
				l.Dir = append(l.Dir, b)
			}
		}
		if oneName != "" {
			l.OneWanted, l.OneName = true, oneName
			_, l.OneErr = withFile(file, func(rs io.ReadSeeker) (int, error) {
				xs, err := api.ExtractAttachmentsRaw(rs, "", []string{oneName}, newConf())
				if err != nil {
					return 0, err
				}
				for _, a := range xs {
					if a.ID == oneName {
						b, err := io.ReadAll(a)
						if err != nil {
							return 0, err
						}
						l.OneBytes, l.OneFound = b, true
					}
				}
				return len(xs), nil
			})
		}
	}
	return l
}

func isPanic(err error) (*panicErr, bool) {
	var p *panicErr
	if errors.As(err, &p) {
		return p, true
	}
	return nil, false
}

func sortedCopy(ss []string) []string {
	out := append([]string(nil), ss...)
	sort.Strings(out)
	return out
}
