// C12 — string escaping and name encoding are lossless.
//
// Oracle, per byte string b:
//
//	Unescape(Escape(b)) == b
//	"(" + Escape(b) + ")" is lexed by an independent ISO 32000-1 7.3.4.2 lexer (internal/pdflex)
//	   to exactly b, consuming the whole text, and sees no unescaped parenthesis
//	if b has no NUL: DecodeName(EncodeName(b)) == b, EncodeName(b) consists of regular
//	   characters '!'..'~' other than delimiters, '#' only as introducer of two hex digits
//	   (checked by the independent name lexer, which must also decode it back to b)
//
// Workload: every byte string of length <= 2 (quick) / <= 3 (thorough), plus seeded random
// strings of up to 64 bytes biased to backslash, digits, CR, LF, parentheses.
package main

import (
	"bytes"
	"encoding/hex"
	"fmt"
	"sync/atomic"

	"github.com/pdfcpu/pdfcpu/pkg/pdfcpu/types"
	"verif/harness/internal/pdflex"
	"verif/harness/internal/vk"
)

const maxKeys = 40

type stats struct {
	nontrivial  int64
	litSpecial  int64 // inputs with at least one byte Escape must escape
	nameSpecial int64 // inputs with at least one byte EncodeName must write as #xx
	nameSkipped int64 // inputs with NUL: name half not applicable
	bsDigit     int64 // backslash directly followed by an octal digit
	crlf        int64 // CR directly followed by LF
}

func litSpecial(c byte) bool {
	switch c {
	case '\\', '(', ')', 0x0A, 0x0D, 0x09, 0x08, 0x0C:
		return true
	}
	return false
}

func nameSpecial(c byte) bool {
	return c < '!' || c > '~' || pdflex.IsDelimiter(c) || c == '#'
}

// failure kinds; "" = holds.
func checkLiteral(b []byte) (kind, detail string) {
	defer func() {
		if r := recover(); r != nil {
			kind, detail = "literal/panic", fmt.Sprint(r)
		}
	}()
	ep, err := types.Escape(string(b))
	if err != nil || ep == nil {
		return "escape/error", fmt.Sprint(err)
	}
	e := *ep
	ub, err := types.Unescape(e)
	if err != nil {
		return "unescape/error", fmt.Sprintf("Escape=%q Unescape error: %v", e, err)
	}
	if !bytes.Equal(ub, b) {
		return "unescape/roundtrip", fmt.Sprintf("Escape=%q Unescape=%x", e, ub)
	}
	text := "(" + e + ")"
	lr, err := pdflex.LiteralString(text)
	if err != nil {
		return "escape/lexer-rejects", fmt.Sprintf("Escape=%q: %v", e, err)
	}
	if lr.Consumed != len(text) {
		return "escape/unbalanced", fmt.Sprintf("Escape=%q: string ends after %d of %d bytes", e, lr.Consumed, len(text))
	}
	if !bytes.Equal(lr.Bytes, b) {
		return "escape/lexer-roundtrip", fmt.Sprintf("Escape=%q reads as %x per ISO 32000 7.3.4.2", e, lr.Bytes)
	}
	if lr.UnescapedParens > 0 {
		return "escape/unescaped-paren", fmt.Sprintf("Escape=%q has %d unescaped parentheses", e, lr.UnescapedParens)
	}
	return "", ""
}

func checkName(b []byte) (kind, detail string) {
	defer func() {
		if r := recover(); r != nil {
			kind, detail = "name/panic", fmt.Sprint(r)
		}
	}()
	enc := types.EncodeName(string(b))
	dec, err := types.DecodeName(enc)
	if err != nil {
		return "name/decode-error", fmt.Sprintf("EncodeName=%q DecodeName error: %v", enc, err)
	}
	if dec != string(b) {
		return "name/roundtrip", fmt.Sprintf("EncodeName=%q DecodeName=%x", enc, dec)
	}
	own, err := pdflex.NameBody(enc)
	if err != nil {
		return "name/charset", fmt.Sprintf("EncodeName=%q: %v", enc, err)
	}
	if !bytes.Equal(own, b) {
		return "name/lexer-roundtrip", fmt.Sprintf("EncodeName=%q reads as %x per ISO 32000 7.3.5", enc, own)
	}
	return "", ""
}

// shrink returns a locally minimal input for which check still reports kind.
func shrink(b []byte, kind string, check func([]byte) (string, string)) []byte {
	cur := append([]byte(nil), b...)
	fails := func(x []byte) bool { k, _ := check(x); return k == kind }
	for changed := true; changed; {
		changed = false
		for i := 0; i < len(cur); i++ {
			x := append(append([]byte(nil), cur[:i]...), cur[i+1:]...)
			if fails(x) {
				cur, changed = x, true
				i--
			}
		}
		for i := 0; i < len(cur); i++ {
			if cur[i] == 'a' {
				continue
			}
			x := append([]byte(nil), cur...)
			x[i] = 'a'
			if fails(x) {
				cur, changed = x, true
			}
		}
	}
	return cur
}

type caseRec struct {
	Input   string `json:"input_hex"`
	Minimal string `json:"minimal_hex"`
	Kind    string `json:"kind"`
	Detail  string `json:"detail"`
}

func report(t *vk.T, b []byte, kind, detail string, check func([]byte) (string, string)) {
	if t.Violations() >= maxKeys {
		t.Count("violations_beyond_key_cap", 1)
		return
	}
	m := shrink(b, kind, check)
	_, md := check(m)
	id := hex.EncodeToString(m)
	if len(m) > 8 {
		id = fmt.Sprintf("len%d", len(m))
	}
	if len(m) == 0 {
		id = "empty"
	}
	t.Violate(kind+"/in="+id, fmt.Sprintf("input %x (minimal %x): %s", b, m, md),
		caseRec{Input: hex.EncodeToString(b), Minimal: hex.EncodeToString(m), Kind: kind, Detail: detail})
}

func checkOne(t *vk.T, b []byte, st *stats) {
	ls, ns, nul := false, false, false
	for i, c := range b {
		if litSpecial(c) {
			ls = true
		}
		if nameSpecial(c) {
			ns = true
		}
		if c == 0 {
			nul = true
		}
		if c == '\\' && i+1 < len(b) && b[i+1] >= '0' && b[i+1] <= '7' {
			st.bsDigit++
		}
		if c == 0x0D && i+1 < len(b) && b[i+1] == 0x0A {
			st.crlf++
		}
	}
	if ls {
		st.litSpecial++
	}
	if ns && !nul {
		st.nameSpecial++
	}
	if ls || (ns && !nul) {
		st.nontrivial++
	}
	if k, d := checkLiteral(b); k != "" {
		report(t, b, k, d, checkLiteral)
	}
	if nul {
		st.nameSkipped++
		return
	}
	if k, d := checkName(b); k != "" {
		report(t, b, k, d, checkName)
	}
}

func (s *stats) addTo(dst *stats) {
	atomic.AddInt64(&dst.nontrivial, s.nontrivial)
	atomic.AddInt64(&dst.litSpecial, s.litSpecial)
	atomic.AddInt64(&dst.nameSpecial, s.nameSpecial)
	atomic.AddInt64(&dst.nameSkipped, s.nameSkipped)
	atomic.AddInt64(&dst.bsDigit, s.bsDigit)
	atomic.AddInt64(&dst.crlf, s.crlf)
}

func main() {
	vk.Run("C12", "exploration", func(t *vk.T) {
		maxLen := t.Pick(2, 3)
		t.Rule(fmt.Sprintf("every byte string of length <= %d (exhaustive, distinct by construction) plus seeded random strings of 0..64 bytes drawn from an alphabet biased to backslash, digits, CR, LF, parentheses, '#', delimiters, NUL and high bytes; non-trivial = contains a byte that Escape must escape (\\ ( ) LF CR TAB BS FF) or, for NUL-free inputs, a byte EncodeName must write as #xx", maxLen))
		t.Assume("the name half of the property is quantified over strings without NUL; inputs containing NUL are only used for the Escape/Unescape half")
		t.Assume("reference for the escaped form: own lexer for ISO 32000-1 7.3.4.2 / 7.3.5 in harness/internal/pdflex (no pdfcpu code)")

		var ex stats
		var exN int64
		// lengths 0 and 1
		{
			var st stats
			checkOne(t, []byte{}, &st)
			for c := 0; c < 256; c++ {
				checkOne(t, []byte{byte(c)}, &st)
			}
			exN += 257
			st.addTo(&ex)
		}
		// lengths 2..maxLen, parallel over the first byte
		for L := 2; L <= maxLen; L++ {
			L := L
			vk.Parallel(256, func(first int) {
				var st stats
				buf := make([]byte, L)
				buf[0] = byte(first)
				var rec func(pos int)
				rec = func(pos int) {
					if pos == L {
						checkOne(t, buf, &st)
						return
					}
					for c := 0; c < 256; c++ {
						buf[pos] = byte(c)
						rec(pos + 1)
					}
				}
				rec(1)
				st.addTo(&ex)
			})
			n := int64(1)
			for i := 0; i < L; i++ {
				n *= 256
			}
			exN += n
		}
		t.EvalBulk(exN, ex.nontrivial)
		t.Count("exhaustive_inputs", exN)
		t.Count("exhaustive_max_len", int64(maxLen))
		t.Count("exhaustive_literal_special", ex.litSpecial)
		t.Count("exhaustive_name_special", ex.nameSpecial)
		t.Count("exhaustive_name_half_skipped_nul", ex.nameSkipped)
		t.Count("exhaustive_backslash_then_octal_digit", ex.bsDigit)
		t.Count("exhaustive_cr_then_lf", ex.crlf)
		t.Exhaustive(maxLen >= 3) // the property states exhaustiveness up to length 3

		// seeded random strings
		R := t.Pick(1_000_000, 5_000_000)
		const chunks = 64
		hot := []byte{'\\', '\\', '\\', '(', ')', '(', ')', 0x0D, 0x0A, 0x0D, 0x0A, '0', '1', '2', '3', '4', '5', '6', '7', '8', '9',
			'n', 'r', 't', 'b', 'f', '#', '/', '%', '<', '>', '[', ']', '{', '}', ' ', 0x09, 0x08, 0x0C, 0x00, '!', '~', 0x7f, 0x80, 0xff, 'a'}
		var rs stats
		vk.Parallel(chunks, func(c int) {
			rng := t.RNGi("random", c)
			var st stats
			for i := 0; i < R/chunks; i++ {
				n := rng.IntN(65)
				if rng.IntN(3) == 0 {
					n = rng.IntN(9)
				}
				b := make([]byte, n)
				for j := range b {
					switch rng.IntN(8) {
					case 0:
						b[j] = byte(rng.IntN(256))
					default:
						b[j] = hot[rng.IntN(len(hot))]
					}
				}
				checkOne(t, b, &st)
				if c == 0 && i < 3 {
					ep, _ := types.Escape(string(b))
					e := ""
					if ep != nil {
						e = *ep
					}
					t.Sample(map[string]any{"input_hex": hex.EncodeToString(b), "escaped": fmt.Sprintf("%q", e), "encoded_name": fmt.Sprintf("%q", types.EncodeName(string(b)))})
				}
			}
			st.addTo(&rs)
		})
		t.EvalBulk(int64(R/chunks*chunks), 0) // random strings may repeat: not counted as distinct
		t.Count("random_inputs", int64(R/chunks*chunks))
		t.Count("random_nontrivial_not_counted_distinct", rs.nontrivial)
		t.Count("random_backslash_then_octal_digit", rs.bsDigit)
		t.Count("random_cr_then_lf", rs.crlf)
		t.Count("random_name_half_skipped_nul", rs.nameSkipped)
		for _, s := range []string{"\\101", "\r\n", "(()", "a#b/c d"} {
			ep, _ := types.Escape(s)
			t.Sample(map[string]any{"input": fmt.Sprintf("%q", s), "escaped": fmt.Sprintf("%q", *ep), "encoded_name": fmt.Sprintf("%q", types.EncodeName(s))})
		}
	})
}
