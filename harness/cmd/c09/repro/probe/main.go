// probe: development aid, not part of the check
package main

import (
	"fmt"

	"github.com/pdfcpu/pdfcpu/pkg/pdfcpu/types"
	"verif/harness/internal/pdfgen"
)

func main() {
	payload := append([]byte("BT ET\n"), make([]byte, 100)...)
	for i := 6; i < len(payload); i++ {
		payload[i] = '\n'
	}
	fs := []pdfgen.FilterSpec{{Kind: pdfgen.Flate}, {Kind: pdfgen.ASCIIHex}}
	enc, _ := pdfgen.Encode(payload, fs)
	hexd, _ := pdfgen.EncodeStage(payload, fs[1])
	fmt.Printf("hex stage: %q\n", hexd[:40])
	sd := types.StreamDict{Dict: types.NewDict(), Raw: enc, FilterPipeline: []types.PDFFilter{{Name: "FlateDecode"}, {Name: "ASCIIHexDecode"}}}
	err := sd.DecodeWithLimit(4096)
	fmt.Println(err, len(sd.Content))
	sd = types.StreamDict{Dict: types.NewDict(), Raw: hexd, FilterPipeline: []types.PDFFilter{{Name: "ASCIIHexDecode"}}}
	err = sd.DecodeWithLimit(4096)
	fmt.Println(err, len(sd.Content))
}
