// probe: first look at how the limits behave (development aid, not part of the check)
package main

import (
	"bytes"
	"errors"
	"fmt"
	"os"
	"runtime"

	"github.com/pdfcpu/pdfcpu/pkg/api"
	"github.com/pdfcpu/pdfcpu/pkg/filter"
	"github.com/pdfcpu/pdfcpu/pkg/pdfcpu"
	"github.com/pdfcpu/pdfcpu/pkg/pdfcpu/model"
	"github.com/pdfcpu/pdfcpu/pkg/pdfcpu/types"

	"verif/harness/internal/pdfgen"
)

func doc(content *pdfgen.Stream, extra func(d *pdfgen.Doc, page *pdfgen.Dict)) *pdfgen.Doc {
	d := pdfgen.NewDoc()
	pages := d.Alloc()
	c := d.Add(content)
	pg := pdfgen.D("Type", pdfgen.Name("Page"), "Parent", pages, "MediaBox", pdfgen.Rect(0, 0, 200, 200), "Contents", c,
		"Resources", pdfgen.D())
	if extra != nil {
		extra(d, &pg)
	}
	page := d.Add(pg)
	d.Put(pages, pdfgen.D("Type", pdfgen.Name("Pages"), "Kids", pdfgen.Array{page}, "Count", 1))
	d.SetRoot(d.Add(pdfgen.D("Type", pdfgen.Name("Catalog"), "Pages", pages)))
	return d
}

func walk(ctx *model.Context, L, S int64) {
	for nr, e := range ctx.XRefTable.Table {
		if e == nil || e.Object == nil {
			continue
		}
		var sd *types.StreamDict
		switch o := e.Object.(type) {
		case types.StreamDict:
			sd = &o
		case types.ObjectStreamDict:
			sd = &o.StreamDict
		case types.XRefStreamDict:
			sd = &o.StreamDict
		}
		if sd != nil {
			fmt.Printf("   obj %d (%T): raw=%d content=%d %s\n", nr, e.Object, len(sd.Raw), len(sd.Content), map[bool]string{true: "EXCEEDS"}[int64(len(sd.Content)) > L || int64(len(sd.Raw)) > S])
		}
	}
}

func run(name string, b []byte, L, S int64, all bool, mode int) {
	fmt.Printf("== %s (%d bytes) L=%d S=%d decodeAll=%v mode=%d\n", name, len(b), L, S, all, mode)
	conf := model.NewDefaultConfiguration()
	conf.Offline = true
	conf.ValidationMode = mode
	conf.Limits.MaxDecodeBytes = L
	conf.Limits.MaxStreamBytes = S
	conf.DecodeAllStreams = all
	conf.Cmd = model.EXTRACTIMAGES
	defer func() {
		if r := recover(); r != nil {
			fmt.Println("   PANIC", r)
		}
	}()
	ctx, err := api.ReadContext(bytes.NewReader(b), conf)
	fmt.Printf("   read: %v limit=%v\n", err, errors.Is(err, filter.ErrDecodeLimitExceeded))
	if err != nil {
		return
	}
	walk(ctx, L, S)
	err = api.ValidateContext(ctx)
	fmt.Printf("   validate: %v limit=%v\n", err, errors.Is(err, filter.ErrDecodeLimitExceeded))
	if err != nil {
		return
	}
	walk(ctx, L, S)
	err = api.OptimizeContext(ctx)
	fmt.Printf("   optimize: %v limit=%v\n", err, errors.Is(err, filter.ErrDecodeLimitExceeded))
	if err != nil {
		return
	}
	walk(ctx, L, S)
	mm, err := pdfcpu.ExtractPageImages(ctx, 1, false)
	fmt.Printf("   images: %d %v limit=%v\n", len(mm), err, errors.Is(err, filter.ErrDecodeLimitExceeded))
	walk(ctx, L, S)
	r, err := pdfcpu.ExtractPageContent(ctx, 1)
	fmt.Printf("   content: %v %v limit=%v\n", r != nil, err, errors.Is(err, filter.ErrDecodeLimitExceeded))
	walk(ctx, L, S)
	var ms runtime.MemStats
	runtime.ReadMemStats(&ms)
	fmt.Printf("   heapSys=%d MiB totalAlloc=%d MiB\n", ms.HeapSys>>20, ms.TotalAlloc>>20)
}

func main() {
	api.DisableConfigDir()
	L := int64(4096)
	for _, opt := range []pdfgen.Options{{}, {XRef: pdfgen.XRefStream, ObjStm: true, XRefStreamFlate: true}} {
		for _, all := range []bool{false, true} {
			d := doc(pdfgen.Bomb(pdfgen.BombFlate, 100000), nil)
			out := pdfgen.MustWrite(d, opt)
			run("content flate bomb 100000", out.Bytes, L, L, all, model.ValidationRelaxed)
		}
	}
	// image
	d := doc(&pdfgen.Stream{Data: []byte("q Q\n")}, func(d *pdfgen.Doc, pg *pdfgen.Dict) {
		img := pdfgen.Bomb(pdfgen.BombFlate, 100*100*3)
		img.Dict = pdfgen.D("Type", pdfgen.Name("XObject"), "Subtype", pdfgen.Name("Image"), "Width", 100, "Height", 100, "BitsPerComponent", 8, "ColorSpace", pdfgen.Name("DeviceRGB"))
		r := d.Add(img)
		pg.Set("Resources", pdfgen.D("XObject", pdfgen.D("Im0", r)))
	})
	out := pdfgen.MustWrite(d, pdfgen.Options{})
	run("image 30000", out.Bytes, L, L, false, model.ValidationRelaxed)
	if len(os.Args) > 1 {
		os.WriteFile(os.Args[1], out.Bytes, 0o644)
	}
}
