// Stand-alone reproducer for the two defects C09 finds on the unchanged tree (not part of the check):
//
//	A. the cross-reference stream is decoded under the 512 MiB default, not under conf.Limits.MaxDecodeBytes
//	   (pkg/pdfcpu/read.go xRefStreamDict: saveDecodedStreamContent(nil, ...) -> decodeLimit(nil));
//	B. streams decoded after reading go through StreamDict.Decode(), i.e. the 512 MiB default
//	   (page content in ExtractContent/Optimize, images in ExtractImages, catalog metadata in Validate).
//
// run: . /verif/env.sh; cd /verif/harness; $GO125 run -tags verif ./cmd/c09/repro
package main

import (
	"bytes"
	"compress/zlib"
	"fmt"
	"io"

	"github.com/pdfcpu/pdfcpu/pkg/api"
	"github.com/pdfcpu/pdfcpu/pkg/pdfcpu/model"
	"github.com/pdfcpu/pdfcpu/pkg/pdfcpu/types"
)

func deflate(b []byte) []byte {
	var out bytes.Buffer
	w := zlib.NewWriter(&out)
	w.Write(b)
	w.Close()
	return out.Bytes()
}

func main() {
	api.DisableConfigDir()
	const limit = 4096

	// one page, content stream = "q Q" + 100 000 line feeds (Flate), cross-reference stream padded with
	// 12 500 zero rows (100 000 bytes, Flate); everything else is ordinary
	var b bytes.Buffer
	off := map[int]int{}
	obj := func(n int, s string) { off[n] = b.Len(); fmt.Fprintf(&b, "%d 0 obj\n%s\nendobj\n", n, s) }
	b.WriteString("%PDF-1.7\n")
	obj(1, "<</Type/Catalog/Pages 2 0 R>>")
	obj(2, "<</Type/Pages/Kids[3 0 R]/Count 1>>")
	obj(3, "<</Type/Page/Parent 2 0 R/MediaBox[0 0 200 200]/Resources<<>>/Contents 4 0 R>>")
	content := deflate(append([]byte("q Q\n"), bytes.Repeat([]byte{'\n'}, 100_000)...))
	obj(4, fmt.Sprintf("<</Length %d/Filter/FlateDecode>>\nstream\n%s\nendstream", len(content), content))
	off[5] = b.Len()
	var rows []byte
	for n := 0; n <= 5; n++ {
		t := byte(1)
		if n == 0 {
			t = 0
		}
		rows = append(rows, t, 0, 0, byte(off[n]>>8), byte(off[n]), 0, 0, 0)
	}
	rows = append(rows, make([]byte, 100_000)...)
	x := deflate(rows)
	fmt.Fprintf(&b, "5 0 obj\n<</Type/XRef/Size 6/W[1 4 3]/Root 1 0 R/Length %d/Filter/FlateDecode>>\nstream\n%s\nendstream\nendobj\nstartxref\n%d\n%%%%EOF\n", len(x), x, off[5])

	conf := func() *model.Configuration {
		c := model.NewDefaultConfiguration()
		c.Offline = true
		c.Limits.MaxDecodeBytes = limit
		return c
	}

	ctx, err := api.ReadContext(bytes.NewReader(b.Bytes()), conf())
	fmt.Printf("A. ReadContext with MaxDecodeBytes=%d: err=%v\n", limit, err)
	if err == nil {
		if xs, ok := ctx.XRefTable.Table[5].Object.(types.XRefStreamDict); ok {
			fmt.Printf("   cross-reference stream in the table holds %d decoded bytes\n", len(xs.Content))
		}
	}
	n := int64(0)
	err = api.ExtractContent(bytes.NewReader(b.Bytes()), nil, func(r io.Reader, _ int) error {
		k, err := io.Copy(io.Discard, r)
		n += k
		return err
	}, conf())
	fmt.Printf("B. ExtractContent with MaxDecodeBytes=%d: err=%v, %d decoded bytes handed out\n", limit, err, n)
}
