package main

// The child side: a fresh process executes exactly one case against the real pdfcpu code, walks the
// state of the read context at every quiescent point and reports what it saw as one JSON line.

import (
	"bytes"
	"encoding/json"
	"fmt"
	"io"
	"os"
	"runtime"
	"runtime/debug"
	"strconv"
	"strings"

	"github.com/pdfcpu/pdfcpu/pkg/api"
	"github.com/pdfcpu/pdfcpu/pkg/pdfcpu"
	"github.com/pdfcpu/pdfcpu/pkg/pdfcpu/model"
	"github.com/pdfcpu/pdfcpu/pkg/pdfcpu/types"
)

func innermostFrame(stack string) string {
	for _, ln := range strings.Split(stack, "\n") {
		if strings.HasPrefix(ln, "github.com/pdfcpu/pdfcpu/") {
			if i := strings.LastIndex(ln, "("); i > 0 {
				ln = ln[:i]
			}
			return strings.TrimPrefix(ln, "github.com/pdfcpu/pdfcpu/")
		}
	}
	return "?"
}

func newConf(c *Case) *model.Configuration {
	conf := model.NewDefaultConfiguration()
	conf.Offline = true
	conf.ValidationMode = model.ValidationRelaxed
	if c.Strict {
		conf.ValidationMode = model.ValidationStrict
	}
	conf.DecodeAllStreams = c.DecodeAll
	c.Lim.apply(&conf.Limits)
	switch c.Entry {
	case "Validate":
		conf.Cmd = model.VALIDATE
	case "Optimize":
		conf.Cmd = model.OPTIMIZE
	case "ExtractImages":
		conf.Cmd = model.EXTRACTIMAGES
	case "ExtractContent":
		conf.Cmd = model.EXTRACTCONTENT
	case "ExtractMetadata":
		conf.Cmd = model.EXTRACTMETADATA
	}
	return conf
}

type countW struct{ n int64 }

func (w *countW) Write(p []byte) (int, error) { w.n += int64(len(p)); return len(p), nil }

func depthOf(o types.Object, budget *int) int {
	if *budget <= 0 {
		return 0
	}
	*budget--
	switch v := o.(type) {
	case types.Array:
		m := 0
		for _, e := range v {
			m = max(m, depthOf(e, budget))
		}
		return m + 1
	case types.Dict:
		m := 0
		for _, e := range v {
			m = max(m, depthOf(e, budget))
		}
		return m + 1
	case types.StreamDict:
		return depthOf(v.Dict, budget)
	case types.ObjectStreamDict:
		return depthOf(v.Dict, budget)
	case types.XRefStreamDict:
		return depthOf(v.Dict, budget)
	}
	return 0
}

// walk inspects every stream dictionary of the cross-reference table against the configured limits.
func walk(ctx *model.Context, step string, lim model.ResourceLimits, res *Result) {
	if ctx == nil || ctx.XRefTable == nil {
		return
	}
	streams := 0
	for nr, e := range ctx.XRefTable.Table {
		if e == nil || e.Object == nil {
			continue
		}
		var sd *types.StreamDict
		switch o := e.Object.(type) {
		case types.StreamDict:
			sd = &o
		case *types.StreamDict:
			sd = o
		case types.ObjectStreamDict:
			sd = &o.StreamDict
		case *types.ObjectStreamDict:
			sd = &o.StreamDict
		case types.XRefStreamDict:
			sd = &o.StreamDict
			// only right after reading: writing adds a cross-reference stream of its own
			res.XRefStmInTable = res.XRefStmInTable || step == "Read"
		case *types.XRefStreamDict:
			sd = &o.StreamDict
			res.XRefStmInTable = res.XRefStmInTable || step == "Read"
		}
		if _, lazy := e.Object.(types.LazyObjectStreamObject); !lazy {
			budget := 2_000_000
			if d := depthOf(e.Object, &budget); d > res.MaxDepth {
				res.MaxDepth, res.DeepObj = d, nr
			}
		}
		if sd == nil {
			continue
		}
		streams++
		raw, content := int64(len(sd.Raw)), int64(len(sd.Content))
		res.MaxRaw = max(res.MaxRaw, raw)
		res.MaxContent = max(res.MaxContent, content)
		typ := strings.TrimPrefix(fmt.Sprintf("%T", e.Object), "types.")
		if step == "Write" && typ != "StreamDict" {
			// cross-reference and object streams present after writing are products of the writer, not of the input
			continue
		}
		if content > lim.MaxDecodeBytes && len(res.Offenders) < 8 {
			res.Offenders = append(res.Offenders, Offender{step, nr, typ, raw, content, "content"})
		}
		if raw > lim.MaxStreamBytes && len(res.Offenders) < 8 {
			res.Offenders = append(res.Offenders, Offender{step, nr, typ, raw, content, "raw"})
		}
	}
	res.Streams = max(res.Streams, streams)
	res.TableLen = max(res.TableLen, len(ctx.XRefTable.Table))
}

func (r *Result) step(name string, f func() error) (ok bool) {
	st := Step{Name: name}
	func() {
		defer func() {
			if p := recover(); p != nil {
				st.Panic = fmt.Sprint(p)
				st.Frame = innermostFrame(string(debug.Stack()))
			}
		}()
		if err := f(); err != nil {
			st.Err = err.Error()
			if len(st.Err) > 600 {
				st.Err = st.Err[:600]
			}
			st.Classes = limitClasses(err)
		}
	}()
	r.Steps = append(r.Steps, st)
	if st.Err != "" || st.Panic != "" {
		r.Failed = name
		return false
	}
	return true
}

func drain(r io.Reader, res *Result) error {
	if r == nil {
		return nil
	}
	var w countW
	if _, err := io.Copy(&w, r); err != nil {
		return err
	}
	res.OutLen = max(res.OutLen, w.n)
	res.Outputs++
	return nil
}

func runDocCtx(c *Case, in []byte, res *Result) {
	conf := newConf(c)
	lim := conf.Limits
	var ctx *model.Context
	if !res.step("Read", func() (err error) {
		ctx, err = api.ReadContext(bytes.NewReader(in), conf)
		return err
	}) {
		return
	}
	walk(ctx, "Read", lim, res)
	if c.Entry == "Read" {
		return
	}
	if !res.step("Validate", func() error { return api.ValidateContext(ctx) }) {
		return
	}
	walk(ctx, "Validate", lim, res)
	if !res.step("Optimize", func() error { return api.OptimizeContext(ctx) }) {
		return
	}
	walk(ctx, "Optimize", lim, res)
	switch c.Entry {
	case "Optimize":
		if !res.step("Write", func() error { return api.WriteContext(ctx, &countW{}) }) {
			return
		}
		walk(ctx, "Write", lim, res)
	case "ExtractImages":
		ok := res.step("Images", func() error {
			for p := 1; p <= ctx.PageCount; p++ {
				mm, err := pdfcpu.ExtractPageImages(ctx, p, false)
				if err != nil {
					return err
				}
				for _, im := range mm {
					if err := drain(im.Reader, res); err != nil {
						return err
					}
				}
			}
			return nil
		})
		// image output is re-encoded (PNG/TIFF): its size says nothing about the decode limit
		res.OutLen = 0
		if !ok {
			return
		}
		walk(ctx, "Images", lim, res)
	case "ExtractContent":
		if !res.step("Content", func() error {
			for p := 1; p <= ctx.PageCount; p++ {
				r, err := pdfcpu.ExtractPageContent(ctx, p)
				if err != nil {
					return err
				}
				if err := drain(r, res); err != nil {
					return err
				}
			}
			return nil
		}) {
			return
		}
		walk(ctx, "Content", lim, res)
	case "ExtractMetadata":
		if !res.step("Metadata", func() error {
			mm, err := pdfcpu.ExtractMetadata(ctx)
			if err != nil {
				return err
			}
			for _, m := range mm {
				if err := drain(m.Reader, res); err != nil {
					return err
				}
			}
			return nil
		}) {
			return
		}
		walk(ctx, "Metadata", lim, res)
	}
}

func runDocAPI(c *Case, in []byte, res *Result) {
	conf := newConf(c)
	rs := bytes.NewReader(in)
	switch c.Entry {
	case "Read":
		var ctx *model.Context
		if res.step("api.ReadContext", func() (err error) { ctx, err = api.ReadContext(rs, conf); return err }) {
			walk(ctx, "Read", conf.Limits, res)
		}
	case "Validate":
		res.step("api.Validate", func() error { return api.Validate(rs, conf) })
	case "Optimize":
		res.step("api.Optimize", func() error { return api.Optimize(rs, &countW{}, conf) })
	case "ExtractImages":
		res.step("api.ExtractImagesRaw", func() error {
			mms, err := api.ExtractImagesRaw(rs, nil, conf)
			if err != nil {
				return err
			}
			for _, mm := range mms {
				for _, im := range mm {
					if err := drain(im.Reader, res); err != nil {
						return err
					}
				}
			}
			return nil
		})
		res.OutLen = 0
	case "ExtractContent":
		res.step("api.ExtractContent", func() error {
			return api.ExtractContent(rs, nil, func(r io.Reader, _ int) error { return drain(r, res) }, conf)
		})
	case "ExtractMetadata":
		res.step("api.ExtractMetadata", func() error {
			return api.ExtractMetadata(rs, func(m pdfcpu.Metadata) error { return drain(m.Reader, res) }, conf)
		})
	}
}

func runStream(c *Case, in []byte, res *Result) {
	var pl []types.PDFFilter
	for _, f := range c.Filters {
		var d types.Dict
		if len(f.Parms) > 0 {
			d = types.Dict{}
			for k, v := range f.Parms {
				d[k] = types.Integer(v)
			}
		}
		pl = append(pl, types.PDFFilter{Name: f.Name, DecodeParms: d})
	}
	sd := types.StreamDict{Dict: types.NewDict(), Raw: in, FilterPipeline: pl}
	lim := c.Lim.effective()
	switch c.Entry {
	case "Decode":
		if res.step("DecodeWithLimit", func() error { return sd.DecodeWithLimit(lim.MaxDecodeBytes) }) {
			res.OutLen = int64(len(sd.Content))
			res.MaxContent = res.OutLen
			res.Outputs = 1
		}
	case "DecodeLength":
		var out []byte
		if res.step("DecodeLengthWithLimit", func() (err error) {
			out, err = sd.DecodeLengthWithLimit(c.MaxLen, lim.MaxDecodeBytes)
			return err
		}) {
			res.OutLen = int64(len(out))
			res.MaxContent = int64(len(sd.Content))
			res.Outputs = 1
		}
	}
}

func vmHWM() uint64 {
	b, err := os.ReadFile("/proc/self/status")
	if err != nil {
		return 0
	}
	for _, ln := range strings.Split(string(b), "\n") {
		if strings.HasPrefix(ln, "VmHWM:") {
			f := strings.Fields(ln)
			if len(f) >= 2 {
				v, _ := strconv.ParseUint(f[1], 10, 64)
				return v
			}
		}
	}
	return 0
}

// childMain executes the case described by the JSON file named in C09_CHILD.
func childMain(path string) {
	api.DisableConfigDir()
	b, err := os.ReadFile(path)
	if err != nil {
		fmt.Fprintln(os.Stderr, "child:", err)
		os.Exit(3)
	}
	var c Case
	if err := json.Unmarshal(b, &c); err != nil {
		fmt.Fprintln(os.Stderr, "child:", err)
		os.Exit(3)
	}
	var in []byte
	if c.Input != "" {
		if in, err = os.ReadFile(c.Input); err != nil {
			fmt.Fprintln(os.Stderr, "child:", err)
			os.Exit(3)
		}
	}
	res := &Result{}
	switch c.Kind {
	case "doc", "empty":
		if c.Via == "api" {
			runDocAPI(&c, in, res)
		} else {
			runDocCtx(&c, in, res)
		}
	case "stream":
		runStream(&c, in, res)
	}
	var ms runtime.MemStats
	runtime.ReadMemStats(&ms)
	res.HeapSys, res.TotalAlloc = ms.HeapSys, ms.TotalAlloc
	res.VmHWM = vmHWM()
	out, _ := json.Marshal(res)
	os.Stdout.Write(append(out, '\n'))
	os.Exit(0)
}
