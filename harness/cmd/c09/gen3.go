package main

// Family F8 ("predpipe"): the filters that take decode parameters x the predictor families x the
// position of the expanding stage in a pipeline of one to three stages.
//
//	filter     Flate | LZW (EarlyChange 1) | LZW (EarlyChange 0)
//	predictor  none | TIFF 2 | PNG 10 .. 15
//	shape      1 stage | 2 stages, bomb first / last | 3 stages, bomb first / middle / last
//	site       StreamDict.DecodeWithLimit | DecodeLengthWithLimit | content | image | metadata |
//	           object stream | cross-reference stream
//
// The stages in front of the bomb stage carry the small compressed bomb (any filter); the stages
// behind it are encoders that do not compress (ASCIIHex, ASCII85, stored Flate blocks), so the
// expansion happens in the bomb stage and the output of its predictor step is what exceeds the
// limit. Ground truth (output size of every stage) comes from the construction. The thorough tier
// draws every cell of the product at least once beyond the limit; the quick tier draws every
// (filter, predictor family) pair at stream level and inside a document.

import (
	"fmt"
	"math/rand/v2"

	"verif/harness/internal/pdfgen"
)

type bombFilter struct {
	name string
	kind pdfgen.FilterKind
	late bool
}

var bombFilters = []bombFilter{
	{"Flate", pdfgen.Flate, false},
	{"LZW", pdfgen.LZW, false},
	{"LZWec0", pdfgen.LZW, true},
}

func predFamily(p int) string {
	switch {
	case p == 2:
		return "tiff"
	case p >= 10:
		return "png"
	}
	return "none"
}

type pipeShape struct {
	n, pos int
	name   string
}

var pipeShapes = []pipeShape{
	{1, 0, "only"}, {2, 0, "first-of-2"}, {2, 1, "last-of-2"}, {3, 0, "first-of-3"}, {3, 1, "middle-of-3"}, {3, 2, "last-of-3"},
}

// geometry of a predictor row
type rowGeo struct{ colors, bpc, cols int }

func (g rowGeo) rowBytes() int64 { return int64((g.colors*g.bpc*g.cols + 7) / 8) }

var rowGeos = []rowGeo{
	{1, 8, 64}, {1, 8, 1}, {3, 8, 16}, {1, 16, 32}, {4, 8, 256}, {1, 1, 512}, {2, 4, 64}, {1, 8, 4096}, {1, 8, 256}, {2, 16, 8}, {1, 2, 1024},
}

// geometries whose row is the 8-byte row of the cross-reference streams written by minipdf (or a multiple)
var xrefGeos = []rowGeo{{1, 8, 8}, {2, 8, 4}, {1, 16, 4}, {1, 8, 64}, {4, 8, 2}, {1, 8, 16}}

var (
	neutralBefore = []pdfgen.FilterSpec{{Kind: pdfgen.ASCIIHex}, {Kind: pdfgen.Flate}, {Kind: pdfgen.ASCII85}, {Kind: pdfgen.RunLength}, {Kind: pdfgen.LZW}, {Kind: pdfgen.LZW, LateChange: true}}
	neutralAfter  = []pdfgen.FilterSpec{{Kind: pdfgen.ASCIIHex}, {Kind: pdfgen.Flate, Level: -1}, {Kind: pdfgen.ASCII85}}
)

func specName(f pdfgen.FilterSpec) string {
	s := ""
	switch f.Kind {
	case pdfgen.Flate:
		s = "Flate"
		if f.Level == -1 {
			s = "FlateStored"
		}
	case pdfgen.LZW:
		s = "LZW"
		if f.LateChange {
			s = "LZWec0"
		}
	case pdfgen.RunLength:
		s = "RunLength"
	case pdfgen.ASCIIHex:
		s = "ASCIIHex"
	case pdfgen.ASCII85:
		s = "ASCII85"
	}
	if f.Predictor > 1 {
		s += fmt.Sprintf("(p%d:%dx%dx%d)", f.Predictor, f.Colors, f.BPC, f.Columns)
	}
	return s
}

func pipeName(fs []pdfgen.FilterSpec) string {
	s := ""
	for i, f := range fs {
		if i > 0 {
			s += "+"
		}
		s += specName(f)
	}
	return s
}

// imageWidth mirrors the layout bombDoc chooses for an image of n gray bytes.
func imageWidth(n int64) int64 {
	w := int64(64)
	for w*w < n && w < 8192 {
		w *= 2
	}
	if n%w != 0 {
		w = n
	}
	return w
}

func ceilTo(v, r int64) int64 { return (v + r - 1) / r * r }

// predSize translates a relation to the limit into a decoded size that is a whole number of rows of r bytes.
func predSize(rel string, L, r, cap int64) (n int64, label string, ok bool) {
	switch rel {
	case "at":
		n = L / r * r
		if n == 0 {
			return 0, "", false
		}
		if n == L {
			return n, "at", true
		}
		return n, "below", true
	case "below":
		n = max(L/2/r*r, r)
		if n > L {
			return 0, "", false
		}
		return n, "below", true
	case "plus1":
		// the smallest whole number of rows beyond the limit (L+1 for rows of one byte)
		n = (L/r + 1) * r
		return n, "plus1", n <= cap+r
	case "above":
		n = ceilTo(3*L+5, r)
		return n, "above", n <= cap+r
	case "big":
		n = ceilTo(min(max(256*L, mib), cap), r)
		return n, "big", n > 3*L+5+r
	}
	return 0, "", false
}

var predSites = []string{"stream-Decode", "stream-DecodeLength", "content", "image", "meta", "objstm", "xrefstm"}

func (g *genCtx) famPredPipes(rng *rand.Rand) (beyond, within, huge []*plan) {
	capFlate := min(g.bigCap, 16*mib)
	preds := []int{0, 2, 10, 11, 12, 13, 14, 15}
	pick := func(n int) int { return rng.IntN(n) }
	for _, bf := range bombFilters {
		for _, pred := range preds {
			fam := predFamily(pred)
			for _, sh := range pipeShapes {
				for _, site := range predSites {
					for _, L := range g.dLimits {
						for _, rel := range []string{"at", "below", "plus1", "above", "big"} {
							// geometry of the predictor row; T = output size of the bomb stage
							last := sh.pos == sh.n-1
							geo := rowGeo{1, 8, 1}
							if pred > 1 {
								geo = rowGeos[pick(len(rowGeos))]
								if site == "xrefstm" && last {
									geo = xrefGeos[pick(len(xrefGeos))]
								}
							}
							if site == "image" && last {
								geo = rowGeo{1, 8, 1} // columns follow the image width below
							}
							r := int64(1)
							if pred > 1 {
								r = geo.rowBytes()
							} else if site == "xrefstm" && last {
								r = 8 // the rows of the cross-reference stream itself
							}
							cap := capFlate
							if bf.kind == pdfgen.LZW {
								cap = g.slowCap
							}
							if site == "meta" || site == "objstm" || site == "xrefstm" {
								cap = min(cap, 8*mib)
							}
							n, label, ok := predSize(rel, L, r, cap)
							if !ok {
								continue
							}
							if site == "image" && last {
								if label == "plus1" {
									n = L + 64
								}
								w := imageWidth(n)
								if w > 1<<20 {
									continue
								}
								geo = rowGeo{1, 8, int(w)}
							}
							if n < 2048 {
								continue // room for the smallest metadata packet / object stream under two expanding encoders
							}
							bomb := pdfgen.FilterSpec{Kind: bf.kind, LateChange: bf.late}
							if pred > 1 {
								bomb.Predictor, bomb.Colors, bomb.BPC, bomb.Columns = pred, geo.colors, geo.bpc, geo.cols
								if pred >= 10 && pick(2) == 0 {
									bomb.RowSeed = uint64(1 + pick(1000)) // row tags drawn per row (any PNG tag under any PNG predictor value)
								}
							}
							fs := make([]pdfgen.FilterSpec, sh.n)
							for i := range fs {
								switch {
								case i == sh.pos:
									fs[i] = bomb
								case i < sh.pos:
									fs[i] = neutralBefore[pick(len(neutralBefore))]
								default:
									fs[i] = neutralAfter[pick(len(neutralAfter))]
									if site == "image" {
										fs[i] = neutralAfter[1] // pdfcpu extracts images from pipelines ending in Flate, LZW, RunLength
									}
								}
							}
							p := pipe{name: pipeName(fs), fs: fs}
							tag := bf.name + "+" + fam
							isBeyond := label == "plus1" || label == "above" || label == "big"
							if site == "stream-DecodeLength" && last {
								isBeyond = false // the last stage is bounded by the requested length, not by the limit
							}
							level := "doc"
							if site == "stream-Decode" || site == "stream-DecodeLength" {
								level = "stream"
							}
							var stratum string
							if g.thorough {
								stratum = fmt.Sprintf("pred/%s/p%d/%s/%s", bf.name, pred, sh.name, site)
							} else {
								stratum = fmt.Sprintf("pred/%s/%s/%s", bf.name, fam, level)
							}
							pl := &plan{stratum: stratum}
							exp := Expect{Limit: "MaxDecodeBytes", Pipe: p.name, Rel: sh.name + "-" + label, Value: n, LimitV: L, StageTag: tag, BombStage: sh.pos}
							if level == "stream" {
								op := "Decode"
								if site == "stream-DecodeLength" {
									op = "DecodeLength"
									if label == "big" || label == "below" {
										continue
									}
								}
								exp.Site = "streamdict"
								pl.c = Case{Fam: "predpipe", Kind: "stream", Entry: op, Lim: Limits{D: L}, Filters: filtersJ(fs), Exp: exp}
								p, n, L, op, pos := p, n, L, op, sh.pos
								pl.build = func(pl *plan) ([]byte, error) {
									enc, stages, err := encodeBombStage([]byte("BT ET\n"), '\n', n, p, pos)
									if err != nil {
										return nil, err
									}
									e := &pl.c.Exp
									e.Stages = stages
									if op == "DecodeLength" {
										// the last stage is bounded by MaxLen, only the earlier stages by the limit
										pl.c.MaxLen = min(stages[len(stages)-1], L) / 2
										e.Stage = firstOver(stages[:len(stages)-1], L)
									} else {
										e.Stage = firstOver(stages, L)
									}
									e.Want = "ok"
									if e.Stage >= 0 {
										e.Want, e.Classes = "limit", []string{"decode"}
									}
									// the stream limit plays no part at this level; a small value keeps the memory bound tight
									pl.c.Lim.S = max(L, nextPow2(int64(len(enc))))
									return enc, nil
								}
							} else {
								// a route through the document that decodes the site (for bombs: one that owes the error)
								var container, entry, via string
								var decodeAll, strict, found bool
								for try := 0; try < 24 && !found; try++ {
									cs := containersFor(site)
									container = cs[pick(len(cs))]
									es := siteEntries[site]
									entry = es[pick(len(es))]
									via = []string{"ctx", "api"}[pick(2)]
									decodeAll, strict = pick(2) == 0, pick(2) == 0
									found = !isBeyond || g.decodes == nil || g.decodes(site, container, decodeAll, strict, entry)
								}
								if !found {
									continue
								}
								exp.Site = site
								exp.DecKey = decKey(site, container, decodeAll, strict)
								pl.c = Case{Fam: "predpipe", Kind: "doc", Entry: entry, Via: via, Container: container, DecodeAll: decodeAll, Strict: strict,
									Lim: Limits{D: L}, Exp: exp}
								site, container, p, n, L, pos := site, container, p, n, L, sh.pos
								pl.build = func(pl *plan) ([]byte, error) {
									var b []byte
									var stages []int64
									var err error
									if pos == len(p.fs)-1 {
										b, stages, err = bombDoc(site, container, p, n, 0)
									} else {
										// a small payload; filler in front of / behind the input of stage pos+1 brings the
										// output of the bomb stage to exactly n bytes
										p.trailAt, p.trailExact = pos+1, true
										small := int64(64)
										var st0 []int64
										if _, st0, err = bombDoc(site, container, p, small, 0); err != nil {
											return nil, err
										}
										b, stages, err = bombDoc(site, container, p, small, int(max(n-st0[pos], 0)))
									}
									if err != nil {
										return nil, err
									}
									finishDocBomb(pl, b, stages, L)
									return b, nil
								}
							}
							if isBeyond {
								beyond = append(beyond, pl)
							} else {
								within = append(within, pl)
							}
						}
					}
				}
			}
			// huge /Columns: a few bytes of data under a row far beyond the limit (and, for the middle value,
			// below the 512 MiB default): to be refused before a row buffer exists
			if pred > 1 {
				for _, L := range []int64{64 * kib, mib} {
					for _, cols := range []int64{L + 1, 100_000_000, 1_000_000_000} {
						for _, where := range []string{"stream", "content"} {
							bf, pred, L, cols, where := bf, pred, L, cols, where
							f := pdfgen.FilterSpec{Kind: bf.kind, LateChange: bf.late, Predictor: pred, Colors: 1, BPC: 8, Columns: int(cols)}
							stratum := fmt.Sprintf("pred/hugecols/%s/%s", bf.name, fam)
							if g.thorough {
								stratum = fmt.Sprintf("pred/hugecols/%s/p%d/%s/%d", bf.name, pred, where, cols)
							}
							pl := &plan{stratum: stratum}
							exp := Expect{Limit: "MaxDecodeBytes", Site: "streamdict", Pipe: specName(f), Rel: fmt.Sprintf("row-%d", cols), Value: cols, LimitV: L,
								Stages: []int64{cols}, Stage: 0, Want: "limit", Classes: []string{"decode"}, StageTag: bf.name + "+" + fam}
							mkData := func() ([]byte, error) {
								raw := make([]byte, 65)
								if pred >= 10 {
									raw[0] = 2
								}
								return pdfgen.EncodeStage(raw, pdfgen.FilterSpec{Kind: bf.kind, LateChange: bf.late})
							}
							if where == "stream" {
								pl.c = Case{Fam: "predpipe", Kind: "stream", Entry: "Decode", Lim: Limits{D: L, S: L}, Filters: filtersJ([]pdfgen.FilterSpec{f}), Exp: exp}
								pl.build = func(pl *plan) ([]byte, error) { return mkData() }
							} else {
								entry, decodeAll, strict := "ExtractContent", true, false
								if g.decodes != nil && !g.decodes("content", "xrefstm", decodeAll, strict, entry) {
									continue
								}
								exp.Site = "content"
								exp.DecKey = decKey("content", "xrefstm", decodeAll, strict)
								pl.c = Case{Fam: "predpipe", Kind: "doc", Entry: entry, Via: "ctx", Container: "xrefstm", DecodeAll: decodeAll, Strict: strict,
									Lim: Limits{D: L, S: L}, Exp: exp}
								pl.build = func(pl *plan) ([]byte, error) {
									enc, err := mkData()
									if err != nil {
										return nil, err
									}
									b, _, err := assemble(docParts{container: "xrefstm", content: &mstream{Enc: enc, Filters: []pdfgen.FilterSpec{f}}})
									return b, err
								}
							}
							huge = append(huge, pl)
						}
					}
				}
			}
		}
	}
	return beyond, within, huge
}

// encodeBombStage encodes a stream whose decode stage pos puts out exactly T bytes: the payload
// itself for the last stage, else a small payload plus filler the following stage skips.
func encodeBombStage(prefix []byte, fill byte, T int64, p pipe, pos int) ([]byte, []int64, error) {
	if pos == len(p.fs)-1 {
		return encodePayload(prefix, fill, T, p, 0)
	}
	small := make([]byte, 64)
	copy(small, prefix)
	for i := len(prefix); i < len(small); i++ {
		small[i] = fill
	}
	_, st0, err := encodeStages(small, p.fs, 0, 0)
	if err != nil {
		return nil, nil, err
	}
	return encodeStages(small, p.fs, pos+1, int(max(T-st0[pos], 0)))
}
