package main

import (
	"fmt"
	"math/rand/v2"
	"strings"

	"verif/harness/internal/pdfgen"
)

func i64(v int64) *int64 { return &v }

// limitValue is the effective value of the named limit under l.
func limitValue(name string, l Limits) int64 {
	e := l.effective()
	switch name {
	case "MaxObjectCount":
		return int64(e.MaxObjectCount)
	case "MaxXRefEntries":
		return int64(e.MaxXRefEntries)
	case "MaxObjectStreamCount":
		return int64(e.MaxObjectStreamCount)
	case "MaxObjectStreamFirst":
		return e.MaxObjectStreamFirst
	}
	return 0
}

// ---------------------------------------------------------------------------
// family F4: counts and offsets in cross-reference streams and object streams

func (g *genCtx) famStructure() []*plan {
	var out []*plan
	add := func(stratum string, c Case, build func(pl *plan) ([]byte, error)) {
		c.Fam, c.Kind = "structure", "doc"
		if c.Via == "" {
			c.Via = "ctx"
		}
		out = append(out, &plan{stratum: stratum, c: c, build: build})
	}
	entries := []string{"Read", "Validate", "Optimize"}
	modes := []bool{false, true}
	extras := []int{0, 3, 20}
	if g.thorough {
		extras = append(extras, 7, 100, 1000)
	}

	// the standard document has objects 0..4 plus extras from 10 on, the object stream (if any) and the
	// cross-reference stream: its true /Size and entry count come back from the writer.
	sizeOf := func(container string, extra int) (size int, entries int) {
		_, lay, _ := assemble(docParts{container: container, extraObjs: extra})
		n := 5 + extra + 1 // 0..4, extras, xref stream
		if container == "objstm" {
			n++
		}
		return lay.Size, n
	}

	for _, container := range []string{"xrefstm", "objstm"} {
		for _, extra := range extras {
			size, count := sizeOf(container, extra)
			for _, entry := range entries {
				for _, strict := range modes {
					// /Size against MaxObjectCount
					for _, rel := range []string{"at", "plus1"} {
						oc := size
						if rel == "plus1" {
							oc = size - 1
						}
						c := Case{Entry: entry, Container: container, Strict: strict, Lim: Limits{Oc: oc},
							Exp: Expect{Limit: "MaxObjectCount", Site: "xref-size", Rel: rel, Value: int64(size), LimitV: int64(oc), Want: "ok"}}
						if size > oc {
							c.Exp.Want, c.Exp.Classes = "reject-or-repaired", []string{"size"}
						}
						container, extra := container, extra
						add("struct/size/"+rel, c, func(pl *plan) ([]byte, error) {
							b, _, err := assemble(docParts{container: container, extraObjs: extra})
							return b, err
						})
					}
					// number of entries against MaxXRefEntries (with /Index, because of the holes 5..9)
					for _, rel := range []string{"at", "plus1"} {
						xe := count
						if rel == "plus1" {
							xe = count - 1
						}
						c := Case{Entry: entry, Container: container, Strict: strict, Lim: Limits{Xe: xe},
							Exp: Expect{Limit: "MaxXRefEntries", Site: "xref-index", Rel: rel, Value: int64(count), LimitV: int64(xe), Want: "ok"}}
						if count > xe {
							c.Exp.Want, c.Exp.Classes = "reject-or-repaired", []string{"xrefentries"}
						}
						container, extra := container, extra
						how := "explicit-index"
						if extra == 0 {
							how = "from-size" // objects 0..5 without holes: no /Index, the entry count is /Size
						}
						c.Exp.Pipe = how
						add("struct/index/"+how+"/"+rel, c, func(pl *plan) ([]byte, error) {
							b, _, err := assemble(docParts{container: container, extraObjs: extra})
							return b, err
						})
					}
				}
			}
		}
		// forced values against the default limits and against small limits
		for _, strict := range modes {
			type forced struct {
				name  string
				xs    xrefStmSpec
				lim   Limits
				want  string
				class []string
				limit string
				value int64
			}
			fs := []forced{
				{"size-default-plus1", xrefStmSpec{Size: i64(10_000_001)}, Limits{}, "limit", []string{"size"}, "MaxObjectCount", 10_000_001},
				{"size-1e9", xrefStmSpec{Size: i64(1_000_000_000)}, Limits{}, "limit", []string{"size"}, "MaxObjectCount", 1_000_000_000},
				{"size-1e18", xrefStmSpec{Size: i64(1_000_000_000_000_000_000)}, Limits{}, "reject", nil, "MaxObjectCount", 1_000_000_000_000_000_000},
				{"size-small-1e6", xrefStmSpec{Size: i64(1_000_000)}, Limits{Oc: 1000}, "limit", []string{"size"}, "MaxObjectCount", 1_000_000},
				// /Size within MaxObjectCount, no /Index: the entry count is /Size
				{"noindex-size-over-entries", xrefStmSpec{Size: i64(5000), NoIndex: true, PadTo: 5000 * 8}, Limits{Xe: 1000}, "limit", []string{"xrefentries"}, "MaxXRefEntries", 5000},
				{"index-count-over-entries", xrefStmSpec{Size: i64(100_000), Index: []int64{0, 50_000}, PadTo: 50_000 * 8}, Limits{Xe: 10_000}, "limit", []string{"xrefentries"}, "MaxXRefEntries", 50_000},
				{"index-two-sections-over-entries", xrefStmSpec{Size: i64(100_000), Index: []int64{0, 6000, 50_000, 6000}, PadTo: 12_000 * 8}, Limits{Xe: 10_000}, "limit", []string{"xrefentries"}, "MaxXRefEntries", 12_000},
				{"index-count-default-plus1", xrefStmSpec{Size: i64(10_000_000), Index: []int64{0, 10_000_000}}, Limits{Xe: 9_999_999}, "limit", []string{"xrefentries"}, "MaxXRefEntries", 10_000_000},
				// several checks compete: any refusal is right, success is not
				{"index-count-1e9", xrefStmSpec{Index: []int64{0, 1_000_000_000}}, Limits{}, "reject", nil, "MaxXRefEntries", 1_000_000_000},
				{"index-start-1e9", xrefStmSpec{Index: []int64{1_000_000_000, 5}}, Limits{}, "reject", nil, "MaxObjectCount", 1_000_000_005},
				{"index-negative", xrefStmSpec{Index: []int64{0, -5}}, Limits{}, "reject", nil, "MaxXRefEntries", -5},
				{"index-overflow", xrefStmSpec{Index: []int64{9_223_372_036_854_775_000, 9_223_372_036_854_775_000}}, Limits{}, "reject", nil, "MaxXRefEntries", 0},
				// /W extremes: no verdict on the result, the memory bound and the absence of a crash decide
				{"w-huge", xrefStmSpec{W: []int64{1, 1_000_000_000, 1}}, Limits{}, "any", nil, "", 0},
				{"w-zero", xrefStmSpec{W: []int64{0, 0, 0}}, Limits{}, "any", nil, "", 0},
				{"w-negative", xrefStmSpec{W: []int64{-1, 4, 3}}, Limits{}, "any", nil, "", 0},
				{"w-two", xrefStmSpec{W: []int64{1, 4}}, Limits{}, "any", nil, "", 0},
				{"w-wide-rows", xrefStmSpec{W: []int64{8, 16, 16}, WRows: true}, Limits{}, "any", nil, "", 0},
				{"w-maxint", xrefStmSpec{W: []int64{1, 9_223_372_036_854_775_807, 1}}, Limits{}, "any", nil, "", 0},
			}
			for _, f := range fs {
				f := f
				container := container
				site := "xref-size"
				switch {
				case strings.HasPrefix(f.name, "w-"):
					site = "xref-w"
				case strings.Contains(f.name, "index"):
					site = "xref-index"
				}
				c := Case{Entry: "Read", Container: container, Strict: strict, Lim: f.lim,
					Exp: Expect{Limit: f.limit, Site: site, Rel: f.name, Value: f.value, Want: f.want, Classes: f.class}}
				if f.want == "limit" || f.want == "reject" {
					c.Exp.Want = "reject-or-repaired"
				}
				c.Exp.LimitV = limitValue(f.limit, f.lim)
				// what the declared counts may cost while they stay within MaxObjectCount / MaxXRefEntries
				eff := f.lim.effective()
				if f.xs.Size != nil && *f.xs.Size > 0 && *f.xs.Size <= int64(eff.MaxObjectCount) {
					c.Exp.MemExtra += 16 * *f.xs.Size
				}
				c.Lim.D, c.Lim.S = mib, mib
				add("struct/forced/"+f.name, c, func(pl *plan) ([]byte, error) {
					extra := 2
					if f.xs.NoIndex {
						extra = 0 // objects 0..5 without holes: the rows number themselves
					}
					b, _, err := assemble(docParts{container: container, xs: f.xs, extraObjs: extra})
					return b, err
				})
			}
		}
	}

	// object streams: /N against MaxObjectStreamCount, /First against MaxObjectStreamFirst, prolog count
	for _, extra := range extras {
		members := 3 + extra
		for _, entry := range entries {
			for _, strict := range modes {
				for _, rel := range []string{"at", "plus1"} {
					on := members
					if rel == "plus1" {
						on = members - 1
					}
					c := Case{Entry: entry, Container: "objstm", Strict: strict, Lim: Limits{On: on},
						Exp: Expect{Limit: "MaxObjectStreamCount", Site: "objstm-n", Rel: rel, Value: int64(members), LimitV: int64(on), Want: "ok"}}
					if members > on {
						c.Exp.Want, c.Exp.Classes = "limit", []string{"objstm-n", "objstm-count"}
					}
					extra := extra
					add("struct/objstm-n/"+rel, c, func(pl *plan) ([]byte, error) {
						b, _, err := assemble(docParts{container: "objstm", extraObjs: extra})
						return b, err
					})
				}
				// /First: learn the true prolog size from a first build
				for _, rel := range []string{"at", "plus1"} {
					extra, rel := extra, rel
					c := Case{Entry: entry, Container: "objstm", Strict: strict,
						Exp: Expect{Limit: "MaxObjectStreamFirst", Site: "objstm-first", Rel: rel}}
					add("struct/objstm-first/"+rel, c, func(pl *plan) ([]byte, error) {
						pad := 0
						if extra > 5 {
							pad = 4000
						}
						os := &objStmSpec{Filters: fk(pdfgen.Flate), PrologPad: pad}
						// the writer computes /First; build once to learn it
						d := docParts{container: "objstm", extraObjs: extra, os: os}
						b, lay, err := assemble(d)
						if err != nil {
							return nil, err
						}
						first := lay.ObjStmFirst
						of := first
						if rel == "plus1" {
							of = first - 1
						}
						pl.c.Lim.Of = of
						pl.c.Exp.Value, pl.c.Exp.LimitV = first, of
						pl.c.Exp.Want = "ok"
						if first > of {
							pl.c.Exp.Want, pl.c.Exp.Classes = "limit", []string{"objstm-first"}
						}
						return b, nil
					})
				}
			}
		}
	}
	for _, strict := range modes {
		type forced struct {
			name  string
			os    objStmSpec
			lim   Limits
			want  string
			class []string
			limit string
			value int64
		}
		fs := []forced{
			{"n-default-plus1", objStmSpec{N: i64(1_000_001)}, Limits{}, "limit", []string{"objstm-n"}, "MaxObjectStreamCount", 1_000_001},
			{"n-1e9", objStmSpec{N: i64(1_000_000_000)}, Limits{}, "limit", []string{"objstm-n"}, "MaxObjectStreamCount", 1_000_000_000},
			{"n-1e18", objStmSpec{N: i64(1_000_000_000_000_000_000)}, Limits{}, "reject", nil, "MaxObjectStreamCount", 0},
			{"n-small", objStmSpec{N: i64(500)}, Limits{On: 100}, "limit", []string{"objstm-n"}, "MaxObjectStreamCount", 500},
			{"first-default-plus1", objStmSpec{First: i64(16*mib + 1)}, Limits{}, "limit", []string{"objstm-first"}, "MaxObjectStreamFirst", 16*mib + 1},
			{"first-1e9", objStmSpec{First: i64(1_000_000_000)}, Limits{}, "limit", []string{"objstm-first"}, "MaxObjectStreamFirst", 1_000_000_000},
			{"first-small", objStmSpec{First: i64(5000)}, Limits{Of: 1024}, "limit", []string{"objstm-first"}, "MaxObjectStreamFirst", 5000},
			// /N understates the prolog: the pairs actually present are counted against the limit
			{"count-over-n", objStmSpec{N: i64(5), ExtraPairs: 40}, Limits{On: 20}, "limit", []string{"objstm-count"}, "MaxObjectStreamCount", 45},
			// lies below the limits: no verdict on the result
			{"n-lie-within-limit", objStmSpec{N: i64(900_000)}, Limits{}, "any", nil, "", 0},
			{"first-lie-within-limit", objStmSpec{First: i64(16 * mib)}, Limits{}, "any", nil, "", 0},
			{"first-negative", objStmSpec{First: i64(-1)}, Limits{}, "reject", nil, "MaxObjectStreamFirst", -1},
			{"n-negative", objStmSpec{N: i64(-1)}, Limits{}, "reject", nil, "MaxObjectStreamCount", -1},
		}
		for _, f := range fs {
			f := f
			site := "objstm-n"
			if strings.HasPrefix(f.name, "first") {
				site = "objstm-first"
			}
			c := Case{Entry: "Read", Container: "objstm", Strict: strict, Lim: f.lim,
				Exp: Expect{Limit: f.limit, Site: site, Rel: f.name, Value: f.value, Want: f.want, Classes: f.class,
					LimitV: limitValue(f.limit, f.lim)}}
			c.Lim.D, c.Lim.S = 64*kib, 64*kib
			add("struct/forced-objstm/"+f.name, c, func(pl *plan) ([]byte, error) {
				os := f.os
				os.Filters = fk(pdfgen.Flate)
				b, _, err := assemble(docParts{container: "objstm", os: &os, extraObjs: 2})
				return b, err
			})
		}
	}
	return out
}

// ---------------------------------------------------------------------------
// family F5: nesting depth

func nestedObj(shape string, depth int) []byte {
	switch shape {
	case "array":
		return pdfgen.NestedArray(depth, pdfgen.Int(7))
	case "dict":
		return pdfgen.NestedDict(depth, "K", pdfgen.Int(7))
	}
	return pdfgen.NestedMixed(depth, pdfgen.Int(7))
}

func (g *genCtx) famNesting() []*plan {
	var out []*plan
	rds := []int{0, 10, 50}
	if g.thorough {
		rds = append(rds, 5, 200, 1000)
	}
	for _, rd := range rds {
		eff := rd
		if eff == 0 {
			eff = 100
		}
		depths := []int{eff - 1, eff, eff + 1, eff + 2, 10_000}
		if g.thorough {
			depths = append(depths, 1, eff/2, 2*eff, 100_000)
		}
		for _, depth := range depths {
			if depth < 1 {
				continue
			}
			for _, shape := range []string{"array", "dict", "mixed"} {
				for _, container := range []string{"classic", "xrefstm", "objstm"} {
					for _, entry := range []string{"Read", "Validate", "Optimize"} {
						for _, strict := range []bool{false, true} {
							for _, via := range []string{"ctx", "api"} {
								rel := "above"
								switch {
								case depth < eff:
									rel = "below"
								case depth == eff:
									rel = "at"
								case depth == eff+1:
									rel = "plus1"
								}
								where := "top"
								if container == "objstm" {
									where = "objstm"
								}
								pl := &plan{stratum: fmt.Sprintf("nest/%s/%s/%s/%d", shape, where, rel, eff)}
								pl.c = Case{Fam: "nesting", Kind: "doc", Entry: entry, Via: via, Container: container, Strict: strict,
									Lim: Limits{Rd: rd, D: mib, S: mib},
									Exp: Expect{Limit: "MaxRecursionDepth", Site: "nest-" + shape + "-" + where, Rel: rel, Value: int64(depth), LimitV: int64(eff)}}
								if depth > eff {
									pl.c.Exp.Want, pl.c.Exp.Classes = "limit-or-skip", []string{"depth"}
								} else {
									pl.c.Exp.Want = "ok"
								}
								shape, depth, container := shape, depth, container
								pl.build = func(pl *plan) ([]byte, error) {
									b, _, err := assemble(docParts{container: container, nested: nestedObj(shape, depth)})
									return b, err
								}
								out = append(out, pl)
							}
						}
					}
				}
			}
		}
	}
	return out
}

// ---------------------------------------------------------------------------
// family F6: image dimensions

func (g *genCtx) famImages() []*plan {
	var out []*plan
	type dim struct{ w, h int64 }
	dims := []dim{{100, 100}, {640, 480}, {1, 5000}, {1024, 1024}}
	if g.thorough {
		dims = append(dims, dim{2000, 1500}, dim{7, 7}, dim{4096, 16})
	}
	type csT struct {
		name string
		comp int64
	}
	for _, d := range dims {
		for _, cs := range []csT{{"DeviceGray", 1}, {"DeviceRGB", 3}} {
			for _, container := range []string{"classic", "xrefstm", "objstm"} {
				for _, via := range []string{"ctx", "api"} {
					for _, strict := range []bool{false, true} {
						px := d.w * d.h
						raw := px * cs.comp
						type lc struct {
							name   string
							lim    Limits
							want   string
							class  []string
							limit  string
							limitV int64
							value  int64
						}
						ib := max(raw, 4*px)
						lcs := []lc{
							{"pixels-at", Limits{Px: px, Ib: ib}, "ok", nil, "MaxImagePixels", px, px},
							{"pixels-plus1", Limits{Px: px - 1, Ib: ib}, "limit", []string{"imagepixels"}, "MaxImagePixels", px - 1, px},
							{"bytes-at", Limits{Px: px, Ib: ib}, "ok", nil, "MaxImageBytes", ib, ib},
							{"bytes-plus1", Limits{Px: px, Ib: ib - 1}, "limit", []string{"imagebytes"}, "MaxImageBytes", ib - 1, ib},
						}
						for _, l := range lcs {
							l, d, cs, container := l, d, cs, container
							pl := &plan{stratum: "image/" + l.name + "/" + cs.name}
							pl.c = Case{Fam: "images", Kind: "doc", Entry: "ExtractImages", Via: via, Container: container, Strict: strict, Lim: l.lim,
								Exp: Expect{Limit: l.limit, Site: "image-dims", Rel: l.name, Value: l.value, LimitV: l.limitV, Want: l.want, Classes: l.class,
									MemImage: true, DecKey: decKey("image", container, false, strict)}}
							pl.c.Lim.D = nextPow2(raw)
							pl.build = func(pl *plan) ([]byte, error) {
								enc, _, err := encodePayload(nil, 0, raw, pFlate, 0)
								if err != nil {
									return nil, err
								}
								im := &imagePart{s: &mstream{Enc: enc, Filters: pFlate.fs}, w: d.w, h: d.h, bpc: 8, cs: cs.name, wViaRef: container == "objstm"}
								b, _, err := assemble(docParts{container: container, image: im})
								pl.c.Lim.S = nextPow2(int64(len(b)))
								return b, err
							}
							out = append(out, pl)
						}
					}
				}
			}
		}
	}
	// declared dimensions far beyond the data
	type huge struct {
		name   string
		w, h   int64
		bpc    int
		lim    Limits
		want   string
		class  []string
		limit  string
		limitV int64
	}
	hs := []huge{
		{"1e5x1e5", 100_000, 100_000, 8, Limits{}, "limit", []string{"imagepixels"}, "MaxImagePixels", 100 * mib},
		{"30000x30000", 30_000, 30_000, 8, Limits{}, "limit", []string{"imagepixels"}, "MaxImagePixels", 100 * mib},
		{"default-plus1", 10241, 10240, 8, Limits{}, "limit", []string{"imagepixels"}, "MaxImagePixels", 100 * mib},
		{"2e9x2e9", 2_000_000_000, 2_000_000_000, 8, Limits{}, "limit", []string{"imagepixels"}, "MaxImagePixels", 100 * mib},
		{"maxint", 9_223_372_036_854_775_807, 9_223_372_036_854_775_807, 16, Limits{}, "reject", nil, "MaxImagePixels", 100 * mib},
		{"small-limit-wide", 1_000_000, 1, 8, Limits{Px: 10_000, Ib: mib}, "limit", []string{"imagepixels"}, "MaxImagePixels", 10_000},
		{"small-limit-bytes", 1000, 1000, 8, Limits{Px: 10_000_000, Ib: mib}, "limit", []string{"imagebytes"}, "MaxImageBytes", mib},
		{"bpc16-bytes", 1000, 600, 16, Limits{Px: 10_000_000, Ib: 3_000_000}, "limit", []string{"imagebytes"}, "MaxImageBytes", 3_000_000},
		// within the limits but without the data: no verdict on the result, memory only (bound includes MaxImageBytes)
		{"within-no-data", 2000, 2000, 8, Limits{Px: 4_000_000, Ib: 16_000_000}, "any", nil, "", 0},
	}
	for _, h := range hs {
		for _, container := range []string{"classic", "objstm"} {
			for _, entry := range []string{"ExtractImages", "Optimize", "Validate"} {
				for _, strict := range []bool{false, true} {
					h, container := h, container
					pl := &plan{stratum: "image/huge/" + h.name + "/" + entry}
					pl.c = Case{Fam: "images", Kind: "doc", Entry: entry, Via: "ctx", Container: container, Strict: strict, Lim: h.lim,
						Exp: Expect{Limit: h.limit, Site: "image-huge", Rel: h.name, Value: h.w * h.h, LimitV: h.limitV, Want: h.want, Classes: h.class,
							MemImage: true, DecKey: decKey("image", container, false, strict)}}
					if entry != "ExtractImages" && h.want != "any" {
						// only the image extraction is documented to check image limits
						pl.c.Exp.Want, pl.c.Exp.Classes = "any", nil
					}
					pl.c.Lim.D, pl.c.Lim.S = mib, mib
					pl.build = func(pl *plan) ([]byte, error) {
						s := pdfgen.HugeImage(h.w, h.h, h.bpc, "DeviceRGB")
						im := &imagePart{s: &mstream{Enc: s.Data, Filters: pFlate.fs}, w: h.w, h: h.h, bpc: h.bpc, cs: "DeviceRGB", wViaRef: container == "objstm"}
						b, _, err := assemble(docParts{container: container, image: im})
						return b, err
					}
					out = append(out, pl)
				}
			}
		}
	}
	return out
}

// ---------------------------------------------------------------------------
// family F7: large limits (few, heavy, run one at a time). Materialising 512 MiB + 1 bytes under the
// default limit costs pdfcpu more than 2 GiB of RSS (bytes.Buffer doubling), so the default value of
// MaxDecodeBytes itself is exercised where it is cheap (a predictor row one column wider than the
// default limit; /Length, /Size, /N, /First, depth and pixel counts against their defaults in the
// other families) and the heavy bombs run under explicit limits of 32 MiB (128 and 256 MiB in the thorough tier).

func (g *genCtx) famDefaults() []*plan {
	var out []*plan
	type dc struct {
		name string
		kind string
		p    pipe
		L    int64
		n    int64
		site string
		ent  string
	}
	big := 32 * mib
	if g.thorough {
		big = 128 * mib
	}
	cases := []dc{
		{"stream-flate-plus1", "stream", pFlate, big, big + 1, "streamdict", "Decode"},
		{"doc-content-flate-plus1", "doc", pFlate, big, big + 1, "content", "ExtractContent"},
	}
	if g.thorough {
		cases = append(cases,
			dc{"stream-flate2-plus1", "stream", pipes2[0], big, big + 1, "streamdict", "Decode"},
			dc{"doc-xrefstm-flate-plus8", "doc", pFlate, big, big + 8, "xrefstm", "Read"},
			dc{"doc-unref-flate-plus1", "doc", pFlate, big, big + 1, "unref", "Read"},
			dc{"stream-flate-at", "stream", pFlate, big, big, "streamdict", "Decode"},
			dc{"stream-flate-256M-plus1", "stream", pFlate, 2 * big, 2*big + 1, "streamdict", "Decode"},
			dc{"doc-content-256M-plus1", "doc", pFlate, 2 * big, 2*big + 1, "content", "Optimize"},
		)
	}
	for _, d := range cases {
		d := d
		pl := &plan{stratum: "large/" + d.name}
		pl.c = Case{Fam: "large", Kind: d.kind, Entry: d.ent, Via: "ctx", Container: "xrefstm", Strict: true, DecodeAll: true,
			Filters: filtersJ(d.p.fs), Lim: Limits{D: d.L, S: d.L},
			Exp: Expect{Limit: "MaxDecodeBytes", Site: d.site, Pipe: d.p.name, Rel: "large", Value: d.n, LimitV: d.L,
				DecKey: decKey(d.site, "xrefstm", true, true)}}
		pl.build = func(pl *plan) ([]byte, error) {
			var b []byte
			var stages []int64
			var err error
			if d.kind == "stream" {
				b, stages, err = encodePayload([]byte("BT ET\n"), '\n', d.n, d.p, 0)
				pl.c.Exp.DecKey = ""
			} else {
				b, stages, err = bombDoc(d.site, "xrefstm", d.p, d.n, 0)
			}
			if err != nil {
				return nil, err
			}
			e := &pl.c.Exp
			e.Stages, e.Stage = stages, firstOver(stages, d.L)
			e.Want = "ok"
			if e.Stage >= 0 {
				e.Want, e.Classes = "limit", []string{"decode"}
			}
			return b, nil
		}
		out = append(out, pl)
	}
	// the default MaxDecodeBytes against a predictor row
	for _, cols := range []int64{defaultLimit + 1, defaultLimit} {
		cols := cols
		pl := &plan{stratum: fmt.Sprintf("large/default-row-%d", cols)}
		pl.c = Case{Fam: "large", Kind: "stream", Entry: "Decode",
			Filters: []FilterJ{{Name: "FlateDecode", Parms: map[string]int{"Predictor": 12, "Columns": int(cols)}}},
			Exp: Expect{Limit: "MaxDecodeBytes", Site: "streamdict", Pipe: "Flate(png-up)", Rel: "default-row", Value: cols, LimitV: defaultLimit,
				Stages: []int64{cols}, Stage: 0, Want: "limit", Classes: []string{"decode"}}}
		if cols <= defaultLimit {
			// a row of exactly the default limit with 65 bytes of data: refused for the missing data; no verdict
			pl.c.Exp.Want, pl.c.Exp.Classes, pl.c.Exp.Stage = "any", nil, -1
		}
		pl.build = func(pl *plan) ([]byte, error) { return pdfgen.PredictorBomb(cols, 0, 0).Data, nil }
		out = append(out, pl)
	}
	return out
}

// ---------------------------------------------------------------------------

type quota struct{ stream, docbomb, rawlen, structure, nesting, images int }

// allPlans draws the run's cases: deterministic in (seed, tier).
func allPlans(rngFor func(name string) *rand.Rand, thorough bool, tab map[string]decRow) []*plan {
	g := newGenCtx(thorough)
	if tab != nil {
		g.decodes = func(site, container string, decodeAll, strict bool, entry string) bool {
			return tab[decKey(site, container, decodeAll, strict)][entry] != ""
		}
	}
	q := quota{stream: 58, docbomb: 86, rawlen: 28, structure: 36, nesting: 20, images: 20}
	if thorough {
		q = quota{stream: 700, docbomb: 1100, rawlen: 330, structure: 420, nesting: 240, images: 204}
	}
	var out []*plan
	out = append(out, pickStrata(rngFor("stream"), g.famStream(), q.stream)...)
	out = append(out, pickStrata(rngFor("docbomb"), g.famDocBomb(), q.docbomb)...)
	out = append(out, pickStrata(rngFor("rawlen"), g.famStreamBytes(), q.rawlen)...)
	out = append(out, pickStrata(rngFor("structure"), g.famStructure(), q.structure)...)
	out = append(out, pickStrata(rngFor("nesting"), g.famNesting(), q.nesting)...)
	out = append(out, pickStrata(rngFor("images"), g.famImages(), q.images)...)
	out = append(out, g.famDefaults()...)
	{
		// every (filter, predictor) x shape x site cell once beyond the limit in the thorough tier (1008 cells, 936 of them with such a case),
		// every (filter, predictor family) pair at stream level and in a document in the quick tier (18 cells)
		beyond, within, huge := g.famPredPipes(rngFor("predpipe"))
		qb, qw, qh := 18, 9, 6
		if thorough {
			qb, qw, qh = 936, 126, 42 // 936 = the cells that have a case beyond the limit (DecodeLengthWithLimit bounds a last-stage bomb by the requested length)
		}
		out = append(out, pickStrata(rngFor("predpipe-beyond"), beyond, qb)...)
		out = append(out, pickStrata(rngFor("predpipe-within"), within, qw)...)
		out = append(out, pickStrata(rngFor("predpipe-huge"), huge, qh)...)
	}
	for i, p := range out {
		p.c.I = i
	}
	return out
}
