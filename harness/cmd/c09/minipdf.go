package main

// A tiny byte-level PDF writer for the C09 workloads. It exists next to pdfgen's writer because the
// bombs of this property sit in places pdfgen generates itself (the data of cross-reference streams
// and object streams, padded to a chosen decoded size, pushed through arbitrary filter pipelines).
// Objects are serialised with pdfgen's object model; filters are pdfgen's independent encoders.

import (
	"bytes"
	"fmt"
	"sort"

	"verif/harness/internal/pdfgen"
)

// mstream is the stream part of an object: already ENCODED bytes plus the pipeline that decodes them.
type mstream struct {
	Enc     []byte
	Filters []pdfgen.FilterSpec
	// Length: "" = true length, "value" = /Length LengthV, "indirect" = reference to an integer object
	// holding the true length (or LengthV if != 0), "missing" = no /Length.
	Length  string
	LengthV int64
}

type mobj struct {
	Num    int
	Dict   pdfgen.Dict // for dictionaries and streams
	Raw    []byte      // any other object, serialised (used when Dict == nil and Stream == nil)
	Stream *mstream    // non-nil: stream object
	InStm  bool        // place in the object stream (only non-stream objects)
	Pre    []byte      // bytes written in front of "N 0 obj" (comments)
}

type xrefStmSpec struct {
	Filters  []pdfgen.FilterSpec
	PadTo    int     // pad the decoded entry data with zero rows up to at least this many bytes (0: none)
	Size     *int64  // forced /Size
	Index    []int64 // forced /Index
	NoIndex  bool    // never write /Index (the rows are then numbered from 0)
	W        []int64 // forced /W (dictionary only; rows keep their true widths unless WRows)
	WRows    bool    // lay the rows out with W (needs len(W)==3, small values)
	Trail    int     // filler bytes added to the input of decode stage TrailAt (0: the LAST stage; see addFiller)
	TrailAt  int
	Garbage  bool    // replace the encoded data by bytes no filter accepts (decode table probe)
	stageOut []int64 // filled by the writer: output size of every decode stage
}

type objStmSpec struct {
	Filters    []pdfgen.FilterSpec
	PadTo      int    // pad the decoded content with LF up to this size
	N          *int64 // forced /N
	First      *int64 // forced /First
	ExtraPairs int    // additional "num offset" pairs in the prolog (empty objects behind the last member)
	PrologPad  int    // extra blanks at the end of the prolog (grows /First with real data)
	Garbage    bool   // replace the encoded data by bytes no filter accepts (decode table probe)
	Trail      int    // filler bytes added to the input of decode stage TrailAt (see addFiller)
	TrailAt    int
	stageOut   []int64
}

type mdoc struct {
	Objs    []mobj
	Root    int
	Classic bool // classic xref table + trailer; else cross-reference stream
	XS      xrefStmSpec
	OS      *objStmSpec // non-nil: objects with InStm go into one object stream
	Version string
}

type mlayout struct {
	XRefStmNum, ObjStmNum int
	XRefStageOut          []int64
	ObjStmStageOut        []int64
	ObjStmFirst           int64 // true length of the object stream prolog
	Size                  int
}

// encodeStages encodes payload through fs (decode order) and returns the encoded bytes together with
// the output size of every decode stage (stageOut[len-1] == len(payload)). trail > 0 adds filler to
// the input of decode stage trailAt (1..len-1) that this stage skips, so that stage trailAt-1
// produces trail more bytes than stage trailAt needs (an intermediate result larger than the final one).
func encodeStages(payload []byte, fs []pdfgen.FilterSpec, trailAt, trail int) ([]byte, []int64, error) {
	out := make([]int64, len(fs))
	data := payload
	for i := len(fs) - 1; i >= 0; i-- {
		if fs[i].Predictor > 1 && i < len(fs)-1 {
			// the output of a predictor stage is a whole number of rows: filler that stage i+1 skips
			if rb := fs[i].RowBytes(); len(data)%rb != 0 {
				data = addFiller(data, fs[i+1].Kind, rb-len(data)%rb)
			}
		}
		out[i] = int64(len(data))
		enc, err := pdfgen.EncodeStage(data, fs[i])
		if err != nil {
			return nil, nil, err
		}
		if trail > 0 && i == trailAt && i > 0 {
			enc = addFiller(enc, fs[i].Kind, trail)
		}
		data = enc
	}
	return data, out, nil
}

// addFiller adds n bytes to an encoded stage input that the decoder of that stage skips.
func addFiller(enc []byte, k pdfgen.FilterKind, n int) []byte {
	switch k {
	case pdfgen.ASCIIHex, pdfgen.ASCII85:
		// white space in front of the data is skipped by both decoders
		return append(bytes.Repeat([]byte{' '}, n), enc...)
	default:
		// Flate: bytes behind the zlib trailer; RunLength: bytes behind EOD (128); LZW: bytes behind EOD
		return append(append([]byte{}, enc...), make([]byte, n)...)
	}
}

func putBE(b []byte, v int64, w int) []byte {
	for i := w - 1; i >= 0; i-- {
		if i >= 8 {
			b = append(b, 0)
			continue
		}
		b = append(b, byte(v>>(8*uint(i))))
	}
	return b
}

func (d *mdoc) maxNum() int {
	m := 0
	for _, o := range d.Objs {
		m = max(m, o.Num)
	}
	return m
}

func streamDict(base pdfgen.Dict, s *mstream, lenRef int) pdfgen.Dict {
	dict := base.Clone()
	switch s.Length {
	case "":
		dict.Set("Length", pdfgen.Int(len(s.Enc)))
	case "value":
		dict.Set("Length", pdfgen.Int(s.LengthV))
	case "indirect":
		dict.Set("Length", pdfgen.Ref{Num: lenRef})
	case "missing":
	}
	if f, p := pdfgen.FilterEntries(s.Filters, len(s.Filters) > 1); f != nil {
		dict.Set("Filter", f)
		if p != nil {
			dict.Set("DecodeParms", p)
		}
	}
	return dict
}

// write lays the document out. Object numbers above maxNum() are used for the indirect /Length
// integers, the object stream and the cross-reference stream (in this order).
func (d *mdoc) write() ([]byte, *mlayout, error) {
	var b bytes.Buffer
	lay := &mlayout{}
	ver := d.Version
	if ver == "" {
		ver = "1.7"
	}
	fmt.Fprintf(&b, "%%PDF-%s\n%%\xe2\xe3\xcf\xd3\n", ver)

	type ent struct {
		typ    int
		f2, f3 int64
	}
	entries := map[int]ent{0: {0, 0, 65535}}
	next := d.maxNum() + 1

	var members []mobj
	objs := append([]mobj(nil), d.Objs...)
	sort.SliceStable(objs, func(i, j int) bool { return objs[i].Num < objs[j].Num })

	writeTop := func(num int, body []byte, s *mstream, pre []byte) {
		b.Write(pre)
		entries[num] = ent{1, int64(b.Len()), 0}
		fmt.Fprintf(&b, "%d 0 obj\n", num)
		b.Write(body)
		if s != nil {
			b.WriteString("\nstream\n")
			b.Write(s.Enc)
			b.WriteString("\nendstream")
		}
		b.WriteString("\nendobj\n")
	}

	for _, o := range objs {
		if o.InStm && d.OS != nil && o.Stream == nil && !d.Classic {
			members = append(members, o)
			continue
		}
		switch {
		case o.Stream != nil:
			lenRef := 0
			if o.Stream.Length == "indirect" {
				lenRef = next
				next++
			}
			writeTop(o.Num, pdfgen.Serialize(streamDict(o.Dict, o.Stream, lenRef)), o.Stream, o.Pre)
			if lenRef != 0 {
				v := int64(len(o.Stream.Enc))
				if o.Stream.LengthV != 0 {
					v = o.Stream.LengthV
				}
				writeTop(lenRef, []byte(fmt.Sprint(v)), nil, nil)
			}
		case o.Dict != nil:
			writeTop(o.Num, pdfgen.Serialize(o.Dict), nil, o.Pre)
		default:
			writeTop(o.Num, o.Raw, nil, o.Pre)
		}
	}

	// object stream
	if len(members) > 0 {
		osNum := next
		next++
		lay.ObjStmNum = osNum
		var prolog, body bytes.Buffer
		for i, m := range members {
			ser := m.Raw
			if m.Dict != nil {
				ser = pdfgen.Serialize(m.Dict)
			}
			fmt.Fprintf(&prolog, "%d %d ", m.Num, body.Len())
			entries[m.Num] = ent{2, int64(osNum), int64(i)}
			body.Write(ser)
			body.WriteByte('\n')
		}
		// extra pairs: empty objects behind the last member, with numbers no xref entry refers to
		for i := 0; i < d.OS.ExtraPairs; i++ {
			fmt.Fprintf(&prolog, "%d %d ", 100000+i, body.Len())
		}
		prolog.Write(bytes.Repeat([]byte{' '}, d.OS.PrologPad))
		first := int64(prolog.Len())
		lay.ObjStmFirst = first
		content := append(prolog.Bytes(), body.Bytes()...)
		if d.OS.PadTo > len(content) {
			content = append(content, bytes.Repeat([]byte{'\n'}, d.OS.PadTo-len(content))...)
		}
		enc, stageOut, err := encodeStages(content, d.OS.Filters, d.OS.TrailAt, d.OS.Trail)
		if err != nil {
			return nil, nil, err
		}
		if len(d.OS.Filters) == 0 {
			stageOut = []int64{int64(len(content))}
		}
		d.OS.stageOut, lay.ObjStmStageOut = stageOut, stageOut
		if d.OS.Garbage {
			enc = []byte("\x00\x01 this is not a zlib stream")
		}
		n := int64(len(members) + d.OS.ExtraPairs)
		if d.OS.N != nil {
			n = *d.OS.N
		}
		if d.OS.First != nil {
			first = *d.OS.First
		}
		dict := pdfgen.D("Type", pdfgen.Name("ObjStm"), "N", pdfgen.Int(n), "First", pdfgen.Int(first))
		s := &mstream{Enc: enc, Filters: d.OS.Filters}
		writeTop(osNum, pdfgen.Serialize(streamDict(dict, s, 0)), s, nil)
	}

	trailer := pdfgen.D("Root", pdfgen.Ref{Num: d.Root})

	nums := func() []int {
		var ns []int
		for n := range entries {
			ns = append(ns, n)
		}
		sort.Ints(ns)
		return ns
	}

	if d.Classic {
		ns := nums()
		size := ns[len(ns)-1] + 1
		lay.Size = size
		xoff := b.Len()
		b.WriteString("xref\n")
		// contiguous subsections
		for i := 0; i < len(ns); {
			j := i
			for j+1 < len(ns) && ns[j+1] == ns[j]+1 {
				j++
			}
			fmt.Fprintf(&b, "%d %d\n", ns[i], j-i+1)
			for k := i; k <= j; k++ {
				e := entries[ns[k]]
				if e.typ == 0 {
					fmt.Fprintf(&b, "%010d %05d f \n", e.f2, e.f3)
				} else {
					fmt.Fprintf(&b, "%010d %05d n \n", e.f2, e.f3)
				}
			}
			i = j + 1
		}
		sz := int64(size)
		if d.XS.Size != nil {
			sz = *d.XS.Size
		}
		trailer.Set("Size", pdfgen.Int(sz))
		b.WriteString("trailer\n")
		b.Write(pdfgen.Serialize(trailer))
		fmt.Fprintf(&b, "\nstartxref\n%d\n%%%%EOF\n", xoff)
		return b.Bytes(), lay, nil
	}

	// cross-reference stream
	xsNum := next
	lay.XRefStmNum = xsNum
	xoff := int64(b.Len())
	entries[xsNum] = ent{1, xoff, 0}
	ns := nums()
	size := ns[len(ns)-1] + 1
	lay.Size = size
	wd := [3]int{1, 4, 3} // 8-byte rows
	if d.XS.WRows && len(d.XS.W) == 3 {
		for i, v := range d.XS.W {
			if v >= 0 && v <= 16 {
				wd[i] = int(v)
			}
		}
	}
	var rows []byte
	var index pdfgen.Array
	for i := 0; i < len(ns); {
		j := i
		for j+1 < len(ns) && ns[j+1] == ns[j]+1 {
			j++
		}
		index = append(index, pdfgen.Int(ns[i]), pdfgen.Int(j-i+1))
		for k := i; k <= j; k++ {
			e := entries[ns[k]]
			rows = putBE(rows, int64(e.typ), wd[0])
			rows = putBE(rows, e.f2, wd[1])
			rows = putBE(rows, e.f3, wd[2])
		}
		i = j + 1
	}
	rowLen := wd[0] + wd[1] + wd[2]
	if d.XS.PadTo > len(rows) && rowLen > 0 {
		padRows := (d.XS.PadTo - len(rows) + rowLen - 1) / rowLen
		rows = append(rows, make([]byte, padRows*rowLen)...)
	}
	xsTrailAt := d.XS.TrailAt
	if xsTrailAt == 0 {
		xsTrailAt = len(d.XS.Filters) - 1
	}
	enc, stageOut, err := encodeStages(rows, d.XS.Filters, xsTrailAt, d.XS.Trail)
	if err != nil {
		return nil, nil, err
	}
	if len(d.XS.Filters) == 0 {
		stageOut = []int64{int64(len(rows))}
	}
	d.XS.stageOut, lay.XRefStageOut = stageOut, stageOut
	if d.XS.Garbage {
		enc = []byte("\x00\x01 this is not a zlib stream")
	}
	dict := pdfgen.D("Type", pdfgen.Name("XRef"))
	for _, e := range trailer {
		dict.Set(e.Key, e.Val)
	}
	sz := int64(size)
	if d.XS.Size != nil {
		sz = *d.XS.Size
	}
	dict.Set("Size", pdfgen.Int(sz))
	wArr := pdfgen.Array{pdfgen.Int(wd[0]), pdfgen.Int(wd[1]), pdfgen.Int(wd[2])}
	if d.XS.W != nil {
		wArr = nil
		for _, v := range d.XS.W {
			wArr = append(wArr, pdfgen.Int(v))
		}
	}
	dict.Set("W", wArr)
	if d.XS.Index != nil {
		index = nil
		for _, v := range d.XS.Index {
			index = append(index, pdfgen.Int(v))
		}
		dict.Set("Index", index)
	} else if !d.XS.NoIndex && (!(len(index) == 2 && index[0] == pdfgen.Int(0)) || sz != int64(size)) {
		dict.Set("Index", index)
	}
	s := &mstream{Enc: enc, Filters: d.XS.Filters}
	fmt.Fprintf(&b, "%d 0 obj\n", xsNum)
	b.Write(pdfgen.Serialize(streamDict(dict, s, 0)))
	b.WriteString("\nstream\n")
	b.Write(enc)
	b.WriteString("\nendstream\nendobj\n")
	fmt.Fprintf(&b, "startxref\n%d\n%%%%EOF\n", xoff)
	return b.Bytes(), lay, nil
}
