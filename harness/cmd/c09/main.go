// C09 — configured resource limits bound what an input can make pdfcpu allocate.
//
// Runtime monitoring: every case is executed by the real pdfcpu code in a FRESH child process (this
// binary re-executed with C09_CHILD=<case file>). The child reports (i) a state walk over the
// cross-reference table at every quiescent point (after ReadContext, ValidateContext,
// OptimizeContext, WriteContext, image / content / metadata extraction), (ii) the error of the first
// failing step with its limit-error class and (iii) its own peak memory (VmHWM, Go heap obtained from
// the OS); the parent adds ru_maxrss from wait4 and applies the oracles with ground truth known from
// the construction of the input (decoded size of every filter stage, true counts, nesting depth).
package main

import (
	"bufio"
	"bytes"
	"context"
	"encoding/json"
	"fmt"
	"io"
	"math/rand/v2"
	"os"
	"os/exec"
	"path/filepath"
	"runtime/debug"
	"sort"
	"strings"
	"sync"
	"syscall"
	"time"

	"github.com/pdfcpu/pdfcpu/pkg/api"
	"verif/harness/internal/vk"
)

const (
	memFactor = 6
	memSlack  = 64 * mib
	childWall = 300 * time.Second
)

func main() {
	if p := os.Getenv("C09_CHILD"); p != "" {
		childMain(p)
		return
	}
	if os.Getenv("C09_LAUNCH") != "" {
		launcherMain()
		return
	}
	vk.Run("C09", "exploration", run)
}

// launcherMain is a small, long-lived intermediate process (one per worker slot): it reads case file
// names from stdin, runs one fresh case child per name, waits for it with wait4 and answers with one
// JSON line carrying the child's rusage, exit status and output. It exists because on Linux ru_maxrss
// of an exec'ed child starts at the resident set of the process that forked it (vfork shares the
// address space until exec): forked from this launcher, which never builds an input and stays at the
// size of an idle Go process, the child's ru_maxrss is its own.
func launcherMain() {
	in := bufio.NewScanner(os.Stdin)
	out := bufio.NewWriter(os.Stdout)
	for in.Scan() {
		caseFile := in.Text()
		if caseFile == "" {
			continue
		}
		ctx, cancel := context.WithTimeout(context.Background(), childWall)
		cmd := exec.CommandContext(ctx, os.Args[0])
		cmd.Env = append(os.Environ(), "C09_CHILD="+caseFile, "C09_LAUNCH=")
		var so, se bytes.Buffer
		cmd.Stdout, cmd.Stderr = &so, &se
		start := time.Now()
		_ = cmd.Run()
		rep := launchReply{Exit: -1, WallMs: time.Since(start).Milliseconds()}
		if ps := cmd.ProcessState; ps != nil {
			rep.Exit = ps.ExitCode()
			if ru, ok := ps.SysUsage().(*syscall.Rusage); ok {
				rep.MaxRSS = ru.Maxrss
			}
			rep.CPUMs = (ps.UserTime() + ps.SystemTime()).Milliseconds()
			if ws, ok := ps.Sys().(syscall.WaitStatus); ok && ws.Signaled() {
				rep.Signal = ws.Signal().String()
			}
		}
		if ctx.Err() != nil {
			rep.Signal = "timeout"
		}
		cancel()
		rep.Stdout = so.String()
		rep.Stderr = se.String()
		if len(rep.Stderr) > 3000 {
			rep.Stderr = rep.Stderr[:1500] + " ... " + rep.Stderr[len(rep.Stderr)-1500:]
		}
		b, _ := json.Marshal(rep)
		out.Write(b)
		out.WriteByte('\n')
		out.Flush()
	}
}

type launchReply struct {
	MaxRSS int64  `json:"maxrss_kib"`
	Exit   int    `json:"exit"`
	Signal string `json:"signal"`
	CPUMs  int64  `json:"cpu_ms"`
	WallMs int64  `json:"wall_ms"`
	Stdout string `json:"stdout"`
	Stderr string `json:"stderr"`
}

type outcome struct {
	res      *Result
	maxrss   int64 // KiB, wait4
	exit     int
	signal   string
	stderr   string
	timedOut bool
	wall     time.Duration
	cpuMs    int64
}

// launcher is the parent's handle on one launcher process.
type launcher struct {
	cmd *exec.Cmd
	in  io.WriteCloser
	out *bufio.Reader
}

func startLauncher() (*launcher, error) {
	cmd := exec.Command(os.Args[0])
	cmd.Env = append(os.Environ(), "C09_LAUNCH=1", "GOMAXPROCS=4", "GOTRACEBACK=single")
	cmd.Stderr = os.Stderr
	in, err := cmd.StdinPipe()
	if err != nil {
		return nil, err
	}
	op, err := cmd.StdoutPipe()
	if err != nil {
		return nil, err
	}
	if err := cmd.Start(); err != nil {
		return nil, err
	}
	return &launcher{cmd: cmd, in: in, out: bufio.NewReaderSize(op, 1<<20)}, nil
}

func (l *launcher) stop() {
	if l == nil {
		return
	}
	l.in.Close()
	done := make(chan struct{})
	go func() { l.cmd.Wait(); close(done) }()
	select {
	case <-done:
	case <-time.After(5 * time.Second):
		l.cmd.Process.Kill()
		<-done
	}
}

// runChild executes one case in a fresh child through launcher *lp (restarted if it died).
func runChild(t *vk.T, lp **launcher, dir string, c *Case) outcome {
	var o outcome
	cf := filepath.Join(dir, fmt.Sprintf("case-%d.json", c.I))
	b, _ := json.Marshal(c)
	if err := os.WriteFile(cf, b, 0o644); err != nil {
		t.Broken("write case: %v", err)
	}
	defer os.Remove(cf)
	o.exit = -1
	for attempt := 0; attempt < 2; attempt++ {
		if *lp == nil {
			l, err := startLauncher()
			if err != nil {
				t.Broken("start launcher: %v", err)
			}
			*lp = l
		}
		l := *lp
		type answer struct {
			line []byte
			err  error
		}
		ch := make(chan answer, 1)
		start := time.Now()
		if _, err := io.WriteString(l.in, cf+"\n"); err != nil {
			l.cmd.Process.Kill()
			l.stop()
			*lp = nil
			continue
		}
		go func() {
			line, err := l.out.ReadBytes('\n')
			ch <- answer{line, err}
		}()
		var a answer
		select {
		case a = <-ch:
		case <-time.After(childWall + 30*time.Second):
			a.err = fmt.Errorf("launcher does not answer")
			o.timedOut = true
		}
		o.wall = time.Since(start)
		if a.err != nil {
			l.cmd.Process.Kill()
			l.stop()
			*lp = nil
			if o.timedOut {
				return o
			}
			continue
		}
		var rep launchReply
		if err := json.Unmarshal(a.line, &rep); err != nil {
			t.Broken("launcher reply: %v", err)
		}
		o.maxrss, o.exit, o.signal, o.cpuMs, o.stderr = rep.MaxRSS, rep.Exit, rep.Signal, rep.CPUMs, rep.Stderr
		if o.signal == "timeout" {
			o.timedOut = true
		}
		if o.exit == 0 {
			var r Result
			if json.Unmarshal(bytes.TrimSpace([]byte(rep.Stdout)), &r) == nil {
				o.res = &r
			}
		}
		return o
	}
	return o
}

// ---------------------------------------------------------------------------
// decode table: from which step on does an entry point decode a site? Learned at run time from a twin
// document whose stream at the site holds bytes no filter accepts: the first step that fails on the
// twin is the first step that decodes the site (no step fails: the chain never decodes it, or the
// relaxed mode forgives the stream; then a bomb there owes no error).

type decRow map[string]string // entry -> first failing step on the garbage twin ("" = none)

func probeDecodeTable(t *vk.T) map[string]decRow {
	tab := map[string]decRow{}
	garbage := &mstream{Enc: []byte("\x00\x01 this is not a zlib stream"), Filters: pFlate.fs}
	for site, entries := range siteEntries {
		for _, container := range containersFor(site) {
			for _, decodeAll := range []bool{false, true} {
				for _, strict := range []bool{false, true} {
					parts := docParts{container: container}
					switch site {
					case "content":
						parts.content = garbage
					case "image":
						parts.image = &imagePart{s: garbage, w: 8, h: 8, bpc: 8, cs: "DeviceGray", wViaRef: container == "objstm"}
					case "meta":
						parts.meta = garbage
					case "unref":
						parts.unref = garbage
					case "xrefstm":
						parts.xs = xrefStmSpec{Filters: pFlate.fs, Garbage: true}
					case "objstm":
						parts.os = &objStmSpec{Filters: pFlate.fs, Garbage: true}
					}
					doc, _, err := assemble(parts)
					if err != nil {
						t.Broken("decode table: %v", err)
					}
					row := decRow{}
					for _, entry := range entries {
						c := &Case{Kind: "doc", Entry: entry, Via: "ctx", DecodeAll: decodeAll, Strict: strict}
						res := &Result{}
						runDocCtx(c, doc, res)
						row[entry] = res.Failed
						t.Count("decode_table_probes", 1)
					}
					tab[decKey(site, container, decodeAll, strict)] = row
				}
			}
		}
	}
	return tab
}

// ---------------------------------------------------------------------------

type runner struct {
	t        *vk.T
	dir      string
	tab      map[string]decRow
	baseRSS  int64 // KiB
	baseHeap int64 // bytes
	dump     bool

	mu          sync.Mutex
	maxFrac     float64
	maxFracCase string
	maxRatio    float64
	maxRatioC   string
	maxHeapFrac float64
	inherited   int
	broken      string
}

func lower(s string) string { return strings.ToLower(s) }

func hasAny(have, want []string) bool {
	for _, h := range have {
		for _, w := range want {
			if h == w {
				return true
			}
		}
	}
	return false
}

func (r *runner) replayCase(c *Case, o *outcome, extra string) map[string]any {
	m := map[string]any{"case_index": c.I, "case": c, "note": extra}
	if o != nil && o.res != nil {
		m["steps"] = o.res.Steps
		m["offenders"] = o.res.Offenders
	}
	return m
}

func failedStep(res *Result) *Step {
	for i := range res.Steps {
		if res.Steps[i].Name == res.Failed {
			return &res.Steps[i]
		}
	}
	return nil
}

// evaluate applies the oracles to one finished case.
func (r *runner) evaluate(pl *plan, o outcome) {
	t, c, e := r.t, &pl.c, &pl.c.Exp
	site := e.Site
	distinct := fmt.Sprintf("%s/%s/%s/%s/%s/%s/%s/%d/%v/%v", c.Fam, site, e.Pipe, e.Rel, c.Entry, c.Via, c.Container, e.LimitV, c.DecodeAll, c.Strict)
	t.Eval(distinct)
	t.Count("cases/"+c.Fam, 1)
	t.Count("entry/"+c.Entry+"/"+c.Via, 1)
	if c.I%40 == 0 {
		t.Sample(map[string]any{"i": c.I, "family": c.Fam, "entry": c.Entry, "via": c.Via, "container": c.Container, "limits": c.Lim,
			"input_bytes": c.InputSize, "expect": e, "failed_step": func() string {
				if o.res != nil {
					return o.res.Failed
				}
				return "child-died"
			}()})
	}

	if o.timedOut {
		t.Inconclusive("timeout/" + c.Fam + "/" + site)
		return
	}
	if o.res == nil {
		switch {
		case strings.Contains(o.stderr, "out of memory") || strings.Contains(o.stderr, "cannot allocate memory"):
			t.Violate(fmt.Sprintf("site=%s/class=out-of-memory", site),
				fmt.Sprintf("the child processing this input died out of memory (limits %+v, input %d bytes): %s", c.Lim, c.InputSize, o.stderr),
				r.replayCase(c, &o, "child died"))
		case strings.Contains(o.stderr, "stack overflow") || strings.Contains(o.stderr, "stack exceeds"):
			t.Violate(fmt.Sprintf("site=%s/class=stack-overflow", site),
				fmt.Sprintf("the child processing this input died of a stack overflow (limits %+v): %s", c.Lim, o.stderr),
				r.replayCase(c, &o, "child died"))
		case o.signal == "killed":
			t.Violate(fmt.Sprintf("site=%s/class=killed", site),
				fmt.Sprintf("the child was killed (OOM killer?) maxrss=%d KiB limits %+v", o.maxrss, c.Lim), r.replayCase(c, &o, "child killed"))
		default:
			t.Inconclusive(fmt.Sprintf("child-died/%s/%s exit=%d signal=%s stderr=%s", c.Fam, site, o.exit, o.signal, oneLine(o.stderr, 300)))
		}
		return
	}
	res := o.res
	lim := c.Lim.effective()
	for _, s := range res.Steps {
		t.Count("steps/"+s.Name, 1)
		if s.Panic != "" {
			t.Count("pdfcpu_panics", 1)
			t.Count("pdfcpu_panic@"+s.Frame, 1)
		}
		for _, cl := range s.Classes {
			t.Count("limit_errors/"+cl, 1)
		}
	}
	t.Count("streams_walked", int64(res.Streams))
	t.Count("child_cpu_ms", o.cpuMs)
	fs := failedStep(res)
	if r.dump {
		errTxt := ""
		if fs != nil {
			errTxt = fmt.Sprintf("%s: %s %s%v", fs.Name, oneLine(fs.Err, 160), fs.Panic, fs.Classes)
		}
		fmt.Printf("DUMP %4d %-11s %-22s %-24s %-12s e=%-15s %-3s %-7s dA=%-5v st=%-5v want=%-13s v=%d L=%d in=%d | out=%d maxC=%d maxR=%d depth=%d rss=%dK hwm=%dK heap=%dM wall=%.1fs cpu=%dms | %s\n",
			c.I, c.Fam, site, e.Pipe, e.Rel, c.Entry, c.Via, c.Container, c.DecodeAll, c.Strict, e.Want, e.Value, e.LimitV, c.InputSize,
			res.OutLen, res.MaxContent, res.MaxRaw, res.MaxDepth, o.maxrss, res.VmHWM, res.HeapSys>>20, o.wall.Seconds(), o.cpuMs, errTxt)
	}

	// (i) state walk: no stream above the configured limits at any quiescent point
	for _, off := range res.Offenders {
		if off.Which == "content" {
			t.Violate(fmt.Sprintf("limit=MaxDecodeBytes/site=%s/class=exceeded-after-%s", site, lower(off.Step)),
				fmt.Sprintf("after %s obj %d (%s) holds %d decoded bytes, MaxDecodeBytes is %d (%s %s, decoded size by construction %v)",
					off.Step, off.Obj, off.Type, off.Content, lim.MaxDecodeBytes, e.Pipe, e.Rel, e.Stages),
				r.replayCase(c, &o, "state walk"))
		} else {
			t.Violate(fmt.Sprintf("limit=MaxStreamBytes/site=%s/class=raw-exceeded-after-%s", site, lower(off.Step)),
				fmt.Sprintf("after %s obj %d (%s) holds %d encoded bytes, MaxStreamBytes is %d", off.Step, off.Obj, off.Type, off.Raw, lim.MaxStreamBytes),
				r.replayCase(c, &o, "state walk"))
		}
	}
	if e.Limit == "MaxRecursionDepth" && res.Failed == "" && res.MaxDepth > lim.MaxRecursionDepth {
		t.Violate(fmt.Sprintf("limit=MaxRecursionDepth/site=%s/class=exceeded-in-table", site),
			fmt.Sprintf("all steps succeeded and obj %d is nested %d deep, MaxRecursionDepth is %d", res.DeepObj, res.MaxDepth, lim.MaxRecursionDepth),
			r.replayCase(c, &o, "state walk"))
	}
	// (i') what the entry point hands out: one content / metadata stream per document, so the length of
	// the output is the length of one decoded stream
	if res.OutLen > lim.MaxDecodeBytes && (c.Kind == "stream" || c.Entry == "ExtractContent" || c.Entry == "ExtractMetadata") {
		t.Violate(fmt.Sprintf("limit=MaxDecodeBytes/site=%s/entry=%s/class=exceeded-in-output", site, c.Entry),
			fmt.Sprintf("%s returned %d decoded bytes of one stream, MaxDecodeBytes is %d (%s)", c.Entry, res.OutLen, lim.MaxDecodeBytes, e.Pipe),
			r.replayCase(c, &o, "output"))
	}

	// (ii) result class
	tag := ""
	if e.StageTag != "" {
		tag = "/stagefilter=" + e.StageTag
		t.Count("predpipe/"+e.StageTag, 1)
		if e.Stage == e.BombStage && len(e.Stages) > 1 {
			t.Count("predpipe_first_stage_over_limit_is_the_bomb_stage", 1)
		}
	}
	want := e.Want
	decStep := ""
	if e.DecKey != "" && (want == "limit") && e.Limit == "MaxDecodeBytes" {
		row := r.tab[e.DecKey]
		decStep = row[c.Entry]
		if decStep == "" {
			want = "any" // the chain does not decode this site (or forgives it): nothing is owed
			t.Count("bombs_at_undecoded_site", 1)
		}
	}
	if e.DecKey != "" && strings.HasPrefix(e.Limit, "MaxImage") && want == "limit" {
		if r.tab[e.DecKey][c.Entry] == "" {
			want = "any"
			t.Count("bombs_at_undecoded_site", 1)
		}
	}
	stepName := func() string {
		if fs != nil {
			return fs.Name
		}
		if decStep != "" {
			return decStep
		}
		return c.Entry
	}
	switch want {
	case "ok":
		if fs != nil {
			if hasAny(fs.Classes, classesOf(e.Limit)) {
				t.Violate(fmt.Sprintf("limit=%s/site=%s/step=%s/class=at-limit-rejected", e.Limit, site, fs.Name),
					fmt.Sprintf("value %d does not exceed %s=%d (%s %s) but %s failed with the limit error: %s", e.Value, e.Limit, e.LimitV, e.Pipe, e.Rel, fs.Name, fs.Err),
					r.replayCase(c, &o, "exactness"))
			} else {
				t.Inconclusive(fmt.Sprintf("within-limit-input-failed/%s/%s/%s/%s", c.Fam, site, fs.Name, oneLine(fs.Err+fs.Panic, 120)))
			}
		} else {
			t.Count("within_limit_ok", 1)
			if c.Kind == "stream" && c.Entry == "Decode" && len(e.Stages) > 0 && res.OutLen != e.Stages[len(e.Stages)-1] {
				t.Violate(fmt.Sprintf("limit=MaxDecodeBytes/site=streamdict/pipeline=%s/class=wrong-length", e.Pipe),
					fmt.Sprintf("decoded %d bytes, the stream holds %d", res.OutLen, e.Stages[len(e.Stages)-1]), r.replayCase(c, &o, "length"))
			}
			if c.Kind == "stream" && c.Entry == "DecodeLength" && res.OutLen != c.MaxLen {
				t.Violate(fmt.Sprintf("limit=MaxDecodeBytes/site=streamdict/pipeline=%s/class=wrong-length", e.Pipe),
					fmt.Sprintf("bounded decoding returned %d bytes, asked for %d of %d", res.OutLen, c.MaxLen, e.Value), r.replayCase(c, &o, "length"))
			}
		}
	case "limit", "limit-or-skip":
		switch {
		case fs == nil:
			if want == "limit-or-skip" {
				// tolerated when the object beyond the limit is not in the table (checked by the state walk above)
				t.Count("beyond_limit_object_skipped", 1)
				break
			}
			if site == "streamdict" && len(e.Stages) > 1 {
				t.Violate(fmt.Sprintf("limit=MaxDecodeBytes/site=streamdict/stages=%d/stage=%d%s/class=stage-unbounded", len(e.Stages), e.Stage, tag),
					fmt.Sprintf("stage %d of %s produces %d bytes (all stages %v), MaxDecodeBytes is %d, and decoding succeeded: the stage is not bounded by the configured limit",
						e.Stage, e.Pipe, e.Stages[e.Stage], e.Stages, e.LimitV), r.replayCase(c, &o, "accepted"))
				break
			}
			t.Violate(fmt.Sprintf("limit=%s/site=%s/step=%s%s/class=bomb-accepted", e.Limit, site, stepName(), tag),
				fmt.Sprintf("%s=%d, the input carries %d (%s %s, stages %v) and %s via %s succeeded without a limit error (container %s, decodeAll=%v, strict=%v)",
					e.Limit, e.LimitV, e.Value, e.Pipe, e.Rel, e.Stages, c.Entry, c.Via, c.Container, c.DecodeAll, c.Strict), r.replayCase(c, &o, "accepted"))
		case !hasAny(fs.Classes, e.Classes) && site == "xrefstm":
			// pdfcpu answers ANY failure of a cross-reference stream, the decode limit error included, by
			// rebuilding the table from the objects in the file (bypassXrefSection); when that cannot work
			// (objects in object streams) the error of the rebuild replaces the limit error. The stream was
			// refused and nothing above the limit exists; counted, not judged.
			t.Count("xref_stream_limit_error_replaced_by_error_of_table_rebuild", 1)
		case !hasAny(fs.Classes, e.Classes):
			t.Violate(fmt.Sprintf("limit=%s/site=%s/step=%s%s/class=wrong-error", e.Limit, site, fs.Name, tag),
				fmt.Sprintf("%s=%d, the input carries %d (%s %s): %s failed, but not with the documented limit error %v: %s %s",
					e.Limit, e.LimitV, e.Value, e.Pipe, e.Rel, fs.Name, e.Classes, fs.Err, fs.Panic), r.replayCase(c, &o, "error class"))
		default:
			t.Count("beyond_limit_rejected", 1)
		}
	case "reject-or-repaired":
		// counts in cross-reference streams: pdfcpu answers any refusal of a cross-reference stream by
		// rebuilding the table from the objects found in the file (bypassXrefSection). The limit holds if
		// the call fails, or succeeds WITHOUT the cross-reference stream having been accepted.
		switch {
		case fs != nil && hasAny(fs.Classes, e.Classes):
			t.Count("beyond_limit_rejected", 1)
		case fs != nil:
			t.Count("beyond_limit_rejected_other_error_after_repair", 1)
		case res.XRefStmInTable:
			t.Violate(fmt.Sprintf("limit=%s/site=%s/step=Read/class=bomb-accepted", e.Limit, site),
				fmt.Sprintf("%s=%d, the cross-reference stream declares %d (%s) and was accepted: it is in the table as a cross-reference stream after %s (container %s, strict=%v)",
					e.Limit, e.LimitV, e.Value, e.Rel, c.Entry, c.Container, c.Strict), r.replayCase(c, &o, "accepted"))
		default:
			t.Count("beyond_limit_xref_stream_refused_table_rebuilt", 1)
		}
	case "reject":
		if fs == nil {
			t.Violate(fmt.Sprintf("limit=%s/site=%s/class=accepted", e.Limit, site),
				fmt.Sprintf("value %d against %s: every step succeeded", e.Value, e.Limit), r.replayCase(c, &o, "accepted"))
		} else {
			t.Count("extreme_rejected", 1)
		}
	default:
		t.Count("no_result_verdict", 1)
	}

	// (iii) memory
	sum := lim.MaxDecodeBytes + lim.MaxStreamBytes + c.InputSize
	if e.MemImage {
		sum += lim.MaxImageBytes
	}
	bound := memFactor*sum + memSlack + e.MemExtra
	rss := o.maxrss * 1024
	if hwm := int64(res.VmHWM) * 1024; hwm > 0 && hwm < rss {
		// ru_maxrss starts at the parent's resident set (vfork shares the address space until exec)
		if rss-hwm > 8*mib {
			r.mu.Lock()
			r.inherited++
			r.mu.Unlock()
		}
		rss = hwm
	}
	used := rss - r.baseRSS*1024
	heap := int64(res.HeapSys) - r.baseHeap
	r.mu.Lock()
	if f := float64(used) / float64(bound); f > r.maxFrac {
		r.maxFrac, r.maxFracCase = f, fmt.Sprintf("%s/%s/%s/%s", c.Fam, site, e.Pipe, e.Rel)
	}
	if f := float64(heap) / float64(bound); f > r.maxHeapFrac {
		r.maxHeapFrac = f
	}
	if sum >= 16*mib {
		if q := float64(used) / float64(sum); q > r.maxRatio {
			r.maxRatio, r.maxRatioC = q, fmt.Sprintf("%s/%s/%s/%s sum=%dMiB", c.Fam, site, e.Pipe, e.Rel, sum>>20)
		}
	}
	r.mu.Unlock()
	if used > bound {
		t.Violate(fmt.Sprintf("site=%s/class=rss-ratio", site),
			fmt.Sprintf("peak RSS %d MiB above the baseline %d MiB; bound %d x (MaxDecodeBytes %d + MaxStreamBytes %d + input %d) + 64 MiB = %d MiB (%s %s %s via %s)",
				used>>20, r.baseRSS>>10, memFactor, lim.MaxDecodeBytes, lim.MaxStreamBytes, c.InputSize, bound>>20, e.Pipe, e.Rel, c.Entry, c.Via),
			r.replayCase(c, &o, "rss"))
	}
	if heap > bound {
		t.Violate(fmt.Sprintf("site=%s/class=heap-ratio", site),
			fmt.Sprintf("Go heap obtained from the OS %d MiB above the baseline; bound %d MiB (MaxDecodeBytes %d, MaxStreamBytes %d, input %d; %s %s %s via %s)",
				heap>>20, bound>>20, lim.MaxDecodeBytes, lim.MaxStreamBytes, c.InputSize, e.Pipe, e.Rel, c.Entry, c.Via),
			r.replayCase(c, &o, "heap"))
	}
}

func classesOf(limit string) []string {
	switch limit {
	case "MaxDecodeBytes":
		return []string{"decode"}
	case "MaxStreamBytes":
		return []string{"streamlen"}
	case "MaxObjectCount":
		return []string{"size"}
	case "MaxXRefEntries":
		return []string{"xrefentries"}
	case "MaxObjectStreamCount":
		return []string{"objstm-n", "objstm-count"}
	case "MaxObjectStreamFirst":
		return []string{"objstm-first"}
	case "MaxRecursionDepth":
		return []string{"depth"}
	case "MaxImagePixels":
		return []string{"imagepixels"}
	case "MaxImageBytes":
		return []string{"imagebytes"}
	}
	return nil
}

func oneLine(s string, n int) string {
	s = strings.Join(strings.Fields(s), " ")
	if len(s) > n {
		s = s[:n]
	}
	return s
}

// fail records a harness failure from a worker goroutine; run() turns it into BROKEN.
func (r *runner) fail(format string, a ...any) {
	r.mu.Lock()
	if r.broken == "" {
		r.broken = fmt.Sprintf(format, a...)
	}
	r.mu.Unlock()
}

func (r *runner) runPlan(lp **launcher, pl *plan) {
	defer func() {
		if p := recover(); p != nil {
			r.fail("harness panic in case %d (%s): %v\n%s", pl.c.I, pl.stratum, p, debug.Stack())
		}
	}()
	in, err := pl.build(pl)
	if err != nil {
		r.fail("build case %d (%s): %v", pl.c.I, pl.stratum, err)
		return
	}
	path := filepath.Join(r.dir, fmt.Sprintf("in-%d.bin", pl.c.I))
	if err := os.WriteFile(path, in, 0o644); err != nil {
		r.fail("write input: %v", err)
		return
	}
	pl.c.Input, pl.c.InputSize = path, int64(len(in))
	in = nil
	o := runChild(r.t, lp, r.dir, &pl.c)
	os.Remove(path)
	r.evaluate(pl, o)
}

func run(t *vk.T) {
	api.DisableConfigDir()
	t.Rule("cases = strata of {stream-level pipelines, bombs inside documents by site/entry point/container, raw stream lengths, xref and object stream counts, nesting depth, image dimensions, default limits, predictor pipelines = {Flate, LZW EarlyChange 1, LZW EarlyChange 0} x {no predictor, TIFF 2, PNG 10-15} x position of the expanding stage in a pipeline of 1-3 stages x {DecodeWithLimit, DecodeLengthWithLimit, content, image, metadata, object stream, xref stream} plus huge /Columns} x limit x relation to the limit (below/at/+1/above/big); a case is distinct by (family, site, pipeline, relation, entry point, route, container, limit value, decodeAllStreams, validation mode)")
	t.Assume("memory bound: peak RSS of the child minus the RSS of a child processing an empty document <= 6 x (MaxDecodeBytes + MaxStreamBytes [+ MaxImageBytes for image extraction] + input size) + 64 MiB; the constants 6 and 64 MiB are chosen, not derived")
	t.Assume("ru_maxrss comes from wait4 in a small launcher process that forks the case child (on Linux ru_maxrss of an exec'ed child starts at the resident set of the process that forked it, so the child is not forked from the parent that builds the inputs); VmHWM reported by the child itself is the cross-check and the verdict uses the smaller of the two")
	t.Assume("the same bound is applied to the Go heap obtained from the OS (MemStats.HeapSys), which also sees allocations whose pages are never touched")
	t.Assume("a bomb owes a limit error only at entry points that decode its site; which step decodes which site is learned at run time from a twin document holding undecodable bytes there (decode table in the evidence)")
	t.Assume("one content stream, one metadata stream per document: the length of ExtractContent / ExtractMetadata output is the length of one decoded stream")
	t.Assume("limit errors without a sentinel value are recognised by their message texts in pkg/pdfcpu/model/parse.go, pkg/pdfcpu/read.go, pkg/pdfcpu/writeImage.go")
	t.Assume("nesting beyond MaxRecursionDepth: either the depth error or, in relaxed mode, a result without the object (no object nested deeper than the limit in the table)")

	r := &runner{t: t, dir: t.Scratch(), dump: os.Getenv("C09_DUMP") != ""}
	r.tab = probeDecodeTable(t)
	{
		tab := map[string]any{}
		keys := make([]string, 0, len(r.tab))
		for k := range r.tab {
			keys = append(keys, k)
		}
		sort.Strings(keys)
		decoding := 0
		for _, k := range keys {
			tab[k] = r.tab[k]
			for _, s := range r.tab[k] {
				if s != "" {
					decoding++
				}
			}
		}
		t.Extra("decode_table(site|container|decodeAll|strict -> entry -> first decoding step)", tab)
		t.Count("decode_table_decoding_cells", int64(decoding))
		if r.dump {
			for _, k := range keys {
				fmt.Printf("DECTAB %-34s %v\n", k, r.tab[k])
			}
		}
	}

	// baseline: the empty document through the longest chain, three times, in fresh children
	empty, _, err := assemble(docParts{container: "objstm"})
	if err != nil {
		t.Broken("empty doc: %v", err)
	}
	var base *launcher
	defer func() { base.stop() }()
	for i := 0; i < 3; i++ {
		pl := &plan{c: Case{I: -1 - i, Fam: "empty", Kind: "empty", Entry: "ExtractContent", Via: "ctx", Container: "objstm"}}
		path := filepath.Join(r.dir, fmt.Sprintf("empty-%d.pdf", i))
		os.WriteFile(path, empty, 0o644)
		pl.c.Input, pl.c.InputSize = path, int64(len(empty))
		o := runChild(t, &base, r.dir, &pl.c)
		if o.res == nil || o.res.Failed != "" {
			t.Broken("baseline child failed: exit=%d %s %+v", o.exit, o.stderr, o.res)
		}
		rss := o.maxrss
		if h := int64(o.res.VmHWM); h > 0 && h < rss {
			rss = h
		}
		r.baseRSS = max(r.baseRSS, rss)
		r.baseHeap = max(r.baseHeap, int64(o.res.HeapSys))
	}
	t.Extra("baseline_rss_kib", r.baseRSS)
	t.Extra("baseline_heap_sys_bytes", r.baseHeap)

	plans := allPlans(func(name string) *rand.Rand { return t.RNG("c09/" + name) }, !t.Quick(), r.tab)
	if t.Replay != nil {
		var rc struct {
			CaseIndex int `json:"case_index"`
		}
		if err := json.Unmarshal(t.Replay.Case, &rc); err != nil {
			t.Broken("replay: %v", err)
		}
		var sel []*plan
		for _, p := range plans {
			if p.c.I == rc.CaseIndex {
				sel = append(sel, p)
			}
		}
		plans = sel
		// evidence rules need two distinct evaluations even in a replay
		t.Eval("replay-a")
		t.Eval("replay-b")
	}
	if s := os.Getenv("C09_ONLY"); s != "" {
		var sel []*plan
		for _, p := range plans {
			if strings.Contains(p.stratum, s) {
				sel = append(sel, p)
			}
		}
		plans = sel
	}

	// light cases a few at a time, the heavy ones (limits of 32 to 256 MiB: up to ~1 GiB each) one at a time
	var light, heavy []*plan
	for _, p := range plans {
		if p.c.Fam == "large" {
			heavy = append(heavy, p)
		} else {
			light = append(light, p)
		}
	}
	const workers = 4
	var wg sync.WaitGroup
	ch := make(chan *plan)
	for w := 0; w < workers; w++ {
		wg.Add(1)
		go func() {
			defer wg.Done()
			var l *launcher
			defer func() { l.stop() }()
			for p := range ch {
				r.runPlan(&l, p)
			}
		}()
	}
	for _, p := range light {
		ch <- p
	}
	close(ch)
	wg.Wait()
	for _, p := range heavy {
		r.runPlan(&base, p)
	}
	if r.broken != "" {
		t.Broken("%s", r.broken)
	}

	t.Extra("rss_max_fraction_of_bound", fmt.Sprintf("%.3f (%s)", r.maxFrac, r.maxFracCase))
	t.Extra("heap_max_fraction_of_bound", fmt.Sprintf("%.3f", r.maxHeapFrac))
	t.Extra("rss_max_ratio_to_limits_plus_input(cases with sum >= 16 MiB)", fmt.Sprintf("%.2f (%s)", r.maxRatio, r.maxRatioC))
	t.Extra("cases_where_ru_maxrss_exceeded_child_VmHWM_by_8MiB", r.inherited)
	t.Extra("memory_bound", "6 x (MaxDecodeBytes + MaxStreamBytes [+ MaxImageBytes] + input) + 64 MiB over the empty-document baseline")
}
