package main

import (
	"errors"
	"strings"

	"github.com/pdfcpu/pdfcpu/pkg/filter"
	"github.com/pdfcpu/pdfcpu/pkg/pdfcpu/model"
)

// Limits mirrors model.ResourceLimits; a zero field means "leave the default".
type Limits struct {
	D  int64 `json:"MaxDecodeBytes,omitempty"`
	S  int64 `json:"MaxStreamBytes,omitempty"`
	Px int64 `json:"MaxImagePixels,omitempty"`
	Ib int64 `json:"MaxImageBytes,omitempty"`
	Oc int   `json:"MaxObjectCount,omitempty"`
	On int   `json:"MaxObjectStreamCount,omitempty"`
	Of int64 `json:"MaxObjectStreamFirst,omitempty"`
	Xe int   `json:"MaxXRefEntries,omitempty"`
	Rd int   `json:"MaxRecursionDepth,omitempty"`
}

func (l Limits) apply(r *model.ResourceLimits) {
	if l.D != 0 {
		r.MaxDecodeBytes = l.D
	}
	if l.S != 0 {
		r.MaxStreamBytes = l.S
	}
	if l.Px != 0 {
		r.MaxImagePixels = l.Px
	}
	if l.Ib != 0 {
		r.MaxImageBytes = l.Ib
	}
	if l.Oc != 0 {
		r.MaxObjectCount = l.Oc
	}
	if l.On != 0 {
		r.MaxObjectStreamCount = l.On
	}
	if l.Of != 0 {
		r.MaxObjectStreamFirst = l.Of
	}
	if l.Xe != 0 {
		r.MaxXRefEntries = l.Xe
	}
	if l.Rd != 0 {
		r.MaxRecursionDepth = l.Rd
	}
}

func (l Limits) effective() model.ResourceLimits {
	r := model.DefaultResourceLimits()
	l.apply(&r)
	return r
}

// FilterJ is one stage of a stream-level case.
type FilterJ struct {
	Name  string         `json:"name"`
	Parms map[string]int `json:"parms,omitempty"`
}

// Expect is what the generator knows about a case (ground truth by construction).
type Expect struct {
	// Want: "ok" = must succeed; "limit" = must fail with one of Classes (if the entry point decodes
	// the site, see DecKey); "any" = no verdict on the result, only state walk and memory.
	Want    string   `json:"want"`
	Classes []string `json:"classes,omitempty"`
	Limit   string   `json:"limit,omitempty"` // name of the limit under test
	Site    string   `json:"site,omitempty"`
	Pipe    string   `json:"pipeline,omitempty"`
	Stages  []int64  `json:"stage_out,omitempty"` // output size of every decode stage
	Stage   int      `json:"stage,omitempty"`     // first stage whose output exceeds the limit (-1: none)
	Rel     string   `json:"rel,omitempty"`       // below | at | plus1 | above | big
	Value   int64    `json:"value,omitempty"`     // the value put against the limit (decoded size, /Size, depth ...)
	LimitV  int64    `json:"limit_value,omitempty"`
	// DecKey, when set, names the row of the decode table (site|container|decodeAll|strict) that says
	// from which step on the entry point decodes the site.
	DecKey string `json:"deckey,omitempty"`
	// MemLimits are the limits that enter the memory bound besides MaxDecodeBytes and MaxStreamBytes.
	MemImage bool `json:"mem_image,omitempty"`
	// MemExtra: bytes the declared counts may legitimately cost while they stay within their limits
	// (16 bytes per cross-reference entry declared and admitted by MaxObjectCount / MaxXRefEntries).
	MemExtra int64 `json:"mem_extra,omitempty"`
	// StageTag (family predpipe): filter and predictor family of the stage built to exceed the limit,
	// e.g. "LZW+png"; part of the violation keys. BombStage is the index of that stage.
	StageTag  string `json:"stage_tag,omitempty"`
	BombStage int    `json:"bomb_stage,omitempty"`
}

// Case is one unit of work for a child process.
type Case struct {
	I         int       `json:"i"`
	Fam       string    `json:"family"`
	Kind      string    `json:"kind"` // doc | stream | empty
	Input     string    `json:"input"`
	InputSize int64     `json:"input_size"`
	Entry     string    `json:"entry"` // Read Validate Optimize ExtractImages ExtractContent ExtractMetadata | Decode DecodeLength
	Via       string    `json:"via"`   // ctx (context steps with a state walk) | api (the rs-based pkg/api entry point)
	Container string    `json:"container,omitempty"`
	Lim       Limits    `json:"limits"`
	DecodeAll bool      `json:"decode_all,omitempty"`
	Strict    bool      `json:"strict,omitempty"`
	Filters   []FilterJ `json:"filters,omitempty"`
	MaxLen    int64     `json:"max_len,omitempty"`
	Desc      string    `json:"desc,omitempty"`
	Exp       Expect    `json:"expect"`
}

// Step is the outcome of one step of a case inside the child.
type Step struct {
	Name    string   `json:"name"`
	Err     string   `json:"err,omitempty"`
	Classes []string `json:"classes,omitempty"`
	Panic   string   `json:"panic,omitempty"`
	Frame   string   `json:"frame,omitempty"`
}

// Offender is a stream found above a limit by the state walk.
type Offender struct {
	Step    string `json:"step"`
	Obj     int    `json:"obj"`
	Type    string `json:"type"`
	Raw     int64  `json:"raw"`
	Content int64  `json:"content"`
	Which   string `json:"which"` // content | raw
}

// Result is what a child reports.
type Result struct {
	Steps      []Step     `json:"steps"`
	Failed     string     `json:"failed,omitempty"`
	MaxContent int64      `json:"max_content"`
	MaxRaw     int64      `json:"max_raw"`
	MaxDepth   int        `json:"max_depth"`
	Streams    int        `json:"streams"`
	Offenders  []Offender `json:"offenders,omitempty"`
	DeepObj    int        `json:"deep_obj,omitempty"`
	OutLen     int64      `json:"out_len"`
	Outputs    int        `json:"outputs"`
	HeapSys    uint64     `json:"heap_sys"`
	TotalAlloc uint64     `json:"total_alloc"`
	VmHWM      uint64     `json:"vm_hwm_kib"`
	// XRefStmInTable: right after reading some table entry is a types.XRefStreamDict, i.e. a cross-reference stream was accepted
	XRefStmInTable bool `json:"xrefstm_in_table"`
	TableLen       int  `json:"table_len"`
}

// limitClasses names every documented limit error err belongs to. Sentinel errors are matched with
// errors.Is, the limits that only have message texts by those texts (pkg/pdfcpu/model/parse.go,
// pkg/pdfcpu/read.go, pkg/pdfcpu/writeImage.go, pkg/pdfcpu/model/image.go).
func limitClasses(err error) []string {
	if err == nil {
		return nil
	}
	var out []string
	if errors.Is(err, filter.ErrDecodeLimitExceeded) {
		out = append(out, "decode")
	}
	if errors.Is(err, model.ErrMaxRecursionDepthExceeded) {
		out = append(out, "depth")
	}
	s := err.Error()
	has := func(a ...string) bool {
		for _, x := range a {
			if !strings.Contains(s, x) {
				return false
			}
		}
		return true
	}
	if has("\"Size\"", "exceeds limit") {
		out = append(out, "size")
	}
	if has("xref entry count", "exceeds limit") {
		out = append(out, "xrefentries")
	}
	if has("object stream N", "exceeds limit") {
		out = append(out, "objstm-n")
	}
	if has("object stream First", "exceeds limit") {
		out = append(out, "objstm-first")
	}
	if has("object stream object count", "exceeds limit") {
		out = append(out, "objstm-count")
	}
	if has("stream length", "exceeds maximum supported length") {
		out = append(out, "streamlen")
	}
	if has("exceeds maximum blind read length") {
		out = append(out, "streamlen")
	}
	if has("pixel count", "exceeds limit") {
		out = append(out, "imagepixels")
	}
	if has("image", "byte size", "exceeds limit") {
		out = append(out, "imagebytes")
	}
	return out
}
