package main

// Case generation. Every family enumerates a candidate space (cartesian product of its dimensions),
// groups it into strata, shuffles with the run's PRNG and draws its quota round-robin over the
// strata, so the quick tier touches every stratum before repeating one. Inputs are built lazily
// (plan.build) right before the child runs; ground truth (stage output sizes, true counts) comes
// from the construction, never from reading the file back.

import (
	"bytes"
	"compress/zlib"
	"fmt"
	"math/rand/v2"
	"sort"

	"verif/harness/internal/pdfgen"
)

const (
	kib = int64(1) << 10
	mib = int64(1) << 20
)

const defaultLimit = 512 * mib // model.DefaultResourceLimits().MaxDecodeBytes / MaxStreamBytes

type plan struct {
	c       Case
	stratum string
	build   func(p *plan) ([]byte, error)
}

// ---------------------------------------------------------------------------
// pipelines

type pipe struct {
	name string
	fs   []pdfgen.FilterSpec
	// trailAt > 0: the "intermediate result larger than the final one" variant is available with
	// filler in front of / behind the input of stage trailAt.
	trailAt int
	// trailExact: the cross-reference stream writer puts the filler at trailAt too (else at its last stage)
	trailExact bool
}

func fk(ks ...pdfgen.FilterKind) []pdfgen.FilterSpec {
	out := make([]pdfgen.FilterSpec, len(ks))
	for i, k := range ks {
		out[i] = pdfgen.FilterSpec{Kind: k}
	}
	return out
}

var (
	pFlate = pipe{name: "Flate", fs: fk(pdfgen.Flate)}
	pipes1 = []pipe{
		pFlate,
		{name: "LZW", fs: fk(pdfgen.LZW)},
		{name: "RunLength", fs: fk(pdfgen.RunLength)},
		{name: "ASCIIHex", fs: fk(pdfgen.ASCIIHex)},
		{name: "ASCII85", fs: fk(pdfgen.ASCII85)},
	}
	pipes2 = []pipe{
		{name: "Flate+Flate", fs: fk(pdfgen.Flate, pdfgen.Flate), trailAt: 1},
		{name: "ASCIIHex+Flate", fs: fk(pdfgen.ASCIIHex, pdfgen.Flate)},
		{name: "ASCII85+LZW", fs: fk(pdfgen.ASCII85, pdfgen.LZW)},
		{name: "Flate+ASCIIHex", fs: fk(pdfgen.Flate, pdfgen.ASCIIHex), trailAt: 1},
		{name: "Flate+ASCII85", fs: fk(pdfgen.Flate, pdfgen.ASCII85), trailAt: 1},
		{name: "Flate+RunLength", fs: fk(pdfgen.Flate, pdfgen.RunLength), trailAt: 1},
		{name: "RunLength+Flate", fs: fk(pdfgen.RunLength, pdfgen.Flate), trailAt: 1},
		{name: "LZW+Flate", fs: fk(pdfgen.LZW, pdfgen.Flate), trailAt: 1},
	}
	pipes3 = []pipe{
		{name: "Flate+LZW+RunLength", fs: fk(pdfgen.Flate, pdfgen.LZW, pdfgen.RunLength)},
		{name: "ASCII85+Flate+Flate", fs: fk(pdfgen.ASCII85, pdfgen.Flate, pdfgen.Flate), trailAt: 2},
		{name: "ASCIIHex+Flate+ASCIIHex", fs: fk(pdfgen.ASCIIHex, pdfgen.Flate, pdfgen.ASCIIHex), trailAt: 2},
		{name: "Flate+Flate+Flate", fs: fk(pdfgen.Flate, pdfgen.Flate, pdfgen.Flate), trailAt: 1},
	}
)

func allPipes() []pipe {
	out := append([]pipe{}, pipes1...)
	out = append(out, pipes2...)
	return append(out, pipes3...)
}

func (p pipe) streamable() bool {
	l := p.fs[len(p.fs)-1]
	return l.Kind == pdfgen.Flate && l.Predictor <= 1
}

func filtersJ(fs []pdfgen.FilterSpec) []FilterJ {
	var out []FilterJ
	for _, f := range fs {
		j := FilterJ{Name: string(f.Kind.PDFName())}
		for _, e := range f.Parms() {
			if v, ok := e.Val.(pdfgen.Int); ok {
				if j.Parms == nil {
					j.Parms = map[string]int{}
				}
				j.Parms[string(e.Key)] = int(v)
			}
		}
		out = append(out, j)
	}
	return out
}

// encodePayload encodes prefix followed by fill bytes up to n bytes in total through fs.
func encodePayload(prefix []byte, fill byte, n int64, p pipe, trail int) ([]byte, []int64, error) {
	if n < int64(len(prefix)) {
		n = int64(len(prefix))
	}
	if n <= 32*mib || !p.streamable() {
		payload := make([]byte, n)
		copy(payload, prefix)
		if fill != 0 {
			for i := len(prefix); i < len(payload); i++ {
				payload[i] = fill
			}
		}
		return encodeStages(payload, p.fs, p.trailAt, trail)
	}
	// large: deflate the last stage by streaming
	var b bytes.Buffer
	w, _ := zlib.NewWriterLevel(&b, zlib.BestCompression)
	w.Write(prefix)
	chunk := bytes.Repeat([]byte{fill}, 1<<16)
	for left := n - int64(len(prefix)); left > 0; {
		k := min(left, int64(len(chunk)))
		w.Write(chunk[:k])
		left -= k
	}
	w.Close()
	data := b.Bytes()
	k := len(p.fs)
	if trail > 0 && p.trailAt == k-1 {
		data = addFiller(data, p.fs[k-1].Kind, trail)
	}
	enc, out, err := encodeStages(data, p.fs[:k-1], p.trailAt, trail)
	if err != nil {
		return nil, nil, err
	}
	if k == 1 {
		enc = data
	}
	return enc, append(out, n), nil
}

func firstOver(stages []int64, limit int64) int {
	for i, s := range stages {
		if s > limit {
			return i
		}
	}
	return -1
}

func maxOf(v []int64) int64 {
	var m int64
	for _, x := range v {
		m = max(m, x)
	}
	return m
}

// sizeFor translates a relation to the limit into a decoded size.
func sizeFor(rel string, L int64, bigCap int64) int64 {
	switch rel {
	case "below":
		return L / 2
	case "at":
		return L
	case "plus1":
		return L + 1
	case "above":
		return 3*L + 5
	case "big":
		return min(max(256*L, mib), bigCap)
	}
	return L
}

func nextPow2(v int64) int64 {
	p := int64(4 * kib)
	for p < v {
		p *= 2
	}
	return p
}

// ---------------------------------------------------------------------------
// documents

const xmpHead = `<?xpacket begin="" id="W5M0MpCehiHzreSzNTczkc9d"?><x:xmpmeta xmlns:x="adobe:ns:meta/"><rdf:RDF xmlns:rdf="http://www.w3.org/1999/02/22-rdf-syntax-ns#"><rdf:Description rdf:about="" xmlns:pdf="http://ns.adobe.com/pdf/1.3/"><pdf:Producer>c09</pdf:Producer></rdf:Description></rdf:RDF></x:xmpmeta>`
const xmpTail = `<?xpacket end="w"?>`

type imagePart struct {
	s       *mstream
	w, h    int64
	bpc     int
	cs      string
	wViaRef bool // /Width is a reference to an integer object (which may sit in the object stream)
}

type docParts struct {
	content   *mstream
	image     *imagePart
	meta      *mstream
	unref     *mstream
	nested    []byte // serialised nested object
	container string // classic | xrefstm | objstm
	xs        xrefStmSpec
	os        *objStmSpec
	extraObjs int // additional small dictionaries (to reach an object count)
}

func plainStream(data []byte) *mstream { return &mstream{Enc: data} }

func contentPrefix(withImage bool) []byte {
	if withImage {
		return []byte("q 100 0 0 100 0 0 cm /Im0 Do Q\n")
	}
	return []byte("q Q\n")
}

// assemble builds the standard one-page document around the parts.
func assemble(p docParts) ([]byte, *mlayout, error) {
	d := &mdoc{Root: 1, Classic: p.container == "classic", XS: p.xs}
	inStm := p.container == "objstm"
	if inStm {
		d.OS = p.os
		if d.OS == nil {
			d.OS = &objStmSpec{Filters: fk(pdfgen.Flate)}
		}
	}
	cat := pdfgen.D("Type", pdfgen.Name("Catalog"), "Pages", pdfgen.Ref{Num: 2})
	res := pdfgen.D()
	if p.image != nil {
		res = pdfgen.D("XObject", pdfgen.D("Im0", pdfgen.Ref{Num: 5}))
	}
	page := pdfgen.D("Type", pdfgen.Name("Page"), "Parent", pdfgen.Ref{Num: 2}, "MediaBox", pdfgen.Rect(0, 0, 200, 200),
		"Contents", pdfgen.Ref{Num: 4}, "Resources", res)
	content := p.content
	if content == nil {
		content = plainStream(contentPrefix(p.image != nil))
	}
	if p.meta != nil {
		cat.Set("Metadata", pdfgen.Ref{Num: 6})
	}
	d.Objs = append(d.Objs,
		mobj{Num: 1, Dict: cat, InStm: inStm},
		mobj{Num: 2, Dict: pdfgen.D("Type", pdfgen.Name("Pages"), "Kids", pdfgen.Array{pdfgen.Ref{Num: 3}}, "Count", 1), InStm: inStm},
		mobj{Num: 3, Dict: page, InStm: inStm},
		mobj{Num: 4, Dict: pdfgen.D(), Stream: content},
	)
	next := 10
	if p.image != nil {
		im := p.image
		dict := pdfgen.D("Type", pdfgen.Name("XObject"), "Subtype", pdfgen.Name("Image"), "Width", pdfgen.Int(im.w),
			"Height", pdfgen.Int(im.h), "BitsPerComponent", pdfgen.Int(im.bpc), "ColorSpace", pdfgen.Name(im.cs))
		if im.wViaRef {
			dict.Set("Width", pdfgen.Ref{Num: 9})
			d.Objs = append(d.Objs, mobj{Num: 9, Raw: []byte(fmt.Sprint(im.w)), InStm: inStm})
		}
		d.Objs = append(d.Objs, mobj{Num: 5, Dict: dict, Stream: im.s})
	}
	if p.meta != nil {
		d.Objs = append(d.Objs, mobj{Num: 6, Dict: pdfgen.D("Type", pdfgen.Name("Metadata"), "Subtype", pdfgen.Name("XML")), Stream: p.meta})
	}
	if p.unref != nil {
		d.Objs = append(d.Objs, mobj{Num: 7, Dict: pdfgen.D(), Stream: p.unref})
	}
	if p.nested != nil {
		d.Objs = append(d.Objs, mobj{Num: 8, Raw: p.nested, InStm: inStm})
	}
	for i := 0; i < p.extraObjs; i++ {
		d.Objs = append(d.Objs, mobj{Num: next, Dict: pdfgen.D("K", pdfgen.Int(i)), InStm: inStm})
		next++
	}
	return d.write()
}

// ---------------------------------------------------------------------------
// selection

func pickStrata(rng *rand.Rand, cands []*plan, quota int) []*plan {
	groups := map[string][]*plan{}
	var keys []string
	for _, c := range cands {
		if _, ok := groups[c.stratum]; !ok {
			keys = append(keys, c.stratum)
		}
		groups[c.stratum] = append(groups[c.stratum], c)
	}
	sort.Strings(keys)
	rng.Shuffle(len(keys), func(i, j int) { keys[i], keys[j] = keys[j], keys[i] })
	for _, k := range keys {
		g := groups[k]
		rng.Shuffle(len(g), func(i, j int) { g[i], g[j] = g[j], g[i] })
	}
	var out []*plan
	for round := 0; len(out) < quota; round++ {
		took := false
		for _, k := range keys {
			if g := groups[k]; round < len(g) {
				out = append(out, g[round])
				took = true
				if len(out) == quota {
					break
				}
			}
		}
		if !took {
			break
		}
	}
	return out
}

type genCtx struct {
	thorough bool
	bigCap   int64   // largest decoded size of a bomb whose last stage is Flate (generated by streaming)
	slowCap  int64   // largest decoded size where a stage is LZW / ASCIIHex / ASCII85 / RunLength (slow in pdfcpu and here)
	dLimits  []int64 // MaxDecodeBytes values for every pipeline
	dLarge   []int64 // ... for pipelines of Flate stages only
	// decodes (from the decode table): does the entry point decode the site on this route?
	decodes func(site, container string, decodeAll, strict bool, entry string) bool
}

func newGenCtx(thorough bool) *genCtx {
	g := &genCtx{thorough: thorough, bigCap: 8 * mib, slowCap: mib, dLimits: []int64{4 * kib, 64 * kib, mib}, dLarge: []int64{4 * mib}}
	if thorough {
		g.bigCap, g.slowCap = 64*mib, 4*mib
		g.dLimits = []int64{4 * kib, 32 * kib, 64 * kib, 256 * kib, mib}
		g.dLarge = []int64{4 * mib, 16 * mib, 64 * mib}
	}
	return g
}

func (p pipe) flateOnly() bool {
	for _, f := range p.fs {
		if f.Kind != pdfgen.Flate {
			return false
		}
	}
	return true
}

// limitsFor lists the MaxDecodeBytes values a pipeline is run against.
func (g *genCtx) limitsFor(p pipe) []int64 {
	if p.flateOnly() {
		return append(append([]int64{}, g.dLimits...), g.dLarge...)
	}
	return g.dLimits
}

func relCap(p pipe, rel string, L int64, g *genCtx) (int64, bool) {
	n := sizeFor(rel, L, g.bigCap)
	if rel == "big" && n <= 3*L+5 {
		return 0, false // no bigger than "above"
	}
	if !p.flateOnly() && n > g.slowCap {
		if rel != "big" {
			return 0, false
		}
		n = g.slowCap
		if n <= 3*L+5 {
			return 0, false
		}
	}
	return n, true
}

// ---------------------------------------------------------------------------
// family F1: stream level, types.StreamDict.DecodeWithLimit / DecodeLengthWithLimit

func (g *genCtx) famStream() []*plan {
	var out []*plan
	rels := []string{"at", "plus1", "above", "big", "below"}
	for _, p := range allPipes() {
		for _, L := range g.limitsFor(p) {
			for _, rel := range rels {
				n, ok := relCap(p, rel, L, g)
				if !ok {
					continue
				}
				for _, op := range []string{"Decode", "DecodeLength"} {
					if op == "DecodeLength" && (rel == "big" || rel == "below") {
						continue
					}
					pl := &plan{stratum: fmt.Sprintf("stream/%s/%s/%s", p.name, rel, op)}
					pl.c = Case{Fam: "stream", Kind: "stream", Entry: op, Lim: Limits{D: L}, Filters: filtersJ(p.fs),
						Exp: Expect{Limit: "MaxDecodeBytes", Site: "streamdict", Pipe: p.name, Rel: rel, Value: n, LimitV: L}}
					if op == "DecodeLength" {
						// bound the last stage by a prefix length below the limit; earlier stages stay under the limit
						pl.c.MaxLen = min(n, L) / 2
					}
					p, n, L, op := p, n, L, op
					pl.build = func(pl *plan) ([]byte, error) {
						enc, stages, err := encodePayload([]byte("BT ET\n"), '\n', n, p, 0)
						if err != nil {
							return nil, err
						}
						e := &pl.c.Exp
						e.Stages = stages
						if op == "DecodeLength" {
							// the last stage is bounded by MaxLen, only the earlier stages by the limit
							e.Stage = firstOver(stages[:len(stages)-1], L)
						} else {
							e.Stage = firstOver(stages, L)
						}
						if e.Stage >= 0 {
							e.Want, e.Classes = "limit", []string{"decode"}
						} else {
							e.Want = "ok"
						}
						return enc, nil
					}
					out = append(out, pl)
				}
			}
			// intermediate result above the limit, final result far below it
			if p.trailAt > 0 {
				for _, rel := range []string{"at", "plus1", "above"} {
					m := sizeFor(rel, L, g.bigCap)
					pl := &plan{stratum: fmt.Sprintf("stream/%s/intermediate-%s", p.name, rel)}
					pl.c = Case{Fam: "stream", Kind: "stream", Entry: "Decode", Lim: Limits{D: L}, Filters: filtersJ(p.fs),
						Exp: Expect{Limit: "MaxDecodeBytes", Site: "streamdict", Pipe: p.name, Rel: "intermediate-" + rel, Value: m, LimitV: L}}
					p, m, L := p, m, L
					pl.build = func(pl *plan) ([]byte, error) {
						final := []byte("BT ET\n")
						// encode once without filler to learn the size of the stage input, then add the filler that
						// brings the output of stage trailAt-1 to exactly m bytes
						_, st0, err := encodeStages(final, p.fs, 0, 0)
						if err != nil {
							return nil, err
						}
						trail := int(m - st0[p.trailAt-1])
						if trail <= 0 {
							return nil, fmt.Errorf("no room for filler")
						}
						enc, stages, err := encodeStages(final, p.fs, p.trailAt, trail)
						if err != nil {
							return nil, err
						}
						e := &pl.c.Exp
						e.Stages = stages
						e.Stage = firstOver(stages, L)
						if e.Stage >= 0 {
							e.Want, e.Classes = "limit", []string{"decode"}
						} else {
							e.Want = "ok"
						}
						return enc, nil
					}
					out = append(out, pl)
				}
			}
		}
	}
	// predictor rows
	type pr struct {
		name              string
		pred, colors, bpc int
	}
	for _, q := range []pr{{"png-up", 12, 1, 8}, {"png-opt", 15, 3, 8}, {"tiff", 2, 3, 8}, {"png-paeth16", 14, 1, 16}} {
		for _, L := range g.dLimits {
			if L > 16*mib {
				continue
			}
			for _, rel := range []string{"at", "plus1", "above", "huge"} {
				for _, rows := range []int{1, 3} {
					if rel == "huge" && rows > 1 {
						continue
					}
					pl := &plan{stratum: fmt.Sprintf("stream/predictor-%s/%s", q.name, rel)}
					q, L, rel, rows := q, L, rel, rows
					unit := int64(q.colors * q.bpc / 8)
					var cols, n int64
					switch rel {
					case "at":
						cols = L / unit / int64(rows)
						n = cols * unit * int64(rows)
						if n != L {
							continue
						}
					case "plus1":
						// one row more than fits / one column more than fits
						cols = L/unit/int64(rows) + 1
						n = cols * unit * int64(rows)
					case "above":
						cols = 3 * L / unit
						n = cols * unit * int64(rows)
					case "huge":
						cols = 1_000_000_000
						n = 65
					}
					pl.c = Case{Fam: "stream", Kind: "stream", Entry: "Decode", Lim: Limits{D: L},
						Exp: Expect{Limit: "MaxDecodeBytes", Site: "streamdict", Pipe: "Flate(" + q.name + ")", Rel: "row-" + rel, Value: n, LimitV: L}}
					pl.build = func(pl *plan) ([]byte, error) {
						f := pdfgen.FilterSpec{Kind: pdfgen.Flate, Predictor: q.pred, Colors: q.colors, BPC: q.bpc, Columns: int(cols)}
						e := &pl.c.Exp
						if rel == "huge" {
							// a few bytes of data under a row of 10^9 columns: must be refused before a row buffer exists
							s := pdfgen.PredictorBomb(cols, q.colors, q.bpc)
							pl.c.Filters = []FilterJ{{Name: "FlateDecode", Parms: map[string]int{"Predictor": 12, "Columns": int(cols), "Colors": q.colors, "BitsPerComponent": q.bpc}}}
							e.Stages, e.Stage = []int64{cols * unit}, 0
							e.Want, e.Classes = "limit", []string{"decode"}
							return s.Data, nil
						}
						pl.c.Filters = filtersJ([]pdfgen.FilterSpec{f})
						enc, err := pdfgen.EncodeStage(make([]byte, n), f)
						if err != nil {
							return nil, err
						}
						e.Stages = []int64{n}
						e.Stage = firstOver(e.Stages, L)
						if e.Stage >= 0 {
							e.Want, e.Classes = "limit", []string{"decode"}
						} else {
							e.Want = "ok"
						}
						return enc, nil
					}
					out = append(out, pl)
				}
			}
		}
	}
	return out
}

// ---------------------------------------------------------------------------
// family F2: decode bombs inside documents

var siteEntries = map[string][]string{
	"content": {"Read", "Validate", "Optimize", "ExtractContent"},
	"image":   {"Read", "Optimize", "ExtractImages"},
	"meta":    {"Read", "Validate", "ExtractMetadata"},
	"unref":   {"Read", "Optimize"},
	"xrefstm": {"Read", "Validate", "Optimize"},
	"objstm":  {"Read", "Validate", "Optimize", "ExtractContent"},
}

func containersFor(site string) []string {
	switch site {
	case "xrefstm":
		return []string{"xrefstm", "objstm"}
	case "objstm":
		return []string{"objstm"}
	}
	return []string{"classic", "xrefstm", "objstm"}
}

func decKey(site, container string, decodeAll, strict bool) string {
	return fmt.Sprintf("%s|%s|%v|%v", site, container, decodeAll, strict)
}

// bombDoc builds the one-page document with a payload of n decoded bytes at site.
func bombDoc(site, container string, p pipe, n int64, trail int) ([]byte, []int64, error) {
	parts := docParts{container: container}
	var stages []int64
	mk := func(prefix []byte, fill byte) (*mstream, error) {
		enc, st, err := encodePayload(prefix, fill, n, p, trail)
		if err != nil {
			return nil, err
		}
		stages = st
		return &mstream{Enc: enc, Filters: p.fs}, nil
	}
	var err error
	switch site {
	case "content":
		parts.content, err = mk(contentPrefix(false), '\n')
	case "image":
		w := int64(64)
		for w*w < n && w < 8192 {
			w *= 2
		}
		if n%w != 0 {
			w = n // a single row (only for small sizes such as limit+1)
		}
		var s *mstream
		s, err = mk(nil, 0)
		parts.image = &imagePart{s: s, w: w, h: n / w, bpc: 8, cs: "DeviceGray", wViaRef: container == "objstm"}
	case "meta":
		var enc []byte
		body := int64(len(xmpHead) + len(xmpTail))
		pad := max(n-body, 0)
		payload := append(append([]byte(xmpHead), bytes.Repeat([]byte{' '}, int(pad))...), xmpTail...)
		enc, stages, err = encodeStages(payload, p.fs, p.trailAt, trail)
		parts.meta = &mstream{Enc: enc, Filters: p.fs}
	case "unref":
		parts.unref, err = mk([]byte("% unreferenced\n"), 'u')
	case "xrefstm":
		parts.xs = xrefStmSpec{Filters: p.fs, PadTo: int(n), Trail: trail}
		if p.trailExact {
			parts.xs.TrailAt = p.trailAt
		}
	case "objstm":
		parts.os = &objStmSpec{Filters: p.fs, PadTo: int(n), Trail: trail, TrailAt: p.trailAt}
	}
	if err != nil {
		return nil, nil, err
	}
	b, lay, err := assemble(parts)
	if err != nil {
		return nil, nil, err
	}
	switch site {
	case "xrefstm":
		stages = lay.XRefStageOut
	case "objstm":
		stages = lay.ObjStmStageOut
	}
	return b, stages, nil
}

func (g *genCtx) famDocBomb() []*plan {
	var out []*plan
	sites := []string{"content", "image", "meta", "unref", "xrefstm", "objstm"}
	rels := []string{"at", "plus1", "above", "big"}
	for _, site := range sites {
		for _, p := range allPipes() {
			for _, L := range g.limitsFor(p) {
				for _, rel := range rels {
					n, ok := relCap(p, rel, L, g)
					if !ok {
						continue
					}
					if last := p.fs[len(p.fs)-1].Kind; site == "image" && last != pdfgen.Flate && last != pdfgen.LZW && last != pdfgen.RunLength {
						continue // pdfcpu extracts images only for pipelines ending in Flate, LZW, RunLength (DCT, CCITT ...)
					}
					if site == "image" {
						if n > 16*mib {
							n = 16 * mib
							if n <= L {
								continue
							}
						}
						if rel == "above" {
							n = 3 * L
						}
						if rel == "plus1" && n > mib {
							n = L + L/64 // one more row of a 64 x .. image
						}
					}
					if (site == "meta" || site == "xrefstm" || site == "objstm") && n > 32*mib {
						n = 32 * mib
						if n <= L {
							continue
						}
					}
					if site == "meta" && n < int64(len(xmpHead)+len(xmpTail)) {
						continue
					}
					for _, container := range containersFor(site) {
						for _, entry := range siteEntries[site] {
							for _, via := range []string{"ctx", "api"} {
								for _, decodeAll := range []bool{false, true} {
									for _, strict := range []bool{false, true} {
										pl := &plan{stratum: fmt.Sprintf("doc/%s/%s/%s", site, entry, rel)}
										pl.c = Case{Fam: "docbomb", Kind: "doc", Entry: entry, Via: via, Container: container,
											DecodeAll: decodeAll, Strict: strict, Lim: Limits{D: L},
											Exp: Expect{Limit: "MaxDecodeBytes", Site: site, Pipe: p.name, Rel: rel, Value: n, LimitV: L,
												DecKey: decKey(site, container, decodeAll, strict)}}
										site, container, p, n, L := site, container, p, n, L
										pl.build = func(pl *plan) ([]byte, error) {
											b, stages, err := bombDoc(site, container, p, n, 0)
											if err != nil {
												return nil, err
											}
											finishDocBomb(pl, b, stages, L)
											return b, nil
										}
										out = append(out, pl)
									}
								}
							}
						}
					}
				}
				// intermediate stage above the limit inside a document
				if p.trailAt > 0 && (site == "content" || site == "xrefstm" || site == "unref") {
					for _, container := range containersFor(site) {
						for _, entry := range siteEntries[site] {
							pl := &plan{stratum: fmt.Sprintf("doc/%s/%s/intermediate", site, entry)}
							strict := site == "xrefstm"
							pl.c = Case{Fam: "docbomb", Kind: "doc", Entry: entry, Via: "ctx", Container: container,
								DecodeAll: true, Strict: strict, Lim: Limits{D: L},
								Exp: Expect{Limit: "MaxDecodeBytes", Site: site, Pipe: p.name, Rel: "intermediate", Value: 3 * L, LimitV: L,
									DecKey: decKey(site, container, true, strict)}}
							site, container, p, L := site, container, p, L
							pl.build = func(pl *plan) ([]byte, error) {
								small := int64(64)
								b0, st0, err := bombDoc(site, container, p, small, 0)
								_ = b0
								if err != nil {
									return nil, err
								}
								trail := int(3*L - st0[p.trailAt-1])
								b, stages, err := bombDoc(site, container, p, small, trail)
								if err != nil {
									return nil, err
								}
								finishDocBomb(pl, b, stages, L)
								return b, nil
							}
							out = append(out, pl)
						}
					}
				}
			}
		}
	}
	return out
}

// finishDocBomb fills in the expectation and the stream limit once the document exists.
func finishDocBomb(pl *plan, doc []byte, stages []int64, L int64) {
	e := &pl.c.Exp
	e.Stages = stages
	e.Stage = firstOver(stages, L)
	if e.Stage >= 0 {
		e.Want, e.Classes = "limit", []string{"decode"}
	} else {
		e.Want = "ok"
	}
	// encoded streams are far smaller than the file; the file size bounds every raw stream
	pl.c.Lim.S = max(L, nextPow2(int64(len(doc))))
}

// ---------------------------------------------------------------------------
// family F3: MaxStreamBytes

func (g *genCtx) famStreamBytes() []*plan {
	var out []*plan
	sLimits := []int64{4 * kib, 64 * kib, mib}
	if g.thorough {
		sLimits = append(sLimits, 16*kib, 8*mib)
	}
	type shape struct {
		name   string
		length string
		rels   []string
	}
	shapes := []shape{
		{"direct", "", []string{"at", "plus1", "above"}},
		{"indirect", "indirect", []string{"at", "plus1"}},
		{"missing", "missing", []string{"below", "over"}},
		{"zero", "value", []string{"below", "over"}},
	}
	for _, site := range []string{"content", "unref", "image", "objstm", "xrefstm"} {
		for _, S := range sLimits {
			for _, sh := range shapes {
				if (site == "objstm" || site == "xrefstm") && sh.name != "direct" {
					continue
				}
				for _, rel := range sh.rels {
					for _, container := range containersFor(site) {
						for _, entry := range []string{"Read", "Validate", "Optimize"} {
							for _, strict := range []bool{false, true} {
								if strict && (sh.name == "missing" || sh.name == "zero") {
									continue // strict mode refuses a missing /Length for its own reasons
								}
								var r int64
								switch rel {
								case "at":
									r = S
								case "plus1":
									r = S + 1
								case "above":
									r = 3 * S
								case "below":
									r = S / 2
								case "over":
									r = S + 64
								}
								pl := &plan{stratum: fmt.Sprintf("rawlen/%s/%s/%s", site, sh.name, rel)}
								via := "ctx"
								if entry != "Read" && strict {
									via = "api"
								}
								pl.c = Case{Fam: "streambytes", Kind: "doc", Entry: entry, Via: via, Container: container, Strict: strict,
									Lim: Limits{S: S, D: max(S, 64*kib) * 4},
									Exp: Expect{Limit: "MaxStreamBytes", Site: site, Pipe: "len-" + sh.name, Rel: rel, Value: r, LimitV: S}}
								site, container, sh, r, S := site, container, sh, r, S
								pl.build = func(pl *plan) ([]byte, error) {
									b, actual, err := rawLenDoc(site, container, sh.length, r)
									if err != nil {
										return nil, err
									}
									pl.c.Exp.Value = actual
									if actual > S {
										pl.c.Exp.Want, pl.c.Exp.Classes = "limit", []string{"streamlen"}
									} else {
										pl.c.Exp.Want = "ok"
									}
									return b, nil
								}
								out = append(out, pl)
							}
						}
					}
				}
			}
			// /Length 10^9 on a small file
			for _, container := range []string{"classic", "objstm"} {
				for _, how := range []string{"value", "indirect"} {
					for _, strict := range []bool{false, true} {
						pl := &plan{stratum: "rawlen/" + site + "/length-1e9"}
						if site == "objstm" || site == "xrefstm" {
							continue
						}
						pl.c = Case{Fam: "streambytes", Kind: "doc", Entry: "Read", Via: "ctx", Container: container, Strict: strict,
							Lim: Limits{S: S, D: S},
							Exp: Expect{Want: "limit", Classes: []string{"streamlen"}, Limit: "MaxStreamBytes", Site: site, Pipe: "len-1e9-" + how,
								Rel: "declared", Value: 1_000_000_000, LimitV: S}}
						site, container, how := site, container, how
						pl.build = func(pl *plan) ([]byte, error) {
							s := &mstream{Enc: []byte("q Q\n"), Length: how, LengthV: 1_000_000_000}
							return siteDoc(site, container, s)
						}
						out = append(out, pl)
					}
				}
			}
		}
	}
	// the default limit: /Length 10^9 exceeds 512 MiB, /Length 5*10^8 does not (no verdict on the result, memory only)
	for _, v := range []int64{1_000_000_000, 500_000_000} {
		for _, how := range []string{"value", "indirect"} {
			pl := &plan{stratum: "rawlen/default"}
			pl.c = Case{Fam: "streambytes", Kind: "doc", Entry: "Read", Via: "ctx", Container: "classic", Strict: true,
				Exp: Expect{Want: "limit", Classes: []string{"streamlen"}, Limit: "MaxStreamBytes", Site: "content", Pipe: "len-default-" + how,
					Rel: "declared", Value: v, LimitV: defaultLimit}}
			if v <= defaultLimit {
				pl.c.Exp.Want, pl.c.Exp.Classes = "any", nil
			}
			v, how := v, how
			pl.build = func(pl *plan) ([]byte, error) {
				return siteDoc("content", "classic", &mstream{Enc: []byte("q Q\n"), Length: how, LengthV: v})
			}
			out = append(out, pl)
		}
	}
	return out
}

func siteDoc(site, container string, s *mstream) ([]byte, error) {
	parts := docParts{container: container}
	switch site {
	case "content":
		parts.content = s
	case "unref":
		parts.unref = s
	case "image":
		parts.image = &imagePart{s: s, w: 2, h: 2, bpc: 8, cs: "DeviceGray"}
	}
	b, _, err := assemble(parts)
	return b, err
}

// rawLenDoc puts an unfiltered stream of r encoded bytes at site and returns the true encoded length.
func rawLenDoc(site, container, length string, r int64) ([]byte, int64, error) {
	raw := func(prefix string, fill byte) []byte {
		b := bytes.Repeat([]byte{fill}, int(max(r, int64(len(prefix)))))
		copy(b, prefix)
		// no EOL at the very end: pdfcpu trims trailing EOLs of blindly read streams
		if len(b) > 0 && (b[len(b)-1] == '\n' || b[len(b)-1] == '\r') {
			b[len(b)-1] = ' '
		}
		return b
	}
	parts := docParts{container: container}
	s := &mstream{Length: length}
	if length == "value" {
		s.LengthV = 0 // /Length 0: pdfcpu reads up to "endstream"
	}
	switch site {
	case "content":
		s.Enc = raw("q Q\n", '\n')
		parts.content = s
	case "unref":
		s.Enc = raw("% u\n", 'u')
		parts.unref = s
	case "image":
		s.Enc = raw("", 0x55)
		w := int64(64)
		for r%w != 0 {
			w /= 2
		}
		if r%2 == 1 {
			w = r
		}
		parts.image = &imagePart{s: s, w: w, h: r / w, bpc: 8, cs: "DeviceGray"}
	case "objstm":
		// an unfiltered object stream padded to r bytes
		parts.os = &objStmSpec{PadTo: int(r)}
	case "xrefstm":
		// an unfiltered cross-reference stream padded with zero rows (8-byte rows: the size is the next
		// multiple of 8 not below r)
		parts.xs = xrefStmSpec{PadTo: int(r)}
	}
	b, lay, err := assemble(parts)
	if err != nil {
		return nil, 0, err
	}
	actual := int64(len(s.Enc))
	switch site {
	case "objstm":
		actual = lay.ObjStmStageOut[0]
	case "xrefstm":
		actual = lay.XRefStageOut[0]
	}
	return b, actual, nil
}
