// C42 — checked integer arithmetic is exact or reports overflow.
// Oracle: math/big. Boundary-dense operand set (all ordered pairs) plus seeded random pairs.
package main

import (
	"fmt"
	"math"
	"math/big"
	"sort"
	"sync/atomic"

	"github.com/pdfcpu/pdfcpu/pkg/pdfcpu/safemath"
	"verif/harness/internal/vk"
)

func operandSet(t *vk.T) []int64 {
	set := map[int64]struct{}{}
	add := func(v int64) { set[v] = struct{}{} }
	for _, v := range []int64{0, 1, -1, 2, -2, 3, 10, math.MaxInt64, math.MinInt64, math.MaxInt32, math.MinInt32, math.MaxInt32 + 1} {
		add(v)
	}
	for k := 0; k < 63; k++ {
		p := int64(1) << uint(k)
		for _, d := range []int64{-2, -1, 0, 1, 2} {
			add(p + d)
			add(-(p + d))
		}
	}
	r := new(big.Int).Sqrt(big.NewInt(math.MaxInt64)).Int64()
	for d := int64(-3); d <= 3; d++ {
		add(r + d)
		add(-(r + d))
	}
	kmax := int64(t.Pick(64, 256))
	for k := int64(1); k <= kmax; k++ {
		q := math.MaxInt64 / k
		for d := int64(-2); d <= 2; d++ {
			add(q + d)
			add(k + d)
		}
	}
	rng := t.RNG("operands")
	for i := 0; i < t.Pick(300, 1200); i++ {
		v := int64(rng.Uint64() >> uint(rng.IntN(64)))
		if rng.IntN(4) == 0 {
			v = -v
		}
		add(v)
	}
	out := make([]int64, 0, len(set))
	for v := range set {
		out = append(out, v)
	}
	sort.Slice(out, func(i, j int) bool { return out[i] < out[j] })
	return out
}

type opCase struct {
	Op   string `json:"op"`
	A, B int64
	Got  int64  `json:"got"`
	Err  string `json:"err"`
	Want string `json:"want"`
}

var maxI = big.NewInt(math.MaxInt64)

func checkPair(t *vk.T, a, b int64, nontriv *int64, overflowSeen, exactSeen *int64) {
	ba, bb := big.NewInt(a), big.NewInt(b)
	for _, op := range []string{"AddInt", "MultiplyInt", "MultiplyInt64"} {
		var got int64
		var err error
		exact := new(big.Int)
		switch op {
		case "AddInt":
			g, e := safemath.AddInt(int(a), int(b))
			got, err = int64(g), e
			exact.Add(ba, bb)
		case "MultiplyInt":
			g, e := safemath.MultiplyInt(int(a), int(b))
			got, err = int64(g), e
			exact.Mul(ba, bb)
		case "MultiplyInt64":
			got, err = safemath.MultiplyInt64(a, b)
			exact.Mul(ba, bb)
		}
		mustSucceed := a >= 0 && b >= 0 && exact.Cmp(maxI) <= 0
		bad := ""
		switch {
		case mustSucceed && err != nil:
			bad = "error although operands are non-negative and the result fits"
		case mustSucceed && big.NewInt(got).Cmp(exact) != 0:
			bad = "inexact result"
		case !mustSucceed && err == nil:
			bad = "no overflow error (wrapped or out-of-contract value returned)"
		}
		if mustSucceed {
			atomic.AddInt64(exactSeen, 1)
		} else {
			atomic.AddInt64(overflowSeen, 1)
		}
		// non-trivial: the exact result is within 2 bits of the int64 boundary or an operand is negative
		if exact.BitLen() >= 62 || a < 0 || b < 0 {
			atomic.AddInt64(nontriv, 1)
		}
		if bad != "" {
			c := opCase{Op: op, A: a, B: b, Got: got, Want: exact.String()}
			if err != nil {
				c.Err = err.Error()
			}
			cls := "fits"
			if !mustSucceed {
				cls = "overflow"
			}
			t.Violate(fmt.Sprintf("%s/%s/%s", op, cls, signClass(a, b)), fmt.Sprintf("%s(%d,%d) = %d,%v; exact %s: %s", op, a, b, got, err, exact, bad), c)
		}
	}
}

func signClass(a, b int64) string {
	s := func(v int64) string {
		switch {
		case v < 0:
			return "neg"
		case v == 0:
			return "zero"
		}
		return "pos"
	}
	return s(a) + "," + s(b)
}

func main() {
	vk.Run("C42", "exploration", func(t *vk.T) {
		if math.MaxInt != math.MaxInt64 {
			t.Broken("int is not 64 bit on this platform")
		}
		t.Rule("all ordered pairs of a boundary-dense operand set (0, ±1, ±2^k±{0,1,2}, ⌊√Max⌋±3, ⌊Max/k⌋±2, Min/Max, seeded randoms) plus seeded random pairs, for AddInt, MultiplyInt, MultiplyInt64, compared with math/big; non-trivial = exact result has ≥ 62 bits or an operand is negative (distinct by construction: set elements are unique)")
		t.Assume("2^128 operand pairs are sampled, not enumerated; int is 64 bit here so AddInt/MultiplyInt are driven over int64 values")
		ops := operandSet(t)
		var nontriv, ovf, exact int64
		vk.Parallel(len(ops), func(i int) {
			for _, b := range ops {
				checkPair(t, ops[i], b, &nontriv, &ovf, &exact)
			}
		})
		n := int64(len(ops))
		t.EvalBulk(n*n*3, nontriv)
		t.Sample(map[string]any{"operand_set_size": n, "first": ops[:4], "last": ops[len(ops)-4:]})
		// random pairs, each drawn with independent magnitudes
		R := t.Pick(1_000_000, 20_000_000)
		var nt2 int64
		chunks := 64
		vk.Parallel(chunks, func(c int) {
			rng := t.RNGi("pairs", c)
			for i := 0; i < R/chunks; i++ {
				a := int64(rng.Uint64() >> uint(rng.IntN(64)))
				b := int64(rng.Uint64() >> uint(rng.IntN(64)))
				if rng.IntN(8) == 0 {
					a = -a
				}
				if rng.IntN(8) == 0 {
					b = -b
				}
				checkPair(t, a, b, &nt2, &ovf, &exact)
				if c == 0 && i < 3 {
					t.Sample(map[string]any{"a": a, "b": b})
				}
			}
		})
		t.EvalBulk(int64(R/chunks*chunks)*3, 0) // random pairs may repeat: not counted as distinct
		t.Count("random_pairs_nontrivial_not_counted_distinct", nt2)
		t.Count("must_succeed_cases", exact)
		t.Count("must_overflow_cases", ovf)
	})
}
