package main

import (
	"bytes"
	"fmt"
	"io"

	"github.com/pdfcpu/pdfcpu/pkg/api"
	"verif/harness/internal/pdfgen"
	"verif/harness/internal/vk"
)

// Free-list documents: generated documents with free entries, unreferenced objects (the optimiser
// frees them) and annotations, whose free list is broken in one of the ways pdfcpu repairs on read
// (model.EnsureValidFreeList / validateFreeList / handleDanglingFree, read.go postProcess). pdfcpu keeps
// package-level `zero int64` cells as the Offset of free-list heads and list ends of EVERY context
// (model/xreftable.go, read.go) and repairs lists by writing through such pointers: goroutines
// reading / validating / writing independent documents of these kinds at the same time are what
// could race on the shared cell or leak a next-free link from one document into another.
var freeListKinds = []string{
	"head-missing-empty-list", // no entry for object 0 and no free object: the rebuilt head IS the shared cell, list empty
	"head-missing",            // no entry for object 0 (one section), free entries exist
	"head-next-0-dangling",    // head says "empty list" although free entries exist (handleDanglingFree)
	"free-generation-65535",   // a dangling free entry that may never be reused
	"chain-ends-elsewhere",    // last free entry links to an object number that does not exist
	"head-links-in-use",       // the head links to an object that is in use
	"free-links-in-use",       // a free entry links to an object that is in use
	"head-generation-0",       // head with generation 0 instead of 65535
	"free-self-link",          // a free entry links to itself
	"hybrid-hidden-free",      // hybrid file listing the objects of its object streams as free (pdfcpu refuses to validate these)
	"valid-free-list",         // control: holes linked correctly
}

// sharedCellKinds: after api.ReadContext the free-list head or the last free entry of such a document
// holds &zero of package pdfcpu (head rebuilt by postProcess) or of package model (handleDanglingFree):
// the same *int64 in every context (repro/freelist_race_test.go TestSharedZeroCells).
var sharedCellKinds = []string{"head-missing-empty-list", "head-missing", "free-generation-65535"}

func freeListDocs(t *vk.T, want int) []doc {
	var out []doc
	rng := t.RNG("freelist")
	for i := 0; len(out) < want && i < 8*want; i++ {
		kind := freeListKinds[i%len(freeListKinds)]
		spec := pdfgen.RandomSpec(rng, 3)
		spec.Pages = 3
		spec.Signatures, spec.Updates = 0, 0
		spec.Annotations, spec.Unreferenced, spec.Info = true, kind != "head-missing-empty-list", true
		spec.Write.Encrypter = nil
		spec.Write.HolesAsGaps = false
		spec.Write.XRef, spec.Write.ObjStm = pdfgen.XRefTable, false
		if kind == "hybrid-hidden-free" {
			spec.Write.XRef, spec.Write.ObjStm, spec.Write.HybridHiddenFree = pdfgen.XRefHybrid, true, true
		}
		bt := pdfgen.Build(spec)
		d := bt.Doc.Clone()
		// three holes (free entries of generation 0) between unreferenced objects
		holes := []int{0, 0, 0}
		for h := 0; h < 3 && kind != "head-missing-empty-list"; h++ {
			holes[h] = d.Alloc().Num
			d.Add(pdfgen.D("VerifJunk", h))
		}
		inUse := int64(bt.Truth.Objs.PageObjs[0])
		F := pdfgen.Force
		e := map[pdfgen.XRefKey]pdfgen.XRefEntryOverride{}
		last := holes[len(holes)-1]
		switch kind {
		case "head-missing", "head-missing-empty-list":
			e[pdfgen.XRefKey{Rev: -1, Num: 0}] = pdfgen.XRefEntryOverride{Drop: true}
		case "head-generation-0":
			e[pdfgen.XRefKey{Rev: -1, Num: 0}] = pdfgen.XRefEntryOverride{F3: F(0)}
		case "head-next-0-dangling":
			e[pdfgen.XRefKey{Rev: -1, Num: 0}] = pdfgen.XRefEntryOverride{F2: F(0)}
		case "chain-ends-elsewhere":
			e[pdfgen.XRefKey{Rev: -1, Num: last}] = pdfgen.XRefEntryOverride{F2: F(int64(d.MaxNum() + 7))}
		case "free-links-in-use":
			e[pdfgen.XRefKey{Rev: -1, Num: holes[0]}] = pdfgen.XRefEntryOverride{F2: F(inUse)}
		case "head-links-in-use":
			e[pdfgen.XRefKey{Rev: -1, Num: 0}] = pdfgen.XRefEntryOverride{F2: F(inUse)}
		case "free-generation-65535":
			e[pdfgen.XRefKey{Rev: -1, Num: 0}] = pdfgen.XRefEntryOverride{F2: F(int64(holes[1]))}
			e[pdfgen.XRefKey{Rev: -1, Num: holes[0]}] = pdfgen.XRefEntryOverride{F3: F(65535), F2: F(0)}
		case "free-self-link":
			e[pdfgen.XRefKey{Rev: -1, Num: holes[1]}] = pdfgen.XRefEntryOverride{F2: F(int64(holes[1]))}
		}
		o := bt.Spec.Write
		if len(e) > 0 {
			o.Overrides = &pdfgen.Overrides{XRefEntries: e}
		}
		w, err := pdfgen.Write(d, o)
		if err != nil {
			t.Count("freelist_docs_unwritable/"+kind, 1)
			continue
		}
		// unlike the general documents these need not validate (pdfcpu rejects some of the kinds): what an
		// operation returns for them alone - result or error - is what it must return under concurrency
		if _, err := api.ReadContext(bytes.NewReader(w.Bytes), newConf()); err != nil {
			t.Count("freelist_docs_unreadable/"+kind, 1)
			continue
		}
		if api.Validate(bytes.NewReader(w.Bytes), newConf()) == nil && api.Optimize(bytes.NewReader(w.Bytes), io.Discard, newConf()) == nil {
			t.Count("freelist_docs_valid", 1)
		}
		t.Count("freelist_docs/"+kind, 1)
		out = append(out, doc{fmt.Sprintf("freelist/%d/%s", i, kind), w.Bytes})
	}
	return out
}
