// Package repro: stand-alone attempts to reproduce C40 findings.
//
//	. /verif/env.sh; cd /verif/harness && $GO125 test -race -count=1 -run TestFreeListSharedZero -v ./cmd/c40/repro
package repro

import (
	"bytes"
	"fmt"
	"io"
	"math/rand/v2"
	"sort"
	"sync"
	"testing"

	"github.com/pdfcpu/pdfcpu/pkg/api"
	"github.com/pdfcpu/pdfcpu/pkg/pdfcpu/model"
	"verif/harness/internal/pdfgen"
)

func conf() *model.Configuration {
	c := model.NewDefaultConfiguration()
	c.Offline = true
	return c
}

// brokenFreeListDocs: one document per way of breaking the free list (see cmd/c40/freelist.go).
func brokenFreeListDocs(t *testing.T) map[string][]byte {
	out := map[string][]byte{}
	rng := rand.New(rand.NewPCG(40, 40))
	F := pdfgen.Force
	for _, kind := range []string{"valid", "hybrid-hidden-free", "head-missing", "head-missing-empty-list", "head-generation-0", "head-next-0-dangling", "chain-ends-elsewhere",
		"free-links-in-use", "head-links-in-use", "free-generation-65535", "free-self-link"} {
		spec := pdfgen.RandomSpec(rng, 3)
		spec.Pages, spec.Signatures, spec.Updates = 3, 0, 0
		spec.Annotations, spec.Unreferenced = true, kind != "head-missing-empty-list"
		spec.Write.Encrypter, spec.Write.HolesAsGaps = nil, false
		spec.Write.XRef, spec.Write.ObjStm = pdfgen.XRefTable, false
		if kind == "hybrid-hidden-free" {
			spec.Write.XRef, spec.Write.ObjStm, spec.Write.HybridHiddenFree = pdfgen.XRefHybrid, true, true
		}
		bt := pdfgen.Build(spec)
		d := bt.Doc.Clone()
		holes := []int{0, 0, 0}
		for h := 0; h < 3 && kind != "head-missing-empty-list"; h++ {
			holes[h] = d.Alloc().Num
			d.Add(pdfgen.D("VerifJunk", h))
		}
		inUse := int64(bt.Truth.Objs.PageObjs[0])
		e := map[pdfgen.XRefKey]pdfgen.XRefEntryOverride{}
		switch kind {
		case "head-missing", "head-missing-empty-list":
			e[pdfgen.XRefKey{Rev: -1, Num: 0}] = pdfgen.XRefEntryOverride{Drop: true}
		case "head-generation-0":
			e[pdfgen.XRefKey{Rev: -1, Num: 0}] = pdfgen.XRefEntryOverride{F3: F(0)}
		case "head-next-0-dangling":
			e[pdfgen.XRefKey{Rev: -1, Num: 0}] = pdfgen.XRefEntryOverride{F2: F(0)}
		case "chain-ends-elsewhere":
			e[pdfgen.XRefKey{Rev: -1, Num: holes[2]}] = pdfgen.XRefEntryOverride{F2: F(int64(d.MaxNum() + 7))}
		case "free-links-in-use":
			e[pdfgen.XRefKey{Rev: -1, Num: holes[0]}] = pdfgen.XRefEntryOverride{F2: F(inUse)}
		case "head-links-in-use":
			e[pdfgen.XRefKey{Rev: -1, Num: 0}] = pdfgen.XRefEntryOverride{F2: F(inUse)}
		case "free-generation-65535":
			e[pdfgen.XRefKey{Rev: -1, Num: 0}] = pdfgen.XRefEntryOverride{F2: F(int64(holes[1]))}
			e[pdfgen.XRefKey{Rev: -1, Num: holes[0]}] = pdfgen.XRefEntryOverride{F3: F(65535), F2: F(0)}
		case "free-self-link":
			e[pdfgen.XRefKey{Rev: -1, Num: holes[1]}] = pdfgen.XRefEntryOverride{F2: F(int64(holes[1]))}
		}
		o := bt.Spec.Write
		if len(e) > 0 {
			o.Overrides = &pdfgen.Overrides{XRefEntries: e}
		}
		w, err := pdfgen.Write(d, o)
		if err != nil {
			t.Fatalf("%s: %v", kind, err)
		}
		out[kind] = w.Bytes
	}
	return out
}

// TestFreeListSharedZero: 16 goroutines read / optimize / remove pages / remove annotations of
// independent documents whose free lists need every repair pdfcpu knows, 12 times each, under the race
// detector; every result must equal the result of the same call made alone before.
func TestFreeListSharedZero(t *testing.T) {
	api.DisableConfigDir()
	docs := brokenFreeListDocs(t)
	type op struct {
		name string
		f    func(b []byte) ([]byte, error)
	}
	ops := []op{
		{"read", func(b []byte) ([]byte, error) {
			ctx, err := api.ReadContext(bytes.NewReader(b), conf())
			if err != nil {
				return nil, err
			}
			// the free list as the context sees it: the SET of linked object numbers (the order of the
			// entries pdfcpu links in by itself follows Go's map iteration order and differs between
			// two runs alone already) and how the chain ends
			var w bytes.Buffer
			seen := map[int]bool{}
			n, end := 0, "ends-at-0"
			for {
				e, ok := ctx.Table[n]
				if !ok || e == nil || !e.Free || e.Offset == nil {
					end = fmt.Sprintf("broken-at-%d", n)
					break
				}
				if seen[n] {
					end = fmt.Sprintf("loops-at-%d", n)
					break
				}
				seen[n] = true
				n = int(*e.Offset)
				if n == 0 {
					break
				}
			}
			var nums []int
			for k := range seen {
				nums = append(nums, k)
			}
			sort.Ints(nums)
			fmt.Fprintf(&w, "%v %s", nums, end)
			return w.Bytes(), nil
		}},
		{"optimize", func(b []byte) ([]byte, error) {
			var w bytes.Buffer
			err := api.Optimize(bytes.NewReader(b), &w, conf())
			return w.Bytes(), err
		}},
		{"remove-pages", func(b []byte) ([]byte, error) {
			var w bytes.Buffer
			err := api.RemovePages(bytes.NewReader(b), &w, []string{"2"}, conf())
			return w.Bytes(), err
		}},
		{"remove-annotations", func(b []byte) ([]byte, error) {
			var w bytes.Buffer
			err := api.RemoveAnnotations(bytes.NewReader(b), &w, nil, nil, nil, conf())
			return w.Bytes(), err
		}},
		{"validate", func(b []byte) ([]byte, error) { return nil, api.Validate(bytes.NewReader(b), conf()) }},
	}
	mask := func(b []byte) string { // outputs: only "a PDF came out" (object numbering follows map order)
		if bytes.HasPrefix(b, []byte("%PDF-")) {
			return "pdf"
		}
		return string(b)
	}
	type key struct{ kind, op string }
	alone := map[key]string{}
	for kind, b := range docs {
		for _, o := range ops {
			out, err := o.f(append([]byte(nil), b...))
			r := "ok:" + mask(out)
			if err != nil {
				r = "err:" + err.Error()
			}
			alone[key{kind, o.name}] = r
			t.Logf("alone %-24s %-18s %.60q", kind, o.name, r)
		}
	}
	var kinds []string
	for k := range docs {
		kinds = append(kinds, k)
	}
	var wg sync.WaitGroup
	var mu sync.Mutex
	diffs := map[key]string{}
	for g := 0; g < 16; g++ {
		wg.Add(1)
		go func(g int) {
			defer wg.Done()
			r := rand.New(rand.NewPCG(uint64(g), 7))
			for i := 0; i < 12; i++ {
				kind, o := kinds[r.IntN(len(kinds))], ops[r.IntN(len(ops))]
				out, err := o.f(append([]byte(nil), docs[kind]...))
				got := "ok:" + mask(out)
				if err != nil {
					got = "err:" + err.Error()
				}
				if got != alone[key{kind, o.name}] {
					mu.Lock()
					diffs[key{kind, o.name}] = got
					mu.Unlock()
				}
			}
		}(g)
	}
	wg.Wait()
	for k, got := range diffs {
		t.Errorf("%s on %s: concurrent %.80q, alone %.80q", k.op, k.kind, got, alone[k])
	}
	_ = io.Discard
}

// TestSharedZeroCells states the fact the reviewer pointed at: which free entries of two INDEPENDENT
// contexts (two reads of the same bytes) hold the very same *int64 as Offset.
func TestSharedZeroCells(t *testing.T) {
	api.DisableConfigDir()
	for kind, b := range brokenFreeListDocs(t) {
		c1, err1 := api.ReadContext(bytes.NewReader(b), conf())
		c2, err2 := api.ReadContext(bytes.NewReader(b), conf())
		if err1 != nil || err2 != nil {
			t.Logf("%-24s unreadable: %v", kind, err1)
			continue
		}
		var shared []int
		for n, e1 := range c1.Table {
			if e2 := c2.Table[n]; e1 != nil && e2 != nil && e1.Offset != nil && e1.Offset == e2.Offset {
				shared = append(shared, n)
			}
		}
		sort.Ints(shared)
		t.Logf("%-24s entries whose Offset cell is shared by both contexts: %v (value %d)", kind, shared, func() int64 {
			if len(shared) > 0 {
				return *c1.Table[shared[0]].Offset
			}
			return -1
		}())
	}
}
