// C40 — concurrent use of the API is race-free and deterministic.
//
// With api.DisableConfigDir() and a sandboxed font.UserFontDir, rounds of 2–32 goroutines run mixes of
// read / validate / optimize / stamp (core font and user font) / form fill (core font and user font) /
// encrypt / merge / split / extract / remove pages / remove annotations on independent inputs (general
// documents and documents whose free list pdfcpu has to repair, freelist.go), at GOMAXPROCS 1, 2, 4 and 16, with seeded
// start skews and (every other pair of rounds) delays injected at filesystem calls. In half of the
// rounds a mutator switches the user font directory between versions with different font-name sets and
// calls font.ReloadUserFonts while readers look the registry up.
//
// Oracles: (i) the race detector's log (GORACE=log_path): zero DATA RACE blocks, keyed by the outermost
// pdfcpu entry points of the two stacks; (ii) every goroutine's result equals the result of the same
// operation run alone (bytes after masking /ID and dates, else equal canonical object graph via the
// strict reader); (iii) the font registry history (call/return stamps from one atomic counter at the
// client boundary) is linearizable as one register (porcupine), and no lookup sees a name set that
// belongs to no version.
//
// Process layout: the parent prepares fonts and documents, then re-executes itself as 8 (thorough 16) vk
// shards (fresh processes: cold lazy initialisation; GOMAXPROCS rotates per round) with GORACE
// set and parses their race logs.
package main

import (
	"encoding/json"
	"errors"
	"fmt"
	"math/rand/v2"
	"os"
	"path/filepath"
	"runtime"
	"runtime/pprof"
	"sort"
	"strings"
	"sync"
	"sync/atomic"
	"time"

	"github.com/anishathalye/porcupine"
	"github.com/pdfcpu/pdfcpu/pkg/api"
	"github.com/pdfcpu/pdfcpu/pkg/font"
	"verif/harness/internal/racelog"
	"verif/harness/internal/vk"
)

var procsOf = []int{1, 2, 4, 16}

type task struct {
	Op   string `json:"op"`
	Doc  int    `json:"doc"`
	Doc2 int    `json:"doc2"`
	Spin int    `json:"spin"`
}

type roundCase struct {
	Round int `json:"round"`
	Procs int `json:"gomaxprocs"`
	G     int `json:"goroutines"`
	// Fonts: registry mutator + readers run alongside; Delays: osmon delays at filesystem calls.
	Fonts   bool   `json:"fonts"`
	Delays  bool   `json:"delays"`
	Tasks   []task `json:"tasks,omitempty"`
	Readers int    `json:"readers,omitempty"`
	Writes  int    `json:"writes,omitempty"`
}

func main() {
	vk.Run("C40", "exploration", func(t *vk.T) {
		api.DisableConfigDir()
		if t.Replay != nil {
			var rc roundCase
			if err := json.Unmarshal(t.Replay.Case, &rc); err != nil {
				t.Broken("replay case: %v", err)
			}
			m := loadMaterial(t, prepareMaterial(t))
			w := &worker{t: t, m: m, refs: map[string]*refEntry{}, nShards: t.Pick(8, 16)}
			w.round(rc.Round)
			t.Eval("replay")
			return
		}
		if t.IsShard() {
			shard(t)
			return
		}
		t.Rule("case = one goroutine's operation in one round (round = seeded goroutine count 2–32, operation mix, start skews, GOMAXPROCS in {1,2,4,16}, with/without fs-call delays, with/without font reload mutator); non-trivial = distinct (operation, input, goroutine count, GOMAXPROCS); plus one register history per font round")
		t.Assume("api.DisableConfigDir() is called first; font.UserFontDir points into the sandbox and is never reassigned while goroutines run (the directory content is switched by an atomic symlink rename)")
		t.Assume("\"same result as alone\" = byte-equal after masking /ID and PDF/ISO dates, else equal canonical object graph (strict reader, /ID /CreationDate /ModDate dropped); encrypted outputs are decrypted first; an operation whose two runs alone already differ is left out")
		t.Assume("random 6-letter subset font tags (ABCDEF+Name) are masked like /ID; the directory is switched only after the registry's first load and only by the one mutator, each switch followed by ReloadUserFonts (switch + reload = one register write)")
		t.Assume("rounds with injected fs-call delays go through the interposer's mutex, which can hide races from the detector around fs calls; the other half of the rounds run without it")
		if !raceEnabled {
			t.Inconclusive("race-detector-off (worker built without -race: add 'C40 race shadow' to props.conf)")
		}
		prefix := filepath.Join(t.Scratch(), "race")
		mat := prepareMaterial(t)
		nShards := t.Pick(8, 16)
		runShards(t, nShards, racelog.Env(prefix), "VERIF_C40_CANARY=1", "VERIF_C40_MATERIAL="+mat)
		if !raceEnabled {
			return
		}
		blocks, err := racelog.Read(prefix)
		if err != nil {
			t.Broken("race log: %v", err)
		}
		canary := 0
		seen := map[string]bool{}
		for _, b := range blocks {
			if b.HasFunc("main.canaryWrite") {
				canary++
				continue
			}
			t.Count("race_blocks", 1)
			k := b.Key()
			if k == "-|-" {
				// neither stack has a pdfcpu frame: memory handed out by pdfcpu (e.g. a *Configuration)
				// touched by harness code only, or a harness bug — reported, a human decides
				k = "no-pdfcpu-frame"
			}
			key := "race/" + k
			if !seen[key] {
				seen[key] = true
				t.Violate(key, "DATA RACE (memory touched in "+b.Site()+"): "+b.Text, map[string]string{"site": b.Site(), "report": b.Text})
			}
		}
		t.Count("race_canary_blocks", int64(canary))
		if canary == 0 {
			t.Broken("the race detector's log did not show the canary race: the race oracle is dead (log prefix %s)", prefix)
		}
	})
}

// runShards is t.RunShards, except that a shard killed by a Go runtime "fatal error" (concurrent map
// access — the runtime's own detector; it exits with status 2 like a broken worker) is reported as a
// violation instead of a broken check.
func runShards(t *vk.T, n int, env ...string) {
	var broken any
	func() {
		defer func() { broken = recover() }()
		t.RunShards(n, env...)
	}()
	fatal := 0
	for i := 0; i < n; i++ {
		b, err := os.ReadFile(filepath.Join(t.Scratch(), fmt.Sprintf("shard-%d.stderr", i)))
		if err != nil {
			continue
		}
		txt := string(b)
		j := strings.Index(txt, "fatal error: ")
		if j < 0 {
			continue
		}
		fatal++
		msg := txt[j+len("fatal error: "):]
		if k := strings.IndexByte(msg, '\n'); k >= 0 {
			msg = msg[:k]
		}
		// innermost pdfcpu frame of the crashing goroutine
		where := "unknown"
		for _, ln := range strings.Split(txt[j:], "\n") {
			if strings.HasPrefix(ln, "github.com/pdfcpu/pdfcpu/") {
				where = strings.TrimPrefix(ln, "github.com/pdfcpu/pdfcpu/")
				if k := strings.IndexByte(where, '('); k > 0 && !strings.HasPrefix(where[k:], "(*") {
					where = where[:k]
				}
				break
			}
		}
		if len(txt) > j+3000 {
			txt = txt[:j+3000]
		}
		t.Violate("crash/"+strings.ReplaceAll(msg, " ", "_")+"/"+where, fmt.Sprintf("shard %d died with a Go runtime fatal error: %s", i, txt[j:]), map[string]any{"shard": i})
	}
	if broken != nil && fatal == 0 {
		panic(broken)
	}
}

//go:noinline
func raceCanary() {
	var x int
	var wg sync.WaitGroup
	for g := 0; g < 2; g++ {
		wg.Add(1)
		go func() { defer wg.Done(); canaryWrite(&x) }()
	}
	wg.Wait()
}

//go:noinline
func canaryWrite(p *int) {
	for i := 0; i < 100; i++ {
		*p = i
	}
}

func shard(t *vk.T) {
	i, n := t.Shard()
	if os.Getenv("VERIF_C40_CANARY") != "" && i == 0 {
		raceCanary()
	}
	if pf := os.Getenv("VERIF_C40_PROFILE"); pf != "" {
		f, _ := os.Create(fmt.Sprintf("%s.%d", pf, i))
		_ = pprof.StartCPUProfile(f)
		defer pprof.StopCPUProfile()
	}
	m := loadMaterial(t, os.Getenv("VERIF_C40_MATERIAL"))
	w := &worker{t: t, m: m, refs: map[string]*refEntry{}, nShards: n}
	rounds := t.Pick(28, 600)
	if s := os.Getenv("VERIF_C40_ROUNDS"); s != "" {
		fmt.Sscan(s, &rounds)
	}
	for r := i; r < rounds; r += n {
		w.round(r)
	}
	runtime.GOMAXPROCS(16)
	t.Count("documents", int64(len(m.docs)))
}

type refEntry struct {
	res *prepared
	ok  bool // false once two runs alone were seen to differ
}

type worker struct {
	nShards int
	t       *vk.T
	m       *material
	refs    map[string]*refEntry
	cur     int // font version currently published
}

func (w *worker) plan(r int) roundCase {
	rng := w.t.RNGi("round", r)
	// shard = r mod 4; within a shard (k = 0,1,2,…) GOMAXPROCS rotates through {1,2,4,16}, the font
	// traffic alternates every round and the fs-call delays every two rounds.
	k := r / w.nShards
	gs := []int{2, 2, 3, 3, 4, 4, 6, 8, 8, 12, 16, 32}
	rc := roundCase{Round: r, Procs: procsOf[(k+r%w.nShards)%len(procsOf)], G: gs[rng.IntN(len(gs))], Fonts: k%2 == 0, Delays: (k/2)%2 == 1 && haveOsmon}
	// each shard works on its own small pool of documents (the runs alone are the expensive part)
	pool := w.pool(r%w.nShards, k)
	for g := 0; g < rc.G; g++ {
		op := ops[rng.IntN(len(ops))]
		tk := task{Op: op.Name, Doc: pool[rng.IntN(len(pool))], Doc2: pool[rng.IntN(len(pool))], Spin: []int{0, 0, 1, 5, 20, 100, 400}[rng.IntN(7)]}
		if g < 2 && pool[len(pool)-1] >= w.m.nGeneral {
			// the first two goroutines of every round work on (their own copies of) a document whose
			// context holds a shared zero cell: at least one concurrent pair per round
			tk.Doc = pool[len(pool)-1]
		}
		rc.Tasks = append(rc.Tasks, tk)
	}
	if rc.Fonts {
		rc.Readers = 2 + rng.IntN(5)
		rc.Writes = 6 + rng.IntN(15)
	}
	return rc
}

// pool returns the indices of the documents shard i draws from in its k-th round.
func (w *worker) pool(i, k int) []int {
	n := w.m.nGeneral
	per := w.t.Pick(2, 6)
	var out []int
	for j := 0; j < per; j++ {
		out = append(out, (i*per+j)%n)
	}
	// plus free-list documents (freelist.go): another one (thorough: two) in each of the shard's rounds,
	// and LAST one of the kinds that leave a package-level zero cell in the context (sharedCellKinds)
	nf := len(w.m.docs) - n
	for j := 0; j < w.t.Pick(1, 2) && nf > 0; j++ {
		out = append(out, n+(i+k*w.t.Pick(1, 2)+j)%nf)
	}
	var sh []int
	for j := n; j < len(w.m.docs); j++ {
		for _, kind := range sharedCellKinds {
			if strings.HasSuffix(w.m.docs[j].Name, "/"+kind) {
				sh = append(sh, j)
			}
		}
	}
	if len(sh) > 0 {
		out = append(out, sh[(i+k)%len(sh)])
	}
	return out
}

func (w *worker) docsFor(op *opDef, tk task) (doc, doc) {
	switch op.Form {
	case "en":
		return w.m.formEN, doc{}
	case "uk":
		return w.m.formUK, doc{}
	}
	return w.m.docs[tk.Doc], w.m.docs[tk.Doc2]
}

func (w *worker) exec(op *opDef, d, d2 doc, dir string) (res result) {
	_ = os.MkdirAll(dir, 0o755)
	defer func() {
		if r := recover(); r != nil {
			res = result{Panic: fmt.Sprintf("%v at %s", r, pdfcpuFrame())}
		}
	}()
	out, err := op.Run(w.m, d, d2, dir)
	if err != nil {
		return result{Err: err.Error()}
	}
	return result{Out: out}
}

func pdfcpuFrame() string {
	pc := make([]uintptr, 64)
	n := runtime.Callers(3, pc)
	fr := runtime.CallersFrames(pc[:n])
	for {
		f, more := fr.Next()
		if strings.Contains(f.Function, "github.com/pdfcpu/pdfcpu/pkg/") {
			return strings.TrimPrefix(f.Function, "github.com/pdfcpu/pdfcpu/")
		}
		if !more {
			return "unknown"
		}
	}
}

// ref runs the task alone (twice) — called only while no other goroutine runs pdfcpu code.
func (w *worker) ref(op *opDef, tk task) *refEntry {
	d, d2 := w.docsFor(op, tk)
	key := op.Name + "|" + d.Name
	if op.Name == "merge" {
		key += "|" + d2.Name
	}
	if e, ok := w.refs[key]; ok {
		return e
	}
	a := w.exec(op, d, d2, filepath.Join(w.m.root, "ref"))
	e := &refEntry{res: prepare(op, a), ok: true}
	if a.Panic != "" {
		w.t.Count("pdfcpu_panics_alone", 1)
	}
	w.t.Count("runs_alone", 1)
	w.refs[key] = e
	return e
}

// differsAlone runs the task alone once more (nothing else is running) and reports whether two runs
// alone already differ: then the operation is not deterministic by itself on this input and a
// differing concurrent result says nothing.
func (w *worker) differsAlone(op *opDef, tk task, e *refEntry) bool {
	d, d2 := w.docsFor(op, tk)
	b := w.exec(op, d, d2, filepath.Join(w.m.root, "ref"))
	w.t.Count("runs_alone", 1)
	ok, _, _ := same(op, e.res, prepare(op, b))
	if !ok {
		e.ok = false
		w.t.Count("left_out_differs_alone/"+op.Name, 1)
	}
	return !ok
}

func (w *worker) round(r int) {
	t := w.t
	rc := w.plan(r)
	runtime.GOMAXPROCS(rc.Procs)

	results := make([]result, rc.G)
	start := make(chan struct{})
	var wg sync.WaitGroup
	for g, tk := range rc.Tasks {
		wg.Add(1)
		go func(g int, tk task) {
			defer wg.Done()
			op := opByName(tk.Op)
			d, d2 := w.docsFor(op, tk)
			// independent input: this goroutine's own copy of the bytes
			d.Data = append([]byte(nil), d.Data...)
			d2.Data = append([]byte(nil), d2.Data...)
			<-start
			for i := 0; i < tk.Spin; i++ {
				runtime.Gosched()
			}
			results[g] = w.exec(op, d, d2, filepath.Join(w.m.root, fmt.Sprintf("r%d", r), fmt.Sprintf("g%d", g)))
		}(g, tk)
	}
	var hist *history
	var opsDone atomic.Bool
	var fwg sync.WaitGroup
	if rc.Fonts {
		hist = w.startFontTraffic(rc, start, &opsDone, &fwg)
	}
	body := func() {
		close(start)
		wg.Wait()
		opsDone.Store(true)
		fwg.Wait()
	}
	if rc.Delays {
		withDelays(w.m.root, 2+int64(r%3), 100+37*(r%40), body)
		t.Count("rounds_with_fs_delays", 1)
	} else {
		body()
	}
	runtime.GOMAXPROCS(16)
	_ = os.RemoveAll(filepath.Join(w.m.root, fmt.Sprintf("r%d", r)))
	t.Count("rounds", 1)
	t.Count(fmt.Sprintf("rounds_gomaxprocs_%d", rc.Procs), 1)

	// (ii) determinism: the runs alone come AFTER the concurrent round, so that whatever pdfcpu
	// initialises lazily is initialised under concurrency at least in every shard's first rounds.
	refs := make([]*refEntry, rc.G)
	for g, tk := range rc.Tasks {
		refs[g] = w.ref(opByName(tk.Op), tk)
	}
	rcShort := rc
	for g, tk := range rc.Tasks {
		op := opByName(tk.Op)
		d, _ := w.docsFor(op, tk)
		t.Eval(fmt.Sprintf("det/%s/%s/G=%d/P=%d", tk.Op, d.Name, rc.G, rc.Procs))
		t.Count("ops/"+tk.Op, 1)
		if f := strings.SplitN(d.Name, "/", 3); f[0] == "freelist" && len(f) == 3 {
			t.Count("ops_on_freelist_docs", 1)
			t.Count("ops_on_freelist_docs/"+f[2], 1)
		}
		if results[g].Panic != "" {
			t.Count("pdfcpu_panics", 1)
		}
		if !refs[g].ok {
			continue
		}
		ok, level, why := same(op, refs[g].res, prepare(op, results[g]))
		t.Count("compared_at_level/"+level, 1)
		if !ok && w.differsAlone(op, tk, refs[g]) {
			continue
		}
		if !ok {
			t.Violate(fmt.Sprintf("determinism/op=%s/class=%s", tk.Op, level),
				fmt.Sprintf("round %d (GOMAXPROCS %d, %d goroutines, fonts=%v, delays=%v), goroutine %d, %s on %s: result differs from the run alone: %s",
					r, rc.Procs, rc.G, rc.Fonts, rc.Delays, g, tk.Op, d.Name, why), rcShort)
		}
	}
	if r < 3 {
		t.Sample(map[string]any{"round": r, "gomaxprocs": rc.Procs, "goroutines": rc.G, "fonts": rc.Fonts, "delays": rc.Delays, "first_tasks": rc.Tasks[:min(4, len(rc.Tasks))]})
	}

	// (iii) font registry
	if hist != nil {
		w.checkHistory(rc, hist)
	}
}

// ---------------------------------------------------------------------------------------------
// font registry as a register

type regIn struct {
	Kind string // write | names | has
	V    int    // write: version written; has: version whose font is looked up
	Via  string
}

type regOut struct {
	V   int  // names: version seen (-1 torn)
	Has bool // has: font present
}

type history struct {
	mu    sync.Mutex
	ops   []porcupine.Operation
	clock atomic.Int64
	init  int
	torn  []string
	errs  []string
}

func (h *history) add(client int, in regIn, call int64, out regOut, ret int64) {
	h.mu.Lock()
	h.ops = append(h.ops, porcupine.Operation{ClientId: client, Input: in, Call: call, Output: out, Return: ret})
	h.mu.Unlock()
}

func (h *history) note(list *[]string, s string) {
	h.mu.Lock()
	if len(*list) < 5 {
		*list = append(*list, s)
	}
	h.mu.Unlock()
}

func (w *worker) versionOf(names []string) int {
	sort.Strings(names)
	s := strings.Join(names, ",")
	for v, ns := range w.m.names {
		if s == strings.Join(ns, ",") {
			return v
		}
	}
	return -1
}

func (w *worker) publish(v int) error {
	tmp := w.m.fontDir + ".new"
	_ = os.Remove(tmp)
	if err := os.Symlink(w.m.verDirs[v], tmp); err != nil {
		return err
	}
	return os.Rename(tmp, w.m.fontDir)
}

func (w *worker) startFontTraffic(rc roundCase, start chan struct{}, opsDone *atomic.Bool, fwg *sync.WaitGroup) *history {
	h := &history{init: w.cur}
	var mutDone atomic.Bool
	// mutator (client 0)
	fwg.Add(1)
	go func() {
		defer fwg.Done()
		defer mutDone.Store(true)
		rng := w.t.RNGi("mutator", rc.Round)
		<-start
		// The directory is only switched once the registry has been loaded: a lazy first load that
		// lists the directory while it is being exchanged is a filesystem race outside the API (the
		// first load itself still happens concurrently with the readers' first lookups).
		if err := font.LoadUserFonts(); err != nil {
			h.note(&h.errs, "LoadUserFonts: "+err.Error())
			return
		}
		for i := 0; i < rc.Writes; i++ {
			v := (w.cur + 1 + rng.IntN(nVersions-1)) % nVersions
			if err := w.publish(v); err != nil {
				h.note(&h.errs, "switch directory: "+err.Error())
				return
			}
			call := h.clock.Add(1)
			err := font.ReloadUserFonts()
			ret := h.clock.Add(1)
			if err != nil {
				h.note(&h.errs, "ReloadUserFonts: "+err.Error())
				return
			}
			w.cur = v
			h.add(0, regIn{Kind: "write", V: v}, call, regOut{}, ret)
			for s := rng.IntN(200); s > 0; s-- {
				runtime.Gosched()
			}
		}
	}()
	// hunters: unrecorded tight loops that only look for states belonging to no version
	for hn := 0; hn < 2; hn++ {
		fwg.Add(1)
		go func() {
			defer fwg.Done()
			<-start
			n := int64(0)
			for ; n < 50000 && !mutDone.Load(); n++ {
				ss, err := font.UserFontNames()
				if err != nil {
					h.note(&h.errs, "UserFontNames: "+err.Error())
					break
				}
				if w.versionOf(ss) < 0 {
					h.note(&h.torn, fmt.Sprintf("UserFontNames returned %v, which is the content of no version", ss))
					break
				}
				if _, ok, err := font.UserFont(commonFont); err == nil && !ok {
					h.note(&h.torn, "UserFont("+commonFont+") not found although every version contains it")
					break
				}
			}
			w.t.Count("fontreg_hunter_lookups", 2*n)
		}()
	}
	for c := 1; c <= rc.Readers; c++ {
		fwg.Add(1)
		go func(c int) {
			defer fwg.Done()
			rng := w.t.RNGi(fmt.Sprintf("reader%d", c), rc.Round)
			<-start
			// keep looking up while the mutator writes (and a little longer), at most 120 lookups per reader
			extra := 3
			for n := 0; n < 120; n++ {
				if mutDone.Load() {
					if extra == 0 {
						break
					}
					extra--
				}
				w.lookup(h, c, rng)
				for s := rng.IntN(40); s > 0; s-- {
					runtime.Gosched()
				}
			}
		}(c)
	}
	return h
}

func (w *worker) lookup(h *history, c int, rng *rand.Rand) {
	kind := rng.IntN(6)
	v := rng.IntN(nVersions)
	name := versionFonts(v)[rng.IntN(2)]
	switch kind {
	case 0:
		call := h.clock.Add(1)
		ss, err := font.UserFontNames()
		ret := h.clock.Add(1)
		if err != nil {
			h.note(&h.errs, "UserFontNames: "+err.Error())
			return
		}
		seen := w.versionOf(ss)
		if seen < 0 {
			h.note(&h.torn, fmt.Sprintf("UserFontNames returned %v, which is the content of no version", ss))
		}
		h.add(c, regIn{Kind: "names"}, call, regOut{V: seen}, ret)
	case 1:
		call := h.clock.Add(1)
		_, ok, err := font.UserFont(name)
		ret := h.clock.Add(1)
		if err != nil {
			h.note(&h.errs, "UserFont: "+err.Error())
			return
		}
		h.add(c, regIn{Kind: "has", V: v, Via: "UserFont"}, call, regOut{Has: ok}, ret)
	case 2:
		call := h.clock.Add(1)
		ok, err := font.IsUserFont(name)
		ret := h.clock.Add(1)
		if err != nil {
			h.note(&h.errs, "IsUserFont: "+err.Error())
			return
		}
		h.add(c, regIn{Kind: "has", V: v, Via: "IsUserFont"}, call, regOut{Has: ok}, ret)
	case 3:
		call := h.clock.Add(1)
		wd, err := font.TextWidth("Verif", name, 12)
		ret := h.clock.Add(1)
		// an absent font is reported as font.ErrUnknownFont; a present one has a positive width
		if err != nil && !errors.Is(err, font.ErrUnknownFont) {
			h.note(&h.errs, "TextWidth: "+err.Error())
			return
		}
		if err == nil && wd <= 0 {
			h.note(&h.errs, fmt.Sprintf("TextWidth(%s) = %v", name, wd))
			return
		}
		h.add(c, regIn{Kind: "has", V: v, Via: "TextWidth"}, call, regOut{Has: err == nil}, ret)
	case 4:
		call := h.clock.Add(1)
		ok, err := font.SupportedFont(name)
		ret := h.clock.Add(1)
		if err != nil {
			h.note(&h.errs, "SupportedFont: "+err.Error())
			return
		}
		h.add(c, regIn{Kind: "has", V: v, Via: "SupportedFont"}, call, regOut{Has: ok}, ret)
	case 5:
		// the font every version contains must never be missing
		_, ok, err := font.UserFont(commonFont)
		if err != nil {
			h.note(&h.errs, "UserFont: "+err.Error())
		} else if !ok {
			h.note(&h.torn, "UserFont("+commonFont+") not found although every version contains it")
		}
	}
}

func (w *worker) checkHistory(rc roundCase, h *history) {
	t := w.t
	rcShort := rc
	rcShort.Tasks = nil
	t.Eval(fmt.Sprintf("fontreg/G=%d/P=%d/readers=%d/writes=%d/delays=%v", rc.G, rc.Procs, rc.Readers, rc.Writes, rc.Delays))
	t.Count("fontreg_histories", 1)
	t.Count("fontreg_operations", int64(len(h.ops)))
	nw := 0
	for _, o := range h.ops {
		if o.Input.(regIn).Kind == "write" {
			nw++
		}
	}
	t.Count("fontreg_writes", int64(nw))
	for _, e := range h.errs {
		t.Violate("fontreg/error", fmt.Sprintf("round %d: %s", rc.Round, e), rcShort)
	}
	for _, e := range h.torn {
		t.Violate("fontreg/torn-read", fmt.Sprintf("round %d (GOMAXPROCS %d): %s", rc.Round, rc.Procs, e), rcShort)
	}
	init := h.init
	model := porcupine.Model{
		Init: func() interface{} { return init },
		Step: func(state, input, output interface{}) (bool, interface{}) {
			s, in, out := state.(int), input.(regIn), output.(regOut)
			switch in.Kind {
			case "write":
				return true, in.V
			case "names":
				return out.V == s, s
			default:
				return out.Has == (s == in.V), s
			}
		},
		DescribeOperation: func(input, output interface{}) string {
			in, out := input.(regIn), output.(regOut)
			switch in.Kind {
			case "write":
				return fmt.Sprintf("reload(v%d)", in.V)
			case "names":
				return fmt.Sprintf("names()=v%d", out.V)
			}
			return fmt.Sprintf("%s(font of v%d)=%v", in.Via, in.V, out.Has)
		},
	}
	res := porcupine.CheckOperationsTimeout(model, h.ops, 20*time.Second)
	switch res {
	case porcupine.Ok:
		t.Count("fontreg_linearizable", 1)
	case porcupine.Unknown:
		t.Inconclusive("fontreg-porcupine-timeout")
	case porcupine.Illegal:
		var sb strings.Builder
		ops := append([]porcupine.Operation(nil), h.ops...)
		sort.Slice(ops, func(i, j int) bool { return ops[i].Call < ops[j].Call })
		for i, o := range ops {
			if i >= 40 {
				sb.WriteString(" …")
				break
			}
			fmt.Fprintf(&sb, " [c%d %d-%d %s]", o.ClientId, o.Call, o.Return, model.DescribeOperation(o.Input, o.Output))
		}
		t.Violate("fontreg/not-linearizable", fmt.Sprintf("round %d (GOMAXPROCS %d, %d readers, %d reloads, initial v%d): the font registry history is not linearizable as one register:%s",
			rc.Round, rc.Procs, rc.Readers, rc.Writes, init, sb.String()), rcShort)
	}
}
