//go:build verifshadow

package main

import "verif/harness/internal/osmon"

const haveOsmon = true

// withDelays runs f with a sleep of micros µs injected before every n-th filesystem call below
// scope (schedule widening at real suspension points; decides nothing).
func withDelays(scope string, every int64, micros int, f func()) {
	m := &osmon.Mon{Scope: scope, DelayEvery: every, DelayMicros: micros}
	m.Run(f)
}
