package main

import (
	"os"
	"testing"
	"time"

	"github.com/pdfcpu/pdfcpu/pkg/api"
	"verif/harness/internal/vk"
)

func TestProbeCost(t *testing.T) {
	api.DisableConfigDir()
	vkT := &vk.T{ID: "C40", Tier: "quick", Seed: 1, Root: "/verif"}
	m := setupMaterial(vkT)
	defer os.RemoveAll(m.root)
	w := &worker{t: vkT, m: m, refs: map[string]*refEntry{}}
	for i, d := range m.docs {
		t.Logf("doc %d %s %d bytes", i, d.Name, len(d.Data))
	}
	for _, op := range ops {
		var tot time.Duration
		for i := 0; i < len(m.docs); i++ {
			d, d2 := w.docsFor(&op, task{Doc: i, Doc2: (i + 1) % len(m.docs)})
			st := time.Now()
			r := w.exec(&op, d, d2, m.root+"/ref")
			tot += time.Since(st)
			_ = r
		}
		t.Logf("%-18s %8.1f ms per doc", op.Name, float64(tot.Milliseconds())/float64(len(m.docs)))
	}
}
