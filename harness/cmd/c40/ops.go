package main

import (
	"bytes"
	"crypto/sha256"
	"encoding/hex"
	"encoding/json"
	"fmt"
	"io"
	"os"
	"path/filepath"
	"regexp"
	"sort"
	"strings"

	"github.com/pdfcpu/pdfcpu/pkg/api"
	"github.com/pdfcpu/pdfcpu/pkg/font"
	"github.com/pdfcpu/pdfcpu/pkg/pdfcpu/model"
	"github.com/pdfcpu/pdfcpu/pkg/pdfcpu/types"
	"verif/harness/internal/fontkit"
	"verif/harness/internal/pdfcmp"
	"verif/harness/internal/pdfgen"
	"verif/harness/internal/pdfstrict"
	"verif/harness/internal/vk"
)

// ---------------------------------------------------------------------------------------------
// material: inputs and the sandboxed user font directory

type doc struct {
	Name string
	Data []byte
}

type material struct {
	root     string // scratch
	docs     []doc  // general documents, then (from nGeneral on) the free-list documents
	nGeneral int
	formEN   doc // AcroForm using a core font + its fill data
	jsonEN   []byte
	formUK   doc // AcroForm using the user font Roboto-Regular + its fill data
	jsonUK   []byte
	fontDir  string // font.UserFontDir (a symlink to one of verDirs)
	verDirs  []string
	// names[v] = the registry content of version v (sorted), common = names present in every version
	names  [][]string
	common []string
}

const commonFont = "Roboto-Regular"

// version v holds commonFont plus two fonts only it has.
func versionFonts(v int) []string {
	return []string{fmt.Sprintf("Verv%da-Regular", v), fmt.Sprintf("Verv%db-Regular", v)}
}

const nVersions = 3

func newConf() *model.Configuration {
	c := model.NewDefaultConfiguration()
	c.Offline = true
	return c
}

// manifest is what the parent hands to the shards: everything that needs pdfcpu calls to be prepared
// (font installation, document selection) is done once in the parent, so that a shard's first pdfcpu
// call of any kind happens inside a concurrent round (lazy initialisation is part of what is observed).
type manifest struct {
	Docs     []string   `json:"docs"`      // names; bytes are in <dir>/doc<i>.pdf
	NGeneral int        `json:"n_general"` // Docs[NGeneral:] are the free-list documents (freelist.go)
	VerDirs  []string   `json:"ver_dirs"`
	Names    [][]string `json:"names"`
}

// loadMaterial is the shard side: no pdfcpu call except pointing font.UserFontDir at a private symlink.
func loadMaterial(t *vk.T, dir string) *material {
	var mf manifest
	b, err := os.ReadFile(filepath.Join(dir, "manifest.json"))
	if err != nil {
		t.Broken("material: %v", err)
	}
	if err := json.Unmarshal(b, &mf); err != nil {
		t.Broken("material: %v", err)
	}
	m := &material{root: t.Scratch(), verDirs: mf.VerDirs, names: mf.Names, common: []string{commonFont}}
	rd := func(name string) []byte {
		b, err := os.ReadFile(filepath.Join(dir, name))
		if err != nil {
			t.Broken("material: %v", err)
		}
		return b
	}
	for i, n := range mf.Docs {
		m.docs = append(m.docs, doc{n, rd(fmt.Sprintf("doc%d.pdf", i))})
	}
	m.nGeneral = mf.NGeneral
	m.formEN, m.jsonEN = doc{"form/english.pdf", rd("english.pdf")}, rd("english.json")
	m.formUK, m.jsonUK = doc{"form/ukrainian.pdf", rd("ukrainian.pdf")}, rd("ukrainian.json")
	m.fontDir = filepath.Join(m.root, "fonts")
	if err := os.Symlink(m.verDirs[0], m.fontDir); err != nil {
		t.Broken("symlink: %v", err)
	}
	font.UserFontDir = m.fontDir
	return m
}

// prepareMaterial is the parent side; it returns the directory holding the manifest.
func prepareMaterial(t *vk.T) string {
	m := &material{root: filepath.Join(t.Scratch(), "material")}
	_ = os.MkdirAll(m.root, 0o755)
	repo := vk.RepoDir()

	// fonts: one directory per version, filled by the real installer
	base, err := os.ReadFile(filepath.Join(repo, "pkg", "testdata", "fonts", "Roboto-Regular.ttf"))
	if err != nil {
		t.Broken("font: %v", err)
	}
	src := filepath.Join(m.root, "ttf")
	_ = os.MkdirAll(src, 0o755)
	for v := 0; v < nVersions; v++ {
		dir := filepath.Join(m.root, fmt.Sprintf("fonts-v%d", v))
		_ = os.MkdirAll(dir, 0o755)
		var files []string
		names := append([]string{commonFont}, versionFonts(v)...)
		for _, n := range names {
			b := base
			if n != commonFont {
				if b, _, err = fontkit.Rename(base, commonFont, n); err != nil {
					t.Broken("rename font: %v", err)
				}
			}
			p := filepath.Join(src, n+".ttf")
			if err := os.WriteFile(p, b, 0o644); err != nil {
				t.Broken("font: %v", err)
			}
			files = append(files, p)
		}
		font.UserFontDir = dir
		if err := api.InstallFonts(files); err != nil {
			t.Broken("InstallFonts(v%d): %v", v, err)
		}
		sort.Strings(names)
		m.names = append(m.names, names)
		m.verDirs = append(m.verDirs, dir)
	}
	for v, dir := range m.verDirs {
		font.UserFontDir = dir
		if err := font.ReloadUserFonts(); err != nil {
			t.Broken("ReloadUserFonts: %v", err)
		}
		got, _ := font.UserFontNames()
		sort.Strings(got)
		if strings.Join(got, ",") != strings.Join(m.names[v], ",") {
			t.Broken("font registry for version %d: %v, want %v", v, got, m.names[v])
		}
	}

	// documents: small corpus files + generated ones
	files, _ := filepath.Glob(filepath.Join(repo, "pkg", "testdata", "*.pdf"))
	sort.Strings(files)
	rng := t.RNG("docs")
	rng.Shuffle(len(files), func(i, j int) { files[i], files[j] = files[j], files[i] })
	want := t.Pick(6, 14)
	for _, f := range files {
		if len(m.docs) >= want {
			break
		}
		st, err := os.Stat(f)
		if err != nil || st.Size() < 2000 || st.Size() > 80_000 {
			continue
		}
		b, err := os.ReadFile(f)
		if err != nil {
			continue
		}
		if n, err := api.PageCount(bytes.NewReader(b), newConf()); err != nil || n < 2 || n > 12 {
			continue
		}
		if api.Validate(bytes.NewReader(b), newConf()) != nil {
			continue
		}
		if api.Optimize(bytes.NewReader(b), io.Discard, newConf()) != nil {
			continue
		}
		m.docs = append(m.docs, doc{"corpus/" + filepath.Base(f), b})
	}
	grng := t.RNG("gen")
	for i := 0; len(m.docs) < want+t.Pick(4, 10) && i < 60; i++ {
		spec := pdfgen.RandomSpec(grng, 5)
		spec.Signatures = 0
		if spec.Pages < 2 {
			spec.Pages = 2
		}
		bt := pdfgen.Build(spec)
		if api.Validate(bytes.NewReader(bt.Bytes), newConf()) != nil {
			continue
		}
		if api.Optimize(bytes.NewReader(bt.Bytes), io.Discard, newConf()) != nil {
			continue
		}
		m.docs = append(m.docs, doc{fmt.Sprintf("gen/%d/xref=%s,objstm=%v,pages=%d", i, spec.Write.XRef, spec.Write.ObjStm, spec.Pages), bt.Bytes})
	}
	if len(m.docs) < 4 {
		t.Broken("only %d usable documents", len(m.docs))
	}
	m.nGeneral = len(m.docs)
	m.docs = append(m.docs, freeListDocs(t, t.Pick(len(freeListKinds), 2*len(freeListKinds)))...)
	if len(m.docs)-m.nGeneral < 4 {
		t.Broken("only %d usable free-list documents", len(m.docs)-m.nGeneral)
	}
	rd := func(parts ...string) []byte {
		b, err := os.ReadFile(filepath.Join(append([]string{repo, "pkg", "samples", "form"}, parts...)...))
		if err != nil {
			t.Broken("form fixture: %v", err)
		}
		return b
	}
	wr := func(name string, b []byte) {
		if err := os.WriteFile(filepath.Join(m.root, name), b, 0o644); err != nil {
			t.Broken("material: %v", err)
		}
	}
	wr("english.pdf", rd("demoSinglePage", "english.pdf"))
	wr("english.json", rd("fill", "english.json"))
	wr("ukrainian.pdf", rd("demoSinglePage", "ukrainian.pdf"))
	wr("ukrainian.json", rd("fill", "ukrainian.json"))
	mf := manifest{VerDirs: m.verDirs, Names: m.names, NGeneral: m.nGeneral}
	for i, d := range m.docs {
		mf.Docs = append(mf.Docs, d.Name)
		wr(fmt.Sprintf("doc%d.pdf", i), d.Data)
	}
	b, _ := json.Marshal(mf)
	wr("manifest.json", b)
	return m.root
}

// ---------------------------------------------------------------------------------------------
// operations (bytes in, bytes out)

type opFunc func(m *material, d, d2 doc, dir string) ([]byte, error)

type opDef struct {
	Name string
	// Kind: "pdf" output is one PDF; "pdfs" output is a framed list of PDFs; "text" anything else (compared byte for byte).
	Kind string
	// Encrypted output: decrypted (owner password) before comparing.
	Encrypted bool
	// Form: runs on the form fixture (english / ukrainian), not on a general document.
	Form string
	Run  opFunc
}

func frame(parts [][]byte) []byte {
	var b bytes.Buffer
	for _, p := range parts {
		fmt.Fprintf(&b, "@part %d\n", len(p))
		b.Write(p)
	}
	return b.Bytes()
}

func unframe(b []byte) [][]byte {
	var out [][]byte
	for len(b) > 0 {
		var n int
		i := bytes.IndexByte(b, '\n')
		if i < 0 {
			return nil
		}
		if _, err := fmt.Sscanf(string(b[:i]), "@part %d", &n); err != nil || i+1+n > len(b) {
			return nil
		}
		out = append(out, b[i+1:i+1+n])
		b = b[i+1+n:]
	}
	return out
}

func stamp(desc string) opFunc {
	return func(m *material, d, _ doc, _ string) ([]byte, error) {
		wm, err := api.TextWatermark("Verif C40 äö", desc, true, false, types.POINTS)
		if err != nil {
			return nil, err
		}
		var w bytes.Buffer
		err = api.AddWatermarks(bytes.NewReader(d.Data), &w, []string{"1-2"}, wm, newConf())
		return w.Bytes(), err
	}
}

var ops = []opDef{
	{Name: "read", Kind: "text", Run: func(m *material, d, _ doc, _ string) ([]byte, error) {
		ctx, err := api.ReadContext(bytes.NewReader(d.Data), newConf())
		if err != nil {
			return nil, err
		}
		size := -1
		if ctx.XRefTable.Size != nil {
			size = *ctx.XRefTable.Size
		}
		return []byte(fmt.Sprintf("size=%d table=%d version=%v", size, len(ctx.Table), ctx.HeaderVersion)), nil
	}},
	{Name: "validate", Kind: "text", Run: func(m *material, d, _ doc, _ string) ([]byte, error) {
		return []byte("valid"), api.Validate(bytes.NewReader(d.Data), newConf())
	}},
	{Name: "pagedims", Kind: "text", Run: func(m *material, d, _ doc, _ string) ([]byte, error) {
		pd, err := api.PageDims(bytes.NewReader(d.Data), newConf())
		return []byte(fmt.Sprint(pd)), err
	}},
	{Name: "optimize", Kind: "pdf", Run: func(m *material, d, _ doc, _ string) ([]byte, error) {
		var w bytes.Buffer
		err := api.Optimize(bytes.NewReader(d.Data), &w, newConf())
		return w.Bytes(), err
	}},
	{Name: "optimize-file", Kind: "pdf", Run: func(m *material, d, _ doc, dir string) ([]byte, error) {
		in, out := filepath.Join(dir, "in.pdf"), filepath.Join(dir, "out.pdf")
		if err := os.WriteFile(in, d.Data, 0o644); err != nil {
			return nil, err
		}
		if err := api.OptimizeFile(in, out, newConf()); err != nil {
			return nil, err
		}
		return os.ReadFile(out)
	}},
	{Name: "stamp-corefont", Kind: "pdf", Run: stamp("font:Helvetica, points:24, rot:30, op:0.6")},
	{Name: "stamp-userfont", Kind: "pdf", Run: stamp("font:" + commonFont + ", points:20, rot:0, op:0.8")},
	{Name: "fill-corefont", Kind: "pdf", Form: "en", Run: func(m *material, d, _ doc, _ string) ([]byte, error) {
		var w bytes.Buffer
		err := api.FillForm(bytes.NewReader(d.Data), bytes.NewReader(m.jsonEN), &w, newConf())
		return w.Bytes(), err
	}},
	{Name: "fill-userfont", Kind: "pdf", Form: "uk", Run: func(m *material, d, _ doc, _ string) ([]byte, error) {
		var w bytes.Buffer
		err := api.FillForm(bytes.NewReader(d.Data), bytes.NewReader(m.jsonUK), &w, newConf())
		return w.Bytes(), err
	}},
	{Name: "encrypt-aes256", Kind: "pdf", Encrypted: true, Run: func(m *material, d, _ doc, _ string) ([]byte, error) {
		var w bytes.Buffer
		conf := model.NewAESConfiguration("upw", "opw", 256)
		conf.Offline = true
		err := api.Encrypt(bytes.NewReader(d.Data), &w, conf)
		return w.Bytes(), err
	}},
	{Name: "encrypt-rc4-128", Kind: "pdf", Encrypted: true, Run: func(m *material, d, _ doc, _ string) ([]byte, error) {
		var w bytes.Buffer
		conf := model.NewRC4Configuration("upw", "opw", 128)
		conf.Offline = true
		err := api.Encrypt(bytes.NewReader(d.Data), &w, conf)
		return w.Bytes(), err
	}},
	{Name: "merge", Kind: "pdf", Run: func(m *material, d, d2 doc, _ string) ([]byte, error) {
		var w bytes.Buffer
		err := api.MergeRaw([]io.ReadSeeker{bytes.NewReader(d.Data), bytes.NewReader(d2.Data)}, &w, false, newConf())
		return w.Bytes(), err
	}},
	// operations that free objects (free list: FreeObject / DeleteObject, on write UndeleteObject)
	{Name: "remove-pages", Kind: "pdf", Run: func(m *material, d, _ doc, _ string) ([]byte, error) {
		var w bytes.Buffer
		err := api.RemovePages(bytes.NewReader(d.Data), &w, []string{"2"}, newConf())
		return w.Bytes(), err
	}},
	{Name: "remove-annotations", Kind: "pdf", Run: func(m *material, d, _ doc, _ string) ([]byte, error) {
		var w bytes.Buffer
		err := api.RemoveAnnotations(bytes.NewReader(d.Data), &w, nil, nil, nil, newConf())
		return w.Bytes(), err
	}},
	{Name: "split", Kind: "pdfs", Run: func(m *material, d, _ doc, _ string) ([]byte, error) {
		ps, err := api.SplitRaw(bytes.NewReader(d.Data), 1, newConf())
		if err != nil {
			return nil, err
		}
		var parts [][]byte
		for _, p := range ps {
			b, err := io.ReadAll(p.Reader)
			if err != nil {
				return nil, err
			}
			parts = append(parts, b)
		}
		return frame(parts), nil
	}},
	{Name: "extract-pages", Kind: "pdfs", Run: func(m *material, d, _ doc, _ string) ([]byte, error) {
		var parts [][]byte
		err := api.ExtractPages(bytes.NewReader(d.Data), []string{"1-2"}, func(r io.Reader, _ int) error {
			b, err := io.ReadAll(r)
			parts = append(parts, b)
			return err
		}, newConf())
		return frame(parts), err
	}},
	{Name: "extract-content", Kind: "text", Run: func(m *material, d, _ doc, _ string) ([]byte, error) {
		h := sha256.New()
		n := 0
		err := api.ExtractContent(bytes.NewReader(d.Data), nil, func(r io.Reader, pageNr int) error {
			b, err := io.ReadAll(r)
			fmt.Fprintf(h, "page %d len %d\n", pageNr, len(b))
			h.Write(b)
			n++
			return err
		}, newConf())
		return []byte(fmt.Sprintf("%d streams %s", n, hex.EncodeToString(h.Sum(nil)))), err
	}},
	{Name: "extract-images", Kind: "text", Run: func(m *material, d, _ doc, _ string) ([]byte, error) {
		imgs, err := api.ExtractImagesRaw(bytes.NewReader(d.Data), nil, newConf())
		if err != nil {
			return nil, err
		}
		var lines []string
		for _, pm := range imgs {
			for objNr, img := range pm {
				b, _ := io.ReadAll(img)
				sum := sha256.Sum256(b)
				lines = append(lines, fmt.Sprintf("p%d obj%d %s %dx%d %s", img.PageNr, objNr, img.FileType, img.Width, img.Height, hex.EncodeToString(sum[:8])))
			}
		}
		sort.Strings(lines)
		return []byte(strings.Join(lines, "\n")), nil
	}},
}

func opByName(n string) *opDef {
	for i := range ops {
		if ops[i].Name == n {
			return &ops[i]
		}
	}
	return nil
}

// ---------------------------------------------------------------------------------------------
// comparison

var dropKeys = map[string]bool{"ID": true, "CreationDate": true, "ModDate": true}

func canonPDF(data []byte) (string, error) {
	d, err := pdfstrict.Open(data, pdfstrict.Options{})
	if err != nil {
		return "", err
	}
	tr := d.Trailer()
	root := pdfstrict.Dict{}
	if v, ok := tr["Root"]; ok {
		root["Root"] = v
	}
	if v, ok := tr["Info"]; ok {
		root["Info"] = v
	}
	return d.Canonical(root, pdfstrict.CanonOpts{DropKeys: dropKeys, DropNullEntries: true}), nil
}

// result is what one execution of a task produced.
type result struct {
	Out   []byte
	Err   string
	Panic string
}

func decryptOut(b []byte) ([]byte, error) {
	var w bytes.Buffer
	conf := newConf()
	conf.UserPW, conf.OwnerPW = "upw", "opw"
	err := api.Decrypt(bytes.NewReader(b), &w, conf)
	return w.Bytes(), err
}

// prepared caches the derived views of one result (decrypted bytes, masked bytes, canonical graphs).
type prepared struct {
	res      result
	op       *opDef
	plain    []byte
	plainErr error
	havePl   bool
	norm     []byte
	canon    []string
	canonErr error
	haveCn   bool
}

func prepare(op *opDef, r result) *prepared { return &prepared{res: r, op: op} }

func (p *prepared) plainBytes() ([]byte, error) {
	if !p.havePl {
		p.havePl = true
		p.plain = p.res.Out
		if p.op.Encrypted {
			p.plain, p.plainErr = decryptOut(p.res.Out)
		}
	}
	return p.plain, p.plainErr
}

// subset font tags (ABCDEF+FontName) are drawn at random per run, like /ID
var reSubsetTag = regexp.MustCompile(`/[A-Z]{6}(\+|#2[bB])`)

func maskTags(b []byte) []byte { return reSubsetTag.ReplaceAll(b, []byte("/XXXXXX+")) }

func (p *prepared) normBytes() []byte {
	if p.norm == nil {
		b, _ := p.plainBytes()
		p.norm = maskTags(pdfcmp.Normalize(b))
	}
	return p.norm
}

func (p *prepared) canons() ([]string, error) {
	if !p.haveCn {
		p.haveCn = true
		b, _ := p.plainBytes()
		parts := [][]byte{b}
		if p.op.Kind == "pdfs" {
			parts = unframe(b)
		}
		for i, part := range parts {
			c, err := canonPDF(part)
			if err != nil {
				p.canonErr = fmt.Errorf("part %d: strict reader: %v", i, err)
				break
			}
			p.canon = append(p.canon, string(maskTags([]byte(c))))
		}
	}
	return p.canon, p.canonErr
}

// same decides whether got is "the same result" as ref for operation op; level says how it was
// established: bytes (equal after masking /ID, dates and subset font tags), graph (equal canonical
// object graph).
func same(op *opDef, ref, got *prepared) (ok bool, level, why string) {
	if ref.res.Panic != "" || got.res.Panic != "" {
		return ref.res.Panic == got.res.Panic, "panic", fmt.Sprintf("panic alone: %q, concurrent: %q", ref.res.Panic, got.res.Panic)
	}
	if ref.res.Err != got.res.Err {
		return false, "error", fmt.Sprintf("error alone: %q, concurrent: %q", ref.res.Err, got.res.Err)
	}
	if ref.res.Err != "" {
		return true, "error", ""
	}
	a, e1 := ref.plainBytes()
	b, e2 := got.plainBytes()
	if e1 != nil || e2 != nil {
		return e1 != nil && e2 != nil, "decrypt", fmt.Sprintf("decrypt alone: %v, concurrent: %v", e1, e2)
	}
	if op.Kind == "text" {
		return bytes.Equal(a, b), "bytes", fmt.Sprintf("alone %q, concurrent %q", clip(a), clip(b))
	}
	if bytes.Equal(ref.normBytes(), got.normBytes()) {
		return true, "bytes", ""
	}
	ca, e1 := ref.canons()
	cb, e2 := got.canons()
	if e1 != nil || e2 != nil {
		return false, "graph", fmt.Sprintf("alone: %v, concurrent: %v", e1, e2)
	}
	if len(ca) != len(cb) {
		return false, "graph", fmt.Sprintf("%d parts alone, %d concurrent", len(ca), len(cb))
	}
	for i := range ca {
		if ca[i] != cb[i] {
			return false, "graph", fmt.Sprintf("part %d: object graphs differ: %s", i, firstDiff(ca[i], cb[i]))
		}
	}
	return true, "graph", ""
}

func clip(b []byte) string {
	if len(b) > 120 {
		return string(b[:120]) + "…"
	}
	return string(b)
}

func firstDiff(a, b string) string {
	la, lb := strings.Split(a, "\n"), strings.Split(b, "\n")
	for i := 0; i < len(la) && i < len(lb); i++ {
		if la[i] != lb[i] {
			x, y := la[i], lb[i]
			if len(x) > 160 {
				x = x[:160] + "…"
			}
			if len(y) > 160 {
				y = y[:160] + "…"
			}
			return fmt.Sprintf("line %d: alone %q / concurrent %q", i, x, y)
		}
	}
	return fmt.Sprintf("%d lines alone, %d concurrent", len(la), len(lb))
}
