//go:build !verifshadow

package main

const haveOsmon = false

func withDelays(scope string, every int64, micros int, f func()) { f() }
