// opcatprobe: self-test of the operation catalogue — every op must SUCCEED fault-free in
// new-output mode (and in-place where allowed) and, for SingleOut PDF outputs, produce a file that validates.
package main

import (
	"fmt"
	"math/rand/v2"
	"os"
	"path/filepath"
	"strconv"
	"strings"
	"time"

	"github.com/pdfcpu/pdfcpu/pkg/api"
	"verif/harness/internal/opcat"
	"verif/harness/internal/vk"
)

// usage: opcatprobe [-rng N] [nameFilter]
//
//	-rng N: additionally run every op N times with Call.Rng set (seeds 1..N), alternating new output / in place.
func main() {
	api.DisableConfigDir()
	args := os.Args[1:]
	rngRuns := 0
	if len(args) >= 2 && args[0] == "-rng" {
		rngRuns, _ = strconv.Atoi(args[1])
		args = args[2:]
	}
	filter := ""
	if len(args) > 0 {
		filter = args[0]
	}
	base, err := os.MkdirTemp(os.Getenv("VERIF_CACHE")+"/run", "opcat-")
	if err != nil {
		panic(err)
	}
	defer os.RemoveAll(base)
	fx := filepath.Join(base, "fx")
	os.MkdirAll(fx, 0o755)
	if err := opcat.Prepare(vk.RepoDir(), fx); err != nil {
		fmt.Println("PREPARE FAILED:", err)
		os.Exit(1)
	}
	bad := 0
	for i, op := range opcat.All() {
		if filter != "" && !strings.Contains(op.Name, filter) {
			continue
		}
		type mode struct {
			inplace bool
			seed    uint64 // 0 = fixed default parameters
		}
		modes := []mode{{false, 0}, {true, 0}}
		for k := 1; k <= rngRuns; k++ {
			modes = append(modes, mode{k%2 == 0, uint64(k)})
		}
		for _, m := range modes {
			inplace := m.inplace
			if inplace && !op.InPlace {
				if m.seed == 0 {
					continue
				}
				inplace = false
			}
			sb := filepath.Join(base, fmt.Sprintf("sb%d", i))
			os.RemoveAll(sb)
			os.MkdirAll(sb, 0o755)
			// Only the declared fixtures (Input + Extra) are present: an undeclared read fails the call.
			for _, n := range declared(op) {
				b, _ := os.ReadFile(filepath.Join(fx, n))
				os.WriteFile(filepath.Join(sb, n), b, 0o644)
			}
			c := &opcat.Call{Dir: sb}
			if m.seed != 0 {
				c.Rng = rand.New(rand.NewPCG(m.seed, uint64(i)))
			}
			if op.Input != "" {
				c.In = filepath.Join(sb, op.Input)
			}
			switch {
			case inplace:
				c.Out = ""
			case op.Kind == opcat.DirOut:
				c.Out = filepath.Join(sb, "outdir")
				os.MkdirAll(c.Out, 0o755)
			default:
				c.Out = filepath.Join(sb, op.OutName)
				if op.AppendsToOut {
					b, _ := os.ReadFile(filepath.Join(fx, opcat.FxOne))
					os.WriteFile(c.Out, b, 0o644)
				}
			}
			t0 := time.Now()
			err := func() (err error) {
				defer func() {
					if r := recover(); r != nil {
						err = fmt.Errorf("PANIC: %v", r)
					}
				}()
				return op.Run(c)
			}()
			dur := time.Since(t0)
			status := "ok"
			if err != nil {
				status = "FAIL: " + err.Error()
				bad++
			} else if op.Kind == opcat.SingleOut && strings.HasSuffix(op.OutName, ".pdf") {
				target := c.Out
				if inplace {
					target = c.In
				}
				conf := opcat.DefaultConf()
				conf.UserPW, conf.OwnerPW = "", ""
				if verr := api.ValidateFile(target, conf); verr != nil && !strings.Contains(verr.Error(), "password") {
					status = "OUTPUT INVALID: " + verr.Error()
					bad++
				}
			} else if op.Kind == opcat.DirOut {
				ents, _ := os.ReadDir(c.Out)
				if len(ents) == 0 {
					status = "FAIL: no output files"
					bad++
				} else {
					status = fmt.Sprintf("ok (%d files)", len(ents))
				}
			}
			if problems := strayFiles(sb, fx, op, c, inplace); problems != "" {
				status += " | SANDBOX: " + problems
				bad++
			}
			if dur > 300*time.Millisecond {
				status += fmt.Sprintf(" | SLOW %v", dur.Round(time.Millisecond))
			}
			if m.seed == 0 || status != "ok" && !strings.HasPrefix(status, "ok (") {
				fmt.Printf("%-40s inplace=%-5v seed=%-3d %4dms %s\n", op.Name, inplace, m.seed, dur.Milliseconds(), status)
			}
		}
	}
	completeness()
	fmt.Printf("%d ops, %d problems\n", len(opcat.All()), bad)
	if bad > 0 {
		os.Exit(1)
	}
}

// strayFiles checks the field semantics the engines rely on: after a successful or failed call every fixture other than
// the in-place input is byte-identical, and nothing but the declared output appears in the sandbox.
func strayFiles(sb, fx string, op opcat.Op, c *opcat.Call, inplace bool) string {
	var problems []string
	fixtures := map[string]bool{}
	known := map[string]bool{}
	for _, n := range opcat.FixtureNames() {
		known[n] = true
	}
	for _, n := range declared(op) {
		if !known[n] {
			problems = append(problems, "declared fixture not in FixtureNames: "+n)
		}
		fixtures[n] = true
		if inplace && n == op.Input {
			continue
		}
		a, _ := os.ReadFile(filepath.Join(fx, n))
		b, err := os.ReadFile(filepath.Join(sb, n))
		if err != nil || string(a) != string(b) {
			problems = append(problems, "fixture modified: "+n)
		}
	}
	ents, _ := os.ReadDir(sb)
	for _, e := range ents {
		n := e.Name()
		if fixtures[n] {
			continue
		}
		if !inplace && filepath.Join(sb, n) == c.Out {
			continue
		}
		problems = append(problems, "stray: "+n)
	}
	return strings.Join(problems, ", ")
}

func declared(op opcat.Op) []string {
	out := append([]string(nil), op.Extra...)
	if op.Input != "" {
		out = append(out, op.Input)
	}
	return out
}

// completeness reports (never fails) which exported *File / *Files functions of pkg/api no catalogue entry covers.
func completeness() {
	all, err := opcat.APIFileFuncs(vk.RepoDir())
	if err != nil {
		fmt.Println("completeness: cannot parse pkg/api:", err)
		return
	}
	unc, _ := opcat.Uncovered(vk.RepoDir())
	var ro []string
	for _, n := range all {
		if opcat.ReadOnlyAPI[n] {
			ro = append(ro, n)
		}
	}
	fmt.Printf("completeness: %d exported *File/*Files functions in pkg/api, %d covered, %d read-only, %d uncovered writers\n",
		len(all), len(all)-len(ro)-len(unc), len(ro), len(unc))
	fmt.Println("  read-only (out of scope):", strings.Join(ro, " "))
	if len(unc) == 0 {
		fmt.Println("  UNCOVERED writers: none")
	}
	for _, n := range unc {
		why := opcat.SkippedWriters[n]
		if why == "" {
			why = "NOT CLASSIFIED"
		}
		fmt.Printf("  UNCOVERED writer: %s (%s)\n", n, why)
	}
}
