// C16 — decode limits are exact and bounded decoding yields prefixes.
//
// For every encoded input (true decoded length n ≤ 300, taken from reference decoders) the
// worker enumerates every limit L in 1..n+2 (unbounded decoding under a limit) and every bound
// m in 0..n+2 (bounded decoding), at the filter.Filter interface and at types.StreamDict.
package main

import (
	"bytes"
	"encoding/hex"
	"errors"
	"fmt"
	"io"
	"math/rand/v2"
	"runtime/debug"
	"strings"
	"sync"
	"sync/atomic"

	"github.com/pdfcpu/pdfcpu/pkg/filter"
	"github.com/pdfcpu/pdfcpu/pkg/pdfcpu/types"
	"verif/harness/internal/vk"
)

const maxN = 300

type input struct {
	Class    string  `json:"class"` // pipeline signature, e.g. "a85+flate(png)"
	Source   string  `json:"encoder"`
	Pipeline []stage `json:"pipeline"`
	Enc      []byte  `json:"-"`
	EncHex   string  `json:"encoded_hex"`
	Full     []byte  `json:"-"`
	N        int     `json:"n"`
	MaxStage int     `json:"max_stage_output"` // largest output of any decode stage (= n for one stage)
}

type vcase struct {
	In  input  `json:"input"`
	API string `json:"api"`
	L   int64  `json:"limit"`
	M   int64  `json:"bound"`
	Got string `json:"got_hex,omitempty"`
	Err string `json:"err,omitempty"`
}

func innermostFrame(stack string) string {
	for _, ln := range strings.Split(stack, "\n") {
		if strings.HasPrefix(ln, "github.com/pdfcpu/pdfcpu/") {
			if i := strings.LastIndex(ln, "("); i > 0 {
				ln = ln[:i]
			}
			return strings.TrimPrefix(ln, "github.com/pdfcpu/pdfcpu/")
		}
	}
	return "?"
}

type panicErr struct{ frame, msg string }

func (p panicErr) Error() string { return "panic: " + p.msg + " @ " + p.frame }

func guard(f func() ([]byte, error)) (out []byte, err error) {
	defer func() {
		if r := recover(); r != nil {
			err = panicErr{innermostFrame(string(debug.Stack())), fmt.Sprint(r)}
		}
	}()
	return f()
}

// filterDecode: NewFilter(name, parms[, L]).Decode / .DecodeLength(m). L == 0: no limit argument (default).
func filterDecode(s stage, enc []byte, L, m int64) ([]byte, error) {
	return guard(func() ([]byte, error) {
		var f filter.Filter
		var err error
		if L > 0 {
			f, err = filter.NewFilter(s.Name, s.Parms, L)
		} else {
			f, err = filter.NewFilter(s.Name, s.Parms)
		}
		if err != nil {
			return nil, err
		}
		var r io.Reader
		if m < 0 {
			r, err = f.Decode(bytes.NewReader(enc))
		} else {
			r, err = f.DecodeLength(bytes.NewReader(enc), m)
		}
		if err != nil {
			return nil, err
		}
		if r == nil {
			return nil, errors.New("nil reader without error")
		}
		return io.ReadAll(r)
	})
}

func newSD(in input) *types.StreamDict {
	d := types.NewDict()
	var names types.Array
	var parms types.Array
	hasParms := false
	var pl []types.PDFFilter
	for _, s := range in.Pipeline {
		names = append(names, types.Name(s.Name))
		var dp types.Dict
		if len(s.Parms) > 0 {
			dp = types.NewDict()
			for k, v := range s.Parms {
				dp[k] = types.Integer(v)
			}
			parms = append(parms, dp)
			hasParms = true
		} else {
			parms = append(parms, nil)
		}
		pl = append(pl, types.PDFFilter{Name: s.Name, DecodeParms: dp})
	}
	if len(names) == 1 {
		d["Filter"] = names[0]
		if hasParms {
			d["DecodeParms"] = parms[0]
		}
	} else {
		d["Filter"] = names
		if hasParms {
			d["DecodeParms"] = parms
		}
	}
	l := int64(len(in.Enc))
	d["Length"] = types.Integer(l)
	sd := types.NewStreamDict(d, 0, &l, nil, pl)
	sd.Raw = in.Enc
	return &sd
}

// sdDecode: fresh StreamDict, DecodeLengthWithLimit(m, L) (L == 0: DecodeLength(m) / Decode(), i.e. the default limit).
func sdDecode(in input, L, m int64) ([]byte, error) {
	return guard(func() ([]byte, error) {
		sd := newSD(in)
		switch {
		case L > 0:
			return sd.DecodeLengthWithLimit(m, L)
		case m >= 0:
			return sd.DecodeLength(m)
		}
		if err := sd.Decode(); err != nil {
			return nil, err
		}
		return sd.Content, nil
	})
}

func tooShort(err error) bool {
	return errors.Is(err, io.ErrUnexpectedEOF) || errors.Is(err, io.EOF)
}

type checker struct {
	t        *vk.T
	evals    atomic.Int64
	nontriv  atomic.Int64
	mu       sync.Mutex
	counters map[string]int64
}

func (ck *checker) count(local map[string]int64) {
	ck.mu.Lock()
	for k, v := range local {
		ck.counters[k] += v
	}
	ck.mu.Unlock()
}

func (ck *checker) violate(in input, api, check string, L, m int64, got []byte, err error, what string) {
	vc := vcase{In: in, API: api, L: L, M: m}
	if got != nil {
		vc.Got = hex.EncodeToString(got)
	}
	if err != nil {
		vc.Err = err.Error()
	}
	// key = level / class of the last (bounded) stage / check: the same defect reached through different
	// front stages or API entry points of one level is one finding; API and pipeline are in the text.
	level := "streamdict"
	if strings.HasPrefix(api, "filter.") {
		level = "filter"
	}
	last := in.Pipeline[len(in.Pipeline)-1]
	if err != nil { // StreamDict names the failing stage: "stream filter[i] ..."
		var idx int
		if i := strings.Index(err.Error(), "stream filter["); i >= 0 {
			if _, e := fmt.Sscanf(err.Error()[i:], "stream filter[%d]", &idx); e == nil && idx >= 0 && idx < len(in.Pipeline) {
				last = in.Pipeline[idx]
			}
		}
	}
	if p := last.params(); p.Predictor != 1 && strings.HasPrefix(check, "limit/within-rejected") {
		if in.N == p.RowBytes() {
			check += "/rows=1"
		} else {
			check += "/rows>1"
		}
	}
	key := fmt.Sprintf("%s/%s/%s", level, last.class(), check)
	var pe panicErr
	if errors.As(err, &pe) {
		key = fmt.Sprintf("%s/%s/panic/%s", level, last.class(), pe.frame)
	}
	ck.t.Violate(key, fmt.Sprintf("%s pipeline=%v encoder=%s enc=%x n=%d L=%d m=%d: %s (got %d bytes, err=%v)", api, in.Pipeline, in.Source, in.Enc, in.N, L, m, what, len(got), err), vc)
}

// checkLimit judges unbounded decoding under limit L.
func (ck *checker) checkLimit(in input, api string, L int64, got []byte, err error, c map[string]int64) {
	n, ms := int64(in.N), int64(in.MaxStage)
	rel := "L>n"
	if L == n {
		rel = "L=n"
	}
	limErr := err != nil && errors.Is(err, filter.ErrDecodeLimitExceeded)
	switch {
	case err == nil && int64(len(got)) > L:
		ck.violate(in, api, "limit/more-than-L-bytes", L, -1, got, err, "more than L bytes returned")
	case n > L && err == nil:
		ck.violate(in, api, "limit/over-accepted", L, -1, got, err, "decoded length exceeds the limit but no error")
	case n > L && !limErr:
		ck.violate(in, api, "limit/wrong-error", L, -1, got, err, "decoded length exceeds the limit but the error is not ErrDecodeLimitExceeded")
	case n > L:
		c["limit_errors_required_and_seen"]++
	case err != nil && limErr && ms > L:
		c["limit_error_for_intermediate_stage_tolerated"]++ // final output fits, an earlier stage's output does not
	case err != nil:
		ck.violate(in, api, "limit/within-rejected/"+rel, L, -1, got, err, "decoded length is within the limit but decoding failed")
	case !bytes.Equal(got, in.Full):
		ck.violate(in, api, "limit/wrong-bytes", L, -1, got, err, "within the limit but not the full decoding")
	default:
		c["within_limit_full_data"]++
		if L == n {
			c["exact_boundary_L=n_accepted"]++
		}
	}
}

// checkBounded judges decoding bounded to m bytes. exact: the result must be exactly min(m,n) bytes (StreamDict);
// otherwise at least min(m,n) bytes (Filter.DecodeLength: "will decode at least maxLen bytes").
func (ck *checker) checkBounded(in input, api string, L, m int64, exact bool, got []byte, err error, c map[string]int64) {
	n, ms := int64(in.N), int64(in.MaxStage)
	want := min(m, n)
	switch {
	case err != nil && tooShort(err) && m > n:
		c["too_short_reported"]++
	case err != nil && L > 0 && errors.Is(err, filter.ErrDecodeLimitExceeded) && ms > L:
		c["bounded_limit_error_tolerated"]++ // the combination bound ≤ L < full length is not fixed by the property
	case err != nil && L > 0 && errors.Is(err, filter.ErrDecodeLimitExceeded):
		rel := "L>n"
		if L == n {
			rel = "L=n"
		}
		ck.violate(in, api, "limit/within-rejected/"+rel, L, m, got, err, "bounded decoding: every stage's output is within the limit but ErrDecodeLimitExceeded")
	case err != nil:
		ck.violate(in, api, "bounded/unexpected-error", L, m, got, err, "bounded decoding failed")
	case int64(len(got)) > n || !bytes.Equal(got, in.Full[:len(got)]):
		ck.violate(in, api, "bounded/not-a-prefix", L, m, got, err, "result is not a prefix of the full decoding")
	case int64(len(got)) < want:
		ck.violate(in, api, "bounded/too-few-bytes", L, m, got, err, fmt.Sprintf("result shorter than min(m,n)=%d", want))
	case exact && int64(len(got)) != want:
		ck.violate(in, api, "bounded/not-truncated", L, m, got, err, fmt.Sprintf("result longer than min(m,n)=%d", want))
	default:
		c["bounded_prefix_ok"]++
		if int64(len(got)) > want {
			c["bounded_prefix_longer_than_m_(allowed_at_filter_level)"]++
		}
	}
}

func (ck *checker) run(in input) {
	c := map[string]int64{}
	n := int64(in.N)
	var ev int64
	single := len(in.Pipeline) == 1
	for L := int64(1); L <= n+2; L++ {
		if single {
			got, err := filterDecode(in.Pipeline[0], in.Enc, L, -1)
			ck.checkLimit(in, "filter.Decode", L, got, err, c)
			ev++
		}
		got, err := sdDecode(in, L, -1)
		ck.checkLimit(in, "sd.DecodeWithLimit", L, got, err, c)
		ev++
	}
	for m := int64(0); m <= n+2; m++ {
		if single {
			got, err := filterDecode(in.Pipeline[0], in.Enc, 0, m)
			ck.checkBounded(in, "filter.DecodeLength", 0, m, false, got, err, c)
			ev++
		}
		got, err := sdDecode(in, 0, m)
		ck.checkBounded(in, "sd.DecodeLength", 0, m, true, got, err, c)
		ev++
		// bound and limit together: whole grid for small n, a band around the boundaries otherwise
		var Ls []int64
		if n <= 24 {
			for L := int64(1); L <= n+2; L++ {
				Ls = append(Ls, L)
			}
		} else {
			for _, L := range []int64{m - 1, m, m + 1, n - 1, n, n + 1} {
				if L >= 1 && L <= n+2 {
					Ls = append(Ls, L)
				}
			}
		}
		for _, L := range Ls {
			got, err := sdDecode(in, L, m)
			ck.checkBounded(in, "sd.DecodeLengthWithLimit", L, m, true, got, err, c)
			ev++
			if single {
				got, err := filterDecode(in.Pipeline[0], in.Enc, L, m)
				ck.checkBounded(in, "filter.DecodeLength+limit", L, m, false, got, err, c)
				ev++
			}
		}
	}
	// already decoded stream object (cached Content): bounded reads must be prefixes as well
	sd := newSD(in)
	if _, err := guard(func() ([]byte, error) { return nil, sd.Decode() }); err == nil {
		for m := int64(0); m <= n+2; m++ {
			got, err := guard(func() ([]byte, error) { return sd.DecodeLength(m) })
			ck.checkBounded(in, "sd.DecodeLength(cached)", 0, m, true, got, err, c)
			ev++
		}
	}
	c["inputs/"+in.Class]++
	c["inputs_from_"+in.Source]++
	ck.count(c)
	ck.evals.Add(ev)
	ck.nontriv.Add(ev) // every (input, L, m) triple is a distinct boundary case by construction
}

// ---- input generation

func genContent(rng *rand.Rand, n int) []byte {
	b := make([]byte, n)
	switch rng.IntN(6) {
	case 0, 1:
		for i := range b {
			b[i] = byte(rng.Uint32())
		}
	case 2: // one run
		v := byte(rng.Uint32())
		for i := range b {
			b[i] = v
		}
	case 3: // runs of random length (RunLength repeat blocks, 128 boundaries)
		for i := 0; i < n; {
			v, l := byte(rng.Uint32()), 1+rng.IntN(140)
			for ; l > 0 && i < n; l, i = l-1, i+1 {
				b[i] = v
			}
		}
	case 4: // alternation
		x, y := byte(rng.Uint32()), byte(rng.Uint32())
		for i := range b {
			b[i] = x
			if i%2 == 1 {
				b[i] = y
			}
		}
	case 5: // zeros with islands (ASCII85 'z' groups)
		for i := range b {
			if rng.IntN(9) == 0 {
				b[i] = byte(rng.Uint32())
			}
		}
	}
	return b
}

var lengths = []int{0, 1, 2, 3, 4, 5, 7, 8, 9, 15, 16, 17, 31, 32, 33, 63, 64, 65, 100, 126, 127, 128, 129, 130, 200, 254, 255, 256, 257, 258, 298, 299, 300}

func pred(p, colors, bpc, cols int) map[string]int {
	return map[string]int{"Predictor": p, "Colors": colors, "BitsPerComponent": bpc, "Columns": cols}
}

func stages() (plain []stage, predicted []stage) {
	plain = []stage{
		{Name: filter.ASCII85}, {Name: filter.ASCIIHex}, {Name: filter.RunLength},
		{Name: filter.LZW}, {Name: filter.LZW, Parms: map[string]int{"EarlyChange": 0}}, {Name: filter.LZW, Parms: map[string]int{"EarlyChange": 1}},
		{Name: filter.Flate}, {Name: filter.Flate, Parms: map[string]int{"Predictor": 1}},
	}
	for _, pm := range []map[string]int{
		pred(2, 1, 8, 4), pred(2, 3, 8, 2), pred(2, 1, 8, 1), // TIFF with 8 bit only: other depths are C17's subject
		pred(10, 1, 8, 1), pred(11, 1, 1, 8), pred(12, 1, 8, 4), {"Predictor": 12, "Columns": 5}, pred(13, 2, 4, 3),
		pred(14, 4, 16, 3), pred(15, 3, 8, 5), pred(15, 1, 8, 30), pred(12, 1, 8, 299), pred(12, 1, 8, 300), {"Predictor": 12},
	} {
		predicted = append(predicted, stage{Name: filter.Flate, Parms: pm})
	}
	// LZW with predictor: in the domain only if pdfcpu can decode it at all (see decodable gate)
	for _, pm := range []map[string]int{pred(12, 1, 8, 4), pred(2, 1, 8, 3), pred(15, 3, 8, 2)} {
		predicted = append(predicted, stage{Name: filter.LZW, Parms: pm})
	}
	return plain, predicted
}

func sig(pl []stage) string {
	var s []string
	for _, st := range pl {
		s = append(s, st.class())
	}
	return strings.Join(s, "+")
}

// build makes an input for pipeline pl (decode order) from content; source "ref" uses the reference encoders,
// "pdfcpu" pdfcpu's own Encode (only for stages without predictor: pdfcpu has no predictor encoder).
func build(t *vk.T, pl []stage, content []byte, source string, variant int, rng *rand.Rand) (input, bool) {
	data := content
	lens := make([]int, len(pl))
	for i := len(pl) - 1; i >= 0; i-- {
		lens[i] = len(data)
		var enc []byte
		var err error
		if source == "pdfcpu" && pl[i].params().Predictor == 1 {
			enc, err = guard(func() ([]byte, error) {
				f, err := filter.NewFilter(pl[i].Name, pl[i].Parms)
				if err != nil {
					return nil, err
				}
				r, err := f.Encode(bytes.NewReader(data))
				if err != nil {
					return nil, err
				}
				return io.ReadAll(r)
			})
		} else {
			enc, err = refEncode(pl[i], data, variant+i, rng)
		}
		if err != nil {
			t.Broken("encode %v: %v", pl[i], err)
		}
		data = enc
	}
	in := input{Class: sig(pl), Source: source, Pipeline: pl, Enc: data, EncHex: hex.EncodeToString(data), Full: content, N: len(content)}
	// true decoded lengths from the reference decoders
	cur := data
	for i, s := range pl {
		dec, err := refDecode(s, cur)
		if err != nil {
			if source == "pdfcpu" {
				return in, false // pdfcpu's own encoding is not decodable by the reference: C15's subject, not counted here
			}
			t.Broken("reference decode %v: %v", s, err)
		}
		if len(dec) != lens[i] {
			if source == "pdfcpu" {
				return in, false
			}
			t.Broken("reference decode %v: length %d, expected %d", s, len(dec), lens[i])
		}
		if len(dec) > in.MaxStage {
			in.MaxStage = len(dec)
		}
		cur = dec
	}
	if !bytes.Equal(cur, content) {
		if source == "pdfcpu" {
			return in, false
		}
		t.Broken("reference pipeline %v does not round-trip", pl)
	}
	return in, true
}

func main() {
	vk.Run("C16", "exploration", func(t *vk.T) {
		t.Rule("inputs: contents of length n ≤ 300 (lengths 0..9, 15..17, 31..33, 63..65, 126..130, 254..258, 298..300 and seeded random lengths; random bytes, runs, alternations, zero islands) " +
			"encoded for every single filter (ASCII85, ASCIIHex, RunLength, LZW EarlyChange absent/0/1, Flate, Flate+TIFF 8 bit, Flate+PNG 10..15 incl. sub-byte and 16 bit samples and one-row streams) " +
			"by reference encoders in several legal variants and by pdfcpu's own Encode, and for every ordered 2-stage pipeline over those filters (predictor stages last, or first with 1-byte rows); " +
			"per input EVERY limit L in 1..n+2 (Decode under limit) and EVERY bound m in 0..n+2 (bounded decoding) is evaluated at filter.Filter (single filters) and types.StreamDict level, " +
			"bound and limit together for the whole L×m grid when n ≤ 24 and for L in {m-1,m,m+1,n-1,n,n+1} otherwise; every (input,L,m) triple is a distinct boundary case")
		t.Assume("L = 0 selects pdfcpu's default limit (filter.DefaultMaxDecodeBytes) and negative L disables the limit; both are excluded from the limit sweep")
		t.Assume("the true decoded length n comes from reference decoders (std ascii85/zlib, own ASCIIHex/RunLength/LZW/predictor code), never from pdfcpu")
		t.Assume("multi-stage pipelines: the limit applies to the output of every stage (StreamDict passes it to each filter); when the final output fits (n ≤ L) but an intermediate stage's output does not, ErrDecodeLimitExceeded is tolerated")
		t.Assume("bounded decoding under a limit L < n (full length) is not fixed by the property: either a correct prefix or ErrDecodeLimitExceeded is accepted there; with n ≤ L no limit error is accepted")
		t.Assume("'too short' = an error for which errors.Is(io.ErrUnexpectedEOF) or errors.Is(io.EOF) holds (what StreamDict.DecodeLength resp. io.CopyN-based filters return); for m > n returning all n bytes without error is accepted as well")
		t.Assume("Filter.DecodeLength is documented as 'will decode at least maxLen bytes': only a prefix of length ≥ min(m,n) is required there, exact truncation to min(m,n) at StreamDict level")
		t.Assume("an input enters the domain only if pdfcpu decodes it correctly without limit (otherwise it belongs to C15/C17: LZW+predictor and TIFF predictor with bpc ≠ 8 on the unchanged tree); skipped inputs are counted per class")

		plain, predicted := stages()
		type job struct {
			pl      []stage
			n       int
			source  string
			variant int
		}
		var jobs []job
		rng := t.RNG("jobs")
		pickLens := func(k int) []int {
			// k lengths: boundary lengths first (rotating), rest random
			out := []int{}
			for i := 0; i < k; i++ {
				if i%2 == 0 {
					out = append(out, lengths[rng.IntN(len(lengths))])
				} else {
					out = append(out, rng.IntN(maxN+1))
				}
			}
			return out
		}
		perSingle := t.Pick(10, 300)
		perPair := t.Pick(3, 60)
		for _, s := range plain {
			for _, src := range []string{"ref", "pdfcpu"} {
				for v, n := range pickLens(perSingle) {
					jobs = append(jobs, job{[]stage{s}, n, src, v})
				}
			}
			// the RunLength 127/128/129 and small boundary lengths always
			for v, n := range []int{0, 1, 2, 127, 128, 129, 255, 256, 257, 300} {
				jobs = append(jobs, job{[]stage{s}, n, "ref", v})
			}
		}
		for _, s := range predicted {
			for v, rows := range []int{1, 1, 2, 3} {
				jobs = append(jobs, job{[]stage{s}, -rows, "ref", v}) // negative: number of rows
			}
			for v := 0; v < t.Pick(3, 60); v++ {
				jobs = append(jobs, job{[]stage{s}, -(1 + rng.IntN(40)), "ref", v})
			}
		}
		second := append(append([]stage{}, plain...), predicted...)
		for _, a := range plain {
			for _, b := range second {
				for v, n := range pickLens(perPair) {
					src := "ref"
					if v%2 == 1 && b.params().Predictor == 1 {
						src = "pdfcpu"
					}
					if b.params().Predictor != 1 {
						n = -(1 + rng.IntN(20))
					}
					jobs = append(jobs, job{[]stage{a, b}, n, src, v})
				}
			}
		}
		// predictor stage first: legal when its rows are 1 byte wide (any length is a whole number of rows)
		for _, a := range []stage{{Name: filter.Flate, Parms: map[string]int{"Predictor": 12}}, {Name: filter.Flate, Parms: pred(2, 1, 8, 1)}} {
			for _, b := range plain {
				for v, n := range pickLens(perPair) {
					jobs = append(jobs, job{[]stage{a, b}, n, "ref", v})
				}
			}
		}

		ck := &checker{t: t, counters: map[string]int64{}}
		var skipped sync.Map
		vk.Parallel(len(jobs), func(i int) {
			j := jobs[i]
			r := t.RNGi("input", i)
			n := j.n
			last := j.pl[len(j.pl)-1]
			if n < 0 {
				rb := last.params().RowBytes()
				rows := -n
				for rows > 1 && rows*rb > maxN {
					rows--
				}
				n = rows * rb
			}
			if n > maxN {
				return
			}
			in, ok := build(t, j.pl, genContent(r, n), j.source, j.variant, r)
			if !ok {
				ck.count(map[string]int64{"pdfcpu_encodings_not_reference_decodable/" + in.Class: 1})
				return
			}
			// decodable gate
			got, err := sdDecode(in, 0, -1)
			if err != nil || !bytes.Equal(got, in.Full) {
				ck.count(map[string]int64{"inputs_skipped_not_decodable_by_pdfcpu/" + in.Class: 1})
				skipped.Store(in.Class, fmt.Sprint(err))
				return
			}
			ck.run(in)
			if i%97 == 0 {
				t.Sample(map[string]any{"class": in.Class, "encoder": in.Source, "n": in.N, "encoded_hex": truncHex(in.Enc), "max_stage_output": in.MaxStage})
			}
		})
		t.EvalBulk(ck.evals.Load(), ck.nontriv.Load())
		for k, v := range ck.counters {
			t.Count(k, v)
		}
		sk := map[string]string{}
		skipped.Range(func(k, v any) bool { sk[k.(string)] = v.(string); return true })
		if len(sk) > 0 {
			t.Extra("classes_skipped_as_undecodable", sk)
		}
		t.Count("jobs", int64(len(jobs)))
		t.Exhaustive(true) // per input the L and m boundaries are enumerated completely; the inputs themselves are sampled (see rule)
	})
}

func truncHex(b []byte) string {
	if len(b) > 48 {
		return hex.EncodeToString(b[:48]) + "…"
	}
	return hex.EncodeToString(b)
}
