// sparse: build pdfgen documents with numbering extremes (pdfgen.BuildSparse), rewrite each with
// api.OptimizeFile under every writer configuration and print what pdfstrict finds in input and output,
// with timings.
//
//	sparse [seed] [docs] [kind ...]     kinds: spread high16 high24 gens freehigh freehigh24 mixed (default: all)
//	sparse pool <VERIF_SEED> <i> <kind> [out.pdf]   the C18 pool's sparse document i (opwl.GenSparse), optionally saved
package main

import (
	"fmt"
	"hash/fnv"
	"math/rand/v2"
	"os"
	"path/filepath"
	"strconv"
	"time"

	"github.com/pdfcpu/pdfcpu/pkg/api"
	"github.com/pdfcpu/pdfcpu/pkg/pdfcpu/model"
	"github.com/pdfcpu/pdfcpu/pkg/pdfcpu/types"
	"verif/harness/internal/opwl"
	"verif/harness/internal/pdfgen"
	"verif/harness/internal/pdfstrict"
)

func poolDoc(args []string) {
	seed, _ := strconv.Atoi(args[0])
	i, _ := strconv.Atoi(args[1])
	var kind pdfgen.NumberingKind
	for _, k := range pdfgen.NumberingKinds() {
		if k.String() == args[2] {
			kind = k
		}
	}
	h := fnv.New64a()
	h.Write([]byte("opwl-sparse#" + strconv.Itoa(i)))
	in, data := opwl.GenSparse(rand.New(rand.NewPCG(uint64(seed), h.Sum64())), i, kind)
	if in == nil {
		fmt.Println("GenSparse failed")
		return
	}
	fmt.Printf("%s pages=%d max=%d tags=%v bytes=%d\n", in.Name, in.Pages, in.MaxNum, in.Tags, len(data))
	path := filepath.Join(os.Getenv("VERIF_CACHE"), "run", "c18sparse-pool.pdf")
	if len(args) > 3 {
		path = args[3]
	}
	os.WriteFile(path, data, 0o644)
	d, err := pdfstrict.Open(data, pdfstrict.Options{})
	fmt.Println("pdfstrict:", err)
	if d != nil {
		for _, df := range d.Defects {
			fmt.Println("   ", df.String())
		}
	}
	t0 := time.Now()
	fmt.Println("pdfcpu validate (relaxed):", opwl.Validate(path, false), time.Since(t0).Round(time.Millisecond))
	fmt.Println("saved", path)
}

func main() {
	api.DisableConfigDir()
	if len(os.Args) > 4 && os.Args[1] == "pool" {
		poolDoc(os.Args[2:])
		return
	}
	seed, docs := uint64(1), 3
	var kinds []pdfgen.NumberingKind
	for i, a := range os.Args[1:] {
		if n, err := strconv.Atoi(a); err == nil {
			if i == 0 {
				seed = uint64(n)
			} else {
				docs = n
			}
			continue
		}
		for _, k := range pdfgen.NumberingKinds() {
			if k.String() == a {
				kinds = append(kinds, k)
			}
		}
	}
	if kinds == nil {
		kinds = pdfgen.NumberingKinds()
	}
	dir, _ := os.MkdirTemp(os.Getenv("VERIF_CACHE")+"/run", "c18sparse-")
	defer os.RemoveAll(dir)
	for i := 0; i < docs; i++ {
		for _, k := range kinds {
			rng := rand.New(rand.NewPCG(seed, uint64(i)*16+uint64(k)))
			spec := pdfgen.RandomSpec(rng, 6)
			bt, plan, err := pdfgen.BuildSparse(spec, rng, k)
			if err != nil {
				fmt.Println("build:", err)
				continue
			}
			in := filepath.Join(dir, "in.pdf")
			os.WriteFile(in, bt.Bytes, 0o644)
			t0 := time.Now()
			d, err := pdfstrict.Open(bt.Bytes, pdfstrict.Options{})
			fmt.Printf("doc %d %-8s max=%d objs=%d bytes=%d xref=%v objstm=%v gaps=%v extrafree=%d | pdfstrict %v err=%v defects=%d\n", i, k, plan.MaxNum, len(plan.Map), len(bt.Bytes),
				bt.Spec.Write.XRef, bt.Spec.Write.ObjStm, bt.Spec.Write.HolesAsGaps, len(plan.ExtraFree), time.Since(t0).Round(time.Millisecond), err, len(d.Defects))
			for _, xs := range []bool{false, true} {
				for _, osm := range []bool{false, true} {
					c := model.NewDefaultConfiguration()
					c.Offline = true
					c.WriteXRefStream, c.WriteObjectStream, c.Eol = xs, osm, types.EolLF
					out := filepath.Join(dir, "out.pdf")
					os.Remove(out)
					t0 := time.Now()
					err := func() (err error) {
						defer func() {
							if r := recover(); r != nil {
								err = fmt.Errorf("panic: %v", r)
							}
						}()
						return api.OptimizeFile(in, out, c)
					}()
					el := time.Since(t0).Round(time.Millisecond)
					if err != nil {
						fmt.Printf("    xrefstream=%v objstm=%v: %v ERROR %v\n", xs, osm, el, err)
						continue
					}
					b, _ := os.ReadFile(out)
					t0 = time.Now()
					od, err := pdfstrict.Open(b, pdfstrict.Options{})
					fmt.Printf("    xrefstream=%v objstm=%v: optimize %v, %d bytes, pdfstrict %v err=%v", xs, osm, el, len(b), time.Since(t0).Round(time.Millisecond), err)
					if od != nil {
						max := 0
						for _, n := range od.Objects() {
							if n > max {
								max = n
							}
						}
						fmt.Printf(" entries=%d max=%d", len(od.Objects()), max)
						for j, df := range od.Defects {
							if j < 4 {
								fmt.Printf("\n        %s", df.String())
							}
						}
					}
					fmt.Println()
				}
			}
		}
	}
}
