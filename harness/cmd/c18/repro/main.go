// repro: run one catalogue operation with the fixed default parameters on the opcat fixtures under a
// writer configuration and print what pdfstrict finds in every PDF output.
//
//	repro <op name> [xrefstream] [objstm] [LF|CR|CRLF] [inplace] [keep] [in=<pdf replacing the primary input>]
package main

import (
	"fmt"
	"os"
	"path/filepath"
	"sort"
	"strings"

	"github.com/pdfcpu/pdfcpu/pkg/api"
	"github.com/pdfcpu/pdfcpu/pkg/pdfcpu/model"
	"github.com/pdfcpu/pdfcpu/pkg/pdfcpu/types"
	"verif/harness/internal/opcat"
	"verif/harness/internal/opwl"
	"verif/harness/internal/pdfstrict"
	"verif/harness/internal/strictsec"
	"verif/harness/internal/vk"
)

func main() {
	api.DisableConfigDir()
	name := os.Args[1]
	xs, osm, eol, inplace, keep := false, false, types.EolLF, false, false
	subst := ""
	for _, a := range os.Args[2:] {
		if strings.HasPrefix(a, "in=") {
			subst = a[3:]
			continue
		}
		switch a {
		case "xrefstream":
			xs = true
		case "objstm":
			osm = true
		case "CR":
			eol = types.EolCR
		case "CRLF":
			eol = types.EolCRLF
		case "inplace":
			inplace = true
		case "keep":
			keep = true
		}
	}
	base, _ := os.MkdirTemp(os.Getenv("VERIF_CACHE")+"/run", "c18repro-")
	if !keep {
		defer os.RemoveAll(base)
	}
	fx := filepath.Join(base, "fx")
	os.MkdirAll(fx, 0o755)
	if err := opcat.Prepare(vk.RepoDir(), fx); err != nil {
		panic(err)
	}
	op, ok := opcat.ByName(name)
	if !ok {
		panic("no such op")
	}
	p := &opwl.Pool{Fx: fx}
	subs := map[string]int{}
	if subst != "" {
		p.Inputs = []opwl.Input{{Name: subst, Path: subst}}
		subs[op.Input] = 0
	}
	res := p.Run(filepath.Join(base, "case"), opwl.Plan{Op: op, InPlace: inplace, Subs: subs, Derive: map[string]string{}}, nil, opwl.RunOptions{Conf: func() *model.Configuration {
		c := opcat.DefaultConf()
		c.WriteXRefStream, c.WriteObjectStream, c.Eol = xs, osm, eol
		return c
	}})
	fmt.Println("err:", res.Err, "panic:", res.Panic, "setup:", res.SetupErr)
	for _, f := range res.Outputs {
		data, _ := os.ReadFile(f)
		d, info, err := strictsec.Open(data, opwl.Passwords, pdfstrict.Options{})
		fmt.Printf("== %s (%d bytes) enc=%+v err=%v\n", f, len(data), info, err)
		if d == nil {
			continue
		}
		d.CheckObjStmExtents()
		for _, s := range d.Sections() {
			fmt.Printf("  section %d @%d stream=%v size=%d max=%d prev=%d subsections=%v\n", s.Index, s.Offset, s.IsStream, s.Size, s.MaxNum, s.Prev, s.Subsections)
			var free []string
			var nums []int
			for n := range s.Entries {
				nums = append(nums, n)
			}
			sort.Ints(nums)
			for _, n := range nums {
				if e := s.Entries[n]; e.Type == pdfstrict.Free {
					free = append(free, fmt.Sprintf("%d->%d(g%d)", n, e.Next, e.Gen))
				}
			}
			fmt.Println("  free:", strings.Join(free, " "))
		}
		for i, df := range d.Defects {
			if i < 12 {
				fmt.Println("  DEFECT", df)
			}
		}
		fmt.Println("  kinds:", d.DefectKinds())
	}
}
