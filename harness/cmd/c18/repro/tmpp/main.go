package main

import (
	"fmt"
	"os"
	"sort"

	"github.com/pdfcpu/pdfcpu/pkg/api"
	"github.com/pdfcpu/pdfcpu/pkg/pdfcpu/model"
)

func main() {
	api.DisableConfigDir()
	f, _ := os.Open(os.Args[1])
	c := model.NewDefaultConfiguration()
	ctx, err := api.ReadContext(f, c)
	fmt.Println("read:", err)
	if ctx == nil {
		return
	}
	var ks []int
	for k := range ctx.Table {
		ks = append(ks, k)
	}
	sort.Ints(ks)
	fmt.Println("size", *ctx.Size, "entries", len(ks))
	for _, k := range ks {
		e := ctx.Table[k]
		s := fmt.Sprintf("%d: free=%v comp=%v", k, e.Free, e.Compressed)
		if e.Offset != nil {
			s += fmt.Sprintf(" off=%d", *e.Offset)
		}
		if e.Generation != nil {
			s += fmt.Sprintf(" gen=%d", *e.Generation)
		}
		if e.ObjectStream != nil {
			s += fmt.Sprintf(" os=%d[%d]", *e.ObjectStream, *e.ObjectStreamInd)
		}
		s += fmt.Sprintf(" obj=%T", e.Object)
		fmt.Println(s)
	}
}
