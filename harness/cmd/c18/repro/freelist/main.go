// freelist: print the in-memory free list pdfcpu builds when reading a file (head, chain, free entries).
package main

import (
	"fmt"
	"os"
	"sort"

	"github.com/pdfcpu/pdfcpu/pkg/api"
	"github.com/pdfcpu/pdfcpu/pkg/pdfcpu/model"
)

func main() {
	api.DisableConfigDir()
	conf := model.NewDefaultConfiguration()
	conf.Offline = true
	ctx, err := api.ReadContextFile(os.Args[1])
	if err != nil {
		fmt.Println("read:", err)
		return
	}
	_ = conf
	var free []int
	for n, e := range ctx.Table {
		if e != nil && e.Free {
			free = append(free, n)
		}
	}
	sort.Ints(free)
	for _, n := range free {
		e := ctx.Table[n]
		fmt.Printf("free %d -> %d gen %d\n", n, *e.Offset, *e.Generation)
	}
	fmt.Println("size", *ctx.Size)
	for _, a := range os.Args[2:] {
		var n int
		fmt.Sscan(a, &n)
		e, ok := ctx.Table[n]
		if !ok || e == nil {
			fmt.Printf("obj %d: no entry (present=%v)\n", n, ok)
			continue
		}
		fmt.Printf("obj %d: free=%v compressed=%v offset=%v gen=%v object=%T\n", n, e.Free, e.Compressed, e.Offset, *e.Generation, e.Object)
	}
}
