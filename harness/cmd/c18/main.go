// C18 — every written PDF has an exact, self-consistent file structure.
//
// Every PDF that a catalogued operation writes (whole opcat minus byte-copy operations and operations
// without PDF output) under a writer configuration {xref table | xref stream} × {object streams
// requested or not} × {LF, CR, CRLF} — with opcat fixtures, corpus files and pdfgen documents as inputs,
// EncryptFile rotating over RC4-40/RC4-128/AES-128/AES-256 — is read back by the independent,
// non-repairing reader internal/pdfstrict (object streams of encrypted outputs are opened with the
// reference security handler). Any structural defect of the kinds the property names is a violation.
//
// Numbering extremes: pdfgen documents renumbered sparsely (opwl PoolOptions.Sparse/SparseHuge, pdfgen/sparse.go:
// strided numbers, objects >= 65536 and >= 2^24, generations > 0, free entries at high numbers, /Size much
// larger than the object count) are run through a whole-document rewrite, an incremental update and further
// seeded operations under ALL four writers (opwl.SparsePlans), because field widths, /Size and the free list
// of the output depend on object numbers only such inputs have. repro/sparse regenerates these inputs.
package main

import (
	"encoding/json"
	"fmt"
	"os"
	"path/filepath"
	"sort"
	"strings"
	"sync"

	"github.com/pdfcpu/pdfcpu/pkg/api"
	"github.com/pdfcpu/pdfcpu/pkg/pdfcpu/model"
	"github.com/pdfcpu/pdfcpu/pkg/pdfcpu/types"
	"verif/harness/internal/opcat"
	"verif/harness/internal/opwl"
	"verif/harness/internal/pdfstrict"
	"verif/harness/internal/strictsec"
	"verif/harness/internal/vk"
)

// ---- writer configurations

type writerConf struct {
	XRefStream, ObjStream bool
	Eol                   int // 0 LF, 1 CR, 2 CRLF
}

var eolNames = []string{"LF", "CR", "CRLF"}
var eolVals = []string{types.EolLF, types.EolCR, types.EolCRLF}

func (w writerConf) writer() string {
	s := "xreftable"
	if w.XRefStream {
		s = "xrefstream"
	}
	if w.ObjStream {
		s += "+objstm"
	}
	return s
}
func (w writerConf) eol() string { return eolNames[w.Eol] }

var allWriters = []writerConf{{false, false, 0}, {false, true, 0}, {true, false, 0}, {true, true, 0}}

type encAlg struct {
	aes  bool
	bits int
}

var encAlgs = []encAlg{{false, 40}, {false, 128}, {true, 128}, {true, 256}}

func (a encAlg) String() string {
	if a.aes {
		return fmt.Sprintf("AES-%d", a.bits)
	}
	return fmt.Sprintf("RC4-%d", a.bits)
}

// confFunc: huge raises the resource limit on object numbers (default 10 million: pdfcpu refuses documents with an
// object number or a cross-reference stream /Size above it) so that documents numbered >= 2^24 are processed.
func confFunc(w writerConf, a encAlg, huge bool) func() *model.Configuration {
	return func() *model.Configuration {
		c := opcat.DefaultConf()
		c.WriteXRefStream, c.WriteObjectStream, c.Eol = w.XRefStream, w.ObjStream, eolVals[w.Eol]
		c.EncryptUsingAES, c.EncryptKeyLength = a.aes, a.bits
		if huge {
			c.Limits.MaxObjectCount = 1 << 25
		}
		return c
	}
}

// ---- the oracle: which pdfstrict kinds the property names

var c18Kinds = map[string]bool{}

func init() {
	for _, k := range []string{
		pdfstrict.KindHeader, pdfstrict.KindStartXRefTarget,
		pdfstrict.KindObjOffset, pdfstrict.KindObjID, pdfstrict.KindObjParse, pdfstrict.KindObjEndObj,
		pdfstrict.KindObjStmMissing, pdfstrict.KindObjStmType, pdfstrict.KindObjStmHeader, pdfstrict.KindObjStmDecode,
		pdfstrict.KindObjStmIndex, pdfstrict.KindObjStmObjNr, pdfstrict.KindObjStmParse,
		pdfstrict.KindObjStmOrder, pdfstrict.KindObjStmOverlap,
		pdfstrict.KindTrailerSize, pdfstrict.KindSectionSize,
		pdfstrict.KindFreeHead, pdfstrict.KindFreeHeadGen, pdfstrict.KindFreeChainBroken, pdfstrict.KindFreeLoop, pdfstrict.KindFreeNotOnChain,
		pdfstrict.KindStreamEOL, pdfstrict.KindStreamLength,
		pdfstrict.KindXRefSubsectionCount, pdfstrict.KindXRefEntryFormat,
		pdfstrict.KindPrevTarget, pdfstrict.KindPrevLoop,
	} {
		c18Kinds[k] = true
	}
}

// kindObjIDGen: pdfstrict's obj-id where only the generation number differs between entry and object header.
const kindObjIDGen = "obj-id-gen"

// kinds for which the encryption of the output is part of what fails
var encKinds = map[string]bool{
	pdfstrict.KindStreamLength: true, pdfstrict.KindObjStmDecode: true, pdfstrict.KindObjStmHeader: true, pdfstrict.KindObjStmParse: true,
	pdfstrict.KindObjStmIndex: true, pdfstrict.KindObjStmObjNr: true, pdfstrict.KindObjParse: true, pdfstrict.KindObjStmOrder: true, pdfstrict.KindObjStmOverlap: true,
}

// merged-view kinds cannot be attributed to one section of an incrementally updated file
var mergedKinds = map[string]bool{
	pdfstrict.KindTrailerSize: true, pdfstrict.KindFreeHead: true, pdfstrict.KindFreeHeadGen: true,
	pdfstrict.KindFreeChainBroken: true, pdfstrict.KindFreeLoop: true, pdfstrict.KindFreeNotOnChain: true,
}

type finding struct {
	Kind string
	Msg  string
	File string
	N    int
	Enc  string // algorithm of the output if encrypted
}

type fileReport struct {
	findings   []finding // C18 kinds, one per kind
	beyond     map[string]int
	sections   int
	xrefStream bool
	compressed int
	objects    int
	streams    int
	objstms    int
	encrypted  string // algorithm, "" = clear
	decrypted  bool
	skipped    int
	hardErr    string
}

type dkey struct {
	kind string
	nr   int
	off  int64
}

// inspect reads one output with pdfstrict. base (optional) are the bytes the output extends incrementally:
// defects the base already has are the base's, not the increment's.
func inspect(data, base []byte) fileReport {
	rep := fileReport{beyond: map[string]int{}}
	d, info, err := strictsec.Open(data, opwl.Passwords, pdfstrict.Options{})
	if info.Encrypted {
		rep.encrypted, rep.decrypted = info.Alg, info.Decrypted
		if rep.encrypted == "" {
			rep.encrypted = "unknown"
		}
	}
	if err != nil {
		rep.hardErr = err.Error()
	}
	if d == nil {
		return rep
	}
	inBase := map[dkey]bool{}
	baseKinds := map[string]bool{}
	if base != nil && len(data) > len(base) && string(data[:len(base)]) == string(base) {
		if bd, _, _ := strictsec.Open(base, opwl.Passwords, pdfstrict.Options{}); bd != nil {
			bd.CheckObjStmExtents()
			for _, df := range bd.Defects {
				inBase[dkey{df.Kind, df.ObjNr, df.Offset}] = true
				baseKinds[df.Kind] = true
			}
		}
	}
	rep.objstms, _ = d.CheckObjStmExtents()
	rep.skipped = d.Skipped
	if len(d.Sections()) > 0 {
		rep.sections = len(d.Sections())
		rep.xrefStream = d.Sections()[0].IsStream
	}
	for _, n := range d.Objects() {
		rep.objects++
		if e, _ := d.Entry(n); e.Type == pdfstrict.Compressed {
			rep.compressed++
		} else if o, err := d.Get(pdfstrict.Ref{Num: n, Gen: e.Gen}); err == nil {
			if _, ok := o.(*pdfstrict.Stream); ok {
				rep.streams++
			}
		}
	}
	byKind := map[string]*finding{}
	var order []string
	for _, df := range d.Defects {
		if !c18Kinds[df.Kind] {
			rep.beyond[df.Kind]++
			continue
		}
		if inBase[dkey{df.Kind, df.ObjNr, df.Offset}] || (mergedKinds[df.Kind] && baseKinds[df.Kind]) {
			rep.beyond["in-base/"+df.Kind]++
			continue
		}
		if df.Kind == pdfstrict.KindObjID {
			// the entry locates the right object number under another GENERATION: a defect of its own
			// (generation bookkeeping), kept apart from entries that locate another object
			var en, eg, hn, hg int
			if n, _ := fmt.Sscanf(df.Msg, "entry %d %d points to \"%d %d obj\"", &en, &eg, &hn, &hg); n == 4 && en == hn && eg != hg {
				df.Kind = kindObjIDGen
			}
		}
		f := byKind[df.Kind]
		if f == nil {
			f = &finding{Kind: df.Kind, Msg: df.String(), Enc: rep.encrypted}
			if df.Offset >= 0 && df.Offset < int64(len(data)) {
				lo, hi := df.Offset-16, df.Offset+32
				if lo < 0 {
					lo = 0
				}
				if hi > int64(len(data)) {
					hi = int64(len(data))
				}
				f.Msg += fmt.Sprintf(" bytes[%d:%d]=%q", lo, hi, data[lo:hi])
			}
			byKind[df.Kind] = f
			order = append(order, df.Kind)
		}
		f.N++
	}
	if rep.hardErr != "" && len(order) == 0 {
		// Open gave up before it could record a defect of its own (e.g. an empty output)
		kind := "unreadable"
		if strings.Contains(rep.hardErr, "no %PDF- header") {
			kind = pdfstrict.KindHeader
		}
		byKind[kind] = &finding{Kind: kind, Msg: rep.hardErr + fmt.Sprintf(" (%d bytes)", len(data)), N: 1, Enc: rep.encrypted}
		order = append(order, kind)
	}
	for _, k := range order {
		rep.findings = append(rep.findings, *byKind[k])
	}
	return rep
}

// ---- cases

type caseOut struct {
	void      string // setup failed
	failed    string // operation returned an error
	panicked  string // innermost pdfcpu frame
	outputs   int
	unchecked int
	reports   []fileReport
	files     []string
	incr      bool // the output extends its input incrementally
}

const maxOutputsPerCase = 16

type runner struct {
	t      *vk.T
	pool   *opwl.Pool
	plans  []opwl.Plan
	nOps   int
	forced map[int]writerConf // cases whose writer configuration is enumerated instead of rotated (sparse inputs)
}

func (r *runner) confOf(i int) (writerConf, encAlg) {
	pl := r.plans[i]
	if w, ok := r.forced[i]; ok {
		return w, encAlgs[(i+seedMod(r.t, 4))%4]
	}
	k := (pl.Round*5 + i%r.nOps + int(r.t.Seed)) % 12
	if k < 0 {
		k += 12
	}
	a := (pl.Round + i%r.nOps + int(r.t.Seed)) % 4
	if a < 0 {
		a += 4
	}
	w := allWriters[k%4]
	w.Eol = k / 4
	return w, encAlgs[a]
}

// runCase executes plan i under writer configuration w (tag distinguishes scratch directories of re-runs).
func (r *runner) runCase(i int, w writerConf, a encAlg, tag string) caseOut {
	pl := r.plans[i]
	dir := filepath.Join(r.t.Scratch(), "cases", fmt.Sprintf("%d%s", i, tag))
	if os.Getenv("VERIF_KEEP") == "" {
		defer os.RemoveAll(dir)
	}
	_, forced := r.forced[i]
	conf := confFunc(w, a, forced && r.pool.Inputs[sparseInput(pl)].Tags["huge"])
	incremental := opwl.Incremental(pl.Op) && pl.InPlace && pl.Op.InPlace
	opts := opwl.RunOptions{Conf: conf}
	if incremental {
		// An increment can only be judged on a base that is itself sound: a base with structural defects is first
		// rewritten by pdfcpu with the same writer configuration.
		opts.Prep = func(fx, path string) error {
			if fx != pl.Op.Input {
				return nil
			}
			b, err := os.ReadFile(path)
			if err != nil {
				return err
			}
			if rep := inspect(b, nil); len(rep.findings) == 0 {
				return nil
			}
			var oerr error
			func() {
				defer func() {
					if rc := recover(); rc != nil {
						oerr = fmt.Errorf("panic: %v", rc)
					}
				}()
				oerr = api.OptimizeFile(path, "", conf())
			}()
			return oerr
		}
	}
	res := r.pool.Run(dir, pl, r.t.RNGi("c18-params", i), opts)
	var out caseOut
	switch {
	case res.SetupErr != nil:
		out.void = res.SetupErr.Error()
		return out
	case res.Panic != nil:
		out.panicked = opwl.PanicFrame(res.PanicStack)
		return out
	case res.Err != nil:
		out.failed = res.Err.Error()
		return out
	}
	out.outputs = len(res.Outputs)
	files := res.Outputs
	if len(files) > maxOutputsPerCase {
		out.unchecked = len(files) - maxOutputsPerCase
		files = append(append([]string{}, files[:maxOutputsPerCase/2]...), files[len(files)-maxOutputsPerCase/2:]...)
	}
	for _, f := range files {
		data, err := os.ReadFile(f)
		if err != nil {
			continue
		}
		var base []byte
		if incremental && f == res.In && len(data) > len(res.InBytes) && string(data[:len(res.InBytes)]) == string(res.InBytes) {
			base = res.InBytes
			out.incr = true
		}
		rep := inspect(data, base)
		out.reports = append(out.reports, rep)
		out.files = append(out.files, filepath.Base(f))
	}
	return out
}

type rawKey struct {
	kind        string
	writer, eol string
	incr        bool
	enc         string
}

// configFree: defects of the free list, and of /Size in incremental updates, are keyed without the writer configuration.
func configFree(k rawKey) bool {
	// generation numbers are fixed in the cross-reference table in memory and in the references held by the
	// objects before anything is serialised
	return strings.HasPrefix(k.kind, "free-") || k.kind == kindObjIDGen || (k.incr && (k.kind == pdfstrict.KindTrailerSize || k.kind == pdfstrict.KindSectionSize))
}

func (k rawKey) String(writer, eol string) string {
	if configFree(k) {
		// the free list is linked (and, for an increment, /Size is fixed) before anything is serialised: neither
		// the cross-reference format nor the end-of-line sequence is part of what fails (the violation text
		// names both for the first case)
		if k.incr {
			return "defect=" + k.kind + "/incr"
		}
		return "defect=" + k.kind
	}
	s := "defect=" + k.kind + "/writer=" + writer + "/eol=" + eol
	if k.incr {
		s += "/incr"
	}
	if k.enc != "" {
		s += "/enc=" + k.enc
	}
	return s
}

func hasKind(o caseOut, k rawKey) (found, ran bool) {
	if o.void != "" || o.failed != "" || o.panicked != "" {
		return false, false
	}
	for _, rep := range o.reports {
		for _, f := range rep.findings {
			if f.Kind == k.kind {
				return true, true
			}
		}
	}
	return false, true
}

// generalise re-runs case i under every other writer (same EOL) and every other EOL (same writer): a
// dimension along which the defect reproduces under all values (that the operation survives) is written "*".
func (r *runner) generalise(i int, k rawKey, w writerConf, a encAlg) string {
	writer, eol := k.writer, k.eol
	if configFree(k) {
		return k.String(writer, eol)
	}
	all, any := true, false
	for wi, ow := range allWriters {
		ow.Eol = w.Eol
		if ow.XRefStream == w.XRefStream && ow.ObjStream == w.ObjStream {
			continue
		}
		found, ran := hasKind(r.runCase(i, ow, a, fmt.Sprintf("-gw%d", wi)), k)
		if !ran {
			continue
		}
		any = true
		if !found {
			all = false
		}
	}
	if all && any {
		writer = "*"
	}
	all, any = true, false
	for e := 0; e < 3; e++ {
		if e == w.Eol {
			continue
		}
		ow := w
		ow.Eol = e
		found, ran := hasKind(r.runCase(i, ow, a, fmt.Sprintf("-ge%d", e)), k)
		if !ran {
			continue
		}
		any = true
		if !found {
			all = false
		}
	}
	if all && any {
		eol = "*"
	}
	return k.String(writer, eol)
}

type replayCase struct {
	Index   int    `json:"index"`
	Op      string `json:"op"`
	Input   string `json:"input"`
	InPlace bool   `json:"in_place"`
	Random  bool   `json:"random_params"`
	Writer  string `json:"writer"`
	Eol     string `json:"eol"`
	EncAlg  string `json:"encrypt_alg"`
	File    string `json:"file"`
	Defect  string `json:"defect"`
}

func seedMod(t *vk.T, m int) int { return int(((t.Seed % int64(m)) + int64(m)) % int64(m)) }

// sparseInput returns the pool index of the (single) sparse input a SparsePlans case substitutes.
func sparseInput(pl opwl.Plan) int {
	for _, i := range pl.Subs {
		return i
	}
	return 0
}

func main() {
	vk.Run("C18", "exploration", func(t *vk.T) {
		api.DisableConfigDir()
		t.Rule("case = (opcat operation writing PDFs, input = fixture | corpus file | pdfgen document, seeded valid parameters, new output | in place, writer configuration xref table/stream × object streams on/off × LF/CR/CRLF, EncryptFile algorithm); every PDF output of a successful call is one evaluation: pdfstrict (non-repairing) must report no defect of the C18 kinds; non-trivial = distinct (operation, writer, eol, input kind)")
		t.Assume("C18 kinds = header, startxref-target, xref-subsection-count, xref-entry-format, prev-target/-loop, obj-offset/-id/-parse/-endobj, objstm-missing/-type/-header/-decode/-index/-objnr/-parse/-order/-overlap, trailer-size, section-size, free-head/-head-gen/-chain-broken/-loop/-not-on-chain, stream-eol, stream-length; other pdfstrict kinds (e.g. xref-original-subsect, startxref-syntax, eof-marker, xrefstm-length) are counted under beyond/ and never raise")
		t.Assume("a /Length that is too long by exactly the EOL before endstream is indistinguishable from a correct one")
		t.Assume("incremental outputs (annotation operations with incr=true, in place): a base with structural defects is first rewritten by pdfcpu with the same writer configuration; defects that the base bytes already have are not charged to the increment")
		t.Assume("byte-copy operations (PatchFile, pdfcpu.Write*, pdfcpu.CopyFile) and operations without PDF output (Extract* except ExtractPagesFile, Export*) are out of scope; at most 16 outputs per call are read (first 8 and last 8 by name)")

		t.Rule("numbering extremes: pdfgen documents renumbered sparsely (strided numbers, objects >= 65536 and >= 2^24, generation numbers > 0, free entries at high numbers, /Size much larger than the object count; object and xref streams, classic tables with gaps or listed holes, incremental updates) replace the generic input of a whole-document rewrite, an incremental annotation update and seeded further operations; each such case runs under ALL four writers (xref table/stream × object streams) with the EOL rotating (thorough: × LF/CR/CRLF); documents >= 2^24 (run with Limits.MaxObjectCount raised to 2^25, the default of 10 million refuses them): quick one document under one of the two xref stream writers, thorough three documents x 2 operations under all four writers")
		ops := opwl.PDFOps()
		pool := opwl.BuildPool(t, opwl.PoolOptions{Corpus: t.Pick(70, 1000), Gen: t.Pick(40, 300), Sparse: t.Pick(7, 49), SparseHuge: t.Pick(1, 3)})
		n := t.Pick(3*len(ops)+len(ops)/2, 66*len(ops))
		r := &runner{t: t, pool: pool, plans: pool.Plans(t, ops, n), nOps: len(ops), forced: map[int]writerConf{}}
		for _, pl := range pool.SparsePlans(t, ops, t.Pick(3, 8), t.Pick(1, 2), n) {
			huge := pool.Inputs[sparseInput(pl)].Tags["huge"]
			base := pl.Index
			for wi, w := range allWriters {
				if huge && t.Quick() && (!w.XRefStream || (wi+base+seedMod(t, 2))%2 != 0) {
					continue // quick: a document >= 2^24 costs 10-100 s: one of the two cross-reference STREAM writers (variable field widths)
				}
				for e := 0; e < 3; e++ {
					if (t.Quick() || huge) && e != (base+wi+seedMod(t, 3))%3 {
						continue // one EOL per (case, writer) in rotation
					}
					w.Eol = e
					pl.Index = len(r.plans)
					r.forced[pl.Index] = w
					r.plans = append(r.plans, pl)
				}
			}
		}
		nGeneral := n
		n = len(r.plans)
		t.Count("cases_general", int64(nGeneral))
		t.Count("cases_numbering_extremes", int64(n-nGeneral))
		t.Count("pool_sparse_rejected_by_validate", int64(pool.SparseRejected))
		t.Extra("operations", len(ops))
		t.Extra("pool", pool.TagCounts())
		t.Count("pool_inputs", int64(len(pool.Inputs)))
		t.Count("pool_corpus_rejected_by_validate", int64(pool.CorpusRejected))
		t.Count("pool_pdfgen_rejected_by_validate", int64(pool.GenRejected))

		only := -1
		if t.Replay != nil {
			var rc replayCase
			if json.Unmarshal(t.Replay.Case, &rc) == nil && rc.Index >= 0 && rc.Index < n {
				only = rc.Index
			}
		}
		outs := make([]caseOut, n)
		// documents >= 2^24 cost pdfcpu 10-200 CPU seconds and up to 1 GB per write: their cases run on three
		// goroutines of their own next to the others
		var hugeCases, otherCases []int
		for i := 0; i < n; i++ {
			if _, f := r.forced[i]; f && pool.Inputs[sparseInput(r.plans[i])].Tags["huge"] {
				hugeCases = append(hugeCases, i)
			} else {
				otherCases = append(otherCases, i)
			}
		}
		run := func(i int) {
			if only >= 0 && i != only {
				outs[i].void = "not the replayed case"
				return
			}
			w, a := r.confOf(i)
			outs[i] = r.runCase(i, w, a, "")
		}
		var wg sync.WaitGroup
		hugeNext := make(chan int, len(hugeCases))
		for _, i := range hugeCases {
			hugeNext <- i
		}
		close(hugeNext)
		runHuge := func() {
			for g := 0; g < 3; g++ {
				wg.Add(1)
				go func() {
					defer wg.Done()
					for i := range hugeNext {
						run(i)
					}
				}()
			}
		}
		if !t.Quick() {
			runHuge()
		}
		vk.Parallel(len(otherCases), func(oi int) { run(otherCases[oi]) })
		if t.Quick() {
			// quick: the garbage of sixteen busy goroutines makes the collector walk the huge case's 16 million
			// strings over and over; alone it is several times faster
			runHuge()
		}
		wg.Wait()
		t.Count("cases_numbering_extremes_2^24", int64(len(hugeCases)))

		// ---- sequential accounting in case order (deterministic)
		succeeded := map[string]int{}
		attempted := map[string]int{}
		firstErr := map[string]string{}
		type hit struct {
			i   int
			f   finding
			key rawKey
		}
		firstHit := map[rawKey]hit{}
		hitCount := map[rawKey]int{}
		hitOps := map[rawKey]map[string]bool{}
		var keyOrder []rawKey
		for i, o := range outs {
			if only >= 0 && i != only {
				continue
			}
			pl := r.plans[i]
			w, a := r.confOf(i)
			attempted[pl.Op.Name]++
			switch {
			case o.void != "":
				t.Count("cases_void_setup", 1)
				if os.Getenv("C18_VERBOSE") != "" && only < 0 {
					fmt.Fprintf(os.Stderr, "  case %d %s on %s: void: %s\n", i, pl.Op.Name, pl.InputName(pool), o.void)
				}
				continue
			case o.panicked != "":
				t.Count("pdfcpu_panics", 1)
				t.Count("pdfcpu_panic/"+o.panicked, 1)
				continue
			case o.failed != "":
				t.Count("op_returned_error", 1)
				if _, f := r.forced[i]; f {
					t.Count("op_returned_error/numbering="+pool.Inputs[sparseInput(pl)].Numbering, 1)
				}
				if os.Getenv("C18_VERBOSE") != "" {
					fmt.Fprintf(os.Stderr, "  case %d %s on %s (in place=%v random=%v) writer=%s eol=%s: %s\n", i, pl.Op.Name, pl.InputName(pool), pl.InPlace, pl.Random, w.writer(), w.eol(), o.failed)
				}
				if firstErr[pl.Op.Name] == "" {
					firstErr[pl.Op.Name] = o.failed
				}
				continue
			}
			succeeded[pl.Op.Name]++
			t.Count("cases_succeeded", 1)
			t.Count("outputs_unchecked_over_cap", int64(o.unchecked))
			if len(o.reports) == 0 {
				t.Count("cases_without_pdf_output", 1)
			}
			for fi, rep := range o.reports {
				ik := pl.InputKind(pool)
				if _, f := r.forced[i]; f {
					num := pool.Inputs[sparseInput(pl)].Numbering
					ik += ":" + num
					t.Count("outputs/numbering="+num+"/writer="+w.writer(), 1)
				}
				t.Eval(pl.Op.Name + "|" + w.writer() + "|" + w.eol() + "|" + ik)
				t.Count("outputs_checked", 1)
				t.Count("outputs/writer="+w.writer()+"/eol="+w.eol(), 1)
				t.Count("outputs/input="+pl.InputKind(pool), 1)
				t.Count("objects_checked", int64(rep.objects))
				t.Count("compressed_objects_checked", int64(rep.compressed))
				t.Count("streams_checked", int64(rep.streams))
				t.Count("object_streams_checked", int64(rep.objstms))
				if rep.sections > 1 {
					t.Count("outputs_with_prev_chain", 1)
				}
				if o.incr {
					t.Count("outputs_incremental_on_checked_base", 1)
				}
				if rep.xrefStream {
					t.Count("outputs_with_xref_stream", 1)
				}
				if rep.encrypted != "" {
					t.Count("outputs_encrypted/"+rep.encrypted, 1)
					if !rep.decrypted {
						t.Inconclusive("encrypted-output-not-decrypted/" + pl.Op.Name)
					}
				}
				if rep.skipped > 0 {
					t.Count("compressed_entries_skipped_undecryptable", int64(rep.skipped))
				}
				for k, c := range rep.beyond {
					t.Count("beyond/"+k, int64(c))
				}
				if i < len(ops) && fi == 0 && i%13 == 0 {
					t.Sample(map[string]any{"op": pl.Op.Name, "input": pl.InputName(pool), "writer": w.writer(), "eol": w.eol(), "file": o.files[fi],
						"objects": rep.objects, "compressed": rep.compressed, "streams": rep.streams, "sections": rep.sections, "encrypted": rep.encrypted})
				}
				for _, f := range rep.findings {
					f.File = o.files[fi]
					k := rawKey{kind: f.Kind, writer: w.writer(), eol: w.eol(), incr: o.incr}
					if rep.encrypted != "" && encKinds[f.Kind] {
						k.enc = rep.encrypted
					}
					hitCount[k]++
					if hitOps[k] == nil {
						hitOps[k] = map[string]bool{}
					}
					hitOps[k][pl.Op.Name] = true
					if _, seen := firstHit[k]; !seen {
						firstHit[k] = hit{i, f, k}
						keyOrder = append(keyOrder, k)
					}
					_ = a
				}
			}
		}
		// ---- violations: generalise each raw key on its first case, merge equal keys
		type agg struct {
			h     hit
			count int
			ops   map[string]bool
			raws  []string
		}
		gen := make([]string, len(keyOrder))
		vk.Parallel(len(keyOrder), func(j int) {
			k := keyOrder[j]
			h := firstHit[k]
			w, a := r.confOf(h.i)
			gen[j] = r.generalise(h.i, k, w, a)
		})
		byKey := map[string]*agg{}
		var order []string
		for j, k := range keyOrder {
			g := byKey[gen[j]]
			if g == nil {
				g = &agg{h: firstHit[k], ops: map[string]bool{}}
				byKey[gen[j]] = g
				order = append(order, gen[j])
			}
			g.count += hitCount[k]
			for o := range hitOps[k] {
				g.ops[o] = true
			}
			g.raws = append(g.raws, k.String(k.writer, k.eol))
		}
		for _, key := range order {
			g := byKey[key]
			pl := r.plans[g.h.i]
			w, a := r.confOf(g.h.i)
			var opl []string
			for o := range g.ops {
				opl = append(opl, o)
			}
			sort.Strings(opl)
			if len(opl) > 8 {
				opl = append(opl[:8], fmt.Sprintf("… (%d operations)", len(g.ops)))
			}
			what := fmt.Sprintf("%d output(s), operations %s; first: case %d %s on %s (in place=%v) writer=%s eol=%s file %s: %s",
				g.count, strings.Join(opl, ","), g.h.i, pl.Op.Name, pl.InputName(pool), pl.InPlace, w.writer(), w.eol(), g.h.f.File, g.h.f.Msg)
			t.Violate(key, what, replayCase{Index: g.h.i, Op: pl.Op.Name, Input: pl.InputName(pool), InPlace: pl.InPlace, Random: pl.Random,
				Writer: w.writer(), Eol: w.eol(), EncAlg: a.String(), File: g.h.f.File, Defect: g.h.f.Msg})
		}
		if only >= 0 {
			return
		}
		var never []string
		for _, op := range ops {
			t.Count("op_succeeded/"+op.Name, int64(succeeded[op.Name]))
			if succeeded[op.Name] == 0 {
				never = append(never, op.Name)
				t.Inconclusive("op-never-succeeded/" + op.Name + ": " + firstErr[op.Name])
			}
		}
		t.Extra("operations_never_succeeded", never)
		if t.Counter("outputs_checked") == 0 {
			t.Broken("no output was checked")
		}
	})
}
