//go:build verifshadow

// C06 — batch installs of fonts and certificates are all-or-nothing.
// Fault enumeration at the package-os level: a traced fault-free run of each batch shape gives the
// ordered filesystem calls (mkdirTemp, createTemp, lstat, stat, write, fsync, directory fsync, close,
// rename, remove, removeAll … exactly as production code issues them); the batch is then re-run once
// per call index with one injected error (thorough: also panics and double faults) and the target
// directory trees are compared with their state before the call.
package main

import (
	"bytes"
	"encoding/json"
	"fmt"
	"os"
	"path/filepath"
	"sort"
	"strings"
	"syscall"

	"github.com/pdfcpu/pdfcpu/pkg/api"
	"github.com/pdfcpu/pdfcpu/pkg/font"
	"github.com/pdfcpu/pdfcpu/pkg/pdfcpu"
	"verif/harness/internal/fontcase"
	"verif/harness/internal/fsx"
	"verif/harness/internal/osmon"
	"verif/harness/internal/pdfcmp"
	"verif/harness/internal/vk"
)

func main() {
	vk.Run("C06", "fault_enumeration", func(t *vk.T) {
		api.DisableConfigDir()
		if !t.IsShard() {
			t.Rule("case = (batch shape, fault kind, index k of the faulted filesystem call [, second fault]); each case re-runs the real installation with the fault injected and compares the whole sandbox (inputs, font dir, cert dir, sheet dir: names, bytes, modes) with its state before the call; non-trivial = fault reached and the installation failed; distinct by (shape, kind, k[, k2])")
			t.Assume("faults are injected at package-os calls under the sandbox; single faults on valid batches mean every rollback step succeeds, so the directories must be restored exactly; faults on batches that fail by themselves (corrupt / duplicate input) and second faults can hit rollback steps: then a difference is accepted only if the error text names an existing backup directory that still holds every original that was not restored")
			t.Assume("excuse: when the injected fault is on the removal of a staging/backup entry itself, that entry may remain")
			shapes := fontcase.Shapes(t.Quick())
			t.Extra("shapes", len(shapes))
			pre := filepath.Join(t.Scratch(), "pre")
			os.MkdirAll(pre, 0o755)
			t.RunShards(16, "VERIF_PHASE=setup", "VERIF_PRE="+pre) // phase 1: build every shape's sandbox once
			t.RunShards(16, "VERIF_PHASE=faults", "VERIF_PRE="+pre)
			if t.Counter("shapes_reached") == 0 {
				t.Broken("no shape was driven")
			}
			return
		}
		mat, err := fontcase.NewMaterial(vk.RepoDir())
		if err != nil {
			t.Broken("material: %v", err)
		}
		si, sn := t.Shard()
		if os.Getenv("VERIF_PHASE") == "setup" {
			for idx, sh := range fontcase.Shapes(t.Quick()) {
				if idx%sn != si {
					continue
				}
				dir := filepath.Join(os.Getenv("VERIF_PRE"), sh.Name)
				c, err := fontcase.Setup(dir, sh, mat)
				if err != nil {
					t.Inconclusive("setup-failed/" + sh.Name + ": " + err.Error())
					os.RemoveAll(dir)
					continue
				}
				b, _ := json.Marshal(c.Expected)
				os.WriteFile(dir+".expected.json", b, 0o644)
			}
			return
		}
		// every shard traces every shape (cheap) and then takes the fault points k ≡ shard (mod n)
		for idx, sh := range fontcase.Shapes(t.Quick()) {
			runShape(t, mat, sh, idx, si, sn)
		}
	})
}

type fspec struct {
	k, k2 int64
	kind  string
}

func faults(fs fspec) []*osmon.Fault {
	var out []*osmon.Fault
	switch fs.kind {
	case "errno", "double":
		out = append(out, &osmon.Fault{At: fs.k, Kind: osmon.Errno, Errno: syscall.EIO})
	case "panic":
		out = append(out, &osmon.Fault{At: fs.k, Kind: osmon.PanicPlain})
	}
	if fs.kind == "double" {
		out = append(out, &osmon.Fault{At: fs.k2, Kind: osmon.Errno, Errno: syscall.EACCES})
	}
	return out
}

func runShape(t *vk.T, mat *fontcase.Material, sh fontcase.Shape, idx, si, sn int) {
	first := idx%sn == si // one shard reports the per-shape facts
	root := filepath.Join(t.Scratch(), "sb")
	preDir := filepath.Join(os.Getenv("VERIF_PRE"), sh.Name)
	eb, err := os.ReadFile(preDir + ".expected.json")
	if err != nil {
		return // setup failed (already reported)
	}
	var expected []string
	json.Unmarshal(eb, &expected)
	before, err := fsx.Snapshot(preDir, true)
	if err != nil {
		t.Broken("snapshot: %v", err)
	}
	if err := fsx.Restore(root, before); err != nil {
		t.Broken("restore: %v", err)
	}
	c := fontcase.Attach(root, sh, mat, expected)
	font.ReloadUserFonts() // the in-memory registry must describe this sandbox, not the previous one
	m := &osmon.Mon{Scope: root, Record: true}
	var rerr error
	var pv any
	m.Run(func() { rerr, pv = c.Run() })
	evs := m.Events()
	M := int64(len(evs))
	if pv != nil || (rerr != nil) != sh.Invalid {
		t.Inconclusive(fmt.Sprintf("traced-run-diverged/%s: err=%v panic=%v invalid=%v", sh.Name, rerr, pv, sh.Invalid))
		return
	}
	if first {
		t.Count("shapes_reached", 1)
		t.Count("fs_calls_traced", M)
		ops := map[string]int{}
		for _, e := range evs {
			ops[e.Op]++
		}
		t.Sample(map[string]any{"shape": sh.Name, "inputs": sh.Inputs, "pre_existing": sh.Pre, "fs_calls": M, "calls_by_op": ops})
		after, _ := fsx.Snapshot(root, false)
		judge(t, c, fspec{kind: "none"}, nil, rerr, nil, before, after)
		t.Eval(sh.Name + "/nofault")
	}

	var specs []fspec
	rng := t.RNG("k/" + sh.Name)
	for k := int64(1); k <= M; k++ {
		if evs[k-1].Depth > 0 || int(k+int64(idx))%sn != si {
			continue
		}
		if t.Quick() && M > 40 && k%2 == int64(rng.IntN(2)) && k > 3 && k < M-6 {
			continue
		}
		specs = append(specs, fspec{k: k, kind: "errno"})
		if !t.Quick() {
			switch evs[k-1].Op {
			case "openfile", "read", "write", "stat", "lstat", "mkdir", "readdir", "sync":
				specs = append(specs, fspec{k: k, kind: "panic"})
			}
			// second fault a few calls later: lands in the rollback the first one triggers
			for _, d := range []int64{1, 2, 3, 5, 8} {
				specs = append(specs, fspec{k: k, k2: k + d, kind: "double"})
			}
		}
	}
	for _, fs := range specs {
		if err := fsx.Restore(root, before); err != nil {
			t.Broken("restore: %v", err)
		}
		font.ReloadUserFonts()
		fm := &osmon.Mon{Scope: root, Record: true, Faults: faults(fs)}
		var ferr error
		var fpv any
		fm.Run(func() { ferr, fpv = c.Run() })
		fired := fm.Fired()
		if len(fired) == 0 {
			t.Count("fault_not_reached", 1)
			t.Eval("")
			continue
		}
		var inj []*osmon.Event
		for _, e := range fm.Events() {
			if e.Inj != "" {
				inj = append(inj, e)
			}
		}
		after, err := fsx.Snapshot(root, false)
		if err != nil {
			t.Broken("snapshot: %v", err)
		}
		key := ""
		if ferr != nil || fpv != nil {
			key = fmt.Sprintf("%s/%s/%d/%d", sh.Name, fs.kind, fs.k, fs.k2)
			t.Count("failed_runs/"+fs.kind, 1)
		} else {
			t.Count("succeeded_despite_fault", 1)
		}
		if fs.kind == "double" && len(fired) == 2 {
			t.Count("double_faults_both_reached", 1)
		}
		t.Eval(key)
		judge(t, c, fs, inj, ferr, fpv, before, after)
	}
}

// pathClass names the role of a path in the transaction (stable across runs: temporary suffixes are dropped).
func pathClass(c *fontcase.Case, p string) string {
	r := rel(c.Root, p)
	parts := strings.Split(r, "/")
	for i, s := range parts {
		if strings.HasPrefix(s, ".") {
			// .pdfcpu-font-backup-123 -> .pdfcpu-font-backup ; .c1.p7c.stage-123 -> .stage ; .X.gob.tmp-1 -> .tmp
			if j := strings.LastIndex(s, "-"); j > 0 {
				s = s[:j]
			}
			if k := strings.LastIndex(s, "."); k > 0 {
				s = s[k:]
			}
			parts[i] = s
		} else if i == len(parts)-1 && i > 0 {
			parts[i] = "<file>"
		}
	}
	return strings.Join(parts, "/")
}

func rel(root, p string) string {
	if r, err := filepath.Rel(root, p); err == nil {
		return filepath.ToSlash(r)
	}
	return p
}

func judge(t *vk.T, c *fontcase.Case, fs fspec, inj []*osmon.Event, ferr error, fpv any, before, after fsx.Tree) {
	sh := c.Shape
	injDesc, at := "", ""
	for _, e := range inj {
		injDesc += fmt.Sprintf("[call %d %s %s] ", e.Seq, e.Op, rel(c.Root, e.Path))
		if at != "" {
			at += "+"
		}
		at += e.Op + ":" + pathClass(c, e.Path)
	}
	base := fmt.Sprintf("shape=%s/fault=%s/at=%s", sh.Name, fs.kind, at)
	errText := ""
	if ferr != nil {
		errText = ferr.Error()
	}
	report := func(class, what string, chs []fsx.Change) {
		if fs.kind == "panic" {
			// the property quantifies over injected FAILURES of the filesystem steps, not over panics
			// unwinding through an installation: observed and counted, not judged
			t.Count("observed_only/panic/"+class, 1)
			return
		}
		var cs []string
		for _, ch := range chs {
			cs = append(cs, ch.String())
		}
		t.Violate(base+"/class="+class, fmt.Sprintf("%s: fault %s %s→ error %q panic %v: %s %s", sh.Name, fs.kind, injDesc, errText, fpv, what, strings.Join(cs, "; ")),
			map[string]any{"shape": sh.Name, "fault": fs.kind, "k": fs.k, "k2": fs.k2, "injected": injDesc, "error": errText, "panic": fmt.Sprint(fpv), "changes": cs})
	}
	excusedLeftover := func(p string) bool {
		for _, e := range inj {
			if (e.Op == "remove" || e.Op == "removeall") && (rel(c.Root, e.Path) == p || strings.HasPrefix(p, rel(c.Root, e.Path)+"/")) {
				return true
			}
		}
		return false
	}
	changes := fsx.Diff(before, after)
	if ferr == nil && fpv == nil {
		// success: every target published and usable, nothing else changed, no leftovers
		tdir := rel(c.Root, c.TargetDir)
		var bad []fsx.Change
		for _, ch := range changes {
			if filepath.Dir(ch.Path) == tdir && contains(c.Expected, filepath.Base(ch.Path)) {
				continue // published target (new, replaced; the mode of a replaced target is not C06's subject)
			}
			if ch.Kind == "added" && excusedLeftover(ch.Path) {
				t.Count("excused_cleanup_fault", 1)
				continue
			}
			bad = append(bad, ch)
		}
		if len(bad) > 0 {
			report("success-but-unexpected-changes", "after a successful installation the sandbox shows", bad)
		}
		for _, e := range c.Expected {
			full := filepath.Join(c.TargetDir, e)
			fi, err := os.Stat(full)
			if err != nil || fi.Size() == 0 {
				report("success-but-target-missing", "target "+e+" missing or empty after success", nil)
				continue
			}
			switch {
			case strings.HasSuffix(e, ".p7c"):
				if _, err := pdfcpu.LoadCertificatesFile(full); err != nil {
					report("success-but-target-undecodable", "certificate target "+e+": "+err.Error(), nil)
				}
			case strings.HasSuffix(e, ".pdf"):
				if _, err := pdfcmp.Validate(full); err != nil {
					report("success-but-target-undecodable", "cheat sheet "+e+": "+err.Error(), nil)
				}
			}
		}
		if sh.Kind != "certs" && sh.Kind != "cheatsheets" {
			if err := font.ReloadUserFonts(); err != nil {
				report("success-but-target-undecodable", "font.ReloadUserFonts: "+err.Error(), nil)
			} else if names, err := font.UserFontNames(); err == nil {
				for _, e := range c.Expected {
					if !contains(names, strings.TrimSuffix(e, ".gob")) {
						report("success-but-target-undecodable", "font "+e+" not loadable after success", nil)
					}
				}
			}
		}
		return
	}
	if len(changes) == 0 {
		return
	}
	var leftovers, damaged []fsx.Change
	for _, ch := range changes {
		if ch.Kind == "added" {
			if excusedLeftover(ch.Path) {
				t.Count("excused_cleanup_fault", 1)
				continue
			}
			leftovers = append(leftovers, ch)
		} else {
			damaged = append(damaged, ch)
		}
	}
	if len(leftovers) == 0 && len(damaged) == 0 {
		return
	}
	if fs.kind == "double" && len(inj) == 2 {
		// Two failures: the second one hit the rollback / clean-up the first one triggered. The property's
		// quantifier is single failures; the one clause that speaks about this situation is "if a rollback
		// step fails, the error says where the backup was kept". So: leftovers are not judged (a rollback
		// step did fail), inputs must be untouched, and every pre-existing target that is not back in place
		// must have its original bytes in a retained entry that the error text names.
		t.Count("double_fault_leftovers_not_judged", int64(len(leftovers)))
		named := func(p string) bool {
			full := filepath.Join(c.Root, filepath.FromSlash(p))
			for q := full; len(q) > len(c.Root); q = filepath.Dir(q) {
				if strings.Contains(errText, q) || (strings.HasPrefix(filepath.Base(q), ".") && strings.Contains(errText, filepath.Base(q))) {
					return true
				}
			}
			return false
		}
		var lost []fsx.Change
		for _, ch := range damaged {
			if strings.HasPrefix(ch.Path, "in/") {
				report("input-damaged", "after two failures an input file changed", []fsx.Change{ch})
				continue
			}
			orig, had := before[ch.Path]
			if !had || !orig.Mode.IsRegular() {
				continue
			}
			if na, ok := after[ch.Path]; ok && na.Mode.IsRegular() && na.Size > 0 && na.Sum != orig.Sum &&
				filepath.Dir(ch.Path) == rel(c.Root, c.TargetDir) && contains(c.Expected, filepath.Base(ch.Path)) {
				// the new target is published in its place (failure after the point of no return, or a
				// rollback that could not take it back): its original must still be retained or the whole
				// batch published; the batch-level mixture rule is what single failures are judged by
				t.Count("double_fault_target_published", 1)
				continue
			}
			kept := false
			for q, e := range after {
				if _, old := before[q]; old || !e.Mode.IsRegular() || e.Sum != orig.Sum {
					continue
				}
				if named(q) {
					kept = true
				}
			}
			if kept {
				t.Count("backup_retained_reported", 1)
			} else {
				lost = append(lost, ch)
			}
		}
		if len(lost) > 0 {
			report("original-lost-without-named-backup", "a rollback step failed and the error does not name a retained entry holding the original of", lost)
		}
		return
	}
	// "all": the error was raised after the point of no return — every target is published and usable
	// (the property allows either outcome; what it forbids is a mixture)
	tdir := rel(c.Root, c.TargetDir)
	allPublished := len(c.Expected) > 0
	for _, e := range c.Expected {
		p := tdir + "/" + e
		na, ok := after[p]
		ob, had := before[p]
		if !ok || na.Size == 0 || (had && ob.Sum == na.Sum) {
			allPublished = false
		}
	}
	var others []fsx.Change
	for _, ch := range damaged {
		if !(filepath.Dir(ch.Path) == tdir && contains(c.Expected, filepath.Base(ch.Path))) {
			others = append(others, ch)
		}
	}
	var extraLeft []fsx.Change
	for _, ch := range leftovers {
		if !(filepath.Dir(ch.Path) == tdir && contains(c.Expected, filepath.Base(ch.Path))) {
			extraLeft = append(extraLeft, ch)
		}
	}
	if allPublished && len(others) == 0 {
		t.Count("failed_after_full_publication", 1)
		if len(extraLeft) > 0 {
			report("staging-left", "every target was published, the call reported an error, and these entries remain although their removal was not the faulted step:", extraLeft)
		}
		return
	}
	strict := !sh.Invalid && fs.kind != "double"
	if !strict {
		// a rollback step may have failed: accepted only if the error names an existing backup directory holding the originals
		if backupRetained(c, errText, before, damaged, leftovers) {
			t.Count("backup_retained_reported", 1)
			return
		}
	}
	if len(damaged) > 0 {
		cls := "target-not-restored"
		for _, ch := range damaged {
			if strings.HasPrefix(ch.Path, "in/") {
				cls = "input-damaged"
			}
		}
		report(cls, "after the failed installation (neither the previous state nor every target published)", damaged)
	}
	if len(leftovers) > 0 {
		cls := "staging-left"
		for _, ch := range leftovers {
			if !fsx.IsStaging(filepath.Base(ch.Path)) && !fsx.IsStaging(filepath.Base(filepath.Dir(ch.Path))) {
				cls = "partial-publication"
			}
		}
		report(cls, "after the failed installation", leftovers)
	}
}

// backupRetained: every path that was damaged has its original bytes inside a directory that still
// exists and whose path occurs in the error text; every leftover lies inside such a directory (or is it).
func backupRetained(c *fontcase.Case, errText string, before fsx.Tree, damaged, leftovers []fsx.Change) bool {
	var dirs []string
	for _, ch := range leftovers {
		full := filepath.Join(c.Root, filepath.FromSlash(ch.Path))
		if ch.New.Mode.IsDir() && strings.Contains(errText, full) {
			dirs = append(dirs, full)
		}
	}
	if len(dirs) == 0 {
		return false
	}
	sort.Strings(dirs)
	inDirs := func(full string) bool {
		for _, d := range dirs {
			if full == d || strings.HasPrefix(full, d+"/") {
				return true
			}
		}
		return false
	}
	for _, ch := range leftovers {
		if !inDirs(filepath.Join(c.Root, filepath.FromSlash(ch.Path))) {
			return false
		}
	}
	for _, ch := range damaged {
		orig := before[ch.Path]
		found := false
		for _, d := range dirs {
			b, err := os.ReadFile(filepath.Join(d, filepath.Base(ch.Path)))
			if err == nil && bytes.Equal(b, orig.Data) {
				found = true
			}
		}
		if !found {
			return false
		}
	}
	return true
}

func contains(l []string, s string) bool {
	for _, x := range l {
		if x == s {
			return true
		}
	}
	return false
}
