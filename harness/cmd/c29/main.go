// C29 — removing signatures removes them all and nothing else.
//
// api.RemoveSignaturesFile is run (to a new file and in place) on: the signed samples shipped
// with pdfcpu; pdfgen documents with 1..4 signature fields spread over several pages, half of
// them nested under a non-terminal field, mixed with ordinary text / button / choice fields and
// ordinary annotations, a certification signature (/Perms /DocMDP) and a usage-rights signature
// (/Perms /UR3); hand-made shapes (signature field with a separate widget kid, with two widget
// kids on two pages, two levels deep, /FT inherited from the parent, unsigned signature field,
// next to an ordinary field group without /FT); and cryptographically valid harness-signed
// documents (one / two signed revisions, /DSS, DocMDP).
//
// Oracle, on the OUTPUT through the independent reader pdfstrict (pdfcpu's reader is not used):
//
//	nothing reachable from the trailer is a signature dictionary (/Type /Sig, /Type /DocTimeStamp,
//	or /ByteRange + /Contents), no field has (own or inherited) /FT /Sig, no page /Annots entry is
//	a widget of such a field, the catalog has no /Perms;
//	and otherwise the same pages and content: same page count; per page the same decoded content,
//	MediaBox, CropBox, Rotate, resources, and the same sequence of non-signature annotations;
//	the same non-signature terminal fields (full name, type, value), compared input vs output.
//
// Enumerated family (hier.go): field hierarchies of depth 3, 4 and 5 whose terminal signature
// field takes /FT /Sig from itself, its parent, grandparent, ... (every /FT assignment over
// {none, Sig, Tx} per level whose effective type at the terminal field is Sig: 13 + 40 + 121),
// x widget merged | one /Kids widget | two /Kids widgets on two pages, x every non-terminal level
// also holding an ordinary text field | a further signature field | nothing.
//
// Enumerated family (annots.go): one signature field on a three page document whose widget has no
// /P | a /P naming a page that does not list it | the right /P, x widget on the first / middle /
// last page, x only / first / last entry of that /Annots, x 0, 1, 2 ordinary annotations on each
// of the two other pages (links, notes, ordinary field widgets, widgets of another signature
// field), x widget merged | /Kids widget, x /Annots direct | indirect array objects.
//
// (/SigFlags and /DSS are not named by the property: counted, not judged.)
// On a document without signatures: the error is api.ErrNoSignatures and the sandbox directory
// is byte-for-byte what it was (no output, no temporary left, input untouched).
package main

import (
	"crypto/sha256"
	"errors"
	"fmt"
	"os"
	"path/filepath"
	"sort"
	"strings"
	"time"

	"github.com/pdfcpu/pdfcpu/pkg/api"
	"github.com/pdfcpu/pdfcpu/pkg/pdfcpu/model"
	"verif/harness/internal/pdfgen"
	"verif/harness/internal/pdfstrict"
	"verif/harness/internal/sigkit"
	"verif/harness/internal/vk"
)

type input struct {
	Name   string
	Shape  string // key component: what kind of document
	Bytes  []byte
	Signed bool   // has signatures (fields or /Perms)
	Key    string // violation-key component if it is not the shape itself (enumerated families)
	Mode   int    // 0: both modes, 1: new output only, 2: in place only
}

func main() { vk.Run("C29", "exploration", run) }

func run(t *vk.T) {
	api.DisableConfigDir()
	t.Rule("one case = RemoveSignaturesFile on one document in one mode (new output / in place); non-trivial = distinct (document shape, mode) with at least one signature structure in the input, or a signature-free document for the error clause")
	now := time.Now()
	var ins []input

	files, _ := filepath.Glob(filepath.Join(vk.RepoDir(), "pkg/samples/signatures/*/*.pdf"))
	sort.Strings(files)
	for _, f := range files {
		if b, err := os.ReadFile(f); err == nil {
			ins = append(ins, input{Name: "sample/" + filepath.Base(f), Shape: "sample/" + filepath.Base(f), Bytes: b, Signed: true})
		}
	}
	nGen := t.Pick(60, 600)
	for i := 0; i < nGen; i++ {
		rng := t.RNGi("gen", i)
		spec := pdfgen.RandomSpec(rng, 6)
		spec.Signatures = 1 + rng.IntN(4)
		spec.Form = rng.IntN(3) > 0
		spec.Annotations = rng.IntN(2) == 0
		spec.Secrets = false
		if spec.Pages < 2 {
			spec.Pages = 2 + rng.IntN(4)
		}
		bt := pdfgen.Build(spec)
		shape := fmt.Sprintf("pdfgen/sigs=%d/form=%v/annots=%v", spec.Signatures, spec.Form, spec.Annotations)
		ins = append(ins, input{Name: fmt.Sprintf("pdfgen/%d", i), Shape: shape, Bytes: bt.Bytes, Signed: true})
	}
	for _, sh := range shapeNames {
		for _, xs := range []bool{false, true} {
			b, err := buildShape(sh, xs)
			if err != nil {
				t.Broken("shape %s: %v", sh, err)
			}
			ins = append(ins, input{Name: fmt.Sprintf("shape/%s/xrefstream=%v", sh, xs), Shape: "shape/" + sh, Bytes: b, Signed: true})
		}
	}
	// enumerated family of field hierarchies (hier.go): every member; the cross-reference form
	// alternates in the quick tier and is the full product in the thorough tier
	hs := hierSpecs()
	for i, h := range hs {
		for _, xs := range []bool{false, true} {
			if t.Pick(1, 2) == 1 && xs != (i%2 == 1) {
				continue
			}
			b, err := buildHier(h, xs)
			if err != nil {
				t.Broken("hierarchy %s: %v", h.name(), err)
			}
			ins = append(ins, input{Name: fmt.Sprintf("%s/xrefstream=%v", h.name(), xs), Shape: h.name(), Bytes: b, Signed: true, Key: h.class()})
		}
	}
	t.Count("hierarchy_family_members", int64(len(hs)))
	// enumerated family of page /Annots situations (annots.go): the quick tier takes every
	// (/P mode, widget page, widget position, bystander counts, bystander kinds) once, with the /Annots
	// form, the widget form and the mode alternating; the thorough tier takes the full product
	as := annotSpecs() // the four (/Annots form, widget form) combinations of a situation are consecutive
	nAnn := 0
	arng := t.RNG("annots")
	pick, pickMode := 0, 0
	for i, a := range as {
		mode := 0
		if t.Pick(1, 2) == 1 {
			if i%4 == 0 {
				pick, pickMode = arng.IntN(4), 1+arng.IntN(2)
			}
			if i%4 != pick {
				continue
			}
			mode = pickMode
		}
		b, err := buildAnnotDoc(a)
		if err != nil {
			t.Broken("annots %s: %v", a.name(), err)
		}
		nAnn++
		ins = append(ins, input{Name: a.name(), Shape: a.name(), Bytes: b, Signed: true, Key: a.class(), Mode: mode})
	}
	t.Count("annots_family_members", int64(nAnn))
	pki, err := sigkit.NewPKI(sigkit.PKIOptions{}, now)
	if err != nil {
		t.Broken("pki: %v", err)
	}
	for i, o := range []sigkit.DocOptions{
		{SubFilters: []string{sigkit.SFDetached}, ExtraFields: true},
		{SubFilters: []string{sigkit.SFCAdES, sigkit.SFDetached}, Pages: 3, ExtraFields: true},
		{SubFilters: []string{sigkit.SFDetached}, DocMDP: 2, DSS: true},
		{SubFilters: []string{sigkit.SFX509, sigkit.SFDTS}, Pages: 2, XRefStream: true},
	} {
		s, err := sigkit.BuildSigned(pki, o, now)
		if err != nil {
			t.Broken("signed: %v", err)
		}
		ins = append(ins, input{Name: fmt.Sprintf("harness-signed/%d", i), Shape: "harness-signed/" + strings.Join(o.SubFilters, "+"), Bytes: s.Bytes, Signed: true})
	}
	// without signatures
	for i := 0; i < t.Pick(12, 60); i++ {
		rng := t.RNGi("nosig", i)
		spec := pdfgen.RandomSpec(rng, 5)
		spec.Signatures = 0
		spec.Form = i%2 == 0
		bt := pdfgen.Build(spec)
		ins = append(ins, input{Name: fmt.Sprintf("nosig/%d", i), Shape: fmt.Sprintf("nosig/form=%v", spec.Form), Bytes: bt.Bytes})
	}
	t.Count("inputs", int64(len(ins)))

	vk.Parallel(len(ins)*2, func(k int) {
		in := ins[k/2]
		inPlace := k%2 == 1
		if in.Mode != 0 && (in.Mode == 2) != inPlace {
			return
		}
		runCase(t, in, inPlace, k)
	})
}

func treeOf(dir string) map[string]string {
	m := map[string]string{}
	_ = filepath.Walk(dir, func(p string, fi os.FileInfo, err error) error {
		if err != nil || fi.IsDir() {
			return nil
		}
		b, _ := os.ReadFile(p)
		rel, _ := filepath.Rel(dir, p)
		m[rel] = fmt.Sprintf("%d:%x", len(b), sha256.Sum256(b))
		return nil
	})
	return m
}

func treeDiff(a, b map[string]string) string {
	var d []string
	for k, v := range a {
		if w, ok := b[k]; !ok {
			d = append(d, "removed:"+k)
		} else if w != v {
			d = append(d, "changed:"+k)
		}
	}
	for k := range b {
		if _, ok := a[k]; !ok {
			d = append(d, "new:"+k)
		}
	}
	sort.Strings(d)
	return strings.Join(d, ",")
}

func runCase(t *vk.T, in input, inPlace bool, k int) {
	mode := "new-output"
	if inPlace {
		mode = "in-place"
	}
	dir := filepath.Join(t.Scratch(), fmt.Sprintf("case-%d", k))
	if err := os.MkdirAll(dir, 0o755); err != nil {
		t.Broken("mkdir: %v", err)
	}
	defer os.RemoveAll(dir)
	inFile, outFile := filepath.Join(dir, "in.pdf"), filepath.Join(dir, "out.pdf")
	if err := os.WriteFile(inFile, in.Bytes, 0o644); err != nil {
		t.Broken("write: %v", err)
	}
	before := treeOf(dir)
	conf := model.NewDefaultConfiguration()
	conf.Offline = true
	arg := outFile
	if inPlace {
		arg = ""
	}
	var err error
	panicked := ""
	func() {
		defer func() {
			if r := recover(); r != nil {
				panicked = fmt.Sprint(r)
				err = fmt.Errorf("panic: %v", r)
			}
		}()
		err = api.RemoveSignaturesFile(inFile, arg, conf)
	}()
	if panicked != "" {
		t.Count("pdfcpu_panics", 1)
	}
	after := treeOf(dir)
	rc := map[string]any{"input": in.Name, "mode": mode}

	din, derr := pdfstrict.Open(in.Bytes, pdfstrict.Options{})
	if derr != nil {
		t.Inconclusive("input-unreadable-by-pdfstrict/" + in.Shape)
		return
	}
	fin := factsOf(din)
	hasSig := fin.sigDicts+fin.sigFields+fin.sigWidgets > 0 || fin.perms

	if !hasSig {
		// error clause
		t.Eval(in.Shape + "/" + mode)
		switch {
		case err == nil:
			t.Violate("nosig/mode="+mode+"/class=no-error", fmt.Sprintf("%s: document without signatures: RemoveSignaturesFile returned nil; tree diff %q", in.Name, treeDiff(before, after)), rc)
		case !errors.Is(err, api.ErrNoSignatures):
			t.Violate("nosig/mode="+mode+"/class=other-error", fmt.Sprintf("%s: document without signatures: error is not ErrNoSignatures: %v", in.Name, err), rc)
		default:
			t.Count("nosig_err_no_signatures", 1)
		}
		if d := treeDiff(before, after); d != "" {
			t.Violate("nosig/mode="+mode+"/class=tree-changed", fmt.Sprintf("%s: document without signatures: sandbox changed: %s", in.Name, d), rc)
		}
		return
	}

	if err != nil {
		if errors.Is(err, api.ErrNoSignatures) {
			t.Eval(in.Shape + "/" + mode)
			t.Violate("shape="+in.key()+"/class=signatures-not-seen",
				fmt.Sprintf("%s: input has %d signature dictionaries, %d signature fields, %d signature widgets, /Perms=%v, yet RemoveSignaturesFile says: %v", in.Name, fin.sigDicts, fin.sigFields, fin.sigWidgets, fin.perms, err), rc)
			return
		}
		// pdfcpu refuses the document (validation): nothing to judge, but nothing may be left behind
		t.Inconclusive("pdfcpu-rejects-input/" + in.key())
		t.Count("rejected: "+clip(err.Error(), 90), 1)
		if d := treeDiff(before, after); d != "" {
			t.Violate("failed-removal/mode="+mode+"/class=tree-changed", fmt.Sprintf("%s: failed removal (%v) changed the sandbox: %s", in.Name, err, d), rc)
		}
		return
	}
	t.Eval(in.Shape + "/" + mode)
	res := outFile
	if inPlace {
		res = inFile
	}
	ob, rerr := os.ReadFile(res)
	if rerr != nil {
		t.Violate("mode="+mode+"/class=no-output", fmt.Sprintf("%s: success but no result file: %v", in.Name, rerr), rc)
		return
	}
	// exactly the result and the input, nothing else
	for name := range after {
		if name != "in.pdf" && name != "out.pdf" {
			t.Violate("mode="+mode+"/class=stray-file", fmt.Sprintf("%s: stray file %s after success", in.Name, name), rc)
		}
	}
	if !inPlace && after["in.pdf"] != before["in.pdf"] {
		t.Violate("mode="+mode+"/class=input-changed", in.Name+": input file changed although an output file was named", rc)
	}
	dout, oerr := pdfstrict.Open(ob, pdfstrict.Options{})
	if oerr != nil {
		t.Violate("shape="+in.key()+"/class=output-unreadable", fmt.Sprintf("%s: output unreadable by the independent reader: %v", in.Name, oerr), rc)
		return
	}
	fout := factsOf(dout)
	sk := in.key()
	t.Count("removed_sig_dicts", int64(fin.sigDicts))
	t.Count("removed_sig_fields", int64(fin.sigFields))
	t.Count("removed_sig_widgets", int64(fin.sigWidgets))
	if fin.perms {
		t.Count("inputs_with_perms", 1)
	}
	if fin.nested > 0 {
		t.Count("inputs_with_nested_sig_fields", 1)
	}
	if fin.sigPages > 1 {
		t.Count("inputs_with_sig_widgets_on_several_pages", 1)
	}
	vio := func(class, what string) {
		t.Violate("shape="+sk+"/class="+class, in.Name+" ("+mode+"): "+what, rc)
	}
	if fout.sigDicts > 0 {
		vio("sig-dict-reachable", fmt.Sprintf("%d signature dictionaries still reachable (input had %d): %s", fout.sigDicts, fin.sigDicts, strings.Join(fout.notes, "; ")))
	}
	if fout.sigFields > 0 {
		vio("sig-field-left", fmt.Sprintf("%d fields with /FT /Sig left in the field tree (input had %d)", fout.sigFields, fin.sigFields))
	}
	if fout.sigWidgets > 0 {
		vio("sig-widget-left", fmt.Sprintf("%d signature widgets left in page /Annots (input had %d on %d pages)", fout.sigWidgets, fin.sigWidgets, fin.sigPages))
	}
	if fout.perms {
		vio("perms-left", "catalog still has /Perms")
	}
	if fout.sigFlags {
		t.Count("observed_sigflags_left", 1)
	}
	if fout.dss {
		t.Count("observed_dss_left", 1)
	}
	// nothing else
	if len(fin.pages) != len(fout.pages) {
		vio("page-count", fmt.Sprintf("page count %d -> %d", len(fin.pages), len(fout.pages)))
		return
	}
	for i := range fin.pages {
		a, b := fin.pages[i], fout.pages[i]
		switch {
		case a.content != b.content:
			vio("page-content-changed", fmt.Sprintf("page %d: decoded content differs", i+1))
		case a.boxes != b.boxes:
			vio("page-boxes-changed", fmt.Sprintf("page %d: %s -> %s", i+1, a.boxes, b.boxes))
		case a.resources != b.resources:
			vio("page-resources-changed", fmt.Sprintf("page %d: resources differ", i+1))
		}
		if strings.Join(a.annots, ",") != strings.Join(b.annots, ",") {
			vio("other-annotation-changed", fmt.Sprintf("page %d: non-signature annotations %d -> %d (or changed)", i+1, len(a.annots), len(b.annots)))
		}
	}
	for name, v := range fin.fields {
		w, ok := fout.fields[name]
		if !ok {
			vio("other-field-lost", fmt.Sprintf("non-signature field %q (%s) is gone from the field tree", name, v))
		} else if w != v {
			vio("other-field-changed", fmt.Sprintf("non-signature field %q: %s -> %s", name, v, w))
		}
	}
	for name := range fout.fields {
		if _, ok := fin.fields[name]; !ok {
			vio("field-appeared", fmt.Sprintf("field %q not in the input", name))
		}
	}
	if k%17 == 0 {
		t.Sample(map[string]any{"input": in.Name, "mode": mode, "in": fmt.Sprintf("sigdicts=%d sigfields=%d sigwidgets=%d perms=%v fields=%d", fin.sigDicts, fin.sigFields, fin.sigWidgets, fin.perms, len(fin.fields)),
			"out": fmt.Sprintf("sigdicts=%d sigfields=%d sigwidgets=%d perms=%v fields=%d", fout.sigDicts, fout.sigFields, fout.sigWidgets, fout.perms, len(fout.fields))})
	}
}

func (in input) key() string {
	if in.Key != "" {
		return in.Key
	}
	if strings.HasPrefix(in.Shape, "pdfgen/") {
		return "pdfgen"
	}
	return in.Shape
}

func clip(s string, n int) string {
	s = strings.ReplaceAll(s, "\n", " ")
	if len(s) > n {
		return s[:n]
	}
	return s
}

type pageFacts struct {
	content, boxes, resources string
	annots                    []string
}

type facts struct {
	sigDicts, sigFields, sigWidgets int
	nested, sigPages                int
	perms, sigFlags, dss            bool
	pages                           []pageFacts
	fields                          map[string]string
	notes                           []string
}

var annotDrop = pdfstrict.CanonOpts{DropKeys: map[string]bool{"P": true, "Parent": true, "Popup": true, "IRT": true}}

func factsOf(d *pdfstrict.Doc) facts {
	f := facts{fields: map[string]string{}}
	root, _ := d.ResolveDict(d.Trailer()["Root"])
	_, f.perms = root["Perms"]
	_, f.dss = root["DSS"]

	// field tree
	sigFieldObj := map[int]bool{} // object numbers of dictionaries that are (part of) a signature field
	if af, ok := d.ResolveDict(root["AcroForm"]); ok {
		_, f.sigFlags = af["SigFlags"]
		seen := map[int]bool{}
		var walk func(o pdfstrict.Object, ft, prefix string, depth int)
		walk = func(o pdfstrict.Object, ft, prefix string, depth int) {
			r, isRef := o.(pdfstrict.Ref)
			if isRef {
				if seen[r.Num] || depth > 60 {
					return
				}
				seen[r.Num] = true
			}
			fd, ok := d.ResolveDict(o)
			if !ok {
				return
			}
			if n, ok := fd.Name("FT"); ok {
				ft = string(n)
			}
			name := prefix
			isField := false
			if tt, ok := d.Resolve(fd["T"]).(pdfstrict.String); ok {
				isField = true
				if name != "" {
					name += "."
				}
				name += string(tt)
			}
			if ft == "Sig" && isRef {
				sigFieldObj[r.Num] = true
			}
			kids, _ := d.Resolve(fd["Kids"]).(pdfstrict.Array)
			fieldKids := false
			for _, k := range kids {
				if kd, ok := d.ResolveDict(k); ok {
					if _, ok := kd["T"]; ok {
						fieldKids = true
					}
				}
			}
			if isField && !fieldKids { // terminal field
				if ft == "Sig" {
					f.sigFields++
					if depth > 0 {
						f.nested++
					}
				} else {
					f.fields[name] = ft + ":" + d.DeepHashOpts(fd["V"], pdfstrict.CanonOpts{})[:12]
				}
			}
			for _, k := range kids {
				walk(k, ft, name, depth+1)
			}
		}
		if fields, ok := d.Resolve(af["Fields"]).(pdfstrict.Array); ok {
			for _, x := range fields {
				walk(x, "", "", 0)
			}
		}
	}

	// pages
	pages, _ := d.Pages()
	pageIdx := map[int]int{}
	for i, p := range pages {
		pageIdx[p.Ref.Num] = i
	}
	for _, p := range pages {
		pf := pageFacts{
			content:   fmt.Sprintf("%x", sha256.Sum256(p.Content)),
			boxes:     fmt.Sprintf("%v %v %d", p.MediaBox, p.CropBox, p.Rotate),
			resources: d.DeepHashOpts(p.Resources, pdfstrict.CanonOpts{}),
		}
		onPage := false
		if annots, ok := d.Resolve(p.Dict["Annots"]).(pdfstrict.Array); ok {
			for _, a := range annots {
				ad, ok := d.ResolveDict(a)
				if !ok {
					continue
				}
				if isSigWidget(d, a, ad, sigFieldObj) {
					f.sigWidgets++
					onPage = true
					continue
				}
				pf.annots = append(pf.annots, d.DeepHashOpts(substPages(d, ad, pageIdx, map[int]bool{}, 0), annotDrop)[:16])
			}
		}
		if onPage {
			f.sigPages++
		}
		f.pages = append(f.pages, pf)
	}

	// reachability: any signature dictionary
	seen := map[int]bool{}
	budget := 200000
	var visit func(o pdfstrict.Object, depth int, via int)
	visit = func(o pdfstrict.Object, depth int, via int) {
		if budget--; budget < 0 || depth > 150 {
			return
		}
		switch v := o.(type) {
		case pdfstrict.Ref:
			if seen[v.Num] {
				return
			}
			seen[v.Num] = true
			x, err := d.Get(v)
			if err != nil {
				return
			}
			visit(x, depth+1, v.Num)
		case pdfstrict.Dict:
			if isSigDict(v) {
				f.sigDicts++
				if len(f.notes) < 4 {
					f.notes = append(f.notes, fmt.Sprintf("in obj %d", via))
				}
			}
			for _, k := range v.Keys() {
				visit(v[k], depth+1, via)
			}
		case pdfstrict.Array:
			for _, x := range v {
				visit(x, depth+1, via)
			}
		case *pdfstrict.Stream:
			visit(v.Dict, depth+1, via)
		}
	}
	visit(d.Trailer(), 0, 0)
	return f
}

// substPages copies o with every reference resolved in place, except references to page objects,
// which become the name PAGE#<index>: an annotation that points at a page (/Dest, /A /D) must not
// hash differently merely because that page lost a signature widget from its /Annots.
func substPages(d *pdfstrict.Doc, o pdfstrict.Object, pageIdx map[int]int, onPath map[int]bool, depth int) pdfstrict.Object {
	if depth > 24 {
		return pdfstrict.Name("DEEP")
	}
	switch v := o.(type) {
	case pdfstrict.Ref:
		if i, ok := pageIdx[v.Num]; ok {
			return pdfstrict.Name(fmt.Sprintf("PAGE#%d", i))
		}
		if onPath[v.Num] {
			return pdfstrict.Name("CYCLE")
		}
		x, err := d.Get(v)
		if err != nil {
			return pdfstrict.Null{}
		}
		onPath[v.Num] = true
		r := substPages(d, x, pageIdx, onPath, depth+1)
		delete(onPath, v.Num)
		return r
	case pdfstrict.Dict:
		out := pdfstrict.Dict{}
		for k, x := range v {
			if annotDrop.DropKeys[k] {
				continue
			}
			out[k] = substPages(d, x, pageIdx, onPath, depth+1)
		}
		return out
	case pdfstrict.Array:
		out := make(pdfstrict.Array, len(v))
		for i, x := range v {
			out[i] = substPages(d, x, pageIdx, onPath, depth+1)
		}
		return out
	}
	return o
}

func isSigDict(dd pdfstrict.Dict) bool {
	if n, ok := dd.Name("Type"); ok && (n == "Sig" || n == "DocTimeStamp") {
		return true
	}
	_, br := dd["ByteRange"]
	_, c := dd["Contents"]
	return br && c
}

// isSigWidget: the annotation is a widget whose field type (own /FT or through /Parent) is Sig.
func isSigWidget(d *pdfstrict.Doc, ref pdfstrict.Object, ad pdfstrict.Dict, sigFieldObj map[int]bool) bool {
	if n, ok := ad.Name("Subtype"); !ok || n != "Widget" {
		return false
	}
	if r, ok := ref.(pdfstrict.Ref); ok && sigFieldObj[r.Num] {
		return true
	}
	cur := ad
	for hops := 0; hops < 40; hops++ {
		if n, ok := cur.Name("FT"); ok {
			return n == "Sig"
		}
		if pr, ok := cur["Parent"].(pdfstrict.Ref); ok && sigFieldObj[pr.Num] {
			return true
		}
		next, ok := d.ResolveDict(cur["Parent"])
		if !ok {
			return false
		}
		cur = next
	}
	return false
}

// ---- hand-made shapes (pdfgen layer 1) ----

var shapeNames = []string{"merged", "widget-kid", "two-widget-kids-two-pages", "nested-two-levels", "ft-inherited", "unsigned-field", "next-to-plain-group", "sig-on-last-page-only"}

const shapePages = 3

// shapeDoc is the scaffold all hand-made documents share: three pages with content, an ordinary
// annotation and an ordinary text field on page 1, an AcroForm with /SigFlags, /DA and /DR.
type shapeDoc struct {
	doc              *pdfgen.Doc
	pagesRef, catRef pdfgen.Ref
	font             pdfgen.Ref
	pageRefs         []pdfgen.Ref
	pageDicts        []pdfgen.Dict
	annots           []pdfgen.Array
	fields           pdfgen.Array
	indirectAnnots   bool // every page's /Annots is an indirect array object of its own
}

func newShapeDoc(label string) *shapeDoc {
	s := newBareShapeDoc(label)
	doc := s.doc
	// an ordinary annotation and an ordinary text field on page 1, always
	link := doc.Add(pdfgen.D("Type", pdfgen.Name("Annot"), "Subtype", pdfgen.Name("Text"), "Rect", pdfgen.Rect(10, 10, 30, 30), "Contents", pdfgen.String("plain note")))
	s.annots[0] = append(s.annots[0], link)
	txt := doc.Alloc()
	doc.Put(txt, s.widget(0, "FT", pdfgen.Name("Tx"), "T", pdfgen.String("plain"), "V", pdfgen.String("keep me"), "DA", pdfgen.String("/F1 10 Tf 0 g")))
	s.annots[0] = append(s.annots[0], txt)
	s.fields = pdfgen.Array{txt}
	return s
}

// newBareShapeDoc: the pages only, no annotation and no field yet.
func newBareShapeDoc(label string) *shapeDoc {
	s := &shapeDoc{doc: pdfgen.NewDoc()}
	doc := s.doc
	s.pagesRef, s.catRef = doc.Alloc(), doc.Alloc()
	s.font = doc.Add(pdfgen.D("Type", pdfgen.Name("Font"), "Subtype", pdfgen.Name("Type1"), "BaseFont", pdfgen.Name("Helvetica"), "Encoding", pdfgen.Name("WinAnsiEncoding")))
	s.annots = make([]pdfgen.Array, shapePages)
	for i := 0; i < shapePages; i++ {
		cs := doc.Add(&pdfgen.Stream{Dict: pdfgen.Dict{}, Data: []byte(fmt.Sprintf("BT /F1 12 Tf 40 700 Td (shape %s page %d) Tj ET\n", label, i+1))})
		r := doc.Alloc()
		s.pageRefs = append(s.pageRefs, r)
		s.pageDicts = append(s.pageDicts, pdfgen.D("Type", pdfgen.Name("Page"), "Parent", s.pagesRef, "MediaBox", pdfgen.Rect(0, 0, float64(500+i), 800),
			"Resources", pdfgen.D("Font", pdfgen.D("F1", s.font)), "Contents", cs))
	}
	return s
}

func (s *shapeDoc) sigDict() pdfgen.Ref {
	return s.doc.Add(pdfgen.D("Type", pdfgen.Name("Sig"), "Filter", pdfgen.Name("Adobe.PPKLite"), "SubFilter", pdfgen.Name("adbe.pkcs7.detached"),
		"ByteRange", pdfgen.A(0, 100, 300, 50), "Contents", pdfgen.HexString(make([]byte, 99)), "Name", pdfgen.String("verif")))
}

// widget returns a widget annotation dictionary on page (0-based) with further key/value pairs.
func (s *shapeDoc) widget(page int, extra ...any) pdfgen.Dict {
	d := pdfgen.D("Type", pdfgen.Name("Annot"), "Subtype", pdfgen.Name("Widget"), "Rect", pdfgen.Rect(50, 50, 150, 80), "P", s.pageRefs[page], "F", pdfgen.Int(4))
	for i := 0; i+1 < len(extra); i += 2 {
		d.Set(pdfgen.Name(extra[i].(string)), pdfgen.Obj(extra[i+1]))
	}
	return d
}

func (s *shapeDoc) finish(xrefStream bool) ([]byte, error) {
	doc := s.doc
	var kids pdfgen.Array
	for i, r := range s.pageRefs {
		d := s.pageDicts[i]
		if len(s.annots[i]) > 0 {
			if s.indirectAnnots {
				d.Set("Annots", doc.Add(s.annots[i]))
			} else {
				d.Set("Annots", s.annots[i])
			}
		}
		doc.Put(r, d)
		kids = append(kids, r)
	}
	doc.Put(s.pagesRef, pdfgen.D("Type", pdfgen.Name("Pages"), "Kids", kids, "Count", pdfgen.Int(shapePages)))
	doc.Put(s.catRef, pdfgen.D("Type", pdfgen.Name("Catalog"), "Pages", s.pagesRef,
		"AcroForm", pdfgen.D("Fields", s.fields, "SigFlags", pdfgen.Int(3), "DA", pdfgen.String("/F1 10 Tf 0 g"), "DR", pdfgen.D("Font", pdfgen.D("F1", s.font)))))
	doc.SetRoot(s.catRef)
	opts := pdfgen.Options{Version: "1.7", BinaryComment: true}
	if xrefStream {
		opts.XRef = pdfgen.XRefStream
		opts.ObjStm = true
	}
	out, err := pdfgen.Write(doc, opts)
	if err != nil {
		return nil, err
	}
	return out.Bytes, nil
}

func buildShape(kind string, xrefStream bool) ([]byte, error) {
	s := newShapeDoc(kind)
	doc, annots, widget, sigDict := s.doc, s.annots, s.widget, s.sigDict
	fields := s.fields

	switch kind {
	case "merged":
		f := doc.Alloc()
		doc.Put(f, widget(1, "FT", pdfgen.Name("Sig"), "T", pdfgen.String("Sig1"), "V", sigDict()))
		annots[1] = append(annots[1], f)
		fields = append(fields, f)
	case "widget-kid":
		f, w := doc.Alloc(), doc.Alloc()
		doc.Put(w, widget(1, "Parent", f))
		doc.Put(f, pdfgen.D("FT", pdfgen.Name("Sig"), "T", pdfgen.String("Sig1"), "V", sigDict(), "Kids", pdfgen.Array{w}))
		annots[1] = append(annots[1], w)
		fields = append(fields, f)
	case "two-widget-kids-two-pages":
		f, w1, w2 := doc.Alloc(), doc.Alloc(), doc.Alloc()
		doc.Put(w1, widget(1, "Parent", f))
		doc.Put(w2, widget(2, "Parent", f))
		doc.Put(f, pdfgen.D("FT", pdfgen.Name("Sig"), "T", pdfgen.String("Sig1"), "V", sigDict(), "Kids", pdfgen.Array{w1, w2}))
		annots[1] = append(annots[1], w1)
		annots[2] = append(annots[2], w2)
		fields = append(fields, f)
	case "nested-two-levels":
		g1, g2, f := doc.Alloc(), doc.Alloc(), doc.Alloc()
		doc.Put(f, widget(2, "FT", pdfgen.Name("Sig"), "T", pdfgen.String("deep"), "V", sigDict(), "Parent", g2))
		doc.Put(g2, pdfgen.D("T", pdfgen.String("inner"), "Parent", g1, "Kids", pdfgen.Array{f}))
		doc.Put(g1, pdfgen.D("T", pdfgen.String("outer"), "Kids", pdfgen.Array{g2}))
		annots[2] = append(annots[2], f)
		fields = append(fields, g1)
	case "ft-inherited":
		g, f1, f2 := doc.Alloc(), doc.Alloc(), doc.Alloc()
		doc.Put(f1, widget(1, "T", pdfgen.String("a"), "V", sigDict(), "Parent", g))
		doc.Put(f2, widget(2, "T", pdfgen.String("b"), "V", sigDict(), "Parent", g))
		doc.Put(g, pdfgen.D("FT", pdfgen.Name("Sig"), "T", pdfgen.String("sigs"), "Kids", pdfgen.Array{f1, f2}))
		annots[1] = append(annots[1], f1)
		annots[2] = append(annots[2], f2)
		fields = append(fields, g)
	case "unsigned-field":
		f, u := doc.Alloc(), doc.Alloc()
		doc.Put(f, widget(1, "FT", pdfgen.Name("Sig"), "T", pdfgen.String("Sig1"), "V", sigDict()))
		doc.Put(u, widget(2, "FT", pdfgen.Name("Sig"), "T", pdfgen.String("Empty")))
		annots[1] = append(annots[1], f)
		annots[2] = append(annots[2], u)
		fields = append(fields, f, u)
	case "next-to-plain-group":
		g, t1, t2, f := doc.Alloc(), doc.Alloc(), doc.Alloc(), doc.Alloc()
		doc.Put(t1, widget(1, "FT", pdfgen.Name("Tx"), "T", pdfgen.String("one"), "V", pdfgen.String("1"), "DA", pdfgen.String("/F1 10 Tf 0 g"), "Parent", g))
		doc.Put(t2, widget(2, "FT", pdfgen.Name("Tx"), "T", pdfgen.String("two"), "V", pdfgen.String("2"), "DA", pdfgen.String("/F1 10 Tf 0 g"), "Parent", g))
		doc.Put(g, pdfgen.D("T", pdfgen.String("group"), "Kids", pdfgen.Array{t1, t2}))
		doc.Put(f, widget(1, "FT", pdfgen.Name("Sig"), "T", pdfgen.String("Sig1"), "V", sigDict()))
		annots[1] = append(annots[1], t1, f)
		annots[2] = append(annots[2], t2)
		fields = append(fields, g, f)
	case "sig-on-last-page-only":
		f := doc.Alloc()
		doc.Put(f, widget(2, "FT", pdfgen.Name("Sig"), "T", pdfgen.String("Sig1"), "V", sigDict()))
		annots[2] = append(annots[2], f)
		fields = append(fields, f)
	default:
		return nil, fmt.Errorf("unknown shape %q", kind)
	}
	s.fields = fields
	return s.finish(xrefStream)
}
