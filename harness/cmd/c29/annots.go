package main

import (
	"fmt"

	"verif/harness/internal/pdfgen"
)

// annotSpec is one member of the enumerated family of page /Annots situations around ONE signature
// field on a three page document. The way a signature widget is found on its page depends on its
// optional /P entry, and what is done to a page depends on what else its /Annots holds, so:
//
//	PMode     none     the signature widget has no /P (it is optional): it has to be looked for on the pages
//	          stale    /P names a page whose /Annots does not list the widget (the next page, cyclically)
//	          correct  /P names the page that lists the widget
//	WPage     page (0, 1, 2 = first, middle, last) whose /Annots lists the signature widget
//	Pos       only | first | last: the widget is the only entry of that /Annots, or the first / the last
//	          of two entries (the other one an ordinary annotation)
//	CntA/CntB number (0, 1, 2) of ordinary annotations on the two other (bystander) pages, in page order
//	Kind0     the ordinary annotations of the document take their kinds from the rotation
//	          link, text note, ordinary text field widget, widget of ANOTHER signature field
//	          starting at Kind0 (the other signature field gets the same PMode; it has to go too,
//	          everything else has to stay)
//	Form      merged: field and widget are one dictionary | kid: the widget is the field's only /Kids entry
//	Indirect  every page's /Annots is a direct array | an indirect array object of its own
type annotSpec struct {
	PMode      string
	WPage      int
	Pos        string
	CntA, CntB int
	Kind0      int
	Form       string
	Indirect   bool
}

var (
	annotPModes = []string{"none", "stale", "correct"}
	annotPos    = []string{"only", "first", "last"}
	annotKinds  = []string{"link", "note", "txwidget", "othersig"}
	annotForms  = []string{"merged", "kid"}
)

// annotSpecs: the full product; the innermost four members differ in (Form, Indirect) only.
func annotSpecs() []annotSpec {
	var out []annotSpec
	for _, pm := range annotPModes {
		for wp := 0; wp < shapePages; wp++ {
			for _, pos := range annotPos {
				for ca := 0; ca <= 2; ca++ {
					for cb := 0; cb <= 2; cb++ {
						for k0 := range annotKinds {
							for _, form := range annotForms {
								for _, ind := range []bool{false, true} {
									out = append(out, annotSpec{PMode: pm, WPage: wp, Pos: pos, CntA: ca, CntB: cb, Kind0: k0, Form: form, Indirect: ind})
								}
							}
						}
					}
				}
			}
		}
	}
	return out
}

func (a annotSpec) name() string {
	return fmt.Sprintf("annots/p=%s/page=%d/pos=%s/bystanders=%d+%d/kinds-from=%s/widget=%s/indirect=%v",
		a.PMode, a.WPage+1, a.Pos, a.CntA, a.CntB, annotKinds[a.Kind0], a.Form, a.Indirect)
}

// class: the seed-independent part that goes into violation keys.
func (a annotSpec) class() string { return "annots/p=" + a.PMode }

func buildAnnotDoc(a annotSpec) ([]byte, error) {
	s := newBareShapeDoc(fmt.Sprintf("annots %s %d %s", a.PMode, a.WPage, a.Pos))
	s.indirectAnnots = a.Indirect
	doc := s.doc
	if a.WPage < 0 || a.WPage >= shapePages {
		return nil, fmt.Errorf("widget page %d", a.WPage)
	}
	// setP gives the widget dictionary d, listed on page, its /P according to the mode
	setP := func(d *pdfgen.Dict, page int) {
		switch a.PMode {
		case "none":
			d.Del("P")
		case "stale":
			d.Set("P", s.pageRefs[(page+1)%shapePages])
		default:
			d.Set("P", s.pageRefs[page])
		}
	}
	n := 0 // ordinary annotations so far
	da := pdfgen.String("/F1 10 Tf 0 g")
	ordinary := func(page int) {
		kind := annotKinds[(a.Kind0+n)%len(annotKinds)]
		n++
		y := float64(100 + 40*n)
		rect := pdfgen.Rect(200, y, 320, y+20)
		switch kind {
		case "link":
			s.annots[page] = append(s.annots[page], doc.Add(pdfgen.D("Type", pdfgen.Name("Annot"), "Subtype", pdfgen.Name("Link"), "Rect", rect,
				"Border", pdfgen.A(0, 0, 0), "A", pdfgen.D("S", pdfgen.Name("URI"), "URI", pdfgen.String(fmt.Sprintf("https://example.com/%d", n))))))
		case "note":
			s.annots[page] = append(s.annots[page], doc.Add(pdfgen.D("Type", pdfgen.Name("Annot"), "Subtype", pdfgen.Name("Text"), "Rect", rect,
				"Contents", pdfgen.String(fmt.Sprintf("note %d", n)))))
		case "txwidget":
			w := doc.Alloc()
			d := s.widget(page, "FT", pdfgen.Name("Tx"), "T", pdfgen.String(fmt.Sprintf("text%d", n)), "V", pdfgen.String(fmt.Sprintf("value %d", n)), "DA", da)
			d.Set("Rect", rect)
			doc.Put(w, d)
			s.annots[page] = append(s.annots[page], w)
			s.fields = append(s.fields, w)
		case "othersig":
			w := doc.Alloc()
			d := s.widget(page, "FT", pdfgen.Name("Sig"), "T", pdfgen.String(fmt.Sprintf("other%d", n)), "V", s.sigDict())
			d.Set("Rect", rect)
			setP(&d, page)
			doc.Put(w, d)
			s.annots[page] = append(s.annots[page], w)
			s.fields = append(s.fields, w)
		}
	}

	// the signature field and its widget
	f := doc.Alloc()
	wref := f
	switch a.Form {
	case "merged":
		d := s.widget(a.WPage, "FT", pdfgen.Name("Sig"), "T", pdfgen.String("Signature1"), "V", s.sigDict())
		setP(&d, a.WPage)
		doc.Put(f, d)
	case "kid":
		wref = doc.Alloc()
		d := s.widget(a.WPage, "Parent", f)
		setP(&d, a.WPage)
		doc.Put(wref, d)
		doc.Put(f, pdfgen.D("FT", pdfgen.Name("Sig"), "T", pdfgen.String("Signature1"), "V", s.sigDict(), "Kids", pdfgen.Array{wref}))
	default:
		return nil, fmt.Errorf("unknown widget form %q", a.Form)
	}
	s.fields = append(s.fields, f)

	cnt := []int{a.CntA, a.CntB}
	for page := 0; page < shapePages; page++ {
		if page != a.WPage {
			for i := 0; i < cnt[0]; i++ {
				ordinary(page)
			}
			cnt = cnt[1:]
			continue
		}
		switch a.Pos {
		case "only":
			s.annots[page] = append(s.annots[page], wref)
		case "first":
			s.annots[page] = append(s.annots[page], wref)
			ordinary(page)
		case "last":
			ordinary(page)
			s.annots[page] = append(s.annots[page], wref)
		default:
			return nil, fmt.Errorf("unknown position %q", a.Pos)
		}
	}
	return s.finish(false)
}
