// repro for the C29 findings on the unchanged tree (stand-alone; plain text search in an
// uncompressed output, no harness oracle involved):
//
//	A  /Perms survives (RemoveAllSignatures deletes the misspelled key "Perm"), and with it the
//	   certification signature dictionary it points to
//	B  a signature field below a non-terminal field: field tree entry dropped, but its widget stays
//	   in the page's /Annots and still carries /FT /Sig and /V -> signature dictionary
//	C  an ordinary field group (non-terminal field without /FT) is dropped from /Fields together
//	   with its text fields
//	D  usageRights.pdf (only a usage-rights signature in /Perms /UR3): "no signatures present"
//
//	. /verif/env.sh; cd /verif/harness; $GO125 run -tags verif ./cmd/c29/repro
package main

import (
	"fmt"
	"os"
	"path/filepath"
	"regexp"

	"github.com/pdfcpu/pdfcpu/pkg/api"
	"github.com/pdfcpu/pdfcpu/pkg/pdfcpu/model"
	"verif/harness/internal/pdfgen"
	"verif/harness/internal/vk"
)

func main() {
	api.DisableConfigDir()
	dir, _ := os.MkdirTemp("/verif/.cache/run", "c29repro-")
	defer os.RemoveAll(dir)

	doc := pdfgen.NewDoc()
	pages, cat, page := doc.Alloc(), doc.Alloc(), doc.Alloc()
	font := doc.Add(pdfgen.D("Type", pdfgen.Name("Font"), "Subtype", pdfgen.Name("Type1"), "BaseFont", pdfgen.Name("Helvetica")))
	cs := doc.Add(&pdfgen.Stream{Dict: pdfgen.Dict{}, Data: []byte("BT /F1 12 Tf 40 700 Td (c29 repro) Tj ET\n")})
	sig := doc.Add(pdfgen.D("Type", pdfgen.Name("Sig"), "Filter", pdfgen.Name("Adobe.PPKLite"), "SubFilter", pdfgen.Name("adbe.pkcs7.detached"),
		"ByteRange", pdfgen.A(0, 100, 300, 50), "Contents", pdfgen.HexString(make([]byte, 99)),
		"Reference", pdfgen.Array{pdfgen.D("Type", pdfgen.Name("SigRef"), "TransformMethod", pdfgen.Name("DocMDP"),
			"TransformParams", pdfgen.D("Type", pdfgen.Name("TransformParams"), "P", pdfgen.Int(2), "V", pdfgen.Name("1.2")))}))
	w := func(extra ...any) pdfgen.Dict {
		d := pdfgen.D("Type", pdfgen.Name("Annot"), "Subtype", pdfgen.Name("Widget"), "Rect", pdfgen.Rect(50, 50, 150, 80), "P", page, "F", pdfgen.Int(4))
		for i := 0; i+1 < len(extra); i += 2 {
			d.Set(pdfgen.Name(extra[i].(string)), pdfgen.Obj(extra[i+1]))
		}
		return d
	}
	sigGroup, sigField, sigField2 := doc.Alloc(), doc.Alloc(), doc.Alloc()
	doc.Put(sigField, w("FT", pdfgen.Name("Sig"), "T", pdfgen.String("NestedSignature"), "V", sig, "Parent", sigGroup))
	doc.Put(sigField2, w("FT", pdfgen.Name("Sig"), "T", pdfgen.String("NestedEmptySignature"), "Parent", sigGroup))
	doc.Put(sigGroup, pdfgen.D("T", pdfgen.String("signatures"), "Kids", pdfgen.Array{sigField, sigField2}))
	grp, t1, t2 := doc.Alloc(), doc.Alloc(), doc.Alloc()
	doc.Put(t1, w("FT", pdfgen.Name("Tx"), "T", pdfgen.String("PlainOne"), "V", pdfgen.String("1"), "DA", pdfgen.String("/F1 10 Tf 0 g"), "Parent", grp))
	doc.Put(t2, w("FT", pdfgen.Name("Tx"), "T", pdfgen.String("PlainTwo"), "V", pdfgen.String("2"), "DA", pdfgen.String("/F1 10 Tf 0 g"), "Parent", grp))
	doc.Put(grp, pdfgen.D("T", pdfgen.String("plaingroup"), "Kids", pdfgen.Array{t1, t2}))
	doc.Put(page, pdfgen.D("Type", pdfgen.Name("Page"), "Parent", pages, "MediaBox", pdfgen.Rect(0, 0, 500, 800),
		"Resources", pdfgen.D("Font", pdfgen.D("F1", font)), "Contents", cs, "Annots", pdfgen.Array{sigField, sigField2, t1, t2}))
	doc.Put(pages, pdfgen.D("Type", pdfgen.Name("Pages"), "Kids", pdfgen.Array{page}, "Count", pdfgen.Int(1)))
	doc.Put(cat, pdfgen.D("Type", pdfgen.Name("Catalog"), "Pages", pages, "Perms", pdfgen.D("DocMDP", sig),
		"AcroForm", pdfgen.D("Fields", pdfgen.Array{sigGroup, grp}, "SigFlags", pdfgen.Int(3), "DA", pdfgen.String("/F1 10 Tf 0 g"), "DR", pdfgen.D("Font", pdfgen.D("F1", font)))))
	doc.SetRoot(cat)
	out := pdfgen.MustWrite(doc, pdfgen.Options{Version: "1.7"})
	in, res := filepath.Join(dir, "in.pdf"), filepath.Join(dir, "out.pdf")
	_ = os.WriteFile(in, out.Bytes, 0o644)
	conf := model.NewDefaultConfiguration()
	conf.Offline, conf.WriteObjectStream, conf.WriteXRefStream = true, false, false
	fmt.Println("RemoveSignaturesFile:", api.RemoveSignaturesFile(in, res, conf))
	b, _ := os.ReadFile(res)
	for _, c := range []struct{ what, re string }{
		{"A  /Perms in output", `/Perms`},
		{"A/B signature dictionary (/ByteRange) in output", `/ByteRange`},
		{"B  /FT /Sig in output", `/FT\s*/Sig`},
		{"B  nested signature field name in output", `NestedSignature`},
		{"C  ordinary group name still in output (expected: yes)", `plaingroup`},
		{"C  /AcroForm in output (expected: yes, two text fields remain)", `/AcroForm`},
	} {
		fmt.Printf("%-62s %v\n", c.what, regexp.MustCompile(c.re).Match(b))
	}
	ur := filepath.Join(vk.RepoDir(), "pkg/samples/signatures/adbe.pkcs7.detached/usageRights.pdf")
	fmt.Println("D  usageRights.pdf:", api.RemoveSignaturesFile(ur, filepath.Join(dir, "ur.pdf"), conf))
}
