// repro for the C29 finding "stale /P": a signature widget listed in page 1's /Annots whose /P
// names page 2. RemoveSignatures drops the field from /AcroForm but leaves the widget (with
// /FT /Sig and /V -> signature dictionary) in page 1's /Annots.
//
//	. /verif/env.sh; cd /verif/harness; $GO125 run -tags verif ./cmd/c29/repro/stalep
package main

import (
	"bytes"
	"fmt"

	"github.com/pdfcpu/pdfcpu/pkg/api"
	"github.com/pdfcpu/pdfcpu/pkg/pdfcpu/model"
)

func build(objs []string) []byte {
	var b bytes.Buffer
	b.WriteString("%PDF-1.7\n%\xe2\xe3\xcf\xd3\n")
	offs := make([]int, len(objs))
	for i, o := range objs {
		offs[i] = b.Len()
		fmt.Fprintf(&b, "%d 0 obj\n%s\nendobj\n", i+1, o)
	}
	xref := b.Len()
	fmt.Fprintf(&b, "xref\n0 %d\n0000000000 65535 f \n", len(objs)+1)
	for _, off := range offs {
		fmt.Fprintf(&b, "%010d 00000 n \n", off)
	}
	fmt.Fprintf(&b, "trailer\n<</Size %d/Root 1 0 R>>\nstartxref\n%d\n%%%%EOF\n", len(objs)+1, xref)
	return b.Bytes()
}

func main() {
	api.DisableConfigDir()
	in := build([]string{
		"<</Type/Catalog/Pages 2 0 R/AcroForm<</Fields[6 0 R]/SigFlags 3>>>>",
		"<</Type/Pages/Kids[3 0 R 4 0 R]/Count 2/MediaBox[0 0 595 842]>>",
		"<</Type/Page/Parent 2 0 R/Contents 5 0 R/Annots[6 0 R]>>",
		"<</Type/Page/Parent 2 0 R/Contents 5 0 R>>",
		"<</Length 0>>\nstream\n\nendstream",
		"<</Type/Annot/Subtype/Widget/FT/Sig/T(Signature1)/Rect[50 50 200 100]/F 4/P 4 0 R/V 7 0 R>>",
		"<</Type/Sig/Filter/Adobe.PPKLite/SubFilter/adbe.pkcs7.detached/ByteRange[0 100 300 50]/Contents<00000000>>>",
	})
	var out bytes.Buffer
	conf := model.NewDefaultConfiguration()
	conf.Offline = true
	if err := api.RemoveSignatures(bytes.NewReader(in), &out, conf); err != nil {
		fmt.Println("RemoveSignatures:", err)
		return
	}
	ctx, err := api.ReadAndValidate(bytes.NewReader(out.Bytes()), model.NewDefaultConfiguration())
	if err != nil {
		fmt.Println("read output:", err)
		return
	}
	d, _, _, _ := ctx.PageDict(1, false)
	arr, _ := ctx.DereferenceArray(d["Annots"])
	fmt.Printf("page 1 /Annots after removal: %d entries (want 0)\n", len(arr))
	for _, o := range arr {
		ad, _ := ctx.DereferenceDict(o)
		fmt.Printf("  %v\n", ad)
	}
}
