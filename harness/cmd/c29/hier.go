package main

import (
	"fmt"
	"strings"

	"verif/harness/internal/pdfgen"
)

// hierSpec is one member of the enumerated family of signature field hierarchies: a chain of
// D = len(FT) field levels, level 1 listed in AcroForm /Fields, levels 1..D-1 non-terminal,
// level D the terminal signature field (with a /V signature dictionary).
//
//	FT[i]    own /FT entry of level i+1: "" (none), "Sig" or "Tx". Every assignment whose nearest
//	         own /FT seen from the terminal field upwards is Sig is a member: /FT /Sig on the field
//	         itself, on its parent, grandparent, ... (up to four levels up), with and without
//	         /FT /Tx or further /FT /Sig entries above and in between (FT=Tx above and FT=Sig
//	         below, FT=Sig above overridden by FT=Tx below and re-established by FT=Sig further down).
//	Widget   terminal field merged with its widget | one widget in /Kids | two widgets in /Kids on two pages.
//	Sibling  what else every non-terminal level holds (as its first kid, on its own page):
//	         "tx"   an ordinary text field (inheriting /FT /Tx where that is the effective type, else
//	                with its own /FT /Tx): has to survive with name and value, and keeps its ancestors alive;
//	         "sig"  a further signed signature field (inheriting /FT /Sig where effective, else own): has to go;
//	         "bare" nothing: the whole chain consists of signature material only.
type hierSpec struct {
	FT      []string
	Widget  string
	Sibling string
}

var (
	hierWidgets  = []string{"merged", "kid", "two-kids-two-pages"}
	hierSiblings = []string{"tx", "sig", "bare"}
)

// hierFTVectors enumerates all /FT assignments of depth d whose effective type at the terminal field is Sig.
func hierFTVectors(d int) [][]string {
	var out [][]string
	cur := make([]string, d)
	var rec func(i int)
	rec = func(i int) {
		if i == d {
			eff := ""
			for _, f := range cur {
				if f != "" {
					eff = f
				}
			}
			if eff == "Sig" {
				out = append(out, append([]string(nil), cur...))
			}
			return
		}
		for _, f := range []string{"", "Sig", "Tx"} {
			cur[i] = f
			rec(i + 1)
		}
	}
	rec(0)
	return out
}

// hierSpecs: depths 3..5, every /FT assignment, every widget form, every sibling kind.
func hierSpecs() []hierSpec {
	var out []hierSpec
	for d := 3; d <= 5; d++ {
		for _, v := range hierFTVectors(d) {
			for _, w := range hierWidgets {
				for _, s := range hierSiblings {
					out = append(out, hierSpec{FT: v, Widget: w, Sibling: s})
				}
			}
		}
	}
	return out
}

func (h hierSpec) vector() string {
	p := make([]string, len(h.FT))
	for i, f := range h.FT {
		if f == "" {
			f = "_"
		}
		p[i] = f
	}
	return strings.Join(p, ">")
}

// name identifies the member (evaluation key).
func (h hierSpec) name() string {
	return fmt.Sprintf("hier/depth=%d/ft=%s/widget=%s/sibling=%s", len(h.FT), h.vector(), h.Widget, h.Sibling)
}

// class is the seed-independent part that goes into violation keys: the largest number of levels
// over which a terminal signature field of the document (the chain's end or, with sibling "sig",
// the signature fields hanging off every level) takes its /FT /Sig from an ancestor (0 = own entry).
func (h hierSpec) class() string {
	d := len(h.FT)
	dist := func(level int) int { // field at index level without own /FT: distance to the nearest own /FT above
		for i := level - 1; i >= 0; i-- {
			if h.FT[i] != "" {
				return level - i
			}
		}
		return 0
	}
	max := 0
	if h.FT[d-1] == "" {
		max = dist(d - 1)
	}
	if h.Sibling == "sig" {
		eff := ""
		for i := 0; i < d-1; i++ {
			if h.FT[i] != "" {
				eff = h.FT[i]
			}
			if eff == "Sig" { // the sibling under level i inherits
				if n := dist(i + 1); n > max {
					max = n
				}
			}
		}
	}
	return fmt.Sprintf("hier/sig-ft-from-%d-levels-up", max)
}

func buildHier(h hierSpec, xrefStream bool) ([]byte, error) {
	s := newShapeDoc(h.vector())
	doc := s.doc
	d := len(h.FT)
	if d < 2 {
		return nil, fmt.Errorf("hierarchy depth %d", d)
	}
	refs := make([]pdfgen.Ref, d)
	for i := range refs {
		refs[i] = doc.Alloc()
	}
	da := pdfgen.String("/F1 10 Tf 0 g")
	eff := ""
	for i := 0; i < d-1; i++ {
		own := h.FT[i]
		if own != "" {
			eff = own
		}
		g := pdfgen.D("T", pdfgen.String(fmt.Sprintf("L%d", i+1)))
		if own != "" {
			g.Set("FT", pdfgen.Name(own))
		}
		if i > 0 {
			g.Set("Parent", refs[i-1])
			if h.Sibling == "bare" && h.FT[i-1] == "Sig" {
				// pdfcpu's validation wants a /Rect in the first kid of a non-terminal field with /FT /Sig
				g.Set("Rect", pdfgen.Rect(0, 0, 0, 0))
			}
		}
		var kids pdfgen.Array
		page := i % shapePages
		switch h.Sibling {
		case "tx":
			w := doc.Alloc()
			extra := []any{"T", pdfgen.String(fmt.Sprintf("tx%d", i+1)), "V", pdfgen.String(fmt.Sprintf("value %d", i+1)), "DA", da, "Parent", refs[i]}
			if eff != "Tx" || i%2 == 1 {
				extra = append(extra, "FT", pdfgen.Name("Tx"))
			}
			doc.Put(w, s.widget(page, extra...))
			s.annots[page] = append(s.annots[page], w)
			kids = append(kids, w)
		case "sig":
			w := doc.Alloc()
			extra := []any{"T", pdfgen.String(fmt.Sprintf("s%d", i+1)), "V", s.sigDict(), "Parent", refs[i]}
			if eff != "Sig" {
				extra = append(extra, "FT", pdfgen.Name("Sig"))
			}
			doc.Put(w, s.widget(page, extra...))
			s.annots[page] = append(s.annots[page], w)
			kids = append(kids, w)
		}
		kids = append(kids, refs[i+1])
		g.Set("Kids", kids)
		doc.Put(refs[i], g)
	}
	// the terminal signature field
	leaf := refs[d-1]
	entries := []any{"T", pdfgen.String("sig"), "V", s.sigDict(), "Parent", refs[d-2]}
	if own := h.FT[d-1]; own != "" {
		entries = append(entries, "FT", pdfgen.Name(own))
	}
	page := d % shapePages
	switch h.Widget {
	case "merged":
		doc.Put(leaf, s.widget(page, entries...))
		s.annots[page] = append(s.annots[page], leaf)
	case "kid", "two-kids-two-pages":
		f := pdfgen.D()
		for i := 0; i+1 < len(entries); i += 2 {
			f.Set(pdfgen.Name(entries[i].(string)), pdfgen.Obj(entries[i+1]))
		}
		if h.Sibling == "bare" && h.FT[d-2] == "Sig" {
			f.Set("Rect", pdfgen.Rect(0, 0, 0, 0))
		}
		var kids pdfgen.Array
		pages := []int{page}
		if h.Widget == "two-kids-two-pages" {
			pages = append(pages, (page+1)%shapePages)
		}
		for _, p := range pages {
			w := doc.Alloc()
			doc.Put(w, s.widget(p, "Parent", leaf))
			s.annots[p] = append(s.annots[p], w)
			kids = append(kids, w)
		}
		f.Set("Kids", kids)
		doc.Put(leaf, f)
	default:
		return nil, fmt.Errorf("unknown widget form %q", h.Widget)
	}
	s.fields = append(s.fields, refs[0])
	return s.finish(xrefStream)
}
