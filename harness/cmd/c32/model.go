package main

import (
	"fmt"
	"math"
	"strconv"
	"strings"
)

// Rect is llx lly urx ury.
type Rect [4]float64

func (r Rect) W() float64 { return r[2] - r[0] }
func (r Rect) H() float64 { return r[3] - r[1] }

func (r Rect) eq(o Rect) bool {
	for i := range r {
		if math.Abs(r[i]-o[i]) > 1e-6 {
			return false
		}
	}
	return true
}

func (r Rect) String() string {
	return fmt.Sprintf("[%s %s %s %s]", num(r[0]), num(r[1]), num(r[2]), num(r[3]))
}

func num(f float64) string { return strconv.FormatFloat(f, 'f', -1, 64) }

func normRot(r int) int {
	r %= 360
	if r < 0 {
		r += 360
	}
	return r
}

// PageM is one page of the reference model.
type PageM struct {
	Marker string `json:"marker,omitempty"` // "" for blank pages and corpus pages
	Blank  bool   `json:"blank,omitempty"`
	Hash   string `json:"hash"` // identity of the decoded content bytes
	Rot    int    `json:"rot"`
	Media  Rect   `json:"media"`
	Crop   Rect   `json:"crop"` // effective: defaults to Media
	// HasCrop: a /CropBox entry exists on the page or an ancestor. Never compared; adopted from every
	// observation (boxes remove may or may not leave an explicit entry) and only used to decide whether
	// the effective crop box follows a changed media box.
	HasCrop bool `json:"has_crop,omitempty"`
	// explicit page entries; nil: absent (defaults to the crop box)
	Trim  *Rect `json:"trim,omitempty"`
	Bleed *Rect `json:"bleed,omitempty"`
	Art   *Rect `json:"art,omitempty"`
	// Fresh: blank page inserted by the last step. The documentation fixes its media box and that it is
	// blank; rotation and the other boxes are adopted from the first observation.
	Fresh bool     `json:"fresh,omitempty"`
	Fonts []string `json:"-"`
	Orig  int      `json:"orig"` // index in the input document, -1 for blank pages
}

func (p *PageM) eff(which string) Rect {
	var b *Rect
	switch which {
	case "media":
		return p.Media
	case "crop":
		return p.Crop
	case "trim":
		b = p.Trim
	case "bleed":
		b = p.Bleed
	case "art":
		b = p.Art
	}
	if b != nil {
		return *b
	}
	return p.Crop
}

func (p *PageM) explicit(which string) *Rect {
	switch which {
	case "trim":
		return p.Trim
	case "bleed":
		return p.Bleed
	case "art":
		return p.Art
	}
	return nil
}

func (p PageM) clone() PageM {
	c := p
	for _, pp := range []**Rect{&c.Trim, &c.Bleed, &c.Art} {
		if *pp != nil {
			v := **pp
			*pp = &v
		}
	}
	return c
}

func cloneList(l []PageM) []PageM {
	out := make([]PageM, len(l))
	for i := range l {
		out[i] = l[i].clone()
	}
	return out
}

// BoxDef is a box definition in one of the documented forms ("pdfcpu help boxes").
type BoxDef struct {
	Form string    `json:"form"` // rect | margins | pct | dim | ref
	R    *Rect     `json:"rect,omitempty"`
	M    []float64 `json:"margins,omitempty"` // 1: all; 2: top/bottom, left/right; 3: top, left/right, bottom; 4: top right bottom left
	Pct  float64   `json:"pct,omitempty"`     // "5%": all four margins relative to the parent box
	W    float64   `json:"w,omitempty"`       // dim form (absolute)
	H    float64   `json:"h,omitempty"`
	Pos  string    `json:"pos,omitempty"` // anchor: tl tc tr l c r bl bc br
	Ref  string    `json:"ref,omitempty"` // assignment: media | crop | trim | bleed | art
}

// String renders the definition in pdfcpu's description syntax.
func (b BoxDef) String() string {
	switch b.Form {
	case "rect":
		return b.R.String()
	case "margins":
		ss := make([]string, len(b.M))
		for i, m := range b.M {
			ss[i] = num(m)
		}
		return strings.Join(ss, " ")
	case "pct":
		return num(b.Pct) + "%"
	case "dim":
		return fmt.Sprintf("pos:%s, dim:%s %s abs", b.Pos, num(b.W), num(b.H))
	case "ref":
		return b.Ref
	}
	return "?"
}

// resolve evaluates a non-ref definition within its parent box, as documented:
// margins shrink (negative: enlarge) the parent box, dim anchors a w x h box inside the parent box.
func (b BoxDef) resolve(parent Rect) Rect {
	switch b.Form {
	case "rect":
		return *b.R
	case "pct":
		mx, my := b.Pct/100*parent.W(), b.Pct/100*parent.H()
		return Rect{parent[0] + mx, parent[1] + my, parent[2] - mx, parent[3] - my}
	case "margins":
		var top, right, bot, left float64
		switch len(b.M) {
		case 1:
			top, right, bot, left = b.M[0], b.M[0], b.M[0], b.M[0]
		case 2:
			top, bot, left, right = b.M[0], b.M[0], b.M[1], b.M[1]
		case 3:
			top, left, right, bot = b.M[0], b.M[1], b.M[1], b.M[2]
		case 4:
			top, right, bot, left = b.M[0], b.M[1], b.M[2], b.M[3]
		}
		return Rect{parent[0] + left, parent[1] + bot, parent[2] - right, parent[3] - top}
	case "dim":
		var x, y float64
		switch b.Pos[len(b.Pos)-1] { // horizontal: l c r
		case 'l':
			x = parent[0]
		case 'r':
			x = parent[2] - b.W
		default:
			x = parent[0] + parent.W()/2 - b.W/2
		}
		switch {
		case b.Pos[0] == 't':
			y = parent[3] - b.H
		case b.Pos[0] == 'b':
			y = parent[1]
		default:
			y = parent[1] + parent.H()/2 - b.H/2
		}
		return Rect{x, y, x + b.W, y + b.H}
	}
	panic("resolve: " + b.Form)
}

// Step is one operation of a history.
type Step struct {
	Op  string `json:"op"`            // insert-before insert-after remove rotate trim collect addboxes removeboxes crop
	Sel string `json:"sel,omitempty"` // page selection expression; "" = no selection (all pages)
	Deg int    `json:"deg,omitempty"`
	// insert: explicit page dimensions (nil: the selected page's media box)
	Dim *[2]float64 `json:"dim,omitempty"`
	// addboxes
	Boxes map[string]BoxDef `json:"boxes,omitempty"`
	// removeboxes: subset of crop trim bleed art
	Remove []string `json:"remove,omitempty"`
	// crop
	Crop *BoxDef `json:"cropbox,omitempty"`
}

var boxOrder = []string{"media", "crop", "trim", "bleed", "art"}

func (s Step) boxDescription() string {
	var ss []string
	for _, k := range boxOrder {
		if b, ok := s.Boxes[k]; ok {
			ss = append(ss, k+":"+b.String())
		}
	}
	return strings.Join(ss, ", ")
}

func (s Step) String() string {
	switch s.Op {
	case "rotate":
		return fmt.Sprintf("rotate %d -p %q", s.Deg, s.Sel)
	case "insert-before", "insert-after":
		d := "nil"
		if s.Dim != nil {
			d = fmt.Sprintf("%vx%v", s.Dim[0], s.Dim[1])
		}
		return fmt.Sprintf("%s dim=%s -p %q", s.Op, d, s.Sel)
	case "addboxes":
		return fmt.Sprintf("boxes add '%s' -p %q", s.boxDescription(), s.Sel)
	case "removeboxes":
		return fmt.Sprintf("boxes remove '%s' -p %q", strings.Join(s.Remove, ","), s.Sel)
	case "crop":
		return fmt.Sprintf("crop '%s' -p %q", s.Crop.String(), s.Sel)
	}
	return fmt.Sprintf("%s -p %q", s.Op, s.Sel)
}

// union grows a to contain b.
func union(a, b Rect) Rect {
	return Rect{math.Min(a[0], b[0]), math.Min(a[1], b[1]), math.Max(a[2], b[2]), math.Max(a[3], b[3])}
}

func within(inner, outer Rect) bool {
	return inner[0] >= outer[0]-1e-9 && inner[1] >= outer[1]-1e-9 && inner[2] <= outer[2]+1e-9 && inner[3] <= outer[3]+1e-9
}

// applyCrop sets the crop box of p as "pdfcpu crop" documents: definition relative to the media box;
// margins that leave the media box expand the media box.
func applyCrop(p *PageM, b BoxDef) {
	c := b.resolve(p.Media)
	if b.Form == "margins" && !within(c, p.Media) {
		p.Media = union(p.Media, c)
	}
	p.Crop, p.HasCrop = c, true
}

// applyAdd applies "boxes add": definitions first (media, crop relative to the media box, trim/bleed/art
// relative to the crop box), then assignments.
func applyAdd(p *PageM, boxes map[string]BoxDef) {
	if b, ok := boxes["media"]; ok && b.Form != "ref" {
		p.Media = b.resolve(p.Media)
		if !p.HasCrop {
			p.Crop = p.Media
		}
	}
	if b, ok := boxes["crop"]; ok && b.Form != "ref" {
		applyCrop(p, b)
	}
	for _, k := range []string{"trim", "bleed", "art"} {
		b, ok := boxes[k]
		if !ok || b.Form == "ref" {
			continue
		}
		r := b.resolve(p.Crop)
		p.set(k, &r)
	}
	// assignments read the values after all definitions; the generator never chains assignments
	vals := map[string]Rect{}
	for _, k := range boxOrder {
		vals[k] = p.eff(k)
	}
	for _, k := range []string{"trim", "bleed", "art"} {
		if b, ok := boxes[k]; ok && b.Form == "ref" {
			r := vals[b.Ref]
			p.set(k, &r)
		}
	}
}

func (p *PageM) set(which string, r *Rect) {
	switch which {
	case "trim":
		p.Trim = r
	case "bleed":
		p.Bleed = r
	case "art":
		p.Art = r
	}
}

// applyRemove applies "boxes remove": a removed crop box defaults to the media box, removed
// trim/bleed/art boxes default to the crop box.
func applyRemove(p *PageM, which []string) {
	for _, k := range which {
		if k == "crop" {
			p.Crop, p.HasCrop = p.Media, false
		} else {
			p.set(k, nil)
		}
	}
}

// apply evaluates a step on the model. sel are the selected page numbers (1-based, ascending; for
// collect: in collection order). It returns the new list and, per new page, the index of the page
// it stems from in the old list (-1: new blank page) and whether the operation was to modify it.
func apply(list []PageM, st Step, sel []int) (out []PageM, src []int, touched []bool) {
	in := map[int]bool{}
	for _, p := range sel {
		in[p] = true
	}
	keep := func(i int) {
		out = append(out, list[i].clone())
		src = append(src, i)
		touched = append(touched, false)
	}
	switch st.Op {
	case "insert-before", "insert-after":
		for i := range list {
			blank := func() {
				m := list[i].Media
				if st.Dim != nil {
					m = Rect{0, 0, st.Dim[0], st.Dim[1]}
				}
				out = append(out, PageM{Blank: true, Fresh: true, Media: m, Crop: m, Orig: -1})
				src = append(src, -1)
				touched = append(touched, true)
			}
			if in[i+1] && st.Op == "insert-before" {
				blank()
			}
			keep(i)
			if in[i+1] && st.Op == "insert-after" {
				blank()
			}
		}
	case "remove":
		for i := range list {
			if !in[i+1] {
				keep(i)
			}
		}
	case "trim":
		for i := range list {
			if in[i+1] {
				keep(i)
			}
		}
	case "collect":
		for _, p := range sel {
			keep(p - 1)
		}
	default:
		for i := range list {
			keep(i)
			if !in[i+1] {
				continue
			}
			p := &out[len(out)-1]
			touched[len(touched)-1] = true
			switch st.Op {
			case "rotate":
				p.Rot = normRot(p.Rot + st.Deg)
			case "crop":
				applyCrop(p, *st.Crop)
			case "addboxes":
				applyAdd(p, st.Boxes)
			case "removeboxes":
				applyRemove(p, st.Remove)
			}
		}
	}
	return out, src, touched
}
