// Stand-alone reproducers for the C32 findings: hand-written minimal documents (pdfgen layer 1), one pdfcpu
// call each, result read back with pdfcpu's own PageDict (effective attributes after inheritance).
//
//	. /verif/env.sh; cd /verif/harness; $GO125 run -tags verif ./cmd/c32/repro
package main

import (
	"fmt"
	"os"
	"path/filepath"

	"github.com/pdfcpu/pdfcpu/pkg/api"
	"github.com/pdfcpu/pdfcpu/pkg/pdfcpu/model"
	"github.com/pdfcpu/pdfcpu/pkg/pdfcpu/types"
	"verif/harness/internal/pdfgen"
)

type pg struct {
	media, crop pdfgen.Array
	rotate      int
}

// build writes root -> [ node(attrs) -> pages..., extra pages under root ]
func build(nodeAttrs pdfgen.Dict, under []pg, atRoot []pg) []byte {
	doc := pdfgen.NewDoc()
	root, node := doc.Alloc(), doc.Alloc()
	font := doc.Add(pdfgen.D("Type", pdfgen.Name("Font"), "Subtype", pdfgen.Name("Type1"), "BaseFont", pdfgen.Name("Helvetica")))
	res := pdfgen.D("Font", pdfgen.D("F1", font))
	mk := func(parent pdfgen.Ref, p pg, label string) pdfgen.Ref {
		c := doc.Add(&pdfgen.Stream{Dict: pdfgen.Dict{}, Data: []byte("BT /F1 12 Tf 72 700 Td (" + label + ") Tj ET\n")})
		d := pdfgen.D("Type", pdfgen.Name("Page"), "Parent", parent, "Resources", res, "Contents", c)
		if p.media != nil {
			d.Set("MediaBox", p.media)
		}
		if p.crop != nil {
			d.Set("CropBox", p.crop)
		}
		if p.rotate != 0 {
			d.Set("Rotate", pdfgen.Int(p.rotate))
		}
		return doc.Add(d)
	}
	var kids pdfgen.Array
	for i, p := range under {
		kids = append(kids, mk(node, p, fmt.Sprintf("node-page-%d", i+1)))
	}
	nd := pdfgen.D("Type", pdfgen.Name("Pages"), "Parent", root, "Kids", kids, "Count", len(kids))
	for _, e := range nodeAttrs {
		nd.Set(e.Key, e.Val)
	}
	doc.Put(node, nd)
	rootKids := pdfgen.Array{node}
	for i, p := range atRoot {
		rootKids = append(rootKids, mk(root, p, fmt.Sprintf("root-page-%d", i+1)))
	}
	doc.Put(root, pdfgen.D("Type", pdfgen.Name("Pages"), "Kids", rootKids, "Count", len(kids)+len(atRoot)))
	doc.SetRoot(doc.Add(pdfgen.D("Type", pdfgen.Name("Catalog"), "Pages", root)))
	return pdfgen.MustWrite(doc, pdfgen.Options{}).Bytes
}

func conf() *model.Configuration {
	c := model.NewDefaultConfiguration()
	c.Offline = true
	return c
}

func show(title, file string) {
	ctx, err := api.ReadContextFile(file)
	if err != nil {
		fmt.Printf("  %s: read: %v\n", title, err)
		return
	}
	for i := 1; i <= ctx.PageCount; i++ {
		d, _, inh, err := ctx.PageDict(i, false)
		if err != nil {
			fmt.Printf("  %s: page %d: %v\n", title, i, err)
			continue
		}
		crop := "none"
		if inh.CropBox != nil {
			crop = inh.CropBox.String()
		}
		extra := ""
		for _, k := range []string{"TrimBox", "BleedBox", "ArtBox"} {
			if o, ok := d.Find(k); ok {
				extra += fmt.Sprintf(" %s=%v", k, o)
			}
		}
		fmt.Printf("  %s: page %d: MediaBox=%s CropBox=%s Rotate=%d%s\n", title, i, inh.MediaBox, crop, inh.Rotate, extra)
	}
}

func main() {
	api.DisableConfigDir()
	dir, _ := os.MkdirTemp("/verif/.cache/run", "c32repro-")
	defer os.RemoveAll(dir)
	in, out := filepath.Join(dir, "in.pdf"), filepath.Join(dir, "out.pdf")
	A := pdfgen.Rect

	fmt.Println("R1  TrimFile/RemovePagesFile/CollectFile (ExtractPages) lose a CropBox inherited from a page tree node")
	os.WriteFile(in, build(pdfgen.D("CropBox", A(10, 10, 300, 400)), []pg{{media: A(0, 0, 500, 800)}, {media: A(0, 0, 501, 800)}}, nil), 0o644)
	show("input ", in)
	fmt.Println("  TrimFile -p 1:", api.TrimFile(in, out, []string{"1"}, conf()))
	show("output", out)

	fmt.Println("R2  RemoveBoxesFile 'crop' on a page with its own CropBox below a node with a CropBox: the node's box takes over")
	os.WriteFile(in, build(pdfgen.D("CropBox", A(10, 10, 300, 400)), []pg{{media: A(0, 0, 500, 800), crop: A(20, 20, 200, 200)}}, nil), 0o644)
	show("input ", in)
	pb, _ := api.PageBoundariesFromBoxList("crop")
	fmt.Println("  RemoveBoxesFile crop -p 1:", api.RemoveBoxesFile(in, out, []string{"1"}, pb, conf()))
	show("output", out)

	fmt.Println("R3  AddBoxesFile 'trim:crop' on a page without CropBox (documented: the crop box defaults to the media box)")
	os.WriteFile(in, build(nil, []pg{{media: A(0, 0, 500, 800)}}, nil), 0o644)
	pb, err := api.PageBoundaries("trim:crop", types.POINTS)
	fmt.Println("  parse:", err)
	os.Remove(out)
	func() {
		defer func() {
			if r := recover(); r != nil {
				fmt.Println("  AddBoxesFile trim:crop -p 1: PANIC escaping the API:", r)
			}
		}()
		fmt.Println("  AddBoxesFile trim:crop -p 1:", api.AddBoxesFile(in, out, []string{"1"}, pb, conf()))
	}()
	show("output", out)

	fmt.Println("R4a InsertPagesFile(nil dim): a page overriding its node's MediaBox gets a blank page with the NODE's MediaBox")
	os.WriteFile(in, build(pdfgen.D("MediaBox", A(0, 0, 300, 300)), []pg{{media: A(0, 0, 500, 800)}, {}}, nil), 0o644)
	show("input ", in)
	os.Remove(out)
	fmt.Println("  InsertPagesFile before -p 1:", api.InsertPagesFile(in, out, []string{"1"}, true, nil, conf()))
	show("output", out)

	fmt.Println("R4b InsertPagesFile(nil dim): a node's MediaBox leaks to a later sibling page of the node")
	os.WriteFile(in, build(pdfgen.D("MediaBox", A(0, 0, 300, 300)), []pg{{}}, []pg{{media: A(0, 0, 500, 800)}}), 0o644)
	show("input ", in)
	os.Remove(out)
	fmt.Println("  InsertPagesFile after -p 2:", api.InsertPagesFile(in, out, []string{"2"}, false, nil, conf()))
	show("output", out)

	fmt.Println("R4c InsertPagesFile(nil dim) after TrimFile: the blank page gets the A4 MediaBox of the new page tree root")
	os.WriteFile(in, build(nil, []pg{{media: A(0, 0, 500, 800)}, {media: A(0, 0, 501, 800)}}, nil), 0o644)
	mid := filepath.Join(dir, "mid.pdf")
	fmt.Println("  TrimFile -p 1:", api.TrimFile(in, mid, []string{"1"}, conf()))
	os.Remove(out)
	fmt.Println("  InsertPagesFile after -p 1:", api.InsertPagesFile(mid, out, []string{"1"}, false, nil, conf()))
	show("output", out)

	fmt.Println("R5  (repaired in /repo by 193b395b; kept as regression probe) CollectFile/TrimFile/RemovePagesFile dropping every named destination: the output's /Dests root keeps a stale /Kids entry (dangling reference); pdfcpu's own ValidateFile rejects the file and every following operation fails")
	spec := pdfgen.DocSpec{Seed: 1, Pages: 3, Dests: 3, NameTreeLeafMax: 1}
	os.WriteFile(in, pdfgen.Build(spec).Bytes, 0o644)
	os.Remove(out)
	fmt.Printf("  pdfgen{Seed:%d Pages:%d Dests:%d LeafMax:%d} ValidateFile(input): %v\n", spec.Seed, spec.Pages, spec.Dests, spec.NameTreeLeafMax, api.ValidateFile(in, conf()))
	fmt.Println("  CollectFile -p 1:", api.CollectFile(in, out, []string{"1"}, conf()))
	fmt.Println("  ValidateFile(output):", api.ValidateFile(out, conf()))
	fmt.Println("  RotateFile(output):", api.RotateFile(out, filepath.Join(dir, "out2.pdf"), 90, []string{"1"}, conf()))
}
