// C32 — page operations act exactly on the selected pages.
//
// Reference model: the document as a list of pages (content identity = marker / hash of the decoded content
// bytes, effective /Rotate mod 360, effective MediaBox, CropBox, TrimBox, BleedBox, ArtBox). Random histories of
// 1..8 operations through the file API — InsertPagesFile (before / after, page dimensions or nil),
// RemovePagesFile, RotateFile (+-90/180/270), TrimFile, CollectFile (order and repetitions), AddBoxesFile,
// RemoveBoxesFile, CropFile — each with a random page selection evaluated by ref/pagesel. After EVERY step the
// output is read with pdfstrict (never with pdfcpu) and compared page by page with the model; pages an operation
// does not select, and pages it merely carries over, must keep content bytes, rotation and all boxes.
// Documents: pdfgen, 2..30 pages, nested page trees, Rotate / MediaBox / CropBox / Resources partly inherited from
// intermediate nodes; plus corpus files whose initial model is pdfstrict's reading of the input.
package main

import (
	"encoding/json"
	"fmt"
	"math/rand/v2"
	"os"
	"path/filepath"
	"sort"
	"strings"
	"sync"

	"github.com/pdfcpu/pdfcpu/pkg/api"
	"verif/harness/internal/pdfgen"
	"verif/harness/internal/ref/pagesel"
	"verif/harness/internal/vk"
)

var corpusFiles = []string{"Acroforms2.pdf", "testRot.pdf", "bookletTest.pdf", "zineTest.pdf", "annotTest.pdf", "TheGoProgrammingLanguageCh1.pdf", "go.pdf", "gobook.0.pdf", "Wonderwall.pdf", "pike-stanford.pdf"}

// genDoc builds the i-th generated document and its initial model (from the generator's ground truth).
func genDoc(t *vk.T, i int) ([]byte, []PageM) {
	rng := t.RNGi("doc", i)
	spec := pdfgen.RandomSpec(rng, 30)
	spec.Pages = 2 + min(rng.IntN(29), rng.IntN(29)+rng.IntN(6)) // 2..30, smaller documents more often
	spec.Inherit = rng.IntN(5) != 0
	spec.Rotate = rng.IntN(5) != 0
	spec.CropBox = rng.IntN(3) != 0
	spec.MaxDepth = 1 + rng.IntN(4)
	spec.MaxFanout = 1 + rng.IntN(6)
	spec.Signatures, spec.Secrets, spec.RandomFiles, spec.EmbeddedFiles = 0, false, 0, nil
	if spec.Outlines > 12 {
		spec.Outlines = 12
	}
	bt := pdfgen.Build(spec)
	list := make([]PageM, len(bt.Truth.Pages))
	for k := range bt.Truth.Pages {
		pt := &bt.Truth.Pages[k]
		p := PageM{Marker: pt.Marker, Hash: hashOf(pt.Content()), Rot: normRot(pt.Rotate), Media: Rect(pt.MediaBox), Crop: Rect(pt.MediaBox), Orig: k}
		if pt.CropBox != nil {
			p.Crop, p.HasCrop = Rect(*pt.CropBox), true
		}
		p.Fonts = append([]string(nil), pt.Fonts...)
		list[k] = p
	}
	return bt.Bytes, list
}

// checkStart makes sure the strict reader sees the input exactly as the ground truth says (harness self-check).
func checkStart(list []PageM, data []byte) error {
	got, err := observe(data)
	if err != nil {
		return err
	}
	if len(got) != len(list) {
		return fmt.Errorf("truth has %d pages, strict reader %d", len(list), len(got))
	}
	for i := range list {
		w, g := &list[i], &got[i]
		if w.Hash != g.Hash || w.Marker != g.Marker || w.Rot != g.Rot || !w.Media.eq(g.Media) || !w.Crop.eq(g.Crop) || w.HasCrop != g.HasCrop {
			return fmt.Errorf("page %d: truth %+v, strict reader %+v", i+1, *w, *g)
		}
	}
	return nil
}

// ---------------------------------------------------------------------------------------------
// history generation (on the model alone)

func randTerm(rng *rand.Rand, n int) pagesel.Term {
	nr := func() int {
		if rng.IntN(8) == 0 {
			return n + 1 + rng.IntN(3)
		}
		return 1 + rng.IntN(n)
	}
	if rng.IntN(7) == 0 {
		if rng.IntN(2) == 0 {
			return pagesel.Term{Shape: pagesel.Even}
		}
		return pagesel.Term{Shape: pagesel.Odd}
	}
	t := pagesel.Term{Shape: pagesel.RangeShapes[rng.IntN(len(pagesel.RangeShapes))]}
	if rng.IntN(3) == 0 { // single pages more often
		t.Shape = pagesel.Num
	}
	switch t.Shape {
	case pagesel.Range:
		t.A, t.B = nr(), nr()
		if t.A > t.B && rng.IntN(4) != 0 {
			t.A, t.B = t.B, t.A
		}
	case pagesel.FromLastM:
		t.A, t.B = nr(), 1+rng.IntN(max(1, n/2))
	case pagesel.LastMinus, pagesel.LastTail, pagesel.UpToLastM:
		t.A = 1 + rng.IntN(max(1, n-1))
	default:
		t.A = nr()
	}
	return t
}

func randExpr(rng *rand.Rand, n int, collect bool) string {
	k := 1 + rng.IntN(3)
	if collect {
		k = 1 + rng.IntN(4)
	}
	tt := make([]pagesel.Term, k)
	for i := range tt {
		tt[i] = randTerm(rng, n)
		if i > 0 && rng.IntN(4) == 0 && tt[i].Shape != pagesel.Even && tt[i].Shape != pagesel.Odd {
			tt[i].Neg = "!n"[rng.IntN(2)]
		}
	}
	return pagesel.Format(tt)
}

// genSel draws a selection expression for an n-page document that satisfies ok.
func genSel(rng *rand.Rand, n int, collect, allowNone bool, ok func(sel []int) bool) (string, []int) {
	if allowNone && rng.IntN(10) == 0 {
		if sel, good := selectionOf("", n, false); good && ok(sel) {
			return "", sel
		}
	}
	for try := 0; try < 40; try++ {
		e := randExpr(rng, n, collect)
		sel, good := selectionOf(e, n, collect)
		if good && len(sel) > 0 && ok(sel) {
			return e, sel
		}
	}
	p := 1 + rng.IntN(n)
	if !ok([]int{p}) {
		return "", nil
	}
	return fmt.Sprint(p), []int{p}
}

func ri(rng *rand.Rand, lo, hi int) float64 { // integer in [lo, hi], sometimes + .5
	if hi < lo {
		hi = lo
	}
	v := float64(lo + rng.IntN(hi-lo+1))
	if rng.IntN(6) == 0 {
		v += 0.5
	}
	return v
}

// randBox draws a box definition inside a parent box of at least minW x minH.
func randBox(rng *rand.Rand, minW, minH float64, allowNeg bool, forms []string) BoxDef {
	form := forms[rng.IntN(len(forms))]
	lim := int(min(minW, minH) / 4)
	if lim < 2 && (form == "margins" || form == "dim") {
		form = "rect"
	}
	switch form {
	case "margins":
		k := 1 + rng.IntN(4)
		m := make([]float64, k)
		for i := range m {
			m[i] = ri(rng, 1, lim)
		}
		if allowNeg && rng.IntN(4) == 0 {
			for i := range m {
				m[i] = -ri(rng, 1, 30)
			}
		}
		return BoxDef{Form: "margins", M: m}
	case "pct":
		return BoxDef{Form: "pct", Pct: ri(rng, 1, 30)}
	case "dim":
		anchors := []string{"tl", "tc", "tr", "l", "c", "r", "bl", "bc", "br"}
		return BoxDef{Form: "dim", W: ri(rng, 2, int(minW)-1), H: ri(rng, 2, int(minH)-1), Pos: anchors[rng.IntN(len(anchors))]}
	}
	r := Rect{ri(rng, 0, 45), ri(rng, 0, 45), ri(rng, 200, 490), ri(rng, 300, 790)}
	return BoxDef{Form: "rect", R: &r}
}

func minDims(list []PageM, sel []int, which string) (w, h float64) {
	w, h = 1e9, 1e9
	for _, p := range sel {
		r := list[p-1].eff(which)
		w, h = min(w, r.W()), min(h, r.H())
	}
	return
}

func genStep(rng *rand.Rand, list []PageM) (Step, bool) {
	n := len(list)
	ops := []string{"insert-before", "insert-after", "remove", "rotate", "rotate", "trim", "collect", "addboxes", "addboxes", "removeboxes", "crop"}
	op := ops[rng.IntN(len(ops))]
	if n < 2 && (op == "remove") {
		op = "rotate"
	}
	st := Step{Op: op}
	var sel []int
	any := func([]int) bool { return true }
	switch op {
	case "insert-before", "insert-after":
		st.Sel, sel = genSel(rng, n, false, true, func(s []int) bool { return n+len(s) <= 60 })
		if rng.IntN(5) < 2 {
			st.Dim = &[2]float64{ri(rng, 100, 900), ri(rng, 100, 900)}
		}
	case "remove":
		st.Sel, sel = genSel(rng, n, false, false, func(s []int) bool { return len(s) < n })
	case "rotate":
		st.Sel, sel = genSel(rng, n, false, true, any)
		st.Deg = []int{90, 180, 270, -90, -180, -270}[rng.IntN(6)]
	case "trim":
		st.Sel, sel = genSel(rng, n, false, false, any)
	case "collect":
		st.Sel, sel = genSel(rng, n, true, false, func(s []int) bool { return len(s) <= 40 })
	case "removeboxes":
		st.Sel, sel = genSel(rng, n, false, true, any)
		for _, k := range []string{"crop", "trim", "bleed", "art"} {
			if rng.IntN(2) == 0 {
				st.Remove = append(st.Remove, k)
			}
		}
		if len(st.Remove) == 0 {
			st.Remove = []string{[]string{"crop", "trim", "bleed", "art"}[rng.IntN(4)]}
		}
	case "crop":
		st.Sel, sel = genSel(rng, n, false, true, any)
		if sel != nil {
			w, h := minDims(list, sel, "media")
			b := randBox(rng, w, h, true, []string{"rect", "margins", "margins", "pct", "dim"})
			st.Crop = &b
		}
	case "addboxes":
		st.Sel, sel = genSel(rng, n, false, true, any)
		if sel == nil {
			break
		}
		st.Boxes = map[string]BoxDef{}
		hasMedia := rng.IntN(5) == 0
		if hasMedia {
			r := Rect{ri(rng, 0, 20), ri(rng, 0, 20), ri(rng, 400, 700), ri(rng, 600, 900)}
			st.Boxes["media"] = BoxDef{Form: "rect", R: &r}
		}
		// with a new media box in the same request the parent of relative definitions is not documented: rect / ref only
		// (the anchored dim form cannot be written inside a boxes description: its ',' and ':' are the description's separators)
		rel := []string{"rect", "margins", "margins", "pct"}
		if hasMedia {
			rel = []string{"rect"}
		}
		if rng.IntN(3) == 0 {
			w, h := minDims(list, sel, "media")
			st.Boxes["crop"] = randBox(rng, w, h, !hasMedia, rel)
		}
		// parent of trim/bleed/art: the crop box after media/crop of this request
		tmp := cloneList(list)
		for _, p := range sel {
			applyAdd(&tmp[p-1], st.Boxes)
		}
		w, h := minDims(tmp, sel, "crop")
		for _, k := range []string{"trim", "bleed", "art"} {
			if rng.IntN(2) == 0 || (len(st.Boxes) == 0 && k == "art") {
				if rng.IntN(4) == 0 {
					targets := []string{}
					for _, tg := range boxOrder {
						if b, isDef := st.Boxes[tg]; tg != k && !(isDef && b.Form == "ref") {
							targets = append(targets, tg)
						}
					}
					st.Boxes[k] = BoxDef{Form: "ref", Ref: targets[rng.IntN(len(targets))]}
				} else {
					st.Boxes[k] = randBox(rng, w, h, true, rel)
				}
			}
		}
		// an assignment must not read a box that is itself assigned in this request (order undocumented)
		for _, k := range []string{"trim", "bleed", "art"} {
			if b, ok := st.Boxes[k]; ok && b.Form == "ref" {
				if tb, ok := st.Boxes[b.Ref]; ok && tb.Form == "ref" {
					delete(st.Boxes, k)
				}
			}
		}
		if len(st.Boxes) == 0 {
			st.Boxes["trim"] = BoxDef{Form: "pct", Pct: 10}
		}
	}
	return st, sel != nil
}

func genHistory(rng *rand.Rand, start []PageM) []Step {
	list := cloneList(start)
	n := 1 + rng.IntN(8)
	var steps []Step
	for len(steps) < n {
		st, ok := genStep(rng, list)
		if !ok {
			continue
		}
		sel, good := selectionOf(st.Sel, len(list), st.Op == "collect")
		if !good {
			continue
		}
		list, _, _ = apply(list, st, sel)
		for i := range list {
			list[i].Fresh = false
		}
		steps = append(steps, st)
	}
	return steps
}

// ---------------------------------------------------------------------------------------------

type input struct {
	data  []byte
	start []PageM
}

type outcome struct {
	c  *Case
	vv []Violation
}

func loadInput(t *vk.T, c *Case, corpus map[string]input) (input, error) {
	if c.Doc == "gen" {
		data, list := genDoc(t, c.Index)
		if err := checkStart(list, data); err != nil {
			return input{}, err
		}
		return input{data, list}, nil
	}
	in, ok := corpus[c.Doc]
	if !ok {
		return input{}, fmt.Errorf("corpus file %s not usable", c.Doc)
	}
	return in, nil
}

// shrink cuts the history after the step that fires key and drops earlier steps while key keeps firing.
func shrink(c *Case, key string, in input, dir string) *Case {
	firesAt := func(cand *Case) int {
		vv, _ := runCase(cand, in.data, in.start, dir, stats{})
		for _, v := range vv {
			if v.Key == key {
				return v.Step
			}
		}
		return -1
	}
	cur := *c
	at := firesAt(&cur)
	if at < 0 {
		return c
	}
	tail := 1 // steps kept after the blamed one: an invalid output shows when the next step reads it
	if !strings.Contains(key, "/class=invalid-output/") {
		tail = 0
	}
	cur.Steps = append([]Step(nil), cur.Steps[:min(at+1+tail, len(cur.Steps))]...)
	for i := len(cur.Steps) - 2 - tail; i >= 0; i-- {
		cand := cur
		cand.Steps = append(append([]Step(nil), cur.Steps[:i]...), cur.Steps[i+1:]...)
		if firesAt(&cand) == len(cand.Steps)-1-tail {
			cur = cand
		}
	}
	if tail > 0 {
		return &cur
	}
	// single-page selection for the last step, if that still fires
	last := cur.Steps[len(cur.Steps)-1]
	for p := 1; p <= 6 && last.Op != "collect"; p++ {
		cand := cur
		cand.Steps = append([]Step(nil), cur.Steps...)
		cand.Steps[len(cand.Steps)-1].Sel = fmt.Sprint(p)
		if firesAt(&cand) == len(cand.Steps)-1 {
			cur = cand
			break
		}
	}
	return &cur
}

func main() {
	vk.Run("C32", "exploration", func(t *vk.T) {
		api.DisableConfigDir()
		scratch := t.Scratch()

		corpus := map[string]input{}
		var corpusNames []string
		for _, name := range corpusFiles {
			data, err := os.ReadFile(filepath.Join(vk.RepoDir(), "pkg", "testdata", name))
			if err != nil {
				continue
			}
			list, err := observe(data)
			if err != nil || len(list) < 2 || len(list) > 40 {
				continue
			}
			corpus[name] = input{data, list}
			corpusNames = append(corpusNames, name)
		}

		if t.Replay != nil {
			var c Case
			if err := json.Unmarshal(t.Replay.Case, &c); err != nil {
				t.Broken("replay case: %v", err)
			}
			in, err := loadInput(t, &c, corpus)
			if err != nil {
				t.Broken("replay input: %v", err)
			}
			vv, skipped := runCase(&c, in.data, in.start, filepath.Join(scratch, "replay"), stats{})
			if skipped != "" {
				fmt.Println("replay: history not judged:", skipped)
			}
			for _, v := range vv {
				t.Violate(v.Key, v.What, &c)
			}
			t.Eval("replay")
			return
		}

		nGen := t.Pick(1000, 10000)
		nCorpus := t.Pick(100, 1000)
		if len(corpusNames) == 0 {
			nCorpus = 0
		}
		t.Rule(fmt.Sprintf("%d histories on generated documents (pdfgen: 2..30 pages, page tree depth 1..4, fan-out 1..6, MediaBox/CropBox/Rotate/Resources partly on intermediate nodes, unique marker and media box per page, "+
			"1..3 content streams per page, random file structure) and %d on corpus files %v (initial model = pdfstrict's reading). A history is 1..8 steps drawn from insert-before/insert-after (page dimensions or nil), remove, "+
			"rotate +-90/180/270, trim, collect, boxes add (rect / 1..4 margins incl. negative / percent / assignments), boxes remove, crop (rect / margins / percent / anchored dim); selections are random 1..3-term expressions (1..4 for collect) over all "+
			"documented term shapes without page number 0, kept only when every documented reading agrees, 10%% of the non-structural steps without selection (= all pages). conf.Optimize is drawn per history. "+
			"After every step: page count, content hash sequence, effective /Rotate mod 360, effective Media/Crop/Trim/Bleed/Art box and presence of the fonts the content uses, for every page. "+
			"A history is non-trivial when at least one step was executed and compared", nGen, nCorpus, corpusNames))
		t.Assume("a blank page inserted by InsertPagesFile must be blank and carry the selected page's effective MediaBox (doc comment of validatePageConfiguration / usage text) or the given dimensions; its rotation and other boxes are not documented and adopted from the first observation")
		t.Assume("boxes: effective values are compared (CropBox defaults to MediaBox; Trim/Bleed/ArtBox default to CropBox) — whether a default is materialised as an explicit entry is not judged")
		t.Assume("boxes add with a media box in the same request uses only rectangles and assignments for the other boxes (the parent of relative definitions is then undocumented); assignments never read a box assigned in the same request; relative margins use |m| >= 1 or the % form")
		t.Assume("crop / boxes add crop with margins leaving the media box expand the media box to the union (usage text: 'for crop box the media box gets expanded')")
		t.Assume("selection expressions whose meaning pdfcpu's evaluator and ref/pagesel disagree on are C31's subject: such histories are counted and not judged; selections never select nothing, remove never removes every page")
		t.Assume("an operation on a valid document that returns an error is reported (class=error): every generated request is valid by the documentation")

		outs := make([]outcome, nGen+nCorpus)
		var mu sync.Mutex
		total := stats{}
		broken := ""
		vk.Parallel(nGen+nCorpus, func(i int) {
			c := &Case{Doc: "gen", Index: i}
			var rng *rand.Rand
			if i >= nGen {
				c.Doc = corpusNames[(i-nGen)%len(corpusNames)]
				c.Index = i - nGen
				rng = t.RNGi("corpus-history", c.Index)
			} else {
				rng = t.RNGi("history", i)
			}
			in, err := loadInput(t, c, corpus)
			if err != nil {
				mu.Lock()
				if broken == "" {
					broken = fmt.Sprintf("case %d: generated document and strict reader disagree: %v", i, err)
				}
				mu.Unlock()
				return
			}
			c.Optimize = rng.IntN(4) != 0
			c.Steps = genHistory(rng, in.start)
			st := stats{}
			vv, skipped := runCase(c, in.data, in.start, filepath.Join(scratch, fmt.Sprintf("c%d", i)), st)
			executed := int64(0)
			for k, v := range st {
				if strings.HasPrefix(k, "steps/") {
					executed += v
				}
			}
			key := ""
			if executed > 0 {
				key = fmt.Sprintf("%s#%d", c.Doc, c.Index)
			}
			t.Eval(key)
			if i < 3 || i == nGen {
				ss := make([]string, len(c.Steps))
				for k, s := range c.Steps {
					ss[k] = s.String()
				}
				t.Sample(map[string]any{"doc": c.Doc, "index": c.Index, "pages": len(in.start), "optimize": c.Optimize, "steps": ss})
			}
			mu.Lock()
			for k, v := range st {
				total[k] += v
			}
			total["histories"]++
			total["history_steps_generated"] += int64(len(c.Steps))
			if skipped != "" {
				total["histories_cut_short/"+skipped]++
			}
			if len(vv) > 0 {
				total["violating_histories"]++
			}
			mu.Unlock()
			outs[i] = outcome{c, vv}
		})

		if broken != "" {
			t.Broken("%s", broken)
		}
		// report in case order (deterministic), one shrunk history per key
		first := map[string]int{}
		var keys []string
		for i, o := range outs {
			for _, v := range o.vv {
				total["violations/"+v.Key]++
				if _, seen := first[v.Key]; !seen {
					first[v.Key] = i
					keys = append(keys, v.Key)
				}
			}
		}
		type rep struct {
			key, what string
			c         *Case
		}
		reps := make([]rep, len(keys))
		vk.Parallel(len(keys), func(k int) {
			key := keys[k]
			o := outs[first[key]]
			in, _ := loadInput(t, o.c, corpus)
			small := shrink(o.c, key, in, filepath.Join(scratch, fmt.Sprintf("shrink%d", k)))
			what := ""
			vv, _ := runCase(small, in.data, in.start, filepath.Join(scratch, fmt.Sprintf("shrunk%d", k)), stats{})
			for _, v := range vv {
				if v.Key == key {
					what = v.What
				}
			}
			if what == "" {
				small = o.c
				for _, v := range o.vv {
					if v.Key == key {
						what = v.What
					}
				}
			}
			ss := make([]string, len(small.Steps))
			for j, s := range small.Steps {
				ss[j] = s.String()
			}
			reps[k] = rep{key, fmt.Sprintf("%s | document %s#%d (%d pages), history: %s", what, small.Doc, small.Index, len(in.start), strings.Join(ss, " ; ")), small}
		})
		for _, r := range reps {
			t.Violate(r.key, r.what, r.c)
		}

		names := make([]string, 0, len(total))
		for k := range total {
			names = append(names, k)
		}
		sort.Strings(names)
		for _, k := range names {
			t.Count(k, total[k])
		}
		if total["pages_compared"] == 0 && len(keys) == 0 {
			t.Broken("no page was compared")
		}
	})
}
