package main

import (
	"bytes"
	"crypto/sha256"
	"encoding/hex"
	"fmt"
	"os"
	"path/filepath"
	"regexp"
	"runtime/debug"
	"sort"
	"strings"

	"github.com/pdfcpu/pdfcpu/pkg/api"
	"github.com/pdfcpu/pdfcpu/pkg/pdfcpu"
	"github.com/pdfcpu/pdfcpu/pkg/pdfcpu/model"
	"github.com/pdfcpu/pdfcpu/pkg/pdfcpu/types"
	"verif/harness/internal/pdfstrict"
	"verif/harness/internal/ref/pagesel"
)

var markerRE = regexp.MustCompile(`\((VERIF-PAGE-[0-9A-Fa-f]{32})\) Tj`)

func hashOf(b []byte) string {
	h := sha256.Sum256(b)
	return hex.EncodeToString(h[:8])
}

// observe reads a PDF with the independent reader and returns its pages as model pages.
func observe(data []byte) ([]PageM, error) {
	d, err := pdfstrict.Open(data, pdfstrict.Options{})
	if err != nil {
		return nil, fmt.Errorf("pdfstrict open: %v", err)
	}
	pages, err := d.Pages()
	if err != nil {
		return nil, fmt.Errorf("pdfstrict pages: %v", err)
	}
	for _, k := range []string{pdfstrict.KindPagesTree, pdfstrict.KindPagesCount} {
		if d.HasDefect(k) {
			return nil, fmt.Errorf("pdfstrict: page tree defect %s", k)
		}
	}
	out := make([]PageM, len(pages))
	for i, pg := range pages {
		if pg.ContentErr != nil {
			return nil, fmt.Errorf("page %d: %v", i+1, pg.ContentErr)
		}
		if !pg.HasMediaBox {
			return nil, fmt.Errorf("page %d: no MediaBox", i+1)
		}
		p := PageM{Hash: hashOf(pg.Content), Rot: normRot(pg.Rotate), Media: Rect(pg.MediaBox), Crop: Rect(pg.CropBox), HasCrop: pg.HasCropBox, Orig: i}
		if m := markerRE.FindAllSubmatch(pg.Content, -1); len(m) == 1 {
			p.Marker = string(m[0][1])
		} else if len(m) > 1 {
			return nil, fmt.Errorf("page %d: %d markers on one page", i+1, len(m))
		}
		p.Blank = len(bytes.TrimSpace(pg.Content)) == 0
		for _, k := range []string{"TrimBox", "BleedBox", "ArtBox"} {
			o, has := pg.Dict[k]
			if !has || pdfstrict.IsNull(d.Resolve(o)) {
				continue
			}
			a, ok := d.Resolve(o).(pdfstrict.Array)
			if !ok || len(a) != 4 {
				return nil, fmt.Errorf("page %d: malformed /%s", i+1, k)
			}
			var r Rect
			for j, x := range a {
				f, isNum := pdfstrict.Number(d.Resolve(x))
				if !isNum {
					return nil, fmt.Errorf("page %d: malformed /%s", i+1, k)
				}
				r[j] = f
			}
			// pdfcpu normalises nothing here; keep the values as written
			p.set(strings.ToLower(strings.TrimSuffix(k, "Box")), &r)
		}
		if pg.Resources != nil {
			if fd, ok := d.ResolveDict(pg.Resources["Font"]); ok {
				for name := range fd {
					p.Fonts = append(p.Fonts, name)
				}
				sort.Strings(p.Fonts)
			}
		}
		out[i] = p
	}
	return out, nil
}

func newConf(optimize bool) *model.Configuration {
	conf := model.NewDefaultConfiguration()
	conf.Offline = true
	conf.Optimize = optimize
	return conf
}

// selectionOf evaluates a selection expression on n pages with the reference evaluator. ok=false if the
// documentation does not fix its meaning (readings differ, see C31) or the expression is not valid.
func selectionOf(expr string, n int, collect bool) (pages []int, ok bool) {
	if expr == "" {
		if collect {
			return nil, false
		}
		for p := 1; p <= n; p++ {
			pages = append(pages, p)
		}
		return pages, true
	}
	tt, v := pagesel.Parse(expr)
	if v != pagesel.Valid || pagesel.HasBig(tt) {
		return nil, false
	}
	for _, t := range tt {
		if t.Shape.Numbers() >= 1 && t.A == 0 || t.Shape.Numbers() == 2 && t.B == 0 {
			return nil, false // page number 0: C31's business
		}
	}
	eval := func(r pagesel.Reading) []int {
		if collect {
			return pagesel.Collection(n, tt, r)
		}
		return pagesel.Selection(n, tt, r)
	}
	rr := pagesel.Readings()
	pages = eval(rr[0])
	for _, r := range rr[1:] {
		if !eqInts(pages, eval(r)) {
			return nil, false
		}
	}
	return pages, true
}

func eqInts(a, b []int) bool {
	if len(a) != len(b) {
		return false
	}
	for i := range a {
		if a[i] != b[i] {
			return false
		}
	}
	return true
}

// pdfcpuAgrees asks pdfcpu's own evaluator for the same expression: a disagreement is a matter of the
// selection language (C31), the step is then skipped here.
func pdfcpuAgrees(expr string, n int, collect bool, want []int) (agree bool) {
	defer func() {
		if recover() != nil {
			agree = false
		}
	}()
	if expr == "" {
		return true
	}
	ss, err := api.ParsePageSelection(expr)
	if err != nil {
		return false
	}
	if collect {
		got, err := api.PagesForPageCollection(n, ss)
		return err == nil && eqInts(got, want)
	}
	set, err := api.PagesForPageSelection(n, ss, true, false)
	if err != nil {
		return false
	}
	var got []int
	for k, v := range set {
		if v {
			got = append(got, k)
		}
	}
	sort.Ints(got)
	return eqInts(got, want)
}

func selArg(expr string) ([]string, error) {
	if expr == "" {
		return nil, nil
	}
	return api.ParsePageSelection(expr)
}

// execStep runs one operation through the file API. panicked reports a panic escaping pdfcpu.
func execStep(st Step, in, out string, optimize bool) (err error, panicked string) {
	defer func() {
		if r := recover(); r != nil {
			panicked = fmt.Sprintf("%v | %s", r, innermostFrame(debug.Stack()))
			err = fmt.Errorf("panic: %v", r)
		}
	}()
	sel, err := selArg(st.Sel)
	if err != nil {
		return err, ""
	}
	conf := newConf(optimize)
	switch st.Op {
	case "insert-before", "insert-after":
		var pc *pdfcpu.PageConfiguration
		if st.Dim != nil {
			pc = &pdfcpu.PageConfiguration{PageDim: &types.Dim{Width: st.Dim[0], Height: st.Dim[1]}, UserDim: true}
		}
		return api.InsertPagesFile(in, out, sel, st.Op == "insert-before", pc, conf), ""
	case "remove":
		return api.RemovePagesFile(in, out, sel, conf), ""
	case "rotate":
		return api.RotateFile(in, out, st.Deg, sel, conf), ""
	case "trim":
		return api.TrimFile(in, out, sel, conf), ""
	case "collect":
		return api.CollectFile(in, out, sel, conf), ""
	case "addboxes":
		pb, err := api.PageBoundaries(st.boxDescription(), types.POINTS)
		if err != nil {
			return fmt.Errorf("parse %q: %w", st.boxDescription(), err), ""
		}
		return api.AddBoxesFile(in, out, sel, pb, conf), ""
	case "removeboxes":
		pb, err := api.PageBoundariesFromBoxList(strings.Join(st.Remove, ","))
		if err != nil {
			return fmt.Errorf("parse %q: %w", strings.Join(st.Remove, ","), err), ""
		}
		return api.RemoveBoxesFile(in, out, sel, pb, conf), ""
	case "crop":
		b, err := api.Box(st.Crop.String(), types.POINTS)
		if err != nil {
			return fmt.Errorf("parse %q: %w", st.Crop.String(), err), ""
		}
		return api.CropFile(in, out, sel, b, conf), ""
	}
	return fmt.Errorf("unknown op %q", st.Op), ""
}

func validate(file string) (err error) {
	defer func() {
		if r := recover(); r != nil {
			err = fmt.Errorf("panic: %v", r)
		}
	}()
	return api.ValidateFile(file, newConf(true))
}

func innermostFrame(stack []byte) string {
	lines := strings.Split(string(stack), "\n")
	for _, ln := range lines {
		if strings.Contains(ln, "github.com/pdfcpu/pdfcpu/pkg/") && !strings.HasPrefix(ln, "\t") && !strings.Contains(ln, "fault.") {
			if i := strings.LastIndex(ln, "("); i > 0 {
				ln = ln[:i]
			}
			return strings.TrimPrefix(ln, "github.com/pdfcpu/pdfcpu/")
		}
	}
	return "?"
}

// Violation of one step.
type Violation struct {
	Key  string `json:"key"`
	What string `json:"what"`
	Step int    `json:"step"`
}

// Case is a replayable history.
type Case struct {
	Doc      string `json:"doc"`      // "gen" or a corpus file name
	Index    int    `json:"index"`    // generator stream index
	Optimize bool   `json:"optimize"` // conf.Optimize of every call
	Steps    []Step `json:"steps"`
	Note     string `json:"note,omitempty"`
}

type stats map[string]int64

var attrNames = []string{"mediabox", "cropbox", "trimbox", "bleedbox", "artbox"}

func seqClass(op string) string {
	if op == "collect" {
		return "order"
	}
	return "sequence"
}

func isSeqOp(op string) bool {
	switch op {
	case "insert-before", "insert-after", "remove", "trim", "collect":
		return true
	}
	return false
}

// compare checks the observed pages against the model after a step. src/touched come from apply.
func compare(st Step, stepIdx int, want, got []PageM, src []int, touched []bool) []Violation {
	var vv []Violation
	seen := map[string]bool{}
	add := func(key, what string) {
		if !seen[key] {
			seen[key] = true
			vv = append(vv, Violation{Key: key, What: what, Step: stepIdx})
		}
	}
	op := "op=" + st.Op
	ids := func(l []PageM) string {
		ss := make([]string, len(l))
		for i, p := range l {
			switch {
			case p.Blank:
				ss[i] = "blank"
			case p.Marker != "":
				ss[i] = p.Marker[len(p.Marker)-6:]
			default:
				ss[i] = "#" + p.Hash[:6]
			}
		}
		return strings.Join(ss, " ")
	}
	if len(want) != len(got) {
		add(op+"/class=page-count", fmt.Sprintf("%s: %d pages expected, output has %d; expected [%s] got [%s]", st, len(want), len(got), ids(want), ids(got)))
		return vv
	}
	// identity first: if the sequence is wrong, attribute differences are consequences
	seqBad := false
	for i := range want {
		w, g := &want[i], &got[i]
		if w.Fresh {
			if !g.Blank {
				seqBad = true
			}
			continue
		}
		if w.Hash != g.Hash {
			seqBad = true
		}
	}
	if seqBad {
		if isSeqOp(st.Op) {
			cls := seqClass(st.Op)
			// a page whose content differs from every input page is a content change, not a misplacement
			known := map[string]bool{}
			for _, p := range want {
				known[p.Hash] = true
			}
			for i, g := range got {
				if !known[g.Hash] && !(g.Blank && strings.HasPrefix(st.Op, "insert")) {
					add(op+"/class=content-changed", fmt.Sprintf("%s: output page %d has content (hash %s, marker %q) that no page had before", st, i+1, g.Hash, g.Marker))
					return vv
				}
			}
			add(op+"/class="+cls, fmt.Sprintf("%s: expected page sequence [%s], output has [%s]", st, ids(want), ids(got)))
			return vv
		}
		for i := range want {
			if want[i].Hash != got[i].Hash {
				cls := "unselected-page-changed"
				if touched[i] {
					cls = "selected-page-wrong"
				}
				add(op+"/class="+cls+"/what=content", fmt.Sprintf("%s: page %d content differs: expected %s (marker %q), got %s (marker %q)", st, i+1, want[i].Hash, want[i].Marker, got[i].Hash, got[i].Marker))
			}
		}
		return vv
	}
	for i := range want {
		w, g := &want[i], &got[i]
		if w.Fresh {
			if !w.Media.eq(g.Media) {
				add(op+"/class=blank-page-wrong/what=mediabox", fmt.Sprintf("%s: blank page at position %d: MediaBox %v expected (the selected page's effective media box, or the given dimensions), got %v", st, i+1, w.Media, g.Media))
			}
			continue
		}
		cls := "unselected-page-changed"
		switch {
		case isSeqOp(st.Op):
			cls = "kept-page-changed"
		case touched[i]:
			cls = "selected-page-wrong"
		}
		if w.Rot != g.Rot {
			add(op+"/class="+cls+"/what=rotate", fmt.Sprintf("%s: page %d (was page %d): effective /Rotate %d expected, got %d", st, i+1, src[i]+1, w.Rot, g.Rot))
		}
		for k, name := range boxOrder {
			if k >= 2 && w.explicit(name) == nil && g.explicit(name) == nil {
				continue // both default to the crop box, which is compared itself
			}
			if !w.eff(name).eq(g.eff(name)) {
				add(op+"/class="+cls+"/what="+attrNames[k], fmt.Sprintf("%s: page %d (was page %d): effective %s %v expected, got %v", st, i+1, src[i]+1, attrNames[k], w.eff(name), g.eff(name)))
			}
		}
		if len(w.Fonts) > 0 {
			have := map[string]bool{}
			for _, f := range g.Fonts {
				have[f] = true
			}
			for _, f := range w.Fonts {
				if !have[f] {
					add(op+"/class="+cls+"/what=resources", fmt.Sprintf("%s: page %d (was page %d): font resource /%s used by the page content is no longer in the page's effective resources %v", st, i+1, src[i]+1, f, g.Fonts))
					break
				}
			}
		}
	}
	return vv
}

// runCase executes a history. After a failing step the model is re-synchronised with the observed output
// (a failed call leaves model and file unchanged) so that later steps are still judged, each on its own.
// skipped != "" if the history was cut short because a step could not be judged.
func runCase(c *Case, input []byte, start []PageM, dir string, st stats) (all []Violation, skipped string) {
	_ = os.MkdirAll(dir, 0o755)
	defer os.RemoveAll(dir)
	first := filepath.Join(dir, "in.pdf")
	cur := first
	if err := os.WriteFile(cur, input, 0o644); err != nil {
		return nil, "write: " + err.Error()
	}
	list := cloneList(start)
	producer := -1 // index of the step that wrote cur, -1: the input document
	for k, step := range c.Steps {
		n := len(list)
		collect := step.Op == "collect"
		sel, ok := selectionOf(step.Sel, n, collect)
		if !ok {
			return all, "selection-ambiguous"
		}
		if len(sel) == 0 || (step.Op == "remove" && len(sel) == n) || (strings.HasPrefix(step.Op, "insert") && n+len(sel) > 80) {
			return all, "selection-empty-or-all"
		}
		if !pdfcpuAgrees(step.Sel, n, collect, sel) {
			st["selection_disagreements_left_to_C31"]++
			return all, "selection-disagreement"
		}
		want, src, touched := apply(list, step, sel)
		out := filepath.Join(dir, fmt.Sprintf("s%d.pdf", k))
		err, panicked := execStep(step, cur, out, c.Optimize)
		st["steps/"+step.Op]++
		if panicked != "" {
			st["pdfcpu_panics"]++
		}
		if err != nil {
			msg := err.Error()
			st["steps_failed"]++
			// Who is to blame? If pdfcpu's own validation rejects the file this step was given, it is the
			// earlier step that wrote it (the generated / corpus input itself is known to validate).
			if verr := validate(cur); verr != nil && producer >= 0 {
				p := c.Steps[producer]
				all = append(all, Violation{Key: "op=" + p.Op + "/class=invalid-output/" + errClass(verr.Error()),
					What: fmt.Sprintf("%s wrote a document that pdfcpu's own validation rejects (%v); the next step %s fails: %s", p, verr, step, msg), Step: producer})
				return all, "invalid-intermediate-document"
			}
			all = append(all, Violation{Key: "op=" + step.Op + "/class=error/" + errClass(msg), What: fmt.Sprintf("%s on a valid %d-page document fails: %s", step, n, msg), Step: k})
			continue
		}
		data, rerr := os.ReadFile(out)
		if dump := os.Getenv("C32_DUMP"); dump != "" && rerr == nil { // debugging aid for --replay
			_ = os.WriteFile(filepath.Join(dump, "in.pdf"), input, 0o644)
			_ = os.WriteFile(filepath.Join(dump, fmt.Sprintf("step%d.pdf", k)), data, 0o644)
		}
		if rerr != nil {
			all = append(all, Violation{Key: "op=" + step.Op + "/class=no-output", What: fmt.Sprintf("%s returned nil but wrote no output: %v", step, rerr), Step: k})
			continue
		}
		got, oerr := observe(data)
		if oerr != nil {
			all = append(all, Violation{Key: "op=" + step.Op + "/class=output-unreadable", What: fmt.Sprintf("%s: output not readable by the strict reader: %v", step, oerr), Step: k})
			return all, "output-unreadable"
		}
		vv := compare(step, k, want, got, src, touched)
		st["pages_compared"] += int64(len(got))
		if len(vv) > 0 {
			all = append(all, vv...)
			st["steps_violating"]++
			// re-synchronise: the observed document is the new state (fonts by content identity)
			fonts := map[string][]string{}
			for _, p := range list {
				fonts[p.Hash] = p.Fonts
			}
			for i := range got {
				got[i].Fonts = fonts[got[i].Hash]
			}
			list = got
		} else {
			// adopt what the documentation leaves open
			for i := range want {
				if want[i].Fresh {
					g := got[i].clone()
					g.Orig, g.Fresh, g.Blank, g.Fonts = -1, false, true, nil
					want[i] = g
				} else {
					want[i].HasCrop = got[i].HasCrop
				}
			}
			list = want
		}
		if cur != first {
			os.Remove(cur)
		}
		cur, producer = out, k
	}
	return all, ""
}

var digitsRE = regexp.MustCompile(`[0-9]+`)

// errClass turns an error text into a short stable class: the last two ':'-separated parts without numbers.
func errClass(msg string) string {
	parts := strings.Split(msg, ": ")
	if len(parts) > 2 {
		parts = parts[len(parts)-2:]
	}
	s := strings.Join(parts, ":")
	s = digitsRE.ReplaceAllString(s, "N")
	s = strings.Map(func(r rune) rune {
		if r == ' ' {
			return '_'
		}
		if r < ' ' || r > '~' {
			return -1
		}
		return r
	}, s)
	if len(s) > 80 {
		s = s[:80]
	}
	return s
}
