package main

import (
	"bytes"
	"fmt"
	"os"

	"github.com/pdfcpu/pdfcpu/pkg/api"
	"github.com/pdfcpu/pdfcpu/pkg/pdfcpu"
	"github.com/pdfcpu/pdfcpu/pkg/pdfcpu/model"
	"github.com/pdfcpu/pdfcpu/pkg/pdfcpu/types"
)

func read(f string) *model.Context {
	conf := model.NewDefaultConfiguration()
	conf.Cmd = model.MERGECREATE
	conf.ValidationMode = model.ValidationRelaxed
	conf.CreateBookmarks = os.Getenv("BM") != ""
	fh, _ := os.Open(f)
	ctx, err := api.ReadAndValidate(fh, conf)
	if err != nil {
		panic(err)
	}
	return ctx
}

func main() {
	api.DisableConfigDir()
	for try := 0; try < 1; try++ {
		dst, src := read(os.Args[1]), read(os.Args[2])
		e15, _ := dst.FindTableEntryLight(15)
		fmt.Printf("dest after read: Size=%d len(Table)=%d entry15=%T free=%v | src Size=%d len=%d\n", *dst.Size, len(dst.Table), e15.Object, e15.Free, *src.Size, len(src.Table))
		srcKinds := map[string]int{}
		for _, e := range src.Table {
			if e != nil && !e.Free {
				srcKinds[fmt.Sprintf("%T", e.Object)]++
			}
		}
		if os.Getenv("BM") != "" {
			dst.Conf.CreateBookmarks = true
			if err := pdfcpu.EnsureOutlines(dst, "d0.pdf", true); err != nil {
				fmt.Println("ensure outlines:", err)
			}
			seen0 := map[int]bool{}
			_ = seen0
		}
		if err := pdfcpu.MergeXRefTables("x", src, dst, false, os.Getenv("DIV") != ""); err != nil {
			fmt.Println("merge:", err)
			continue
		}
		// walk from root
		seen := map[int]bool{}
		var walk func(o types.Object, path string) bool
		walk = func(o types.Object, path string) bool {
			switch v := o.(type) {
			case types.IndirectRef:
				n := v.ObjectNumber.Value()
				if seen[n] {
					return false
				}
				seen[n] = true
				e, ok := dst.FindTableEntryLight(n)
				if !ok || e.Free {
					return false
				}
				switch e.Object.(type) {
				case types.ObjectStreamDict, types.XRefStreamDict:
					fmt.Printf("try %d: %s -> obj %d is %T   (src kinds %v)\n", try, path, n, e.Object, srcKinds)
					return true
				}
				ob, err := dst.Dereference(v)
				if err != nil {
					fmt.Println("deref", n, err)
					return false
				}
				return walk(ob, fmt.Sprintf("%s(%d)", path, n))
			case types.Dict:
				for k, x := range v {
					if walk(x, path+"/"+k) {
						return true
					}
				}
			case types.StreamDict:
				for k, x := range v.Dict {
					if walk(x, path+"/"+k) {
						return true
					}
				}
			case types.Array:
				for i, x := range v {
					if walk(x, fmt.Sprintf("%s[%d]", path, i)) {
						return true
					}
				}
			}
			return false
		}
		if !walk(*dst.Root, "Root") {
			fmt.Println("try", try, ": clean after merge")
		}
		if os.Getenv("NOOPT") == "" {
			if err := api.OptimizeContext(dst); err != nil {
				fmt.Println("optimize:", err)
			}
			seen = map[int]bool{}
			if !walk(*dst.Root, "Root") {
				fmt.Println("try", try, ": clean after optimize")
			}
		}
		e15, _ = dst.FindTableEntryLight(15)
		fmt.Printf("dest after merge: Size=%d len(Table)=%d entry15=%T free=%v\n", *dst.Size, len(dst.Table), e15.Object, e15.Free)
		var refs func(o types.Object, n int, path string)
		refs = func(o types.Object, n int, path string) {
			switch v := o.(type) {
			case types.IndirectRef:
				if v.ObjectNumber.Value() == 15 {
					fmt.Printf("  obj %d %s -> 15\n", n, path)
				}
			case types.Dict:
				for k, x := range v {
					refs(x, n, path+"/"+k)
				}
			case types.StreamDict:
				refs(v.Dict, n, path)
			case types.Array:
				for i, x := range v {
					refs(x, n, fmt.Sprintf("%s[%d]", path, i))
				}
			}
		}
		for n, e := range dst.Table {
			if e != nil && !e.Free {
				refs(e.Object, n, "")
			}
		}
		for name, tree := range dst.Names {
			_ = tree.Process(dst.XRefTable, func(x *model.XRefTable, k string, v *types.Object) error {
				refs(*v, -1, "nametree "+name+" key "+k+fmt.Sprintf(" (%T)", *v))
				return nil
			})
		}
		var buf bytes.Buffer
		fmt.Println("try", try, "write:", api.WriteContext(dst, &buf))
	}
}
