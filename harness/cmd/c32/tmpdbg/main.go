package main

import (
	"bytes"
	"fmt"
	"os"

	"github.com/pdfcpu/pdfcpu/pkg/api"
	"github.com/pdfcpu/pdfcpu/pkg/pdfcpu"
	"github.com/pdfcpu/pdfcpu/pkg/pdfcpu/model"
	"github.com/pdfcpu/pdfcpu/pkg/pdfcpu/types"
)

func read(f string) *model.Context {
	conf := model.NewDefaultConfiguration()
	conf.Cmd = model.MERGECREATE
	conf.ValidationMode = model.ValidationRelaxed
	fh, _ := os.Open(f)
	ctx, err := api.ReadAndValidate(fh, conf)
	if err != nil {
		panic(err)
	}
	return ctx
}

func main() {
	api.DisableConfigDir()
	for try := 0; try < 10; try++ {
		dst, src := read(os.Args[1]), read(os.Args[2])
		srcKinds := map[string]int{}
		for _, e := range src.Table {
			if e != nil && !e.Free {
				srcKinds[fmt.Sprintf("%T", e.Object)]++
			}
		}
		if err := pdfcpu.MergeXRefTables("x", src, dst, false, false); err != nil {
			fmt.Println("merge:", err)
			continue
		}
		// walk from root
		seen := map[int]bool{}
		var walk func(o types.Object, path string) bool
		walk = func(o types.Object, path string) bool {
			switch v := o.(type) {
			case types.IndirectRef:
				n := v.ObjectNumber.Value()
				if seen[n] {
					return false
				}
				seen[n] = true
				e, ok := dst.FindTableEntryLight(n)
				if !ok || e.Free {
					return false
				}
				switch e.Object.(type) {
				case types.ObjectStreamDict, types.XRefStreamDict:
					fmt.Printf("try %d: %s -> obj %d is %T   (src kinds %v)\n", try, path, n, e.Object, srcKinds)
					return true
				}
				ob, err := dst.Dereference(v)
				if err != nil {
					fmt.Println("deref", n, err)
					return false
				}
				return walk(ob, fmt.Sprintf("%s(%d)", path, n))
			case types.Dict:
				for k, x := range v {
					if walk(x, path+"/"+k) {
						return true
					}
				}
			case types.StreamDict:
				for k, x := range v.Dict {
					if walk(x, path+"/"+k) {
						return true
					}
				}
			case types.Array:
				for i, x := range v {
					if walk(x, fmt.Sprintf("%s[%d]", path, i)) {
						return true
					}
				}
			}
			return false
		}
		if !walk(*dst.Root, "Root") {
			fmt.Println("try", try, ": clean after merge")
		}
		if os.Getenv("NOOPT") == "" {
			if err := api.OptimizeContext(dst); err != nil {
				fmt.Println("optimize:", err)
			}
			seen = map[int]bool{}
			if !walk(*dst.Root, "Root") {
				fmt.Println("try", try, ": clean after optimize")
			}
		}
		var buf bytes.Buffer
		fmt.Println("try", try, "write:", api.WriteContext(dst, &buf))
	}
}
