package main

import (
	"math"
	"strings"

	"github.com/pdfcpu/pdfcpu/pkg/pdfcpu/types"
)

type rsrc interface {
	IntN(n int) int
	Uint64() uint64
	Float64() float64
}

// value kinds, in matrix order
const (
	kNull = iota
	kBool
	kInt
	kReal
	kName
	kStr
	kHex
	kRef
	kArray
	kDict
	nKinds
)

var kindNames = [nKinds]string{"null", "bool", "int", "real", "name", "str", "hex", "ref", "array", "dict"}

func kindOf(o types.Object) int {
	switch o.(type) {
	case nil:
		return kNull
	case types.Boolean:
		return kBool
	case types.Integer:
		return kInt
	case types.Float:
		return kReal
	case types.Name:
		return kName
	case types.StringLiteral:
		return kStr
	case types.HexLiteral:
		return kHex
	case types.IndirectRef:
		return kRef
	case types.Array:
		return kArray
	case types.Dict:
		return kDict
	}
	return -1
}

// lit builds a StringLiteral the way pdfcpu itself does for raw bytes: the escaped form.
func lit(raw string) types.StringLiteral {
	p, err := types.Escape(raw)
	if err != nil {
		panic("types.Escape: " + err.Error())
	}
	return types.StringLiteral(*p)
}

var intBoundary = []int64{0, 1, -1, 2, 9, 10, 1 << 31, -(1 << 31), 1<<31 - 1, 1<<31 + 1, 1 << 32, math.MaxInt64, -math.MaxInt64, math.MinInt64, 1 << 53, 65535, 65536, -65536}

func randInt(r rsrc) types.Integer {
	switch r.IntN(4) {
	case 0:
		return types.Integer(intBoundary[r.IntN(len(intBoundary))])
	case 1:
		return types.Integer(r.IntN(2000) - 1000)
	default:
		v := int64(r.Uint64() >> uint(r.IntN(64)))
		if r.IntN(2) == 0 {
			v = -v
		}
		return types.Integer(v)
	}
}

var realBoundary = []float64{0, math.Copysign(0, -1), 1e-13, 4.9e-13, 5e-13, 5.1e-13, 1e-12, 1.5e-12, 0.1, 0.5, 1, 1.5, 0.999999999999, 0.9999999999995,
	72, 595.276, 841.89, 1e15, 1 << 53, 9.2e18, 9.3e18, 1e19, 1e20, 1e21, 1e22, 1e100, 1e300, math.MaxFloat64, math.SmallestNonzeroFloat64, 1e-310, 2.2250738585072014e-308,
	1e-5, 123456.789012345678, 1.0 / 3}

func randReal(r rsrc) types.Float {
	var f float64
	switch r.IntN(6) {
	case 0:
		f = realBoundary[r.IntN(len(realBoundary))]
	case 1: // coordinate-like
		f = math.Round(r.Float64()*1e6) / 1e3
	case 2: // integer-valued
		f = float64(r.IntN(100000))
	case 3: // on a rounding boundary of the 12th fractional digit
		f = (float64(r.IntN(1000)) + 0.5) * 1e-12
		if r.IntN(2) == 0 {
			f += float64(r.IntN(1000))
		}
	default: // any magnitude 1e-13 .. 1e300
		f = (1 + 9*r.Float64()) * math.Pow(10, float64(r.IntN(314)-13))
	}
	if r.IntN(3) == 0 {
		f = -f
	}
	if math.IsInf(f, 0) || math.IsNaN(f) {
		f = 1
	}
	return types.Float(f)
}

var nameHot = []byte("()<>[]{}/%# \t\r\n\f#A1+-.R\x7f\x80\xa0\x85\xff\xfe!~")

var nameWords = []string{"", "A", "Type", "true", "false", "null", "R", "obj", "endobj", "stream", "1", "-1", "1.5", "#20", "A#", "#", "##", "a b", "a/b", "(", ")", "<<", ">>", "[", "]", "%c", "\xc3\xa4", "\xe2\x82\xac"}

func randName(r rsrc) types.Name {
	switch r.IntN(5) {
	case 0:
		return types.Name(nameWords[r.IntN(len(nameWords))])
	case 1:
		return types.Name([]byte{byte(1 + r.IntN(255))})
	default:
		n := 1 + r.IntN(8)
		b := make([]byte, n)
		for i := range b {
			switch r.IntN(3) {
			case 0:
				b[i] = byte(1 + r.IntN(255))
			case 1:
				b[i] = nameHot[r.IntN(len(nameHot))]
			default:
				b[i] = byte('a' + r.IntN(26))
			}
		}
		return types.Name(b)
	}
}

var strHot = []byte("()\\()\\\r\n\t\b\f01234567nrtbf%<>[]/# \x00\x80\xff\xfe")

func randRaw(r rsrc, max int) string {
	n := r.IntN(max + 1)
	b := make([]byte, n)
	for i := range b {
		switch r.IntN(4) {
		case 0:
			b[i] = byte(r.IntN(256))
		case 1:
			b[i] = byte('a' + r.IntN(26))
		default:
			b[i] = strHot[r.IntN(len(strHot))]
		}
	}
	if r.IntN(40) == 0 {
		return string(b) + []string{"endobj", "stream", "endstream", "obj", ">>", "\xfe\xff\x00A"}[r.IntN(6)]
	}
	return string(b)
}

// parserFormBody builds a literal-string body as pdfcpu's parser leaves it in a StringLiteral
// when reading a file: valid ISO 32000-1 7.3.4.2 syntax that is NOT the output of Escape
// (balanced unescaped parentheses, octal escapes, line continuations, raw end-of-lines).
func parserFormBody(r rsrc, depth int) string {
	var sb strings.Builder
	n := r.IntN(6)
	for i := 0; i < n; i++ {
		switch r.IntN(9) {
		case 0:
			if depth < 3 {
				sb.WriteString("(" + parserFormBody(r, depth+1) + ")")
			}
		case 1:
			sb.WriteString([]string{"\\n", "\\r", "\\t", "\\b", "\\f", "\\(", "\\)", "\\\\"}[r.IntN(8)])
		case 2:
			sb.WriteString("\\" + []string{"0", "7", "53", "053", "101", "377", "400", "777", "1018"}[r.IntN(9)])
		case 3:
			sb.WriteString([]string{"\\\n", "\\\r", "\\\r\n"}[r.IntN(3)])
		case 4:
			sb.WriteString([]string{"\n", "\r", "\r\n"}[r.IntN(3)])
		case 5:
			sb.WriteString("\\" + string([]byte{"xqz -%"[r.IntN(6)]}))
		default:
			const plain = "abcXYZ 09%<>[]/#\x80\xff"
			sb.WriteByte(plain[r.IntN(len(plain))])
		}
	}
	return sb.String()
}

func randStr(r rsrc) types.StringLiteral {
	if r.IntN(10) == 0 {
		return types.StringLiteral(parserFormBody(r, 0))
	}
	return lit(randRaw(r, 12))
}

func randHex(r rsrc) types.HexLiteral {
	n := r.IntN(9)
	b := make([]byte, n)
	for i := range b {
		b[i] = byte(r.IntN(256))
	}
	h := types.NewHexLiteral(b)
	if r.IntN(3) == 0 {
		h = types.HexLiteral(strings.ToUpper(string(h)))
	}
	return h
}

func randRef(r rsrc) types.IndirectRef {
	objs := []int{0, 1, 2, 10, 99, 1 << 31, math.MaxInt64, 8388607}
	gens := []int{0, 0, 0, 1, 65535}
	o, g := objs[r.IntN(len(objs))], gens[r.IntN(len(gens))]
	if r.IntN(2) == 0 {
		o = r.IntN(100000)
	}
	return *types.NewIndirectRef(o, g)
}

func randScalar(r rsrc, k int) types.Object {
	switch k {
	case kNull:
		return nil
	case kBool:
		return types.Boolean(r.IntN(2) == 0)
	case kInt:
		return randInt(r)
	case kReal:
		return randReal(r)
	case kName:
		return randName(r)
	case kStr:
		return randStr(r)
	case kHex:
		return randHex(r)
	default:
		return randRef(r)
	}
}

// randTree builds a tree whose leaves sit at nesting level <= maxLevel (level = number of
// enclosing containers).
func randTree(r rsrc, level, maxLevel, fan int) types.Object {
	k := r.IntN(nKinds)
	if level >= maxLevel && k >= kArray {
		k = r.IntN(kArray)
	}
	switch k {
	case kArray:
		n := r.IntN(fan + 1)
		a := make(types.Array, 0, n)
		for i := 0; i < n; i++ {
			a = append(a, randTree(r, level+1, maxLevel, fan))
		}
		return a
	case kDict:
		n := r.IntN(fan + 1)
		d := types.Dict{}
		for i := 0; i < n; i++ {
			d[string(randName(r))] = randTree(r, level+1, maxLevel, fan)
		}
		return d
	}
	return randScalar(r, k)
}

// chain builds `depth` nested containers around leaf (kinds: 0 arrays, 1 dicts, 2 alternating,
// 3 random), optionally with siblings next to the nested child.
func chain(r rsrc, depth, mode int, leaf types.Object) types.Object {
	o := leaf
	for i := 0; i < depth; i++ {
		useArr := mode == 0 || (mode == 2 && i%2 == 0) || (mode == 3 && r.IntN(2) == 0)
		if useArr {
			a := types.Array{}
			if r.IntN(3) == 0 {
				a = append(a, randScalar(r, r.IntN(kArray)))
			}
			a = append(a, o)
			if r.IntN(3) == 0 {
				a = append(a, randScalar(r, r.IntN(kArray)))
			}
			o = a
		} else {
			d := types.Dict{"K": o}
			if r.IntN(3) == 0 {
				d[string(randName(r))] = randScalar(r, r.IntN(kArray))
			}
			o = d
		}
	}
	return o
}

// representatives of every kind for the exhaustive neighbour matrix.
func representatives() []types.Object {
	return []types.Object{
		nil,
		types.Boolean(true), types.Boolean(false),
		types.Integer(0), types.Integer(7), types.Integer(-7), types.Integer(math.MaxInt64), types.Integer(math.MinInt64),
		types.Float(0.5), types.Float(-0.5), types.Float(12345.678), types.Float(math.Copysign(0, -1)), types.Float(1e-13), types.Float(3),
		types.Name(""), types.Name("A"), types.Name("A B"), types.Name("#"), types.Name("a/b"), types.Name("\xff"), types.Name("true"), types.Name("R"), types.Name("1"),
		lit(""), lit("a"), lit("("), lit(")"), lit("\\"), lit("a\r\nb"),
		types.HexLiteral(""), types.HexLiteral("ab"), types.HexLiteral("ABCD"),
		*types.NewIndirectRef(1, 0), *types.NewIndirectRef(12, 65535),
		types.Array{}, types.Array{types.Integer(1)}, types.Array{types.Name("A")},
		types.Dict{}, types.Dict{"A": types.Integer(1)}, types.Dict{"": types.Name("")},
	}
}

var keyReps = []string{"", "K", "K 1", "#", "\xff", "a(b", "true", "1", "A/B", "<<", "K\x80"}

// clone is a deep copy (trees are shared between the matrix builders).
func clone(o types.Object) types.Object {
	switch v := o.(type) {
	case types.Array:
		a := make(types.Array, len(v))
		for i := range v {
			a[i] = clone(v[i])
		}
		return a
	case types.Dict:
		d := types.Dict{}
		for k, x := range v {
			d[k] = clone(x)
		}
		return d
	}
	return o
}
