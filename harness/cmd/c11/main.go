// C11 — any PDF object pdfcpu writes parses back to the same object.
//
// Oracle: for an object tree x and each of the two writers (Object.PDFString and the
// object-writer append path appendPDFObject via the verif hook), the written text is parsed
// with model.ParseObjectContext(ctx, &text, 0, limit) — the call the reader makes for an
// indirect object's body — and the result must be equivalent to x:
// reals equal after rounding to 12 fractional digits, dict entries with null value absent,
// string and hex literals equal in kind and in the bytes they denote (decoded by the worker's
// own lexers), everything else structurally equal; nothing of the text may be left over.
package main

import (
	"bytes"
	"context"
	"encoding/hex"
	"fmt"
	"math"
	"math/big"
	"runtime"
	"sort"
	"strconv"
	"strings"
	"sync"
	"sync/atomic"

	"github.com/pdfcpu/pdfcpu/pkg/pdfcpu"
	"github.com/pdfcpu/pdfcpu/pkg/pdfcpu/model"
	"github.com/pdfcpu/pdfcpu/pkg/pdfcpu/types"
	"verif/harness/internal/pdflex"
	"verif/harness/internal/vk"
)

const (
	wPDFString = 0
	wAppend    = 1
	maxKeys    = 30
)

var writerNames = [2]string{"PDFString", "appendPDFObject"}

var depthLimit = model.DefaultResourceLimits().MaxRecursionDepth

func innermostPdfcpuFrame() string {
	pcs := make([]uintptr, 64)
	n := runtime.Callers(3, pcs)
	fr := runtime.CallersFrames(pcs[:n])
	for {
		f, more := fr.Next()
		if strings.Contains(f.Function, "github.com/pdfcpu/pdfcpu/") {
			return f.Function[strings.LastIndex(f.Function, "/")+1:]
		}
		if !more {
			return "unknown"
		}
	}
}

func write(w int, o types.Object) (text string, kind, detail string) {
	defer func() {
		if r := recover(); r != nil {
			kind, detail = "write-panic/"+innermostPdfcpuFrame(), fmt.Sprint(r)
		}
	}()
	if w == wPDFString {
		return o.PDFString(), "", ""
	}
	b, err := pdfcpu.VerifAppendPDFObject(nil, o)
	if err != nil {
		return "", "write-error", err.Error()
	}
	return string(b), "", ""
}

func parse(text string) (o types.Object, rest string, kind, detail string) {
	defer func() {
		if r := recover(); r != nil {
			kind, detail = "parse-panic/"+innermostPdfcpuFrame(), fmt.Sprint(r)
		}
	}()
	s := text
	o, err := model.ParseObjectContext(context.Background(), &s, 0, depthLimit)
	if err != nil {
		return nil, "", "parse-error", err.Error()
	}
	return o, s, "", ""
}

// ---- equivalence

var pow12 = new(big.Int).Exp(big.NewInt(10), big.NewInt(12), nil)

// round12 returns round(x * 10^12) as an integer; ties to even or away from zero.
func round12(x float64, tiesAway bool) *big.Int {
	r := new(big.Rat).SetFloat64(x)
	r.Mul(r, new(big.Rat).SetInt(pow12))
	num, den := new(big.Int).Set(r.Num()), r.Denom()
	neg := num.Sign() < 0
	num.Abs(num)
	q, rem := new(big.Int).QuoRem(num, den, new(big.Int))
	twice := new(big.Int).Lsh(rem, 1)
	switch c := twice.Cmp(den); {
	case c > 0:
		q.Add(q, big.NewInt(1))
	case c == 0:
		if tiesAway || q.Bit(0) == 1 {
			q.Add(q, big.NewInt(1))
		}
	}
	if neg {
		q.Neg(q)
	}
	return q
}

func realsEquivalent(a, b float64) bool {
	if a == b {
		return true
	}
	if math.IsNaN(b) || math.IsInf(b, 0) {
		return false
	}
	if math.Abs(a-b) > 1e-11 && math.Abs(a-b) > 1e-3*math.Abs(a) {
		return false // far apart: no need for exact arithmetic
	}
	return round12(a, false).Cmp(round12(b, false)) == 0 || round12(a, true).Cmp(round12(b, true)) == 0
}

func litBytes(v types.StringLiteral) ([]byte, bool) {
	text := "(" + string(v) + ")"
	r, err := pdflex.LiteralString(text)
	if err != nil || r.Consumed != len(text) {
		return nil, false
	}
	return r.Bytes, true
}

func short(s string) string {
	if len(s) > 60 {
		return s[:60] + "…"
	}
	return s
}

// diff says where (path, innermost segment first) and how a tree differs from what was read back.
type diff struct {
	msg  string
	path []string
	node types.Object // the original subtree that was not read back
}

func (d *diff) String() string {
	var sb strings.Builder
	sb.WriteString("$")
	for i := len(d.path) - 1; i >= 0; i-- {
		sb.WriteString(d.path[i])
	}
	return sb.String() + ": " + d.msg
}

// equiv returns nil if got is equivalent to orig.
func equiv(orig, got types.Object) *diff {
	bad := func(format string, a ...any) *diff { return &diff{msg: fmt.Sprintf(format, a...), node: orig} }
	switch o := orig.(type) {
	case nil:
		if got != nil {
			return bad("null read back as %T %v", got, got)
		}
	case types.Boolean:
		if g, ok := got.(types.Boolean); !ok || g != o {
			return bad("boolean %v read back as %T %v", o, got, got)
		}
	case types.Integer:
		if g, ok := got.(types.Integer); !ok || g != o {
			return bad("integer %d read back as %T %v", o, got, got)
		}
	case types.Float:
		switch g := got.(type) {
		case types.Float:
			if !realsEquivalent(float64(o), float64(g)) {
				return bad("real %g read back as real %g", float64(o), float64(g))
			}
		case types.Integer: // weaker than structural equality: a numerically equal integer is accepted
			if !realsEquivalent(float64(o), float64(g)) || math.Abs(float64(o)) > 1<<53 {
				return bad("real %g read back as integer %d", float64(o), g)
			}
		default:
			return bad("real %g read back as %T %v", float64(o), got, got)
		}
	case types.Name:
		if g, ok := got.(types.Name); !ok || g != o {
			return bad("name %q read back as %T %q", string(o), got, fmt.Sprint(got))
		}
	case types.StringLiteral:
		g, ok := got.(types.StringLiteral)
		if !ok {
			return bad("string literal (%s) read back as %T %v", short(string(o)), got, got)
		}
		ob, ok1 := litBytes(o)
		gb, ok2 := litBytes(g)
		if !ok1 {
			panic("generator produced an invalid literal string body: " + string(o))
		}
		if !ok2 || !bytes.Equal(ob, gb) {
			return bad("string literal (%s) = bytes %x read back as (%s) = bytes %x", short(string(o)), ob, short(string(g)), gb)
		}
	case types.HexLiteral:
		g, ok := got.(types.HexLiteral)
		if !ok {
			return bad("hex literal <%s> read back as %T %v", o, got, got)
		}
		ob, err1 := pdflex.HexBody(string(o))
		gb, err2 := pdflex.HexBody(string(g))
		if err1 != nil {
			panic("generator produced an invalid hex string: " + string(o))
		}
		if err2 != nil || !bytes.Equal(ob, gb) {
			return bad("hex literal <%s> read back as <%s>", o, g)
		}
	case types.IndirectRef:
		if g, ok := got.(types.IndirectRef); !ok || g != o {
			return bad("reference %d %d R read back as %T %v", o.ObjectNumber, o.GenerationNumber, got, got)
		}
	case types.Array:
		g, ok := got.(types.Array)
		if !ok {
			return bad("array read back as %T", got)
		}
		if len(g) != len(o) {
			return bad("array of %d elements read back with %d elements", len(o), len(g))
		}
		for i := range o {
			if d := equiv(o[i], g[i]); d != nil {
				d.path = append(d.path, fmt.Sprintf("[%d]", i))
				return d
			}
		}
	case types.Dict:
		g, ok := got.(types.Dict)
		if !ok {
			return bad("dict read back as %T", got)
		}
		n := 0
		for k, v := range o {
			if v == nil {
				if gv, found := g[k]; found {
					return bad("entry %q with null value read back as %v", k, gv)
				}
				continue
			}
			n++
			gv, found := g[k]
			if !found {
				return bad("entry %q is missing after reading back (keys read: %q)", k, keysOf(g))
			}
			if d := equiv(v, gv); d != nil {
				d.path = append(d.path, fmt.Sprintf("/%q", k))
				return d
			}
		}
		if len(g) != n {
			return bad("dict with %d non-null entries read back with %d entries (keys read: %q)", n, len(g), keysOf(g))
		}
	default:
		panic(fmt.Sprintf("generator produced %T", orig))
	}
	return nil
}

func keysOf(d types.Dict) []string {
	ks := make([]string, 0, len(d))
	for k := range d {
		ks = append(ks, k)
	}
	sort.Strings(ks)
	return ks
}

// evaluate: kind "" = the property holds for (writer, tree). For kind "mismatch", node is the
// original subtree that was not read back.
func evaluateNode(w int, o types.Object) (kind, detail, text string, node types.Object) {
	if o == nil && w == wPDFString {
		return "", "", "", nil // a nil interface has no PDFString method
	}
	text, kind, detail = write(w, o)
	if kind != "" {
		return
	}
	got, rest, kind, detail := parse(text)
	if kind != "" {
		return kind, detail, text, nil
	}
	if d := equiv(o, got); d != nil {
		return "mismatch", d.String(), text, d.node
	}
	if strings.TrimLeft(rest, " \t\r\n\f\x00") != "" {
		return "text-left-over", fmt.Sprintf("parser stopped before the end of the text; left over: %q", short(rest)), text, nil
	}
	return "", "", text, nil
}

func evaluate(w int, o types.Object) (kind, detail, text string) {
	kind, detail, text, _ = evaluateNode(w, o)
	return
}

// ---- shrinking and signatures

func litOf(raw []byte) types.StringLiteral { return lit(string(raw)) }

// candidates returns simpler one-step variants of o.
func candidates(o types.Object) []types.Object {
	var out []types.Object
	switch v := o.(type) {
	case types.Integer:
		if v != 0 {
			out = append(out, types.Integer(0), types.Integer(1))
			if v < 0 && v != math.MinInt64 {
				out = append(out, -v)
			}
			if v < 0 {
				out = append(out, types.Integer(-1))
			}
			a := uint64(v)
			if v < 0 {
				a = uint64(-(v + 1)) + 1
			}
			p := uint64(1) << (63 - uint(bitsLeadingZeros(a)))
			if p != a {
				if v < 0 {
					out = append(out, types.Integer(-int64(p-1)-1))
				} else {
					out = append(out, types.Integer(int64(p)))
				}
			} else if p > 1 {
				if v < 0 {
					out = append(out, types.Integer(-int64(p/2)))
				} else {
					out = append(out, types.Integer(int64(p/2)))
				}
			}
		}
	case types.Float:
		f := float64(v)
		if f != 0 || math.Signbit(f) {
			out = append(out, types.Float(0), types.Float(1), types.Float(0.5))
			if f < 0 || math.Signbit(f) {
				out = append(out, types.Float(-f), types.Float(-1))
			}
			// ladder of one-significant-digit values towards 1: d*10^e -> (d-1)*10^e -> 9*10^(e-1) ...
			if a := math.Abs(f); a != 0 && !math.IsInf(a, 0) {
				var d, e int
				fmt.Sscanf(strconv.FormatFloat(a, 'e', 0, 64), "%de%d", &d, &e)
				mk := func(d, e int) float64 { x, _ := strconv.ParseFloat(fmt.Sprintf("%de%d", d, e), 64); return x }
				if e/2 != e && e/2 != 0 { // halve the exponent first: long ladders stay within the budget
					out = append(out, types.Float(math.Copysign(mk(1, e/2), f)))
				}
				if one := mk(d, e); one != a && one != 0 && !math.IsInf(one, 0) {
					out = append(out, types.Float(math.Copysign(one, f)))
				} else if a >= 10 {
					if d > 1 {
						out = append(out, types.Float(math.Copysign(mk(d-1, e), f)))
					} else {
						out = append(out, types.Float(math.Copysign(mk(9, e-1), f)))
					}
				} else if a < 0.1 {
					if d < 9 {
						out = append(out, types.Float(math.Copysign(mk(d+1, e), f)))
					} else {
						out = append(out, types.Float(math.Copysign(mk(1, e+1), f)))
					}
				}
			}
		}
	case types.Name:
		for i := 0; i < len(v); i++ {
			out = append(out, types.Name(string(v[:i])+string(v[i+1:])))
		}
		for i := 0; i < len(v); i++ {
			if v[i] != 'A' {
				out = append(out, types.Name(string(v[:i])+"A"+string(v[i+1:])))
			}
		}
	case types.StringLiteral:
		raw, ok := litBytes(v)
		if !ok {
			break
		}
		if n := litOf(raw); n != v {
			out = append(out, n)
			break
		}
		for i := 0; i < len(raw); i++ {
			out = append(out, litOf(append(append([]byte(nil), raw[:i]...), raw[i+1:]...)))
		}
		for i := 0; i < len(raw); i++ {
			if raw[i] != 'a' {
				x := append([]byte(nil), raw...)
				x[i] = 'a'
				out = append(out, litOf(x))
			}
		}
	case types.HexLiteral:
		for i := 0; i+2 <= len(v); i += 2 {
			out = append(out, types.HexLiteral(string(v[:i])+string(v[i+2:])))
		}
		if l := strings.ToLower(string(v)); l != string(v) {
			out = append(out, types.HexLiteral(l))
		}
	case types.IndirectRef:
		if v.ObjectNumber != 1 || v.GenerationNumber != 0 {
			out = append(out, *types.NewIndirectRef(1, 0))
		}
	case types.Array:
		for i := range v {
			out = append(out, append(append(types.Array{}, v[:i]...), v[i+1:]...))
		}
		for i := range v {
			for _, c := range candidates(v[i]) {
				a := append(types.Array{}, v...)
				a[i] = c
				out = append(out, a)
			}
		}
	case types.Dict:
		ks := keysOf(v)
		for _, k := range ks {
			d := types.Dict{}
			for _, k2 := range ks {
				if k2 != k {
					d[k2] = v[k2]
				}
			}
			out = append(out, d)
		}
		for _, k := range ks {
			for _, c := range candidates(types.Name(k)) {
				nk := string(c.(types.Name))
				if _, clash := v[nk]; clash {
					continue
				}
				d := types.Dict{}
				for _, k2 := range ks {
					if k2 != k {
						d[k2] = v[k2]
					}
				}
				d[nk] = v[k]
				out = append(out, d)
			}
			for _, c := range candidates(v[k]) {
				d := types.Dict{}
				for _, k2 := range ks {
					d[k2] = v[k2]
				}
				d[k] = c
				out = append(out, d)
			}
		}
	}
	return out
}

func bitsLeadingZeros(a uint64) int {
	n := 0
	for i := 63; i >= 0 && a&(1<<uint(i)) == 0; i-- {
		n++
	}
	return n
}

func children(o types.Object) []types.Object {
	switch v := o.(type) {
	case types.Array:
		return v
	case types.Dict:
		var out []types.Object
		for _, k := range keysOf(v) {
			out = append(out, v[k])
		}
		return out
	}
	return nil
}

// descend replaces o by a failing child as long as there is one (cheap, also for deep chains).
func descend(o types.Object, fails func(types.Object) bool) types.Object {
	for progress := true; progress; {
		progress = false
		for _, c := range children(o) {
			if fails(c) {
				o, progress = c, true
				break
			}
		}
	}
	return o
}

// shrink: descend, then try the one-step simplifications of what is left, repeatedly.
func shrink(o types.Object, fails func(types.Object) bool) types.Object {
	budget := 5000
	for progress := true; progress && budget > 0; {
		o = descend(o, fails)
		progress = false
		for _, c := range candidates(o) {
			budget--
			if fails(c) {
				o, progress = c, true
				break
			}
			if budget <= 0 {
				break
			}
		}
	}
	return o
}

func specials(b string, special func(byte) bool) string {
	var set [256]bool
	var out []byte
	for i := 0; i < len(b); i++ {
		if special(b[i]) && !set[b[i]] {
			set[b[i]] = true
			out = append(out, b[i])
		}
	}
	sort.Slice(out, func(i, j int) bool { return out[i] < out[j] })
	if len(out) > 6 {
		out = out[:6]
	}
	return hex.EncodeToString(out)
}

// bucketSig is a coarse class of a (descended) failing tree: kinds, with scalars reduced to the
// features defects depend on (magnitude, sign, special bytes). Failing trees of a class already
// shrunk once are attributed to that result instead of being shrunk again.
func bucketSig(o types.Object) string {
	switch v := o.(type) {
	case types.Integer:
		a := uint64(v)
		if v < 0 {
			a = uint64(-(v + 1))
		}
		return fmt.Sprintf("int(%d,%v)", 64-bitsLeadingZeros(a), v < 0)
	case types.Float:
		f := float64(v)
		if f == 0 {
			return fmt.Sprintf("real(0,%v)", math.Signbit(f))
		}
		return fmt.Sprintf("real(e%d,%v)", int(math.Floor(math.Log10(math.Abs(f)))), f < 0)
	case types.Name:
		return fmt.Sprintf("name(%v,%s)", len(v) == 0, specials(string(v), func(c byte) bool { return c < '!' || c > '~' || pdflex.IsDelimiter(c) || c == '#' }))
	case types.StringLiteral:
		raw, _ := litBytes(v)
		return fmt.Sprintf("str(%v,%v,%s)", len(raw) == 0, litOf(raw) != v, specials(string(raw), func(c byte) bool { return c < ' ' || c > '~' || c == '(' || c == ')' || c == '\\' || c == '%' }))
	case types.HexLiteral:
		return fmt.Sprintf("hex(%v,%v)", len(v) == 0, strings.ToLower(string(v)) != string(v))
	case types.IndirectRef:
		return fmt.Sprintf("ref(%v,%v)", v.ObjectNumber > 1<<31, v.GenerationNumber > 0)
	case types.Array:
		p := make([]string, len(v))
		for i := range v {
			p[i] = bucketSig(v[i])
		}
		return "[" + strings.Join(p, ",") + "]"
	case types.Dict:
		var p []string
		for _, k := range keysOf(v) {
			p = append(p, bucketSig(types.Name(k))+":"+bucketSig(v[k]))
		}
		return "<<" + strings.Join(p, ",") + ">>"
	}
	return sig(o)
}

func hexOrLen(b string) string {
	if len(b) <= 4 {
		return hex.EncodeToString([]byte(b))
	}
	return fmt.Sprintf("len%d", len(b))
}

func sig(o types.Object) string {
	switch v := o.(type) {
	case nil:
		return "null"
	case types.Boolean:
		return "bool"
	case types.Integer:
		if v > -1000 && v < 1000 {
			return fmt.Sprintf("int(%d)", v)
		}
		return fmt.Sprintf("int(%.3g)", float64(v))
	case types.Float:
		if math.Signbit(float64(v)) && v == 0 {
			return "real(-0)"
		}
		return fmt.Sprintf("real(%.4g)", float64(v))
	case types.Name:
		return "name(" + hexOrLen(string(v)) + ")"
	case types.StringLiteral:
		raw, _ := litBytes(v)
		if litOf(raw) != v {
			return "rawstr(" + hexOrLen(string(v)) + ")"
		}
		return "str(" + hexOrLen(string(raw)) + ")"
	case types.HexLiteral:
		if len(v) <= 8 {
			return "hex(" + string(v) + ")"
		}
		return fmt.Sprintf("hex(len%d)", len(v))
	case types.IndirectRef:
		return "ref"
	case types.Array:
		p := make([]string, len(v))
		for i := range v {
			p[i] = sig(v[i])
		}
		return "[" + strings.Join(p, ",") + "]"
	case types.Dict:
		var p []string
		for _, k := range keysOf(v) {
			p = append(p, hexOrLen(k)+":"+sig(v[k]))
		}
		return "<<" + strings.Join(p, ",") + ">>"
	}
	return "?"
}

// ---- bookkeeping

type stats struct {
	trees, nontrivial, nodes, maxLevel int64
	leafKinds                          [nKinds]int64
	arrAdj                             [nKinds][nKinds]int64 // kinds adjacent in arrays
	keyVal                             [nKinds]int64         // kind of a dict value (after its key)
	valNextKey                         [nKinds]int64         // kind of a dict value that is followed by another key
	rawStrings, failing                int64
}

func (s *stats) walk(o types.Object, level int64) (nontrivial bool) {
	s.nodes++
	if level > s.maxLevel {
		s.maxLevel = level
	}
	k := kindOf(o)
	s.leafKinds[k]++
	switch v := o.(type) {
	case types.Array:
		for i, c := range v {
			if i > 0 {
				s.arrAdj[kindOf(v[i-1])][kindOf(c)]++
			}
			s.walk(c, level+1)
		}
		return len(v) > 0
	case types.Dict:
		ks := keysOf(v)
		for i, key := range ks {
			s.keyVal[kindOf(v[key])]++
			if i+1 < len(ks) {
				s.valNextKey[kindOf(v[key])]++
			}
			s.walk(v[key], level+1)
		}
		return len(v) > 0
	case types.Name:
		for i := 0; i < len(v); i++ {
			if v[i] < '!' || v[i] > '~' || pdflex.IsDelimiter(v[i]) || v[i] == '#' {
				return true
			}
		}
		return len(v) == 0
	case types.StringLiteral:
		raw, _ := litBytes(v)
		if litOf(raw) != v {
			s.rawStrings++
		}
		return string(raw) != string(v)
	case types.Float:
		return true
	}
	return false
}

func (s *stats) merge(d *stats) {
	atomic.AddInt64(&d.trees, s.trees)
	atomic.AddInt64(&d.nontrivial, s.nontrivial)
	atomic.AddInt64(&d.nodes, s.nodes)
	atomic.AddInt64(&d.rawStrings, s.rawStrings)
	atomic.AddInt64(&d.failing, s.failing)
	for {
		old := atomic.LoadInt64(&d.maxLevel)
		if s.maxLevel <= old || atomic.CompareAndSwapInt64(&d.maxLevel, old, s.maxLevel) {
			break
		}
	}
	for i := 0; i < nKinds; i++ {
		atomic.AddInt64(&d.leafKinds[i], s.leafKinds[i])
		atomic.AddInt64(&d.keyVal[i], s.keyVal[i])
		atomic.AddInt64(&d.valNextKey[i], s.valNextKey[i])
		for j := 0; j < nKinds; j++ {
			atomic.AddInt64(&d.arrAdj[i][j], s.arrAdj[i][j])
		}
	}
}

type replayCase struct {
	Writer  string `json:"writer"`
	Text    string `json:"written_text"`
	Minimal string `json:"minimal_written_text"`
	MinSig  string `json:"minimal_tree"`
	Detail  string `json:"detail"`
}

var reportMu sync.Mutex

func checkTree(t *vk.T, o types.Object, st *stats) {
	st.trees++
	if st.walk(o, 0) {
		st.nontrivial++
	}
	var kinds, details, texts [2]string
	var nodes [2]types.Object
	for w := 0; w < 2; w++ {
		kinds[w], details[w], texts[w], nodes[w] = evaluateNode(w, o)
	}
	if kinds[0] == "" && kinds[1] == "" {
		return
	}
	st.failing++
	type job struct {
		label   string
		writers []int
	}
	var jobs []job
	if kinds[0] == kinds[1] {
		jobs = []job{{"both-writers", []int{0, 1}}}
	} else {
		for w := 0; w < 2; w++ {
			if kinds[w] != "" {
				jobs = append(jobs, job{writerNames[w], []int{w}})
			}
		}
	}
	for _, j := range jobs {
		w0 := j.writers[0]
		kind := kinds[w0]
		fails := func(c types.Object) bool {
			for _, w := range j.writers {
				if k, _, _ := evaluate(w, c); k != kind {
					return false
				}
			}
			return true
		}
		start := o
		if n := nodes[w0]; kind == "mismatch" && fails(n) {
			start = n // the subtree that was not read back fails on its own: no need to walk down to it
		}
		d := descend(start, fails)
		class := j.label + "/" + kind + "/" + bucketSig(d)
		reportMu.Lock()
		if key, ok := shrunk[class]; ok {
			reportMu.Unlock()
			if key != "" {
				t.Violate(key, "", nil) // same class as an already minimised failure: counted under its key
			}
			continue
		}
		if t.Violations() >= maxKeys {
			shrunk[class] = ""
			reportMu.Unlock()
			t.Count("failure_classes_beyond_key_cap", 1)
			continue
		}
		m := shrink(clone(d), fails)
		_, md, mt := evaluate(w0, m)
		key := fmt.Sprintf("%s/%s/%s", j.label, kind, sig(m))
		shrunk[class] = key
		t.Count("failure_classes_minimised", 1)
		t.Violate(key, fmt.Sprintf("%s: the written text %q %s: %s (found with %q: %s)", j.label, mt, kindText(kind), md, short(texts[w0]), details[w0]),
			replayCase{Writer: j.label, Text: texts[w0], Minimal: mt, MinSig: sig(m), Detail: md})
		reportMu.Unlock()
	}
}

var shrunk = map[string]string{} // failure class -> violation key ("" = beyond the key cap)

func kindText(kind string) string {
	switch kind {
	case "mismatch":
		return "parses back to a different object"
	case "parse-error":
		return "does not parse"
	case "text-left-over":
		return "is not consumed completely"
	}
	return "fails with " + kind
}

func main() {
	vk.Run("C11", "exploration", func(t *vk.T) {
		t.Rule("(1) exhaustive neighbour matrix: every ordered pair and triple of 40 representative values (all 10 kinds) as array elements, every pair as values of a two-entry dict, every (key variant, value) pair; every one- and two-byte name without NUL as array element, dict key and dict value; chains of 99 nested containers; (2) seeded random trees (all kinds, adversarial names/strings/numbers, fan-out <= 6, leaves at level <= 6) and deep chains up to level limit-1. Each tree goes through both writers. non-trivial = the top object is a non-empty container or a scalar that needs escaping / is a real")
		t.Assume(fmt.Sprintf("StringLiteral values respect pdfcpu's representation invariant: the value is a valid literal-string body, normally types.Escape(raw bytes) (as pdfcpu builds them), in 10%% of the random strings the unmodified body syntax the parser stores (balanced raw parentheses, octal escapes, line continuations); HexLiteral values have an even number of hex digits; names have no NUL; IndirectRef numbers are non-negative; leaves sit at nesting level <= %d (parser limit %d minus 1)", depthLimit-1, depthLimit))
		t.Assume("parsing uses model.ParseObjectContext(ctx, &text, 0, limit) on the written text alone, as ParseObjectWithContext does with the body of an indirect object")

		// observation: where is the parser's depth limit?
		deepest := -1
		for d := depthLimit - 2; d <= depthLimit+2; d++ {
			txt := strings.Repeat("[", d) + "1" + strings.Repeat("]", d)
			if _, _, k, _ := parse(txt); k == "" {
				deepest = d
			}
		}
		t.Count("deepest_leaf_level_accepted_by_parser", int64(deepest))
		if deepest < depthLimit-1 {
			t.Broken("parser accepts leaves only up to level %d, generator assumes %d", deepest, depthLimit-1)
		}

		var tot stats
		reps := representatives()
		n := len(reps)

		// (1a) pairs and triples in arrays, pairs in dicts
		vk.Parallel(n, func(i int) {
			var st stats
			for j := 0; j < n; j++ {
				checkTree(t, types.Array{clone(reps[i]), clone(reps[j])}, &st)
				checkTree(t, types.Dict{"A": clone(reps[i]), "B": clone(reps[j])}, &st)
				checkTree(t, types.Dict{"": clone(reps[i]), "B": clone(reps[j])}, &st)
				checkTree(t, types.Dict{"K": types.Array{clone(reps[i]), clone(reps[j])}}, &st)
				checkTree(t, types.Array{types.Dict{"K": clone(reps[i])}, clone(reps[j])}, &st)
				for k := 0; k < n; k++ {
					checkTree(t, types.Array{clone(reps[i]), clone(reps[j]), clone(reps[k])}, &st)
				}
			}
			checkTree(t, clone(reps[i]), &st)
			checkTree(t, types.Array{clone(reps[i])}, &st)
			for _, key := range keyReps {
				checkTree(t, types.Dict{key: clone(reps[i])}, &st)
				checkTree(t, types.Dict{key: clone(reps[i]), "Z": types.Integer(1)}, &st)
			}
			st.merge(&tot)
		})
		// (1b) names over all byte values
		vk.Parallel(255, func(i int) {
			var st stats
			b0 := byte(i + 1)
			one := types.Name([]byte{b0})
			checkTree(t, one, &st)
			checkTree(t, types.Array{one}, &st)
			checkTree(t, types.Array{one, types.Integer(1)}, &st)
			checkTree(t, types.Array{types.Integer(1), one, one}, &st)
			checkTree(t, types.Dict{string(one): types.Integer(1)}, &st)
			checkTree(t, types.Dict{"K": one}, &st)
			checkTree(t, types.Dict{string(one): one, "Z": one}, &st)
			for j := 1; j < 256; j++ {
				two := types.Name([]byte{b0, byte(j)})
				checkTree(t, types.Dict{string(two): two}, &st)
				checkTree(t, types.Array{two, two}, &st)
			}
			st.merge(&tot)
		})
		checkTree(t, types.Name(""), &tot)
		// (1c) chains at the deepest admitted level
		{
			r := t.RNG("chains")
			for mode := 0; mode < 4; mode++ {
				for _, leaf := range reps {
					d := depthLimit - 1
					if k := kindOf(leaf); k == kArray || k == kDict {
						if c, ok := leaf.(types.Array); ok && len(c) > 0 {
							d--
						}
						if c, ok := leaf.(types.Dict); ok && len(c) > 0 {
							d--
						}
					}
					checkTree(t, chain(r, d, mode, clone(leaf)), &tot)
				}
			}
		}
		enumTrees, enumNontrivial := tot.trees, tot.nontrivial
		t.EvalBulk(enumTrees, enumNontrivial)
		t.Count("matrix_trees", enumTrees)
		t.Count("matrix_representatives", int64(n))

		// (2) random trees
		R := t.Pick(200_000, 5_000_000)
		const chunks = 256
		var rnd stats
		vk.Parallel(chunks, func(c int) {
			r := t.RNGi("trees", c)
			var st stats
			for i := 0; i < R/chunks; i++ {
				var o types.Object
				switch x := r.IntN(100); {
				case x < 2:
					lvl := 40 + r.IntN(depthLimit-40)
					o = chain(r, lvl, r.IntN(4), randScalar(r, r.IntN(kArray)))
				case x < 12:
					o = randScalar(r, r.IntN(kArray))
				case x < 60:
					nEl := 1 + r.IntN(6)
					a := make(types.Array, nEl)
					for j := range a {
						a[j] = randTree(r, 1, 1+r.IntN(6), 1+r.IntN(5))
					}
					o = a
				default:
					nEl := 1 + r.IntN(6)
					d := types.Dict{}
					for j := 0; j < nEl; j++ {
						d[string(randName(r))] = randTree(r, 1, 1+r.IntN(6), 1+r.IntN(5))
					}
					o = d
				}
				if c == 0 && i < 3 {
					txt, _, _ := write(wAppend, o)
					t.Sample(map[string]any{"tree": short(sig(o)), "appendPDFObject_text": short(txt)})
				}
				checkTree(t, o, &st)
			}
			st.merge(&rnd)
		})
		t.EvalBulk(rnd.trees, 0) // random trees may repeat: not counted as distinct
		t.Count("random_trees", rnd.trees)
		t.Count("random_trees_nontrivial_not_counted_distinct", rnd.nontrivial)
		t.Count("random_nodes", rnd.nodes)
		t.Count("random_parser_form_strings", rnd.rawStrings)
		t.Count("trees_failing", rnd.failing+tot.failing)
		t.Count("deepest_leaf_level_generated", max(rnd.maxLevel, tot.maxLevel))
		t.Count("writer_parse_round_trips", 2*(enumTrees+rnd.trees))
		pairs, kv, vk2 := int64(0), int64(0), int64(0)
		for i := 0; i < nKinds; i++ {
			t.Count("nodes_"+kindNames[i], rnd.leafKinds[i]+tot.leafKinds[i])
			if tot.keyVal[i]+rnd.keyVal[i] > 0 {
				kv++
			}
			if tot.valNextKey[i]+rnd.valNextKey[i] > 0 {
				vk2++
			}
			for j := 0; j < nKinds; j++ {
				if tot.arrAdj[i][j] > 0 {
					pairs++
				}
			}
		}
		t.Count("array_adjacent_kind_pairs_covered_by_matrix_of_100", pairs)
		t.Count("dict_value_kinds_after_key_of_10", kv)
		t.Count("dict_value_kinds_before_next_key_of_10", vk2)
		t.Sample(map[string]any{"tree": "[int(7),name(),str(28)]", "PDFString_text": types.Array{types.Integer(7), types.Name(""), lit("(")}.PDFString()})
	})
}
