// C08 — malformed input never crashes, overflows the stack or hangs.
//
// Seeded, structure-aware hostile inputs (byte / token / pdfgen-hostile mutations of valid PDFs, DER
// mutations inside signature dictionaries, mutated fonts, certificates, PKCS#7 blobs, form / bookmark /
// viewer-preference / create JSON and CSV; quick 4 000, thorough 60 000 cases, plus 5 fixed 1-3.5 MB
// scale probes) are fed to the public entry points in child processes (one child per batch of 40
// cases, GOMAXPROCS=2, 64 MB stack limit, 4 GiB address-space limit). The child journals (case,
// entry) before every call, recovers panics per call and measures the CPU seconds of every call with
// getrusage. The parent attributes a fatal death of the child (stack overflow, runtime fatal error,
// signal) to the journalled call, restarts behind it, and re-runs CPU-budget candidates alone with
// twice the budget.
//
// Besides the seeded cases every run executes the fixed CORE set (core.go): hand-written cyclic /
// self-referential / shared-kid structures for every recursive structure pdfcpu walks, and every
// pdfgen hostile kind.
//
//	violation keys:  entry=<E>/panic=<innermost pdfcpu frame>      a panic escaped entry point E
//	                 entry=<E>/class=stack-overflow/cycle=<fn>     the child died of stack exhaustion
//	                 entry=<E>/class=cpu-bound                     > 20 s CPU per 256 KB input, twice
//	                 entry=<E>/class=fatal/<runtime message>       other fatal death (concurrent map ...)
//	inconclusive:    wall-clock watchdog, out of memory (C09's topic), child killed
//
// Development aids (not part of the check): C08_CORE_ONLY=1 runs only the core set (core.go),
// C08_NOCORE=1 leaves it out, C08_CORE_REPORT=1 prints every call of a core case, C08_CORE_DUMP=<dir> writes the core inputs; C08_CASES=<n> smaller run, C08_PROBES=1 with it keeps the
// scale probes, C08_TIMING=1 per-batch times, C08_TRIAGE=<replay file> runs the stored call in this
// process without recover (full trace with file:line), VERIF_KEEP=1 keeps the batch directories.
package main

import (
	"bytes"
	"crypto/sha256"
	"encoding/base64"
	"encoding/hex"
	"encoding/json"
	"fmt"
	"os"
	"os/exec"
	"path/filepath"
	"regexp"
	"runtime"
	"sort"
	"strconv"
	"strings"
	"sync"
	"time"

	"github.com/pdfcpu/pdfcpu/pkg/api"
	"github.com/pdfcpu/pdfcpu/pkg/font"
	"verif/harness/internal/pdfgen"
	"verif/harness/internal/vk"
)

const (
	batchSize      = 40
	childOuterWall = 45 * time.Minute // whole child; generous, firing is inconclusive
)

func main() {
	if d := os.Getenv("C08_CHILD"); d != "" {
		childMain(d)
		return
	}
	if f := os.Getenv("C08_TRIAGE"); f != "" {
		triageMain(f)
		return
	}
	if d := os.Getenv("C08_CORE_DUMP"); d != "" { // triage aid: the inputs of the core set as files
		_ = os.MkdirAll(d, 0o755)
		for _, c := range coreCases() {
			name := strings.Map(func(r rune) rune {
				if r == '/' || r == ' ' || r == ':' {
					return '_'
				}
				return r
			}, head(c.Desc, 80))
			_ = os.WriteFile(filepath.Join(d, fmt.Sprintf("%d-%s.pdf", c.ID, strings.TrimSuffix(name, "…"))), c.In, 0o644)
		}
		return
	}
	vk.Run("C08", "exploration", run)
}

// builtinAux is the valid companion document (merge partner, stamp target, JSON target).
func builtinAux() []byte {
	return pdfgen.Build(pdfgen.DocSpec{Seed: 7, Pages: 2, Info: true}).Bytes
}

// replayCase is what a violation stores: everything needed to repeat exactly that call.
type replayCase struct {
	Case   genCase `json:"case"`
	Call   int     `json:"call"`
	Entry  string  `json:"entry"`
	Size   int     `json:"size"`
	SHA256 string  `json:"sha256"`
	InB64  string  `json:"input_b64"`
}

type candidate struct {
	c     genCase
	in    []byte
	call  int
	entry string
	why   string
	loop  string // watchdogLoop of the first excess ("" for kills)
}

type agg struct {
	mu         sync.Mutex
	counts     map[string]int64
	slow       []slowCall
	candidates []candidate
	samples    int
}

type slowCall struct {
	Entry string `json:"entry"`
	CPUms int64  `json:"cpu_ms"`
	Kind  string `json:"kind"`
	Size  int    `json:"size"`
	Case  int    `json:"case"`
}

func (a *agg) add(name string, d int64) {
	a.mu.Lock()
	a.counts[name] += d
	a.mu.Unlock()
}

func (a *agg) noteSlow(s slowCall) {
	a.mu.Lock()
	a.slow = append(a.slow, s)
	sort.Slice(a.slow, func(i, j int) bool {
		if a.slow[i].CPUms != a.slow[j].CPUms {
			return a.slow[i].CPUms > a.slow[j].CPUms
		}
		return a.slow[i].Case < a.slow[j].Case
	})
	if len(a.slow) > 8 {
		a.slow = a.slow[:8]
	}
	a.mu.Unlock()
}

type runner struct {
	failMu  sync.Mutex
	failed  string
	t       *vk.T
	mat     *material
	ag      *agg
	fontDir string
	root    string
}

func run(t *vk.T) {
	api.DisableConfigDir()
	r := &runner{t: t, ag: &agg{counts: map[string]int64{}}, root: t.Scratch()}
	t.Rule("case = one hostile input (seeded mutation of a corpus/pdfgen seed, see kinds) fed to ReadContext, Validate relaxed+strict, Optimize and up to 8 further entry points " +
		"(non-PDF inputs: the entry points of their kind); non-trivial = the input got past header/xref/trailer parsing and object loading (api.ReadContext returned a context; " +
		"aux kinds: at least one entry point accepted the input); per entry point observed: calls / read_ok (input past xref+load) / valid_ok (relaxed validation passed, so entry-specific code ran) / ok")
	t.Assume("core set (the same in every run and tier, independent of VERIF_SEED): core-struct = hand-written documents < 16 KB with one recursive structure made cyclic / self-referential / 120 deep / a 40-level lattice of shared kids (families x shapes, see core.go), fed ungated to the four fixed entry points and 4 structure-specific ones (rotating over the shapes of a family); core-hostile = every pdfgen graph attack, bomb kind, nesting shape and structural override class on two fixed base documents. A core-struct call above 3 s CPU is a candidate (after it only the fixed entry points of that case still run); the verdict is the re-run alone under twice the property's budget as for every other case; candidates are re-run per (entry point, busy function) until one is confirmed")
	t.Assume("time clause restated: CPU seconds of the child (RUSAGE_SELF delta, one call at a time, GOMAXPROCS=2) <= 20 s per 256 KB of input with default limits; a first excess is re-run alone with twice the budget")
	t.Assume("out-of-memory deaths (4 GiB RLIMIT_AS) and wall-clock watchdog firings are inconclusive here (memory is C09's topic)")
	t.Assume("a panic that pdfcpu recovers internally and returns as an error is not a violation; only what escapes the public entry point is")

	// shared read-only user font directory (the form samples use Roboto-Regular)
	r.fontDir = filepath.Join(r.root, "fontbase")
	if err := os.MkdirAll(r.fontDir, 0o755); err != nil {
		t.Broken("%v", err)
	}
	font.UserFontDir = r.fontDir
	if err := api.InstallFonts([]string{filepath.Join(vk.RepoDir(), "pkg/testdata/fonts/Roboto-Regular.ttf")}); err != nil {
		t.Broken("install base font: %v", err)
	}

	if t.Replay != nil {
		r.replay()
		return
	}
	r.mat = loadMaterial(t)

	nCases := t.Pick(4000, 60000)
	if s := os.Getenv("C08_CASES"); s != "" { // development aid; evidence records the real count
		if v, err := strconv.Atoi(s); err == nil && v > 0 {
			nCases = v
		}
	}
	nBatches := (nCases + batchSize - 1) / batchSize
	// the core set (core.go): the same cases in every run, queued first so that a budget excess there
	// overlaps with the seeded batches
	var core []*genCase
	if os.Getenv("C08_NOCORE") == "" {
		core = coreCases()
	}
	if os.Getenv("C08_CORE_ONLY") != "" {
		nCases, nBatches = 0, 0
	}
	// core batches: the structure cases striped over the batches (the shapes of one family, which would
	// hang together, end up in different children), the hostile-kind cases in consecutive slices
	var coreBatches [][]*genCase
	{
		var st, ho []*genCase
		for _, c := range core {
			if c.Kind == "core-struct" {
				st = append(st, c)
			} else {
				ho = append(ho, c)
			}
		}
		nb := (len(st) + coreBatchSize - 1) / coreBatchSize
		sb := make([][]*genCase, nb)
		for i, c := range st {
			sb[i%nb] = append(sb[i%nb], c)
		}
		coreBatches = append(coreBatches, sb...)
		for lo := 0; lo < len(ho); lo += coreBatchSize {
			coreBatches = append(coreBatches, ho[lo:min(lo+coreBatchSize, len(ho))])
		}
	}
	nCoreBatches := len(coreBatches)
	workers := runtime.GOMAXPROCS(0) / 2
	if workers < 1 {
		workers = 1
	}
	var wg sync.WaitGroup
	next := make(chan int)
	for w := 0; w < workers; w++ {
		wg.Add(1)
		go func() {
			defer wg.Done()
			for b := range next {
				if b < 0 { // core batch -b-1
					cb := -b - 1
					r.runBatch(fmt.Sprintf("core%04d", cb), coreBatches[cb], 1, -1)
					continue
				}
				lo, hi := b*batchSize, min((b+1)*batchSize, nCases)
				cases := make([]*genCase, 0, hi-lo)
				t0 := time.Now()
				for id := lo; id < hi; id++ {
					cases = append(cases, r.mat.generate(t, id))
				}
				t1 := time.Now()
				r.runBatch(fmt.Sprintf("b%06d", b), cases, 1, -1)
				if os.Getenv("C08_TIMING") != "" {
					fmt.Fprintf(os.Stderr, "c08 timing: batch %d gen %v run %v\n", b, t1.Sub(t0).Round(time.Millisecond), time.Since(t1).Round(time.Millisecond))
				}
			}
		}()
	}
	for cb := 0; cb < nCoreBatches; cb++ {
		next <- -cb - 1
	}
	for b := 0; b < nBatches; b++ {
		next <- b
	}
	close(next)
	wg.Wait()
	if r.isFailed() {
		t.Broken("%s", r.failed)
	}

	// scale probes: a handful of fixed large inputs, one entry point each
	if os.Getenv("C08_CASES") == "" || os.Getenv("C08_PROBES") != "" {
		ps := scaleProbes(nCases)
		var pw sync.WaitGroup
		for i := range ps {
			pw.Add(1)
			go func(i int) {
				defer pw.Done()
				r.runBatch(fmt.Sprintf("probe%02d", i), []*genCase{ps[i]}, 1, -1)
			}(i)
		}
		pw.Wait()
		if r.isFailed() {
			t.Broken("%s", r.failed)
		}
	}

	// candidates (CPU budget exceeded once, or wall watchdog): alone, sequentially, twice the budget
	r.ag.mu.Lock()
	cands := r.ag.candidates
	r.ag.candidates = nil
	r.ag.mu.Unlock()
	sort.Slice(cands, func(i, j int) bool {
		if cands[i].c.ID != cands[j].c.ID {
			return cands[i].c.ID < cands[j].c.ID
		}
		return cands[i].call < cands[j].call
	})
	// Candidates are grouped by (entry point, what the call was busy with when the watchdog fired): the
	// members of a group are re-run one after the other until one of them is confirmed (the others
	// could only repeat that verdict); different groups are re-run by up to 6 children at a time (CPU
	// time is accounted per process).
	byEntry := map[string][]int{}
	var order []string
	for i, cd := range cands {
		g := cd.entry + "|" + cd.loop
		if _, ok := byEntry[g]; !ok {
			order = append(order, g)
		}
		byEntry[g] = append(byEntry[g], i)
	}
	sem := make(chan struct{}, 6)
	var cw sync.WaitGroup
	for _, e := range order {
		cw.Add(1)
		go func(idx []int) {
			defer cw.Done()
			sem <- struct{}{}
			defer func() { <-sem }()
			for n, i := range idx {
				c := cands[i].c
				c.In = cands[i].in
				if r.runBatch(fmt.Sprintf("cand%04d", i), []*genCase{&c}, 2, cands[i].call) > 0 {
					r.ag.add("cpu_candidates_covered_by_confirmed_key", int64(len(idx)-n-1))
					return
				}
			}
		}(byEntry[e])
	}
	cw.Wait()
	if r.isFailed() {
		t.Broken("%s", r.failed)
	}

	r.ag.mu.Lock()
	defer r.ag.mu.Unlock()
	for k, v := range r.ag.counts {
		t.Count(k, v)
	}
	if len(core) > 0 {
		fam := map[string]bool{}
		nStruct := 0
		for _, c := range core {
			if c.Kind == "core-struct" {
				nStruct++
				fam[strings.SplitN(c.Desc, "/", 2)[0]] = true
			}
		}
		var fams []string
		for f := range fam {
			fams = append(fams, f)
		}
		sort.Strings(fams)
		var shapes []string
		for _, g := range coreShapes() {
			shapes = append(shapes, g.name)
		}
		t.Extra("core_set", map[string]any{"struct_cases": nStruct, "hostile_cases": len(core) - nStruct, "struct_families": fams, "shapes": shapes, "hostile_kinds": coreHostileKinds()})
	}
	t.Extra("slowest_calls", r.ag.slow)
	t.Extra("cases", nCases)
	t.Extra("cpu_budget", "20s per 256KB per call; candidates re-run alone at 40s")
}

// fail records a harness failure from a worker goroutine (vk's Broken must be raised on the main goroutine).
func (r *runner) fail(format string, a ...any) {
	r.failMu.Lock()
	if r.failed == "" {
		r.failed = fmt.Sprintf(format, a...)
	}
	r.failMu.Unlock()
}

func (r *runner) isFailed() bool {
	r.failMu.Lock()
	defer r.failMu.Unlock()
	return r.failed != ""
}

// ---------------------------------------------------------------------------

func readLog(path string) []rec {
	b, err := os.ReadFile(path)
	if err != nil {
		return nil
	}
	var out []rec
	for _, ln := range bytes.Split(b, []byte("\n")) {
		if len(ln) == 0 {
			continue
		}
		var r rec
		if json.Unmarshal(ln, &r) == nil {
			out = append(out, r)
		}
	}
	return out
}

// coreReport (development aid): one line per call of a core case with the error text.
var coreReport = os.Getenv("C08_CORE_REPORT") != ""

var reFatal = regexp.MustCompile(`(?m)^fatal error: (.*)$`)

// classifyDeath turns the child's stderr / exit status into (status, detail).
func classifyDeath(stderr string, exitCode int, killedByUs bool) (st, detail string) {
	switch {
	case killedByUs:
		return "killed", "outer wall-clock watchdog"
	case strings.Contains(stderr, "fatal error: stack overflow") || strings.Contains(stderr, "goroutine stack exceeds"):
		return "stack-overflow", overflowCycle(stderr)
	case strings.Contains(stderr, "out of memory") || strings.Contains(stderr, "cannot allocate memory") || strings.Contains(stderr, "failed to reserve"):
		return "oom", ""
	}
	if m := reFatal.FindStringSubmatch(stderr); m != nil {
		msg := strings.Map(func(r rune) rune {
			if r == ' ' {
				return '-'
			}
			if r > ' ' && r < 0x7f && r != '/' {
				return r
			}
			return -1
		}, m[1])
		if len(msg) > 60 {
			msg = msg[:60]
		}
		return "fatal", msg
	}
	if strings.Contains(stderr, "\npanic: ") || strings.HasPrefix(stderr, "panic: ") {
		return "goroutine-panic", deathFrame(stderr)
	}
	if exitCode < 0 {
		return "killed", "signal"
	}
	return "died", fmt.Sprintf("exit=%d", exitCode)
}

// runBatch runs the cases in child processes (restarting after a fatal death) and judges the log.
// only >= 0: run exactly that call of the single case (candidate re-run / replay), ungated.
func (r *runner) runBatch(name string, cases []*genCase, mult, only int) (violations int) {
	t := r.t
	dir := filepath.Join(r.root, name)
	if err := os.MkdirAll(filepath.Join(dir, "in"), 0o755); err != nil {
		r.fail("%v", err)
		return 0
	}
	if os.Getenv("VERIF_KEEP") == "" {
		defer os.RemoveAll(dir)
	}
	mf := manifest{Repo: vk.RepoDir(), FontDir: r.fontDir, Mult: mult, NoBallast: len(cases) > 0}
	for _, c := range cases {
		mf.NoBallast = mf.NoBallast && c.Kind == "core-struct"
		cc := *c
		if only >= 0 {
			cc.Plan = []string{c.Plan[only]}
			// same per-call parameters as in the original position
			cc.P = c.P
			cc.ParamCall = only
		}
		mf.Cases = append(mf.Cases, cc)
		if err := os.WriteFile(filepath.Join(dir, "in", strconv.Itoa(c.ID)+".bin"), c.In, 0o644); err != nil {
			r.fail("%v", err)
			return 0
		}
	}
	mf.Ungated = only >= 0
	mb, _ := json.Marshal(mf)
	if err := os.WriteFile(filepath.Join(dir, "manifest.json"), mb, 0o644); err != nil {
		r.fail("%v", err)
		return 0
	}

	type death struct {
		ci, ki     int
		st, detail string
		stderr     string
	}
	var deaths []death
	loops := map[[2]int]string{} // (case, call) -> what the call was doing when the CPU watchdog fired
	start := "0,0,0,0"
	totalCalls := 0
	for _, c := range mf.Cases {
		totalCalls += len(c.Plan)
	}
	for attempt := 0; attempt <= totalCalls; attempt++ {
		errFile := filepath.Join(dir, fmt.Sprintf("stderr.%d", attempt))
		ef, err := os.Create(errFile)
		if err != nil {
			r.fail("%v", err)
			return 0
		}
		cmd := exec.Command(os.Args[0])
		cmd.Env = append(os.Environ(), "C08_CHILD="+dir, "C08_START="+start, "GOMAXPROCS=2", "GOGC=100", "GOTRACEBACK=single")
		cmd.Stdout, cmd.Stderr = ef, ef
		if err := cmd.Start(); err != nil {
			ef.Close()
			r.fail("start child: %v", err)
			return 0
		}
		done := make(chan error, 1)
		go func() { done <- cmd.Wait() }()
		killed := false
		var werr error
		select {
		case werr = <-done:
		case <-time.After(childOuterWall):
			killed = true
			_ = cmd.Process.Kill()
			werr = <-done
		}
		ef.Close()
		if werr == nil {
			break
		}
		code := -1
		if ee, ok := werr.(*exec.ExitError); ok {
			code = ee.ExitCode()
		}
		sb, _ := os.ReadFile(errFile)
		stderr := string(sb)
		if len(stderr) > 1<<20 {
			stderr = stderr[:1<<19] + "\n...\n" + stderr[len(stderr)-(1<<19):]
		}
		if code == exitHarness {
			r.fail("child of %s reported a harness failure: %s", name, tail(stderr, 1500))
			return 0
		}
		// the call during which it died: last B without E (watchdog exits write their own E)
		log := readLog(filepath.Join(dir, "log"))
		ci, ki, open := -1, -1, false
		for _, l := range log {
			switch l.T {
			case "B":
				ci, ki, open = l.Case, l.Call, true
			case "E":
				if l.St == "cpu" || l.St == "wall" {
					ci, ki, open = l.Case, l.Call, false
				} else if l.Case == ci && l.Call == ki {
					open = false
				}
			}
		}
		if ci < 0 {
			t.Inconclusive("child-died-before-first-call")
			r.ag.add("child_deaths_unattributed", 1)
			fmt.Fprintf(os.Stderr, "c08: child of %s died before any call (exit %d): %s\n", name, code, tail(stderr, 800))
			break
		}
		if code == exitCPU || code == exitWall {
			// judged from the E record below
			loops[[2]int{ci, ki}] = watchdogLoop(stderr)
		} else {
			st, detail := classifyDeath(stderr, code, killed)
			if !open {
				// died between calls: cannot be attributed to an input
				t.Inconclusive("child-died-between-calls/" + st)
				r.ag.add("child_deaths_unattributed", 1)
				fmt.Fprintf(os.Stderr, "c08: child of %s died between calls (exit %d, %s): %s\n", name, code, st, tail(stderr, 800))
			} else {
				deaths = append(deaths, death{ci, ki, st, detail, stderr})
			}
		}
		// resume behind the culprit
		readOK, validOK := false, false
		for _, l := range log {
			if l.T == "E" && l.Case == ci && l.St == "ok" {
				if l.Entry == "ReadContext" {
					readOK = true
				}
				if l.Entry == "ValidateRelaxed" {
					validOK = true
				}
			}
		}
		nci, nki := ci, ki+1
		if mf.Cases[ci].NoGate && only < 0 && nki >= nFixedPDF {
			// core-struct case: after a budget excess or a death the remaining structure-specific entry
			// points of THIS case are not run (they would spend the same budget on the same loop; the
			// plans are rotated over the shapes of a family so that every entry point comes first somewhere)
			nki = len(mf.Cases[ci].Plan)
		}
		if nki >= len(mf.Cases[ci].Plan) {
			nci, nki, readOK, validOK = ci+1, 0, false, false
		}
		if nci >= len(mf.Cases) {
			break
		}
		b2i := map[bool]int{false: 0, true: 1}
		start = fmt.Sprintf("%d,%d,%d,%d", nci, nki, b2i[readOK], b2i[validOK])
	}

	// ---- judge -------------------------------------------------------------------------------
	log := readLog(filepath.Join(dir, "log"))
	type key struct{ ci, ki int }
	results := map[key]rec{}
	for _, l := range log {
		if l.T != "E" {
			continue
		}
		k := key{l.Case, l.Call}
		if old, ok := results[k]; ok && (old.St == "cpu" || old.St == "wall") {
			continue // the watchdog's verdict stands
		}
		results[k] = l
	}
	deathAt := map[key]death{}
	for _, d := range deaths {
		deathAt[key{d.ci, d.ki}] = d
	}
	for ci := range mf.Cases {
		c := cases[ci]
		plan := mf.Cases[ci].Plan
		pdf := isPDFKind(c.Kind)
		readOK, validOK, anyOK := false, false, false
		rc := func(ki int, entry string) replayCase {
			sum := sha256.Sum256(c.In)
			origCall := ki
			if only >= 0 {
				origCall = only
			}
			cc := *c
			return replayCase{Case: cc, Call: origCall, Entry: entry, Size: len(c.In), SHA256: hex.EncodeToString(sum[:]), InB64: base64.StdEncoding.EncodeToString(c.In)}
		}
		var outcome []string
		for ki, entry := range plan {
			k := key{ci, ki}
			res, have := results[k]
			d, died := deathAt[k]
			pre := "entry/" + entry + "/"
			if have && res.St == "skip" {
				r.ag.add("calls_skipped_by_gate", 1)
				continue
			}
			if !have && !died {
				// never reached (batch abandoned after an unattributed death)
				r.ag.add("calls_not_run", 1)
				continue
			}
			r.ag.add(pre+"calls", 1)
			r.ag.add("calls", 1)
			if pdf && readOK {
				r.ag.add(pre+"read_ok", 1)
			}
			if pdf && validOK {
				r.ag.add(pre+"valid_ok", 1)
			}
			where := fmt.Sprintf("case %d (%s, %d bytes: %s)", c.ID, c.Kind, len(c.In), c.Desc)
			if died {
				outcome = append(outcome, entry+":"+d.st)
				r.ag.add("child_deaths", 1)
				r.ag.add("child_deaths/"+d.st, 1)
				switch d.st {
				case "stack-overflow":
					violations++
					t.Violate("entry="+entry+"/class=stack-overflow/cycle="+d.detail,
						fmt.Sprintf("%s exhausted the %d MB goroutine stack (fatal error: stack overflow, recursion through %s) on %s", entry, maxStackBytes>>20, d.detail, where), rc(ki, entry))
				case "oom":
					t.Inconclusive("oom/entry=" + entry)
				case "killed":
					t.Inconclusive("child-killed/entry=" + entry + "/" + d.detail)
					if only < 0 {
						r.ag.mu.Lock()
						r.ag.candidates = append(r.ag.candidates, candidate{*c, c.In, ki, entry, "killed", ""})
						r.ag.mu.Unlock()
					}
				case "goroutine-panic":
					violations++
					t.Violate("entry="+entry+"/panic="+d.detail,
						fmt.Sprintf("%s: unrecoverable panic killed the process (%s) on %s", entry, firstLineWith(d.stderr, "panic: "), where), rc(ki, entry))
				case "fatal":
					violations++
					t.Violate("entry="+entry+"/class=fatal/"+d.detail,
						fmt.Sprintf("%s: the runtime aborted the process (fatal error: %s, innermost pdfcpu frame %s) on %s", entry, d.detail, deathFrame(d.stderr), where), rc(ki, entry))
				default:
					t.Inconclusive("child-died/entry=" + entry + "/" + d.detail)
					fmt.Fprintf(os.Stderr, "c08: unexplained death in %s on %s: %s\n", entry, where, head(d.stderr, 800))
				}
				continue
			}
			outcome = append(outcome, entry+":"+res.St)
			if coreReport && strings.HasPrefix(c.Kind, "core-") {
				fmt.Fprintf(os.Stderr, "c08 core: %-60s %-22s %-5s %5dms %s\n", head(c.Desc, 60), entry, res.St, res.CPUms, res.Err)
			}
			if res.CPUms >= 1000 {
				r.ag.noteSlow(slowCall{entry, res.CPUms, c.Kind, len(c.In), c.ID})
			}
			r.ag.add("cpu_ms", res.CPUms)
			switch res.St {
			case "ok":
				r.ag.add(pre+"ok", 1)
				anyOK = true
				if pdf && entry == "ReadContext" {
					readOK = true
				}
				if pdf && entry == "ValidateRelaxed" {
					validOK = true
				}
			case "err":
				r.ag.add(pre+"err", 1)
			case "panic":
				r.ag.add("panics_recovered", 1)
				what := fmt.Sprintf("%s: panic escaped the entry point: %s; innermost pdfcpu frame %s; stack %s; on %s", entry, res.PVal, res.Frame, strings.Join(res.Trace, " < "), where)
				if res.Fault {
					what = "(a fault.Panic that no fault.Catch converted) " + what
				}
				violations++
				t.Violate("entry="+entry+"/panic="+res.Frame, what, rc(ki, entry))
			case "cpu":
				if mult >= 2 {
					violations++
					t.Violate("entry="+entry+"/class=cpu-bound",
						fmt.Sprintf("%s used more than %v CPU (second run, alone, twice the budget of %v per 256 KB; busy in %s) on %s", entry, budgetFor(len(c.In), mult), cpuBudgetPer256K, loops[[2]int{ci, ki}], where), rc(ki, entry))
					r.ag.add("cpu_bound_confirmed", 1)
				} else {
					r.ag.add("cpu_candidates", 1)
					r.ag.mu.Lock()
					r.ag.candidates = append(r.ag.candidates, candidate{*c, c.In, ki, entry, "cpu", loops[[2]int{ci, ki}]})
					r.ag.mu.Unlock()
				}
			case "wall":
				t.Inconclusive("wall-watchdog/entry=" + entry)
				if mult < 2 {
					r.ag.mu.Lock()
					r.ag.candidates = append(r.ag.candidates, candidate{*c, c.In, ki, entry, "wall", loops[[2]int{ci, ki}]})
					r.ag.mu.Unlock()
				}
			}
			if mult >= 2 && (res.St == "ok" || res.St == "err") {
				r.ag.add("candidates_cleared", 1)
			}
		}
		if only >= 0 {
			continue // a re-run is not a new case
		}
		r.ag.add("kind/"+c.Kind+"/cases", 1)
		nontrivial := (pdf && readOK) || (!pdf && anyOK)
		if nontrivial {
			r.ag.add("kind/"+c.Kind+"/nontrivial", 1)
			sum := sha256.Sum256(c.In)
			t.Eval(c.Kind + "/" + hex.EncodeToString(sum[:8]))
		} else {
			t.Eval("")
		}
		if pdf && validOK {
			r.ag.add("kind/"+c.Kind+"/valid_ok", 1)
		}
		r.ag.mu.Lock()
		take := r.ag.samples < 8 && (nontrivial || r.ag.samples < 3) && c.ID%7 == 0
		if take {
			r.ag.samples++
		}
		r.ag.mu.Unlock()
		if take {
			t.Sample(map[string]any{"case": c.ID, "kind": c.Kind, "bytes": len(c.In), "desc": c.Desc, "outcome": outcome})
		}
	}
	return violations
}

func tail(s string, n int) string {
	if len(s) > n {
		return "…" + s[len(s)-n:]
	}
	return s
}

func head(s string, n int) string {
	if len(s) > n {
		return s[:n] + "…"
	}
	return s
}

func firstLineWith(s, sub string) string {
	for _, ln := range strings.Split(s, "\n") {
		if strings.Contains(ln, sub) {
			if len(ln) > 200 {
				ln = ln[:200]
			}
			return ln
		}
	}
	return ""
}

// replay re-executes exactly the stored call (in a child, ungated).
func (r *runner) replay() {
	t := r.t
	var rc replayCase
	if err := json.Unmarshal(t.Replay.Case, &rc); err != nil {
		t.Broken("replay case: %v", err)
	}
	in, err := base64.StdEncoding.DecodeString(rc.InB64)
	if err != nil {
		t.Broken("replay input: %v", err)
	}
	c := rc.Case
	c.In = in
	mult := 1
	if strings.HasSuffix(t.Replay.Key, "class=cpu-bound") {
		mult = 2
	}
	if rc.Call < 0 || rc.Call >= len(c.Plan) {
		t.Broken("replay: call %d outside the plan", rc.Call)
	}
	r.runBatch("replay", []*genCase{&c}, mult, rc.Call)
	// as in a full run: a first CPU-budget excess (or watchdog) is only a candidate; it is repeated
	// alone with twice the budget (an unbounded recursion can take longer than the budget to hit the stack limit)
	r.ag.mu.Lock()
	again := mult < 2 && len(r.ag.candidates) > 0
	r.ag.mu.Unlock()
	if again {
		r.runBatch("replay2", []*genCase{&c}, 2, rc.Call)
	}
	if r.isFailed() {
		t.Broken("%s", r.failed)
	}
	t.Eval("replay/" + rc.SHA256[:16])
	t.Eval("replay/entry=" + rc.Entry)
}
