package main

import (
	"bytes"
	"crypto/ed25519"
	"crypto/x509"
	"crypto/x509/pkix"
	"encoding/binary"
	"encoding/pem"
	"fmt"
	"io/fs"
	"math/big"
	"math/rand/v2"
	"os"
	"path/filepath"
	"sort"
	"strings"
	"sync"
	"time"

	"verif/harness/internal/fontkit"
	"verif/harness/internal/pdfgen"
	"verif/harness/internal/vk"
)

const maxSeedSize = 256 << 10

// genCase is one generated case: one hostile input and the entry points it is fed to.
type genCase struct {
	ID   int      `json:"id"`
	Kind string   `json:"kind"`
	Desc string   `json:"desc"`
	Ext  string   `json:"ext,omitempty"`
	Plan []string `json:"plan"`
	P    uint64   `json:"p"`
	Aux  string   `json:"aux,omitempty"` // repo-relative path of the valid companion PDF ("" = built-in)
	In   []byte   `json:"-"`
	// ParamCall: position in the original plan whose per-call parameters a single-call re-run uses.
	ParamCall int `json:"param_call,omitempty"`
	// core set (core.go): NoGate = every planned entry point runs whatever the front end says;
	// BudgetMs > 0 = CPU milliseconds after which a FIRST-pass call becomes a candidate (the verdict
	// is still the re-run alone under twice the property's budget).
	NoGate   bool  `json:"no_gate,omitempty"`
	BudgetMs int64 `json:"budget_ms,omitempty"`
}

// material is the seed corpus, loaded once by the parent.
type material struct {
	pdfs      []seedFile // corpus PDFs <= 256 KB (pkg/testdata, pkg/samples/**), sorted by path
	signed    []seedFile // signed samples
	pkcs7     [][]byte   // PKCS#7 blobs taken from the signed samples + small .p7c trust lists
	fonts     []seedFile // .ttf / .ttc
	certs     []seedFile // .pem .crt .cer .p7c
	formJSON  []seedFile // form fill JSON with its companion PDF in Aux
	multiJSON []seedFile
	formCSV   []seedFile
	bmJSON    []seedFile
	vpJSON    []seedFile
	createJS  []seedFile
	others    []seedFile // non-PDF files fed in as PDFs (images, json)
}

type seedFile struct {
	Path string // repo-relative
	Data []byte
	Aux  string // repo-relative companion
	Ext  string
}

func loadMaterial(t *vk.T) *material {
	repo := vk.RepoDir()
	m := &material{}
	read := func(rel string) []byte {
		b, err := os.ReadFile(filepath.Join(repo, rel))
		if err != nil {
			t.Broken("corpus: %v", err)
		}
		return b
	}
	var all []string
	for _, root := range []string{"pkg/testdata", "pkg/samples"} {
		_ = filepath.WalkDir(filepath.Join(repo, root), func(p string, d fs.DirEntry, err error) error {
			if err != nil || d.IsDir() {
				return nil
			}
			info, err := d.Info()
			if err != nil || info.Size() == 0 || info.Size() > maxSeedSize {
				return nil
			}
			rel, _ := filepath.Rel(repo, p)
			all = append(all, rel)
			return nil
		})
	}
	sort.Strings(all)
	for _, rel := range all {
		ext := strings.ToLower(filepath.Ext(rel))
		sf := seedFile{Path: rel, Ext: ext}
		switch {
		case ext == ".pdf":
			sf.Data = read(rel)
			m.pdfs = append(m.pdfs, sf)
			if strings.Contains(rel, "/signatures/") {
				m.signed = append(m.signed, sf)
				if blob := firstPKCS7(sf.Data); len(blob) > 0 {
					m.pkcs7 = append(m.pkcs7, blob)
				}
			}
		case ext == ".json" && strings.Contains(rel, "samples/form/fill/"):
			sf.Data = read(rel)
			sf.Aux = "pkg/samples/form/demoSinglePage/" + strings.TrimSuffix(filepath.Base(rel), ".json") + ".pdf"
			m.formJSON = append(m.formJSON, sf)
		case ext == ".json" && strings.Contains(rel, "samples/form/multifill/json/") && !strings.Contains(rel, "/merge/"):
			sf.Data = read(rel)
			sf.Aux = "pkg/samples/form/demoSinglePage/" + strings.TrimSuffix(filepath.Base(rel), ".json") + ".pdf"
			m.multiJSON = append(m.multiJSON, sf)
		case ext == ".csv":
			sf.Data = read(rel)
			sf.Aux = "pkg/samples/form/demoSinglePage/" + strings.TrimSuffix(filepath.Base(rel), ".csv") + ".pdf"
			m.formCSV = append(m.formCSV, sf)
		case ext == ".json" && strings.Contains(rel, "bookmarks/"):
			sf.Data = read(rel)
			sf.Aux = "pkg/samples/bookmarks/bookmarkTreeNoBookmarks.pdf"
			m.bmJSON = append(m.bmJSON, sf)
		case ext == ".json" && strings.HasSuffix(rel, "viewerPreferences.json"):
			sf.Data = read(rel)
			m.vpJSON = append(m.vpJSON, sf)
		case ext == ".json" && strings.Contains(rel, "testdata/json/"):
			sf.Data = read(rel)
			if !bytes.Contains(sf.Data, []byte("Unifont")) { // needs a user font that is not installed in the sandbox
				m.createJS = append(m.createJS, sf)
			}
		case ext == ".ttf":
			sf.Data = read(rel)
			m.fonts = append(m.fonts, sf)
		case ext == ".png" || ext == ".jpg" || ext == ".webp" || ext == ".tif":
			sf.Data = read(rel)
			m.others = append(m.others, sf)
		}
	}
	for _, s := range append(append(append([]seedFile{}, m.formJSON...), m.multiJSON...), m.formCSV...) {
		if _, err := os.Stat(filepath.Join(repo, s.Aux)); err != nil {
			t.Broken("corpus: companion of %s: %v", s.Path, err)
		}
	}
	// a TrueType collection built from the corpus font
	if len(m.fonts) > 0 {
		base := m.fonts[0].Data
		if alt, _, err := fontkit.Rename(base, "Roboto-Regular", "Veriaa-Regular"); err == nil {
			if ttc, err := fontkit.TTC(base, alt); err == nil {
				m.fonts = append(m.fonts, seedFile{Path: "(ttc of " + m.fonts[0].Path + ")", Data: ttc, Ext: ".ttc"})
			}
		}
	}
	// certificates: small trust lists of the repository + deterministic self-made certificates
	ents, _ := os.ReadDir(filepath.Join(repo, "pkg/pdfcpu/model/resources/certs"))
	for _, e := range ents {
		info, err := e.Info()
		if err != nil || info.Size() > 24<<10 || !strings.HasSuffix(e.Name(), ".p7c") {
			continue
		}
		rel := "pkg/pdfcpu/model/resources/certs/" + e.Name()
		b := read(rel)
		m.certs = append(m.certs, seedFile{Path: rel, Data: b, Ext: ".p7c"})
		m.pkcs7 = append(m.pkcs7, b)
	}
	for i := 0; i < 2; i++ {
		der := selfSignedCert(i)
		pemBytes := pem.EncodeToMemory(&pem.Block{Type: "CERTIFICATE", Bytes: der})
		m.certs = append(m.certs,
			seedFile{Path: fmt.Sprintf("(ed25519 cert %d der)", i), Data: der, Ext: ".cer"},
			seedFile{Path: fmt.Sprintf("(ed25519 cert %d pem)", i), Data: pemBytes, Ext: ".pem"},
			seedFile{Path: fmt.Sprintf("(ed25519 cert %d pem.crt)", i), Data: pemBytes, Ext: ".crt"})
	}
	if len(m.pdfs) < 50 || len(m.signed) == 0 || len(m.pkcs7) == 0 || len(m.fonts) == 0 || len(m.certs) == 0 || len(m.formJSON) == 0 ||
		len(m.formCSV) == 0 || len(m.bmJSON) == 0 || len(m.vpJSON) == 0 || len(m.createJS) == 0 || len(m.multiJSON) == 0 {
		t.Broken("corpus incomplete: pdfs=%d signed=%d pkcs7=%d fonts=%d certs=%d formJSON=%d multi=%d csv=%d bm=%d vp=%d create=%d",
			len(m.pdfs), len(m.signed), len(m.pkcs7), len(m.fonts), len(m.certs), len(m.formJSON), len(m.multiJSON), len(m.formCSV), len(m.bmJSON), len(m.vpJSON), len(m.createJS))
	}
	return m
}

// selfSignedCert is deterministic: ed25519 key from a fixed seed, fixed validity, deterministic signature.
func selfSignedCert(i int) []byte {
	seed := bytes.Repeat([]byte{byte(0x40 + i)}, ed25519.SeedSize)
	key := ed25519.NewKeyFromSeed(seed)
	tpl := &x509.Certificate{SerialNumber: big.NewInt(int64(8000 + i)), Subject: pkix.Name{CommonName: fmt.Sprintf("verif C08 CA %d", i), Organization: []string{"verif"}},
		NotBefore: time.Date(2020, 1, 1, 0, 0, 0, 0, time.UTC), NotAfter: time.Date(2040, 1, 1, 0, 0, 0, 0, time.UTC), IsCA: true, BasicConstraintsValid: true,
		KeyUsage: x509.KeyUsageCertSign | x509.KeyUsageCRLSign}
	der, err := x509.CreateCertificate(nil, tpl, tpl, key.Public(), key)
	if err != nil {
		panic(err)
	}
	return der
}

// ---------------------------------------------------------------------------

type kindWeight struct {
	kind string
	w    int
}

// The mix. PDF kinds get ~80 % of the budget.
var kindMix = []kindWeight{
	{"byte", 130}, {"token", 230}, {"hostile", 270}, {"hostile+token", 50}, {"deep", 25}, {"sig", 70}, {"sig-gen", 30}, {"raw", 15},
	{"pkcs7", 35}, {"font", 40}, {"cert", 30}, {"json-form", 25}, {"csv-form", 10}, {"json-bookmarks", 15}, {"json-viewerpref", 10}, {"json-create", 15},
}

func pickKind(r *rand.Rand) string {
	tot := 0
	for _, k := range kindMix {
		tot += k.w
	}
	x := r.IntN(tot)
	for _, k := range kindMix {
		if x < k.w {
			return k.kind
		}
		x -= k.w
	}
	return "byte"
}

// pdfSeed draws a valid document: corpus file or pdfgen document (plain = no compression so that
// token mutations see the objects).
func (m *material) pdfSeed(r *rand.Rand, plain bool) ([]byte, string) {
	if r.IntN(10) < 6 {
		s := m.pdfs[r.IntN(len(m.pdfs))]
		return s.Data, s.Path
	}
	spec := pdfgen.RandomSpec(r, 6)
	if plain {
		spec.Filters = pdfgen.FiltersNone
		spec.Write.ObjStm = false
		if r.IntN(3) != 0 {
			spec.Write.XRef = pdfgen.XRefTable
		}
	}
	if r.IntN(3) == 0 {
		hs := pdfgen.HostileSpec(r)
		hs.Filters, hs.Write = spec.Filters, spec.Write
		spec = hs
	}
	bt := pdfgen.Build(spec)
	return bt.Bytes, fmt.Sprintf("pdfgen(seed=%d pages=%d)", spec.Seed, spec.Pages)
}

// planPDF: the four fixed entry points plus k others.
func planPDF(r *rand.Rand, k int, prefer ...string) []string {
	plan := make([]string, 0, nFixedPDF+k)
	for i := 0; i < nFixedPDF; i++ {
		plan = append(plan, pdfEntries[i].name)
	}
	seen := map[string]bool{}
	for _, p := range prefer {
		plan = append(plan, p)
		seen[p] = true
	}
	rest := len(pdfEntries) - nFixedPDF
	for len(plan) < nFixedPDF+k && len(seen) < rest {
		e := pdfEntries[nFixedPDF+r.IntN(rest)].name
		if !seen[e] {
			seen[e] = true
			plan = append(plan, e)
		}
	}
	return plan
}

func planAux(kind string) []string {
	var p []string
	for _, e := range auxEntries[kind] {
		p = append(p, e.name)
	}
	return p
}

const extraEntries = 8

// generate builds case id. It is a pure function of (VERIF_SEED, id): the tier only decides how many ids run.
func (m *material) generate(t *vk.T, id int) *genCase {
	r := t.RNGi("case", id)
	c := &genCase{ID: id, P: r.Uint64()}
	c.Kind = pickKind(r)
	switch c.Kind {
	case "byte":
		b, from := m.pdfSeed(r, false)
		donor := m.pdfs[r.IntN(len(m.pdfs))].Data
		var d string
		c.In, d = mutateBytes(r, b, donor, 1+r.IntN(6))
		c.Desc = from + ": " + d
		c.Plan = planPDF(r, extraEntries)
	case "token":
		b, from := m.pdfSeed(r, true)
		var d string
		c.In, d = mutateTokens(r, b, 1+r.IntN(4))
		c.Desc = from + ": " + d
		c.Plan = planPDF(r, extraEntries)
	case "hostile", "hostile+token":
		depth := []int{50, 120, 2000, 2000, 30000, 100000}[r.IntN(6)]
		c.In, c.Desc = m.hostile(t, r, depth)
		if c.Kind == "hostile+token" {
			var d string
			c.In, d = mutateTokens(r, c.In, 1+r.IntN(2))
			c.Desc += "; " + d
		}
		c.Plan = planPDF(r, extraEntries, preferFor(c.Desc)...)
	case "deep":
		// 10^5-deep nesting at a place every reader must parse
		depth := []int{99, 100, 101, 1000, 10000, 100000, 100000}[r.IntN(7)]
		spec := pdfgen.HostileSpec(r)
		if r.IntN(2) == 0 {
			spec.Filters, spec.Write.ObjStm, spec.Write.XRef = pdfgen.FiltersNone, false, pdfgen.XRefTable
		}
		bt := pdfgen.Build(spec)
		doc := bt.Doc.Clone()
		var nest pdfgen.Raw
		shape := r.IntN(3)
		switch shape {
		case 0:
			nest = pdfgen.NestedArray(depth, pdfgen.Int(1))
		case 1:
			nest = pdfgen.NestedDict(depth, "K", pdfgen.Int(1))
		default:
			nest = pdfgen.NestedMixed(depth, pdfgen.Int(1))
		}
		o := bt.Truth.Objs
		targets := []int{o.Catalog, o.PagesRoot}
		targets = append(targets, o.PageObjs...)
		if o.OutlineRoot != 0 {
			targets = append(targets, o.OutlineRoot)
		}
		tgt := targets[r.IntN(len(targets))]
		key := []pdfgen.Name{"VerifDeep", "Resources", "Kids", "MediaBox", "Annots", "Contents", "Names", "Metadata", "PieceInfo", "AcroForm"}[r.IntN(10)]
		doc.SetKey(tgt, key, nest)
		out, err := pdfgen.Write(doc, bt.Spec.Write)
		if err != nil {
			out = &pdfgen.Output{Bytes: bt.Bytes}
		}
		c.In = out.Bytes
		c.Desc = fmt.Sprintf("pdfgen(seed=%d) obj %d /%s = nest(shape=%d depth=%d) xref=%v objstm=%v", spec.Seed, tgt, key, shape, depth, bt.Spec.Write.XRef, bt.Spec.Write.ObjStm)
		c.Plan = planPDF(r, extraEntries)
	case "sig":
		s := m.signed[r.IntN(len(m.signed))]
		var d string
		c.In, d = mutateSignedPDF(r, s.Data, 1+r.IntN(3))
		c.Desc = s.Path + ": " + d
		c.Plan = planPDF(r, 4, "ValidateSignatures", "RemoveSignatures")
	case "sig-gen":
		// a generated document whose signature dictionaries carry a (mutated) real PKCS#7 blob of any size
		spec := pdfgen.RandomSpec(r, 3)
		spec.Form, spec.Signatures = true, 1+r.IntN(2)
		bt := pdfgen.Build(spec)
		doc := bt.Doc.Clone()
		var ds []string
		for _, st := range bt.Truth.Signatures {
			if st.SigObj == 0 {
				continue
			}
			blob, d := mutateDER(r, m.pkcs7[r.IntN(len(m.pkcs7))], r.IntN(4))
			doc.SetKey(st.SigObj, "Contents", pdfgen.HexString(blob))
			doc.SetKey(st.SigObj, "SubFilter", pdfgen.Name(subFilters[r.IntN(len(subFilters))]))
			n := int64(len(bt.Bytes))
			br := [][]int64{{0, 100, 200, 100}, {0, n, n, 0}, {0, 10, 5, 10}, {-1, 10, 20, 1 << 40}, {0, 1 << 62, 1 << 62, 1 << 62}, {0, n / 2, n / 2, n - n/2}, {}, {0}}[r.IntN(8)]
			arr := pdfgen.Array{}
			for _, v := range br {
				arr = append(arr, pdfgen.Int(v))
			}
			doc.SetKey(st.SigObj, "ByteRange", arr)
			ds = append(ds, fmt.Sprintf("sig %d: der(%s) byterange=%v", st.SigObj, d, br))
		}
		out, err := pdfgen.Write(doc, bt.Spec.Write)
		if err != nil {
			out = &pdfgen.Output{Bytes: bt.Bytes}
		}
		c.In = out.Bytes
		c.Desc = fmt.Sprintf("pdfgen(seed=%d) %s", spec.Seed, strings.Join(ds, "; "))
		c.Plan = planPDF(r, 4, "ValidateSignatures", "RemoveSignatures")
	case "raw":
		switch r.IntN(4) {
		case 0:
			c.In, c.Desc = randBytes(r, r.IntN(4096)), "random bytes"
		case 1:
			c.In = append([]byte("%PDF-1.7\n"), randBytes(r, r.IntN(4096))...)
			c.Desc = "header + random bytes"
		case 2:
			o := m.others[r.IntN(len(m.others))]
			c.In, c.Desc = o.Data, "non-PDF file "+o.Path
		case 3:
			c.In = []byte([]string{"", "%PDF-", "%PDF-1.7", "%PDF-1.7\n%%EOF", "%PDF-1.7\nstartxref\n0\n%%EOF", "%PDF-1.7\nxref\n0 0\ntrailer\n<<>>\nstartxref\n9\n%%EOF\n",
				"%PDF-1.7\ntrailer\n<</Root 1 0 R/Size 2>>\nstartxref\n9\n%%EOF\n", "%PDF-1.7\n1 0 obj\n<</Type/Catalog/Pages 1 0 R>>\nendobj\ntrailer\n<</Root 1 0 R>>\n%%EOF\n"}[r.IntN(8)])
			c.Desc = fmt.Sprintf("minimal fragment %q", c.In)
		}
		c.Plan = planPDF(r, 3)
	case "pkcs7":
		var d string
		c.In, d = mutateDER(r, m.pkcs7[r.IntN(len(m.pkcs7))], 1+r.IntN(4))
		c.Desc = "pkcs7: " + d
		c.Plan = planAux(c.Kind)
	case "font":
		s := m.fonts[r.IntN(len(m.fonts))]
		var d string
		c.In, d = mutateSFNT(r, s.Data, 1+r.IntN(4))
		c.Ext = s.Ext
		c.Desc = s.Path + ": " + d
		c.Plan = planAux(c.Kind)
	case "cert":
		s := m.certs[r.IntN(len(m.certs))]
		var d string
		if s.Ext == ".pem" || (s.Ext == ".crt" && r.IntN(2) == 0) {
			if r.IntN(2) == 0 {
				// mutate the DER inside the armour
				blk, _ := pem.Decode(s.Data)
				mut, dd := mutateDER(r, blk.Bytes, 1+r.IntN(3))
				typ := []string{"CERTIFICATE", "CERTIFICATE", "PKCS7", "X509 CRL", ""}[r.IntN(5)]
				c.In, d = pem.EncodeToMemory(&pem.Block{Type: typ, Bytes: mut}), "pem("+typ+") "+dd
				if c.In == nil {
					c.In = s.Data
				}
				if r.IntN(3) == 0 {
					c.In = append(c.In, s.Data...)
				}
			} else {
				c.In, d = mutateBytes(r, s.Data, nil, 1+r.IntN(3))
			}
		} else {
			c.In, d = mutateDER(r, s.Data, 1+r.IntN(4))
		}
		c.Ext = s.Ext
		if r.IntN(10) == 0 {
			c.Ext = []string{".pem", ".p7c", ".cer", ".crt"}[r.IntN(4)]
		}
		c.Desc = s.Path + " as " + c.Ext + ": " + d
		c.Plan = planAux(c.Kind)
	case "json-form":
		pool := m.formJSON
		if r.IntN(3) == 0 {
			pool = m.multiJSON
		}
		s := pool[r.IntN(len(pool))]
		var d string
		c.In, d = mutateJSON(r, s.Data, 1+r.IntN(4))
		c.Aux, c.Desc = s.Aux, s.Path+": "+d
		c.Plan = planAux(c.Kind)
	case "csv-form":
		s := m.formCSV[r.IntN(len(m.formCSV))]
		var d string
		c.In, d = mutateCSV(r, s.Data, 1+r.IntN(4))
		c.Aux, c.Desc = s.Aux, s.Path+": "+d
		c.Plan = planAux(c.Kind)
	case "json-bookmarks":
		s := m.bmJSON[r.IntN(len(m.bmJSON))]
		var d string
		c.In, d = mutateJSON(r, s.Data, 1+r.IntN(4))
		c.Aux, c.Desc = s.Aux, s.Path+": "+d
		c.Plan = planAux(c.Kind)
	case "json-viewerpref":
		s := m.vpJSON[r.IntN(len(m.vpJSON))]
		var d string
		c.In, d = mutateJSON(r, s.Data, 1+r.IntN(4))
		c.Desc = s.Path + ": " + d
		c.Plan = planAux(c.Kind)
	case "json-create":
		s := m.createJS[r.IntN(len(m.createJS))]
		var d string
		c.In, d = mutateJSON(r, s.Data, 1+r.IntN(4))
		c.Desc = s.Path + ": " + d
		c.Plan = planAux(c.Kind)
	}
	if len(c.Desc) > 600 {
		c.Desc = c.Desc[:600] + "…"
	}
	return c
}

// hostileBases: building a HostileSpec document costs ~0.2 s; the graph attacks and overrides that
// make it hostile cost little. Base documents therefore come from a pool of hostilePool documents
// (slot j is a pure function of (VERIF_SEED, j), built on first use).
const hostilePool = 192

type hostileBase struct {
	once sync.Once
	bt   *pdfgen.Built
}

var hostileBases [hostilePool]hostileBase

// hostile is pdfgen.RandomHostile on a pooled base document: a graph attack, structural
// overrides, or both.
func (m *material) hostile(t *vk.T, r *rand.Rand, maxDepth int) ([]byte, string) {
	j := r.IntN(hostilePool)
	hb := &hostileBases[j]
	hb.once.Do(func() { hb.bt = pdfgen.Build(pdfgen.HostileSpec(t.RNGi("hostile-base", j))) })
	bt := hb.bt
	doc := bt.Doc
	desc := ""
	mode := r.IntN(3) // 0 graph, 1 overrides, 2 both
	if mode != 1 {
		all := pdfgen.GraphAttacks()
		for try := 0; try < 10; try++ {
			a := all[r.IntN(len(all))]
			d, ds, ok := pdfgen.ApplyGraphAttack(bt, a, r, 1+r.IntN(maxDepth))
			if ok {
				doc, desc = d, ds
				break
			}
		}
	}
	opts := bt.Spec.Write
	if r.IntN(4) == 0 { // the same objects in another file structure
		o := pdfgen.RandomOptions(r)
		o.Encrypter = opts.Encrypter
		opts = o
	}
	if mode != 0 {
		if base, err := pdfgen.Write(doc, opts); err == nil {
			ov := pdfgen.RandomOverrides(r, doc, opts, base.Layout)
			if r.IntN(6) == 0 {
				// the head of the free list (object 0) / a free entry: unknown type, in use, compressed, missing
				if ov.XRefEntries == nil {
					ov.XRefEntries = map[pdfgen.XRefKey]pdfgen.XRefEntryOverride{}
				}
				e := []pdfgen.XRefEntryOverride{{Type: pdfgen.Force(3)}, {Type: pdfgen.Force(255)}, {Type: pdfgen.Force(1)}, {Type: pdfgen.Force(2), F2: pdfgen.Force(1)},
					{Drop: true}, {F2: pdfgen.Force(0), F3: pdfgen.Force(0)}, {F2: pdfgen.Force(1 << 40)}, {Type: pdfgen.Force(32)}}[r.IntN(8)]
				ov.XRefEntries[pdfgen.XRefKey{Rev: -1, Num: 0}] = e
			}
			opts.Overrides = ov
			if desc != "" {
				desc += "; "
			}
			desc += "overrides " + ov.Describe()
		}
	}
	out, err := pdfgen.Write(doc, opts)
	if err != nil {
		out = &pdfgen.Output{Bytes: bt.Bytes}
		desc += " (unwritable: " + err.Error() + ")"
	}
	return out.Bytes, fmt.Sprintf("base=%d xref=%v objstm=%v eol=%q: %s", j, opts.XRef, opts.ObjStm, opts.EOL, desc)
}

// preferFor steers a hostile document towards the entry points that walk the attacked structure.
func preferFor(desc string) []string {
	switch {
	case strings.Contains(desc, "Outline"):
		return []string{"Bookmarks", "ExportBookmarksJSON", "SplitBookmarks"}
	case strings.Contains(desc, "Kids") || strings.Contains(desc, "Parent") || strings.Contains(desc, "PagesCount"):
		return []string{"PDFInfo", "Trim", "InsertPages"}
	case strings.Contains(desc, "NameTree") || strings.Contains(desc, "DestCycle"):
		return []string{"Attachments", "ExtractAttachmentsRaw"}
	case strings.Contains(desc, "Field"):
		return []string{"FormFields", "ExportFormJSON", "FillFormExported"}
	case strings.Contains(desc, "FormXObject") || strings.Contains(desc, "Resources") || strings.Contains(desc, "Content") || strings.Contains(desc, "Bomb"):
		return []string{"ExtractContent", "Images", "ExtractFonts"}
	case strings.Contains(desc, "Annots"):
		return []string{"Annotations", "RemoveAnnotations"}
	}
	return nil
}

// ---------------------------------------------------------------------------
// sfnt (TrueType / collection) mutations

func mutateSFNT(r *rand.Rand, b []byte, n int) ([]byte, string) {
	b = append([]byte(nil), b...)
	var desc []string
	type rec struct {
		tag      string
		pos      int
		off, len uint32
	}
	dir := func() []rec {
		base := 0
		if len(b) >= 16 && string(b[:4]) == "ttcf" {
			base = int(binary.BigEndian.Uint32(b[12:16]))
		}
		if base+12 > len(b) {
			return nil
		}
		nt := int(binary.BigEndian.Uint16(b[base+4:]))
		var out []rec
		for i := 0; i < nt && base+12+16*i+16 <= len(b); i++ {
			p := base + 12 + 16*i
			out = append(out, rec{string(b[p : p+4]), p, binary.BigEndian.Uint32(b[p+8:]), binary.BigEndian.Uint32(b[p+12:])})
		}
		return out
	}
	w16 := []uint16{0, 1, 0x7fff, 0x8000, 0xffff, 0xfffe, 2, 0x100}
	w32 := []uint32{0, 1, 0x7fffffff, 0x80000000, 0xffffffff, 0xfffffff0, uint32(len(b)), uint32(len(b)) - 1, uint32(len(b)) + 1}
	for i := 0; i < n; i++ {
		ts := dir()
		if len(ts) == 0 || r.IntN(8) == 0 {
			var d string
			b, d = mutateBytes(r, b, nil, 1)
			desc = append(desc, d)
			continue
		}
		t := ts[r.IntN(len(ts))]
		switch r.IntN(7) {
		case 0: // table offset
			v := w32[r.IntN(len(w32))]
			binary.BigEndian.PutUint32(b[t.pos+8:], v)
			desc = append(desc, fmt.Sprintf("%s.off=%#x", t.tag, v))
		case 1: // table length
			v := w32[r.IntN(len(w32))]
			binary.BigEndian.PutUint32(b[t.pos+12:], v)
			desc = append(desc, fmt.Sprintf("%s.len=%#x", t.tag, v))
		case 2: // tag -> another table's tag (duplicates, missing tables)
			o := ts[r.IntN(len(ts))]
			copy(b[t.pos:t.pos+4], o.tag)
			desc = append(desc, fmt.Sprintf("%s.tag=%s", t.tag, o.tag))
		case 3: // numTables / header words
			v := w16[r.IntN(len(w16))]
			at := []int{4, 6, 8, 10}[r.IntN(4)]
			if at+2 <= len(b) {
				binary.BigEndian.PutUint16(b[at:], v)
			}
			desc = append(desc, fmt.Sprintf("hdr@%d=%#x", at, v))
		case 4, 5: // a 16-bit word inside the table's first 64 bytes (counts, versions, offsets)
			if int(t.off) < len(b) && t.len >= 2 {
				span := int(min(uint32(64), t.len))
				at := int(t.off) + r.IntN(span)&^1
				if at+2 <= len(b) {
					v := w16[r.IntN(len(w16))]
					binary.BigEndian.PutUint16(b[at:], v)
					desc = append(desc, fmt.Sprintf("%s+%d=%#x", t.tag, at-int(t.off), v))
				}
			}
		case 6: // a 32-bit word anywhere in the table
			if int(t.off) < len(b) && t.len >= 4 {
				at := int(t.off) + r.IntN(int(t.len)-3)&^1
				if at+4 <= len(b) {
					v := w32[r.IntN(len(w32))]
					binary.BigEndian.PutUint32(b[at:], v)
					desc = append(desc, fmt.Sprintf("%s+%d=%#x(32)", t.tag, at-int(t.off), v))
				}
			}
		}
	}
	return b, strings.Join(desc, " ")
}
