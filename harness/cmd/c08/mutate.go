package main

import (
	"bytes"
	"encoding/hex"
	"fmt"
	"math/rand/v2"
	"regexp"
	"strconv"
	"strings"
)

// ---------------------------------------------------------------------------
// byte-level mutations

func randBytes(r *rand.Rand, n int) []byte {
	b := make([]byte, n)
	for i := range b {
		b[i] = byte(r.UintN(256))
	}
	return b
}

func splice(b []byte, at, del int, ins []byte) []byte {
	if at > len(b) {
		at = len(b)
	}
	if at+del > len(b) {
		del = len(b) - at
	}
	out := make([]byte, 0, len(b)-del+len(ins))
	out = append(out, b[:at]...)
	out = append(out, ins...)
	return append(out, b[at+del:]...)
}

// mutateBytes applies n byte-level edits; other is a donor for block splices.
func mutateBytes(r *rand.Rand, b, other []byte, n int) ([]byte, string) {
	b = append([]byte(nil), b...)
	var desc []string
	for i := 0; i < n; i++ {
		if len(b) == 0 {
			b = randBytes(r, 1+r.IntN(64))
			desc = append(desc, "fill")
			continue
		}
		at := r.IntN(len(b))
		if r.IntN(3) == 0 { // bias towards the tail: trailer, xref, startxref
			at = len(b) - 1 - r.IntN(min(len(b), 2048))
		}
		switch r.IntN(10) {
		case 0, 1: // bit flip
			b[at] ^= 1 << r.UintN(8)
			desc = append(desc, fmt.Sprintf("bit@%d", at))
		case 2: // byte set
			b[at] = []byte{0, 0xff, ' ', '\n', '(', ')', '<', '>', '[', ']', '/', '%', '0', '9', '-'}[r.IntN(15)]
			desc = append(desc, fmt.Sprintf("set@%d", at))
		case 3: // insert random
			b = splice(b, at, 0, randBytes(r, 1+r.IntN(64)))
			desc = append(desc, fmt.Sprintf("ins@%d", at))
		case 4: // delete range
			k := 1 + r.IntN(1+min(1000, len(b)/4))
			b = splice(b, at, k, nil)
			desc = append(desc, fmt.Sprintf("del@%d+%d", at, k))
		case 5: // truncate
			b = b[:at]
			desc = append(desc, fmt.Sprintf("trunc@%d", at))
		case 6: // block splice from donor
			if len(other) > 0 {
				o := r.IntN(len(other))
				k := 1 + r.IntN(min(4096, len(other)-o))
				b = splice(b, at, r.IntN(2)*k, other[o:o+k])
				desc = append(desc, fmt.Sprintf("splice@%d+%d", at, k))
			}
		case 7: // duplicate a block of itself elsewhere
			k := 1 + r.IntN(min(2048, len(b)-at))
			blk := append([]byte(nil), b[at:at+k]...)
			b = splice(b, r.IntN(len(b)), 0, blk)
			desc = append(desc, fmt.Sprintf("dup@%d+%d", at, k))
		case 8: // overwrite a block
			k := 1 + r.IntN(min(256, len(b)-at))
			c := []byte{0, 0xff, ' ', '0'}[r.IntN(4)]
			for j := 0; j < k; j++ {
				b[at+j] = c
			}
			desc = append(desc, fmt.Sprintf("fill@%d+%d", at, k))
		case 9: // swap two blocks of equal size
			k := 1 + r.IntN(min(512, len(b)-at))
			o := r.IntN(len(b) - k + 1)
			tmp := append([]byte(nil), b[at:at+k]...)
			copy(b[at:at+k], b[o:o+k])
			copy(b[o:o+k], tmp)
			desc = append(desc, fmt.Sprintf("swap@%d,%d+%d", at, o, k))
		}
	}
	return b, strings.Join(desc, " ")
}

// ---------------------------------------------------------------------------
// token-aware mutations of PDF text

var (
	reNumber  = regexp.MustCompile(`[+-]?\d+(?:\.\d+)?`)
	reName    = regexp.MustCompile(`/[A-Za-z][A-Za-z0-9]*`)
	reRef     = regexp.MustCompile(`\b(\d+) (\d+) R\b`)
	reObjHead = regexp.MustCompile(`(?m)\b(\d+) (\d+) obj\b`)
	reKeyword = regexp.MustCompile(`\b(?:endobj|obj|endstream|stream|xref|trailer|startxref|R|null|true|false|n|f)\b|<<|>>|\[|\]|%%EOF|%PDF-\d\.\d`)
	reStream  = regexp.MustCompile(`stream\r?\n`)
)

var extremeNumbers = []string{"0", "-1", "1", "2", "255", "256", "65535", "65536", "2147483647", "2147483648", "-2147483648", "-2147483649",
	"4294967295", "4294967296", "9223372036854775807", "9223372036854775808", "-9223372036854775808", "18446744073709551616",
	"100000000000000000000", "-100000000000000000000", "0.0", "-0.0", "1e10", "99999999999.999", ".5", "00000000000000000001", "+7", "1.", "--1", "1.2.3"}

var keyNames = []string{"Kids", "Parent", "Count", "Length", "Filter", "DecodeParms", "Prev", "Size", "Root", "Info", "Type", "Subtype", "First", "Next", "Last",
	"N", "W", "Index", "Encrypt", "Contents", "ByteRange", "Resources", "Font", "XObject", "Annots", "Names", "Dests", "Outlines", "AcroForm", "Fields",
	"Predictor", "Columns", "Colors", "BitsPerComponent", "MediaBox", "CropBox", "Rotate", "Pages", "Page", "Catalog", "ObjStm", "XRef", "Extends", "ID",
	"V", "R", "O", "U", "P", "CF", "StmF", "StrF", "Limits", "EmbeddedFiles", "EF", "F", "UF", "Dest", "A", "D", "S", "Title", "SubFilter", "Cert",
	"Reference", "TransformParams", "Perms", "DocMDP", "DSS", "StructTreeRoot", "K", "Nums", "ParentTree", "PageLabels", "Threads", "B", "OpenAction",
	"AA", "AP", "DR", "DA", "FT", "Ff", "Opt", "T", "Rect", "Width", "Height", "ColorSpace", "SMask", "Mask", "Matrix", "BBox", "Group", "ToUnicode",
	"DescendantFonts", "FontDescriptor", "FontFile2", "Widths", "FirstChar", "LastChar", "Encoding", "Differences", "CIDToGIDMap", "CIDSystemInfo",
	"XRefStm", "Metadata", "Collection", "ViewerPreferences", "PageMode", "PageLayout", "Lang", "MarkInfo", "OCProperties", "Version", "Extensions"}

var valueSwaps = []string{"null", "true", "false", "0", "-1", "(x)", "()", "<>", "<00>", "/Name", "/", "[]", "[[]]", "<<>>", "<</Type/Catalog>>", "1 0 R",
	"0 0 R", "999999 0 R", "2147483648 0 R", "1 65536 R", "[1 0 R 1 0 R]", "(\\", "<<", "[", "2 0 R 2 0 R"}

// streamRanges returns the [start,end) ranges of stream data so that token mutations prefer
// the object syntax around them.
func streamRanges(b []byte) [][2]int {
	var out [][2]int
	pos := 0
	for pos < len(b) {
		loc := reStream.FindIndex(b[pos:])
		if loc == nil {
			break
		}
		s := pos + loc[1]
		e := bytes.Index(b[s:], []byte("endstream"))
		if e < 0 {
			break
		}
		out = append(out, [2]int{s, s + e})
		pos = s + e + 9
	}
	return out
}

func inRanges(rs [][2]int, at int) bool {
	for _, r := range rs {
		if at >= r[0] && at < r[1] {
			return true
		}
	}
	return false
}

// pickMatch picks a random match of re outside stream data (falls back to anywhere).
func pickMatch(r *rand.Rand, re *regexp.Regexp, b []byte, sr [][2]int) []int {
	all := re.FindAllSubmatchIndex(b, -1)
	if len(all) == 0 {
		return nil
	}
	for try := 0; try < 8; try++ {
		m := all[r.IntN(len(all))]
		if !inRanges(sr, m[0]) {
			return m
		}
	}
	return all[r.IntN(len(all))]
}

// replaceAt replaces b[s:e] by repl; keepLen pads with spaces / refuses longer replacements so
// that every other byte offset (xref!) stays valid.
func replaceAt(b []byte, s, e int, repl string, keepLen bool) ([]byte, bool) {
	if keepLen {
		if len(repl) > e-s {
			return b, false
		}
		repl += strings.Repeat(" ", e-s-len(repl))
	}
	return splice(b, s, e-s, []byte(repl)), true
}

// mutateTokens applies n token-level edits to PDF text.
func mutateTokens(r *rand.Rand, b []byte, n int) ([]byte, string) {
	b = append([]byte(nil), b...)
	var desc []string
	var objNums []string
	for _, m := range reObjHead.FindAllSubmatch(b, 4000) {
		objNums = append(objNums, string(m[1]))
	}
	for i := 0; i < n; i++ {
		sr := streamRanges(b)
		keep := r.IntN(3) != 0 // mostly keep offsets valid so that the mutation is reached through the regular xref
		switch r.IntN(9) {
		case 0, 1: // number -> extreme
			m := pickMatch(r, reNumber, b, sr)
			if m == nil {
				continue
			}
			v := extremeNumbers[r.IntN(len(extremeNumbers))]
			nb, ok := replaceAt(b, m[0], m[1], v, keep)
			if !ok {
				nb, _ = replaceAt(b, m[0], m[1], []string{"0", "-1", "9"}[r.IntN(3)], true)
				if m[1]-m[0] >= 2 { // as many nines as fit
					nb, _ = replaceAt(b, m[0], m[1], strings.Repeat("9", m[1]-m[0]), true)
				}
			}
			desc = append(desc, fmt.Sprintf("num@%d=%s", m[0], v))
			b = nb
		case 2: // name swap
			m := pickMatch(r, reName, b, sr)
			if m == nil {
				continue
			}
			var v string
			if r.IntN(2) == 0 {
				o := pickMatch(r, reName, b, sr)
				v = string(b[o[0]:o[1]])
			} else {
				v = "/" + keyNames[r.IntN(len(keyNames))]
			}
			nb, ok := replaceAt(b, m[0], m[1], v, keep)
			if !ok {
				nb, _ = replaceAt(b, m[0], m[1], v, false)
			}
			desc = append(desc, fmt.Sprintf("name@%d:%s->%s", m[0], b[m[0]:m[1]], v))
			b = nb
		case 3: // keyword removal / garbling
			m := pickMatch(r, reKeyword, b, sr)
			if m == nil {
				continue
			}
			old := string(b[m[0]:m[1]])
			v := ""
			if r.IntN(3) == 0 {
				v = []string{"obj", "endobj", "stream", "endstream", "R", "xref", "trailer", ">>", "<<", "]", "["}[r.IntN(11)]
			}
			nb, ok := replaceAt(b, m[0], m[1], v, keep)
			if !ok {
				nb, _ = replaceAt(b, m[0], m[1], "", true)
			}
			desc = append(desc, fmt.Sprintf("kw@%d:%s->%q", m[0], old, v))
			b = nb
		case 4, 5: // retarget a reference (cycles, type confusion)
			m := pickMatch(r, reRef, b, sr)
			if m == nil || len(objNums) == 0 {
				continue
			}
			v := objNums[r.IntN(len(objNums))]
			if r.IntN(8) == 0 {
				v = []string{"0", "999999", "2147483647", "99999999999"}[r.IntN(4)]
			}
			old := string(b[m[2]:m[3]])
			// "12 0 R" -> "7 0 R " keeps the length when the whole reference is rewritten
			nb, ok := replaceAt(b, m[0], m[1], v+string(b[m[3]:m[1]]), keep)
			if !ok {
				nb, _ = replaceAt(b, m[0], m[1], v+string(b[m[3]:m[1]]), false)
			}
			desc = append(desc, fmt.Sprintf("ref@%d:%s->%s", m[0], old, v))
			b = nb
		case 6: // value after a key -> another type
			m := pickMatch(r, reName, b, sr)
			if m == nil {
				continue
			}
			// the value token: up to the next delimiter after the whitespace that follows the key
			s := m[1]
			for s < len(b) && (b[s] == ' ' || b[s] == '\r' || b[s] == '\n') {
				s++
			}
			e := s
			for e < len(b) && !bytes.ContainsRune([]byte(" \r\n/<>[]()"), rune(b[e])) {
				e++
			}
			if e == s && e < len(b) {
				e++
			}
			v := valueSwaps[r.IntN(len(valueSwaps))]
			nb, ok := replaceAt(b, s, e, v, keep)
			if !ok {
				nb, _ = replaceAt(b, s, e, v, false)
			}
			desc = append(desc, fmt.Sprintf("val@%d:%s=%s", m[0], b[m[0]:m[1]], v))
			b = nb
		case 7: // duplicate or delete a whole object
			heads := reObjHead.FindAllIndex(b, 4000)
			if len(heads) == 0 {
				continue
			}
			h := heads[r.IntN(len(heads))]
			e := bytes.Index(b[h[0]:], []byte("endobj"))
			if e < 0 {
				continue
			}
			e += h[0] + 6
			if r.IntN(2) == 0 {
				if keep {
					for j := h[0]; j < e; j++ {
						b[j] = ' '
					}
				} else {
					b = splice(b, h[0], e-h[0], nil)
				}
				desc = append(desc, fmt.Sprintf("delobj@%d", h[0]))
			} else {
				blk := append([]byte("\n"), b[h[0]:e]...)
				blk = append(blk, '\n')
				// before startxref so that the regular xref stays valid for everything else
				at := bytes.LastIndex(b, []byte("startxref"))
				if at < 0 || r.IntN(2) == 0 {
					at = h[0]
				}
				b = splice(b, at, 0, blk)
				desc = append(desc, fmt.Sprintf("dupobj@%d->%d", h[0], at))
			}
		case 8: // nest: wrap a value in many brackets
			m := pickMatch(r, reName, b, sr)
			if m == nil {
				continue
			}
			depth := []int{50, 101, 1000, 20000, 100000}[r.IntN(5)]
			var v string
			if r.IntN(2) == 0 {
				v = " " + strings.Repeat("[", depth) + strings.Repeat("]", depth) + " "
			} else {
				v = " " + strings.Repeat("<</A ", depth) + "0" + strings.Repeat(">>", depth) + " "
			}
			at := bytes.LastIndex(b, []byte("startxref"))
			if r.IntN(2) == 0 && at > 0 {
				// as an extra object body reachable only by the repair scanner / as garbage before startxref
				v = "\n9999 0 obj\n" + v + "\nendobj\n"
				b = splice(b, at, 0, []byte(v))
			} else {
				b = splice(b, m[1], 0, []byte(v))
			}
			desc = append(desc, fmt.Sprintf("nest@%d depth=%d", m[0], depth))
		}
	}
	return b, strings.Join(desc, " ")
}

// ---------------------------------------------------------------------------
// DER / BER mutations (PKCS#7 blobs, certificates)

type tlv struct{ off, hdr, length int } // off of the tag byte, header size, content length

// walkDER lists the TLVs of a DER/BER blob (descending into constructed ones), tolerant.
func walkDER(b []byte, base, depth int, out *[]tlv) {
	pos := 0
	for pos+2 <= len(b) && len(*out) < 4000 && depth < 64 {
		tag := b[pos]
		hdr := 2
		l := int(b[pos+1])
		if l == 0x80 {
			l = len(b) - pos - 2 // indefinite: take the rest
		} else if l > 0x80 {
			n := l & 0x7f
			if n > 4 || pos+2+n > len(b) {
				return
			}
			l = 0
			for i := 0; i < n; i++ {
				l = l<<8 | int(b[pos+2+i])
			}
			hdr += n
		}
		if l < 0 || pos+hdr+l > len(b) {
			return
		}
		*out = append(*out, tlv{base + pos, hdr, l})
		if tag&0x20 != 0 && l > 0 {
			walkDER(b[pos+hdr:pos+hdr+l], base+pos+hdr, depth+1, out)
		}
		pos += hdr + l
	}
}

// mutateDER applies n structure-aware edits to a DER/BER blob.
func mutateDER(r *rand.Rand, b []byte, n int) ([]byte, string) {
	b = append([]byte(nil), b...)
	var desc []string
	for i := 0; i < n; i++ {
		var ts []tlv
		walkDER(b, 0, 0, &ts)
		if len(ts) == 0 || r.IntN(6) == 0 {
			var d string
			b, d = mutateBytes(r, b, nil, 1)
			desc = append(desc, d)
			continue
		}
		t := ts[r.IntN(len(ts))]
		switch r.IntN(9) {
		case 0: // length field -> extreme encodings
			v := [][]byte{{0x80}, {0x84, 0xff, 0xff, 0xff, 0xff}, {0x88, 0x7f, 0xff, 0xff, 0xff, 0xff, 0xff, 0xff, 0xff}, {0x00}, {0x7f}, {0x81, 0x00},
				{0x82, 0xff, 0xff}, {0x84, 0x80, 0x00, 0x00, 0x00}, {0xff}, {0x89, 1, 2, 3, 4, 5, 6, 7, 8, 9}, {0x83, 0x01, 0x00, 0x00}}[r.IntN(11)]
			b = splice(b, t.off+1, t.hdr-1, v)
			desc = append(desc, fmt.Sprintf("len@%d=%x", t.off, v))
		case 1: // length off by a little
			if t.hdr == 2 {
				b[t.off+1] = byte(int(b[t.off+1]) + []int{1, -1, 2, 10}[r.IntN(4)])
			} else {
				b[t.off+t.hdr-1] += byte(1 + r.IntN(3))
			}
			desc = append(desc, fmt.Sprintf("len±@%d", t.off))
		case 2: // tag change
			v := []byte{0x30, 0x31, 0x02, 0x04, 0x06, 0x05, 0xa0, 0xa1, 0x24, 0x1f, 0xff, 0x00, 0x17, 0x18, 0x0c, 0x13, 0x03, 0x01, 0xbf}[r.IntN(19)]
			b[t.off] = v
			desc = append(desc, fmt.Sprintf("tag@%d=%02x", t.off, v))
		case 3: // truncate inside
			b = b[:t.off+r.IntN(t.hdr+t.length+1)]
			desc = append(desc, fmt.Sprintf("trunc@%d", len(b)))
		case 4: // empty the content
			b = splice(b, t.off+t.hdr, t.length, nil)
			desc = append(desc, fmt.Sprintf("empty@%d", t.off))
		case 5: // duplicate the element
			blk := append([]byte(nil), b[t.off:t.off+t.hdr+t.length]...)
			b = splice(b, t.off, 0, blk)
			desc = append(desc, fmt.Sprintf("dup@%d", t.off))
		case 6: // indefinite-length nesting bomb in place of the content
			// 20 000 levels (80 KB) stay far below the CPU bound even with pdfcpu's quadratic re-encoding;
			// the scale at which that shows decisively is a dedicated probe (probes.go).
			depth := []int{10, 100, 201, 1000, 5000, 20000}[r.IntN(6)]
			var v []byte
			if r.IntN(2) == 0 {
				v = append(bytes.Repeat([]byte{0x30, 0x80}, depth), bytes.Repeat([]byte{0, 0}, depth)...)
			} else {
				v = append(bytes.Repeat([]byte{0x24, 0x80}, depth), 0x04, 0x01, 0x41) // constructed octet strings
				v = append(v, bytes.Repeat([]byte{0, 0}, depth)...)
			}
			b = splice(b, t.off+t.hdr, t.length, v)
			desc = append(desc, fmt.Sprintf("nest@%d depth=%d", t.off, depth))
		case 7: // flip a content byte
			if t.length > 0 {
				at := t.off + t.hdr + r.IntN(t.length)
				b[at] ^= byte(1 + r.IntN(255))
				desc = append(desc, fmt.Sprintf("flip@%d", at))
			}
		case 8: // swap with another element
			o := ts[r.IntN(len(ts))]
			blk := append([]byte(nil), b[o.off:o.off+o.hdr+o.length]...)
			b = splice(b, t.off, t.hdr+t.length, blk)
			desc = append(desc, fmt.Sprintf("repl@%d<-%d", t.off, o.off))
		}
	}
	return b, strings.Join(desc, " ")
}

// ---------------------------------------------------------------------------
// signature dictionaries inside a signed PDF (in place: every offset stays valid)

var (
	reByteRange = regexp.MustCompile(`/ByteRange\s*\[([^\]]*)\]`)
	reContents  = regexp.MustCompile(`/Contents\s*<([0-9A-Fa-f\s]{64,})>`)
	reSubFilter = regexp.MustCompile(`/SubFilter\s*/([A-Za-z0-9.#_]+)`)
	reCertHex   = regexp.MustCompile(`/Cert\s*<([0-9A-Fa-f\s]{64,})>`)
)

var subFilters = []string{"adbe.pkcs7.detached", "adbe.pkcs7.sha1", "adbe.x509.rsa_sha1", "ETSI.CAdES.detached", "ETSI.RFC3161", "x", "adbe.pkcs7.s4"}

// firstPKCS7 extracts the first signature /Contents blob of a signed PDF (trailing zero padding removed).
func firstPKCS7(pdf []byte) []byte {
	m := reContents.FindSubmatch(pdf)
	if m == nil {
		return nil
	}
	raw, err := hex.DecodeString(string(bytes.Join(bytes.Fields(m[1]), nil)))
	if err != nil {
		return nil
	}
	var ts []tlv
	walkDER(raw, 0, 0, &ts)
	if len(ts) > 0 && ts[0].off == 0 {
		return raw[:ts[0].hdr+ts[0].length]
	}
	return bytes.TrimRight(raw, "\x00")
}

// mutateSignedPDF edits /ByteRange, /Contents, /SubFilter, /Cert of a signed document in place.
func mutateSignedPDF(r *rand.Rand, pdf []byte, n int) ([]byte, string) {
	b := append([]byte(nil), pdf...)
	var desc []string
	pick := func(re *regexp.Regexp) []int {
		all := re.FindAllSubmatchIndex(b, -1)
		if len(all) == 0 {
			return nil
		}
		return all[r.IntN(len(all))]
	}
	for i := 0; i < n; i++ {
		switch r.IntN(6) {
		case 0, 1: // ByteRange numbers
			m := pick(reByteRange)
			if m == nil {
				continue
			}
			f := strings.Fields(string(b[m[2]:m[3]]))
			if len(f) == 0 {
				continue
			}
			size := int64(len(b))
			vals := []int64{0, -1, 1, size, size - 1, size + 1, size * 2, 1 << 31, 1<<63 - 1, -1 << 63, size / 2}
			switch r.IntN(4) {
			case 0:
				f[r.IntN(len(f))] = strconv.FormatInt(vals[r.IntN(len(vals))], 10)
			case 1:
				f = f[:r.IntN(len(f))] // too few
			case 2:
				f = append(f, f...) // too many
			case 3: // overlapping / reversed ranges
				if len(f) >= 4 {
					f[0], f[2] = f[2], f[0]
				}
			}
			v := strings.Join(f, " ")
			if len(v) > m[3]-m[2] {
				v = v[:m[3]-m[2]]
			}
			b, _ = replaceAt(b, m[2], m[3], v, true)
			desc = append(desc, "byterange=["+v+"]")
		case 2, 3, 4: // PKCS#7 / certificate blob
			re := reContents
			if r.IntN(5) == 0 {
				re = reCertHex
			}
			m := pick(re)
			if m == nil {
				continue
			}
			raw, err := hex.DecodeString(string(bytes.Join(bytes.Fields(b[m[2]:m[3]]), nil)))
			if err != nil {
				continue
			}
			var ts []tlv
			walkDER(raw, 0, 0, &ts)
			blob := raw
			if len(ts) > 0 && ts[0].off == 0 {
				blob = raw[:ts[0].hdr+ts[0].length]
			}
			mut, d := mutateDER(r, blob, 1+r.IntN(3))
			h := hex.EncodeToString(mut)
			room := m[3] - m[2]
			if len(h) > room {
				h = h[:room&^1]
			}
			h += strings.Repeat("0", room-len(h))
			copy(b[m[2]:m[3]], h)
			desc = append(desc, "der("+d+")")
		case 5: // SubFilter
			m := pick(reSubFilter)
			if m == nil {
				continue
			}
			v := subFilters[r.IntN(len(subFilters))]
			nb, ok := replaceAt(b, m[2], m[3], v, true)
			if ok {
				b = nb
				desc = append(desc, "subfilter="+v)
			}
		}
	}
	return b, strings.Join(desc, " ")
}

// ---------------------------------------------------------------------------
// JSON / CSV mutations

var (
	reJSONString = regexp.MustCompile(`"(?:[^"\\]|\\.)*"`)
	reJSONNumber = regexp.MustCompile(`-?\d+(?:\.\d+)?(?:[eE][+-]?\d+)?`)
	reJSONLit    = regexp.MustCompile(`\b(?:true|false|null)\b`)
)

var jsonValues = []string{"null", "true", "false", "0", "-1", "1e999", "-0", "2147483648", "9223372036854775808", "1e-400", "0.000000000000000000001",
	`""`, `"\u0000"`, `"\ud800"`, `"` + strings.Repeat("A", 5000) + `"`, `"../../x"`, `"#zzzzzz"`, `"-5"`, `"1e309"`, `[]`, `{}`, `[[]]`, `[null]`, `{"":{}}`,
	`"\n"`, `"(\\)"`, `" "`, `"0 0 0"`, `"A4L"`, `"@x"`, `"$1"`, `"100%"`, `-2147483649`, `255`, `256`, `65536`, `0.5`, `1000000`}

var jsonSameType = [3][]string{
	{`""`, `" "`, `"\u0000"`, `"\ud800"`, `"` + strings.Repeat("A", 5000) + `"`, `"../../x"`, `"#zzzzzz"`, `"#12"`, `"-5"`, `"1e309"`, `"\n\n\n"`, `"(\\)"`, `"0 0 0"`, `"A4L"`, `"@x"`, `"$1"`,
		`"100%"`, `"Helvetica"`, `"NoSuchFont"`, `"Roboto-Regular"`, `"2023-02-30"`, `"99.99.9999"`, `"tl"`, `"center"`, `"1 2 3 4 5"`, `"0"`, `"true"`, `"\u202e\u0627"`, `"` + strings.Repeat("\\u00e4", 300) + `"`, `"Off"`, `"Yes"`},
	{"0", "-1", "1", "-0", "0.5", "255", "256", "65535", "65536", "1000000", "2147483647", "2147483648", "-2147483649", "9223372036854775807", "1e18", "1e-400", "0.000000000000000000001", "3.4e38", "1e308", "-1e308", "99999", "360", "90", "-90", "7"},
	{"true", "false", "null"},
}

func mutateJSON(r *rand.Rand, b []byte, n int) ([]byte, string) {
	b = append([]byte(nil), b...)
	var desc []string
	for i := 0; i < n; i++ {
		switch r.IntN(8) {
		case 0, 1, 2: // a value -> something else
			ty := r.IntN(3)
			re := []*regexp.Regexp{reJSONString, reJSONNumber, reJSONLit}[ty]
			all := re.FindAllIndex(b, -1)
			if len(all) == 0 {
				continue
			}
			m := all[r.IntN(len(all))]
			v := jsonValues[r.IntN(len(jsonValues))]
			if r.IntN(5) < 3 { // mostly type-preserving, so that the decoder accepts it and the value reaches pdfcpu
				v = jsonSameType[ty][r.IntN(len(jsonSameType[ty]))]
			}
			// a string directly followed by ':' is a key: keep it a string
			rest := bytes.TrimLeft(b[m[1]:], " \t\r\n")
			if len(rest) > 0 && rest[0] == ':' && v[0] != '"' {
				v = `"` + strings.Trim(v, `"`) + `"`
			}
			desc = append(desc, fmt.Sprintf("val@%d=%.20s", m[0], v))
			b = splice(b, m[0], m[1]-m[0], []byte(v))
		case 3: // rename / duplicate a key
			all := reJSONString.FindAllIndex(b, -1)
			if len(all) < 2 {
				continue
			}
			m, o := all[r.IntN(len(all))], all[r.IntN(len(all))]
			v := append([]byte(nil), b[o[0]:o[1]]...)
			desc = append(desc, fmt.Sprintf("str@%d<-@%d", m[0], o[0]))
			b = splice(b, m[0], m[1]-m[0], v)
		case 4: // delete a structural character
			all := regexp.MustCompile(`[{}\[\],:]`).FindAllIndex(b, -1)
			if len(all) == 0 {
				continue
			}
			m := all[r.IntN(len(all))]
			desc = append(desc, fmt.Sprintf("del%c@%d", b[m[0]], m[0]))
			b = splice(b, m[0], 1, nil)
		case 5: // deep nesting in place of a value
			all := reJSONNumber.FindAllIndex(b, -1)
			if len(all) == 0 {
				all = reJSONString.FindAllIndex(b, -1)
			}
			if len(all) == 0 {
				continue
			}
			m := all[r.IntN(len(all))]
			depth := []int{100, 9999, 10001, 100000}[r.IntN(4)]
			v := strings.Repeat("[", depth) + strings.Repeat("]", depth)
			if r.IntN(2) == 0 {
				v = strings.Repeat(`{"kids":[`, depth) + strings.Repeat(`]}`, depth)
			}
			desc = append(desc, fmt.Sprintf("nest@%d depth=%d", m[0], depth))
			b = splice(b, m[0], m[1]-m[0], []byte(v))
		case 6: // duplicate an object / array element block
			if len(b) < 4 {
				continue
			}
			at := r.IntN(len(b))
			o := bytes.IndexByte(b[at:], '{')
			if o < 0 {
				continue
			}
			c := bytes.IndexByte(b[at+o:], '}')
			if c < 0 {
				continue
			}
			blk := append([]byte(nil), b[at+o:at+o+c+1]...)
			blk = append(blk, ',')
			desc = append(desc, fmt.Sprintf("dupobj@%d", at+o))
			b = splice(b, at+o, 0, bytes.Repeat(blk, 1+r.IntN(3)))
		case 7:
			var d string
			b, d = mutateBytes(r, b, nil, 1)
			desc = append(desc, d)
		}
	}
	return b, strings.Join(desc, " ")
}

func mutateCSV(r *rand.Rand, b []byte, n int) ([]byte, string) {
	b = append([]byte(nil), b...)
	var desc []string
	cells := []string{"", `"`, `""`, `"a,b"`, "@filename", "@", "../x", strings.Repeat("x", 5000), "\x00", "true", "-1", "1e999", "a\nb", `"unterminated`, ",,,,,,,,,,,,"}
	for i := 0; i < n; i++ {
		switch r.IntN(5) {
		case 0, 1: // a cell
			all := regexp.MustCompile(`[^,\r\n]+`).FindAllIndex(b, -1)
			if len(all) == 0 {
				continue
			}
			m := all[r.IntN(len(all))]
			v := cells[r.IntN(len(cells))]
			desc = append(desc, fmt.Sprintf("cell@%d=%.12q", m[0], v))
			b = splice(b, m[0], m[1]-m[0], []byte(v))
		case 2: // drop / add a separator
			from := r.IntN(len(b) + 1)
			if at := bytes.IndexByte(b[from:], ','); at >= 0 {
				at += from
				b = splice(b, at, 1, []byte([]string{"", ",,", ";", "\t", "\n"}[r.IntN(5)]))
				desc = append(desc, fmt.Sprintf("sep@%d", at))
			}
		case 3: // duplicate the header / a line
			lines := bytes.SplitAfter(b, []byte("\n"))
			l := lines[r.IntN(len(lines))]
			b = append(append([]byte(nil), l...), b...)
			desc = append(desc, "dupline")
		case 4:
			var d string
			b, d = mutateBytes(r, b, nil, 1)
			desc = append(desc, d)
		}
	}
	return b, strings.Join(desc, " ")
}
