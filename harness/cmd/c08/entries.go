package main

import (
	"bytes"
	"fmt"
	"io"
	"math/rand/v2"
	"os"
	"path/filepath"

	"github.com/pdfcpu/pdfcpu/pkg/api"
	"github.com/pdfcpu/pdfcpu/pkg/font"
	"github.com/pdfcpu/pdfcpu/pkg/pdfcpu"
	"github.com/pdfcpu/pdfcpu/pkg/pdfcpu/form"
	"github.com/pdfcpu/pdfcpu/pkg/pdfcpu/model"
	"github.com/pdfcpu/pdfcpu/pkg/pdfcpu/pkcs7"
	"github.com/pdfcpu/pdfcpu/pkg/pdfcpu/types"
)

// env is what one call of one entry point sees.
type env struct {
	in     []byte     // the hostile input (PDF, font, certificate, PKCS#7, JSON, CSV)
	ext    string     // extension for entry points that take the input as a file
	aux    []byte     // a valid companion PDF (JSON/CSV cases, merge partner)
	work   string     // empty scratch directory of this call (disk entries only)
	fonts  string     // font.UserFontDir of the child
	certs  string     // model.TrustedCertDir of the child
	rng    *rand.Rand // parameters of the call
	inFile string     // path of the input on disk (already written by the parent)
}

func (e *env) rs() *bytes.Reader  { return bytes.NewReader(e.in) }
func (e *env) ars() *bytes.Reader { return bytes.NewReader(e.aux) }

func conf() *model.Configuration {
	c := model.NewDefaultConfiguration()
	c.Offline = true
	return c
}

func confMode(mode int) *model.Configuration {
	c := conf()
	c.ValidationMode = mode
	return c
}

func drain(r io.Reader) {
	if r != nil {
		_, _ = io.Copy(io.Discard, io.LimitReader(r, 64<<20))
	}
}

func (e *env) pages() []string {
	return [][]string{nil, {"1"}, {"1-"}, {"l"}, {"odd"}, {"2-3"}, {"even", "1"}, {"-2"}}[e.rng.IntN(8)]
}

// writeIn places the input under the call's work directory with the case's extension.
func (e *env) writeIn(base string) (string, error) {
	fn := filepath.Join(e.work, base+e.ext)
	return fn, os.WriteFile(fn, e.in, 0o644)
}

type entry struct {
	name string
	disk bool // needs an empty work directory
	f    func(e *env) error
}

const sampleBookmarks = `{"bookmarks":[{"title":"A","page":1,"color":{"R":0,"G":1,"B":0},"kids":[{"title":"B","page":1,"bold":true}]},{"title":"C","page":1}]}`

// pdfEntries take the hostile bytes as the PDF. The first four run for every PDF case.
var pdfEntries = []entry{
	{"ReadContext", false, func(e *env) error { _, err := api.ReadContext(e.rs(), conf()); return err }},
	{"ValidateRelaxed", false, func(e *env) error { return api.Validate(e.rs(), confMode(model.ValidationRelaxed)) }},
	{"ValidateStrict", false, func(e *env) error { return api.Validate(e.rs(), confMode(model.ValidationStrict)) }},
	{"Optimize", false, func(e *env) error { return api.Optimize(e.rs(), io.Discard, conf()) }},

	{"PDFInfo", false, func(e *env) error { _, err := api.PDFInfo(e.rs(), "in.pdf", e.pages(), true, conf()); return err }},
	{"Images", false, func(e *env) error { _, err := api.Images(e.rs(), e.pages(), conf()); return err }},
	{"ListImages", false, func(e *env) error { _, err := api.ListImages(e.rs(), nil, conf()); return err }},
	{"ExtractImagesRaw", false, func(e *env) error {
		mm, err := api.ExtractImagesRaw(e.rs(), e.pages(), conf())
		for _, m := range mm {
			for _, img := range m {
				drain(img.Reader)
			}
		}
		return err
	}},
	{"ExtractImages", false, func(e *env) error {
		return api.ExtractImages(e.rs(), nil, func(img model.Image, _ bool, _ int) error { drain(img.Reader); return nil }, conf())
	}},
	{"ExtractFonts", false, func(e *env) error {
		return api.ExtractFonts(e.rs(), e.pages(), func(f pdfcpu.Font) error { drain(f.Reader); return nil }, conf())
	}},
	{"ExtractContent", false, func(e *env) error {
		return api.ExtractContent(e.rs(), e.pages(), func(r io.Reader, _ int) error { drain(r); return nil }, conf())
	}},
	{"ExtractPages", false, func(e *env) error {
		return api.ExtractPages(e.rs(), e.pages(), func(r io.Reader, _ int) error { drain(r); return nil }, conf())
	}},
	{"ExtractMetadata", false, func(e *env) error {
		return api.ExtractMetadata(e.rs(), func(m pdfcpu.Metadata) error { drain(m.Reader); return nil }, conf())
	}},
	{"Attachments", false, func(e *env) error { _, err := api.Attachments(e.rs(), conf()); return err }},
	{"ExtractAttachmentsRaw", false, func(e *env) error {
		aa, err := api.ExtractAttachmentsRaw(e.rs(), "", nil, conf())
		for _, a := range aa {
			drain(a.Reader)
		}
		return err
	}},
	{"ExtractAttachments", true, func(e *env) error { return api.ExtractAttachments(e.rs(), e.work, nil, conf()) }},
	{"RemoveAttachments", false, func(e *env) error { return api.RemoveAttachments(e.rs(), io.Discard, nil, conf()) }},

	{"Trim", false, func(e *env) error { return api.Trim(e.rs(), io.Discard, e.pages(), conf()) }},
	{"Collect", false, func(e *env) error {
		return api.Collect(e.rs(), io.Discard, [][]string{{"1", "1"}, {"l", "1"}, {"2", "1", "2"}}[e.rng.IntN(3)], conf())
	}},
	{"Rotate", false, func(e *env) error {
		return api.Rotate(e.rs(), io.Discard, []int{90, 180, 270, -90}[e.rng.IntN(4)], e.pages(), conf())
	}},
	{"InsertPages", false, func(e *env) error {
		var pc *pdfcpu.PageConfiguration
		if e.rng.IntN(2) == 0 {
			pc = pdfcpu.DefaultPageConfiguration()
		}
		return api.InsertPages(e.rs(), io.Discard, e.pages(), e.rng.IntN(2) == 0, pc, conf())
	}},
	{"RemovePages", false, func(e *env) error {
		return api.RemovePages(e.rs(), io.Discard, [][]string{{"1"}, {"l"}, {"2-"}, {"odd"}}[e.rng.IntN(4)], conf())
	}},
	{"SplitRaw", false, func(e *env) error {
		ps, err := api.SplitRaw(e.rs(), 1+e.rng.IntN(2), conf())
		for _, p := range ps {
			if p != nil {
				drain(p.Reader)
			}
		}
		return err
	}},
	{"SplitBookmarks", true, func(e *env) error { return api.Split(e.rs(), e.work, "out", 0, conf()) }},
	{"NUp", false, func(e *env) error {
		nup, err := api.PDFNUpConfig([]int{2, 4, 9}[e.rng.IntN(3)], "", conf())
		if err != nil {
			return err
		}
		return api.NUp(e.rs(), io.Discard, nil, e.pages(), nup, conf())
	}},
	{"Booklet", false, func(e *env) error {
		nup, err := api.PDFBookletConfig(4, "", conf())
		if err != nil {
			return err
		}
		return api.Booklet(e.rs(), io.Discard, nil, nil, nup, conf())
	}},
	{"Resize", false, func(e *env) error {
		rc, err := pdfcpu.ParseResizeConfig([]string{"scale:0.5", "form:A5", "dim:200 300, enforce:true"}[e.rng.IntN(3)], types.POINTS)
		if err != nil {
			return err
		}
		return api.Resize(e.rs(), io.Discard, e.pages(), rc, conf())
	}},
	{"Crop", false, func(e *env) error {
		b, err := api.Box([]string{"10", "[0 0 100 100]", "0.1 0.2 0.1 0.2"}[e.rng.IntN(3)], types.POINTS)
		if err != nil {
			return err
		}
		return api.Crop(e.rs(), io.Discard, e.pages(), b, conf())
	}},
	{"Zoom", false, func(e *env) error {
		z, err := pdfcpu.ParseZoomConfig([]string{"factor:0.5", "factor:2", "hmargin:20"}[e.rng.IntN(3)], types.POINTS)
		if err != nil {
			return err
		}
		return api.Zoom(e.rs(), io.Discard, e.pages(), z, conf())
	}},
	{"Poster", true, func(e *env) error {
		c, err := pdfcpu.ParseCutConfigForPoster("f:A5", types.POINTS)
		if err != nil {
			return err
		}
		return api.Poster(e.rs(), e.work, "out", []string{"1"}, c, conf())
	}},
	{"Boxes", false, func(e *env) error { _, err := api.Boxes(e.rs(), e.pages(), conf()); return err }},
	{"PageDims", false, func(e *env) error { _, err := api.PageDims(e.rs(), conf()); return err }},
	{"PageCount", false, func(e *env) error { _, err := api.PageCount(e.rs(), conf()); return err }},

	{"AddWatermarksText", false, func(e *env) error {
		wm, err := api.TextWatermark("C08 ä", []string{"", "rot:45, scale:0.5 abs", "pos:tl, fillc:#ff0000, mode:2"}[e.rng.IntN(3)], e.rng.IntN(2) == 0, false, types.POINTS)
		if err != nil {
			return err
		}
		return api.AddWatermarks(e.rs(), io.Discard, e.pages(), wm, conf())
	}},
	{"RemoveWatermarks", false, func(e *env) error { return api.RemoveWatermarks(e.rs(), io.Discard, nil, conf()) }},
	{"HasWatermarks", false, func(e *env) error { _, err := api.HasWatermarks(e.rs(), conf()); return err }},
	// the hostile document is the stamp, a valid document receives it
	{"StampFromPDF", false, func(e *env) error {
		wm, err := api.PDFWatermarkForReadSeeker(e.rs(), 1, "", e.rng.IntN(2) == 0, false, types.POINTS)
		if err != nil {
			return err
		}
		return api.AddWatermarks(e.ars(), io.Discard, nil, wm, conf())
	}},

	{"FormFields", false, func(e *env) error { _, err := api.FormFields(e.rs(), conf()); return err }},
	{"ListFormFields", false, func(e *env) error { _, err := api.ListFormFields(e.rs(), conf()); return err }},
	{"ExportFormJSON", false, func(e *env) error { return api.ExportFormJSON(e.rs(), io.Discard, "in.pdf", conf()) }},
	{"FillFormExported", false, func(e *env) error {
		var js bytes.Buffer
		if err := api.ExportFormJSON(e.rs(), &js, "in.pdf", conf()); err != nil {
			return err
		}
		return api.FillForm(e.rs(), &js, io.Discard, conf())
	}},
	{"ResetFormFields", false, func(e *env) error { return api.ResetFormFields(e.rs(), io.Discard, nil, conf()) }},
	{"LockFormFields", false, func(e *env) error { return api.LockFormFields(e.rs(), io.Discard, nil, conf()) }},
	{"RemoveFormFields", false, func(e *env) error {
		return api.RemoveFormFields(e.rs(), io.Discard, []string{"1", "firstName", "Signature1"}, conf())
	}},

	{"ValidateSignatures", false, func(e *env) error {
		_, err := api.ValidateSignaturesRaw(e.rs(), e.rng.IntN(4) != 0, conf())
		return err
	}},
	{"RemoveSignatures", false, func(e *env) error { return api.RemoveSignatures(e.rs(), io.Discard, conf()) }},

	{"Bookmarks", false, func(e *env) error { _, err := api.Bookmarks(e.rs(), conf()); return err }},
	{"ListBookmarks", false, func(e *env) error { _, err := api.ListBookmarks(e.rs(), conf()); return err }},
	{"ExportBookmarksJSON", false, func(e *env) error { return api.ExportBookmarksJSON(e.rs(), io.Discard, "in.pdf", conf()) }},
	{"ImportBookmarks", false, func(e *env) error {
		return api.ImportBookmarks(e.rs(), bytes.NewReader([]byte(sampleBookmarks)), io.Discard, e.rng.IntN(2) == 0, conf())
	}},
	{"AddBookmarks", false, func(e *env) error {
		bms := []pdfcpu.Bookmark{{Title: "X", PageFrom: 1, Kids: []pdfcpu.Bookmark{{Title: "Y", PageFrom: 1}}}}
		return api.AddBookmarks(e.rs(), io.Discard, bms, e.rng.IntN(2) == 0, conf())
	}},
	{"RemoveBookmarks", false, func(e *env) error { return api.RemoveBookmarks(e.rs(), io.Discard, conf()) }},

	{"Annotations", false, func(e *env) error { _, err := api.Annotations(e.rs(), e.pages(), conf()); return err }},
	{"RemoveAnnotations", false, func(e *env) error {
		return api.RemoveAnnotations(e.rs(), io.Discard, nil, nil, nil, conf())
	}},

	{"MergeRawFirst", false, func(e *env) error {
		return api.MergeRaw([]io.ReadSeeker{e.rs(), e.ars()}, io.Discard, e.rng.IntN(2) == 0, conf())
	}},
	{"MergeRawSecond", false, func(e *env) error {
		return api.MergeRaw([]io.ReadSeeker{e.ars(), e.rs()}, io.Discard, false, conf())
	}},
	{"MergeCreateZip", false, func(e *env) error { return api.MergeCreateZip(e.rs(), e.ars(), io.Discard, conf()) }},

	{"Keywords", false, func(e *env) error { _, err := api.Keywords(e.rs(), conf()); return err }},
	{"AddKeywords", false, func(e *env) error { return api.AddKeywords(e.rs(), io.Discard, []string{"c08", "kö"}, conf()) }},
	{"Properties", false, func(e *env) error { _, err := api.Properties(e.rs(), conf()); return err }},
	{"PermissionsList", false, func(e *env) error { _, err := api.PermissionsList(e.rs(), conf()); return err }},
	{"ViewerPreferences", false, func(e *env) error { _, _, err := api.ViewerPreferences(e.rs(), conf()); return err }},
	{"ListViewerPreferences", false, func(e *env) error { _, err := api.ListViewerPreferencesJSON(e.rs(), true, conf()); return err }},
	{"PageLayout", false, func(e *env) error { _, err := api.PageLayout(e.rs(), conf()); return err }},
	{"PageMode", false, func(e *env) error { _, err := api.PageMode(e.rs(), conf()); return err }},

	{"Encrypt", false, func(e *env) error {
		c := model.NewAESConfiguration("u", "o", []int{128, 256}[e.rng.IntN(2)])
		c.Offline = true
		return api.Encrypt(e.rs(), io.Discard, c)
	}},
	{"Decrypt", false, func(e *env) error {
		c := conf()
		c.UserPW, c.OwnerPW = "", []string{"", "o", "owner"}[e.rng.IntN(3)]
		return api.Decrypt(e.rs(), io.Discard, c)
	}},
}

const nFixedPDF = 4 // ReadContext, ValidateRelaxed, ValidateStrict, Optimize

// auxEntries take the hostile bytes as something else; keyed by case kind.
var auxEntries = map[string][]entry{
	"font": {
		{"InstallFontFromBytes", true, func(e *env) error {
			return font.InstallFontFromBytes(filepath.Join(e.work), "C08Font-Regular", e.in)
		}},
		{"InstallFonts", true, func(e *env) error {
			fn, err := e.writeIn("c08font")
			if err != nil {
				return fmt.Errorf("harness: %w", err)
			}
			// install into a private font directory so that an accepted mutant cannot influence later calls
			old := font.UserFontDir
			font.UserFontDir = filepath.Join(e.work, "userfonts")
			_ = os.Mkdir(font.UserFontDir, 0o755)
			defer func() { font.UserFontDir = old; _ = font.ReloadUserFonts() }()
			return api.InstallFonts([]string{fn})
		}},
	},
	"cert": {
		{"ImportCertificates", true, func(e *env) error {
			fn, err := e.writeIn("c08cert")
			if err != nil {
				return fmt.Errorf("harness: %w", err)
			}
			old := model.TrustedCertDir
			model.TrustedCertDir = filepath.Join(e.work, "trust")
			_ = os.Mkdir(model.TrustedCertDir, 0o755)
			defer func() { model.TrustedCertDir = old; pdfcpu.InvalidateCertificatePool() }()
			_, err = api.ImportCertificates([]string{fn})
			return err
		}},
		{"InspectCertificates", true, func(e *env) error {
			fn, err := e.writeIn("c08cert")
			if err != nil {
				return fmt.Errorf("harness: %w", err)
			}
			_, err = api.InspectCertificates([]string{fn})
			return err
		}},
		{"LoadCertificatesFile", true, func(e *env) error {
			fn, err := e.writeIn("c08cert")
			if err != nil {
				return fmt.Errorf("harness: %w", err)
			}
			_, err = pdfcpu.LoadCertificatesFile(fn)
			return err
		}},
		{"LoadCertificates", true, func(e *env) error {
			// the trust store holds the hostile file
			old := model.TrustedCertDir
			model.TrustedCertDir = e.work
			defer func() { model.TrustedCertDir = old; pdfcpu.InvalidateCertificatePool() }()
			if _, err := e.writeIn("c08cert"); err != nil {
				return fmt.Errorf("harness: %w", err)
			}
			pdfcpu.InvalidateCertificatePool()
			return pdfcpu.LoadCertificates()
		}},
	},
	"pkcs7": {
		{"pkcs7.Parse", false, func(e *env) error { _, err := pkcs7.Parse(e.in); return err }},
	},
	"json-form": {
		{"FillForm", false, func(e *env) error { return api.FillForm(e.ars(), bytes.NewReader(e.in), io.Discard, conf()) }},
		{"MultiFillFormJSON", true, func(e *env) error {
			pdf := filepath.Join(e.work, "form.pdf")
			if err := os.WriteFile(pdf, e.aux, 0o644); err != nil {
				return fmt.Errorf("harness: %w", err)
			}
			out := filepath.Join(e.work, "out")
			_ = os.Mkdir(out, 0o755)
			return api.MultiFillForm(pdf, bytes.NewReader(e.in), out, "form.pdf", form.JSON, e.rng.IntN(2) == 0, conf())
		}},
	},
	"csv-form": {
		{"MultiFillFormCSV", true, func(e *env) error {
			pdf := filepath.Join(e.work, "form.pdf")
			if err := os.WriteFile(pdf, e.aux, 0o644); err != nil {
				return fmt.Errorf("harness: %w", err)
			}
			out := filepath.Join(e.work, "out")
			_ = os.Mkdir(out, 0o755)
			return api.MultiFillForm(pdf, bytes.NewReader(e.in), out, "form.pdf", form.CSV, e.rng.IntN(2) == 0, conf())
		}},
	},
	"json-bookmarks": {
		{"ImportBookmarksJSON", false, func(e *env) error {
			return api.ImportBookmarks(e.ars(), bytes.NewReader(e.in), io.Discard, e.rng.IntN(2) == 0, conf())
		}},
	},
	"json-viewerpref": {
		{"SetViewerPreferencesJSON", false, func(e *env) error {
			return api.SetViewerPreferencesFromJSONBytes(e.ars(), io.Discard, e.in, conf())
		}},
	},
	"json-create": {
		{"CreateJSON", false, func(e *env) error { return api.Create(nil, bytes.NewReader(e.in), io.Discard, conf()) }},
		{"CreateJSONAppend", false, func(e *env) error { return api.Create(e.ars(), bytes.NewReader(e.in), io.Discard, conf()) }},
	},
}

func findEntry(kind, name string) *entry {
	for i := range pdfEntries {
		if pdfEntries[i].name == name {
			return &pdfEntries[i]
		}
	}
	for _, es := range auxEntries {
		for i := range es {
			if es[i].name == name {
				return &es[i]
			}
		}
	}
	return nil
}

// isPDFKind reports whether cases of this kind feed the hostile bytes in as the PDF.
func isPDFKind(kind string) bool {
	_, aux := auxEntries[kind]
	return !aux
}
