package main

import (
	"encoding/json"
	"fmt"
	"math/rand/v2"
	"os"
	"path/filepath"
	"runtime"
	"runtime/debug"
	"strconv"
	"strings"
	"sync/atomic"
	"syscall"
	"time"

	"github.com/pdfcpu/pdfcpu/pkg/api"
	"github.com/pdfcpu/pdfcpu/pkg/font"
	"github.com/pdfcpu/pdfcpu/pkg/pdfcpu/model"
)

// Limits of a child. CPU: the property's time clause restated in logical units (DESIGN.md C08).
const (
	cpuBudgetPer256K = 20 * time.Second  // per call, inputs <= 256 KB; proportional above
	wallWatchdog     = 300 * time.Second // per call; firing is inconclusive, never a verdict
	maxStackBytes    = 64 << 20
	softMemLimit     = 3 << 30
	hardASLimit      = 4 << 30
	exitCPU          = 73
	exitWall         = 74
	exitHarness      = 70 // the child itself is broken (2 is what the Go runtime uses for crashes)
)

// manifest is what the parent writes into the batch directory before it starts a child.
type manifest struct {
	Cases   []genCase `json:"cases"` // inputs are in <dir>/in/<id>.bin
	Repo    string    `json:"repo"`
	FontDir string    `json:"font_dir"` // read-only user font directory shared by all children
	Mult    int       `json:"mult"`     // CPU budget multiplier (2 when a candidate is re-run alone)
	Ungated bool      `json:"ungated"`  // single-call re-run: no gating, parameters of Cases[i].ParamCall
	// NoBallast: batches of tiny documents (core-struct) run without the GC ballast: their calls allocate
	// little, and a child of a few hundred short calls would spend its time faulting in a heap that
	// is allowed to grow to twice the ballast before the first collection.
	NoBallast bool `json:"no_ballast,omitempty"`
}

// rec is one line of <dir>/log. "B" is appended (one write(2), O_APPEND) BEFORE the call, "E" after
// it: a "B" without "E" names the call during which the child died.
type rec struct {
	T     string   `json:"t"`            // B | E
	Case  int      `json:"c"`            // index into manifest.Cases
	Call  int      `json:"k"`            // index into Plan
	Entry string   `json:"e,omitempty"`  //
	St    string   `json:"st,omitempty"` // ok | err | panic | skip | cpu | wall
	CPUms int64    `json:"cpu,omitempty"`
	Err   string   `json:"err,omitempty"`
	Frame string   `json:"frame,omitempty"` // innermost pdfcpu frame of a recovered panic
	PVal  string   `json:"pval,omitempty"`
	Fault bool     `json:"fault,omitempty"` // the panic value was a fault.Panic (escaped although "controlled")
	Trace []string `json:"trace,omitempty"`
}

func cpuNow() time.Duration {
	var ru syscall.Rusage
	if err := syscall.Getrusage(syscall.RUSAGE_SELF, &ru); err != nil {
		return 0
	}
	return time.Duration(ru.Utime.Nano() + ru.Stime.Nano())
}

func budgetFor(size, mult int) time.Duration {
	units := (size + (256 << 10) - 1) / (256 << 10)
	if units < 1 {
		units = 1
	}
	if mult < 1 {
		mult = 1
	}
	return cpuBudgetPer256K * time.Duration(units*mult)
}

type childState struct {
	log      *os.File
	active   atomic.Bool
	startCPU atomic.Int64
	startWal atomic.Int64
	budget   atomic.Int64
	cur      atomic.Pointer[rec]
}

func (cs *childState) write(r rec) {
	b, _ := json.Marshal(r)
	b = append(b, '\n')
	if _, err := cs.log.Write(b); err != nil {
		fmt.Fprintf(os.Stderr, "c08 child: log write: %v\n", err)
		os.Exit(exitHarness)
	}
}

// watchdog: CPU seconds of the running call (decides "candidate"), wall clock (inconclusive only).
func (cs *childState) watchdog() {
	for {
		time.Sleep(25 * time.Millisecond)
		if !cs.active.Load() {
			continue
		}
		used := int64(cpuNow()) - cs.startCPU.Load()
		wall := time.Now().UnixNano() - cs.startWal.Load()
		st := ""
		switch {
		case used > cs.budget.Load():
			st = "cpu"
		case wall > int64(wallWatchdog):
			st = "wall"
		}
		if st == "" || !cs.active.Load() {
			continue
		}
		r := *cs.cur.Load()
		r.T, r.St, r.CPUms = "E", st, used/1e6
		cs.write(r)
		buf := make([]byte, 1<<20)
		buf = buf[:runtime.Stack(buf, true)]
		fmt.Fprintf(os.Stderr, "c08 child: %s watchdog fired in %s (cpu %d ms, wall %d ms)\n%s\n", st, r.Entry, used/1e6, wall/1e6, buf)
		if st == "cpu" {
			os.Exit(exitCPU)
		}
		os.Exit(exitWall)
	}
}

// gcBallast keeps the collector from running every few megabytes: pdfcpu allocates tens of MB per
// call while the live heap stays tiny, which costs more in collector wake-ups than in work. The
// ballast is never touched (no resident memory); with it a cycle starts after ~64 MB of garbage.
var gcBallast []byte

// childMain runs the calls of one batch, starting at C08_START = "case,call,readOK,validOK".
func childMain(dir string) {
	runtime.GOMAXPROCS(2)
	debug.SetMaxStack(maxStackBytes)
	debug.SetMemoryLimit(softMemLimit)
	lim := syscall.Rlimit{Cur: hardASLimit, Max: hardASLimit}
	if err := syscall.Setrlimit(syscall.RLIMIT_AS, &lim); err != nil {
		fmt.Fprintf(os.Stderr, "c08 child: setrlimit: %v\n", err)
	}
	die := func(format string, a ...any) {
		fmt.Fprintf(os.Stderr, "c08 child: "+format+"\n", a...)
		os.Exit(exitHarness)
	}
	mb, err := os.ReadFile(filepath.Join(dir, "manifest.json"))
	if err != nil {
		die("%v", err)
	}
	var mf manifest
	if err := json.Unmarshal(mb, &mf); err != nil {
		die("manifest: %v", err)
	}
	if os.Getenv("C08_NOBALLAST") == "" && !mf.NoBallast {
		gcBallast = make([]byte, 64<<20)
	}
	ci0, ki0, readOK, validOK := 0, 0, false, false
	if s := os.Getenv("C08_START"); s != "" {
		f := strings.Split(s, ",")
		if len(f) == 4 {
			ci0, _ = strconv.Atoi(f[0])
			ki0, _ = strconv.Atoi(f[1])
			readOK, validOK = f[2] == "1", f[3] == "1"
		}
	}
	api.DisableConfigDir()
	certs := filepath.Join(dir, "certs")
	_ = os.MkdirAll(certs, 0o755)
	font.UserFontDir = mf.FontDir
	model.TrustedCertDir = certs
	if mf.FontDir != "" {
		if err := font.LoadUserFonts(); err != nil {
			die("load user fonts: %v", err)
		}
	}
	cs := &childState{}
	cs.log, err = os.OpenFile(filepath.Join(dir, "log"), os.O_WRONLY|os.O_APPEND|os.O_CREATE, 0o644)
	if err != nil {
		die("%v", err)
	}
	go cs.watchdog()

	validAux := builtinAux()
	for ci := ci0; ci < len(mf.Cases); ci++ {
		c := &mf.Cases[ci]
		in, err := os.ReadFile(filepath.Join(dir, "in", strconv.Itoa(c.ID)+".bin"))
		if err != nil {
			die("input of case %d: %v", c.ID, err)
		}
		aux := validAux
		if c.Aux != "" {
			if aux, err = os.ReadFile(filepath.Join(mf.Repo, c.Aux)); err != nil {
				die("companion of case %d: %v", c.ID, err)
			}
		}
		pdf := isPDFKind(c.Kind)
		if ci != ci0 {
			readOK, validOK = false, false
		}
		k0 := 0
		if ci == ci0 {
			k0 = ki0
		}
		for ki := k0; ki < len(c.Plan); ki++ {
			name := c.Plan[ki]
			ent := findEntry(c.Kind, name)
			if ent == nil {
				die("unknown entry %q", name)
			}
			// entry-specific code is only reachable when the shared front end accepts the input:
			// unreadable documents get one further entry point, readable but invalid ones three.
			if pdf && ki >= nFixedPDF && !mf.Ungated && !c.NoGate {
				allow := len(c.Plan)
				switch {
				case !readOK:
					allow = nFixedPDF + 1
				case !validOK:
					allow = nFixedPDF + 3
				}
				if ki >= allow {
					cs.write(rec{T: "E", Case: ci, Call: ki, Entry: name, St: "skip"})
					continue
				}
			}
			pk := ki
			if mf.Ungated {
				pk = c.ParamCall
			}
			e := &env{in: in, ext: c.Ext, aux: aux, certs: certs, fonts: mf.FontDir,
				rng: rand.New(rand.NewPCG(c.P, uint64(pk)+1)), inFile: filepath.Join(dir, "in", strconv.Itoa(c.ID)+".bin")}
			if ent.disk {
				e.work = filepath.Join(dir, "work")
				_ = os.RemoveAll(e.work)
				if err := os.MkdirAll(e.work, 0o755); err != nil {
					die("%v", err)
				}
			}
			b := rec{T: "B", Case: ci, Call: ki, Entry: name}
			cs.write(b)
			cs.cur.Store(&b)
			budget := budgetFor(len(in), mf.Mult)
			if c.BudgetMs > 0 && mf.Mult <= 1 {
				budget = time.Duration(c.BudgetMs) * time.Millisecond
			}
			cs.budget.Store(int64(budget))
			cs.startWal.Store(time.Now().UnixNano())
			start := cpuNow()
			cs.startCPU.Store(int64(start))
			cs.active.Store(true)
			res := guardedCall(ent, e)
			cs.active.Store(false)
			res.CPUms = int64((cpuNow() - start) / time.Millisecond)
			res.T, res.Case, res.Call, res.Entry = "E", ci, ki, name
			cs.write(res)
			if pdf && res.St == "ok" {
				switch name {
				case "ReadContext":
					readOK = true
				case "ValidateRelaxed":
					validOK = true
				}
			}
		}
	}
	os.Exit(0)
}

// guardedCall runs one entry point and recovers whatever escapes it.
func guardedCall(ent *entry, e *env) (res rec) {
	defer func() {
		if r := recover(); r != nil {
			frame, trace := innermostPdfcpuFrame()
			res.St, res.Frame, res.Trace = "panic", frame, trace
			res.PVal = fmt.Sprintf("%T: %v", r, r)
			if len(res.PVal) > 300 {
				res.PVal = res.PVal[:300]
			}
			res.Fault = strings.HasPrefix(res.PVal, "fault.Panic")
		}
	}()
	err := ent.f(e)
	if err != nil {
		res.St, res.Err = "err", err.Error()
		if len(res.Err) > 160 {
			res.Err = res.Err[:160]
		}
		return res
	}
	res.St = "ok"
	return res
}
