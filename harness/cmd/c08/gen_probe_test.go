package main

import (
	"fmt"
	"math/rand/v2"
	"os"
	"path/filepath"
	"testing"

	"github.com/pdfcpu/pdfcpu/pkg/api"
	"github.com/pdfcpu/pdfcpu/pkg/font"
	"github.com/pdfcpu/pdfcpu/pkg/pdfcpu/model"
	"verif/harness/internal/pdfgen"
	"verif/harness/internal/vk"
)

// development aid: unmutated seeds through every entry point (C08_PROBE=1)
func TestBaseline(t *testing.T) {
	if os.Getenv("C08_PROBE") == "" {
		t.Skip()
	}
	api.DisableConfigDir()
	root := t.TempDir()
	font.UserFontDir = filepath.Join(root, "fonts")
	os.MkdirAll(font.UserFontDir, 0o755)
	if err := api.InstallFonts([]string{"/repo/pkg/testdata/fonts/Roboto-Regular.ttf"}); err != nil {
		t.Fatal(err)
	}
	model.TrustedCertDir = filepath.Join(root, "certs")
	os.MkdirAll(model.TrustedCertDir, 0o755)
	vt := &vk.T{}
	_ = vt
	m := loadMaterialForTest(t)
	run := func(kind, name string, in []byte, ext string, aux []byte) {
		ent := findEntry(kind, name)
		work := filepath.Join(root, "work")
		os.RemoveAll(work)
		os.MkdirAll(work, 0o755)
		e := &env{in: in, ext: ext, aux: aux, work: work, rng: rand.New(rand.NewPCG(1, 2))}
		res := guardedCall(ent, e)
		fmt.Printf("%-18s %-26s %-5s %s %s\n", kind, name, res.St, res.Err, res.PVal)
	}
	aux := builtinAux()
	rd := func(rel string) []byte { b, _ := os.ReadFile(filepath.Join("/repo", rel)); return b }
	for kind, pool := range map[string][]seedFile{"font": m.fonts, "cert": m.certs, "json-form": append(m.formJSON, m.multiJSON...), "csv-form": m.formCSV,
		"json-bookmarks": m.bmJSON, "json-viewerpref": m.vpJSON, "json-create": m.createJS} {
		for i, s := range pool {
			if i > 7 {
				break
			}
			a := aux
			if s.Aux != "" {
				a = rd(s.Aux)
			}
			for _, ent := range auxEntries[kind] {
				fmt.Printf("%s: ", s.Path)
				run(kind, ent.name, s.Data, s.Ext, a)
			}
		}
	}
	for i, b := range m.pkcs7 {
		fmt.Printf("pkcs7 #%d (%d bytes): ", i, len(b))
		run("pkcs7", "pkcs7.Parse", b, "", nil)
	}
	full := pdfgen.Build(pdfgen.HostileSpec(rand.New(rand.NewPCG(3, 4)))).Bytes
	for _, ent := range pdfEntries {
		run("byte", ent.name, full, "", aux)
	}
	for _, s := range m.signed {
		fmt.Printf("%s: ", s.Path)
		run("sig", "ValidateSignatures", s.Data, "", aux)
	}
}

func loadMaterialForTest(t *testing.T) *material {
	var m *material
	done := make(chan struct{})
	go func() {
		defer close(done)
		defer func() { recover() }()
		m = loadMaterial(&vk.T{})
	}()
	<-done
	if m == nil {
		t.Fatal("material")
	}
	return m
}
