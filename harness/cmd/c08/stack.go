package main

import (
	"runtime"
	"sort"
	"strings"
)

const modPrefix = "github.com/pdfcpu/pdfcpu/"

// shortFn turns "github.com/pdfcpu/pdfcpu/pkg/pdfcpu/model.(*XRefTable).foo" into
// "model.(*XRefTable).foo" (last path element; no file, no line: stable across edits).
func shortFn(fn string) string {
	head := fn
	if i := strings.IndexByte(head, '['); i >= 0 { // generic instantiation: keep the path cut before it
		head = head[:i]
	}
	if i := strings.LastIndexByte(head, '/'); i >= 0 {
		return fn[i+1:]
	}
	return fn
}

// pdfcpuFrame reports whether fn is a function of the module under test that can be "the
// innermost pdfcpu frame" of a panic: package fault only transports panics (fault.Fail raises,
// fault.Catch re-panics whatever is not a fault.Panic), so it never is the origin.
func pdfcpuFrame(fn string) bool {
	return strings.HasPrefix(fn, modPrefix) && !strings.HasPrefix(fn, modPrefix+"pkg/pdfcpu/fault.")
}

// innermostPdfcpuFrame is called from the deferred recover handler: the panicking goroutine's
// frames are still on the stack (below runtime.gopanic, and below fault.Catch + a second
// runtime.gopanic when the panic was re-raised), so the first pdfcpu frame from the top that is
// not package fault is the function in which the runtime error happened (or which called the
// std-library function that panicked).
func innermostPdfcpuFrame() (frame string, trace []string) {
	pcs := make([]uintptr, 256)
	n := runtime.Callers(2, pcs)
	fr := runtime.CallersFrames(pcs[:n])
	for {
		f, more := fr.Next()
		if f.Function != "" && len(trace) < 40 {
			trace = append(trace, shortFn(f.Function))
		}
		if frame == "" && pdfcpuFrame(f.Function) {
			frame = shortFn(f.Function)
		}
		if !more {
			break
		}
	}
	if frame == "" {
		frame = "none"
	}
	return frame, trace
}

// traceFns extracts the function names of the first goroutine of a Go crash dump (the one that
// died), top frame first.
func traceFns(stderr string) []string {
	var out []string
	in := false
	for _, ln := range strings.Split(stderr, "\n") {
		if strings.HasPrefix(ln, "goroutine ") && strings.HasSuffix(strings.TrimSpace(ln), ":") {
			if in {
				break
			}
			in = true
			continue
		}
		if !in || ln == "" {
			if in && ln == "" {
				break
			}
			continue
		}
		if ln[0] == '\t' || ln[0] == ' ' || strings.HasPrefix(ln, "...") || strings.HasPrefix(ln, "created by") {
			continue
		}
		if i := strings.LastIndexByte(ln, '('); i > 0 {
			ln = ln[:i]
		}
		out = append(out, ln)
	}
	return out
}

// deathFrame names the innermost pdfcpu frame of the goroutine that died.
func deathFrame(stderr string) string {
	for _, fn := range traceFns(stderr) {
		if pdfcpuFrame(fn) {
			return shortFn(fn)
		}
	}
	return "none"
}

// overflowCycle names the recursion that overflowed the stack: among the pdfcpu functions that
// occur at least 3 times in the top 60 frames the lexicographically smallest (stable no matter
// which member of the cycle happened to hit the limit).
func overflowCycle(stderr string) string {
	fns := traceFns(stderr)
	if len(fns) > 60 {
		fns = fns[:60]
	}
	cnt := map[string]int{}
	for _, fn := range fns {
		if pdfcpuFrame(fn) {
			cnt[shortFn(fn)]++
		}
	}
	var cyc []string
	for fn, c := range cnt {
		if c >= 3 {
			cyc = append(cyc, fn)
		}
	}
	if len(cyc) == 0 {
		return deathFrame(stderr)
	}
	sort.Strings(cyc)
	return cyc[0]
}

// watchdogLoop names what the call was doing when the CPU watchdog fired, from the watchdog's dump of
// all goroutines: in the goroutine that runs the call (the one below main.guardedCall) the
// lexicographically smallest pdfcpu function that occurs at least 3 times in the top 60 frames (a
// recursion), else its innermost pdfcpu frame. Only used to tell candidates of different loops apart
// and in the violation text, never in a key.
func watchdogLoop(stderr string) string {
	i := strings.Index(stderr, "watchdog fired in ")
	if i < 0 {
		return "unknown"
	}
	for _, blk := range strings.Split(stderr[i:], "\n\n") {
		j := strings.Index(blk, "goroutine ")
		if j < 0 || !strings.Contains(blk, "main.guardedCall") {
			continue
		}
		return overflowCycle(blk[j:] + "\n\n")
	}
	return "unknown"
}
