package repro

import (
	"bytes"
	"io"
	"os"
	"path/filepath"
	"runtime"
	"runtime/debug"
	"syscall"
	"testing"
	"time"

	"github.com/pdfcpu/pdfcpu/pkg/api"
	"github.com/pdfcpu/pdfcpu/pkg/pdfcpu/model"
)

var ballast []byte

func cpuNow() time.Duration {
	var ru syscall.Rusage
	_ = syscall.Getrusage(syscall.RUSAGE_SELF, &ru)
	return time.Duration(ru.Utime.Nano() + ru.Stime.Nano())
}

// TestChildOverhead: CPU per call of ReadContext / Optimize on tiny files under the child's runtime
// settings (C08_OV=ballast,limit,procs ...), to see what the per-call cost of a C08 child consists of.
func TestChildOverhead(t *testing.T) {
	pat := os.Getenv("C08_FILES")
	if pat == "" {
		t.Skip()
	}
	ov := os.Getenv("C08_OV")
	has := func(s string) bool { return bytes.Contains([]byte(ov), []byte(s)) }
	if has("procs") {
		runtime.GOMAXPROCS(2)
	}
	if has("ballast") {
		ballast = make([]byte, 64<<20)
	}
	if has("limit") {
		debug.SetMemoryLimit(3 << 30)
	}
	if has("stack") {
		debug.SetMaxStack(64 << 20)
	}
	api.DisableConfigDir()
	files, _ := filepath.Glob(pat)
	var ins [][]byte
	for _, fn := range files {
		b, _ := os.ReadFile(fn)
		ins = append(ins, b)
	}
	for _, op := range []string{"read", "optimize"} {
		t0, w0 := cpuNow(), time.Now()
		n := 0
		for rep := 0; rep < 5; rep++ {
			for _, b := range ins {
				c := model.NewDefaultConfiguration()
				c.Offline = true
				if op == "read" {
					_, _ = api.ReadContext(bytes.NewReader(b), c)
				} else {
					_ = api.Optimize(bytes.NewReader(b), io.Discard, c)
				}
				n++
			}
		}
		t.Logf("ov=%q %s: %d calls, cpu %v/call, wall %v/call", ov, op, n, (cpuNow()-t0)/time.Duration(n), time.Since(w0)/time.Duration(n))
	}
}
