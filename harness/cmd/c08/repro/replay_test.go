package repro

import (
	"bytes"
	"encoding/base64"
	"encoding/json"
	"io"
	"os"
	"testing"

	"github.com/pdfcpu/pdfcpu/pkg/api"
	"github.com/pdfcpu/pdfcpu/pkg/pdfcpu/model"
	"github.com/pdfcpu/pdfcpu/pkg/pdfcpu/types"
	"verif/harness/internal/pdfgen"
)

// TestReplayEntry: C08_REPLAY=<replay file> runs the stored input through the stored entry point
// in-process and prints the full stack of the panic (triage aid; the worker itself replays with
// `./check C08 --replay <file>`).
func TestReplayEntry(t *testing.T) {
	fn := os.Getenv("C08_REPLAY")
	if fn == "" {
		t.Skip()
	}
	api.DisableConfigDir()
	raw, _ := os.ReadFile(fn)
	var rf struct {
		Key  string `json:"key"`
		Case struct {
			Entry string `json:"entry"`
			InB64 string `json:"input_b64"`
		} `json:"case"`
	}
	if err := json.Unmarshal(raw, &rf); err != nil {
		t.Fatal(err)
	}
	in, _ := base64.StdEncoding.DecodeString(rf.Case.InB64)
	conf := func() *model.Configuration { c := model.NewDefaultConfiguration(); c.Offline = true; return c }
	aux := pdfgen.Build(pdfgen.DocSpec{Seed: 7, Pages: 2, Info: true}).Bytes
	calls := map[string]func() error{
		"ReadContext":     func() error { _, err := api.ReadContext(bytes.NewReader(in), conf()); return err },
		"ValidateRelaxed": func() error { return api.Validate(bytes.NewReader(in), conf()) },
		"Optimize":        func() error { return api.Optimize(bytes.NewReader(in), io.Discard, conf()) },
		"ResetFormFields": func() error { return api.ResetFormFields(bytes.NewReader(in), io.Discard, nil, conf()) },
		"LockFormFields":  func() error { return api.LockFormFields(bytes.NewReader(in), io.Discard, nil, conf()) },
		"ExportFormJSON":  func() error { return api.ExportFormJSON(bytes.NewReader(in), io.Discard, "in.pdf", conf()) },
		"Bookmarks":       func() error { _, err := api.Bookmarks(bytes.NewReader(in), conf()); return err },
		"PDFInfo":         func() error { _, err := api.PDFInfo(bytes.NewReader(in), "in.pdf", nil, true, conf()); return err },
		"Annotations":     func() error { _, err := api.Annotations(bytes.NewReader(in), nil, conf()); return err },
		"ValidateSignatures": func() error {
			_, err := api.ValidateSignaturesRaw(bytes.NewReader(in), true, conf())
			return err
		},
		"StampFromPDF": func() error {
			wm, err := api.PDFWatermarkForReadSeeker(bytes.NewReader(in), 1, "", true, false, types.POINTS)
			if err != nil {
				return err
			}
			return api.AddWatermarks(bytes.NewReader(aux), io.Discard, nil, wm, conf())
		},
	}
	f := calls[rf.Case.Entry]
	if f == nil {
		t.Fatalf("entry %s not wired into this triage aid", rf.Case.Entry)
	}
	err, st := guarded(f)
	t.Logf("%s -> %v\n%s", rf.Key, err, st)
}
