package repro

import (
	"bytes"
	"encoding/base64"
	"encoding/json"
	"fmt"
	"io"
	"os"
	"path/filepath"
	"runtime/debug"
	"testing"

	"github.com/pdfcpu/pdfcpu/pkg/api"
	"github.com/pdfcpu/pdfcpu/pkg/pdfcpu/model"
)

func guarded(f func() error) (err error, stack string) {
	defer func() {
		if r := recover(); r != nil {
			err = fmt.Errorf("PANIC: %v", r)
			stack = string(debug.Stack())
		}
	}()
	return f(), ""
}

// Optimize of the unmodified signed samples.
func TestOptimizeSignedSamples(t *testing.T) {
	api.DisableConfigDir()
	files, _ := filepath.Glob("/repo/pkg/samples/signatures/*/*.pdf")
	for _, fn := range files {
		b, _ := os.ReadFile(fn)
		err, _ := guarded(func() error {
			c := model.NewDefaultConfiguration()
			c.Offline = true
			return api.Optimize(bytes.NewReader(b), io.Discard, c)
		})
		t.Logf("%s: %v", filepath.Base(fn), err)
	}
}

// Replays the input of a replay file through Optimize (C08_REPLAY=<file>).
func TestReplayInput(t *testing.T) {
	fn := os.Getenv("C08_REPLAY")
	if fn == "" {
		t.Skip()
	}
	api.DisableConfigDir()
	raw, _ := os.ReadFile(fn)
	var rf struct {
		Case struct {
			InB64 string `json:"input_b64"`
		} `json:"case"`
	}
	if err := json.Unmarshal(raw, &rf); err != nil {
		t.Fatal(err)
	}
	b, _ := base64.StdEncoding.DecodeString(rf.Case.InB64)
	if out := os.Getenv("C08_DUMP"); out != "" {
		os.WriteFile(out, b, 0o644)
	}
	err, st := guarded(func() error {
		c := model.NewDefaultConfiguration()
		c.Offline = true
		return api.Optimize(bytes.NewReader(b), io.Discard, c)
	})
	t.Logf("Optimize: %v\n%s", err, st)
}
