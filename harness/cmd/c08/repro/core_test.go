package repro

import (
	"bytes"
	"io"
	"os"
	"path/filepath"
	"testing"
	"time"

	"github.com/pdfcpu/pdfcpu/pkg/api"
	"github.com/pdfcpu/pdfcpu/pkg/pdfcpu/model"
)

// TestCoreFiles runs Validate relaxed/strict and Optimize on the files matching C08_FILES (a glob;
// produce them with C08_CORE_DUMP=<dir> <c08 binary>) and prints the time and the result. A call
// that does not return within C08_LIMIT (default 20s) is reported and the test goes on.
func TestCoreFiles(t *testing.T) {
	pat := os.Getenv("C08_FILES")
	if pat == "" {
		t.Skip()
	}
	limit := 20 * time.Second
	if s := os.Getenv("C08_LIMIT"); s != "" {
		limit, _ = time.ParseDuration(s)
	}
	api.DisableConfigDir()
	files, _ := filepath.Glob(pat)
	for _, fn := range files {
		b, _ := os.ReadFile(fn)
		for _, op := range []string{"relaxed", "strict", "optimize"} {
			done := make(chan error, 1)
			t0 := time.Now()
			go func() {
				err, _ := guarded(func() error {
					c := model.NewDefaultConfiguration()
					c.Offline = true
					switch op {
					case "relaxed":
						c.ValidationMode = model.ValidationRelaxed
						return api.Validate(bytes.NewReader(b), c)
					case "strict":
						c.ValidationMode = model.ValidationStrict
						return api.Validate(bytes.NewReader(b), c)
					}
					return api.Optimize(bytes.NewReader(b), io.Discard, c)
				})
				done <- err
			}()
			select {
			case err := <-done:
				t.Logf("%s %s %v: %v", filepath.Base(fn), op, time.Since(t0).Round(time.Millisecond), err)
			case <-time.After(limit):
				t.Errorf("%s %s: no result after %v", filepath.Base(fn), op, limit)
			}
		}
	}
}
