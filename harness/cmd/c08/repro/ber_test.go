package repro

import (
	"bytes"
	"syscall"
	"testing"
	"time"

	"github.com/pdfcpu/pdfcpu/pkg/pdfcpu/pkcs7"
)

func cpu() time.Duration {
	var ru syscall.Rusage
	syscall.Getrusage(syscall.RUSAGE_SELF, &ru)
	return time.Duration(ru.Utime.Nano() + ru.Stime.Nano())
}

// pkcs7.Parse on N nested indefinite-length SEQUENCEs: CPU time grows quadratically with the input size.
func TestBERNestingCost(t *testing.T) {
	for _, n := range []int{1000, 2000, 4000, 8000, 16000, 32000} {
		in := append(bytes.Repeat([]byte{0x30, 0x80}, n), bytes.Repeat([]byte{0, 0}, n)...)
		t0 := cpu()
		_, err := pkcs7.Parse(in)
		d := cpu() - t0
		es := ""
		if err != nil {
			es = err.Error()
			if len(es) > 60 {
				es = es[:60]
			}
		}
		t.Logf("depth %6d (%7d bytes): cpu %v  err=%s", n, len(in), d.Round(time.Millisecond), es)
	}
}
