package repro

import (
	"bytes"
	"os"
	"testing"

	"github.com/pdfcpu/pdfcpu/pkg/api"
	"github.com/pdfcpu/pdfcpu/pkg/pdfcpu/model"
)

// C08_FILE=<pdf>: prints the xref table size and the highest object number after ReadContext.
func TestXRefSize(t *testing.T) {
	fn := os.Getenv("C08_FILE")
	if fn == "" {
		t.Skip()
	}
	api.DisableConfigDir()
	b, _ := os.ReadFile(fn)
	ctx, err := api.ReadContext(bytes.NewReader(b), model.NewDefaultConfiguration())
	if err != nil {
		t.Fatalf("ReadContext: %v", err)
	}
	max := 0
	for n := range ctx.Table {
		if n > max {
			max = n
		}
	}
	t.Logf("input %d bytes: Size=%d entries=%d highest object number=%d", len(b), *ctx.XRefTable.Size, len(ctx.Table), max)
}
