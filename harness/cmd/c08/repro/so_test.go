package repro

import (
	"bytes"
	"os"
	"runtime/debug"
	"testing"

	"github.com/pdfcpu/pdfcpu/pkg/api"
	"github.com/pdfcpu/pdfcpu/pkg/pdfcpu/model"
)

// C08_FILE=<pdf>: ReadContext with a small stack limit so that the overflow trace is short.
func TestReadFile(t *testing.T) {
	fn := os.Getenv("C08_FILE")
	if fn == "" {
		t.Skip()
	}
	debug.SetMaxStack(8 << 20)
	api.DisableConfigDir()
	b, _ := os.ReadFile(fn)
	c := model.NewDefaultConfiguration()
	_, err := api.ReadContext(bytes.NewReader(b), c)
	t.Logf("ReadContext: %v", err)
}
