package repro

import (
	"bytes"
	"fmt"
	"os"
	"strconv"
	"testing"
	"time"

	"github.com/pdfcpu/pdfcpu/pkg/api"
	"github.com/pdfcpu/pdfcpu/pkg/pdfcpu/model"
)

// chainPDF: a page painting form X0, which paints X1, ... an ACYCLIC chain of n nested form XObjects.
func chainPDF(n int) []byte {
	var objs []string
	objs = append(objs,
		"<< /Type /Catalog /Pages 2 0 R >>",
		"<< /Type /Pages /Kids [3 0 R] /Count 1 >>",
		"<< /Type /Page /Parent 2 0 R /MediaBox [0 0 200 200] /Contents 4 0 R /Resources << /XObject << /X0 5 0 R >> >> >>",
		"<< /Length 10 >>\nstream\nq /X0 Do Q\nendstream")
	for i := 0; i < n; i++ {
		if i == n-1 {
			objs = append(objs, "<< /Type /XObject /Subtype /Form /BBox [0 0 10 10] /Length 12 >>\nstream\n0 0 1 1 re f\nendstream")
		} else {
			objs = append(objs, fmt.Sprintf("<< /Type /XObject /Subtype /Form /BBox [0 0 10 10] /Resources << /XObject << /K0 %d 0 R >> >> /Length 6 >>\nstream\n/K0 Do\nendstream", 6+i))
		}
	}
	var b bytes.Buffer
	b.WriteString("%PDF-1.7\n")
	offs := make([]int, len(objs))
	for i, o := range objs {
		offs[i] = b.Len()
		fmt.Fprintf(&b, "%d 0 obj\n%s\nendobj\n", i+1, o)
	}
	xref := b.Len()
	fmt.Fprintf(&b, "xref\n0 %d\n0000000000 65535 f \n", len(objs)+1)
	for _, off := range offs {
		fmt.Fprintf(&b, "%010d 00000 n \n", off)
	}
	fmt.Fprintf(&b, "trailer\n<< /Size %d /Root 1 0 R >>\nstartxref\n%d\n%%%%EOF\n", len(objs)+1, xref)
	return b.Bytes()
}

// TestNestedFormChainScaling: time of relaxed validation against the length of the chain.
func TestNestedFormChainScaling(t *testing.T) {
	api.DisableConfigDir()
	ns := []int{25, 50, 100, 200}
	if s := os.Getenv("C08_CHAIN"); s != "" {
		n, _ := strconv.Atoi(s)
		ns = []int{n}
	}
	for _, n := range ns {
		in := chainPDF(n)
		t0 := time.Now()
		err := api.Validate(bytes.NewReader(in), model.NewDefaultConfiguration())
		t.Logf("n=%d bytes=%d: %v err=%v", n, len(in), time.Since(t0).Round(time.Millisecond), err)
	}
}
