package main

// The CORE set: cases every run executes whatever VERIF_SEED and tier are.
//
//  1. core-struct: hand-written tiny documents (< 16 KB) in which ONE recursive structure pdfcpu walks
//     is cyclic, self-referential, over-deep or a high-fan-out lattice: families (page tree, outlines,
//     every catalog name tree, number trees, structure tree, AcroForm fields, threads, resources,
//     colour spaces, functions, actions, annotations, optional content, nested arrays/dicts, streams,
//     /Prev chains, /Extends chains ...) x shapes (self reference, 2-cycle, fan-out 1 / 2 / 8, cycle
//     below a valid root, 120-deep chain, 40-level lattice with 2^40 paths; the same objects also
//     inside object streams). Each is fed, ungated, to the four fixed entry points and to coreExtra
//     of the entry points that walk the structure (rotating over the shapes of the family).
//  2. core-hostile: every pdfgen graph attack (3 fixed parameter draws each, on two fixed base
//     documents: classic table / xref stream + object streams), every bomb kind, every nesting shape at
//     the recursion limit, and every class of structural override pdfgen's RandomOverrides knows.
//
// Nothing here depends on t.RNG: the random draws use fixed PCG seeds.

import (
	"fmt"
	"math/rand/v2"
	"strings"

	"verif/harness/internal/pdfgen"
)

const (
	coreFirstID = 1_000_000
	// A core-struct input is a few hundred bytes to ~16 KB and legitimately costs milliseconds. A call
	// above coreStructFirstPassMs CPU is only a CANDIDATE; the verdict is the re-run alone under the
	// property's doubled budget (40 s), exactly as for seeded cases.
	coreStructFirstPassMs = 3000
	coreBatchSize         = 40
	coreExtra             = 4 // structure-specific entry points per core-struct case
)

// ---------------------------------------------------------------------------------------------
// shapes

type graph struct {
	name  string
	edges [][]int // children of node i (node 0 is where the document attaches the structure)
	leaf  []bool  // rendered as a valid terminal of the family
	fan   int     // max out-degree
}

func mkGraph(name string, edges [][]int, leaves ...int) graph {
	g := graph{name: name, edges: edges, leaf: make([]bool, len(edges))}
	for _, l := range leaves {
		g.leaf[l] = true
	}
	for _, e := range edges {
		g.fan = max(g.fan, len(e))
	}
	return g
}

func rep(v, n int) []int {
	out := make([]int, n)
	for i := range out {
		out[i] = v
	}
	return out
}

func coreShapes() []graph {
	var gs []graph
	gs = append(gs,
		mkGraph("self1", [][]int{{0}}),
		mkGraph("cyc1", [][]int{{1}, {0}}),
		mkGraph("tail-self1", [][]int{{1}, {1}}),                // valid entry node, then a self loop
		mkGraph("self2", [][]int{{0, 0}}),                       // fan-out 2 on itself: 2^depth
		mkGraph("cyc2", [][]int{{1, 1}, {0, 0}}),                // 2-cycle, fan-out 2
		mkGraph("inner-self2", [][]int{{1, 2}, nil, {2, 2}}, 1), // valid root with one valid leaf and a cyclic kid
		mkGraph("self8", [][]int{rep(0, 8)}),
	)
	// acyclic, 120 deep (beyond MaxRecursionDepth = 100), fan-out 1
	{
		n := 120
		e := make([][]int, n+1)
		for i := 0; i < n; i++ {
			e[i] = []int{i + 1}
		}
		gs = append(gs, mkGraph("chain120", e, n))
	}
	// acyclic lattice: 40 levels of 2 nodes, every node lists both nodes of the next level:
	// depth 41 < MaxRecursionDepth, 2^40 root-to-leaf paths in 83 objects
	{
		L := 40
		e := [][]int{{1, 2}}
		for l := 0; l < L-1; l++ {
			a, b := 1+2*l+2, 1+2*l+3
			e = append(e, []int{a, b}, []int{a, b})
		}
		last := len(e)
		e = append(e, nil, nil)
		gs = append(gs, mkGraph("lattice40", e, last, last+1))
	}
	return gs
}

// shapesFor selects the shapes a family runs: every shape its nodes can express; families that
// cannot fan out get the fan-out 1 shapes only, the fan-out >= 2 families leave out tail-self1.
func shapesFor(f *family, g *graph) bool {
	if g.fan > f.fan {
		return false
	}
	if f.only != nil {
		return f.only[g.name]
	}
	return f.fan == 1 || g.name != "tail-self1"
}

// ---------------------------------------------------------------------------------------------
// tiny documents

type cdoc struct {
	d                 *pdfgen.Doc
	g                 *graph
	cat, pages, page  pdfgen.Ref
	content, info     pdfgen.Ref
	nodes             []pdfgen.Ref
	catX, pageX, resX string // extra entries
	pagesX            string
	pagesRoot         string // catalog /Pages (default: object 2)
	pageParent        string
	pageKids          string // /Kids of object 2 (default: the page)
	contents          string // page /Contents (default: the content stream)
	contentData       string
	infoX             string
	noMediaBox        bool
	resRef            string // page /Resources as a reference instead of the direct dictionary
	annots            []string
}

func rs(r pdfgen.Ref) string { return fmt.Sprintf("%d 0 R", r.Num) }

func newCdoc(g *graph) *cdoc {
	c := &cdoc{d: pdfgen.NewDoc(), g: g}
	c.cat, c.pages, c.page, c.content, c.info = c.d.Alloc(), c.d.Alloc(), c.d.Alloc(), c.d.Alloc(), c.d.Alloc()
	for range g.edges {
		c.nodes = append(c.nodes, c.d.Alloc())
	}
	c.pagesRoot, c.pageParent, c.pageKids, c.contents = rs(c.pages), rs(c.pages), rs(c.page), rs(c.content)
	c.contentData = "q Q"
	return c
}

func (c *cdoc) n(i int) string      { return rs(c.nodes[i]) }
func (c *cdoc) isLeaf(i int) bool   { return c.g.leaf[i] || len(c.g.edges[i]) == 0 }
func (c *cdoc) nkids(i int) int     { return len(c.g.edges[i]) }
func (c *cdoc) kid(i, j int) string { return c.n(c.g.edges[i][j]) }
func (c *cdoc) kids(i int) string {
	var s []string
	for _, k := range c.g.edges[i] {
		s = append(s, c.n(k))
	}
	return strings.Join(s, " ")
}

// kidsNamed renders "/K0 a 0 R /K1 b 0 R ...".
func (c *cdoc) kidsNamed(i int) string {
	var s []string
	for j, k := range c.g.edges[i] {
		s = append(s, fmt.Sprintf("/K%d %s", j, c.n(k)))
	}
	return strings.Join(s, " ")
}

// parentOf is some node that lists i (the entry node: def).
func (c *cdoc) parentOf(i int, def string) string {
	for p, e := range c.g.edges {
		for _, k := range e {
			if k == i && p != i {
				return c.n(p)
			}
		}
	}
	return def
}

func (c *cdoc) put(i int, body string) { c.d.Put(c.nodes[i], pdfgen.Raw(body)) }
func (c *cdoc) add(body string) string { return rs(c.d.Add(pdfgen.Raw(body))) }

func streamBody(dict, data string) pdfgen.Raw {
	if !strings.Contains(dict, "/Length") {
		dict += fmt.Sprintf(" /Length %d", len(data))
	}
	return pdfgen.Raw(fmt.Sprintf("<< %s >>\nstream\n%s\nendstream", dict, data))
}

func (c *cdoc) putStream(i int, dict, data string) {
	c.d.PutNoCompress(c.nodes[i], streamBody(dict, data))
}

func (c *cdoc) addStream(dict, data string) string {
	r := c.d.Alloc()
	c.d.PutNoCompress(r, streamBody(dict, data))
	return rs(r)
}

func (c *cdoc) finish(opts pdfgen.Options) ([]byte, error) {
	c.d.PutNoCompress(c.cat, pdfgen.Raw(fmt.Sprintf("<< /Type /Catalog /Pages %s %s >>", c.pagesRoot, c.catX)))
	c.d.Put(c.pages, pdfgen.Raw(fmt.Sprintf("<< /Type /Pages /Kids [%s] /Count 1 %s >>", c.pageKids, c.pagesX)))
	mb := "/MediaBox [0 0 200 200]"
	if c.noMediaBox {
		mb = ""
	}
	an := ""
	if len(c.annots) > 0 {
		an = "/Annots [" + strings.Join(c.annots, " ") + "]"
	}
	res := "<< " + c.resX + " >>"
	if c.resRef != "" {
		res = c.resRef
	}
	c.d.Put(c.page, pdfgen.Raw(fmt.Sprintf("<< /Type /Page /Parent %s %s /Contents %s /Resources %s %s %s >>", c.pageParent, mb, c.contents, res, an, c.pageX)))
	c.d.PutNoCompress(c.content, streamBody("", c.contentData))
	c.d.Put(c.info, pdfgen.Raw(fmt.Sprintf("<< /Producer (verif C08 core) %s >>", c.infoX)))
	c.d.SetRoot(c.cat)
	c.d.SetInfo(c.info)
	out, err := pdfgen.Write(c.d, opts)
	if err != nil {
		return nil, err
	}
	return out.Bytes, nil
}

// ---------------------------------------------------------------------------------------------
// families

type family struct {
	name    string
	fan     int // the largest out-degree a node of this structure can express
	entries []string
	build   func(c *cdoc)
	only    map[string]bool // nil: shapesFor's default
}

var (
	ePages    = []string{"PDFInfo", "PageCount", "PageDims", "Boxes", "Trim", "ExtractPages", "InsertPages", "RemovePages", "Collect", "Rotate", "NUp", "SplitRaw", "MergeRawFirst", "MergeRawSecond", "MergeCreateZip", "Annotations", "Booklet"}
	eOutline  = []string{"Bookmarks", "ListBookmarks", "ExportBookmarksJSON", "SplitBookmarks", "RemoveBookmarks", "AddBookmarks", "ImportBookmarks", "MergeRawSecond", "PDFInfo"}
	eNames    = []string{"Attachments", "ExtractAttachmentsRaw", "ExtractAttachments", "RemoveAttachments", "Bookmarks", "MergeRawFirst", "MergeRawSecond", "PDFInfo", "Trim", "RemovePages"}
	eStruct   = []string{"MergeRawFirst", "MergeRawSecond", "PDFInfo", "Trim", "ExtractPages", "RemovePages"}
	eForm     = []string{"FormFields", "ListFormFields", "ExportFormJSON", "FillFormExported", "ResetFormFields", "LockFormFields", "RemoveFormFields", "ValidateSignatures", "RemoveSignatures", "MergeRawSecond", "Annotations", "RemoveAnnotations"}
	eGeneric  = []string{"PDFInfo", "Properties", "Keywords", "AddKeywords", "ExtractMetadata", "Encrypt", "MergeRawFirst", "MergeRawSecond", "Trim", "ViewerPreferences", "ListViewerPreferences"}
	eResource = []string{"ExtractContent", "Images", "ListImages", "ExtractImagesRaw", "ExtractImages", "ExtractFonts", "AddWatermarksText", "StampFromPDF", "NUp", "Resize", "PDFInfo", "ExtractPages", "MergeRawSecond", "RemoveWatermarks", "Booklet"}
	eAnnot    = []string{"Annotations", "RemoveAnnotations", "Rotate", "Trim", "MergeRawSecond", "NUp", "FormFields", "PDFInfo"}
	eFile     = []string{"PDFInfo", "PageCount", "Trim", "MergeRawFirst", "Encrypt", "ExtractPages"}
)

const formXObj = "/Type /XObject /Subtype /Form /BBox [0 0 10 10]"

// nameTreeFamily: catalog /Names << /key n0 >>.
func nameTreeFamily(key, leafValue string, limits bool, extra func(c *cdoc) string) family {
	name := "nametree-" + key
	if !limits {
		name += "-nolimits"
	}
	only := map[string]bool{"self1": true, "self2": true, "cyc2": true, "inner-self2": true, "lattice40": true, "chain120": key == "Dests", "self8": key == "Dests", "cyc1": key == "Dests"}
	if !limits {
		only = map[string]bool{"self2": true, "lattice40": true}
	}
	return family{name, 8, eNames, func(c *cdoc) {
		v := leafValue
		if extra != nil {
			v = extra(c)
		}
		c.catX = fmt.Sprintf("/Names << /%s %s >>", key, c.n(0))
		for i := range c.nodes {
			lim := ""
			switch {
			case c.isLeaf(i):
				if i != 0 {
					lim = "/Limits [(a) (a)]"
				}
				c.put(i, fmt.Sprintf("<< /Names [(a) %s] %s >>", v, lim))
			default:
				if i != 0 && limits {
					lim = "/Limits [(a) (z)]"
				}
				c.put(i, fmt.Sprintf("<< /Kids [%s] %s >>", c.kids(i), lim))
			}
		}
	}, only}
}

func numTreeNodes(c *cdoc, leafValue string) {
	for i := range c.nodes {
		lim := ""
		if c.isLeaf(i) {
			if i != 0 {
				lim = "/Limits [0 0]"
			}
			c.put(i, fmt.Sprintf("<< /Nums [0 %s] %s >>", leafValue, lim))
		} else {
			if i != 0 {
				lim = "/Limits [0 9]"
			}
			c.put(i, fmt.Sprintf("<< /Kids [%s] %s >>", c.kids(i), lim))
		}
	}
}

func formNodes(c *cdoc, resKey, use string, leafData string, extraDict string) {
	for i := range c.nodes {
		if c.isLeaf(i) {
			c.putStream(i, formXObj+extraDict, leafData)
			continue
		}
		var data []string
		for j := range c.g.edges[i] {
			data = append(data, fmt.Sprintf(use, j))
		}
		c.putStream(i, fmt.Sprintf("%s%s /Resources << /%s << %s >> >>", formXObj, extraDict, resKey, c.kidsNamed(i)), strings.Join(data, " "))
	}
}

func coreFamilies() []family {
	var fs []family
	add := func(name string, fan int, entries []string, build func(c *cdoc)) {
		fs = append(fs, family{name, fan, entries, build, nil})
	}

	// ---- page tree ------------------------------------------------------------------------------
	pageNodes := func(c *cdoc, root string) {
		for i := range c.nodes {
			par := c.parentOf(i, root)
			if c.isLeaf(i) {
				c.put(i, fmt.Sprintf("<< /Type /Page /Parent %s /MediaBox [0 0 200 200] >>", par))
				continue
			}
			p := "/Parent " + par
			if i == 0 && root == "" {
				p = ""
			}
			c.put(i, fmt.Sprintf("<< /Type /Pages /Kids [%s] /Count %d %s >>", c.kids(i), max(1, c.nkids(i)), p))
		}
	}
	add("pagetree-kids-root", 8, ePages, func(c *cdoc) { c.pagesRoot = c.n(0); pageNodes(c, "") })
	add("pagetree-kids-inner", 8, ePages, func(c *cdoc) { c.pageKids = rs(c.page) + " " + c.n(0); pageNodes(c, rs(c.pages)) })
	add("pagetree-parent-of-page", 1, ePages, func(c *cdoc) {
		// the page's /Parent chain leaves the tree and loops; nothing on the way carries a MediaBox
		c.pageParent, c.noMediaBox = c.n(0), true
		for i := range c.nodes {
			p := ""
			if c.nkids(i) > 0 {
				p = "/Parent " + c.kid(i, 0)
			}
			c.put(i, fmt.Sprintf("<< /Type /Pages /Kids [%s] /Count 1 %s >>", rs(c.page), p))
		}
	})
	add("pagetree-parent-of-root", 1, ePages, func(c *cdoc) {
		c.pagesX, c.noMediaBox = "/Parent "+c.n(0), true
		for i := range c.nodes {
			p := ""
			if c.nkids(i) > 0 {
				p = "/Parent " + c.kid(i, 0)
			}
			c.put(i, fmt.Sprintf("<< /Type /Pages /Kids [%s] /Count 1 %s >>", rs(c.pages), p))
		}
	})

	// ---- outlines -------------------------------------------------------------------------------
	outline := func(name string, fan int, item func(c *cdoc, i int, root string) string) {
		add(name, fan, eOutline, func(c *cdoc) {
			rr := c.d.Alloc()
			root := rs(rr)
			c.catX = "/Outlines " + root
			c.d.Put(rr, pdfgen.Raw(fmt.Sprintf("<< /Type /Outlines /First %s /Last %s /Count 1 >>", c.n(0), c.n(0))))
			for i := range c.nodes {
				c.put(i, fmt.Sprintf("<< /Title (item %d) /Dest [%s /Fit] %s >>", i, rs(c.page), item(c, i, root)))
			}
		})
	}
	outline("outline-first", 1, func(c *cdoc, i int, root string) string {
		if c.nkids(i) == 0 {
			return "/Parent " + c.parentOf(i, root)
		}
		return fmt.Sprintf("/Parent %s /First %s /Last %s /Count 1", c.parentOf(i, root), c.kid(i, 0), c.kid(i, 0))
	})
	outline("outline-next", 1, func(c *cdoc, i int, root string) string {
		if c.nkids(i) == 0 {
			return "/Parent " + root
		}
		return fmt.Sprintf("/Parent %s /Next %s", root, c.kid(i, 0))
	})
	outline("outline-prev", 1, func(c *cdoc, i int, root string) string {
		if c.nkids(i) == 0 {
			return "/Parent " + root
		}
		return fmt.Sprintf("/Parent %s /Prev %s", root, c.kid(i, 0))
	})
	outline("outline-parent", 1, func(c *cdoc, i int, root string) string {
		if c.nkids(i) == 0 {
			return "/Parent " + root
		}
		return "/Parent " + c.kid(i, 0)
	})
	outline("outline-first+next", 2, func(c *cdoc, i int, root string) string {
		switch c.nkids(i) {
		case 0:
			return "/Parent " + root
		case 1:
			return fmt.Sprintf("/Parent %s /First %s /Last %s /Count 1", root, c.kid(i, 0), c.kid(i, 0))
		}
		return fmt.Sprintf("/Parent %s /First %s /Last %s /Count 1 /Next %s", root, c.kid(i, 0), c.kid(i, 0), c.kid(i, 1))
	})

	// ---- name trees of the catalog --------------------------------------------------------------
	for _, lim := range []bool{true, false} {
		fs = append(fs,
			nameTreeFamily("Dests", "", lim, func(c *cdoc) string { return "[" + rs(c.page) + " /Fit]" }),
			nameTreeFamily("EmbeddedFiles", "", lim, func(c *cdoc) string {
				ef := c.addStream("/Type /EmbeddedFile", "hello")
				return fmt.Sprintf("<< /Type /Filespec /F (a.txt) /UF (a.txt) /EF << /F %s >> >>", ef)
			}),
			nameTreeFamily("JavaScript", "<< /S /JavaScript /JS (1) >>", lim, nil),
			nameTreeFamily("AP", "", lim, func(c *cdoc) string { return c.addStream(formXObj, "0 0 1 1 re f") }),
			nameTreeFamily("IDS", "<< /S /SPS /ID (x) /O [] >>", lim, nil),
			nameTreeFamily("URLS", "<< /S /SPS /ID (x) /O [] >>", lim, nil),
			nameTreeFamily("Pages", "", lim, func(c *cdoc) string { return rs(c.page) }),
			nameTreeFamily("Templates", "", lim, func(c *cdoc) string { return rs(c.page) }),
			nameTreeFamily("AlternatePresentations", "<< /Type /SlideShow /Subtype /Embedded /Resources << /Names [] >> /StartResource (a) >>", lim, nil),
			nameTreeFamily("Renditions", "<< /Type /Rendition /S /SR /R [] >>", lim, nil),
		)
	}
	add("dest-value-chain", 1, eOutline, func(c *cdoc) {
		// a named destination whose value is a dictionary whose /D is ... (indirect values)
		leaf := c.add(fmt.Sprintf("<< /Names [(a) %s] >>", c.n(0)))
		c.catX = fmt.Sprintf("/Names << /Dests %s >> /OpenAction << /Type /Action /S /GoTo /D (a) >>", leaf)
		c.annots = append(c.annots, c.add("<< /Type /Annot /Subtype /Link /Rect [0 0 10 10] /Dest (a) >>"))
		for i := range c.nodes {
			if c.nkids(i) == 0 {
				c.put(i, fmt.Sprintf("<< /D [%s /Fit] >>", rs(c.page)))
			} else {
				c.put(i, fmt.Sprintf("<< /D %s >>", c.kid(i, 0)))
			}
		}
	})

	// ---- number trees ---------------------------------------------------------------------------
	add("numtree-PageLabels", 8, eGeneric, func(c *cdoc) { c.catX = "/PageLabels " + c.n(0); numTreeNodes(c, "<< /S /D >>") })
	structRoot := func(c *cdoc, rootX func(root, elem string) string) (root, elem string) {
		r, e := c.d.Alloc(), c.d.Alloc()
		root, elem = rs(r), rs(e)
		c.catX = fmt.Sprintf("/StructTreeRoot %s /MarkInfo << /Marked true >>", root)
		c.d.Put(e, pdfgen.Raw(fmt.Sprintf("<< /Type /StructElem /S /P /P %s /ID (a) /Pg %s >>", root, rs(c.page))))
		c.d.Put(r, pdfgen.Raw(fmt.Sprintf("<< /Type /StructTreeRoot %s >>", rootX(root, elem))))
		return
	}
	add("struct-ParentTree", 8, eStruct, func(c *cdoc) {
		_, elem := structRoot(c, func(root, elem string) string {
			return fmt.Sprintf("/K %s /ParentTree %s /ParentTreeNextKey 1", elem, c.n(0))
		})
		c.pageX = "/StructParents 0"
		numTreeNodes(c, "["+elem+"]")
	})
	add("struct-IDTree", 8, eStruct, func(c *cdoc) {
		_, elem := structRoot(c, func(root, elem string) string { return fmt.Sprintf("/K %s /IDTree %s", elem, c.n(0)) })
		for i := range c.nodes {
			lim := ""
			if c.isLeaf(i) {
				if i != 0 {
					lim = "/Limits [(a) (a)]"
				}
				c.put(i, fmt.Sprintf("<< /Names [(a) %s] %s >>", elem, lim))
			} else {
				if i != 0 {
					lim = "/Limits [(a) (z)]"
				}
				c.put(i, fmt.Sprintf("<< /Kids [%s] %s >>", c.kids(i), lim))
			}
		}
	})
	add("struct-K", 8, eStruct, func(c *cdoc) {
		root, _ := structRoot(c, func(root, elem string) string { return "/K " + c.n(0) })
		for i := range c.nodes {
			k := ""
			switch c.nkids(i) {
			case 0:
				k = "/K 0 /Pg " + rs(c.page)
			case 1:
				k = "/K " + c.kid(i, 0)
			default:
				k = "/K [" + c.kids(i) + "]"
			}
			c.put(i, fmt.Sprintf("<< /Type /StructElem /S /P /P %s %s >>", c.parentOf(i, root), k))
		}
	})
	add("struct-P", 1, eStruct, func(c *cdoc) {
		root, _ := structRoot(c, func(root, elem string) string { return "/K " + c.n(0) })
		for i := range c.nodes {
			p := root
			if c.nkids(i) > 0 {
				p = c.kid(i, 0)
			}
			c.put(i, fmt.Sprintf("<< /Type /StructElem /S /P /P %s /K 0 /Pg %s >>", p, rs(c.page)))
		}
	})

	// ---- AcroForm -------------------------------------------------------------------------------
	add("acroform-kids", 8, eForm, func(c *cdoc) {
		c.catX = fmt.Sprintf("/AcroForm << /Fields [%s] /DA (/Helv 0 Tf 0 g) >>", c.n(0))
		for i := range c.nodes {
			par := ""
			if p := c.parentOf(i, ""); p != "" {
				par = "/Parent " + p
			}
			if c.isLeaf(i) {
				c.put(i, fmt.Sprintf("<< /Type /Annot /Subtype /Widget /FT /Tx /T (w%d) /Rect [0 0 10 10] /P %s %s >>", i, rs(c.page), par))
				c.annots = append(c.annots, c.n(i))
			} else {
				c.put(i, fmt.Sprintf("<< /T (f%d) /FT /Tx /Kids [%s] %s >>", i, c.kids(i), par))
			}
		}
	})
	add("acroform-parent", 1, eForm, func(c *cdoc) {
		w := c.add(fmt.Sprintf("<< /Type /Annot /Subtype /Widget /FT /Tx /T (w) /Rect [0 0 10 10] /P %s /Parent %s >>", rs(c.page), c.n(0)))
		c.annots = append(c.annots, w)
		c.catX = fmt.Sprintf("/AcroForm << /Fields [%s] /DA (/Helv 0 Tf 0 g) >>", w)
		for i := range c.nodes {
			p := ""
			if c.nkids(i) > 0 {
				p = "/Parent " + c.kid(i, 0)
			}
			c.put(i, fmt.Sprintf("<< /T (p%d) /FT /Tx /Kids [%s] %s >>", i, w, p))
		}
	})
	add("acroform-fields-array", 8, eForm, func(c *cdoc) {
		// /Fields is an indirect array whose elements are indirect arrays ...
		c.catX = fmt.Sprintf("/AcroForm << /Fields %s /DA (/Helv 0 Tf 0 g) >>", c.n(0))
		for i := range c.nodes {
			c.put(i, "["+c.kids(i)+"]")
		}
	})

	// ---- nested arrays / dictionaries through indirect references ----------------------------------
	nest := func(c *cdoc, dict bool) {
		for i := range c.nodes {
			switch {
			case c.nkids(i) == 0 && dict:
				c.put(i, "<< /V 1 >>")
			case c.nkids(i) == 0:
				c.put(i, "[1]")
			case dict:
				c.put(i, "<< "+c.kidsNamed(i)+" >>")
			default:
				c.put(i, "["+c.kids(i)+"]")
			}
		}
	}
	add("nest-array-catalog", 8, eGeneric, func(c *cdoc) { c.catX = "/VerifNest " + c.n(0); nest(c, false) })
	add("nest-dict-catalog", 8, eGeneric, func(c *cdoc) { c.catX = "/VerifNest " + c.n(0); nest(c, true) })
	add("nest-array-info", 8, eGeneric, func(c *cdoc) { c.infoX = "/VerifNest " + c.n(0); nest(c, false) })
	add("nest-dict-pieceinfo", 8, eGeneric, func(c *cdoc) {
		c.pageX = fmt.Sprintf("/PieceInfo << /Verif << /LastModified (D:20200101000000Z) /Private %s >> >> /LastModified (D:20200101000000Z)", c.n(0))
		nest(c, true)
	})
	add("nest-array-viewerprefs", 8, eGeneric, func(c *cdoc) { c.catX = "/ViewerPreferences << /Enforce " + c.n(0) + " >>"; nest(c, false) })
	add("nest-dict-resources", 8, eResource, func(c *cdoc) { c.resX = "/Properties << /P0 " + c.n(0) + " >>"; nest(c, true) })

	// ---- article threads -----------------------------------------------------------------------
	add("thread-beads", 2, eGeneric, func(c *cdoc) {
		th := c.d.Alloc()
		c.d.Put(th, pdfgen.Raw(fmt.Sprintf("<< /Type /Thread /F %s /I << /Title (t) >> >>", c.n(0))))
		c.catX = fmt.Sprintf("/Threads [%s]", rs(th))
		c.pageX = fmt.Sprintf("/B [%s]", c.n(0))
		for i := range c.nodes {
			nv := ""
			switch c.nkids(i) {
			case 0:
			case 1:
				nv = fmt.Sprintf("/N %s /V %s", c.kid(i, 0), c.kid(i, 0))
			default:
				nv = fmt.Sprintf("/N %s /V %s", c.kid(i, 0), c.kid(i, 1))
			}
			c.put(i, fmt.Sprintf("<< /Type /Bead /T %s %s /P %s /R [0 0 10 10] >>", rs(th), nv, rs(c.page)))
		}
	})

	// ---- resources ---------------------------------------------------------------------------------
	add("xobject-form", 8, eResource, func(c *cdoc) {
		c.resX, c.contentData = "/XObject << /X0 "+c.n(0)+" >>", "q /X0 Do Q"
		formNodes(c, "XObject", "/K%d Do", "0 0 1 1 re f", "")
	})
	add("pattern-tiling", 8, eResource, func(c *cdoc) {
		c.resX, c.contentData = "/Pattern << /P0 "+c.n(0)+" >>", "/Pattern cs /P0 scn 0 0 10 10 re f"
		const pat = "/Type /Pattern /PatternType 1 /PaintType 1 /TilingType 1 /BBox [0 0 10 10] /XStep 10 /YStep 10"
		for i := range c.nodes {
			if c.isLeaf(i) {
				c.putStream(i, pat+" /Resources << >>", "0 0 1 1 re f")
				continue
			}
			var data []string
			for j := range c.g.edges[i] {
				data = append(data, fmt.Sprintf("/Pattern cs /K%d scn 0 0 5 5 re f", j))
			}
			c.putStream(i, fmt.Sprintf("%s /Resources << /Pattern << %s >> >>", pat, c.kidsNamed(i)), strings.Join(data, " "))
		}
	})
	add("font-type3", 8, eResource, func(c *cdoc) {
		c.resX, c.contentData = "/Font << /F0 "+c.n(0)+" >>", "BT /F0 10 Tf (a) Tj ET"
		cp := c.addStream("", "10 0 d0 0 0 5 5 re f")
		for i := range c.nodes {
			res := ""
			if c.nkids(i) > 0 {
				res = "/Resources << /Font << " + c.kidsNamed(i) + " >> >>"
			}
			c.put(i, fmt.Sprintf("<< /Type /Font /Subtype /Type3 /FontBBox [0 0 10 10] /FontMatrix [0.001 0 0 0.001 0 0] /CharProcs << /a %s >> "+
				"/Encoding << /Type /Encoding /Differences [97 /a] >> /FirstChar 97 /LastChar 97 /Widths [10] %s >>", cp, res))
		}
	})
	add("font-type0-descendant", 8, eResource, func(c *cdoc) {
		c.resX, c.contentData = "/Font << /F0 "+c.n(0)+" >>", "BT /F0 10 Tf <0001> Tj ET"
		for i := range c.nodes {
			if c.nkids(i) == 0 {
				c.put(i, "<< /Type /Font /Subtype /CIDFontType2 /BaseFont /Verif /CIDSystemInfo << /Registry (Adobe) /Ordering (Identity) /Supplement 0 >> "+
					"/FontDescriptor << /Type /FontDescriptor /FontName /Verif /Flags 4 /FontBBox [0 0 10 10] /ItalicAngle 0 /Ascent 10 /Descent 0 /CapHeight 10 /StemV 1 >> >>")
				continue
			}
			c.put(i, fmt.Sprintf("<< /Type /Font /Subtype /Type0 /BaseFont /Verif /Encoding /Identity-H /DescendantFonts [%s] /ToUnicode %s >>", c.kids(i), c.kid(i, 0)))
		}
	})
	add("extgstate-smask", 8, eResource, func(c *cdoc) {
		c.resX = "/ExtGState << /G0 << /Type /ExtGState /SMask << /Type /Mask /S /Alpha /G " + c.n(0) + " >> >> >>"
		c.contentData = "/G0 gs 0 0 10 10 re f"
		for i := range c.nodes {
			const grp = " /Group << /S /Transparency /CS /DeviceGray >>"
			if c.isLeaf(i) {
				c.putStream(i, formXObj+grp, "0 0 1 1 re f")
				continue
			}
			var gs, data []string
			for j := range c.g.edges[i] {
				gs = append(gs, fmt.Sprintf("/K%d << /Type /ExtGState /SMask << /Type /Mask /S /Alpha /G %s >> >>", j, c.kid(i, j)))
				data = append(data, fmt.Sprintf("/K%d gs", j))
			}
			c.putStream(i, fmt.Sprintf("%s%s /Resources << /ExtGState << %s >> >>", formXObj, grp, strings.Join(gs, " ")), strings.Join(data, " "))
		}
	})
	const img = "/Type /XObject /Subtype /Image /Width 1 /Height 1 /ColorSpace /DeviceGray /BitsPerComponent 8"
	add("image-smask+mask", 2, eResource, func(c *cdoc) {
		c.resX, c.contentData = "/XObject << /X0 "+c.n(0)+" >>", "q /X0 Do Q"
		for i := range c.nodes {
			x := ""
			switch c.nkids(i) {
			case 0:
			case 1:
				x = " /SMask " + c.kid(i, 0)
			default:
				x = " /SMask " + c.kid(i, 0) + " /Mask " + c.kid(i, 1)
			}
			c.putStream(i, img+x, "0")
		}
	})
	add("image-alternates", 8, eResource, func(c *cdoc) {
		c.resX, c.contentData = "/XObject << /X0 "+c.n(0)+" >>", "q /X0 Do Q"
		for i := range c.nodes {
			var alt []string
			for j := range c.g.edges[i] {
				alt = append(alt, "<< /Image "+c.kid(i, j)+" >>")
			}
			x := ""
			if len(alt) > 0 {
				x = " /Alternates [" + strings.Join(alt, " ") + "]"
			}
			c.putStream(i, img+x, "0")
		}
	})
	tint := "<< /FunctionType 2 /Domain [0 1] /C0 [0] /C1 [1] /N 1 >>"
	cs := func(name string, fan int, node func(c *cdoc, i int) string) {
		add(name, fan, eResource, func(c *cdoc) {
			c.resX, c.contentData = "/ColorSpace << /CS0 "+c.n(0)+" >>", "/CS0 cs 0 0 10 10 re f"
			for i := range c.nodes {
				if c.nkids(i) == 0 {
					c.put(i, "[/CalGray << /WhitePoint [1 1 1] >>]")
				} else {
					c.put(i, node(c, i))
				}
			}
		})
	}
	cs("cs-indexed", 1, func(c *cdoc, i int) string { return "[/Indexed " + c.kid(i, 0) + " 0 <000000>]" })
	cs("cs-pattern", 1, func(c *cdoc, i int) string { return "[/Pattern " + c.kid(i, 0) + "]" })
	cs("cs-separation", 1, func(c *cdoc, i int) string { return "[/Separation /A " + c.kid(i, 0) + " " + tint + "]" })
	cs("cs-devicen", 8, func(c *cdoc, i int) string {
		if c.nkids(i) == 1 {
			return "[/DeviceN [/A] " + c.kid(i, 0) + " " + tint + "]"
		}
		var col []string
		for j := 1; j < c.nkids(i); j++ {
			col = append(col, fmt.Sprintf("/C%d %s", j, c.kid(i, j)))
		}
		return fmt.Sprintf("[/DeviceN [/A] %s %s << /Colorants << %s >> /Process << /ColorSpace %s /Components [/X] >> >>]", c.kid(i, 0), tint, strings.Join(col, " "), c.kid(i, 1))
	})
	add("cs-icc-alternate", 1, eResource, func(c *cdoc) {
		c.resX, c.contentData = "/ColorSpace << /CS0 [/ICCBased "+c.n(0)+"] >>", "/CS0 cs 0 0 10 10 re f"
		for i := range c.nodes {
			alt := ""
			if c.nkids(i) > 0 {
				alt = " /Alternate [/ICCBased " + c.kid(i, 0) + "]"
			}
			c.putStream(i, "/N 1"+alt, strings.Repeat("0", 128))
		}
	})
	add("function-stitching", 8, eResource, func(c *cdoc) {
		c.resX = "/Shading << /S0 << /ShadingType 2 /ColorSpace /DeviceGray /Coords [0 0 1 1] /Function " + c.n(0) + " >> >>"
		c.contentData = "/S0 sh"
		for i := range c.nodes {
			k := c.nkids(i)
			if k == 0 {
				c.put(i, tint)
				continue
			}
			var bounds, enc []string
			for j := 0; j < k; j++ {
				if j > 0 {
					bounds = append(bounds, fmt.Sprintf("0.%02d", j*99/k))
				}
				enc = append(enc, "0 1")
			}
			c.put(i, fmt.Sprintf("<< /FunctionType 3 /Domain [0 1] /Functions [%s] /Bounds [%s] /Encode [%s] >>", c.kids(i), strings.Join(bounds, " "), strings.Join(enc, " ")))
		}
	})
	add("contents-array", 8, eResource, func(c *cdoc) {
		c.contents = c.n(0)
		for i := range c.nodes {
			if c.isLeaf(i) {
				c.putStream(i, "", "q Q")
			} else {
				c.put(i, "["+c.kids(i)+"]")
			}
		}
	})
	add("resources-dict-chain", 8, eResource, func(c *cdoc) {
		// /Resources sub-dictionaries that are references back into the resource dictionaries
		c.resX = "/XObject " + c.n(0) + " /Font " + c.n(0) + " /ExtGState " + c.n(0)
		c.contentData = "q /K0 Do Q BT /K0 10 Tf (a) Tj ET /K0 gs"
		for i := range c.nodes {
			c.put(i, "<< "+c.kidsNamed(i)+" >>")
		}
	})

	// ---- streams -----------------------------------------------------------------------------------
	strm := func(name, key string) {
		add(name, 1, eResource, func(c *cdoc) {
			c.contents = c.n(0)
			for i := range c.nodes {
				switch {
				case c.nkids(i) == 0:
					c.putStream(i, "", "q Q")
				case key == "Length":
					c.d.PutNoCompress(c.nodes[i], pdfgen.Raw(fmt.Sprintf("<< /Length %s >>\nstream\nq Q\nendstream", c.kid(i, 0))))
				case key == "DecodeParms":
					c.putStream(i, "/Filter /FlateDecode /DecodeParms "+c.kid(i, 0), "q Q")
				default:
					c.putStream(i, "/"+key+" "+c.kid(i, 0), "q Q")
				}
			}
		})
	}
	strm("stream-length-ref", "Length")
	strm("stream-filter-ref", "Filter")
	strm("stream-decodeparms-ref", "DecodeParms")
	strm("stream-f-filespec-ref", "F")

	// ---- annotations -------------------------------------------------------------------------------
	add("annot-ap-form", 8, append(append([]string{}, eAnnot...), eResource[:6]...), func(c *cdoc) {
		c.annots = append(c.annots, c.add("<< /Type /Annot /Subtype /Stamp /Rect [0 0 10 10] /AP << /N "+c.n(0)+" >> >>"))
		formNodes(c, "XObject", "/K%d Do", "0 0 1 1 re f", "")
	})
	annot := func(name string, fan int, x func(c *cdoc, i int) string) {
		add(name, fan, eAnnot, func(c *cdoc) {
			for i := range c.nodes {
				if i < 40 { // keep /Annots short in the long shapes; the rest hangs off the chain
					c.annots = append(c.annots, c.n(i))
				}
				c.put(i, "<< /Type /Annot /Rect [0 0 10 10] /Contents (c) "+x(c, i)+" >>")
			}
		})
	}
	annot("annot-popup+irt", 2, func(c *cdoc, i int) string {
		switch c.nkids(i) {
		case 0:
			return "/Subtype /Text"
		case 1:
			return "/Subtype /Text /Popup " + c.kid(i, 0)
		}
		return "/Subtype /Text /Popup " + c.kid(i, 0) + " /IRT " + c.kid(i, 1)
	})
	annot("annot-popup-parent", 1, func(c *cdoc, i int) string {
		if c.nkids(i) == 0 {
			return "/Subtype /Text"
		}
		return "/Subtype /Popup /Parent " + c.kid(i, 0)
	})
	annot("annot-irt", 1, func(c *cdoc, i int) string {
		if c.nkids(i) == 0 {
			return "/Subtype /Text"
		}
		return "/Subtype /Text /IRT " + c.kid(i, 0)
	})

	// ---- actions -----------------------------------------------------------------------------------
	action := func(c *cdoc) {
		for i := range c.nodes {
			nx := ""
			switch c.nkids(i) {
			case 0:
			case 1:
				nx = "/Next " + c.kid(i, 0)
			default:
				nx = "/Next [" + c.kids(i) + "]"
			}
			c.put(i, fmt.Sprintf("<< /Type /Action /S /GoTo /D [%s /Fit] %s >>", rs(c.page), nx))
		}
	}
	add("action-next-openaction", 8, eGeneric, func(c *cdoc) { c.catX = "/OpenAction " + c.n(0); action(c) })
	add("action-next-annot", 8, eAnnot, func(c *cdoc) {
		c.annots = append(c.annots, c.add("<< /Type /Annot /Subtype /Link /Rect [0 0 10 10] /A "+c.n(0)+" >>"))
		action(c)
	})
	add("action-next-outline", 8, eOutline, func(c *cdoc) {
		root, item := c.d.Alloc(), c.d.Alloc()
		c.catX = "/Outlines " + rs(root)
		c.d.Put(root, pdfgen.Raw(fmt.Sprintf("<< /Type /Outlines /First %s /Last %s /Count 1 >>", rs(item), rs(item))))
		c.d.Put(item, pdfgen.Raw(fmt.Sprintf("<< /Title (a) /Parent %s /A %s >>", rs(root), c.n(0))))
		action(c)
	})
	add("action-next-aa", 8, eGeneric, func(c *cdoc) { c.pageX = "/AA << /O " + c.n(0) + " >>"; action(c) })

	// ---- optional content ----------------------------------------------------------------------------
	add("ocg-order", 8, eGeneric, func(c *cdoc) {
		g := c.add("<< /Type /OCG /Name (g) >>")
		c.catX = fmt.Sprintf("/OCProperties << /OCGs [%s] /D << /Order %s /ON [%s] >> >>", g, c.n(0), g)
		for i := range c.nodes {
			c.put(i, "["+g+" "+c.kids(i)+"]")
		}
	})
	add("ocmd-ve", 8, eResource, func(c *cdoc) {
		g := c.add("<< /Type /OCG /Name (g) >>")
		c.catX = fmt.Sprintf("/OCProperties << /OCGs [%s] /D << >> >>", g)
		m := c.add(fmt.Sprintf("<< /Type /OCMD /OCGs %s /VE %s >>", g, c.n(0)))
		c.resX, c.contentData = "/Properties << /MC0 "+m+" >>", "/OC /MC0 BDC EMC"
		for i := range c.nodes {
			if c.nkids(i) == 0 {
				c.put(i, "[/Not "+g+"]")
			} else {
				c.put(i, "[/And "+c.kids(i)+"]")
			}
		}
	})
	return fs
}

// ---------------------------------------------------------------------------------------------
// the structure cases

func corePlan(entries []string, rot int) []string {
	plan := make([]string, 0, nFixedPDF+len(entries))
	for i := 0; i < nFixedPDF; i++ {
		plan = append(plan, pdfEntries[i].name)
	}
	// coreExtra of the family's entry points per case, continuing where the previous shape stopped:
	// every entry point of the family meets several shapes, and a hang in one entry point (which ends
	// the case) hides the later ones of that case only
	for i := 0; i < min(coreExtra, len(entries)); i++ {
		plan = append(plan, entries[(i+rot*coreExtra)%len(entries)])
	}
	return plan
}

func coreStructCases() []*genCase {
	var out []*genCase
	shapes := coreShapes()
	table := pdfgen.Options{XRef: pdfgen.XRefTable}
	packed := pdfgen.Options{XRef: pdfgen.XRefStream, ObjStm: true, XRefStreamFlate: true}
	addCase := func(desc string, in []byte, entries []string, rot int) {
		out = append(out, &genCase{Kind: "core-struct", Desc: desc, Plan: corePlan(entries, rot), P: uint64(len(out) + 1), In: in,
			NoGate: true, BudgetMs: coreStructFirstPassMs})
	}
	for _, f := range coreFamilies() {
		k := 0
		for si := range shapes {
			g := &shapes[si]
			if !shapesFor(&f, g) {
				continue
			}
			variants := []struct {
				n string
				o pdfgen.Options
			}{{"table", table}}
			if g.name == "self2" || (f.fan == 1 && g.name == "self1") { // the same objects inside object streams
				variants[0].n, variants[0].o = "table", table
				variants = append(variants, struct {
					n string
					o pdfgen.Options
				}{"objstm", packed})
			}
			for _, v := range variants {
				c := newCdoc(g)
				f.build(c)
				in, err := c.finish(v.o)
				if err != nil {
					panic(fmt.Sprintf("c08 core: %s/%s: %v", f.name, g.name, err))
				}
				addCase(fmt.Sprintf("%s/%s/%s", f.name, g.name, v.n), in, f.entries, k)
				k++
			}
		}
	}
	for _, s := range coreSingles() {
		addCase(s.name, s.in, s.entries, len(out))
	}
	return out
}

type single struct {
	name    string
	in      []byte
	entries []string
}

// coreSingles: cycles that are not "a node type with children": cross-reference chains, object
// stream chains, and a few one-off self references.
func coreSingles() []single {
	var out []single
	simple := func() (*cdoc, *graph) {
		g := mkGraph("single", [][]int{nil})
		c := newCdoc(&g)
		c.put(0, "<< /V 1 >>")
		return c, &g
	}
	must := func(b []byte, err error) []byte {
		if err != nil {
			panic("c08 core singles: " + err.Error())
		}
		return b
	}
	writeDoc := func(d *pdfgen.Doc, o pdfgen.Options) *pdfgen.Output {
		out, err := pdfgen.Write(d, o)
		if err != nil {
			panic("c08 core singles: " + err.Error())
		}
		return out
	}
	// a document of two revisions (for /Prev chains)
	twoRevs := func() *pdfgen.Doc {
		c, _ := simple()
		_ = must(c.finish(pdfgen.Options{}))
		c.d.AppendUpdate([]pdfgen.IndObj{{Num: c.info.Num, Obj: pdfgen.Raw("<< /Producer (verif C08 core rev 1) >>")}})
		return c.d
	}

	// /Prev: self, 2-cycle, forward; classic and stream sections; hybrid /XRefStm + /Prev (fan-out 2)
	for _, kind := range []pdfgen.XRefKind{pdfgen.XRefTable, pdfgen.XRefStream, pdfgen.XRefHybrid} {
		o := pdfgen.Options{XRef: kind, ObjStm: kind != pdfgen.XRefTable}
		d := twoRevs()
		lay := writeDoc(d, o).Layout
		off0, off1 := lay.Revs[0].XRefOffset, lay.Revs[1].XRefOffset
		prev := func(name string, p map[int]pdfgen.PrevOverride, set map[int]pdfgen.Dict) {
			oo := o
			oo.Overrides = &pdfgen.Overrides{TrailerPrev: p, TrailerSet: set}
			out = append(out, single{fmt.Sprintf("xref-prev/%s/%v", name, kind), writeDoc(d, oo).Bytes, eFile})
		}
		prev("self-all", map[int]pdfgen.PrevOverride{-1: {Mode: pdfgen.PrevSelf}}, nil)
		prev("self-last", map[int]pdfgen.PrevOverride{1: {Mode: pdfgen.PrevSelf}}, nil)
		prev("self-first", map[int]pdfgen.PrevOverride{0: {Mode: pdfgen.PrevSelf}}, nil)
		prev("cyc1", map[int]pdfgen.PrevOverride{0: {Mode: pdfgen.PrevValue, V: off1}}, nil)
		prev("xrefstm-self+prev-self", map[int]pdfgen.PrevOverride{-1: {Mode: pdfgen.PrevSelf}},
			map[int]pdfgen.Dict{0: pdfgen.D("XRefStm", off0), 1: pdfgen.D("XRefStm", off1)})
		prev("xrefstm-cross+prev-cross", map[int]pdfgen.PrevOverride{0: {Mode: pdfgen.PrevValue, V: off1}},
			map[int]pdfgen.Dict{0: pdfgen.D("XRefStm", off1), 1: pdfgen.D("XRefStm", off0)})
	}

	// object streams: /Extends self, 2-cycle
	{
		g := mkGraph("objs", [][]int{{1}, {2}, {3}, {4}, {5}, nil})
		c := newCdoc(&g)
		c.catX = "/VerifNest " + c.n(0)
		for i := range c.nodes {
			c.put(i, "["+c.kids(i)+" 1]")
		}
		_ = must(c.finish(pdfgen.Options{}))
		o := pdfgen.Options{XRef: pdfgen.XRefStream, ObjStm: true, ObjStmMax: 3}
		lay := writeDoc(c.d, o).Layout
		var stms []int
		for _, ol := range lay.Objects {
			if ol.Aux == "objstm" {
				stms = append(stms, ol.Num)
			}
		}
		if len(stms) < 2 {
			panic("c08 core singles: fewer than two object streams")
		}
		ext := func(name string, m map[int]pdfgen.ObjStmOverride) {
			oo := o
			oo.Overrides = &pdfgen.Overrides{ObjStm: m}
			out = append(out, single{"objstm-extends/" + name, writeDoc(c.d, oo).Bytes, eFile})
		}
		ext("self", map[int]pdfgen.ObjStmOverride{0: {Extends: pdfgen.Force(int64(stms[0]))}, 1: {Extends: pdfgen.Force(int64(stms[1]))}})
		ext("cyc1", map[int]pdfgen.ObjStmOverride{0: {Extends: pdfgen.Force(int64(stms[1]))}, 1: {Extends: pdfgen.Force(int64(stms[0]))}})
		ext("chain-to-self", map[int]pdfgen.ObjStmOverride{0: {Extends: pdfgen.Force(int64(stms[1]))}, 1: {Extends: pdfgen.Force(int64(stms[1]))}})
		// an object stream that claims to contain itself / its sibling container
		oo := o
		oo.Overrides = &pdfgen.Overrides{XRefEntries: map[pdfgen.XRefKey]pdfgen.XRefEntryOverride{
			{Rev: -1, Num: stms[0]}: {Type: pdfgen.Force(2), F2: pdfgen.Force(int64(stms[0])), F3: pdfgen.Force(0)}}}
		out = append(out, single{"objstm-contains-itself", writeDoc(c.d, oo).Bytes, eFile})
		oo.Overrides = &pdfgen.Overrides{XRefEntries: map[pdfgen.XRefKey]pdfgen.XRefEntryOverride{
			{Rev: -1, Num: stms[0]}: {Type: pdfgen.Force(2), F2: pdfgen.Force(int64(stms[1])), F3: pdfgen.Force(0)},
			{Rev: -1, Num: stms[1]}: {Type: pdfgen.Force(2), F2: pdfgen.Force(int64(stms[0])), F3: pdfgen.Force(0)}}}
		out = append(out, single{"objstm-contain-each-other", writeDoc(c.d, oo).Bytes, eFile})
	}

	// one-off self references
	one := func(name string, entries []string, f func(c *cdoc)) {
		for _, v := range []struct {
			n string
			o pdfgen.Options
		}{{"table", pdfgen.Options{}}, {"objstm", pdfgen.Options{XRef: pdfgen.XRefStream, ObjStm: true}}}[:1+len(out)%2] {
			c, _ := simple()
			f(c)
			out = append(out, single{"self/" + name + "/" + v.n, must(c.finish(v.o)), entries})
		}
	}
	one("catalog-is-page-tree-root", ePages, func(c *cdoc) { c.pagesRoot = rs(c.cat) })
	one("kids-lists-catalog", ePages, func(c *cdoc) { c.pageKids = rs(c.page) + " " + rs(c.cat) })
	one("kids-lists-root-twice", ePages, func(c *cdoc) { c.pageKids = rs(c.page) + " " + rs(c.pages) + " " + rs(c.pages) })
	one("page-parent-is-page", ePages, func(c *cdoc) { c.pageParent = rs(c.page) })
	one("page-group-and-thumb-are-page", eResource, func(c *cdoc) { c.pageX = "/Group " + rs(c.page) + " /Thumb " + rs(c.page) })
	one("names-is-own-dests", eNames, func(c *cdoc) {
		c.catX = "/Names " + c.n(0)
		c.put(0, "<< /Dests "+c.n(0)+" /EmbeddedFiles "+c.n(0)+" >>")
	})
	one("dests-dict-cycle", eOutline, func(c *cdoc) { c.catX = "/Dests " + c.n(0); c.put(0, "<< /a "+c.n(0)+" /b << /D "+c.n(0)+" >> >>") })
	one("named-dest-names-itself", eOutline, func(c *cdoc) {
		c.catX = "/Names << /Dests << /Names [(a) << /D (a) >> (b) << /D (c) >> (c) << /D (b) >>] >> >> /OpenAction << /Type /Action /S /GoTo /D (a) >>"
		c.annots = append(c.annots, c.add("<< /Type /Annot /Subtype /Link /Rect [0 0 10 10] /Dest (b) >>"))
	})
	one("info-refers-to-itself", eGeneric, func(c *cdoc) { c.infoX = "/Title " + rs(c.info) + " /Keywords " + rs(c.info) })
	one("metadata-is-catalog", eGeneric, func(c *cdoc) { c.catX = "/Metadata " + rs(c.cat) })
	one("annots-array-contains-itself", eAnnot, func(c *cdoc) { c.pageX = "/Annots " + c.n(0); c.put(0, "["+c.n(0)+" "+c.n(0)+"]") })
	one("acroform-is-catalog", eForm, func(c *cdoc) { c.catX = "/AcroForm " + rs(c.cat) })
	one("acroform-dr-cycle", eForm, func(c *cdoc) {
		c.catX = "/AcroForm << /Fields [] /DR " + c.n(0) + " /DA (/Helv 0 Tf 0 g) >>"
		c.put(0, "<< /Font "+c.n(0)+" /XObject "+c.n(0)+" >>")
	})
	one("resources-shared-by-form-and-page", eResource, func(c *cdoc) {
		// Resources -> XObject -> (form) Resources -> the same dictionary
		f1, f2 := c.d.Alloc(), c.d.Alloc()
		c.put(0, fmt.Sprintf("<< /XObject << /A %s /B %s >> >>", rs(f1), rs(f2)))
		for _, f := range []pdfgen.Ref{f1, f2} {
			c.d.PutNoCompress(f, streamBody(formXObj+" /Resources "+c.n(0), "/A Do /B Do"))
		}
		c.resRef, c.contentData = c.n(0), "/A Do /B Do"
	})
	one("encrypt-is-catalog", eFile, func(c *cdoc) { c.d.Revs[0].Extra = pdfgen.D("Encrypt", c.cat) })
	one("outlines-is-catalog", eOutline, func(c *cdoc) { c.catX = "/Outlines " + rs(c.cat) })
	one("structtreeroot-is-catalog", eStruct, func(c *cdoc) { c.catX = "/StructTreeRoot " + rs(c.cat) })
	one("pagelabels-is-catalog", eGeneric, func(c *cdoc) { c.catX = "/PageLabels " + rs(c.cat) + " /Kids [" + rs(c.cat) + " " + rs(c.cat) + "]" })
	return out
}

// ---------------------------------------------------------------------------------------------
// pdfgen hostile kinds

// coreHostileKinds names what coreHostileCases enumerates (evidence).
func coreHostileKinds() map[string]int {
	return map[string]int{
		"graph_attacks": len(pdfgen.GraphAttacks()), "bomb_kinds": len(pdfgen.BombKinds()), "nesting_shapes": 3, "override_classes": len(coreOverrideClasses(nil, nil, pdfgen.Options{})),
	}
}

func coreBases() [2]*pdfgen.Built {
	var bs [2]*pdfgen.Built
	for i := range bs {
		spec := pdfgen.HostileSpec(rand.New(rand.NewPCG(0xC08C08, uint64(i)+1)))
		spec.Updates = i // base 1 has an incremental update
		if i == 0 {
			spec.Filters, spec.Write.ObjStm, spec.Write.XRef = pdfgen.FiltersNone, false, pdfgen.XRefTable
		} else {
			spec.Write.ObjStm, spec.Write.XRef = true, pdfgen.XRefStream
		}
		spec.Write.Encrypter = nil
		bs[i] = pdfgen.Build(spec)
	}
	return bs
}

type ovClass struct {
	name string
	ov   *pdfgen.Overrides
}

// coreOverrideClasses: one or more fixed instances of every class of structural override
// (cf. pdfgen.RandomOverrides). doc == nil: names only.
func coreOverrideClasses(doc *pdfgen.Doc, lay *pdfgen.Layout, opts pdfgen.Options) []ovClass {
	var out []ovClass
	add := func(name string, ov *pdfgen.Overrides) { out = append(out, ovClass{name, ov}) }
	type O = pdfgen.Overrides
	F := pdfgen.Force
	var root, anyStream, otherTop int
	var rootOff, xoff, size, total int64
	lastRev := 0
	if doc != nil {
		root = doc.Root().Num
		lastRev = len(lay.Revs) - 1
		xoff, size, total = lay.Revs[lastRev].XRefOffset, lay.Revs[lastRev].Size, lay.Revs[lastRev].End
		if ol, ok := lay.Find(root); ok {
			rootOff = ol.Offset
		}
		for _, o := range lay.Objects {
			if o.InObjStm == 0 && o.Num != root {
				if o.StreamStart >= 0 && o.Aux == "" && anyStream == 0 {
					anyStream = o.Num
				}
				if o.Aux == "" && otherTop == 0 {
					otherTop = o.Num
				}
			}
		}
	}
	for i, v := range []int64{0, -1, xoff + 1, xoff / 2, 1 << 40, 1<<63 - 1} {
		add(fmt.Sprintf("startxref/%d", i), &O{StartXRef: map[int]int64{-1: v}})
	}
	xe := func(name string, num int, e pdfgen.XRefEntryOverride) {
		add(name, &O{XRefEntries: map[pdfgen.XRefKey]pdfgen.XRefEntryOverride{{Rev: -1, Num: num}: e}})
	}
	otherOff := int64(0)
	if doc != nil {
		if ol, ok := lay.Find(otherTop); ok {
			otherOff = ol.Offset
		}
	}
	for i, e := range []pdfgen.XRefEntryOverride{{F2: F(0)}, {F2: F(rootOff + 1)}, {F2: F(1 << 40)}, {F2: F(-1)}, {F3: F(65536)}, {F3: F(-1)}, {Type: F(0)}, {Type: F(2)}, {Type: F(3)}, {Type: F(255)},
		{Drop: true}, {Type: F(2), F2: F(int64(root)), F3: F(0)}, {Type: F(2), F2: F(int64(otherTop)), F3: F(1<<63 - 1)}, {F2: F(otherOff)}} {
		xe(fmt.Sprintf("xref-entry-root/%d", i), root, e)
	}
	for i, e := range []pdfgen.XRefEntryOverride{{Type: F(3)}, {Type: F(255)}, {Type: F(1)}, {Type: F(2), F2: F(1)}, {Drop: true}, {F2: F(0), F3: F(0)}, {F2: F(1 << 40)}, {Type: F(32)},
		{F2: F(int64(root))}, {F2: F(int64(root)), F3: F(0)}} {
		xe(fmt.Sprintf("xref-entry-obj0/%d", i), 0, e)
	}
	for i, v := range []int64{0, 1, size - 1, size + 1, 1 << 31, 1 << 62, -1} {
		add(fmt.Sprintf("trailer-size/%d", i), &O{TrailerSize: map[int]int64{-1: v}})
	}
	for i, p := range []pdfgen.PrevOverride{{Mode: pdfgen.PrevSelf}, {Mode: pdfgen.PrevDrop}, {Mode: pdfgen.PrevValue, V: 0}, {Mode: pdfgen.PrevValue, V: -1}, {Mode: pdfgen.PrevValue, V: xoff},
		{Mode: pdfgen.PrevValue, V: 1 << 40}, {Mode: pdfgen.PrevValue, V: total - 1}} {
		add(fmt.Sprintf("trailer-prev/%d", i), &O{TrailerPrev: map[int]pdfgen.PrevOverride{-1: p}})
	}
	for i, l := range []pdfgen.LengthOverride{{Mode: pdfgen.LengthValue, V: 0}, {Mode: pdfgen.LengthValue, V: -1}, {Mode: pdfgen.LengthValue, V: 1 << 40}, {Mode: pdfgen.LengthValue, V: 1<<63 - 1},
		{Mode: pdfgen.LengthIndirectValue, V: 1 << 31}, {Mode: pdfgen.LengthIndirectValue, V: -5}, {Mode: pdfgen.LengthSelfRef}, {Mode: pdfgen.LengthDanglingRef, V: 999999}, {Mode: pdfgen.LengthDanglingRef, V: 0},
		{Mode: pdfgen.LengthDanglingRef, V: int64(root)}, {Mode: pdfgen.LengthMissing}} {
		add(fmt.Sprintf("length/%d", i), &O{Length: map[int]pdfgen.LengthOverride{anyStream: l}})
	}
	if doc == nil || opts.ObjStm {
		for i, o := range []pdfgen.ObjStmOverride{{N: F(0)}, {N: F(-1)}, {N: F(1 << 31)}, {N: F(1<<63 - 1)}, {First: F(0)}, {First: F(-1)}, {First: F(1 << 40)}, {Pairs: []int64{}}, {Pairs: []int64{0, -1, 1, 1 << 40}},
			{Pairs: []int64{-1, 0}}, {N: F(1 << 31), First: F(1 << 31)}, {Extends: F(int64(doc0MaxNum(doc) + 1))}, {Extends: F(int64(root))}} {
			add(fmt.Sprintf("objstm/%d", i), &O{ObjStm: map[int]pdfgen.ObjStmOverride{-1: o}})
		}
	}
	if doc == nil || opts.XRef != pdfgen.XRefTable {
		for i, w := range [][]int64{{0, 0, 0}, {1, 0, 0}, {9, 9, 9}, {1, 2}, {-1, 2, 1}, {1, 1 << 31, 1}, {1, 2, 1, 1}, {}, {0, 4, 2}, {8, 8, 8}} {
			add(fmt.Sprintf("xrefstm-w/%d", i), &O{XRefStm: map[int]pdfgen.XRefStmOverride{-1: {W: w, EncodeWithW: i%2 == 0}}})
		}
		for i, ix := range [][]int64{{0}, {-1, 5}, {0, 1 << 31}, {0, -1}, {1 << 40, 2}, {0, 1, 0, 1}, {5, 0}, {}, {0, 1 << 62}} {
			add(fmt.Sprintf("xrefstm-index/%d", i), &O{XRefStm: map[int]pdfgen.XRefStmOverride{-1: {Index: ix}}})
		}
		for i, v := range []int64{0, -1, 1 << 31, 1 << 62} {
			add(fmt.Sprintf("xrefstm-size/%d", i), &O{XRefStm: map[int]pdfgen.XRefStmOverride{-1: {Size: F(v)}}})
		}
		add("xrefstm-w+index", &O{XRefStm: map[int]pdfgen.XRefStmOverride{-1: {W: []int64{1, 3, 2}, Index: []int64{0, 1 << 31}}}})
	}
	add("drop-endobj", &O{DropEndObj: map[int]bool{root: true}})
	add("drop-endstream", &O{DropEndStream: map[int]bool{anyStream: true}})
	add("drop-eof", &O{DropEOF: map[int]bool{-1: true}})
	add("drop-startxref", &O{DropStartXRef: map[int]bool{-1: true}})
	add("drop-eof+startxref", &O{DropEOF: map[int]bool{-1: true}, DropStartXRef: map[int]bool{-1: true}})
	for i, v := range []int64{0, 1, 5, 9, total / 2, total - 1, total - 6, total - 20, xoff, xoff + 4} {
		add(fmt.Sprintf("truncate/%d", i), &O{TruncateAt: F(v)})
	}
	add("prefix/garbage", &O{Prefix: []byte("GARBAGE\n")})
	add("prefix/1500", &O{Prefix: make([]byte, 1500)})
	add("prefix/decoy-header", &O{Prefix: []byte("%PDF-1.4\n%%EOF\n")})
	add("suffix/decoy-startxref", &O{Suffix: []byte("\nstartxref\n0\n%%EOF\ntrailing garbage")})
	for i, h := range [][]byte{[]byte("%PDF-9.9\n"), []byte("%PDF-\n"), {}, []byte("%PDF-1.7"), []byte("%!PS-Adobe\n"), []byte("%PDF-1.\n"), []byte("%PDF-1.7\r\r\n")} {
		add(fmt.Sprintf("header/%d", i), &O{Header: h})
	}
	for i, d := range []pdfgen.Duplicate{{Before: true, XRefToDup: true}, {Before: false, XRefToDup: true, Obj: pdfgen.Null{}}, {Before: true, Obj: pdfgen.Int(42)}, {XRefToDup: true, Obj: pdfgen.Array{}},
		{Before: true, XRefToDup: true, Obj: pdfgen.D("Type", pdfgen.Name("Catalog"))}} {
		d.Num = root
		add(fmt.Sprintf("duplicate/%d", i), &O{Duplicates: []pdfgen.Duplicate{d}})
	}
	rootRef := pdfgen.Ref{Num: root}
	for i, v := range []pdfgen.Object{pdfgen.Null{}, pdfgen.Int(3), pdfgen.Ref{Num: 999999}, pdfgen.Ref{Num: root, Gen: 7}, pdfgen.Ref{Num: 0, Gen: 65535}, pdfgen.Array{rootRef}, pdfgen.D("Type", pdfgen.Name("Catalog"))} {
		for ki, k := range []pdfgen.Name{"Root", "Info", "ID", "Size", "Prev", "XRefStm"} {
			if (i+ki)%2 == 1 { // half of the (value, key) grid: every value and every key several times
				continue
			}
			add(fmt.Sprintf("trailer-set/%s/%d", k, i), &O{TrailerSet: map[int]pdfgen.Dict{-1: {{Key: k, Val: v}}}})
		}
	}
	N, S := func(s string) pdfgen.Name { return pdfgen.Name(s) }, func(n int) pdfgen.String { return pdfgen.String(make([]byte, n)) }
	for i, enc := range []pdfgen.Object{
		pdfgen.D("Filter", N("Standard"), "V", 99, "R", 99),
		pdfgen.D("Filter", N("Standard"), "V", 1, "R", 2, "O", "short", "U", "", "P", -1),
		pdfgen.D("Filter", N("Standard"), "V", 4, "R", 4, "Length", -128, "CF", pdfgen.D("StdCF", pdfgen.D("CFM", N("Bogus"))), "StmF", N("Missing"), "StrF", 3, "O", S(32), "U", S(32), "P", int64(1)<<40),
		pdfgen.D("Filter", N("Standard"), "V", 5, "R", 6, "O", S(48), "U", S(48), "OE", "x", "UE", 1, "Perms", nil, "P", 1.5),
		pdfgen.D("Filter", N("Standard"), "V", 2, "R", 3, "Length", 1<<31, "O", S(32), "U", S(32), "P", -4),
		rootRef, pdfgen.Ref{Num: 999999}, pdfgen.Int(0), pdfgen.Array{}, pdfgen.D("Filter", N("Acme.Handler")), pdfgen.D(),
	} {
		add(fmt.Sprintf("encrypt/%d", i), &O{TrailerSet: map[int]pdfgen.Dict{-1: {{Key: "Encrypt", Val: enc}}}})
	}
	for _, k := range []pdfgen.Name{"Root", "Size", "ID", "Info"} {
		add("trailer-del/"+string(k), &O{TrailerDel: map[int][]pdfgen.Name{-1: {k}}})
	}
	return out
}

func doc0MaxNum(d *pdfgen.Doc) int {
	if d == nil {
		return 0
	}
	return d.MaxNum()
}

func coreHostileCases() []*genCase {
	var out []*genCase
	bases := coreBases()
	add := func(desc string, in []byte, r *rand.Rand, extra int, prefer ...string) {
		out = append(out, &genCase{Kind: "core-hostile", Desc: desc, Plan: planPDF(r, max(extra, len(prefer)), prefer...), P: r.Uint64(), In: in})
	}
	write := func(doc *pdfgen.Doc, o pdfgen.Options) []byte {
		w, err := pdfgen.Write(doc, o)
		if err != nil {
			return nil
		}
		return w.Bytes
	}
	// every graph attack: 3 fixed draws of its parameters (different nodes / values / depths), both bases
	for _, a := range pdfgen.GraphAttacks() {
		for v := 0; v < 2; v++ {
			r := rand.New(rand.NewPCG(0xC08A, uint64(a)*16+uint64(v)))
			bt := bases[v%2]
			depth := []int{120, 100000}[v]
			doc, desc, ok := pdfgen.ApplyGraphAttack(bt, a, r, depth)
			if !ok {
				doc, desc, ok = pdfgen.ApplyGraphAttack(bases[(v+1)%2], a, r, depth)
				bt = bases[(v+1)%2]
			}
			if !ok {
				continue
			}
			if in := write(doc, bt.Spec.Write); in != nil {
				add(fmt.Sprintf("graph %s base=%d", desc, v%2), in, r, 4, preferFor(desc)...)
			}
		}
	}
	// every bomb kind as a page content stream
	for _, k := range pdfgen.BombKinds() {
		for v, size := range []int{1 << 20} {
			r := rand.New(rand.NewPCG(0xC08B, uint64(k)*4+uint64(v)))
			bt := bases[int(k)%2]
			doc := bt.Doc.Clone()
			doc.Replace(bt.Truth.Pages[0].ContentObj[0], pdfgen.Bomb(k, size))
			if in := write(doc, bt.Spec.Write); in != nil {
				add(fmt.Sprintf("bomb %v size=%d base=%d", k, size, int(k)%2), in, r, 3, "ExtractContent", "ExtractPages", "AddWatermarksText")
			}
		}
	}
	// every nesting shape around MaxRecursionDepth and far beyond, in the catalog and in a page
	for shape := 0; shape < 3; shape++ {
		for di, depth := range []int{99, 100, 101, 1000, 100000} {
			r := rand.New(rand.NewPCG(0xC08D, uint64(shape)*16+uint64(di)))
			bt := bases[di%2]
			doc := bt.Doc.Clone()
			var nest pdfgen.Raw
			switch shape {
			case 0:
				nest = pdfgen.NestedArray(depth, pdfgen.Int(1))
			case 1:
				nest = pdfgen.NestedDict(depth, "K", pdfgen.Int(1))
			default:
				nest = pdfgen.NestedMixed(depth, pdfgen.Int(1))
			}
			tgt, key := bt.Truth.Objs.Catalog, pdfgen.Name("VerifDeep")
			if di%2 == 1 {
				tgt, key = bt.Truth.Objs.PageObjs[0], "Resources"
			}
			doc.SetKey(tgt, key, nest)
			if in := write(doc, bt.Spec.Write); in != nil {
				add(fmt.Sprintf("nest shape=%d depth=%d obj=%d /%s base=%d", shape, depth, tgt, key, di%2), in, r, 2)
			}
		}
	}
	// every override class
	for bi, bt := range bases {
		base, err := pdfgen.Write(bt.Doc, bt.Spec.Write)
		if err != nil {
			continue
		}
		for ci, oc := range coreOverrideClasses(bt.Doc, base.Layout, bt.Spec.Write) {
			// classes that apply to both file structures alternate between the bases
			if both := !strings.HasPrefix(oc.name, "objstm/") && !strings.HasPrefix(oc.name, "xrefstm-"); both && ci%2 != bi {
				continue
			}
			r := rand.New(rand.NewPCG(0xC08E, uint64(bi)*4096+uint64(ci)))
			o := bt.Spec.Write
			o.Overrides = oc.ov
			if in := write(bt.Doc, o); in != nil {
				add(fmt.Sprintf("override %s base=%d: %s", oc.name, bi, oc.ov.Describe()), in, r, 1)
			}
		}
	}
	return out
}

// coreCases numbers the whole core set (IDs are independent of the tier's case count).
func coreCases() []*genCase {
	all := append(coreStructCases(), coreHostileCases()...)
	for i, c := range all {
		c.ID = coreFirstID + i
		if len(c.Desc) > 600 {
			c.Desc = c.Desc[:600] + "…"
		}
	}
	return all
}
