package main

import (
	"encoding/base64"
	"encoding/json"
	"fmt"
	"math/rand/v2"
	"os"
	"path/filepath"
	"runtime/debug"

	"github.com/pdfcpu/pdfcpu/pkg/api"
	"github.com/pdfcpu/pdfcpu/pkg/font"
	"github.com/pdfcpu/pdfcpu/pkg/pdfcpu/model"
	"verif/harness/internal/vk"
)

// triageMain (C08_TRIAGE=<replay file>) is a triage aid, not part of the check: it runs the stored call
// in this process WITHOUT recovering, so that the Go runtime prints the complete trace with file:line
// (use `timeout -s QUIT 20 ...` to get the goroutine dump of a call that does not return).
func triageMain(file string) {
	raw, err := os.ReadFile(file)
	if err != nil {
		fmt.Fprintln(os.Stderr, err)
		os.Exit(2)
	}
	var rf struct {
		Key  string     `json:"key"`
		Case replayCase `json:"case"`
	}
	if err := json.Unmarshal(raw, &rf); err != nil {
		fmt.Fprintln(os.Stderr, err)
		os.Exit(2)
	}
	in, _ := base64.StdEncoding.DecodeString(rf.Case.InB64)
	if out := os.Getenv("C08_DUMP"); out != "" {
		_ = os.WriteFile(out, in, 0o644)
	}
	debug.SetMaxStack(8 << 20) // short overflow traces
	api.DisableConfigDir()
	root, _ := os.MkdirTemp(filepath.Join(os.Getenv("VERIF_ROOT"), ".cache", "run"), "C08-triage-")
	defer os.RemoveAll(root)
	font.UserFontDir = filepath.Join(root, "fonts")
	model.TrustedCertDir = filepath.Join(root, "certs")
	work := filepath.Join(root, "work")
	for _, d := range []string{font.UserFontDir, model.TrustedCertDir, work} {
		_ = os.MkdirAll(d, 0o755)
	}
	_ = api.InstallFonts([]string{filepath.Join(vk.RepoDir(), "pkg/testdata/fonts/Roboto-Regular.ttf")})
	c := rf.Case.Case
	aux := builtinAux()
	if c.Aux != "" {
		aux, _ = os.ReadFile(filepath.Join(vk.RepoDir(), c.Aux))
	}
	ent := findEntry(c.Kind, rf.Case.Entry)
	if ent == nil {
		fmt.Fprintln(os.Stderr, "unknown entry", rf.Case.Entry)
		os.Exit(2)
	}
	e := &env{in: in, ext: c.Ext, aux: aux, work: work, rng: rand.New(rand.NewPCG(c.P, uint64(rf.Case.Call)+1))}
	fmt.Fprintf(os.Stderr, "triage %s: %s on case %d (%s, %d bytes): %s\n", rf.Key, rf.Case.Entry, c.ID, c.Kind, len(in), c.Desc)
	err = ent.f(e)
	fmt.Fprintf(os.Stderr, "returned: %v\n", err)
}
