package main

import (
	"bytes"
	"fmt"

	"verif/harness/internal/pdfgen"
)

// scaleProbes are fixed large inputs run in both tiers. The seeded mutators keep inputs (and so
// nesting depths) around 256 KB, where recursion proportional to the input still fits a 64 MB
// stack; whether recursion and time stay bounded at the top of the size range (1 - 3.5 MB) is asked
// once per structure here, one entry point each.
func scaleProbes(firstID int) []*genCase {
	var out []*genCase
	add := func(kind, desc, entry string, in []byte) {
		out = append(out, &genCase{ID: firstID + len(out), Kind: kind, Desc: "scale probe: " + desc, Plan: []string{entry}, P: 1, In: in})
	}
	// BER: 250 000 nested indefinite-length SEQUENCEs (1 MB)
	n := 250000
	add("pkcs7", fmt.Sprintf("%d nested indefinite-length SEQUENCEs", n), "pkcs7.Parse",
		append(bytes.Repeat([]byte{0x30, 0x80}, n), bytes.Repeat([]byte{0, 0}, n)...))
	// PDF: a catalog entry holding a 500 000-deep array / dictionary (1 MB / 3.5 MB)
	for _, shape := range []string{"array", "dict"} {
		bt := pdfgen.Build(pdfgen.DocSpec{Seed: 11, Pages: 1})
		doc := bt.Doc.Clone()
		depth := 500000
		var nest pdfgen.Raw
		if shape == "array" {
			nest = pdfgen.NestedArray(depth, pdfgen.Int(1))
		} else {
			nest = pdfgen.NestedDict(depth, "K", pdfgen.Int(1))
		}
		doc.SetKey(bt.Truth.Objs.Catalog, "VerifDeep", nest)
		if o, err := pdfgen.Write(doc, pdfgen.Options{}); err == nil {
			add("deep", fmt.Sprintf("catalog entry nested %d %ss deep", depth, shape), "ReadContext", o.Bytes)
		}
	}
	// JSON: bookmark tree nested 200 000 levels
	d := 200000
	js := append(bytes.Repeat([]byte(`{"bookmarks":[{"title":"a","page":1,"kids":[`), 1), bytes.Repeat([]byte(`{"title":"a","page":1,"kids":[`), d)...)
	js = append(js, bytes.Repeat([]byte(`]}`), d)...)
	js = append(js, []byte(`]}]}`)...)
	add("json-bookmarks", fmt.Sprintf("bookmark JSON nested %d levels", d), "ImportBookmarksJSON", js)
	return out
}
