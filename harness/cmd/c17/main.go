// C17 — Flate/LZW predictor decoding matches the PNG (RFC 2083 §6) and TIFF 6.0 §14 specifications.
//
// Oracle: harness/internal/ref/predictor (independent implementation). The predicted byte
// stream is produced by the reference, compressed with compress/zlib resp. the reference
// PDF-LZW encoder, decoded by pdfcpu's filter.NewFilter(...).Decode and compared with the
// reference un-filtering. Grid (completely enumerated in both tiers):
// predictor {1,2,10..15} × colors 1..4 × bpc {1,2,4,8,16} × columns 1..8 × rows 1..4 ×
// (PNG) every tuple of row filter bytes 0..4; plus invalid filter bytes (error required).
package main

import (
	"bytes"
	"compress/zlib"
	"encoding/hex"
	"fmt"
	"io"
	"math/rand/v2"
	"runtime/debug"
	"strings"
	"sync"

	"github.com/pdfcpu/pdfcpu/pkg/filter"
	reflzw "verif/harness/internal/ref/lzw"
	"verif/harness/internal/ref/predictor"
	"verif/harness/internal/vk"
)

type cell struct{ Pred, Colors, BPC, Cols, Rows int }

type replayCase struct {
	Filter     string         `json:"filter"`
	Parms      map[string]int `json:"parms"`
	Rows       int            `json:"rows"`
	RowFilters []int          `json:"row_filters,omitempty"`
	Predicted  string         `json:"predicted_hex"` // bytes before compression
	Compressed string         `json:"compressed_hex"`
	Want       string         `json:"want_hex,omitempty"`
	Got        string         `json:"got_hex,omitempty"`
	Err        string         `json:"err,omitempty"`
}

var zlevels = []int{zlib.DefaultCompression, zlib.NoCompression, zlib.BestSpeed, zlib.HuffmanOnly}
var zpools [4]sync.Pool

func deflate(b []byte, lvl int) []byte {
	var out bytes.Buffer
	w, _ := zpools[lvl].Get().(*zlib.Writer)
	if w == nil {
		w, _ = zlib.NewWriterLevel(&out, zlevels[lvl])
	} else {
		w.Reset(&out)
	}
	w.Write(b)
	w.Close()
	zpools[lvl].Put(w)
	return out.Bytes()
}

// pdfcpuDecode runs pdfcpu's decoder, converting panics into an error text starting with "panic:".
func pdfcpuDecode(name string, parms map[string]int, enc []byte) (out []byte, err error) {
	defer func() {
		if r := recover(); r != nil {
			err = fmt.Errorf("panic: %v @ %s", r, innermostFrame(string(debug.Stack())))
		}
	}()
	f, err := filter.NewFilter(name, parms)
	if err != nil {
		return nil, err
	}
	r, err := f.Decode(bytes.NewReader(enc))
	if err != nil {
		return nil, err
	}
	return io.ReadAll(r)
}

func innermostFrame(stack string) string {
	for _, ln := range strings.Split(stack, "\n") {
		if strings.HasPrefix(ln, "github.com/pdfcpu/pdfcpu/") {
			if i := strings.LastIndex(ln, "("); i > 0 {
				ln = ln[:i]
			}
			return strings.TrimPrefix(ln, "github.com/pdfcpu/pdfcpu/")
		}
	}
	return "?"
}

// genData fills rows with one of several distributions so that Paeth/Average ties, carries
// and wrap-arounds are frequent and not only uniformly random bytes are seen.
func genData(rng *rand.Rand, n int) []byte {
	b := make([]byte, n)
	switch rng.IntN(5) {
	case 0, 1: // uniform
		for i := range b {
			b[i] = byte(rng.Uint32())
		}
	case 2: // small alphabet around the wrap-around points
		al := []byte{0, 1, 2, 3, 0x7f, 0x80, 0x81, 0xfe, 0xff}
		for i := range b {
			b[i] = al[rng.IntN(len(al))]
		}
	case 3: // slowly varying (neighbours close: many Paeth ties)
		v := byte(rng.Uint32())
		for i := range b {
			v += byte(rng.IntN(5)) - 2
			b[i] = v
		}
	case 4: // extremes
		for i := range b {
			if rng.IntN(2) == 0 {
				b[i] = 0xff
			}
		}
	}
	return b
}

func parmsFor(c cell, rng *rand.Rand) map[string]int {
	m := map[string]int{"Predictor": c.Pred}
	// entries equal to their default are left out at random: defaults are Colors 1, BitsPerComponent 8, Columns 1
	if c.Colors != 1 || rng.IntN(2) == 0 {
		m["Colors"] = c.Colors
	}
	if c.BPC != 8 || rng.IntN(2) == 0 {
		m["BitsPerComponent"] = c.BPC
	}
	if c.Cols != 1 || rng.IntN(2) == 0 {
		m["Columns"] = c.Cols
	}
	return m
}

func withEC(m map[string]int, ec int) map[string]int {
	n := map[string]int{}
	for k, v := range m {
		n[k] = v
	}
	if ec >= 0 {
		n["EarlyChange"] = ec
	}
	return n
}

// maskPad clears the padding bits at the end of every row (TIFF leaves them undefined).
func maskPad(p predictor.Params, b []byte) []byte {
	m := p.PadMask()
	if m == 0xff || p.Predictor != 2 {
		return b
	}
	c := append([]byte(nil), b...)
	rb := p.RowBytes()
	for i := rb - 1; i < len(c); i += rb {
		c[i] &= m
	}
	return c
}

func predClass(c cell) string {
	switch {
	case c.Pred == 1:
		return "predictor1"
	case c.Pred == 2:
		return "tiff2"
	}
	return "png"
}

type stats struct {
	evals, nontrivial                    int64
	flateOK, lzwOK, lzwRejected, invalid int64
	filterRows                           [5]int64
	perPred                              map[int]int64
}

type checker struct {
	t  *vk.T
	mu sync.Mutex
	st stats
}

// validCase checks one case with legal parameters and legal row filter bytes.
func (ck *checker) validCase(c cell, p predictor.Params, rng *rand.Rand, caseNo int, fl []byte, st *stats, sample bool) {
	t := ck.t
	raw := genData(rng, c.Rows*p.RowBytes())
	predicted, err := predictor.Encode(p, raw, fl)
	if err != nil {
		t.Broken("reference encode %+v: %v", c, err)
	}
	want, err := predictor.Decode(p, predicted)
	if err != nil || !bytes.Equal(want, raw) {
		t.Broken("reference does not round-trip %+v: %v", c, err)
	}
	parms := parmsFor(c, rng)
	st.evals++
	changed := false
	if p.IsPNG() {
		rb := p.RowBytes()
		for r := 0; r < c.Rows; r++ {
			if !bytes.Equal(predicted[r*(rb+1)+1:(r+1)*(rb+1)], raw[r*rb:(r+1)*rb]) {
				changed = true
			}
			st.filterRows[fl[r]]++
		}
	} else {
		changed = !bytes.Equal(predicted, raw)
	}
	if changed {
		st.nontrivial++
	}
	st.perPred[c.Pred]++
	intFl := make([]int, len(fl))
	for i, v := range fl {
		intFl[i] = int(v)
	}
	mk := func(fname string, pm map[string]int, comp, got []byte, e error) replayCase {
		rc := replayCase{Filter: fname, Parms: pm, Rows: c.Rows, RowFilters: intFl, Predicted: hex.EncodeToString(predicted),
			Compressed: hex.EncodeToString(comp), Want: hex.EncodeToString(want)}
		if got != nil {
			rc.Got = hex.EncodeToString(got)
		}
		if e != nil {
			rc.Err = e.Error()
		}
		return rc
	}
	// which row filter is responsible for a PNG mismatch: the filter of the first differing row
	wrongKey := func(prefix string, got []byte) string {
		switch predClass(c) {
		case "png":
			ft := -1
			rb := p.RowBytes()
			for r := 0; r < c.Rows; r++ {
				if (r+1)*rb > len(got) || !bytes.Equal(got[r*rb:(r+1)*rb], want[r*rb:(r+1)*rb]) {
					ft = int(fl[r])
					break
				}
			}
			if len(got) != len(want) {
				return fmt.Sprintf("%s/png/filter%d/bpc%d/wrong-length", prefix, ft, c.BPC)
			}
			return fmt.Sprintf("%s/png/filter%d/bpc%d/wrong-bytes", prefix, ft, c.BPC)
		case "tiff2":
			return fmt.Sprintf("%s/tiff2/bpc%d/wrong-bytes", prefix, c.BPC)
		}
		return prefix + "/predictor1/wrong-bytes"
	}
	check := func(prefix, fname string, pm map[string]int, comp []byte) bool {
		got, e := pdfcpuDecode(fname, pm, comp)
		switch {
		case e != nil && strings.HasPrefix(e.Error(), "panic:"):
			t.Violate(fmt.Sprintf("%s/%s/panic/%s", prefix, predClass(c), strings.TrimPrefix(e.Error()[strings.LastIndex(e.Error(), "@ ")+2:], " ")),
				fmt.Sprintf("%s %v rows=%d filters=%v: %v", fname, pm, c.Rows, intFl, e), mk(fname, pm, comp, nil, e))
		case e != nil && strings.Contains(e.Error(), "unsupported predictor"):
			if prefix == "lzw" {
				st.lzwRejected++
			}
			t.Violate(fmt.Sprintf("%s/predictor%d/rejected", prefix, c.Pred),
				fmt.Sprintf("%s %v: valid parameters (PDF 32000-1 Table 8) rejected: %v", fname, pm, e), mk(fname, pm, comp, nil, e))
		case e != nil:
			t.Violate(fmt.Sprintf("%s/%s/bpc%d/unexpected-error", prefix, predClass(c), c.BPC),
				fmt.Sprintf("%s %v rows=%d filters=%v predicted=%x: error on valid input: %v", fname, pm, c.Rows, intFl, predicted, e), mk(fname, pm, comp, nil, e))
		case !bytes.Equal(maskPad(p, got), maskPad(p, want)):
			t.Violate(wrongKey(prefix, got),
				fmt.Sprintf("%s %v rows=%d filters=%v predicted=%x: pdfcpu %x, reference %x", fname, pm, c.Rows, intFl, predicted, got, want), mk(fname, pm, comp, got, nil))
		default:
			return true
		}
		return false
	}
	z := deflate(predicted, caseNo%len(zlevels))
	if check("flate", filter.Flate, parms, z) {
		st.flateOK++
	}
	// LZW: default (EarlyChange absent = 1) and EarlyChange 0 in every case, explicit 1 in every third
	ecs := []int{-1, 0}
	if caseNo%3 == 0 {
		ecs = append(ecs, 1)
	}
	lz := [2][]byte{reflzw.Encode(predicted, 0), reflzw.Encode(predicted, 1)}
	for _, ec := range ecs {
		refEC := 1
		if ec == 0 {
			refEC = 0
		}
		if check("lzw", filter.LZW, withEC(parms, ec), lz[refEC]) {
			st.lzwOK++
		}
	}
	if sample {
		t.Sample(map[string]any{"kind": "valid", "parms": parms, "rows": c.Rows, "row_filters": intFl,
			"raw": hex.EncodeToString(raw), "predicted": hex.EncodeToString(predicted), "zlib": hex.EncodeToString(z)})
	}
}

// invalid PNG filter byte in row `row`: pdfcpu must report an error (RFC 2083 defines types 0..4 only).
func (ck *checker) invalidCase(c cell, p predictor.Params, rng *rand.Rand, row int, bad byte, st *stats) {
	t := ck.t
	raw := genData(rng, c.Rows*p.RowBytes())
	fl := make([]byte, c.Rows)
	for i := range fl {
		fl[i] = byte(rng.IntN(5))
	}
	predicted, _ := predictor.Encode(p, raw, fl)
	predicted[row*p.EncodedRowBytes()] = bad
	if _, err := predictor.Decode(p, predicted); err == nil {
		t.Broken("reference accepts filter byte %d", bad)
	}
	parms := parmsFor(c, rng)
	st.evals++
	st.nontrivial++
	st.invalid++
	z := deflate(predicted, int(bad)%len(zlevels))
	got, e := pdfcpuDecode(filter.Flate, parms, z)
	if e == nil {
		cls := "5"
		if bad != 5 {
			cls = "gt5"
		}
		t.Violate("flate/png/invalid-filter-byte-"+cls+"/accepted",
			fmt.Sprintf("Flate %v predicted=%x: row %d has filter byte %d (undefined in RFC 2083), pdfcpu returned %x without error", parms, predicted, row, bad, got),
			replayCase{Filter: filter.Flate, Parms: parms, Rows: c.Rows, Predicted: hex.EncodeToString(predicted), Compressed: hex.EncodeToString(z), Got: hex.EncodeToString(got)})
	} else if strings.HasPrefix(e.Error(), "panic:") {
		t.Violate("flate/png/invalid-filter-byte/panic", fmt.Sprintf("Flate %v predicted=%x: %v", parms, predicted, e), nil)
	}
	// LZW: an error is required as well; on the unchanged tree it is the blanket "unsupported predictor"
	// rejection, which is reported by the valid cases, so here any error satisfies the requirement.
	gotL, eL := pdfcpuDecode(filter.LZW, parms, reflzw.Encode(predicted, 1))
	if eL == nil {
		t.Violate("lzw/png/invalid-filter-byte/accepted",
			fmt.Sprintf("LZW %v predicted=%x: row %d has filter byte %d, pdfcpu returned %x without error", parms, predicted, row, bad, gotL), nil)
	}
}

func main() {
	vk.Run("C17", "exploration", func(t *vk.T) {
		t.Rule("complete grid predictor {1,2,10..15} × colors 1..4 × bpc {1,2,4,8,16} × columns 1..8 × rows 1..4; for PNG predictors every tuple of row filter bytes 0..4 (5^rows) " +
			"with seeded row data (uniform / wrap-around alphabet / slowly varying / extremes), for predictor 1 and 2 K seeded data sets per cell; every case is decoded through Flate " +
			"(zlib levels default/stored/fast/huffman in rotation) and LZW (EarlyChange absent and 0, explicit 1 every third case); per PNG cell every row position gets the invalid " +
			"filter bytes 5, 255 and one random byte 6..254 (error required). Non-trivial = prediction changed at least one byte of the row data, or an invalid filter byte; " +
			"cases are distinct by construction (cell × filter tuple × data index)")
		t.Assume("row data is sampled (seeded), everything else is enumerated; padding bits at the end of a TIFF row (row bits not a multiple of 8) are not compared; " +
			"a /Predictor value 10..15 only announces PNG prediction, the filter byte of each row selects the algorithm (PDF 32000-1 7.4.4.4), so every row byte 0..4 is legal under each of 10..15; " +
			"all grid parameters are legal per PDF 32000-1 Table 8, so the only accepted errors are those for filter bytes > 4")
		var cells []cell
		for _, pred := range []int{1, 2, 10, 11, 12, 13, 14, 15} {
			for colors := 1; colors <= 4; colors++ {
				for _, bpc := range []int{1, 2, 4, 8, 16} {
					for cols := 1; cols <= 8; cols++ {
						for rows := 1; rows <= 4; rows++ {
							cells = append(cells, cell{pred, colors, bpc, cols, rows})
						}
					}
				}
			}
		}
		K := t.Pick(24, 400) // data sets per predictor 1/2 cell
		reps := t.Pick(1, 6) // data sets per PNG filter tuple
		ck := &checker{t: t}
		ck.st.perPred = map[int]int64{}
		vk.Parallel(len(cells), func(i int) {
			c := cells[i]
			p := predictor.Params{Predictor: c.Pred, Colors: c.Colors, BPC: c.BPC, Columns: c.Cols}
			rng := t.RNGi("cell", i)
			st := stats{perPred: map[int]int64{}}
			caseNo := i * 7919
			if p.IsPNG() {
				n := 1
				for r := 0; r < c.Rows; r++ {
					n *= 5
				}
				fl := make([]byte, c.Rows)
				for tup := 0; tup < n; tup++ {
					v := tup
					for r := range fl {
						fl[r] = byte(v % 5)
						v /= 5
					}
					for k := 0; k < reps; k++ {
						caseNo++
						ck.validCase(c, p, rng, caseNo, fl, &st, i%731 == 7 && tup == n-1 && k == 0)
					}
				}
				for row := 0; row < c.Rows; row++ {
					for _, bad := range []byte{5, 255, byte(6 + rng.IntN(249))} {
						ck.invalidCase(c, p, rng, row, bad, &st)
					}
				}
			} else {
				for k := 0; k < K; k++ {
					caseNo++
					ck.validCase(c, p, rng, caseNo, nil, &st, i%731 == 7 && k == 0)
				}
			}
			ck.mu.Lock()
			ck.st.evals += st.evals
			ck.st.nontrivial += st.nontrivial
			ck.st.flateOK += st.flateOK
			ck.st.lzwOK += st.lzwOK
			ck.st.lzwRejected += st.lzwRejected
			ck.st.invalid += st.invalid
			for k, v := range st.filterRows {
				ck.st.filterRows[k] += v
			}
			for k, v := range st.perPred {
				ck.st.perPred[k] += v
			}
			ck.mu.Unlock()
		})
		s := ck.st
		t.EvalBulk(s.evals, s.nontrivial)
		t.Count("grid_cells", int64(len(cells)))
		t.Count("flate_decodes_equal_to_reference", s.flateOK)
		t.Count("lzw_decodes_equal_to_reference", s.lzwOK)
		t.Count("lzw_rejected_unsupported_predictor", s.lzwRejected)
		t.Count("invalid_filter_byte_cases", s.invalid)
		for k, v := range s.filterRows {
			t.Count(fmt.Sprintf("png_rows_with_filter_%d", k), v)
		}
		for k, v := range s.perPred {
			t.Count(fmt.Sprintf("valid_cases_predictor_%d", k), v)
		}
		t.Exhaustive(true) // the parameter grid × filter tuples is enumerated completely in both tiers (row data sampled, see assumptions)
	})
}
