// temporary scratch program (predictor patches); removed after use
package main

import (
	"bytes"
	"compress/zlib"
	"fmt"
	"io"
	"math/rand/v2"

	"github.com/pdfcpu/pdfcpu/pkg/filter"
	reflzw "verif/harness/internal/ref/lzw"
	"verif/harness/internal/ref/predictor"
)

func deflate(b []byte) []byte {
	var out bytes.Buffer
	w := zlib.NewWriter(&out)
	w.Write(b)
	w.Close()
	return out.Bytes()
}

func dec(name string, pm map[string]int, enc []byte) ([]byte, error) {
	f, err := filter.NewFilter(name, pm)
	if err != nil {
		return nil, err
	}
	r, err := f.Decode(bytes.NewReader(enc))
	if err != nil {
		return nil, err
	}
	return io.ReadAll(r)
}

func enc(name string, pm map[string]int, data []byte) ([]byte, error) {
	f, err := filter.NewFilter(name, pm)
	if err != nil {
		return nil, err
	}
	r, err := f.Encode(bytes.NewReader(data))
	if err != nil {
		return nil, err
	}
	return io.ReadAll(r)
}

func inflate(b []byte) []byte {
	r, err := zlib.NewReader(bytes.NewReader(b))
	if err != nil {
		panic(err)
	}
	o, err := io.ReadAll(r)
	if err != nil {
		panic(err)
	}
	return o
}

func main() {
	rng := rand.New(rand.NewPCG(1, 2))
	bad, n := 0, 0
	cls := map[string]int{}
	fail := func(c string) bool { cls[c]++; bad++; return cls[c] <= 3 }
	for _, pred := range []int{2, 10, 11, 12, 13, 14, 15} {
		for colors := 1; colors <= 5; colors++ {
			for _, bpc := range []int{1, 2, 4, 8, 16} {
				for cols := 1; cols <= 9; cols++ {
					for rows := 0; rows <= 4; rows++ {
						p := predictor.Params{Predictor: pred, Colors: colors, BPC: bpc, Columns: cols}
						pm := map[string]int{"Predictor": pred, "Colors": colors, "BitsPerComponent": bpc, "Columns": cols}
						raw := make([]byte, rows*p.RowBytes())
						for i := range raw {
							raw[i] = byte(rng.Uint32())
						}
						var fl []byte
						if p.IsPNG() {
							fl = make([]byte, rows)
							for i := range fl {
								fl[i] = byte(rng.IntN(5))
							}
						}
						predicted, err := predictor.Encode(p, raw, fl)
						if err != nil {
							panic(err)
						}
						n++
						// decode, exact (padding bits included)
						got, err := dec(filter.Flate, pm, deflate(predicted))
						if err != nil || !bytes.Equal(got, raw) {
														if fail("DECODE flate") {
								fmt.Printf("DECODE flate %v rows=%d: err=%v got %x want %x\n", pm, rows, err, got, raw)
							}
						}
						got, err = dec(filter.LZW, pm, reflzw.Encode(predicted, 1))
						if err != nil || !bytes.Equal(got, raw) {
														if fail("DECODE lzw") {
								fmt.Printf("DECODE lzw %v rows=%d: err=%v got %x want %x\n", pm, rows, err, got, raw)
							}
						}
						// encode: pdfcpu encoding read by the reference
						e, err := enc(filter.Flate, pm, raw)
						if err != nil {
														if fail("ENCODE flate") {
								fmt.Printf("ENCODE flate %v rows=%d: err=%v\n", pm, rows, err)
							}
						} else if back, err := predictor.Decode(p, inflate(e)); err != nil || !bytes.Equal(back, raw) {
														if fail("ENCODE flate") {
								fmt.Printf("ENCODE flate %v rows=%d: reference reads %x (err %v) want %x\n", pm, rows, back, err, raw)
							}
						}
						e, err = enc(filter.LZW, pm, raw)
						if err != nil {
														if fail("ENCODE lzw") {
								fmt.Printf("ENCODE lzw %v rows=%d: err=%v\n", pm, rows, err)
							}
						} else if d, _, err := reflzw.Decode(e, 1); err != nil {
							fail("other")
						} else if back, err := predictor.Decode(p, d); err != nil || !bytes.Equal(back, raw) {
														if fail("ENCODE lzw") {
								fmt.Printf("ENCODE lzw %v rows=%d: reference reads %x (err %v) want %x\n", pm, rows, back, err, raw)
							}
						}
						// not whole rows
						if rb := p.RowBytes(); rb > 1 {
							if _, err := enc(filter.Flate, pm, append(append([]byte{}, raw...), 7)); err == nil {
																if fail("ENCODE flate") {
									fmt.Printf("ENCODE flate %v: partial row accepted\n", pm)
								}
							}
						}
					}
				}
			}
		}
	}
	fmt.Printf("cases %d bad %d %v\n", n, bad, cls)
}
