package main

import (
	"math/rand/v2"
	"strings"
	"unicode"
	"unicode/utf8"

	"golang.org/x/text/unicode/norm"
)

const alnum = "abcdefghijklmnopqrstuvwxyzABCDEFGHIJKLMNOPQRSTUVWXYZ0123456789"

func randFrom(r *rand.Rand, alphabet []rune, n int) string {
	out := make([]rune, n)
	for i := range out {
		out[i] = alphabet[r.IntN(len(alphabet))]
	}
	return string(out)
}

func randAlnum(r *rand.Rand, n int) string { return randFrom(r, []rune(alnum), n) }

func pick(r *rand.Rand, ss ...string) string { return ss[r.IntN(len(ss))] }

// mix inserts special (as a whole) at a random position of base.
func mix(r *rand.Rand, base, special string) string {
	rs := []rune(base)
	i := r.IntN(len(rs) + 1)
	return string(rs[:i]) + special + string(rs[i:])
}

type pwClass struct {
	Name string
	Low  bool // applicable to R 2-4 (PDFDocEncoding)
	High bool // applicable to R 5/6 (SASLprep)
	Gen  func(r *rand.Rand) string
}

// Every class stays inside the code points whose RFC 4013 treatment the reference tables
// cover and that exist unchanged since Unicode 3.2.
var pwClasses = []pwClass{
	{"ascii-alnum", true, true, func(r *rand.Rand) string { return randAlnum(r, 1+r.IntN(14)) }},
	{"ascii-punct", true, true, func(r *rand.Rand) string {
		return mix(r, randAlnum(r, 2+r.IntN(6)), pick(r, "!", "#", "$", "%", "&", "-", "_", "+", "(", ")", "\\", "/", "~", "*", "@", "'", "\"", "<", "[", "{", "^", "`", "|", "=", ".", ",", ";", ":", "?"))
	}},
	{"ascii-space", true, true, func(r *rand.Rand) string { return randAlnum(r, 1+r.IntN(4)) + " " + randAlnum(r, 1+r.IntN(4)) }},
	{"digit-first", true, true, func(r *rand.Rand) string {
		return randFrom(r, []rune("0123456789"), 1+r.IntN(3)) + randAlnum(r, r.IntN(5))
	}},
	{"latin1-letters", true, true, func(r *rand.Rand) string {
		return mix(r, randAlnum(r, 1+r.IntN(5)), randFrom(r, []rune("äöüßéèêñçåøÆÐÞÿ"), 1+r.IntN(3)))
	}},
	{"latin1-symbols", true, true, func(r *rand.Rand) string {
		return mix(r, randAlnum(r, 2+r.IntN(5)), randFrom(r, []rune("£§©¿±¤«»µ¶·¡¢¥¦¬®°×÷"), 1))
	}},
	{"pdfdoc-0x80-0xA0", true, false, func(r *rand.Rand) string {
		return mix(r, randAlnum(r, 2+r.IntN(5)), randFrom(r, []rune("€•†…—ŒšŽ™"), 1))
	}},
	{"long-33-40", true, false, func(r *rand.Rand) string { return randAlnum(r, 33+r.IntN(8)) }},
	{"greek-cyrillic-cjk", false, true, func(r *rand.Rand) string {
		return mix(r, randAlnum(r, r.IntN(4)), pick(r, "κωδικός", "пароль", "слово", "日本語", "密码", "ключ"))
	}},
	{"rtl", false, true, func(r *rand.Rand) string { return pick(r, "שלום", "סיסמה", "سلام", "א1ב", "كلمة") }},
	{"nfkc-compat", false, true, func(r *rand.Rand) string {
		return mix(r, randAlnum(r, 1+r.IntN(5)), pick(r, "ﬁ", "ﬂ", "Ⅸ", "ª", "º", "Ａ", "ｚ", "①", "㎏", "ǅ", "²", "½"))
	}},
	{"decomposed", false, true, func(r *rand.Rand) string {
		return mix(r, randAlnum(r, 1+r.IntN(5)), pick(r, "e\u0301", "A\u030a", "n\u0303", "u\u0308", "c\u0327"))
	}},
	{"b1-map-to-nothing", false, true, func(r *rand.Rand) string {
		return mix(r, randAlnum(r, 2+r.IntN(5)), pick(r, "\u00ad", "\u034f", "\u1806", "\u180b", "\u200c", "\u200d", "\u2060", "\ufe00", "\ufe0f", "\ufeff"))
	}},
	{"non-ascii-space", false, true, func(r *rand.Rand) string {
		return randAlnum(r, 1+r.IntN(4)) + pick(r, nonASCIISpaces...) + randAlnum(r, 1+r.IntN(4))
	}},
	{"long-100-160", false, true, func(r *rand.Rand) string { return randAlnum(r, 100+r.IntN(61)) }},
}

var nonASCIISpaces = []string{"\u00a0", "\u1680", "\u2000", "\u2002", "\u2003", "\u2009", "\u202f", "\u205f", "\u3000"}

// candidate is a password offered to an encrypted file, with how it relates to the true one.
type candidate struct {
	Rel string
	PW  string
}

func flipCase(s string) (string, bool) {
	rs := []rune(s)
	for i, c := range rs {
		if c < 0x80 && unicode.IsLetter(c) {
			if unicode.IsUpper(c) {
				rs[i] = unicode.ToLower(c)
			} else {
				rs[i] = unicode.ToUpper(c)
			}
			return string(rs), true
		}
	}
	return s, false
}

// candidates derives near-misses and equivalent spellings of pw; high = R 5/6 rules.
// Whether a candidate must be accepted is decided by the reference, not here.
func candidates(r *rand.Rand, pw string, high bool) []candidate {
	out := []candidate{{"exact", pw}}
	add := func(rel, s string) {
		if s != pw {
			out = append(out, candidate{rel, s})
		}
	}
	if f, ok := flipCase(pw); ok {
		add("case-flipped", f)
	}
	if pw != "" {
		_, n := utf8.DecodeLastRuneInString(pw)
		add("truncated-by-one", pw[:len(pw)-n])
	}
	add("one-appended", pw+"x")
	if !high {
		if len(pw) > 32 {
			b := []byte(pw)
			b[len(b)-1] ^= 1
			add("differs-after-byte-32", string(b))
			add("cut-to-32", pw[:32])
			c := []byte(pw)
			c[5+r.IntN(20)] ^= 1
			add("differs-within-32", string(c))
		}
		return out
	}
	add("nfd-form", norm.NFD.String(pw))
	add("nfc-form", norm.NFC.String(pw))
	add("nfkc-form", norm.NFKC.String(pw))
	for _, rp := range [][2]string{{"fi", "ﬁ"}, {"a", "ª"}, {"1", "①"}, {"A", "Ａ"}, {"2", "²"}} {
		if strings.Contains(pw, rp[0]) {
			add("compat-spelling", strings.Replace(pw, rp[0], rp[1], 1))
			break
		}
	}
	if rs := []rune(pw); len(rs) >= 2 {
		add("b1-inserted", string(rs[:1])+pick(r, "\u00ad", "\u200d", "\u2060", "\ufe0f")+string(rs[1:]))
		add("prohibited-inserted", string(rs[:1])+pick(r, "\u0007", "\ue000", "\u200e", "\u0085", "\ufffd")+string(rs[1:]))
	}
	if strings.Contains(pw, " ") {
		add("space-as-non-ascii-space", strings.Replace(pw, " ", pick(r, "\u00a0", "\u2003", "\u3000"), 1))
	}
	for _, sp := range nonASCIISpaces {
		if strings.Contains(pw, sp) {
			add("non-ascii-space-as-space", strings.Replace(pw, sp, " ", 1))
		}
	}
	if len(pw) > 127 {
		b := []byte(pw)
		b[len(b)-1] ^= 1
		add("differs-after-byte-127", string(b))
		add("cut-to-127", pw[:127])
		c := []byte(pw)
		c[126] ^= 1
		add("differs-at-byte-127", string(c))
		add("cut-to-126", pw[:126])
	}
	add("bidi-violation", pw+"\u05d0")
	return out
}
