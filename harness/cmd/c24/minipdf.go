package main

// A minimal PDF writer (one page, classic xref, optional standard-security-handler
// encryption through ref/iso32000sec) and a minimal byte-level PDF scanner (classic
// xref + trailer, object parser, Flate). Neither uses pdfcpu.

import (
	"bytes"
	"compress/zlib"
	"encoding/hex"
	"errors"
	"fmt"
	"io"
	"regexp"
	"strconv"
	"strings"

	ref "verif/harness/internal/ref/iso32000sec"
)

// ---------- writer ----------

type miniDoc struct {
	Version string // "1.7" | "2.0"
	Marker  string // text shown by the page content stream
	Title   string // Info /Title (1.x) and Catalog /Lang carrier string
	ID0     []byte
	// encryption (nil Handler = plain)
	Enc     *ref.Entries
	Params  ref.Params
	Handler *ref.Handler
}

func (d *miniDoc) content() []byte {
	return []byte("BT /F1 12 Tf 72 720 Td (" + d.Marker + ") Tj ET\n")
}

func hexStr(b []byte) string { return "<" + hex.EncodeToString(b) + ">" }

func (d *miniDoc) str(objNr int, s string) string {
	if d.Handler == nil {
		return hexStr([]byte(s))
	}
	return hexStr(d.Handler.EncryptString(objNr, 0, []byte(s)))
}

func (d *miniDoc) encryptDict() string {
	p := d.Params
	var b strings.Builder
	fmt.Fprintf(&b, "<< /Filter /Standard /V %d /R %d /P %d /O %s /U %s", p.V, p.R, p.P, hexStr(d.Enc.O), hexStr(d.Enc.U))
	switch p.R {
	case 2:
	case 3:
		fmt.Fprintf(&b, " /Length %d", p.KeyBits)
	case 4:
		cfm := "V2"
		if p.AES {
			cfm = "AESV2"
		}
		fmt.Fprintf(&b, " /Length %d /CF << /StdCF << /CFM /%s /AuthEvent /DocOpen /Length %d >> >> /StmF /StdCF /StrF /StdCF", p.KeyBits, cfm, p.KeyBits)
	case 5, 6:
		fmt.Fprintf(&b, " /Length 256 /CF << /StdCF << /CFM /AESV3 /AuthEvent /DocOpen /Length 32 >> >> /StmF /StdCF /StrF /StdCF /OE %s /UE %s /Perms %s",
			hexStr(d.Enc.OE), hexStr(d.Enc.UE), hexStr(d.Enc.Perms))
	}
	if !p.EncryptMetadata {
		b.WriteString(" /EncryptMetadata false")
	}
	b.WriteString(" >>")
	return b.String()
}

// Bytes serialises the document. Objects: 1 catalog, 2 pages, 3 page, 4 content, 5 font, 6 info, 7 encrypt.
func (d *miniDoc) Bytes() []byte {
	var out bytes.Buffer
	offs := map[int]int{}
	fmt.Fprintf(&out, "%%PDF-%s\n%%\xe2\xe3\xcf\xd3\n", d.Version)
	obj := func(nr int, body string) {
		offs[nr] = out.Len()
		fmt.Fprintf(&out, "%d 0 obj\n%s\nendobj\n", nr, body)
	}
	obj(1, "<< /Type /Catalog /Pages 2 0 R /Lang "+d.str(1, d.Title)+" >>")
	obj(2, "<< /Type /Pages /Kids [3 0 R] /Count 1 >>")
	obj(3, "<< /Type /Page /Parent 2 0 R /MediaBox [0 0 612 792] /Contents 4 0 R /Resources << /Font << /F1 5 0 R >> >> >>")
	c := d.content()
	if d.Handler != nil {
		c = d.Handler.EncryptStreamBytes(4, 0, c)
	}
	offs[4] = out.Len()
	fmt.Fprintf(&out, "4 0 obj\n<< /Length %d >>\nstream\n", len(c))
	out.Write(c)
	out.WriteString("\nendstream\nendobj\n")
	obj(5, "<< /Type /Font /Subtype /Type1 /BaseFont /Helvetica >>")
	n := 6
	if d.Version != "2.0" {
		obj(6, "<< /Title "+d.str(6, d.Title)+" >>")
		n = 7
	}
	encNr := 0
	if d.Handler != nil {
		encNr = n
		obj(n, d.encryptDict())
		n++
	}
	xref := out.Len()
	fmt.Fprintf(&out, "xref\n0 %d\n0000000000 65535 f \n", n)
	for i := 1; i < n; i++ {
		fmt.Fprintf(&out, "%010d 00000 n \n", offs[i])
	}
	fmt.Fprintf(&out, "trailer\n<< /Size %d /Root 1 0 R", n)
	if d.Version != "2.0" {
		out.WriteString(" /Info 6 0 R")
	}
	if encNr > 0 {
		fmt.Fprintf(&out, " /Encrypt %d 0 R", encNr)
	}
	fmt.Fprintf(&out, " /ID [%s %s] >>\nstartxref\n%d\n%%%%EOF\n", hexStr(d.ID0), hexStr(d.ID0), xref)
	return out.Bytes()
}

// ---------- scanner ----------

type pRef struct{ Nr, Gen int }
type pName string
type pStr []byte
type pDict map[string]any
type pStream struct {
	Dict pDict
	Data []byte
}

type parser struct {
	b   []byte
	pos int
}

func isWS(c byte) bool { return c == 0 || c == 9 || c == 10 || c == 12 || c == 13 || c == 32 }
func isDelim(c byte) bool {
	return strings.IndexByte("()<>[]{}/%", c) >= 0
}

func (p *parser) skipWS() {
	for p.pos < len(p.b) {
		c := p.b[p.pos]
		if isWS(c) {
			p.pos++
		} else if c == '%' {
			for p.pos < len(p.b) && p.b[p.pos] != '\n' && p.b[p.pos] != '\r' {
				p.pos++
			}
		} else {
			return
		}
	}
}

func (p *parser) token() string {
	p.skipWS()
	s := p.pos
	for p.pos < len(p.b) && !isWS(p.b[p.pos]) && !isDelim(p.b[p.pos]) {
		p.pos++
	}
	return string(p.b[s:p.pos])
}

var errParse = errors.New("minipdf: parse error")

func (p *parser) object() (any, error) {
	p.skipWS()
	if p.pos >= len(p.b) {
		return nil, errParse
	}
	c := p.b[p.pos]
	switch {
	case c == '/':
		p.pos++
		s := p.pos
		for p.pos < len(p.b) && !isWS(p.b[p.pos]) && !isDelim(p.b[p.pos]) {
			p.pos++
		}
		return pName(p.b[s:p.pos]), nil
	case c == '<' && p.pos+1 < len(p.b) && p.b[p.pos+1] == '<':
		p.pos += 2
		d := pDict{}
		for {
			p.skipWS()
			if p.pos+1 < len(p.b) && p.b[p.pos] == '>' && p.b[p.pos+1] == '>' {
				p.pos += 2
				return d, nil
			}
			k, err := p.object()
			if err != nil {
				return nil, err
			}
			kn, ok := k.(pName)
			if !ok {
				return nil, errParse
			}
			v, err := p.object()
			if err != nil {
				return nil, err
			}
			d[string(kn)] = v
		}
	case c == '<':
		p.pos++
		var hx []byte
		for p.pos < len(p.b) && p.b[p.pos] != '>' {
			if !isWS(p.b[p.pos]) {
				hx = append(hx, p.b[p.pos])
			}
			p.pos++
		}
		p.pos++
		if len(hx)%2 == 1 {
			hx = append(hx, '0')
		}
		out := make([]byte, len(hx)/2)
		if _, err := hex.Decode(out, hx); err != nil {
			return nil, errParse
		}
		return pStr(out), nil
	case c == '(':
		p.pos++
		depth := 1
		var out []byte
		for p.pos < len(p.b) {
			ch := p.b[p.pos]
			p.pos++
			switch ch {
			case '\\':
				if p.pos >= len(p.b) {
					return nil, errParse
				}
				e := p.b[p.pos]
				p.pos++
				switch e {
				case 'n':
					out = append(out, '\n')
				case 'r':
					out = append(out, '\r')
				case 't':
					out = append(out, '\t')
				case 'b':
					out = append(out, '\b')
				case 'f':
					out = append(out, '\f')
				case '\r':
					if p.pos < len(p.b) && p.b[p.pos] == '\n' {
						p.pos++
					}
				case '\n':
				default:
					if e >= '0' && e <= '7' {
						v := int(e - '0')
						for i := 0; i < 2 && p.pos < len(p.b) && p.b[p.pos] >= '0' && p.b[p.pos] <= '7'; i++ {
							v = v*8 + int(p.b[p.pos]-'0')
							p.pos++
						}
						out = append(out, byte(v))
					} else {
						out = append(out, e)
					}
				}
			case '(':
				depth++
				out = append(out, ch)
			case ')':
				depth--
				if depth == 0 {
					return pStr(out), nil
				}
				out = append(out, ch)
			case '\r':
				// an unescaped end-of-line in a literal string is one LF
				if p.pos < len(p.b) && p.b[p.pos] == '\n' {
					p.pos++
				}
				out = append(out, '\n')
			default:
				out = append(out, ch)
			}
		}
		return nil, errParse
	case c == '[':
		p.pos++
		var arr []any
		for {
			p.skipWS()
			if p.pos < len(p.b) && p.b[p.pos] == ']' {
				p.pos++
				return arr, nil
			}
			v, err := p.object()
			if err != nil {
				return nil, err
			}
			arr = append(arr, v)
		}
	}
	t := p.token()
	switch t {
	case "true":
		return true, nil
	case "false":
		return false, nil
	case "null":
		return nil, nil
	case "":
		return nil, errParse
	}
	if i, err := strconv.Atoi(t); err == nil {
		// maybe "nr gen R"
		save := p.pos
		g := p.token()
		if gi, err := strconv.Atoi(g); err == nil && gi >= 0 {
			if p.token() == "R" {
				return pRef{i, gi}, nil
			}
		}
		p.pos = save
		return i, nil
	}
	if f, err := strconv.ParseFloat(t, 64); err == nil {
		return f, nil
	}
	return nil, fmt.Errorf("%w: token %q", errParse, t)
}

type scanned struct {
	raw     []byte
	offs    map[int]int
	Trailer pDict
}

var reStartxref = regexp.MustCompile(`startxref\s+(\d+)\s+%%EOF\s*$`)

// scanPDF reads the (single, classic) xref section and the trailer.
func scanPDF(raw []byte) (*scanned, error) {
	m := reStartxref.FindSubmatch(raw)
	if m == nil {
		return nil, errors.New("minipdf: no startxref")
	}
	off, _ := strconv.Atoi(string(m[1]))
	if off >= len(raw) || !bytes.HasPrefix(raw[off:], []byte("xref")) {
		return nil, errors.New("minipdf: not a classic xref section (xref stream?)")
	}
	p := &parser{b: raw, pos: off + 4}
	s := &scanned{raw: raw, offs: map[int]int{}}
	for {
		save := p.pos
		t := p.token()
		if t == "trailer" {
			break
		}
		first, err1 := strconv.Atoi(t)
		count, err2 := strconv.Atoi(p.token())
		if err1 != nil || err2 != nil {
			p.pos = save
			return nil, errors.New("minipdf: bad xref subsection")
		}
		for i := 0; i < count; i++ {
			o, _ := strconv.Atoi(p.token())
			p.token()
			if p.token() == "n" {
				s.offs[first+i] = o
			}
		}
	}
	tr, err := p.object()
	if err != nil {
		return nil, err
	}
	d, ok := tr.(pDict)
	if !ok {
		return nil, errors.New("minipdf: trailer is not a dict")
	}
	if _, has := d["Prev"]; has {
		return nil, errors.New("minipdf: incremental updates not supported")
	}
	s.Trailer = d
	return s, nil
}

// Object parses the indirect object nr at its xref offset.
func (s *scanned) Object(nr int) (any, error) {
	off, ok := s.offs[nr]
	if !ok {
		return nil, fmt.Errorf("minipdf: object %d not in xref", nr)
	}
	p := &parser{b: s.raw, pos: off}
	if t := p.token(); t != strconv.Itoa(nr) {
		return nil, fmt.Errorf("minipdf: object %d: header %q at offset %d", nr, t, off)
	}
	p.token()
	if p.token() != "obj" {
		return nil, errParse
	}
	o, err := p.object()
	if err != nil {
		return nil, err
	}
	d, isDict := o.(pDict)
	if !isDict {
		return o, nil
	}
	save := p.pos
	if p.token() != "stream" {
		p.pos = save
		return d, nil
	}
	// EOL after "stream": CRLF or LF
	if p.pos < len(s.raw) && s.raw[p.pos] == '\r' {
		p.pos++
	}
	if p.pos < len(s.raw) && s.raw[p.pos] == '\n' {
		p.pos++
	}
	n, err := s.Int(d["Length"])
	if err != nil || p.pos+n > len(s.raw) {
		return nil, fmt.Errorf("minipdf: object %d: bad stream length", nr)
	}
	return pStream{Dict: d, Data: s.raw[p.pos : p.pos+n]}, nil
}

// Resolve follows a reference.
func (s *scanned) Resolve(o any) (any, int, error) {
	if r, ok := o.(pRef); ok {
		v, err := s.Object(r.Nr)
		return v, r.Nr, err
	}
	return o, 0, nil
}

func (s *scanned) Int(o any) (int, error) {
	v, _, err := s.Resolve(o)
	if err != nil {
		return 0, err
	}
	if i, ok := v.(int); ok {
		return i, nil
	}
	return 0, fmt.Errorf("minipdf: not an integer: %v", v)
}

func (s *scanned) Dict(o any) (pDict, int, error) {
	v, nr, err := s.Resolve(o)
	if err != nil {
		return nil, 0, err
	}
	switch d := v.(type) {
	case pDict:
		return d, nr, nil
	case pStream:
		return d.Dict, nr, nil
	}
	return nil, 0, fmt.Errorf("minipdf: not a dict: %T", v)
}

func inflate(b []byte) ([]byte, error) {
	r, err := zlib.NewReader(bytes.NewReader(b))
	if err != nil {
		return nil, err
	}
	defer r.Close()
	return io.ReadAll(r)
}

// encInfo is what the scanner reads from /Encrypt and /ID.
type encInfo struct {
	Params  ref.Params
	Entries ref.Entries
	StmAES  bool
	StrAES  bool
	ObjNr   int
}

func (s *scanned) encryption() (*encInfo, error) {
	d, nr, err := s.Dict(s.Trailer["Encrypt"])
	if err != nil {
		return nil, fmt.Errorf("Encrypt: %w", err)
	}
	if d["Filter"] != pName("Standard") {
		return nil, errors.New("Encrypt: /Filter is not /Standard")
	}
	e := &encInfo{ObjNr: nr}
	geti := func(k string, def int) int {
		if v, ok := d[k].(int); ok {
			return v
		}
		return def
	}
	e.Params.R, e.Params.V = geti("R", 0), geti("V", 0)
	e.Params.P = int32(geti("P", 0))
	e.Params.KeyBits = geti("Length", 40)
	if e.Params.R >= 5 {
		e.Params.KeyBits = 256
	}
	e.Params.EncryptMetadata = true
	if v, ok := d["EncryptMetadata"].(bool); ok {
		e.Params.EncryptMetadata = v
	}
	gets := func(k string) []byte { b, _ := d[k].(pStr); return b }
	e.Entries = ref.Entries{O: gets("O"), U: gets("U"), OE: gets("OE"), UE: gets("UE"), Perms: gets("Perms")}
	method := func(key string) (bool, error) {
		n, ok := d[key].(pName)
		if !ok || n == "Identity" {
			return false, fmt.Errorf("Encrypt: /%s missing or Identity", key)
		}
		cf, _ := d["CF"].(pDict)
		f, _ := cf[string(n)].(pDict)
		switch f["CFM"] {
		case pName("V2"):
			return false, nil
		case pName("AESV2"), pName("AESV3"):
			return true, nil
		}
		return false, fmt.Errorf("Encrypt: crypt filter %s has CFM %v", n, f["CFM"])
	}
	if e.Params.V >= 4 {
		if e.StmAES, err = method("StmF"); err != nil {
			return nil, err
		}
		if e.StrAES, err = method("StrF"); err != nil {
			return nil, err
		}
	}
	e.Params.AES = e.StmAES
	ids, _ := s.Trailer["ID"].([]any)
	if len(ids) > 0 {
		if b, ok := ids[0].(pStr); ok {
			e.Params.ID0 = b
		}
	}
	return e, nil
}

// firstPageContent returns object number, dict and raw data of the first content stream of page 1.
func (s *scanned) firstPageContent() (int, pStream, error) {
	cat, _, err := s.Dict(s.Trailer["Root"])
	if err != nil {
		return 0, pStream{}, err
	}
	node, _, err := s.Dict(cat["Pages"])
	if err != nil {
		return 0, pStream{}, err
	}
	for depth := 0; depth < 20 && node["Type"] != pName("Page"); depth++ {
		kids, _, err := s.Resolve(node["Kids"])
		if err != nil {
			return 0, pStream{}, err
		}
		ka, _ := kids.([]any)
		if len(ka) == 0 {
			return 0, pStream{}, errors.New("minipdf: empty Kids")
		}
		if node, _, err = s.Dict(ka[0]); err != nil {
			return 0, pStream{}, err
		}
	}
	c := node["Contents"]
	v, nr, err := s.Resolve(c)
	if err != nil {
		return 0, pStream{}, err
	}
	if arr, ok := v.([]any); ok {
		if len(arr) == 0 {
			return 0, pStream{}, errors.New("minipdf: empty Contents")
		}
		if v, nr, err = s.Resolve(arr[0]); err != nil {
			return 0, pStream{}, err
		}
	}
	st, ok := v.(pStream)
	if !ok {
		return 0, pStream{}, errors.New("minipdf: Contents is not a stream")
	}
	return nr, st, nil
}
