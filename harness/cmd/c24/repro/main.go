// Stand-alone reproducer for the C24 findings, against the real pdfcpu API only (plus the
// reference for the expected bytes). Run:
//
//	. /verif/env.sh; cd /verif/harness; $GO125 run -tags verif ./cmd/c24/repro
//	(other tree: VERIF_REPO=<wt> and -modfile=/verif/.cache/alt-<cksum>.mod as ./check builds it)
//
// Every line prints what pdfcpu does and what ISO 32000 asks for; "DEFECT" marks a deviation.
package main

import (
	"bytes"
	"encoding/hex"
	"fmt"
	"os"
	"path/filepath"
	"regexp"

	"github.com/pdfcpu/pdfcpu/pkg/api"
	"github.com/pdfcpu/pdfcpu/pkg/pdfcpu/model"
	ref "verif/harness/internal/ref/iso32000sec"
	"verif/harness/internal/vk"
)

var dir string

func encrypt(name string, aes bool, bits int, upw, opw string) (string, error) {
	in := filepath.Join(vk.RepoDir(), "pkg/testdata/test.pdf")
	out := filepath.Join(dir, name+".pdf")
	var c *model.Configuration
	if aes {
		c = model.NewAESConfiguration(upw, opw, bits)
	} else {
		c = model.NewRC4Configuration(upw, opw, bits)
	}
	c.Offline = true
	return out, api.EncryptFile(in, out, c)
}

func open(file, upw, opw string) error {
	f, err := os.Open(file)
	if err != nil {
		return err
	}
	defer f.Close()
	c := model.NewDefaultConfiguration()
	c.Offline = true
	c.UserPW, c.OwnerPW = upw, opw
	_, err = api.ReadContext(f, c)
	return err
}

func verdict(err error) string {
	if err == nil {
		return "opens"
	}
	return "REFUSED (" + err.Error() + ")"
}

// hexEntry reads /O or /U (hex string) of the encryption dictionary from the raw file.
func hexEntry(raw []byte, name string) []byte {
	m := regexp.MustCompile(`/` + name + `\s*<([0-9A-Fa-f]+)>`).FindSubmatch(raw)
	if m == nil {
		return nil
	}
	b, _ := hex.DecodeString(string(m[1]))
	return b
}

func main() {
	api.DisableConfigDir()
	var err error
	dir, err = os.MkdirTemp(filepath.Join(os.Getenv("VERIF_CACHE"), "run"), "c24repro-")
	if err != nil {
		panic(err)
	}
	defer os.RemoveAll(dir)

	fmt.Println("== R 2-4: password text is converted to PDFDocEncoding (ISO 32000-1 7.6.3.3, Algorithm 2)")
	// "ä" is byte E4 in PDFDocEncoding, C3 A4 in UTF-8.
	file, err := encrypt("r3", false, 128, "pä", "owner")
	if err != nil {
		panic(err)
	}
	raw, _ := os.ReadFile(file)
	id := regexp.MustCompile(`/ID\s*\[\s*<([0-9A-Fa-f]+)>`).FindSubmatch(raw)
	id0, _ := hex.DecodeString(string(id[1]))
	pm := regexp.MustCompile(`/P\s+(-?[0-9]+)`).FindSubmatch(raw)
	var pval int
	fmt.Sscan(string(pm[1]), &pval)
	p := ref.Params{R: 3, V: 2, KeyBits: 128, P: int32(pval), ID0: id0, EncryptMetadata: true}
	e := ref.Entries{O: hexEntry(raw, "O"), U: hexEntry(raw, "U")}
	_, okDoc := ref.AuthUser(p, e, []byte{'p', 0xE4})
	_, okUTF := ref.AuthUser(p, e, []byte("pä"))
	fmt.Printf("  pdfcpu encrypts RC4-128 with user password \"pä\": Algorithm 6 accepts PDFDocEncoding bytes 70 E4: %v, UTF-8 bytes 70 C3 A4: %v", okDoc, okUTF)
	if !okDoc {
		fmt.Print("   <- DEFECT (a conforming reader given \"pä\" cannot open the file)")
	}
	fmt.Println()
	// the other way round: a file whose user password is the PDFDocEncoding of "pä" (made with pdfcpu
	// itself by handing it the raw byte string) is what a conforming writer produces for "pä".
	file, err = encrypt("r3doc", false, 128, "p\xe4", "owner")
	if err != nil {
		panic(err)
	}
	err = open(file, "pä", "")
	fmt.Printf("  file encrypted with bytes 70 E4 (= \"pä\" in PDFDocEncoding), opened with \"pä\": %s", verdict(err))
	if err != nil {
		fmt.Print("   <- DEFECT")
	}
	fmt.Println()

	fmt.Println("== R 5/6 writing: Algorithm 8/9 take the password after Algorithm 2.A (a) SASLprep, (b) cut to 127 bytes")
	long := string(bytes.Repeat([]byte("x"), 130))
	for _, c := range []struct{ what, pw, equiv string }{
		{"130 ASCII bytes", long, long[:127]},
		{"compatibility character (NFKC)", "pw①", "pw1"},
		{"soft hyphen (mapped to nothing)", "pass­word", "password"},
		{"ASCII space", "my password", "my password"},
	} {
		for _, ver := range []string{"R5"} {
			file, err := encrypt("w-"+ver, true, 256, c.pw, "owner")
			if err != nil {
				fmt.Printf("  encrypt with %s: %v\n", c.what, err)
				continue
			}
			e1 := open(file, c.pw, "")
			e2 := open(file, c.equiv, "")
			fmt.Printf("  AES-256 user password %-34s pdfcpu reopens its own file with the same string: %s; with the prepared form %+q: %s", c.what+":", verdict(e1), c.equiv, verdict(e2))
			if e1 != nil || e2 != nil {
				fmt.Print("   <- DEFECT")
			}
			fmt.Println()
		}
	}

	fmt.Println("== R 5/6 reading: a password is correct iff its SASLprep form hashes to U/O (Algorithm 11/12)")
	file, err = encrypt("r5", true, 256, "password", "Owner 1")
	if err != nil {
		panic(err)
	}
	for _, c := range []struct{ what, upw, opw string }{
		{"exact user password", "password", ""},
		{"owner password with an ASCII space", "", "Owner 1"},
		{"user password + soft hyphen U+00AD (B.1: mapped to nothing)", "pass­word", ""},
		{"user password + ZWJ U+200D (B.1: mapped to nothing)", "pass‍word", ""},
		{"user password in fullwidth letters (NFKC)", "ｐassword", ""},
		{"owner password with NO-BREAK SPACE (C.1.2: mapped to space)", "", "Owner 1"},
		{"owner password with digit as compatibility char", "", "Owner ①"},
	} {
		want, _ := ref.SASLprep(c.upw + c.opw)
		err := open(file, c.upw, c.opw)
		fmt.Printf("  %-62s SASLprep -> %+q: pdfcpu %s", c.what+":", want, verdict(err))
		if err != nil {
			fmt.Print("   <- DEFECT")
		}
		fmt.Println()
	}
	for _, pw := range []string{"pw §1", "3z§JoDf", "n3¬LQ", "a·b", "x y"} {
		file, err := encrypt("r5s", true, 256, pw, "o")
		if err != nil {
			fmt.Printf("  encrypt %+q: %v\n", pw, err)
			continue
		}
		sp, _ := ref.SASLprep(pw)
		err = open(file, pw, "")
		fmt.Printf("  user password %+q (SASLprep leaves it as %+q): pdfcpu %s", pw, sp, verdict(err))
		if err != nil {
			fmt.Print("   <- DEFECT")
		}
		fmt.Println()
	}
}
