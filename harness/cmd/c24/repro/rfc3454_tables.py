# Prints the RFC 3454 tables used by SASLprep from Python's stdlib stringprep module (Unicode 3.2 data), as ranges,
# for comparison with internal/ref/iso32000sec/saslprep.go (compared 2026-09-22: identical). Run: python3 rfc3454_tables.py
import stringprep as sp
def ranges(f):
    out=[];start=None
    for cp in range(0x110000):
        if 0xD800<=cp<=0xDFFF:
            v = f(chr(cp))
        else:
            v=f(chr(cp))
        if v and start is None: start=cp
        if not v and start is not None:
            out.append((start,cp-1)); start=None
    if start is not None: out.append((start,0x10FFFF))
    return out
for name in ["b1","c12","c21","c22","c3","c4","c5","c6","c7","c8","c9"]:
    f=getattr(sp,"in_table_"+name)
    print(name, " ".join("%04X-%04X"%r if r[0]!=r[1] else "%04X"%r[0] for r in ranges(f)))
