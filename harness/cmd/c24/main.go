// C24 — encryption parameters interoperate with the ISO 32000 algorithms.
// Differential against internal/ref/iso32000sec, both directions:
//
//	A: pdfcpu encrypts a known document; an independent scanner reads /Encrypt and /ID from the
//	   output; the reference must reproduce O/U (R2-4) resp. U/O/UE/OE/Perms from the salts
//	   (R5/6), authenticate both passwords and decrypt a known string and stream.
//	B: the reference encrypts a hand-rolled one-page PDF (R2, R3, R4 RC4/AESV2, R5, R6); pdfcpu must
//	   open it with exactly the passwords the algorithms accept (near misses, >32 / >127 bytes,
//	   normalisation forms) and deliver the planted content.
package main

import (
	"bytes"
	"crypto/sha256"
	"errors"
	"fmt"
	"math/rand/v2"
	"os"
	"path/filepath"
	"regexp"
	"strings"
	"unicode"

	"github.com/pdfcpu/pdfcpu/pkg/api"
	"github.com/pdfcpu/pdfcpu/pkg/pdfcpu"
	"github.com/pdfcpu/pdfcpu/pkg/pdfcpu/model"
	"github.com/pdfcpu/pdfcpu/pkg/pdfcpu/types"
	"golang.org/x/text/unicode/norm"
	ref "verif/harness/internal/ref/iso32000sec"
	"verif/harness/internal/vk"
)

type rngReader struct{ r *rand.Rand }

func (d rngReader) Read(p []byte) (int, error) {
	for i := range p {
		p[i] = byte(d.r.Uint32())
	}
	return len(p), nil
}

func randBytes(r *rand.Rand, n int) []byte {
	b := make([]byte, n)
	rngReader{r}.Read(b)
	return b
}

func safely(f func() error) (err error) {
	defer func() {
		if r := recover(); r != nil {
			err = fmt.Errorf("panic: %v", r)
		}
	}()
	return f()
}

func errClass(err error) string {
	switch {
	case err == nil:
		return "accept"
	case errors.Is(err, pdfcpu.ErrWrongPassword):
		return "reject"
	}
	s := err.Error()
	for _, m := range []string{"precis: disallowed rune", "bidirule: failed Bidi Rule", "panic"} {
		if strings.Contains(s, m) {
			return "error:" + strings.NewReplacer(" ", "-", ":", "").Replace(m)
		}
	}
	s = regexp.MustCompile(`[0-9]+`).ReplaceAllString(s, "N")
	if i := strings.LastIndex(s, ": "); i >= 0 {
		s = s[i+2:]
	}
	if len(s) > 50 {
		s = s[:50]
	}
	return "error:" + strings.ReplaceAll(s, " ", "-")
}

// prepare converts a password string to the bytes the algorithms take: PDFDocEncoding
// for R 2-4, SASLprep + UTF-8 for R 5/6. ok=false: the string is not a valid password
// under the specification (not encodable / prohibited by SASLprep).
func prepare(r int, pw string) ([]byte, bool) {
	if r <= 4 {
		return ref.PDFDocEncode(pw)
	}
	b, err := ref.PrepareR56(pw)
	return b, err == nil
}

type replayCase struct {
	Dir     string `json:"direction"`
	R       int    `json:"r"`
	Alg     string `json:"alg"`
	Class   string `json:"pw_class"`
	UserPW  string `json:"user_pw_quoted"`
	OwnerPW string `json:"owner_pw_quoted"`
	P       int32  `json:"p"`
	Cand    string `json:"candidate_quoted,omitempty"`
	Rel     string `json:"relation,omitempty"`
	Msg     string `json:"msg"`
}

// openWith opens file through pdfcpu with the given passwords and returns the context.
func openWith(file, upw, opw string) (*model.Context, error) {
	var ctx *model.Context
	err := safely(func() error {
		f, err := os.Open(file)
		if err != nil {
			return err
		}
		defer f.Close()
		conf := model.NewDefaultConfiguration()
		conf.Offline = true
		conf.UserPW, conf.OwnerPW = upw, opw
		c, err := api.ReadContext(f, conf)
		if err != nil {
			return err
		}
		if err := api.ValidateContext(c); err != nil {
			return fmt.Errorf("validate: %w", err)
		}
		ctx = c
		return nil
	})
	return ctx, err
}

func pageOneContent(ctx *model.Context) ([]byte, error) {
	var out []byte
	err := safely(func() error {
		d, _, _, err := ctx.PageDict(1, false)
		if err != nil {
			return err
		}
		out, err = ctx.PageContent(d, 1)
		return err
	})
	return out, err
}

func catalogLang(ctx *model.Context) ([]byte, error) {
	d, err := ctx.Catalog()
	if err != nil {
		return nil, err
	}
	o, _ := d.Find("Lang")
	o, _ = ctx.Dereference(o)
	switch s := o.(type) {
	case types.StringLiteral:
		return types.Unescape(s.Value())
	case types.HexLiteral:
		return s.Bytes()
	}
	return nil, fmt.Errorf("Lang is %T", o)
}

type algo struct {
	Name   string
	AES    bool
	KeyLen int
}

var algos = []algo{{"RC4-40", false, 40}, {"RC4-128", false, 128}, {"AES-128", true, 128}, {"AES-256", true, 256}}

func (a algo) conf(upw, opw string) *model.Configuration {
	var c *model.Configuration
	if a.AES {
		c = model.NewAESConfiguration(upw, opw, a.KeyLen)
	} else {
		c = model.NewRC4Configuration(upw, opw, a.KeyLen)
	}
	c.Offline = true
	return c
}

func randPerm(r *rand.Rand) model.PermissionFlags {
	p := model.PermissionsNone
	for _, b := range []model.PermissionFlags{model.PermissionPrintRev2, model.PermissionModify, model.PermissionExtract, model.PermissionModAnnFillForm,
		model.PermissionFillRev3, model.PermissionExtractRev3, model.PermissionAssembleRev3, model.PermissionPrintRev3} {
		if r.IntN(2) == 0 {
			p |= b
		}
	}
	return p
}

func classesFor(high bool) []pwClass {
	var out []pwClass
	for _, c := range pwClasses {
		if (high && c.High) || (!high && c.Low) {
			out = append(out, c)
		}
	}
	return out
}

// ---------- direction A ----------

func directionA(t *vk.T, idx int, dir string) {
	rng := t.RNGi("dirA", idx)
	a := algos[idx%len(algos)]
	version := "1.7"
	if a.KeyLen == 256 && (idx/len(algos))%2 == 1 {
		version = "2.0" // pdfcpu writes R 6 for PDF 2.0 documents, R 5 otherwise
	}
	high := a.KeyLen == 256
	cls := classesFor(high)
	cu, co := cls[rng.IntN(len(cls))], cls[rng.IntN(len(cls))]
	upw, opw := cu.Gen(rng), co.Gen(rng)
	if rng.IntN(8) == 0 {
		upw, cu.Name = "", "empty"
	}
	perm := randPerm(rng)
	src := &miniDoc{Version: version, Marker: "VERIF-MARKER-" + randAlnum(rng, 12), Title: "Titel " + randAlnum(rng, 10), ID0: randBytes(rng, 16)}
	in := filepath.Join(dir, fmt.Sprintf("a-in-%d.pdf", idx))
	out := filepath.Join(dir, fmt.Sprintf("a-out-%d.pdf", idx))
	defer os.Remove(in)
	defer os.Remove(out)
	if err := os.WriteFile(in, src.Bytes(), 0o644); err != nil {
		t.Broken("write: %v", err)
	}
	rc := replayCase{Dir: "A", Alg: a.Name, Class: cu.Name + "|" + co.Name, UserPW: fmt.Sprintf("%+q", upw), OwnerPW: fmt.Sprintf("%+q", opw), P: int32(int16(perm))}
	conf := a.conf(upw, opw)
	conf.Permissions = perm
	if err := safely(func() error { return api.EncryptFile(in, out, conf) }); err != nil {
		// A password without a prepared form (SASLprep fails; outside PDFDocEncoding) has no
		// entries under the algorithms: refusing to encrypt with it is the conforming answer.
		r := 4
		if high {
			r = 6
		}
		_, uok := prepare(r, upw)
		_, ook := prepare(r, opw)
		if (!uok || !ook) && !strings.Contains(err.Error(), "panic") {
			t.Eval(fmt.Sprintf("A|%s|%s|%s|%s|refused", a.Name, version, upw, opw))
			t.Count("dirA_unpreparable_password_refused", 1)
			return
		}
		t.Count("dirA_encrypt_errors", 1)
		rc.Msg = err.Error()
		t.Violate(fmt.Sprintf("dirA/alg=%s/pdf=%s/encrypt-%s", a.Name, version, errClass(err)), "EncryptFile of a minimal valid document failed: "+err.Error(), rc)
		return
	}
	raw, _ := os.ReadFile(out)
	sc, err := scanPDF(raw)
	if err != nil {
		t.Inconclusive("dirA/scanner:" + err.Error())
		return
	}
	enc, err := sc.encryption()
	if err != nil {
		rc.Msg = err.Error()
		t.Violate("dirA/encrypt-dict-unreadable", err.Error(), rc)
		return
	}
	p := enc.Params
	rc.R = p.R
	t.Eval(fmt.Sprintf("A|%s|%s|%s|%s|%d", a.Name, version, upw, opw, p.P))
	t.Count(fmt.Sprintf("dirA_R%d", p.R), 1)
	viol := func(what, classes, msg string) {
		rc.Msg = msg
		_ = classes // password classes are in the replay case, not in the key: one defect, one key
		t.Violate(fmt.Sprintf("dirA/R%d/%s", p.R, what), fmt.Sprintf("%s R=%d upw=%+q opw=%+q P=%d: %s: %s", a.Name, p.R, upw, opw, p.P, what, msg), rc)
	}
	violKey := func(key, msg string) {
		rc.Msg = msg
		t.Violate(key, fmt.Sprintf("%s R=%d upw=%+q opw=%+q P=%d: %s", a.Name, p.R, upw, opw, p.P, msg), rc)
	}
	unprepared := func(which, pw string) {
		kind := "no-SASLprep"
		if sp, err := ref.SASLprep(pw); err == nil && sp == pw {
			kind = "no-truncation-to-127-bytes"
		}
		violKey("dirA/R5-6/entries-computed-from-unprepared-password/"+kind, which+" password authenticates only as the raw UTF-8 bytes of the string, not after Algorithm 2.A steps (a),(b) (chars: "+feature(pw)+")")
	}
	// parameters that feed the algorithms
	if p.KeyBits != a.KeyLen || p.AES != a.AES || uint16(p.P) != uint16(perm) || !bytes.Equal(p.ID0, src.ID0) && len(p.ID0) == 0 {
		viol("parameters", "-", fmt.Sprintf("file has Length=%d AES=%v P=%d ID0=%x, requested %s P=%04X", p.KeyBits, p.AES, p.P, p.ID0, a.Name, uint16(perm)))
		return
	}
	ub, uok := prepare(p.R, upw)
	ob, ook := prepare(p.R, opw)
	if !uok || !ook {
		t.Count("dirA_password_not_representable", 1)
		return
	}
	e := enc.Entries
	var fileKey []byte
	if p.R <= 4 {
		want, key, err := ref.Compute(p, ub, ob, nil)
		if err != nil {
			t.Broken("reference: %v", err)
		}
		fileKey = key
		ulen := 32
		if p.R >= 3 {
			ulen = 16
		}
		if !bytes.Equal(want.O, e.O) || len(e.U) < 32 || !bytes.Equal(want.U[:ulen], e.U[:ulen]) {
			// diagnose: did pdfcpu feed the UTF-8 bytes of the Go string instead of PDFDocEncoding?
			w2, k2, _ := ref.Compute(p, []byte(upw), []byte(opw), nil)
			if bytes.Equal(w2.O, e.O) && len(e.U) >= 32 && bytes.Equal(w2.U[:ulen], e.U[:ulen]) {
				fileKey = k2
				which := cu.Name
				if bytes.Equal(ub, []byte(upw)) {
					which = co.Name
				}
				_ = which
				violKey("dirA/R2-4/entries-computed-from-UTF-8-bytes-not-PDFDocEncoding", fmt.Sprintf("O=%x U=%x; Algorithm 3/4/5 with PDFDocEncoding give O=%x U=%x", e.O, e.U, want.O, want.U))
			} else {
				viol("O/U-differ-from-algorithms-3-4-5", cu.Name+"|"+co.Name, fmt.Sprintf("O=%x U=%x; reference O=%x U=%x", e.O, e.U, want.O, want.U))
				return
			}
		} else {
			if k, ok := ref.AuthUser(p, e, ub); !ok || !bytes.Equal(k, key) {
				viol("user-pw-does-not-authenticate", cu.Name, "Algorithm 6")
				return
			}
			if k, ok := ref.AuthOwner(p, e, ob); !ok || !bytes.Equal(k, key) {
				viol("owner-pw-does-not-authenticate", co.Name, "Algorithm 7")
				return
			}
			t.Count("dirA_entries_reproduced", 1)
		}
	} else {
		if len(e.U) != 48 || len(e.O) != 48 || len(e.UE) != 32 || len(e.OE) != 32 || len(e.Perms) != 16 {
			viol("entry-lengths", "-", fmt.Sprintf("U %d O %d UE %d OE %d Perms %d", len(e.U), len(e.O), len(e.UE), len(e.OE), len(e.Perms)))
			return
		}
		ku, okU := ref.AuthUser(p, e, ub)
		if !okU {
			if _, ok := ref.AuthUser(p, e, []byte(upw)); ok || authNoTrunc(p, e, []byte(upw), nil) {
				unprepared("user", upw)
			} else {
				viol("user-pw-does-not-authenticate", cu.Name, "Algorithm 11")
			}
		}
		ko, okO := ref.AuthOwner(p, e, ob)
		if !okO {
			if _, ok := ref.AuthOwner(p, e, []byte(opw)); ok || authNoTrunc(p, e, []byte(opw), e.U[:48]) {
				unprepared("owner", opw)
			} else {
				viol("owner-pw-does-not-authenticate", co.Name, "Algorithm 12")
			}
		}
		if !okU && !okO {
			return
		}
		fileKey = ku
		if !okU {
			fileKey = ko
		}
		if okU && okO {
			if !bytes.Equal(ku, ko) {
				viol("UE-and-OE-decrypt-to-different-keys", "-", fmt.Sprintf("%x vs %x", ku, ko))
				return
			}
			want := ref.ComputeR56With(p, ub, ob, e.U[32:48], e.O[32:48], fileKey, [4]byte{})
			if !bytes.Equal(want.U, e.U) || !bytes.Equal(want.O, e.O) || !bytes.Equal(want.UE, e.UE) || !bytes.Equal(want.OE, e.OE) {
				viol("U/O/UE/OE-differ-from-algorithms-8-9", cu.Name+"|"+co.Name, "recomputed from the file's salts and key")
				return
			}
			t.Count("dirA_entries_reproduced", 1)
		}
		pl, _ := ref.DecryptPerms(e, fileKey)
		wantPl := ref.PermsPlain(p, [4]byte{})
		if !bytes.Equal(pl[:12], wantPl[:12]) || !ref.CheckPerms(p, e, fileKey) {
			viol("Perms-differ-from-algorithm-10", "-", fmt.Sprintf("decrypted %x want %x????????", pl, wantPl[:12]))
		}
	}
	// decrypt a known string and a known stream with the reference-derived key
	h := &ref.Handler{R: p.R, FileKey: fileKey, StrAES: enc.StrAES, StmAES: enc.StmAES}
	cat, catNr, err := sc.Dict(sc.Trailer["Root"])
	if err != nil {
		t.Inconclusive("dirA/scanner-catalog")
		return
	}
	if ls, ok := cat["Lang"].(pStr); ok {
		got, err := h.DecryptString(catNr, 0, ls)
		if err != nil || string(got) != src.Title {
			viol("string-does-not-decrypt-with-reference-key", "-", fmt.Sprintf("/Lang: %q %v, planted %q", got, err, src.Title))
			return
		}
		t.Count("dirA_strings_decrypted", 1)
	} else {
		t.Inconclusive("dirA/planted-string-not-found")
	}
	cnr, st, err := sc.firstPageContent()
	if err != nil {
		t.Inconclusive("dirA/scanner-content:" + err.Error())
		return
	}
	plain, err := h.DecryptStreamBytes(cnr, 0, st.Data)
	if err == nil && st.Dict["Filter"] == pName("FlateDecode") {
		plain, err = inflate(plain)
	} else if err == nil && st.Dict["Filter"] != nil {
		t.Inconclusive("dirA/content-filter")
		return
	}
	if err != nil || !bytes.Contains(plain, []byte(src.Marker)) || string(bytes.TrimSpace(plain)) != string(bytes.TrimSpace(src.content())) {
		viol("stream-does-not-decrypt-with-reference-key", "-", fmt.Sprintf("content stream obj %d: %v %q", cnr, err, clip(plain)))
		return
	}
	t.Count("dirA_streams_decrypted", 1)
}

// authNoTrunc: does pw authenticate when hashed without the 127-byte truncation?
func authNoTrunc(p ref.Params, e ref.Entries, pw, udata []byte) bool {
	if len(pw) <= 127 {
		return false
	}
	salt, want := e.U[32:40], e.U[:32]
	if udata != nil {
		salt, want = e.O[32:40], e.O[:32]
	}
	in := append(append(append([]byte(nil), pw...), salt...), udata...)
	var got []byte
	if p.R == 5 {
		got = sha256sum(in)
	} else {
		got = ref.Hash2B(pw, in, udata)
	}
	return bytes.Equal(got, want)
}

func clip(b []byte) []byte {
	if len(b) > 60 {
		return b[:60]
	}
	return b
}

// ---------- direction B ----------

type bConfig struct {
	Name    string
	R, V    int
	AES     bool
	Version string
}

var bConfigs = []bConfig{
	{"R2-RC4-40", 2, 1, false, "1.7"},
	{"R3-RC4", 3, 2, false, "1.7"},
	{"R4-RC4-128", 4, 4, false, "1.7"},
	{"R4-AESV2", 4, 4, true, "1.7"},
	{"R5-AESV3", 5, 5, true, "1.7"},
	{"R6-AESV3", 6, 5, true, "1.7"},
	{"R6-AESV3-pdf2.0", 6, 5, true, "2.0"},
}

func directionB(t *vk.T, idx int, dir string) {
	rng := t.RNGi("dirB", idx)
	bc := bConfigs[idx%len(bConfigs)]
	high := bc.R >= 5
	p := ref.Params{R: bc.R, V: bc.V, AES: bc.AES, EncryptMetadata: rng.IntN(4) != 0, ID0: randBytes(rng, 16)}
	switch bc.R {
	case 2:
		p.KeyBits = 40
	case 3:
		p.KeyBits = 40 + 8*rng.IntN(12)
	case 4:
		p.KeyBits = 128
	default:
		p.KeyBits = 256
	}
	// P: reserved bits as the specification demands (1-2 clear, 7-8 and 13-32 set), user-access bits random
	p.P = int32(uint32(0xFFFFF0C0) | uint32(rng.IntN(1<<12))&0x0F3C)
	// true passwords: representable under the specification
	cls := classesFor(high)
	var cu, co pwClass
	var upw, opw string
	var ub, ob []byte
	for {
		cu, co = cls[rng.IntN(len(cls))], cls[rng.IntN(len(cls))]
		upw, opw = cu.Gen(rng), co.Gen(rng)
		var ok1, ok2 bool
		ub, ok1 = prepare(bc.R, upw)
		ob, ok2 = prepare(bc.R, opw)
		if ok1 && ok2 && len(ub) > 0 && len(ob) > 0 {
			break
		}
	}
	emptyUser := rng.IntN(10) == 0
	if emptyUser {
		upw, ub, cu.Name = "", nil, "empty"
	}
	e, key, err := ref.Compute(p, ub, ob, rngReader{rng})
	if err != nil {
		t.Broken("reference: %v", err)
	}
	doc := &miniDoc{Version: bc.Version, Marker: "VERIF-MARKER-" + randAlnum(rng, 12), Title: "Titel " + randAlnum(rng, 10), ID0: p.ID0,
		Enc: &e, Params: p, Handler: ref.NewHandler(p, key, rngReader{rng})}
	file := filepath.Join(dir, fmt.Sprintf("b-%d.pdf", idx))
	defer os.Remove(file)
	if err := os.WriteFile(file, doc.Bytes(), 0o644); err != nil {
		t.Broken("write: %v", err)
	}
	rc := replayCase{Dir: "B", R: bc.R, Alg: bc.Name, Class: cu.Name + "|" + co.Name, UserPW: fmt.Sprintf("%+q", upw), OwnerPW: fmt.Sprintf("%+q", opw), P: p.P}
	t.Count("dirB_files/"+bc.Name, 1)

	checkContent := func(ctx *model.Context, how string) {
		c, err := pageOneContent(ctx)
		l, err2 := catalogLang(ctx)
		if err != nil || err2 != nil || string(c) != string(doc.content()) || string(l) != doc.Title {
			rc.Msg = fmt.Sprintf("content %q (%v), /Lang %q (%v)", clip(c), err, l, err2)
			t.Violate(fmt.Sprintf("dirB/%s/opened-but-content-differs", bc.Name), fmt.Sprintf("%s opened with %s but the planted content is not delivered: %s", bc.Name, how, rc.Msg), rc)
			return
		}
		t.Count("dirB_content_verified", 1)
	}

	if emptyUser {
		// no password needed; owner password gives access too; near misses are meaningless here
		t.Eval(fmt.Sprintf("B|%s|empty-user|%s", bc.Name, opw))
		for _, who := range [][2]string{{"", ""}, {"", opw}} {
			ctx, err := openWith(file, who[0], who[1])
			if err != nil {
				rc.Msg = err.Error()
				t.Violate(fmt.Sprintf("dirB/%s/want=accept/got=%s/chars=%s", lowhigh(bc.R), errClass(err), cause(bc.R, errClass(err), who[1])),
					fmt.Sprintf("%s with empty user password, opened with opw=%+q: %v", bc.Name, who[1], err), rc)
				continue
			}
			checkContent(ctx, "no user password")
		}
		return
	}

	type src struct {
		who, pw, class string
	}
	for _, s := range []src{{"user", upw, cu.Name}, {"owner", opw, co.Name}} {
		for _, cand := range candidates(rng, s.pw, high) {
			cb, ok := prepare(bc.R, cand.PW)
			want := false
			if ok {
				_, a1 := ref.AuthUser(p, e, cb)
				_, a2 := ref.AuthOwner(p, e, cb)
				want = a1 || a2
			}
			// offer the candidate as user password and as owner password
			ctxU, errU := openWith(file, cand.PW, "")
			ctxO, errO := openWith(file, "", cand.PW)
			got := "reject"
			var ctx *model.Context
			switch {
			case errU == nil:
				got, ctx = "accept", ctxU
			case errO == nil:
				got, ctx = "accept", ctxO
			default:
				got = errClass(errU)
				if got == "reject" {
					got = errClass(errO)
				}
			}
			rel := cand.Rel
			t.Eval(fmt.Sprintf("B|%s|%s|%s|%s", bc.Name, s.who, cand.Rel, cand.PW))
			t.Count("dirB_candidates/want="+ifs(want, "accept", "reject"), 1)
			t.Count("dirB_relation/"+cand.Rel, 1)
			c := rc
			c.Cand, c.Rel = fmt.Sprintf("%+q", cand.PW), cand.Rel
			switch {
			case want && got != "accept":
				c.Msg = fmt.Sprintf("user slot: %v; owner slot: %v", errU, errO)
				t.Violate(fmt.Sprintf("dirB/%s/want=accept/got=%s/chars=%s", lowhigh(bc.R), got, cause(bc.R, got, cand.PW)),
					fmt.Sprintf("%s %s password %+q, candidate %+q (%s): the algorithms accept it, pdfcpu: %s", bc.Name, s.who, s.pw, cand.PW, cand.Rel, c.Msg), c)
			case !want && got == "accept":
				c.Msg = "opened"
				t.Violate(fmt.Sprintf("dirB/%s/want=reject/got=accept/rel=%s", lowhigh(bc.R), rel),
					fmt.Sprintf("%s %s password %+q, candidate %+q (%s): the algorithms reject it, pdfcpu opens the file", bc.Name, s.who, s.pw, cand.PW, cand.Rel), c)
			case want:
				checkContent(ctx, s.who+" candidate "+cand.Rel)
			default:
				if got != "reject" {
					t.Count("dirB_rejected_with_other_error", 1)
				}
			}
		}
	}
}

// lowhigh groups revisions by password rules: R2-4 (PDFDocEncoding, 32 bytes) vs R5/6 (SASLprep, 127 bytes).
func lowhigh(r int) string {
	if r <= 4 {
		return "R2-4"
	}
	return "R5-6"
}

func ifs(c bool, a, b string) string {
	if c {
		return a
	}
	return b
}

func main() {
	vk.Run("C24", "exploration", func(t *vk.T) {
		api.DisableConfigDir()
		t.Rule("A: pdfcpu encrypts a generated one-page document (PDF 1.7 / 2.0) with each of its 4 algorithms, random passwords from 15 classes, random permissions, random /ID; the reference recomputes all entries and decrypts a planted string and stream. B: the reference encrypts (R2, R3 40-128 bit, R4 RC4/AESV2, R5, R6, EncryptMetadata on/off); pdfcpu is offered the true passwords and derived near-misses / equivalent spellings; the reference decides which must open. Non-trivial = distinct (config, passwords, candidate)")
		t.Assume("password alphabets are restricted to code points whose RFC 4013 treatment the reference tables cover and that are unchanged since Unicode 3.2: ASCII, Latin-1, PDFDocEncoding 0x80-0xA0, Greek/Cyrillic/CJK/Hebrew/Arabic letters, RFC 3454 B.1 and C.1.2 points (without U+200B), selected NFKC compatibility characters and combining marks, prohibited samples U+0007 U+0085 U+E000 U+200E U+FFFD; the unassigned-code-point table A.1 is not modelled")
		t.Assume("R 2-4 passwords given to pdfcpu as Go strings are taken to denote text that the specification converts to PDFDocEncoding; R 5/6 passwords denote Unicode text that is SASLprep'ed")
		t.Assume("a password counts as accepted by pdfcpu if it opens the file as conf.UserPW or as conf.OwnerPW (api.ReadContext + ValidateContext); any error counts as not accepted")
		t.Assume("Algorithm 2.B termination is read as all interoperable implementations read it (stop after round i >= 63 when last byte of E <= i+1-32)")
		dir := t.Scratch()
		nA := t.Pick(320, 6000)
		nB := t.Pick(210, 4200)
		vk.Parallel(nA+nB, func(i int) {
			if i < nA {
				directionA(t, i, dir)
			} else {
				directionB(t, i-nA, dir)
			}
		})
		t.Sample(map[string]any{"direction_B_configs": bConfigs})
	})
}

func sha256sum(b []byte) []byte {
	h := sha256.Sum256(b)
	return h[:]
}

// feature names the first character class present in pw that matters for password
// preparation; it keys deviations by their cause rather than by test case.
func feature(pw string) string {
	rs := []rune(pw)
	has := func(f func(r rune) bool) bool {
		for _, r := range rs {
			if f(r) {
				return true
			}
		}
		return false
	}
	nonASCII := has(func(r rune) bool { return r > 0x7F })
	switch {
	case pw == "":
		return "empty"
	case has(func(r rune) bool { return r == 0x200C || r == 0x200D }):
		return "zwj/zwnj"
	case has(ref.MapsToNothing):
		return "b1-map-to-nothing"
	case has(func(r rune) bool { return r == ' ' }):
		return "ascii-space"
	case has(ref.NonASCIISpace):
		return "non-ascii-space"
	case has(func(r rune) bool { return norm.NFKC.String(string(r)) != norm.NFC.String(string(r)) }):
		return "nfkc-compat-char"
	case has(func(r rune) bool { return r > 0x7F && (unicode.IsSymbol(r) || unicode.IsPunct(r)) }):
		return "non-ascii-symbol"
	case nonASCII && !unicode.IsLetter(rs[0]):
		return "non-ascii+leading-non-letter"
	case nonASCII && !unicode.IsLetter(rs[len(rs)-1]) && !unicode.IsDigit(rs[len(rs)-1]) && !unicode.IsMark(rs[len(rs)-1]):
		return "non-ascii+trailing-non-letter"
	case has(unicode.IsMark):
		return "combining-mark"
	case nonASCII && len(pw) > 127:
		return "non-ascii+longer-than-127-bytes"
	case nonASCII:
		return "non-ascii-letters"
	case len(pw) > 127:
		return "ascii+longer-than-127-bytes"
	case len(pw) > 32:
		return "ascii+longer-than-32-bytes"
	}
	return "ascii"
}

// cause narrows feature to what can explain the observed outcome.
func cause(r int, got, pw string) string {
	rs := []rune(pw)
	if r <= 4 {
		for _, c := range rs {
			if c > 0x7F {
				return "non-ascii"
			}
		}
		return feature(pw)
	}
	if strings.Contains(got, "bidirule") && len(rs) > 0 {
		last := rs[len(rs)-1]
		switch {
		case !unicode.IsLetter(rs[0]):
			return "non-ascii+leading-non-letter"
		case !unicode.IsLetter(last) && !unicode.IsDigit(last) && !unicode.IsMark(last):
			return "non-ascii+trailing-non-letter"
		}
		return "non-ascii+other"
	}
	return feature(pw)
}
