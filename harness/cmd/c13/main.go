// C13 — Unicode text stored in a PDF reads back unchanged.
//
// Layer 1 (exhaustive): every Unicode scalar value c, alone and as "a"+c+"b":
//
//	DecodeUTF16String(own UTF-16BE encoding of s) == s, no error   (well-formed input never fails)
//	EncodeUTF16String(s) == own UTF-16BE encoding of s             (BOM + big-endian code units)
//	DecodeUTF16String(EncodeUTF16String(s)) == s, no error
//	StringLiteralToString(StringLiteral(*EscapedUTF16String(s))) == s     (literal route)
//	HexLiteralToString(NewHexLiteral(EncodeUTF16String(s))) == s          (hex route)
//
// Layer 2: seeded random strings mixing ASCII, BMP, private use, boundary code points
// (U+D7FF, U+E000, U+FFFF, ...) and supplementary-plane characters through the same routes.
// Layer 3 (end to end): such strings through api.AddPropertiesFile / api.AddKeywordsFile on a
// copy of a corpus file, read back with api.Properties / api.Keywords.
//
// Violation keys name the code point (range) that fails: utf16-decode/U+E000.
package main

import (
	"fmt"
	"os"
	"path/filepath"
	"sort"
	"strings"
	"sync"
	"unicode"
	"unicode/utf8"

	"github.com/pdfcpu/pdfcpu/pkg/api"
	"github.com/pdfcpu/pdfcpu/pkg/pdfcpu/model"
	"github.com/pdfcpu/pdfcpu/pkg/pdfcpu/types"
	"verif/harness/internal/vk"
)

const (
	rDecode  = "utf16-decode" // DecodeUTF16String on well-formed UTF-16BE
	rEncode  = "utf16-encode" // EncodeUTF16String differs from the reference encoding
	rLiteral = "literal-route"
	rHex     = "hex-route"
)

var routes = []string{rDecode, rEncode, rLiteral, rHex}

// ownUTF16BE is the reference encoder: BOM FE FF, then big-endian UTF-16 code units.
func ownUTF16BE(s string) []byte {
	out := []byte{0xFE, 0xFF}
	for _, r := range s {
		if r < 0x10000 {
			out = append(out, byte(r>>8), byte(r))
			continue
		}
		v := r - 0x10000
		hi := 0xD800 + (v >> 10)
		lo := 0xDC00 + (v & 0x3FF)
		out = append(out, byte(hi>>8), byte(hi), byte(lo>>8), byte(lo))
	}
	return out
}

type fail struct{ route, detail string }

func q(s string) string {
	var b strings.Builder
	for _, r := range s {
		fmt.Fprintf(&b, "U+%04X ", r)
	}
	return strings.TrimSpace(b.String())
}

// checkRoutes runs all routes on s; panics inside pdfcpu are failures of the route.
func checkRoutes(s string) (fails []fail) {
	own := ownUTF16BE(s)
	try := func(route string, f func() (string, error)) {
		defer func() {
			if r := recover(); r != nil {
				fails = append(fails, fail{route, fmt.Sprintf("panic: %v", r)})
			}
		}()
		got, err := f()
		if err != nil {
			fails = append(fails, fail{route, "error: " + err.Error()})
			return
		}
		if got != s {
			fails = append(fails, fail{route, fmt.Sprintf("got [%s] (% x)", q(got), got)})
		}
	}
	try(rDecode, func() (string, error) { return types.DecodeUTF16String(string(own)) })
	enc := types.EncodeUTF16String(s)
	if enc != string(own) {
		fails = append(fails, fail{rEncode, fmt.Sprintf("EncodeUTF16String=% x, reference % x", enc, own)})
		// the decoder must also read what pdfcpu itself wrote
		try(rDecode, func() (string, error) { return types.DecodeUTF16String(enc) })
	}
	try(rLiteral, func() (string, error) {
		ep, err := types.EscapedUTF16String(s)
		if err != nil {
			return "", err
		}
		return types.StringLiteralToString(types.StringLiteral(*ep))
	})
	try(rHex, func() (string, error) {
		return types.HexLiteralToString(types.NewHexLiteral([]byte(enc)))
	})
	return fails
}

func needsEscape(b []byte) bool {
	for _, c := range b[2:] {
		switch c {
		case '\\', '(', ')', 0x0A, 0x0D, 0x09, 0x08, 0x0C:
			return true
		}
	}
	return false
}

type rng struct{ lo, hi rune }

func compress(cps []rune) []rng {
	sort.Slice(cps, func(i, j int) bool { return cps[i] < cps[j] })
	var out []rng
	for _, c := range cps {
		if n := len(out); n > 0 && (out[n-1].hi == c || out[n-1].hi+1 == c) {
			out[n-1].hi = c
			continue
		}
		out = append(out, rng{c, c})
	}
	return out
}

func (r rng) String() string {
	if r.lo == r.hi {
		return fmt.Sprintf("U+%04X", r.lo)
	}
	return fmt.Sprintf("U+%04X..U+%04X", r.lo, r.hi)
}

type monitor struct {
	t        *vk.T
	mu       sync.Mutex
	knownBad map[rune]string // code point -> violation key found by the exhaustive layer
}

// attribute returns the key of a code point of s that already fails on its own.
func (m *monitor) attribute(s string) (string, bool) {
	for _, r := range s {
		if k, ok := m.knownBad[r]; ok {
			return k, true
		}
	}
	return "", false
}

func runeClass(r rune) string {
	switch {
	case r < 0x80:
		return "ascii"
	case r < 0xD800:
		return "bmp_below_surrogates"
	case r >= 0xE000 && r <= 0xF8FF:
		return "bmp_private_use"
	case r < 0x10000:
		return "bmp_above_surrogates"
	}
	return "supplementary"
}

func (m *monitor) exhaustive() {
	t := m.t
	type acc struct {
		bad      map[string][]rune // route -> code points failing alone
		badEmb   map[string][]rune // route -> code points failing only when embedded
		detail   map[string]string // route+cp -> first detail
		classes  map[string]int64
		nontriv  int64
		escapeCP int64
	}
	const chunks = 0x110000 / 0x1000
	accs := make([]acc, chunks)
	vk.Parallel(chunks, func(ci int) {
		a := acc{bad: map[string][]rune{}, badEmb: map[string][]rune{}, detail: map[string]string{}, classes: map[string]int64{}}
		for c := rune(ci * 0x1000); c < rune((ci+1)*0x1000); c++ {
			if c >= 0xD800 && c <= 0xDFFF {
				continue
			}
			a.classes[runeClass(c)]++
			if c >= 0x80 {
				a.nontriv++
			}
			if needsEscape(ownUTF16BE(string(c))) {
				a.escapeCP++
			}
			alone := map[string]bool{}
			for _, f := range checkRoutes(string(c)) {
				if !alone[f.route] {
					alone[f.route] = true
					a.bad[f.route] = append(a.bad[f.route], c)
					a.detail[fmt.Sprintf("%s/%d", f.route, c)] = f.detail
				}
			}
			emb := map[string]bool{}
			for _, f := range checkRoutes("a" + string(c) + "b") {
				if !alone[f.route] && !emb[f.route] {
					emb[f.route] = true
					a.badEmb[f.route] = append(a.badEmb[f.route], c)
					a.detail[fmt.Sprintf("%s/emb/%d", f.route, c)] = f.detail
				}
			}
		}
		accs[ci] = a
	})
	bad, badEmb := map[string][]rune{}, map[string][]rune{}
	detail := map[string]string{}
	var nontriv, total, escCP int64
	for _, a := range accs {
		for r, v := range a.bad {
			bad[r] = append(bad[r], v...)
		}
		for r, v := range a.badEmb {
			badEmb[r] = append(badEmb[r], v...)
		}
		for k, v := range a.detail {
			detail[k] = v
		}
		for k, v := range a.classes {
			t.Count("codepoints_"+k, v)
			total += v
		}
		nontriv += a.nontriv
		escCP += a.escapeCP
	}
	t.EvalBulk(2*total, 2*nontriv) // alone + embedded, each a distinct string
	t.Count("codepoints_total", total)
	t.Count("codepoints_whose_utf16_bytes_need_escaping", escCP)
	if total != 1_112_064 {
		t.Broken("enumerated %d scalar values, expected 1112064", total)
	}

	// Report per route and code point range. The literal and hex routes end in the same UTF-16
	// decoder: a code point that already fails utf16-decode is reported under that key only.
	decodeBad := map[rune]bool{}
	for _, c := range bad[rDecode] {
		decodeBad[c] = true
	}
	for _, c := range badEmb[rDecode] {
		decodeBad[c] = true
	}
	for _, route := range routes {
		for _, emb := range []bool{false, true} {
			src, infix := bad[route], ""
			if emb {
				src, infix = badEmb[route], "embedded/"
			}
			var cps []rune
			implied := 0
			for _, c := range src {
				if (route == rLiteral || route == rHex) && decodeBad[c] {
					implied++
					continue
				}
				cps = append(cps, c)
			}
			if implied > 0 {
				t.Count(route+"_failures_implied_by_utf16-decode", int64(implied))
			}
			for i, r := range compress(cps) {
				if i >= 20 {
					t.Count("violation_ranges_beyond_cap", 1)
					continue
				}
				key := fmt.Sprintf("%s/%s%s", route, infix, r)
				for c := r.lo; c <= r.hi; c++ {
					if _, ok := m.knownBad[c]; !ok {
						m.knownBad[c] = key
					}
				}
				dk := fmt.Sprintf("%s/%d", route, r.lo)
				in := string(r.lo)
				if emb {
					dk = fmt.Sprintf("%s/emb/%d", route, r.lo)
					in = "a" + in + "b"
				}
				extra := ""
				if route == rDecode {
					extra = " (the literal and hex string routes fail for the same code points)"
				}
				t.Violate(key, fmt.Sprintf("%s: text [%s] (UTF-16BE % x) does not read back: %s; %d code point(s) in this range%s",
					route, q(in), ownUTF16BE(in), detail[dk], r.hi-r.lo+1, extra),
					map[string]any{"layer": "exhaustive", "route": route, "text_runes": q(in), "first": r.lo, "last": r.hi})
			}
		}
	}
}

// random text generator shared by layers 2 and 3.
var boundary = []rune{0x0000, 0x0001, 0x007F, 0x0080, 0x00A0, 0x00FF, 0x0100, 0x07FF, 0x0800, 0xD7FE, 0xD7FF, 0xE000, 0xE001, 0xE0FF,
	0xF8FF, 0xF900, 0xFEFF, 0xFFFD, 0xFFFE, 0xFFFF, 0x10000, 0x10001, 0x103FF, 0x10400, 0x1F600, 0xFFFFF, 0x100000, 0x10FFFE, 0x10FFFF,
	// code points whose UTF-16BE bytes are characters Escape must treat: ( ) \ CR LF TAB BS FF
	0x2829, 0x5C5C, 0x0A0D, 0x0D0A, 0x005C, 0x0028, 0x0029, 0x5C28, 0x295C, 0x0908, 0x0C0A, 0x285C, 0x5C6E, 0x5C30}

type rsrc interface{ IntN(n int) int }

func randRune(r rsrc) rune {
	for {
		var c rune
		switch r.IntN(10) {
		case 0, 1:
			c = rune(0x20 + r.IntN(0x5F))
		case 2:
			c = rune(r.IntN(0x800))
		case 3:
			c = rune(r.IntN(0x10000))
		case 4:
			c = rune(0xE000 + r.IntN(0x1900)) // BMP private use
		case 5:
			c = rune(0x10000 + r.IntN(0x100000))
		case 6:
			c = rune(0xF0000 + r.IntN(0x20000)) // planes 15/16 private use
		default:
			c = boundary[r.IntN(len(boundary))]
		}
		if c >= 0xD800 && c <= 0xDFFF || c > 0x10FFFF {
			continue
		}
		return c
	}
}

// lookalikeText returns a text of Latin-1 characters whose code points, read as BYTES, look like
// another encoding of some other text: the UTF-8 bytes of a random text ("Ã©" for "é"), optionally
// behind the three characters of a UTF-8 byte order mark ("ï»¿") or the two of a UTF-16BE one ("þÿ").
// A writer that stores such a text one byte per character and a reader that sniffs encodings from the
// bytes disagree exactly on these; every single code point of them reads back fine on its own.
func lookalikeText(r rsrc, maxRunes int) string {
	var rs []rune
	switch r.IntN(6) {
	case 0:
		rs = append(rs, 0xEF, 0xBB, 0xBF)
	case 1:
		rs = append(rs, 0xFE, 0xFF)
	case 2:
		rs = append(rs, 0xFF, 0xFE)
	}
	inner := randText(r, 1+maxRunes/3)
	if r.IntN(3) == 0 { // keep it to text whose UTF-8 bytes are all printable Latin-1 (U+00A1..U+00FF lead/continuation)
		var t []rune
		for _, c := range inner {
			if c >= 0xA1 && c < 0x800 {
				t = append(t, c)
			}
		}
		inner = string(t) + "é"
	}
	for _, b := range []byte(inner) {
		rs = append(rs, rune(b))
	}
	if r.IntN(2) == 0 {
		rs = append(rs, 'x')
	}
	return string(rs)
}

func randText(r rsrc, maxRunes int) string {
	n := r.IntN(maxRunes + 1)
	rs := make([]rune, n)
	for i := range rs {
		rs[i] = randRune(r)
	}
	return string(rs)
}

func shrinkRunes(s string, fails func(string) bool, budget int) string {
	cur := []rune(s)
	for changed := true; changed && budget > 0; {
		changed = false
		for i := 0; i < len(cur) && budget > 0; i++ {
			x := append(append([]rune(nil), cur[:i]...), cur[i+1:]...)
			budget--
			if fails(string(x)) {
				cur, changed = x, true
				i--
			}
		}
	}
	return string(cur)
}

func runesKey(s string) string {
	rs := []rune(s)
	if len(rs) == 0 {
		return "empty"
	}
	if len(rs) > 4 {
		return fmt.Sprintf("runes%d", len(rs))
	}
	p := make([]string, len(rs))
	for i, r := range rs {
		p[i] = fmt.Sprintf("U+%04X", r)
	}
	return strings.Join(p, "+")
}

func (m *monitor) random() {
	t := m.t
	R := t.Pick(200_000, 3_000_000)
	const chunks = 64
	var mu sync.Mutex
	var astral, pua, failsAttributed int64
	vk.Parallel(chunks, func(c int) {
		r := t.RNGi("random-text", c)
		var a, p, fa int64
		for i := 0; i < R/chunks; i++ {
			s := randText(r, 24)
			if i%8 == 7 {
				s = lookalikeText(r, 24)
			}
			for _, x := range s {
				if x >= 0x10000 {
					a++
				}
				if x >= 0xE000 && x <= 0xF8FF {
					p++
				}
			}
			if c == 0 && i < 2 {
				t.Sample(map[string]any{"layer": "random", "text_runes": q(s)})
			}
			fs := checkRoutes(s)
			if len(fs) == 0 {
				continue
			}
			if k, ok := m.attribute(s); ok {
				fa++
				t.Violate(k, "", nil) // same defect as found by the exhaustive layer: counted under its key
				continue
			}
			f := fs[0]
			mn := shrinkRunes(s, func(x string) bool {
				for _, g := range checkRoutes(x) {
					if g.route == f.route {
						return true
					}
				}
				return false
			}, 2000)
			t.Violate(fmt.Sprintf("%s/sequence/%s", f.route, runesKey(mn)),
				fmt.Sprintf("%s: text [%s] does not read back although each code point does on its own: %s (minimal [%s])", f.route, q(s), f.detail, q(mn)),
				map[string]any{"layer": "random", "route": f.route, "text_runes": q(s), "minimal_runes": q(mn)})
		}
		mu.Lock()
		astral += a
		pua += p
		failsAttributed += fa
		mu.Unlock()
	})
	n := int64(R / chunks * chunks)
	t.EvalBulk(n, 0) // random strings may repeat: not counted as distinct
	t.Count("random_strings", n)
	t.Count("random_supplementary_runes", astral)
	t.Count("random_private_use_runes", pua)
	t.Count("random_failures_attributed_to_codepoint_keys", failsAttributed)
}

// ---- end-to-end layer

func newConf() *model.Configuration {
	c := model.NewDefaultConfiguration()
	c.Offline = true
	return c
}

func listProperties(file string) (m map[string]string, err error) {
	defer func() {
		if r := recover(); r != nil {
			err = fmt.Errorf("panic: %v", r)
		}
	}()
	f, err := os.Open(file)
	if err != nil {
		return nil, err
	}
	defer f.Close()
	return api.Properties(f, newConf())
}

func listKeywords(file string) (ss []string, err error) {
	defer func() {
		if r := recover(); r != nil {
			err = fmt.Errorf("panic: %v", r)
		}
	}()
	f, err := os.Open(file)
	if err != nil {
		return nil, err
	}
	defer f.Close()
	return api.Keywords(f, newConf())
}

func addProps(in, out string, p map[string]string) (err error) {
	defer func() {
		if r := recover(); r != nil {
			err = fmt.Errorf("panic: %v", r)
		}
	}()
	return api.AddPropertiesFile(in, out, p, newConf())
}

func addKeywords(in, out string, kw []string) (err error) {
	defer func() {
		if r := recover(); r != nil {
			err = fmt.Errorf("panic: %v", r)
		}
	}()
	return api.AddKeywordsFile(in, out, kw, newConf())
}

// propsRoundTrip stores vals as properties P0.. in a copy of base and returns, per index, what
// was listed ("" + false if the property is missing) or an error of the whole operation.
func (m *monitor) propsRoundTrip(base string, vals []string, tag string) ([]string, []bool, error) {
	out := filepath.Join(m.t.Scratch(), "props-"+tag+".pdf")
	defer os.Remove(out)
	p := map[string]string{}
	for i, v := range vals {
		p[fmt.Sprintf("VerifP%d", i)] = v
	}
	if err := addProps(base, out, p); err != nil {
		return nil, nil, fmt.Errorf("AddPropertiesFile: %w", err)
	}
	got, err := listProperties(out)
	if err != nil {
		return nil, nil, fmt.Errorf("Properties: %w", err)
	}
	res, ok := make([]string, len(vals)), make([]bool, len(vals))
	for i := range vals {
		res[i], ok[i] = got[fmt.Sprintf("VerifP%d", i)]
	}
	return res, ok, nil
}

// keywordsRoundTrip stores kws in a copy of base; returns problem text or "".
func (m *monitor) keywordsRoundTrip(base string, baseKw []string, kws []string, tag string) string {
	out := filepath.Join(m.t.Scratch(), "kw-"+tag+".pdf")
	defer os.Remove(out)
	if err := addKeywords(base, out, kws); err != nil {
		return "AddKeywordsFile: " + err.Error()
	}
	got, err := listKeywords(out)
	if err != nil {
		return "Keywords: " + err.Error()
	}
	want := map[string]bool{}
	for _, k := range baseKw {
		want[k] = true
	}
	for _, k := range kws {
		want[k] = true
	}
	gotSet := map[string]bool{}
	for _, k := range got {
		gotSet[k] = true
	}
	for k := range want {
		if !gotSet[k] {
			return fmt.Sprintf("keyword [%s] not listed; listed: %q", q(k), got)
		}
	}
	for k := range gotSet {
		if !want[k] {
			return fmt.Sprintf("unexpected keyword [%s] listed", q(k))
		}
	}
	return ""
}

// e2eText draws a string usable both as a property value and as a keyword: the API contracts
// exclude blank values, and keywords are a list split on ',' ';' CR and trimmed of white space.
func e2eText(r rsrc) string {
	for {
		s := randText(r, 12)
		if r.IntN(5) == 0 {
			s = lookalikeText(r, 12)
		}
		s = strings.Map(func(c rune) rune {
			if c == ',' || c == ';' || c == '\r' {
				return 'x'
			}
			return c
		}, s)
		s = strings.TrimFunc(s, unicode.IsSpace)
		if s != "" && utf8.ValidString(s) {
			return s
		}
	}
}

func (m *monitor) endToEnd() {
	t := m.t
	src := filepath.Join(vk.RepoDir(), "pkg", "testdata", "test.pdf")
	b, err := os.ReadFile(src)
	if err != nil {
		t.Broken("corpus file: %v", err)
	}
	base := filepath.Join(t.Scratch(), "base.pdf")
	if err := os.WriteFile(base, b, 0o644); err != nil {
		t.Broken("scratch: %v", err)
	}
	baseKw, err := listKeywords(base)
	if err != nil {
		t.Broken("Keywords on the unmodified corpus file: %v", err)
	}
	if _, err := listProperties(base); err != nil {
		t.Broken("Properties on the unmodified corpus file: %v", err)
	}

	N := t.Pick(200, 1500)
	r := t.RNG("e2e")
	texts := make([]string, 0, N)
	seen := map[string]bool{}
	// fixed part: each boundary code point on its own (where the API contract admits it)
	for _, c := range boundary {
		s := strings.TrimFunc(string(c), unicode.IsSpace)
		if s == "" || seen[s] {
			continue
		}
		seen[s] = true
		texts = append(texts, "k"+s+"z")
	}
	for len(texts) < N {
		s := e2eText(r)
		if seen[s] {
			continue
		}
		seen[s] = true
		texts = append(texts, s)
	}
	t.Sample(map[string]any{"layer": "e2e", "file": "pkg/testdata/test.pdf", "text_runes": q(texts[len(texts)-1])})

	propFail := func(s string) (string, bool) {
		res, ok, err := m.propsRoundTrip(base, []string{s}, "single")
		switch {
		case err != nil:
			return err.Error(), true
		case !ok[0]:
			return "property is missing from the listing", true
		case res[0] != s:
			return fmt.Sprintf("listed as [%s]", q(res[0])), true
		}
		return "", false
	}
	kwFail := func(s string) (string, bool) {
		p := m.keywordsRoundTrip(base, baseKw, []string{s}, "single")
		return p, p != ""
	}
	reportE2E := func(api, s, problem string, failFn func(string) (string, bool)) {
		if k, ok := m.attribute(s); ok {
			t.Count("e2e_"+api+"_failures_attributed_to_codepoint_keys", 1)
			t.Violate(k, "", nil)
			if t.Counter("e2e_"+api+"_failures_attributed_to_codepoint_keys") == 1 {
				fmt.Printf("NOTE property=C13 end-to-end consequence of %s via %s: text [%s]: %s\n", k, api, q(s), problem)
			}
			return
		}
		mn := shrinkRunes(s, func(x string) bool {
			if strings.TrimFunc(x, unicode.IsSpace) != x || x == "" {
				return false
			}
			_, f := failFn(x)
			return f
		}, 150)
		t.Violate(fmt.Sprintf("e2e-%s/%s", api, runesKey(mn)),
			fmt.Sprintf("%s: text [%s]: %s (minimal [%s])", api, q(s), problem, q(mn)),
			map[string]any{"layer": "e2e", "api": api, "text_runes": q(s), "minimal_runes": q(mn)})
	}

	var opsP, opsK int64
	const pb = 8
	for i := 0; i < len(texts); i += pb {
		j := min(i+pb, len(texts))
		batch := texts[i:j]
		res, ok, err := m.propsRoundTrip(base, batch, "batch")
		opsP++
		for k, s := range batch {
			t.Eval("e2e-prop:" + s)
			if err == nil && ok[k] && res[k] == s {
				continue
			}
			// decide per text with a single-property file
			opsP++
			if problem, f := propFail(s); f {
				reportE2E("properties", s, problem, propFail)
			} else if err == nil {
				// fails only next to other properties
				t.Violate("e2e-properties/batch-only", fmt.Sprintf("property value [%s] reads back alone but not in a batch of %d", q(s), len(batch)), map[string]any{"layer": "e2e", "batch": batch})
			}
		}
	}
	const kb = 4
	for i := 0; i < len(texts); i += kb {
		j := min(i+kb, len(texts))
		batch := texts[i:j]
		opsK++
		problem := m.keywordsRoundTrip(base, baseKw, batch, "batch")
		for _, s := range batch {
			t.Eval("e2e-kw:" + s)
		}
		if problem == "" {
			continue
		}
		anyFails := false
		for _, s := range batch {
			opsK++
			if p, f := kwFail(s); f {
				anyFails = true
				reportE2E("keywords", s, p, kwFail)
			}
		}
		if !anyFails {
			t.Violate("e2e-keywords/batch-only", fmt.Sprintf("keywords read back one by one but not as a list: %s", problem), map[string]any{"layer": "e2e", "batch": batch})
		}
	}
	t.Count("e2e_texts", int64(len(texts)))
	t.Count("e2e_property_file_operations", opsP)
	t.Count("e2e_keyword_file_operations", opsK)
}

func main() {
	vk.Run("C13", "exploration", func(t *vk.T) {
		api.DisableConfigDir()
		t.Rule("layer 1: all 1 112 064 Unicode scalar values, each alone and as a+c+b, through decode / encode / literal / hex routes (non-trivial = code point >= U+0080; distinct by construction); layer 2: seeded random texts of 0..24 code points mixing ASCII, BMP, private use, boundary and supplementary code points, every 8th a Latin-1 text whose code points read as bytes look like the UTF-8 / BOM-prefixed encoding of another text; layer 3: such texts as document properties and keywords of a copy of pkg/testdata/test.pdf, listed back through the API")
		t.Assume("reference UTF-16BE encoding (BOM FE FF + big-endian code units, surrogate pairs for U+10000..U+10FFFF) is computed by the worker, not by pdfcpu")
		t.Assume("end-to-end texts respect the API contracts: property values are not blank; keywords contain no ',' ';' CR and no leading/trailing white space (the keyword list is split on those and trimmed)")
		t.Assume("bookmark titles, form values and annotation contents (named in the property text) are exercised by the C35-C37 workers, not here")
		m := &monitor{t: t, knownBad: map[rune]string{}}
		m.exhaustive()
		t.Exhaustive(true) // all Unicode scalar values enumerated in both tiers
		m.random()
		m.endToEnd()
	})
}
