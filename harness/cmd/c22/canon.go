package main

import (
	"crypto/sha256"
	"encoding/hex"
	"fmt"
	"os"
	"sort"
	"strings"

	"github.com/pdfcpu/pdfcpu/pkg/api"
	"github.com/pdfcpu/pdfcpu/pkg/pdfcpu/model"
	"github.com/pdfcpu/pdfcpu/pkg/pdfcpu/types"
)

// Doc is what the round-trip comparison needs of a reader. The implementation below
// uses pdfcpu's own reader; an independent reader (internal/pdfstrict) can be swapped
// in by producing the same reader-neutral Graph.
type Doc interface {
	PageCount() int
	PageContent(page int) ([]byte, error) // decoded, concatenated content streams of page (1-based)
	InfoStrings() map[string]string       // Info dict key -> hex of string bytes
	Graph() *Graph                        // objects reachable from the trailer's Root and Info
}

// DocReader opens a file with optional passwords.
type DocReader interface {
	Open(path, userPW, ownerPW string) (Doc, error)
}

// Node is a reader-neutral PDF object. Kind: 'n' null, 'v' scalar (Val = type and text),
// 's' string (Val = hex of the bytes, whatever the literal form), 'a' array, 'd' dict
// (Keys sorted, parallel to Kids), 't' stream (dict + Val = digest of the DECODED data),
// 'r' indirect reference (Ref).
type Node struct {
	Kind byte
	Val  string
	Keys []string
	Kids []Node
	Ref  int
}

// Graph is the part of a document reachable from the trailer.
type Graph struct {
	Top  Node         // dict with Root and Info
	Objs map[int]Node // indirect objects by number
	// Compressed: objects the reader took out of an object stream (coverage information only)
	Compressed map[int]bool
	norm       *Graph
}

// Keys that the writer legitimately changes and that are therefore not compared.
var skipInfo = map[string]bool{"Producer": true, "ModDate": true, "CreationDate": true}
var skipStream = map[string]bool{"Length": true, "Filter": true, "DecodeParms": true, "DL": true}

// pdfcpuReader reads with api.ReadContext + api.ValidateContext.
type pdfcpuReader struct{}

func (pdfcpuReader) Open(path, upw, opw string) (d Doc, err error) {
	defer func() {
		if r := recover(); r != nil {
			err = fmt.Errorf("panic: %v", r)
		}
	}()
	f, err := os.Open(path)
	if err != nil {
		return nil, err
	}
	defer f.Close()
	conf := model.NewDefaultConfiguration()
	conf.Offline = true
	conf.UserPW, conf.OwnerPW = upw, opw
	ctx, err := api.ReadContext(f, conf)
	if err != nil {
		return nil, err
	}
	if err := api.ValidateContext(ctx); err != nil {
		return nil, err
	}
	return &pdfcpuDoc{ctx: ctx}, nil
}

type pdfcpuDoc struct {
	ctx *model.Context
	g   *Graph
}

func (d *pdfcpuDoc) PageCount() int { return d.ctx.PageCount }

// PDF20 reports whether pdfcpu treats the document as PDF 2.0 (header or catalog /Version).
func (d *pdfcpuDoc) PDF20() bool { return d.ctx.XRefTable.Version() == model.V20 }

func (d *pdfcpuDoc) PageContent(page int) ([]byte, error) {
	pd, _, _, err := d.ctx.PageDict(page, false)
	if err != nil {
		return nil, err
	}
	b, err := d.ctx.PageContent(pd, page)
	if err == model.ErrNoContent {
		return nil, nil
	}
	return b, err
}

func strBytes(o types.Object) ([]byte, bool) {
	switch s := o.(type) {
	case types.StringLiteral:
		b, err := types.Unescape(s.Value())
		if err != nil {
			return []byte("!unescape:" + s.Value()), true
		}
		return b, true
	case types.HexLiteral:
		b, err := s.Bytes()
		if err != nil {
			return []byte("!hex:" + s.Value()), true
		}
		return b, true
	}
	return nil, false
}

func (d *pdfcpuDoc) InfoStrings() map[string]string {
	out := map[string]string{}
	if d.ctx.Info == nil {
		return out
	}
	dict, err := d.ctx.DereferenceDict(*d.ctx.Info)
	if err != nil || dict == nil {
		return out
	}
	for k, v := range dict {
		v, _ = d.ctx.Dereference(v)
		if b, ok := strBytes(v); ok {
			out[k] = hex.EncodeToString(b)
		}
	}
	return out
}

func (d *pdfcpuDoc) Graph() *Graph {
	if d.g != nil {
		return d.g
	}
	g := &Graph{Objs: map[int]Node{}, Compressed: map[int]bool{}}
	var conv func(o types.Object, skip map[string]bool) Node
	var todo []int
	convDict := func(dd types.Dict, skip map[string]bool, kind byte, val string) Node {
		n := Node{Kind: kind, Val: val}
		for k := range dd {
			if !skip[k] {
				n.Keys = append(n.Keys, k)
			}
		}
		sort.Strings(n.Keys)
		for _, k := range n.Keys {
			n.Kids = append(n.Kids, conv(dd[k], nil))
		}
		return n
	}
	conv = func(o types.Object, skip map[string]bool) Node {
		switch v := o.(type) {
		case nil:
			return Node{Kind: 'n'}
		case types.IndirectRef:
			nr := v.ObjectNumber.Value()
			if _, ok := g.Objs[nr]; !ok {
				g.Objs[nr] = Node{} // reserve
				todo = append(todo, nr)
			}
			return Node{Kind: 'r', Ref: nr}
		case types.Dict:
			return convDict(v, skip, 'd', "")
		case types.StreamDict:
			sd := v
			var data []byte
			kind := "decoded"
			if err := sd.Decode(); err == nil && (sd.Content != nil || len(sd.Raw) == 0) {
				data = sd.Content
			} else {
				// not decodable here (unsupported filter): compare the raw bytes and the filter names
				kind = "raw"
				for _, f := range v.FilterPipeline {
					kind += "," + f.Name
				}
				data = v.Raw
			}
			h := sha256.Sum256(data)
			return convDict(v.Dict, skipStream, 't', fmt.Sprintf("%s %d bytes sha256 %x", kind, len(data), h[:10]))
		case types.Array:
			n := Node{Kind: 'a'}
			for _, e := range v {
				n.Kids = append(n.Kids, conv(e, nil))
			}
			return n
		}
		if b, ok := strBytes(o); ok {
			return Node{Kind: 's', Val: hex.EncodeToString(b)}
		}
		return Node{Kind: 'v', Val: fmt.Sprintf("%T %s", o, o.PDFString())}
	}
	top := types.Dict{}
	if d.ctx.Root != nil {
		top["Root"] = *d.ctx.Root
	}
	if d.ctx.Info != nil {
		top["Info"] = *d.ctx.Info
	}
	g.Top = conv(top, nil)
	infoNr := -1
	if d.ctx.Info != nil {
		infoNr = d.ctx.Info.ObjectNumber.Value()
	}
	for len(todo) > 0 {
		nr := todo[0]
		todo = todo[1:]
		e, found := d.ctx.Find(nr)
		if !found || e.Free || e.Object == nil {
			g.Objs[nr] = Node{Kind: 'n'}
			continue
		}
		if _, lazy := e.Object.(types.LazyObjectStreamObject); lazy {
			// a member of an object stream nobody has looked at so far (e.g. the target of a private entry):
			// have the reader decode it (Dereference stores the decoded object in the entry)
			gen := 0
			if e.Generation != nil {
				gen = *e.Generation
			}
			if _, err := d.ctx.Dereference(*types.NewIndirectRef(nr, gen)); err != nil {
				g.Objs[nr] = Node{Kind: 'v', Val: "!undecodable object stream member: " + err.Error()}
				continue
			}
		}
		if e.Compressed || e.ObjectStream != nil { // the reader clears Compressed once the member is extracted
			g.Compressed[nr] = true
		}
		var skip map[string]bool
		if nr == infoNr {
			skip = skipInfo
		}
		g.Objs[nr] = conv(e.Object, skip)
	}
	d.g = g
	return g
}

// normalized returns an equivalent graph in which every composite object (array, dict,
// stream) is an indirect object of its own (direct ones get synthetic negative numbers)
// and every reference to a non-composite object is replaced by that object. Direct vs.
// indirect placement then does not matter and all signatures have the same depth.
func (g *Graph) normalized() *Graph {
	if g.norm != nil {
		return g.norm
	}
	out := &Graph{Objs: map[int]Node{}}
	next := -1
	var lift func(n Node, hops int) Node
	content := func(n Node) Node {
		c := Node{Kind: n.Kind, Val: n.Val, Keys: n.Keys}
		for _, k := range n.Kids {
			c.Kids = append(c.Kids, lift(k, 0))
		}
		return c
	}
	lift = func(n Node, hops int) Node {
		switch n.Kind {
		case 'r':
			t, ok := g.Objs[n.Ref]
			if !ok || hops > 32 {
				return Node{Kind: 'n'}
			}
			switch t.Kind {
			case 'a', 'd', 't':
				if _, done := out.Objs[n.Ref]; !done {
					out.Objs[n.Ref] = Node{}
					out.Objs[n.Ref] = content(t)
				}
				return n
			}
			return lift(t, hops+1)
		case 'a', 'd', 't':
			id := next
			next--
			out.Objs[id] = content(n)
			return Node{Kind: 'r', Ref: id}
		}
		return n
	}
	out.Top = lift(g.Top, 0)
	out.norm = out
	g.norm = out
	return out
}

// repr is the digest of a child: a scalar's text, or the signature of the referenced object.
func repr(n Node, sig map[int]string) string {
	if n.Kind == 'r' {
		return "<" + sig[n.Ref] + ">"
	}
	return string(n.Kind) + n.Val
}

func objSig(n Node, sig map[int]string) string {
	var b strings.Builder
	b.WriteByte(n.Kind)
	b.WriteString(n.Val)
	fmt.Fprintf(&b, "%d{", len(n.Kids))
	for i, k := range n.Kids {
		if i < len(n.Keys) {
			b.WriteString(n.Keys[i])
			b.WriteByte('=')
		}
		b.WriteString(repr(k, sig))
		b.WriteByte(';')
	}
	h := sha256.Sum256([]byte(b.String()))
	return hex.EncodeToString(h[:12])
}

// jointSignatures computes, by partition refinement run in lockstep on both graphs, a
// digest per indirect object that is equal for two objects (of either graph) iff they are
// bisimilar (same content, references leading to bisimilar objects). Object numbers,
// sharing vs. duplication of equal objects, direct vs. indirect placement and the order
// of objects in the file therefore do not matter.
func jointSignatures(a, b *Graph) (sa, sb map[int]string) {
	sa, sb = map[int]string{}, map[int]string{}
	classes := 0
	for round := 0; round < 2000; round++ {
		distinct := map[string]struct{}{}
		step := func(g *Graph, sig map[int]string) map[int]string {
			next := make(map[int]string, len(g.Objs))
			for nr, n := range g.Objs {
				s := objSig(n, sig)
				next[nr] = s
				distinct[s] = struct{}{}
			}
			return next
		}
		sa, sb = step(a, sa), step(b, sb)
		if len(distinct) == classes && round > 0 {
			break
		}
		classes = len(distinct)
	}
	return sa, sb
}

// diffGraphs walks both graphs from the top along equal keys to the first place where
// they differ locally; path has no indices/object numbers so it can be part of a key.
func diffGraphs(a, b *Graph) (path, detail string) {
	a, b = a.normalized(), b.normalized()
	sa, sb := jointSignatures(a, b)
	if repr(a.Top, sa) == repr(b.Top, sb) {
		return "", ""
	}
	seen := map[[2]int]bool{}
	var walk func(x, y Node, p string, depth int) (string, string)
	walk = func(x, y Node, p string, depth int) (string, string) {
		if depth > 400 {
			return p + "/…", "too deep"
		}
		if (x.Kind == 'r') != (y.Kind == 'r') {
			return p, "composite object vs scalar"
		}
		if x.Kind != 'r' { // scalars (after normalisation every composite is behind a reference)
			if x.Kind != y.Kind || x.Val != y.Val {
				return p, fmt.Sprintf("%c %s vs %c %s", x.Kind, clip(x.Val), y.Kind, clip(y.Val))
			}
			return "", ""
		}
		if sa[x.Ref] == sb[y.Ref] || seen[[2]int{x.Ref, y.Ref}] {
			return "", ""
		}
		seen[[2]int{x.Ref, y.Ref}] = true
		x, y = a.Objs[x.Ref], b.Objs[y.Ref]
		switch {
		case x.Kind != y.Kind:
			return p, fmt.Sprintf("kind %c vs %c", x.Kind, y.Kind)
		case strings.Join(x.Keys, ",") != strings.Join(y.Keys, ","):
			return p, fmt.Sprintf("keys {%s} vs {%s}", strings.Join(x.Keys, ","), strings.Join(y.Keys, ","))
		case len(x.Kids) != len(y.Kids):
			return p, fmt.Sprintf("array length %d vs %d", len(x.Kids), len(y.Kids))
		case x.Val != y.Val:
			return p + "/<stream>", fmt.Sprintf("%s vs %s", x.Val, y.Val)
		}
		for i := range x.Kids {
			step := "[]"
			if i < len(x.Keys) {
				step = "/" + x.Keys[i]
			}
			if pp, d := walk(x.Kids[i], y.Kids[i], p+step, depth+1); pp != "" {
				return pp, d
			}
		}
		return "", ""
	}
	p, d := walk(a.Top, b.Top, "", 0)
	if p == "" {
		return "/?", "signatures differ but no local difference found"
	}
	if len(p) > 80 {
		p = "…" + p[len(p)-80:]
	}
	return p, d
}

// diffDocs returns "" if a and b are equivalent, else a short stable class of the
// first difference and a detailed description.
func diffDocs(a, b Doc) (class, detail string) {
	if a.PageCount() != b.PageCount() {
		return "pagecount", fmt.Sprintf("page count %d vs %d", a.PageCount(), b.PageCount())
	}
	for p := 1; p <= a.PageCount(); p++ {
		ca, ea := a.PageContent(p)
		cb, eb := b.PageContent(p)
		if (ea != nil) != (eb != nil) {
			return "pagecontent-error", fmt.Sprintf("page %d content: %v vs %v", p, ea, eb)
		}
		if string(ca) != string(cb) {
			return "pagecontent", fmt.Sprintf("page %d content differs (%d vs %d bytes)", p, len(ca), len(cb))
		}
	}
	ia, ib := a.InfoStrings(), b.InfoStrings()
	keys := []string{}
	for k := range ia {
		keys = append(keys, k)
	}
	for k := range ib {
		if _, ok := ia[k]; !ok {
			keys = append(keys, k)
		}
	}
	sort.Strings(keys)
	for _, k := range keys {
		if skipInfo[k] {
			continue
		}
		va, oka := ia[k]
		vb, okb := ib[k]
		if oka != okb || va != vb {
			return "info/" + k, fmt.Sprintf("Info /%s: %q (present %v) vs %q (present %v)", k, va, oka, vb, okb)
		}
	}
	if p, d := diffGraphs(a.Graph(), b.Graph()); p != "" {
		return "graph" + p, d
	}
	return "", ""
}

func clip(s string) string {
	if len(s) > 120 {
		return s[:120] + "…"
	}
	return s
}
