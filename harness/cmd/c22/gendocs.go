package main

// Generated documents (internal/pdfgen) for the round trip: known strings in every holder kind (direct and
// indirect strings, strings in direct and INDIRECT arrays, nested arrays, dictionaries nested in arrays,
// hex and literal spelling, stream dictionaries; page-reachable private entries, annotations, choice fields
// with /Opt /V /DV /TU, name trees, outlines, Info), written in every source layout (classic xref table,
// xref stream without / with object streams, hybrid, each also with an incremental update), so that
// pdfcpu's encrypted output carries the holders inside and outside object streams.
//
// Ground truth = a walk over pdfgen's own object model (never read back from a file): every string
// reachable from Root/Info with its place inside its indirect object. After every open / decrypt the
// result (reader-neutral Graph) must show a string with exactly these bytes at that place.

import (
	"bytes"
	"encoding/hex"
	"fmt"
	"math/rand/v2"
	"os"
	"path/filepath"
	"regexp"
	"sort"
	"strings"
	"sync"

	"verif/harness/internal/pdfgen"
	"verif/harness/internal/vk"
)

// plantedString is one string of known content at a known place of a generated document.
type plantedString struct {
	Hex    string // hex of the string's bytes
	Path   string // place inside its indirect object: /Key and [i] steps from the object's top
	Class  string // holder class: <kind of the indirect object>:<path without indices>:<lit|hex>
	Obj    int    // object number in the generated source
	Marker bool   // carries a unique 128-bit marker
	// Loose: a key in the /Names array of a name tree leaf. pdfcpu lays name trees out anew when writing, so the
	// place is "some position of some /Names array" (pdfcpu writes small trees as direct dictionaries of the catalog). (/Limits strings are derived data and not demanded.)
	Loose bool
}

var idxRE = regexp.MustCompile(`\[[0-9]+\]`)

var markerUTF16 = []byte(pdfgen.EncodeUTF16(pdfgen.SecretPrefix))[2:]

// collectPlanted walks the generator's object model from Root and Info (latest revision).
func collectPlanted(doc *pdfgen.Doc, roots ...int) []plantedString {
	seen := map[int]bool{}
	var todo []int
	var out []plantedString
	var top int
	var kind string
	rec := func(b []byte, path, spelling string) {
		if strings.HasPrefix(path, "/Limits[") {
			return
		}
		loose := strings.HasPrefix(path, "/Names[") && strings.Count(path, "[") == 1
		if loose {
			path = "/Names[]"
		}
		out = append(out, plantedString{Hex: hex.EncodeToString(b), Path: path, Obj: top,
			Class:  kind + ":" + idxRE.ReplaceAllString(path, "[]") + ":" + spelling,
			Marker: bytes.Contains(b, []byte(pdfgen.SecretPrefix)) || bytes.Contains(b, markerUTF16), Loose: loose})
	}
	var walk func(o pdfgen.Object, path string)
	walk = func(o pdfgen.Object, path string) {
		switch v := o.(type) {
		case pdfgen.Ref:
			if !seen[v.Num] {
				seen[v.Num] = true
				todo = append(todo, v.Num)
			}
		case pdfgen.Dict:
			for _, e := range v {
				walk(e.Val, path+"/"+string(e.Key))
			}
		case pdfgen.Array:
			for i, e := range v {
				walk(e, fmt.Sprintf("%s[%d]", path, i))
			}
		case *pdfgen.Stream:
			walk(v.Dict, path)
		case pdfgen.String:
			rec([]byte(v), path, "lit")
		case pdfgen.HexString:
			rec([]byte(v), path, "hex")
		}
	}
	for _, r := range roots {
		if r != 0 {
			walk(pdfgen.Ref{Num: r}, "")
		}
	}
	for len(todo) > 0 {
		top = todo[0]
		todo = todo[1:]
		o := doc.Get(top)
		switch o.(type) {
		case pdfgen.Dict:
			kind = "dictobj"
		case pdfgen.Array:
			kind = "arrobj"
		case *pdfgen.Stream:
			kind = "stmdict"
		default:
			kind = "strobj"
		}
		walk(o, "")
	}
	return out
}

type strPlace struct {
	Obj  int
	Path string
}

// graphStrings indexes every string of g by its bytes (hex).
func graphStrings(g *Graph) map[string][]strPlace {
	idx := map[string][]strPlace{}
	var walk func(n Node, obj int, path string)
	walk = func(n Node, obj int, path string) {
		switch n.Kind {
		case 's':
			idx[n.Val] = append(idx[n.Val], strPlace{obj, path})
		case 'd', 't':
			for i, k := range n.Kids {
				walk(k, obj, path+"/"+n.Keys[i])
			}
		case 'a':
			for i, k := range n.Kids {
				walk(k, obj, fmt.Sprintf("%s[%d]", path, i))
			}
		}
	}
	for nr, n := range g.Objs {
		walk(n, nr, "")
	}
	return idx
}

// missingPlanted returns the planted strings g does not show at their place, and for the others whether the
// holder object was read from an object stream.
func missingPlanted(planted []plantedString, g *Graph) (missing []plantedString, inObjStm []bool) {
	idx := graphStrings(g)
	inObjStm = make([]bool, len(planted))
	for i, p := range planted {
		found := false
		for _, pl := range idx[p.Hex] {
			if pl.Path == p.Path || p.Loose && strings.HasSuffix(idxRE.ReplaceAllString(pl.Path, "[]"), p.Path) {
				found = true
				inObjStm[i] = inObjStm[i] || g.Compressed[pl.Obj]
			}
		}
		if !found {
			missing = append(missing, p)
		}
	}
	return missing, inObjStm
}

// plantedStats counts per holder class how often a planted string was confirmed in a document read from
// an ENCRYPTED file, split by holder inside / outside an object stream.
type plantedStats struct {
	mu      sync.Mutex
	byClass map[string][2]int64 // [outside, inside]
}

func (ps *plantedStats) check(bd *baseDoc, d Doc, encrypted bool) (cls, det string) {
	if bd.Planted == nil {
		return "", ""
	}
	missing, inStm := missingPlanted(bd.Planted, d.Graph())
	if encrypted {
		ps.mu.Lock()
		if ps.byClass == nil {
			ps.byClass = map[string][2]int64{}
		}
		for i, p := range bd.Planted {
			c := ps.byClass[p.Class]
			if inStm[i] {
				c[1]++
			} else {
				c[0]++
			}
			ps.byClass[p.Class] = c
		}
		ps.mu.Unlock()
	}
	if len(missing) == 0 {
		return "", ""
	}
	// stable choice: marker strings first, then the smallest class
	sort.SliceStable(missing, func(i, j int) bool {
		if missing[i].Marker != missing[j].Marker {
			return missing[i].Marker
		}
		return missing[i].Class < missing[j].Class
	})
	m := missing[0]
	classes := map[string]bool{}
	for _, x := range missing {
		classes[x.Class] = true
	}
	var cl []string
	for c := range classes {
		cl = append(cl, c)
	}
	sort.Strings(cl)
	b, _ := hex.DecodeString(m.Hex)
	return "planted-string-lost:" + m.Class, fmt.Sprintf("%d of %d planted strings are not at their place with their bytes; first: %q (%d bytes) of source object %d at %s; holder classes affected: %s",
		len(missing), len(bd.Planted), clip(string(b)), len(b), m.Obj, m.Path, clip(strings.Join(cl, " ")))
}

// ---- planting ----

type planter struct {
	doc *pdfgen.Doc
	rng *rand.Rand
}

func (p *planter) marker() string {
	return pdfgen.SecretPrefix + fmt.Sprintf("%016X%016X", p.rng.Uint64(), p.rng.Uint64())
}

// bytesAny: a marker with arbitrary byte content around it (for non-text places).
func (p *planter) bytesAny() []byte {
	m := []byte(p.marker())
	switch p.rng.IntN(5) {
	case 0:
		return m
	case 1:
		return append(m, []byte(" \\(un)balanced) (\r\n\t\x00\x7f\x80\xfe\xff")...)
	case 2: // a whole number of AES blocks
		for len(m)%16 != 0 {
			m = append(m, byte('a'+len(m)%26))
		}
		return m
	case 3: // one short of / one over a block
		for len(m)%16 != 15 {
			m = append(m, '.')
		}
		if p.rng.IntN(2) == 0 {
			m = append(m, '!', '?')
		}
		return m
	}
	return []byte(pdfgen.EncodeUTF16(string(m) + " é€"))
}

func (p *planter) lit() pdfgen.Object { return pdfgen.String(p.bytesAny()) }
func (p *planter) hex() pdfgen.Object { return pdfgen.HexString(p.bytesAny()) }
func (p *planter) any() pdfgen.Object {
	if p.rng.IntN(2) == 0 {
		return p.hex()
	}
	return p.lit()
}

// text: a marker in a place that holds a text string (PDFDocEncoding ASCII or UTF-16BE).
func (p *planter) text() pdfgen.Object {
	switch p.rng.IntN(3) {
	case 0:
		return pdfgen.EncodeUTF16(p.marker() + " ü")
	case 1:
		return pdfgen.HexString(p.marker())
	}
	return pdfgen.String(p.marker())
}

// array: strings directly in the array, in nested arrays, in a dictionary nested in the array and in an array
// inside that dictionary; an empty string and non-string members between them.
func (p *planter) array() pdfgen.Array {
	return pdfgen.Array{p.lit(), p.hex(), pdfgen.Int(7), pdfgen.String(""),
		pdfgen.Array{p.any(), pdfgen.Array{pdfgen.Array{p.any(), pdfgen.HexString("")}}},
		pdfgen.D("K", p.any(), "A", pdfgen.Array{pdfgen.Int(1), pdfgen.D("Z", p.any()), p.any()}),
		pdfgen.Name("N"), p.any()}
}

func pickFilters(rng *rand.Rand, pol pdfgen.FilterPolicy) []pdfgen.FilterSpec {
	if pol == pdfgen.FiltersNone || rng.IntN(3) == 0 {
		return nil
	}
	return []pdfgen.FilterSpec{{Kind: pdfgen.Flate}}
}

// appendTo appends v to the array under key of object num; the array may be direct or an indirect object.
func appendTo(doc *pdfgen.Doc, num int, key pdfgen.Name, v pdfgen.Object) {
	d, ok := doc.GetDict(num)
	if !ok {
		return
	}
	switch a := func() pdfgen.Object { o, _ := d.Get(key); return o }().(type) {
	case pdfgen.Ref:
		if arr, ok := doc.Get(a.Num).(pdfgen.Array); ok {
			doc.Replace(a.Num, append(arr[:len(arr):len(arr)], v))
		}
	case pdfgen.Array:
		doc.SetKey(num, key, append(a[:len(a):len(a)], v))
	default:
		doc.SetKey(num, key, pdfgen.Array{v})
	}
}

func secretObj(truth *pdfgen.Truth, kind string) int {
	for _, s := range truth.Secrets {
		if s.Kind == kind {
			return s.ObjNum
		}
	}
	return 0
}

// plantHolders adds the holder kinds pdfgen's builder does not cover. Layer-1 API only.
func plantHolders(doc *pdfgen.Doc, truth *pdfgen.Truth, rng *rand.Rand, pol pdfgen.FilterPolicy) {
	p := &planter{doc: doc, rng: rng}
	pages := truth.Objs.PageObjs
	if len(pages) == 0 {
		return
	}
	// (a) private entries of pages (pdfcpu writes page dictionaries with all their entries, and everything
	// reached from the page tree goes into object streams when those are written)
	for i, pg := range pages {
		doc.SetKey(pg, "VerifArr", doc.Add(p.array()))
		if i > 0 && rng.IntN(2) == 0 {
			continue
		}
		doc.SetKey(pg, "VerifDArr", p.array())
		doc.SetKey(pg, "VerifStr", doc.Add(p.lit()))
		doc.SetKey(pg, "VerifHexStr", doc.Add(p.hex()))
		doc.SetKey(pg, "VerifLit", p.lit())
		doc.SetKey(pg, "VerifHex", p.hex())
		inner := doc.Add(pdfgen.D("Kind", pdfgen.Name("Member"), "Text", p.any(), "List", pdfgen.Array{p.any(), p.any()}))
		doc.SetKey(pg, "VerifDict", doc.Add(pdfgen.D("S", p.lit(), "H", p.hex(), "Arr", p.array(), "ArrRef", doc.Add(p.array()),
			"Refs", pdfgen.Array{doc.Add(pdfgen.Array{p.any(), doc.Add(pdfgen.Array{p.any()})}), doc.Add(p.any()), inner})))
		doc.SetKey(pg, "VerifStm", doc.Add(&pdfgen.Stream{
			Dict:    pdfgen.D("Note", p.any(), "List", p.array(), "ListRef", doc.Add(p.array()), "Sub", pdfgen.D("CheckSum", p.any())),
			Data:    []byte("private bytes " + p.marker() + " end"),
			Filters: pickFilters(rng, pol)}))
	}
	// (b) annotation: /T, private direct and indirect arrays
	if n := secretObj(truth, pdfgen.SecretAnnot); n != 0 {
		doc.SetKey(n, "T", p.text())
		doc.SetKey(n, "VerifPrivate", doc.Add(p.array()))
		doc.SetKey(n, "VerifPrivD", p.array())
	}
	// (c) text field: /TU /TM; choice fields: /Opt direct and indirect (plain and [export display] members), /V /DV /TU
	if n := secretObj(truth, pdfgen.SecretFieldV); n != 0 {
		doc.SetKey(n, "TU", p.text())
		doc.SetKey(n, "TM", p.text())
	}
	catDict, _ := doc.GetDict(truth.Objs.Catalog)
	if af, ok := catDict.Get("AcroForm"); ok {
		for k := 0; k < 2; k++ {
			pg := pages[rng.IntN(len(pages))]
			opts := pdfgen.Array{p.text(), pdfgen.Array{p.text(), p.text()}, p.text(), pdfgen.Array{p.text(), pdfgen.String("shown")}, pdfgen.String("")}
			var opt pdfgen.Object = opts
			if k == 0 {
				opt = doc.Add(opts)
			}
			w := pdfgen.D("Type", pdfgen.Name("Annot"), "Subtype", pdfgen.Name("Widget"), "FT", pdfgen.Name("Ch"),
				"T", pdfgen.String(fmt.Sprintf("verifchoice%d", k)), "TU", p.text(), "Rect", pdfgen.Rect(10, float64(10+30*k), 110, float64(30+30*k)),
				"P", pdfgen.Ref{Num: pg}, "F", pdfgen.Int(4), "DA", pdfgen.String("/Helv 0 Tf 0 g"), "Opt", opt, "V", opts[0], "DV", opts[2])
			if k == 1 { // multi-select list box: /V is an array (here an indirect one)
				w = w.With("Ff", pdfgen.Int(1<<21)).With("V", doc.Add(pdfgen.Array{opts[0], opts[2]}))
			}
			wr := doc.Add(w)
			appendTo(doc, pg, "Annots", wr)
			switch a := af.(type) {
			case pdfgen.Ref:
				appendTo(doc, a.Num, "Fields", wr)
			case pdfgen.Dict:
				if f, ok := a.Get("Fields"); ok {
					if fa, ok := f.(pdfgen.Array); ok {
						a = a.With("Fields", append(fa[:len(fa):len(fa)], wr))
						doc.SetKey(truth.Objs.Catalog, "AcroForm", a)
						af = a
					}
				}
			}
		}
	}
	// (d) named destinations: an own /Dests name tree (keys literal and hex, values arrays and dictionaries)
	if truth.Objs.DestTreeRoot == 0 {
		var entries []pdfgen.NameTreeEntry
		for i := 0; i < 2+rng.IntN(6); i++ {
			pg := pages[rng.IntN(len(pages))]
			var val pdfgen.Object = pdfgen.Array{pdfgen.Ref{Num: pg}, pdfgen.Name("Fit")}
			if rng.IntN(2) == 0 {
				val = pdfgen.D("D", val)
			}
			entries = append(entries, pdfgen.NameTreeEntry{Key: []byte(p.marker()), Val: val})
		}
		root, nodes := pdfgen.BuildNameTree(doc, entries, 1+rng.IntN(4), func() bool { return rng.IntN(3) == 0 })
		truth.Objs.DestTreeRoot, truth.Objs.DestTreeNodes = root.Num, nodes
		catDict, _ = doc.GetDict(truth.Objs.Catalog)
		switch names, _ := catDict.Get("Names"); nv := names.(type) {
		case pdfgen.Ref:
			doc.SetKey(nv.Num, "Dests", root)
		case pdfgen.Dict:
			doc.SetKey(truth.Objs.Catalog, "Names", nv.With("Dests", root))
		default:
			doc.SetKey(truth.Objs.Catalog, "Names", pdfgen.D("Dests", root))
		}
	}
	// (e) embedded file: strings in the stream dictionary and in its /Params; /UF /Desc of the file specification
	if n := secretObj(truth, pdfgen.SecretFileData); n != 0 {
		if st, ok := doc.Get(n).(*pdfgen.Stream); ok {
			s := *st
			params := pdfgen.Dict{}
			if po, ok := s.Dict.Get("Params"); ok {
				if pd, ok := po.(pdfgen.Dict); ok {
					params = pd
				}
			}
			s.Dict = s.Dict.With("Params", params.With("CheckSum", p.any())).With("VerifNote", p.any()).With("VerifList", doc.Add(p.array()))
			doc.Replace(n, &s)
		}
	}
	if n := secretObj(truth, pdfgen.SecretFileName); n != 0 {
		doc.SetKey(n, "Desc", p.text())
	}
	// (f) info dictionary: UTF-16BE text string and hex string (custom keys)
	if n := truth.Objs.Info; n != 0 {
		doc.SetKey(n, "VerifU16", pdfgen.EncodeUTF16(p.marker()+" ž"))
		doc.SetKey(n, "VerifHex", pdfgen.HexString(p.marker()))
	}
	// (g) outline item: a private indirect array next to the /Title secret
	if n := secretObj(truth, pdfgen.SecretOutline); n != 0 {
		doc.SetKey(n, "VerifArr", doc.Add(p.array()))
	}
}

// plantUpdate appends an incremental update: a page-reachable object is superseded, a dictionary, an array and a
// stream are new, the page's indirect array is replaced.
func plantUpdate(doc *pdfgen.Doc, truth *pdfgen.Truth, rng *rand.Rand, pol pdfgen.FilterPolicy) {
	p := &planter{doc: doc, rng: rng}
	pg := truth.Objs.PageObjs[0]
	victim := doc.Add(pdfgen.D("Private", p.lit()))
	doc.SetKey(pg, "VerifUpd", victim)
	var oldArr pdfgen.Ref
	if d, ok := doc.GetDict(pg); ok {
		if o, ok := d.Get("VerifArr"); ok {
			oldArr, _ = o.(pdfgen.Ref)
		}
	}
	doc.AppendUpdate(nil)
	nref, aref, sref := doc.Alloc(), doc.Alloc(), doc.Alloc()
	doc.Put(nref, pdfgen.D("Note", p.any(), "List", pdfgen.Array{p.any()}))
	doc.Put(aref, p.array())
	doc.Put(sref, &pdfgen.Stream{Dict: pdfgen.D("Note", p.any()), Data: []byte("update stream " + p.marker()), Filters: pickFilters(rng, pol)})
	doc.Put(victim, pdfgen.D("Private", pdfgen.D("New", nref, "Arr", aref, "Stm", sref, "Text", p.any())))
	if oldArr.Num != 0 {
		doc.Put(oldArr, p.array())
	}
}

var genLayouts = []struct {
	Name   string
	XRef   pdfgen.XRefKind
	ObjStm bool
}{
	{"xreftable", pdfgen.XRefTable, false},
	{"xrefstream", pdfgen.XRefStream, false},
	{"xrefstream+objstm", pdfgen.XRefStream, true},
	{"hybrid+objstm", pdfgen.XRefHybrid, true},
	{"xrefstream+objstm", pdfgen.XRefStream, true}, // the layout pdfcpu itself writes by default: twice as often
}

type genSource struct {
	Path    string
	Name    string
	Layout  string
	Planted []plantedString
}

func buildGenDoc(t *vk.T, i int, dir string) (*genSource, error) {
	rng := t.RNGi("gendoc", i)
	spec := pdfgen.RandomSpec(rng, 3)
	spec.Secrets, spec.Form, spec.Annotations, spec.Info = true, true, true, true
	spec.Signatures, spec.Updates = 0, 0
	spec.Inherit = false // pdfcpu's optimizer moves inherited /Resources into the page dictionaries (also without encryption)
	if spec.Outlines == 0 {
		spec.Outlines = 1 + rng.IntN(4)
	}
	if spec.RandomFiles == 0 {
		spec.RandomFiles = 1 + rng.IntN(2)
	}
	if i%2 == 0 {
		spec.Dests = 0 // plantHolders builds the /Dests tree
	} else if spec.Dests == 0 {
		spec.Dests = 2 + rng.IntN(4)
	}
	spec.Filters = []pdfgen.FilterPolicy{pdfgen.FiltersNone, pdfgen.FiltersFlate, pdfgen.FiltersCompat}[i%3]
	lay := genLayouts[i%len(genLayouts)]
	spec.Write.XRef, spec.Write.ObjStm = lay.XRef, lay.ObjStm
	update := (i/len(genLayouts))%2 == 1
	doc, truth := pdfgen.BuildDoc(spec)
	// pdfcpu's optimizer deliberately removes the catalog's /PieceInfo (also without encryption): the holders
	// pdfgen hangs there are planted on pages / annotations by plantHolders instead
	if cd, ok := doc.GetDict(truth.Objs.Catalog); ok && cd.Has("PieceInfo") {
		cd = cd.Clone()
		cd.Del("PieceInfo")
		doc.Replace(truth.Objs.Catalog, cd)
	}
	prng := t.RNGi("genplant", i)
	plantHolders(doc, truth, prng, spec.Filters)
	if update && len(truth.Objs.PageObjs) > 0 {
		plantUpdate(doc, truth, prng, spec.Filters)
	}
	opts := spec.Write
	mv := truth.MinVersion
	if mv < "1.7" {
		mv = "1.7"
	}
	opts.Version = pdfgen.FitVersion(opts, mv)
	out, err := pdfgen.Write(doc, opts)
	if err != nil {
		return nil, fmt.Errorf("pdfgen.Write gen doc %d: %v", i, err)
	}
	g := &genSource{Layout: lay.Name, Path: filepath.Join(dir, fmt.Sprintf("gensrc-%d.pdf", i))}
	if update {
		g.Layout += "+update"
	}
	g.Name = fmt.Sprintf("gen#%d(%s,pages=%d,filters=%d)", i, g.Layout, len(truth.Pages), spec.Filters)
	g.Planted = collectPlanted(doc, truth.Objs.Catalog, truth.Objs.Info)
	if err := os.WriteFile(g.Path, out.Bytes, 0o644); err != nil {
		return nil, err
	}
	return g, nil
}

func runGenDocs(t *vk.T) {
	rd := DocReader(pdfcpuReader{})
	dir := t.Scratch()
	n := t.Pick(15, 120)
	srcs := make([]*genSource, n)
	vk.Parallel(n, func(i int) {
		g, err := buildGenDoc(t, i, dir)
		if err != nil {
			t.Broken("%v", err)
		}
		srcs[i] = g
	})
	var paths []string
	for _, g := range srcs {
		paths = append(paths, g.Path)
	}
	docs := prepareDocsFrom(t, rd, dir, "gen_docs", paths, true, func(i int, _ string, d0, d1 Doc) *baseDoc {
		g := srcs[i]
		// demand only what the source as read AND pdfcpu's plain unencrypted rewrite show (anything else is a
		// generator/reader disagreement or an effect of rewriting, not of encryption); a document that loses
		// marker strings there is not used at all
		for k, d := range []Doc{d0, d1} {
			missing, _ := missingPlanted(g.Planted, d.Graph())
			for _, m := range missing {
				if m.Marker {
					t.Count([]string{"gen_docs_skipped_marker_not_in_source_as_read", "gen_docs_skipped_marker_lost_by_plain_rewrite"}[k], 1)
					if os.Getenv("VERIF_C22_DEBUG") != "" {
						fmt.Fprintf(os.Stderr, "gen doc %s step %d: marker string lost: %+v; bytes seen at %v\n", g.Name, k, m, graphStrings(d.Graph())[m.Hex])
					}
					return nil
				}
			}
			if len(missing) > 0 {
				if os.Getenv("VERIF_C22_DEBUG") != "" {
					for _, m := range missing {
						fmt.Fprintf(os.Stderr, "gen doc %s step %d: not demanded: %s %s\n", g.Name, k, m.Class, m.Path)
					}
				}
				t.Count([]string{"gen_planted_not_in_source_as_read", "gen_planted_lost_by_plain_rewrite"}[k], int64(len(missing)))
				gone := map[plantedString]bool{}
				for _, m := range missing {
					gone[m] = true
				}
				var keep []plantedString
				for _, p := range g.Planted {
					if !gone[p] {
						keep = append(keep, p)
					}
				}
				g.Planted = keep
			}
		}
		return &baseDoc{Name: g.Name, Planted: g.Planted, Layout: g.Layout}
	})
	for _, g := range srcs {
		defer os.Remove(g.Path)
	}
	t.Count("gen_docs_usable", int64(len(docs)))
	if len(docs) < n*3/4 {
		t.Broken("only %d of %d generated documents usable", len(docs), n)
	}
	var jobs []job
	for _, d := range docs {
		t.Count("gen_docs_layout/"+d.Layout, 1)
		t.Count("gen_planted_strings", int64(len(d.Planted)))
		for ai, a := range algos {
			for rep := 0; rep < t.Pick(1, 3); rep++ {
				jobs = append(jobs, job{d, a, pwClasses[(len(jobs)+ai)%len(pwClasses)], len(jobs)})
			}
		}
	}
	cr := &caseRunner{t: t, rd: rd, dir: dir, tag: "gen", rngName: "gencase", sampled: map[string]bool{}}
	vk.Parallel(len(jobs), func(ji int) { cr.run(jobs[ji]) })
	// coverage: holder classes confirmed in documents read from encrypted files, outside / inside object streams
	cov := map[string]string{}
	var in, out, classesIn, classesOut int64
	for c, v := range cr.planted.byClass {
		cov[c] = fmt.Sprintf("outside=%d inside=%d", v[0], v[1])
		out += v[0]
		in += v[1]
		if v[0] > 0 {
			classesOut++
		}
		if v[1] > 0 {
			classesIn++
		}
	}
	t.Count("gen_planted_checked_holder_outside_objstm", out)
	t.Count("gen_planted_checked_holder_inside_objstm", in)
	t.Count("gen_holder_classes_seen_outside_objstm", classesOut)
	t.Count("gen_holder_classes_seen_inside_objstm", classesIn)
	t.Extra("planted_holder_classes_in_encrypted_files", cov)
	if in == 0 || out == 0 {
		t.Broken("planted strings were seen only %s object streams of the encrypted files (outside=%d inside=%d)", map[bool]string{true: "outside", false: "inside"}[in == 0], out, in)
	}
}
