package main

import (
	"bytes"
	"fmt"
	"math/rand/v2"
	"sync/atomic"

	"github.com/pdfcpu/pdfcpu/pkg/pdfcpu"
	ref "verif/harness/internal/ref/iso32000sec"
	"verif/harness/internal/vk"
)

type rngReader struct{ r *rand.Rand }

func (d rngReader) Read(p []byte) (int, error) {
	for i := range p {
		p[i] = byte(d.r.Uint32())
	}
	return len(p), nil
}

func randBytes(r *rand.Rand, n int) []byte {
	b := make([]byte, n)
	for i := range b {
		b[i] = byte(r.Uint32())
	}
	return b
}

type primCfg struct {
	R      int
	AES    bool
	KeyLen int // bytes
}

// primConfigs: what the standard security handler defines. R2: RC4 with 5-byte keys;
// R3: RC4 5..16; R4: RC4 5..16 and AESV2 with 16; R5/R6: AESV3 with 32.
func primConfigs() []primCfg {
	var out []primCfg
	out = append(out, primCfg{2, false, 5})
	for _, r := range []int{3, 4} {
		for n := 5; n <= 16; n++ {
			out = append(out, primCfg{r, false, n})
		}
	}
	out = append(out, primCfg{4, true, 16}, primCfg{5, true, 32}, primCfg{6, true, 32})
	return out
}

type primCase struct {
	Fn  string `json:"fn"`
	R   int    `json:"r"`
	AES bool   `json:"aes"`
	Key string `json:"key_hex"`
	Obj int    `json:"obj"`
	Gen int    `json:"gen"`
	Len int    `json:"len"`
	Msg string `json:"msg"`
}

func lenClass(n int) string {
	switch {
	case n == 0:
		return "0"
	case n%16 == 0:
		return "k*16"
	case n < 16:
		return "<16"
	}
	return "other"
}

func cp(b []byte) []byte { return append([]byte(nil), b...) }

func call(f func() ([]byte, error)) (out []byte, err error) {
	defer func() {
		if r := recover(); r != nil {
			err = fmt.Errorf("panic: %v", r)
		}
	}()
	return f()
}

// checkPrim evaluates one (config, key, obj, gen, plaintext) point on all hooks.
func checkPrim(t *vk.T, c primCfg, key []byte, obj, gen int, plain []byte, rng *rand.Rand, reached *[8]int64) {
	viol := func(fn, what, msg string) {
		t.Violate(fmt.Sprintf("prim/%s/%s/R=%d/aes=%v/len=%s", fn, what, c.R, c.AES, lenClass(len(plain))),
			fmt.Sprintf("%s R=%d aes=%v keylen=%d obj=%d gen=%d len=%d: %s", fn, c.R, c.AES, len(key), obj, gen, len(plain), msg),
			primCase{fn, c.R, c.AES, fmt.Sprintf("%x", key), obj, gen, len(plain), msg})
	}
	refKey := ref.ObjectKey(key, obj, gen, c.AES, c.R)

	// object key derivation (Algorithm 1); R5/6 use the file key as is
	if c.R <= 4 {
		dk, err := pdfcpu.VerifDecryptKey(obj, gen, cp(key), c.AES)
		atomic.AddInt64(&reached[0], 1)
		if err != nil {
			viol("DecryptKey", "error", err.Error())
		} else if !bytes.Equal(dk, refKey) {
			viol("DecryptKey", "differs-from-algorithm-1", fmt.Sprintf("%x vs reference %x", dk, refKey))
		}
	}

	type pair struct {
		name     string
		enc, dec func(b []byte) ([]byte, error)
	}
	pairs := []pair{
		{"Bytes",
			func(b []byte) ([]byte, error) { return pdfcpu.VerifEncryptBytes(b, obj, gen, cp(key), c.AES, c.R) },
			func(b []byte) ([]byte, error) { return pdfcpu.VerifDecryptBytes(b, obj, gen, cp(key), c.AES, c.R) }},
		{"Stream",
			func(b []byte) ([]byte, error) { return pdfcpu.VerifEncryptStream(b, obj, gen, cp(key), c.AES, c.R) },
			func(b []byte) ([]byte, error) { return pdfcpu.VerifDecryptStream(b, obj, gen, cp(key), c.AES, c.R) }},
	}
	if c.AES {
		k := cp(refKey)
		pairs = append(pairs, pair{"AESBytes",
			func(b []byte) ([]byte, error) { return pdfcpu.VerifEncryptAESBytes(b, k) },
			func(b []byte) ([]byte, error) { return pdfcpu.VerifDecryptAESBytes(b, k) }})
	}
	for pi, p := range pairs {
		atomic.AddInt64(&reached[1+pi], 1)
		ct, err := call(func() ([]byte, error) { return p.enc(cp(plain)) })
		if err != nil {
			viol(p.name, "encrypt-error", err.Error())
			continue
		}
		back, err := call(func() ([]byte, error) { return p.dec(cp(ct)) })
		if err != nil {
			viol(p.name, "decrypt-error", err.Error())
			continue
		}
		if !bytes.Equal(back, plain) {
			viol(p.name, "roundtrip-differs", fmt.Sprintf("got %d bytes back", len(back)))
		}
		// cross-check with the reference
		if !c.AES {
			want, _ := ref.EncryptBytes(refKey, plain, false, nil)
			if !bytes.Equal(ct, want) {
				viol(p.name, "rc4-ciphertext-differs-from-reference", fmt.Sprintf("%x… vs %x…", head(ct), head(want)))
			}
			continue
		}
		if len(ct) != 16+(len(plain)/16+1)*16 {
			viol(p.name, "aes-ciphertext-length", fmt.Sprintf("%d bytes for %d plaintext bytes; IV + PKCS#7 padded blocks = %d", len(ct), len(plain), 16+(len(plain)/16+1)*16))
		}
		got, err := ref.DecryptBytes(refKey, ct, true)
		if err != nil {
			viol(p.name, "reference-cannot-decrypt", err.Error())
		} else if !bytes.Equal(got, plain) {
			viol(p.name, "reference-decrypts-differently", "")
		}
		rct, _ := ref.EncryptBytes(refKey, plain, true, rngReader{rng})
		back, err = call(func() ([]byte, error) { return p.dec(cp(rct)) })
		if err != nil {
			viol(p.name, "cannot-decrypt-reference-ciphertext", err.Error())
		} else if !bytes.Equal(back, plain) {
			viol(p.name, "decrypts-reference-ciphertext-differently", fmt.Sprintf("got %d bytes", len(back)))
		}
	}
}

func head(b []byte) []byte {
	if len(b) > 8 {
		return b[:8]
	}
	return b
}

func runPrimitives(t *vk.T) {
	cfgs := primConfigs()
	objs := []int{0, 1, 1 << 23, 1<<31 - 1}
	gens := []int{0, 1, 65535}
	nRandom := t.Pick(6, 60) // random lengths to 4 KiB per (config, obj, gen)
	var evals, nontrivial int64
	var reached [8]int64
	vk.Parallel(len(cfgs), func(ci int) {
		c := cfgs[ci]
		rng := t.RNGi("prims", ci)
		for _, obj := range objs {
			for _, gen := range gens {
				key := randBytes(rng, c.KeyLen)
				lens := make([]int, 0, 65+nRandom)
				for n := 0; n <= 64; n++ {
					lens = append(lens, n)
				}
				for i := 0; i < nRandom; i++ {
					lens = append(lens, 65+rng.IntN(4096-64))
				}
				for _, n := range lens {
					checkPrim(t, c, key, obj, gen, randBytes(rng, n), rng, &reached)
					atomic.AddInt64(&evals, 1)
					if n > 0 {
						atomic.AddInt64(&nontrivial, 1)
					}
				}
			}
		}
	})
	t.EvalBulk(evals, nontrivial)
	t.Count("prim_points", evals)
	t.Count("prim_configs", int64(len(cfgs)))
	for i, n := range []string{"hook_DecryptKey", "hook_Encrypt/DecryptBytes", "hook_Encrypt/DecryptStream", "hook_Encrypt/DecryptAESBytes"} {
		t.Count(n, reached[i])
	}
	t.Sample(map[string]any{"prim_configs": cfgs[:3], "objs": objs, "gens": gens, "lengths": "0..64 exhaustively + random to 4096"})
}
