// C22 — encrypting and then decrypting a document changes nothing.
// (i) corpus documents x {RC4-40, RC4-128, AES-128, AES-256} x password classes x random permission
// sets: EncryptFile -> open with user pw / owner pw -> DecryptFile with either pw -> compare with the
// unencrypted document (same pdfcpu pipeline without encryption); reported permissions = requested.
// (ii) cipher primitives through the verif hooks: round trip + cross-check with ref/iso32000sec.
package main

import (
	"bytes"
	"errors"
	"fmt"
	"math/rand/v2"
	"os"
	"path/filepath"
	"regexp"
	"sort"
	"strings"
	"sync"

	"github.com/pdfcpu/pdfcpu/pkg/api"
	"github.com/pdfcpu/pdfcpu/pkg/pdfcpu"
	"github.com/pdfcpu/pdfcpu/pkg/pdfcpu/model"
	"verif/harness/internal/vk"
)

type algo struct {
	Name   string
	AES    bool
	KeyLen int
}

var algos = []algo{{"RC4-40", false, 40}, {"RC4-128", false, 128}, {"AES-128", true, 128}, {"AES-256", true, 256}}

func (a algo) conf(upw, opw string) *model.Configuration {
	var c *model.Configuration
	if a.AES {
		c = model.NewAESConfiguration(upw, opw, a.KeyLen)
	} else {
		c = model.NewRC4Configuration(upw, opw, a.KeyLen)
	}
	c.Offline = true
	return c
}

const alnum = "abcdefghijklmnopqrstuvwxyzABCDEFGHIJKLMNOPQRSTUVWXYZ0123456789"

func randAlnum(r *rand.Rand, n int) string {
	b := make([]byte, n)
	for i := range b {
		b[i] = alnum[r.IntN(len(alnum))]
	}
	return string(b)
}

func pick(r *rand.Rand, ss ...string) string { return ss[r.IntN(len(ss))] }

type pwClass struct {
	Name string
	Gen  func(r *rand.Rand) (upw, opw string)
}

var pwClasses = []pwClass{
	{"empty-user", func(r *rand.Rand) (string, string) { return "", randAlnum(r, 1+r.IntN(12)) }},
	{"ascii-alnum", func(r *rand.Rand) (string, string) { return randAlnum(r, 1+r.IntN(12)), randAlnum(r, 1+r.IntN(12)) }},
	{"ascii-punct", func(r *rand.Rand) (string, string) {
		return randAlnum(r, 3) + pick(r, "!", "#", "$", "%", "-", "_", "+", "(", "\\", "/") + randAlnum(r, 2), pick(r, "~", "*", "@") + randAlnum(r, 4)
	}},
	{"ascii-space", func(r *rand.Rand) (string, string) {
		return randAlnum(r, 3) + " " + randAlnum(r, 3), "own er" + randAlnum(r, 2)
	}},
	{"latin1-letters", func(r *rand.Rand) (string, string) {
		return pick(r, "pässwörd", "señor", "Ångström", "crème") + randAlnum(r, 2), pick(r, "maître", "façade", "Übung") + randAlnum(r, 2)
	}},
	{"latin1-symbols", func(r *rand.Rand) (string, string) {
		return randAlnum(r, 2) + pick(r, "£", "§", "©", "¿", "±", "¤") + randAlnum(r, 2), pick(r, "«o»", "µm", "1½") + randAlnum(r, 2)
	}},
	{"unicode-nfkc-compat", func(r *rand.Rand) (string, string) {
		return pick(r, "ﬁsh", "Ⅸlives", "ªb", "Ａbc", "①st") + randAlnum(r, 2), pick(r, "ﬂow", "㎏x", "ǅa") + randAlnum(r, 2)
	}},
	{"unicode-decomposed", func(r *rand.Rand) (string, string) {
		return pick(r, "café", "Ångstrom", "ño") + randAlnum(r, 2), "über" + randAlnum(r, 2)
	}},
	{"unicode-nonlatin", func(r *rand.Rand) (string, string) {
		return pick(r, "日本語", "пароль", "κωδικός") + randAlnum(r, 2), pick(r, "密码", "слово") + randAlnum(r, 2)
	}},
	{"long-33-127", func(r *rand.Rand) (string, string) { return randAlnum(r, 33+r.IntN(95)), randAlnum(r, 33+r.IntN(95)) }},
	{"user=owner", func(r *rand.Rand) (string, string) { s := randAlnum(r, 1+r.IntN(12)); return s, s }},
}

func errClass(err error) string {
	if err == nil {
		return "nil"
	}
	switch {
	case errors.Is(err, pdfcpu.ErrWrongPassword):
		return "ErrWrongPassword"
	case errors.Is(err, pdfcpu.ErrPermissionDenied):
		return "ErrPermissionDenied"
	case errors.Is(err, pdfcpu.ErrOwnerPasswordRequired):
		return "ErrOwnerPasswordRequired"
	case errors.Is(err, pdfcpu.ErrUnsupportedEncryptionFeature):
		return "ErrUnsupportedEncryptionFeature"
	case errors.Is(err, pdfcpu.ErrMalformedEncryption):
		return "ErrMalformedEncryption"
	}
	s := err.Error()
	for _, m := range []string{"precis: disallowed rune", "bidirule: failed Bidi Rule", "panic"} {
		if strings.Contains(s, m) {
			return strings.NewReplacer(" ", "-", ":", "").Replace(m)
		}
	}
	s = regexp.MustCompile(`[0-9]+`).ReplaceAllString(s, "N")
	if i := strings.LastIndex(s, ": "); i >= 0 {
		s = s[i+2:]
	}
	if len(s) > 50 {
		s = s[:50]
	}
	return strings.ReplaceAll(s, " ", "-")
}

func safely(f func() error) (err error) {
	defer func() {
		if r := recover(); r != nil {
			err = fmt.Errorf("panic: %v", r)
		}
	}()
	return f()
}

// frozenDoc is a snapshot of a Doc that is safe to share between goroutines.
type frozenDoc struct {
	pages [][]byte
	errs  []error
	info  map[string]string
	g     *Graph
}

func freeze(d Doc) *frozenDoc {
	f := &frozenDoc{info: d.InfoStrings(), g: d.Graph().normalized()}
	for p := 1; p <= d.PageCount(); p++ {
		b, err := d.PageContent(p)
		f.pages = append(f.pages, b)
		f.errs = append(f.errs, err)
	}
	return f
}

func (f *frozenDoc) PageCount() int                    { return len(f.pages) }
func (f *frozenDoc) PageContent(p int) ([]byte, error) { return f.pages[p-1], f.errs[p-1] }
func (f *frozenDoc) InfoStrings() map[string]string    { return f.info }
func (f *frozenDoc) Graph() *Graph                     { return f.g }

type baseDoc struct {
	Path  string
	Name  string
	PDF20 bool
	Base  Doc // unencrypted document after the same pipeline (optimize + write)
	// generated documents (gendocs.go): what was planted where; nil for corpus documents
	Planted []plantedString
	Layout  string
}

type docCase struct {
	Doc   string `json:"doc"`
	Alg   string `json:"alg"`
	PW    string `json:"pw_class"`
	UserQ string `json:"user_pw_quoted"`
	OwnQ  string `json:"owner_pw_quoted"`
	Perm  string `json:"permissions_hex"`
	Msg   string `json:"msg,omitempty"`
}

func candidateDocs(t *vk.T) []string {
	root := filepath.Join(vk.RepoDir(), "pkg", "testdata")
	var out []string
	for _, g := range []string{"*.pdf", "pdf20/*.pdf"} {
		m, _ := filepath.Glob(filepath.Join(root, g))
		for _, f := range m {
			if st, err := os.Stat(f); err == nil && st.Size() <= 150_000 {
				out = append(out, f)
			}
		}
	}
	sort.Strings(out)
	return out
}

// resDicts: also prune unused resources from resource dictionaries (what the optimize command does by default;
// the encrypt/decrypt commands never do).
func optimizeFile(in, out string, resDicts bool) error {
	return safely(func() error {
		c := model.NewDefaultConfiguration()
		c.Offline = true
		c.OptimizeResourceDicts = resDicts
		return api.OptimizeFile(in, out, c)
	})
}

// prepareDocs validates the candidates and builds the unencrypted baselines.
func prepareDocs(t *vk.T, rd DocReader, dir string) []*baseDoc {
	cands := candidateDocs(t)
	return prepareDocsFrom(t, rd, dir, "docs", cands, false, func(i int, p string, d0, d1 Doc) *baseDoc {
		return &baseDoc{Name: strings.TrimPrefix(p, filepath.Join(vk.RepoDir(), "pkg", "testdata")+"/")}
	})
}

// prepareDocsFrom: mk names the document (and may attach what it knows about it) given the source as read.
// baseIsRewrite: the reference is pdfcpu's plain (unencrypted) rewrite of the source instead of the source as
// read, and the source need not survive that rewrite unchanged (generated documents: the optimizer prunes
// unused resources etc.; what must survive is known from the generator and checked by mk).
func prepareDocsFrom(t *vk.T, rd DocReader, dir, tag string, cands []string, baseIsRewrite bool, mk func(i int, path string, d0, d1 Doc) *baseDoc) []*baseDoc {
	res := make([]*baseDoc, len(cands))
	dbg := func(i int, why string, a ...any) {
		if os.Getenv("VERIF_C22_DEBUG") != "" {
			fmt.Fprintf(os.Stderr, "prepare %s #%d %s: %s\n", tag, i, cands[i], fmt.Sprintf(why, a...))
		}
	}
	vk.Parallel(len(cands), func(i int) {
		p := cands[i]
		raw, err := os.ReadFile(p)
		if err != nil {
			return
		}
		c := model.NewDefaultConfiguration()
		c.Offline = true
		if err := safely(func() error { return api.ValidateFile(p, c) }); err != nil {
			dbg(i, "invalid: %v", err)
			t.Count(tag+"_skipped_invalid", 1)
			return
		}
		if bytes.Contains(raw, []byte("/Encrypt")) {
			t.Count(tag+"_skipped_encrypted", 1)
			return
		}
		// The reference is the original as pdfcpu reads it. Only documents that pdfcpu's plain
		// (unencrypted) read-optimize-write pipeline leaves equivalent are used, so that any
		// difference seen after encryption is due to encryption.
		b1 := filepath.Join(dir, fmt.Sprintf("base1-%s-%d.pdf", tag, i))
		if err := optimizeFile(p, b1, !baseIsRewrite); err != nil {
			dbg(i, "optimize: %v", err)
			t.Count(tag+"_skipped_optimize_fails", 1)
			return
		}
		d0, err0 := rd.Open(p, "", "")
		d1, err1 := rd.Open(b1, "", "")
		os.Remove(b1)
		if err0 != nil || err1 != nil {
			dbg(i, "unreadable: %v / %v", err0, err1)
			t.Count(tag+"_skipped_baseline_unreadable", 1)
			return
		}
		if cls, det := diffDocs(d0, d1); cls != "" {
			dbg(i, "changed by plain rewrite: %s: %s", cls, det)
			if !baseIsRewrite {
				t.Count(tag+"_skipped_changed_by_plain_rewrite", 1)
				return
			}
			t.Count(tag+"_changed_by_plain_rewrite", 1)
		}
		v20 := false
		if v, ok := d0.(interface{ PDF20() bool }); ok {
			v20 = v.PDF20()
		}
		bd := mk(i, p, d0, d1)
		if bd == nil {
			return
		}
		bd.Path, bd.PDF20, bd.Base = p, v20, freeze(d0)
		if baseIsRewrite {
			bd.Base = freeze(d1)
		}
		res[i] = bd
	})
	var out []*baseDoc
	for _, d := range res {
		if d != nil {
			out = append(out, d)
		}
	}
	return out
}

func (cr *caseRunner) casesCounter() string {
	if cr.tag == "doc" {
		return "cases/"
	}
	return cr.tag + "_cases/"
}

func randPerm(r *rand.Rand) model.PermissionFlags {
	// the user-access bits 3,4,5,6,9,10,11,12 on top of PermissionsNone (as the CLI composes them)
	p := model.PermissionsNone
	for _, b := range []model.PermissionFlags{model.PermissionPrintRev2, model.PermissionModify, model.PermissionExtract, model.PermissionModAnnFillForm,
		model.PermissionFillRev3, model.PermissionExtractRev3, model.PermissionAssembleRev3, model.PermissionPrintRev3} {
		if r.IntN(2) == 0 {
			p |= b
		}
	}
	return p
}

func runDocs(t *vk.T) {
	rd := DocReader(pdfcpuReader{})
	dir := t.Scratch()
	docs := prepareDocs(t, rd, dir)
	if len(docs) < 3 {
		t.Broken("only %d usable corpus documents", len(docs))
	}
	t.Count("docs_usable", int64(len(docs)))
	// quick: a seed-rotated subset that always contains a PDF 1.x and a PDF 2.0 document
	var sel []*baseDoc
	if t.Quick() {
		rng := t.RNG("docsel")
		perm := rng.Perm(len(docs))
		var have20, have1 bool
		for _, i := range perm {
			d := docs[i]
			if len(sel) < 5 || (d.PDF20 && !have20) || (!d.PDF20 && !have1) {
				sel = append(sel, d)
				have20 = have20 || d.PDF20
				have1 = have1 || !d.PDF20
			}
		}
	} else {
		sel = docs
	}
	var jobs []job
	for rep := 0; rep < t.Pick(1, 4); rep++ { // thorough: several random members of every class
		for _, d := range sel {
			for _, a := range algos {
				for _, pc := range pwClasses {
					jobs = append(jobs, job{d, a, pc, len(jobs)})
				}
			}
		}
	}
	cr := &caseRunner{t: t, rd: rd, dir: dir, tag: "doc", rngName: "doccase", sampled: map[string]bool{}}
	vk.Parallel(len(jobs), func(ji int) { cr.run(jobs[ji]) })
	names := []string{}
	for _, d := range sel {
		names = append(names, d.Name)
	}
	t.Extra("documents", names)
}

type job struct {
	d  *baseDoc
	a  algo
	pc pwClass
	i  int
}

// caseRunner drives one (document, algorithm, password class) case: encrypt, open with either password,
// permissions, decrypt with either password; tag "doc" = corpus documents, "gen" = generated documents.
type caseRunner struct {
	t       *vk.T
	rd      DocReader
	dir     string
	tag     string
	rngName string
	mu      sync.Mutex
	sampled map[string]bool
	planted plantedStats
}

func (cr *caseRunner) run(j job) {
	t, rd, dir, ji := cr.t, cr.rd, cr.dir, j.i
	rng := t.RNGi(cr.rngName, ji)
	upw, opw := j.pc.Gen(rng)
	perm := randPerm(rng)
	dc := docCase{Doc: j.d.Name, Alg: j.a.Name, PW: j.pc.Name, UserQ: fmt.Sprintf("%+q", upw), OwnQ: fmt.Sprintf("%+q", opw), Perm: fmt.Sprintf("%04X", uint16(perm))}
	failed := false
	viol := func(what, msg string) {
		if failed {
			return // only the first failing step of a case is reported: later steps depend on it
		}
		failed = true
		c := dc
		c.Msg = msg
		t.Violate(fmt.Sprintf("%s/alg=%s/pw=%s/%s", cr.tag, j.a.Name, j.pc.Name, what),
			fmt.Sprintf("%s %s upw=%+q opw=%+q perm=%04X: %s: %s", j.d.Name, j.a.Name, upw, opw, uint16(perm), what, msg), c)
	}
	enc := filepath.Join(dir, fmt.Sprintf("enc-%s-%d.pdf", cr.tag, ji))
	defer os.Remove(enc)
	conf := j.a.conf(upw, opw)
	conf.Permissions = perm
	err := safely(func() error { return api.EncryptFile(j.d.Path, enc, conf) })
	if j.d.PDF20 && j.a.KeyLen != 256 {
		// documented: PDF 2.0 requires AES-256
		if err == nil {
			viol("pdf20-non-aes256-accepted", "EncryptFile succeeded although pdfcpu documents that PDF 2.0 requires AES-256")
		}
		t.Count("cases_pdf20_alg_refused_as_documented", 1)
		t.Eval("")
		return
	}
	t.Eval(fmt.Sprintf("%s|%s|%s|%s|%s|%04X", j.d.Name, j.a.Name, j.pc.Name, upw, opw, uint16(perm)))
	t.Count(cr.casesCounter()+j.a.Name, 1)
	cr.mu.Lock()
	if k := j.a.Name + j.pc.Name; !cr.sampled[k] && len(cr.sampled) < 8 && ji%7 == 0 {
		cr.sampled[k] = true
		t.Sample(dc)
	}
	cr.mu.Unlock()
	if err != nil {
		viol("encrypt:error="+errClass(err), err.Error())
		return
	}
	raw, _ := os.ReadFile(enc)
	if !bytes.Contains(raw, []byte("/Encrypt")) {
		viol("output-not-encrypted", "no /Encrypt in the output of EncryptFile")
		return
	}
	// open with either password
	for _, who := range []struct{ name, u, o string }{{"user", upw, ""}, {"owner", "", opw}} {
		d, err := rd.Open(enc, who.u, who.o)
		if err != nil {
			viol("open-"+who.name+":error="+errClass(err), err.Error())
			continue
		}
		// generated documents: the ground truth first (its keys name the holder class, not a route through the graph)
		if cls, det := cr.planted.check(j.d, d, true); cls != "" {
			viol("open-"+who.name+":"+cls, det)
		}
		if cls, det := diffDocs(j.d.Base, d); cls != "" {
			viol("open-"+who.name+":differs:"+cls, det)
		}
		t.Count("opens_ok", 1)
	}
	// reported permissions
	pc := j.a.conf(upw, opw)
	var got *int16
	err = safely(func() error { var e error; got, e = api.GetPermissionsFile(enc, pc); return e })
	switch {
	case err != nil:
		viol("get-permissions:error="+errClass(err), err.Error())
	case got == nil:
		viol("get-permissions:nil", "GetPermissionsFile reports no permissions for an encrypted file")
	case uint16(*got) != uint16(perm):
		viol("get-permissions:mismatch", fmt.Sprintf("requested %04X reported %04X", uint16(perm), uint16(*got)))
	default:
		t.Count("permissions_match", 1)
	}
	var p2 int
	err = safely(func() error {
		f, e := os.Open(enc)
		if e != nil {
			return e
		}
		defer f.Close()
		p2, e = api.Permissions(f, j.a.conf(upw, opw))
		return e
	})
	if err != nil {
		viol("list-permissions:error="+errClass(err), err.Error())
	} else if uint16(p2) != uint16(perm) {
		viol("list-permissions:mismatch", fmt.Sprintf("requested %04X reported %04X", uint16(perm), uint16(p2)))
	}
	// decrypt with either password
	for _, who := range []struct{ name, u, o string }{{"user", upw, ""}, {"owner", "", opw}} {
		dec := filepath.Join(dir, fmt.Sprintf("dec-%s-%d-%s.pdf", cr.tag, ji, who.name))
		err := safely(func() error { return api.DecryptFile(enc, dec, j.a.conf(who.u, who.o)) })
		if err != nil {
			viol("decrypt-with-"+who.name+":error="+errClass(err), err.Error())
			continue
		}
		draw, _ := os.ReadFile(dec)
		if bytes.Contains(draw, []byte("/Encrypt")) {
			viol("decrypt-with-"+who.name+":still-encrypted", "/Encrypt present after DecryptFile")
		}
		d, err := rd.Open(dec, "", "")
		os.Remove(dec)
		if err != nil {
			viol("decrypted-unreadable:error="+errClass(err), err.Error())
			continue
		}
		if cls, det := cr.planted.check(j.d, d, false); cls != "" {
			viol("decrypt-with-"+who.name+":"+cls, det)
		}
		if cls, det := diffDocs(j.d.Base, d); cls != "" {
			viol("decrypt-with-"+who.name+":differs:"+cls, det)
		}
		t.Count("decrypts_ok", 1)
	}
}

func main() {
	vk.Run("C22", "exploration", func(t *vk.T) {
		api.DisableConfigDir()
		t.Rule("(i) corpus documents (<=150 KB, valid, unencrypted, unchanged by pdfcpu's plain optimize+write) x 4 algorithms x 11 password classes (random members) x random permission sets; non-trivial = distinct (doc, alg, passwords, permissions); (i') generated documents (15 quick / 120 thorough; known strings in direct/indirect strings, direct/indirect/nested arrays, dicts in arrays, stream dicts, hex and literal, on pages, annotations, choice fields /Opt /V /DV /TU, name trees, outlines, Info; source layouts xref table, xref stream, xref stream + object streams, hybrid, each also with an incremental update) x 4 algorithms x rotating password class: same pipeline, compared through the canonical graph AND by the planted ground truth; (ii) primitives: every standard (R, cipher, key length) x obj {0,1,2^23,2^31-1} x gen {0,1,65535} x all lengths 0..64 + random lengths to 4 KiB, non-trivial = non-empty plaintext")
		t.Assume("document equivalence is judged with pdfcpu's own reader (behind the Doc/DocReader interface): page count, decoded page content, Info strings, canonical object graph from Root/Info ignoring /ID, /Encrypt, /Length, /Filter, /DecodeParms, Producer/ModDate/CreationDate; the reference is the original document as read; only documents that a plain unencrypted rewrite (api.OptimizeFile) leaves equivalent are used")
		t.Assume("PDF 2.0 documents are only encrypted with AES-256 (pdfcpu documents that PDF 2.0 requires AES-256); owner passwords are non-empty (pdfcpu documents that encryption needs an owner password)")
		t.Assume("AESV2 is exercised with 128-bit keys only, RC4 with 40..128 bit, AESV3 with 256 bit (what ISO 32000 defines); R5/R6 with RC4 is not a defined combination and is not driven")
		t.Assume("generated documents (pdfgen): the ground truth is the generator's own object model; a planted string's place is its path (/Key, [i]) inside its indirect object; the reference graph is pdfcpu's plain unencrypted rewrite (optimize without resource-dictionary pruning, which encrypt/decrypt never do); a string is demanded only if the source as read and that rewrite show it (on the unchanged tree only Info /Producer /CreationDate /ModDate, which the writer sets, are not); name-tree keys may sit in any /Names array (pdfcpu lays name trees out anew), /Limits strings are not demanded; the catalog's /PieceInfo (deleted by pdfcpu's optimizer) and inherited page attributes are not generated")
		runPrimitives(t)
		runDocs(t)
		runGenDocs(t)
	})
}
