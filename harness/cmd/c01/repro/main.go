//go:build verifshadow

// repro: the two pkg/cli defects C01 finds in the CLI stream path, each as one injected fault.
//
//	cd /verif/harness && . /verif/env.sh && GOROOT=$SHADOW_GOROOT $SHADOW_GOROOT/bin/go run -tags "verif verifshadow" ./cmd/c01/repro
//
//  1. `pdfcpu optimize - out.pdf` (out.pdf exists): a plain panic inside api.Optimize (injected at the first
//     read of the spooled stdin copy) unwinds through `finalize(api.Optimize(rs, w, conf))`: finalize never
//     runs, Dispatch turns the panic into an error, and .out.pdf.tmp-* (and tmp/pdfcpu-stdin-*.pdf) stay.
//  2. `pdfcpu import out.pdf - img2.jpg` (out.pdf exists, image on stdin): a plain panic inside
//     api.ImportImages reaches importImagesToFile's deferred finalizer with err == nil: the partially
//     written staging file is renamed over out.pdf.
package main

import (
	"fmt"
	"os"
	"path/filepath"

	"github.com/pdfcpu/pdfcpu/pkg/api"
	"verif/harness/internal/cliprop"
	"verif/harness/internal/fileprop"
	"verif/harness/internal/fsx"
	"verif/harness/internal/opcat"
	"verif/harness/internal/osmon"
	"verif/harness/internal/vk"
)

func main() {
	api.DisableConfigDir()
	base, err := os.MkdirTemp(os.Getenv("VERIF_CACHE")+"/run", "c01repro-")
	if err != nil {
		panic(err)
	}
	defer os.RemoveAll(base)
	fx := filepath.Join(base, "fx")
	os.MkdirAll(fx, 0o755)
	if err := opcat.Prepare(vk.RepoDir(), fx); err != nil {
		panic(err)
	}
	for _, cs := range []struct{ op, sc, at string }{
		{"cli:optimize", "stdin-file/existing-0644", "read"},
		{"cli:import/stdin-image", "stdin-file/existing-0644", "write"},
	} {
		it, ok := cliprop.Find(cs.op, fileprop.Scenario(cs.sc))
		if !ok {
			panic("no such item " + cs.op)
		}
		root := filepath.Join(base, "sb")
		c, err := cliprop.Build(fx, root, it)
		if err != nil {
			panic(err)
		}
		// the first read / write after the output has been staged (call 9 onwards)
		m := &osmon.Mon{Scope: root, Faults: []*osmon.Fault{{At: 9, Kind: osmon.PanicPlain, OnlyOp: cs.at}}}
		var rerr error
		m.Run(func() { rerr, _ = c.Run() })
		after, _ := fsx.Snapshot(root, false)
		fmt.Printf("%s %s: injected %v; returned error: %v\n", cs.op, cs.sc, m.Fired(), rerr)
		for _, ch := range fsx.Diff(c.Pristine, after) {
			fmt.Println("   tree change:", ch)
		}
	}
}
