//go:build verifshadow

// C01 — a failed or aborted operation never damages or leaves behind files.
// Fault enumeration: for every catalogued file operation × path scenario, a fault-free traced
// run yields the ordered filesystem calls c1..cM (package-os interposer); then the operation is
// re-run once per (k, fault kind) with exactly that fault injected at call k, and the sandbox tree
// (names, bytes, mode bits) is compared with the pristine tree.
package main

import (
	"errors"
	"fmt"
	"os"
	"path/filepath"
	"sort"
	"strings"
	"syscall"

	"github.com/pdfcpu/pdfcpu/pkg/api"
	"github.com/pdfcpu/pdfcpu/pkg/pdfcpu/fault"
	"verif/harness/internal/cliprop"
	"verif/harness/internal/fileprop"
	"verif/harness/internal/fsx"
	"verif/harness/internal/opcat"
	"verif/harness/internal/osmon"
	"verif/harness/internal/vk"
)

type item struct {
	op  opcat.Op
	sc  fileprop.Scenario
	cli *cliprop.Item // set for the pkg/cli command forms (op, sc are then derived from it)
}

func scGroup(sc fileprop.Scenario) string {
	if s := string(sc); strings.Contains(s, "/") || strings.HasPrefix(s, "stdin-") || strings.HasPrefix(s, "file-") {
		// pkg/cli scenarios "<shape>[/<destination kind>]": the mode variants of an existing destination share one key
		if i := strings.Index(s, "/existing-"); i >= 0 {
			return s[:i] + "/existing"
		}
		return s
	}
	switch sc {
	case fileprop.InPlace:
		return "inplace"
	case fileprop.NewOut:
		return "new"
	case fileprop.OutDirMissing:
		return "outdir-missing"
	case fileprop.DirEmpty:
		return "dir-empty"
	case fileprop.DirExisting:
		return "dir-existing"
	}
	return "existing"
}

type faultSpec struct {
	k    int64
	kind string // errno | short | panic | faultpanic
}

func panicAllowedAt(op string) bool {
	// A panic raised from a read of an input or a write of an output stands for a panic anywhere in
	// pdfcpu's own parsing / processing / serialising code that runs between those calls (the
	// realistic origin of panics). Metadata calls (open, stat, mkdir, chmod, close, rename, remove)
	// are steps of the staging protocol itself: a panic inside them is not modelled.
	switch op {
	case "read", "readat", "write", "writeat":
		return true
	}
	return false
}

var dataOps = map[string]bool{"read": true, "readat": true, "write": true, "writeat": true}

// bareCopy: operations whose data path is io.Copy between two *os.File: there is no pdfcpu code between
// a read and a write that could panic, so the panic model does not apply.
func bareCopy(op string) bool { return strings.HasPrefix(op, "pdfcpu.CopyFile") }

func mkFault(fs faultSpec) *osmon.Fault {
	switch fs.kind {
	case "errno":
		return &osmon.Fault{At: fs.k, Kind: osmon.Errno, Errno: syscall.EIO}
	case "short":
		return &osmon.Fault{At: fs.k, Kind: osmon.ShortWrite}
	case "panic":
		return &osmon.Fault{At: fs.k, Kind: osmon.PanicPlain, OnlyOps: dataOps}
	case "faultpanic":
		return &osmon.Fault{At: fs.k, Kind: osmon.PanicValue, Value: fault.Panic{Err: errors.New("verif: injected fault.Panic")}, OnlyOps: dataOps}
	}
	panic("bad kind")
}

type replay struct {
	Op       string   `json:"op"`
	Scenario string   `json:"scenario"`
	Fault    string   `json:"fault"`
	K        int64    `json:"k"`
	Call     string   `json:"faulted_call"`
	Err      string   `json:"returned_error"`
	Panic    string   `json:"panic"`
	Changes  []string `json:"tree_changes"`
}

func main() {
	vk.Run("C01", "fault_enumeration", func(t *vk.T) {
		api.DisableConfigDir()
		if !t.IsShard() {
			parent(t)
			return
		}
		shard(t)
	})
}

// cliItems: the pkg/cli command forms, driven in-process (internal/cliprop): "cmd - out" onto a new file,
// an existing file (0600/0644/0664), a symlink to a regular file, a hard-linked file, the stdin source
// itself, a missing directory; "cmd in -" and "cmd - -" (no output file: inputs and $TMPDIR only);
// "cmd - outDir"; "cmd -" listings; and the plain file forms of a representative subset.
// quick: per form 2 of the "cmd - out" destination kinds, 1 directory form, 1 plain file form, and for every
// other form 1 stdout form (rotating with the seed, so every kind is reached by many forms); thorough: all.
func cliItems(t *vk.T) []item {
	all := cliprop.All()
	if t.Quick() {
		off := t.RNG("cli-rotation").IntN(840)
		all = cliprop.Sample(all, off, func(class string, formIndex int) int {
			switch class {
			case string(cliprop.StdinFile):
				return 2
			case "stdout": // no output file is involved: every other form
				if (formIndex+off)%2 != 0 {
					return 0
				}
			}
			return 1
		})
	}
	var its []item
	for i := range all {
		it := all[i]
		its = append(its, item{op: opcat.Op{Name: it.OpName()}, sc: it.Scenario(), cli: &it})
	}
	return its
}

func items(t *vk.T) []item {
	var its []item
	for _, op := range opcat.All() {
		for _, sc := range fileprop.Scenarios(op) {
			its = append(its, item{op: op, sc: sc})
		}
	}
	return append(its, cliItems(t)...)
}

func parent(t *vk.T) {
	t.Rule("case = (operation, path scenario, fault kind, index k of the faulted filesystem call); every case re-runs the real API call with one injected fault (EIO at call k; short write+ENOSPC; plain panic; fault.Panic) and compares the sandbox tree with the pristine tree; non-trivial = the fault was actually reached and the operation failed or panicked; distinct by (op, scenario, kind, k). Operations: the pkg/api + pkg/pdfcpu catalogue, and the pkg/cli command forms built as cmd/pdfcpu builds them (cli.XCommand, cli.Dispatch, which turns a panic into an error) and run in-process with os.Stdin / os.Stdout pointed at sandbox files and $TMPDIR inside the sandbox, so that reads of stdin, the spooled copy of stdin, writes to stdout and the CLI's own output staging are fault points")
	t.Assume("single faults only; faults are injected at package-os calls on paths under the sandbox (fonts/config reads elsewhere are out of scope)")
	t.Assume("panics are injected at read and write calls only (they stand for a panic anywhere in pdfcpu's processing between two data-moving calls); a panic inside the staging protocol's own metadata calls (open, stat, chmod, close, rename, remove) is not modelled")
	t.Assume("pdfcpu.CopyFile is io.Copy between two files: no panic is injected there (no pdfcpu processing code runs between its reads and writes)")
	t.Assume("excuse: when the injected fault is on the remove of path P itself, P may remain if the returned error names P")
	t.Assume("multi-output operations: completed earlier outputs that remain after a later failure are reported per operation (class earlier-outputs-kept); partial files, staging leftovers and damaged inputs are violations of their own class")
	t.Assume("pkg/cli forms: the file that plays stdout is not a file to protect (its content is not judged); a spooled copy of stdin left in $TMPDIR after a failure is counted (tmpdir_temp_left/<fault>), not judged: the property speaks of the output directory; the target of a symlinked destination and the other name of a hard-linked destination are judged like the destination")
	fx := filepath.Join(t.Scratch(), "fx")
	if err := os.MkdirAll(fx, 0o755); err != nil {
		t.Broken("%v", err)
	}
	if err := opcat.Prepare(vk.RepoDir(), fx); err != nil {
		t.Broken("fixtures: %v", err)
	}
	if unc, err := opcat.Uncovered(vk.RepoDir()); err == nil {
		t.Extra("api_file_functions_not_driven", unc)
	}
	t.Extra("operations", len(opcat.All()))
	t.Extra("op_scenarios", len(items(t)))
	t.Extra("cli_forms", len(cliprop.Forms()))
	t.Extra("cli_op_scenarios", len(cliItems(t)))
	t.Extra("cli_not_driven", cliprop.NotDriven)
	t.RunShards(16, "VERIF_FX="+fx)
	if t.Counter("ops_reached") == 0 {
		t.Broken("no operation was driven")
	}
}

func shard(t *vk.T) {
	fx := os.Getenv("VERIF_FX")
	si, sn := t.Shard()
	root := filepath.Join(t.Scratch(), "sb")
	its := items(t)
	only := os.Getenv("VERIF_ONLY_OP")
	for idx, it := range its {
		if idx%sn != si {
			continue
		}
		if only != "" && !strings.Contains(it.op.Name+"/"+string(it.sc), only) {
			continue
		}
		runItem(t, fx, root, idx, it)
	}
}

func runItem(t *vk.T, fx, root string, idx int, it item) {
	name := it.op.Name + "/" + string(it.sc)
	var c *fileprop.Case
	var err error
	if it.cli != nil {
		c, err = cliprop.Build(fx, root, *it.cli)
	} else {
		c, err = fileprop.Build(fx, root, it.op, it.sc)
	}
	if err != nil {
		t.Inconclusive("case-build-failed/" + name + ": " + err.Error())
		return
	}
	if it.cli != nil {
		t.Count("cli_ops_reached", 1)
		t.Count("cli_scenario/"+it.cli.ScGroup(), 1)
	}
	// traced fault-free run
	m := &osmon.Mon{Scope: root, Record: true}
	var rerr error
	var pv any
	m.Run(func() { rerr, pv = c.Run() })
	evs := m.Events()
	M := int64(len(evs))
	if pv != nil || (rerr != nil) != c.ExpectFail {
		t.Inconclusive(fmt.Sprintf("traced-run-diverged/%s: err=%v panic=%v", name, rerr, pv))
		return
	}
	t.Count("ops_reached", 1)
	t.Count("fs_calls_traced", M)
	if c.ExpectFail {
		after, _ := fsx.Snapshot(root, false)
		judge(t, c, faultSpec{0, "none"}, nil, rerr, nil, after)
		t.Eval(name + "/nofault")
		return
	}
	// choose fault points
	rng := t.RNGi("k/"+name, 0)
	var specs []faultSpec
	for k := int64(1); k <= M; k++ {
		middle := false
		if it.cli == nil {
			if t.Quick() && M > 12 && k > 2 && k <= M-4 && rng.IntN(3) != 0 {
				continue
			}
		} else if t.Quick() && M > 24 && k > 8 && k <= M-9 {
			// pkg/cli stream forms: calls 1..8 spool stdin and stage the output, the last 9 write, close,
			// remove and publish; in between lie the (many, alike) reads of the spooled copy
			middle = true
			if rng.IntN(4) != 0 {
				continue
			}
		}
		e := evs[k-1]
		if e.Depth > 0 {
			t.Count("nested_calls_not_faulted", 1) // e.g. the lstat inside os.Rename: a fault there is a fault inside the commit step
			continue
		}
		specs = append(specs, faultSpec{k, "errno"})
		if e.Op == "write" || e.Op == "writeat" {
			specs = append(specs, faultSpec{k, "short"})
		}
		if panicAllowedAt(e.Op) && !bareCopy(it.op.Name) {
			switch {
			case !middle:
				specs = append(specs, faultSpec{k, "panic"}, faultSpec{k, "faultpanic"})
			case rng.IntN(2) == 0:
				specs = append(specs, faultSpec{k, "panic"})
			default:
				specs = append(specs, faultSpec{k, "faultpanic"})
			}
		}
	}
	sampled := false
	for _, fs := range specs {
		if err := c.Reset(); err != nil {
			t.Broken("reset: %v", err)
		}
		fm := &osmon.Mon{Scope: root, Record: true, Faults: []*osmon.Fault{mkFault(fs)}}
		var ferr error
		var fpv any
		fm.Run(func() { ferr, fpv = c.Run() })
		if len(fm.Fired()) == 0 {
			t.Count("fault_not_reached", 1)
			t.Eval("")
			continue
		}
		after, err := fsx.Snapshot(root, false)
		if err != nil {
			t.Broken("snapshot: %v", err)
		}
		failed := ferr != nil || fpv != nil
		key := ""
		if failed {
			key = fmt.Sprintf("%s/%s/%d", name, fs.kind, fs.k)
			t.Count("failed_runs/"+fs.kind, 1)
		} else {
			t.Count("succeeded_despite_fault", 1)
		}
		t.Eval(key)
		inj := evs[fs.k-1]
		for _, e := range fm.Events() {
			if e.Inj != "" {
				inj = e // the faulted call of THIS run (temporary names differ from the traced run)
			}
		}
		judge(t, c, fs, inj, ferr, fpv, after)
		if !sampled && failed && fs.k > 2 {
			sampled = true
			t.Sample(map[string]any{"op": it.op.Name, "scenario": it.sc, "fs_calls": M, "fault": fs.kind, "k": fs.k,
				"faulted_call": evs[fs.k-1].Op + " " + rel(root, evs[fs.k-1].Path), "error": errStr(ferr), "panic": fmt.Sprint(fpv)})
		}
	}
}

func rel(root, p string) string {
	if r, err := filepath.Rel(root, p); err == nil {
		return r
	}
	return p
}

func errStr(e error) string {
	if e == nil {
		return ""
	}
	return e.Error()
}

func inList(l []string, s string) bool {
	for _, x := range l {
		if x == s {
			return true
		}
	}
	return false
}

// judge compares the tree after a run with the pristine tree (failure) or the success tree (success).
func judge(t *vk.T, c *fileprop.Case, fs faultSpec, ev *osmon.Event, ferr error, fpv any, after fsx.Tree) {
	base := fmt.Sprintf("op=%s/sc=%s/fault=%s", c.Op.Name, scGroup(c.Sc), fs.kind)
	rp := replay{Op: c.Op.Name, Scenario: string(c.Sc), Fault: fs.kind, K: fs.k, Err: errStr(ferr), Panic: ""}
	if fpv != nil {
		rp.Panic = fmt.Sprint(fpv)
	}
	if ev != nil {
		rp.Call = ev.Op + " " + rel(c.Root, ev.Path)
	}
	report := func(class string, changes []fsx.Change) {
		for _, ch := range changes {
			rp.Changes = append(rp.Changes, ch.String())
		}
		t.Violate(base+"/class="+class, fmt.Sprintf("%s %s: fault %s at fs call %d (%s); returned error %q panic %q; tree: %s",
			c.Op.Name, c.Sc, fs.kind, fs.k, rp.Call, rp.Err, rp.Panic, strings.Join(rp.Changes, "; ")), rp)
	}
	// pkg/cli cases: the stdout file is not judged; entries left in $TMPDIR are counted
	scoped := func(chs []fsx.Change) []fsx.Change {
		if len(c.Unjudged) == 0 && c.TmpDir == "" {
			return chs
		}
		var out []fsx.Change
		for _, ch := range chs {
			if inList(c.Unjudged, ch.Path) {
				continue
			}
			if c.TmpDir != "" && strings.HasPrefix(ch.Path, c.TmpDir+"/") {
				t.Count("tmpdir_temp_left/"+fs.kind, 1)
				if os.Getenv("VERIF_DEBUG") != "" {
					call := ""
					if ev != nil {
						call = ev.Op + " " + rel(c.Root, ev.Path)
					}
					if f, err := os.OpenFile(os.Getenv("VERIF_DEBUG"), os.O_APPEND|os.O_CREATE|os.O_WRONLY, 0o644); err == nil {
						fmt.Fprintf(f, "tmpdir-left %s %s fault=%s k=%d call=%q err=%q: %s\n", c.Op.Name, c.Sc, fs.kind, fs.k, call, errStr(ferr), ch.String())
						f.Close()
					}
				}
				continue
			}
			out = append(out, ch)
		}
		return out
	}
	if ferr == nil && fpv == nil {
		// success despite the fault: names and modes must be those of a fault-free success, inputs unchanged
		var bad []fsx.Change
		for _, ch := range scoped(fsx.Diff(c.Success, after)) {
			if ch.Kind == "content" && inList(c.Dest, ch.Path) {
				continue // fresh /ID and dates
			}
			bad = append(bad, ch)
		}
		if len(bad) > 0 {
			// One root cause shows up under whichever multi-output operation the (map-ordered) object
			// loading happens to hit: an I/O error on a read of the input absorbed by the reader's
			// repair path. Keyed by symptom, not by operation, so that the key is stable across runs.
			onlyMissing := ev != nil && (ev.Op == "read" || ev.Op == "readat") && fs.kind == "errno"
			for _, ch := range bad {
				if ch.Kind != "removed" || !inList(c.Dest, ch.Path) {
					onlyMissing = false
				}
			}
			if onlyMissing {
				for _, ch := range bad {
					rp.Changes = append(rp.Changes, ch.String())
				}
				t.Violate("fault=errno/at=read-of-input/class=success-with-missing-output", fmt.Sprintf("%s %s: EIO at fs call %d (%s) was absorbed: the call returned nil but %s",
					c.Op.Name, c.Sc, fs.k, rp.Call, strings.Join(rp.Changes, "; ")), rp)
				return
			}
			report("success-state-differs", bad)
		}
		return
	}
	changes := scoped(fsx.Diff(c.Pristine, after))
	if len(changes) == 0 {
		return
	}
	byClass := map[string][]fsx.Change{}
	for _, ch := range changes {
		b := filepath.Base(ch.Path)
		switch {
		case ch.Kind == "added":
			// excuse: the injected fault was on the removal of exactly this path
			if ev != nil && (ev.Op == "remove" || ev.Op == "removeall") && rel(c.Root, ev.Path) == ch.Path && ferr != nil && strings.Contains(ferr.Error(), b) {
				t.Count("excused_remove_fault", 1)
				continue
			}
			if fsx.IsStaging(b) {
				byClass["staging-left"] = append(byClass["staging-left"], ch)
				continue
			}
			if c.Op.Kind == opcat.DirOut && inList(c.Dest, ch.Path) && completeOutput(c, ch.Path, after) {
				byClass["earlier-outputs-kept"] = append(byClass["earlier-outputs-kept"], ch)
				continue
			}
			if ch.New.Mode.IsDir() {
				byClass["new-dir-left"] = append(byClass["new-dir-left"], ch)
				continue
			}
			byClass["new-output-left"] = append(byClass["new-output-left"], ch)
		case inList(c.Inputs, ch.Path):
			byClass["input-damaged"] = append(byClass["input-damaged"], ch)
		case inList(c.Dest, ch.Path) || inList(c.Aux, ch.Path):
			if c.Op.Kind == opcat.DirOut && ch.Kind == "content" && completeOutput(c, ch.Path, after) {
				byClass["earlier-outputs-replaced"] = append(byClass["earlier-outputs-replaced"], ch)
				continue
			}
			byClass["existing-file-damaged"] = append(byClass["existing-file-damaged"], ch)
		default:
			byClass["other-path-changed"] = append(byClass["other-path-changed"], ch)
		}
	}
	classes := make([]string, 0, len(byClass))
	for k := range byClass {
		classes = append(classes, k)
	}
	sort.Strings(classes)
	for _, cl := range classes {
		if cl == "earlier-outputs-kept" || cl == "earlier-outputs-replaced" {
			// documented per-output atomicity of multi-output operations: one finding per operation
			for _, ch := range byClass[cl] {
				rp.Changes = append(rp.Changes, ch.String())
			}
			t.Violate("op="+c.Op.Name+"/class=earlier-outputs-kept", fmt.Sprintf("%s %s: fault %s at fs call %d (%s); error %q panic %q; outputs completed before the failing step remain: %s",
				c.Op.Name, c.Sc, fs.kind, fs.k, rp.Call, rp.Err, rp.Panic, strings.Join(rp.Changes, "; ")), rp)
			continue
		}
		report(cl, byClass[cl])
	}
}

// completeOutput: a surviving output of a multi-output operation is complete when it has the size of the
// fault-free run's file at that path and, for PDFs, validates with the same page count.
func completeOutput(c *fileprop.Case, p string, after fsx.Tree) bool {
	want, ok := c.Success[p]
	if !ok {
		return false
	}
	got := after[p]
	full := filepath.Join(c.Root, filepath.FromSlash(p))
	head := make([]byte, 5)
	if f, err := os.Open(full); err == nil {
		f.Read(head)
		f.Close()
	}
	if string(head) == "%PDF-" {
		if err := api.ValidateFile(full, opcat.DefaultConf()); err != nil {
			if os.Getenv("VERIF_DEBUG") != "" {
				fmt.Fprintf(os.Stderr, "completeOutput(%s): validate: %v\n", p, err)
			}
			return false
		}
		n1, e1 := api.PageCountFile(full)
		_ = n1
		if os.Getenv("VERIF_DEBUG") != "" {
			fmt.Fprintf(os.Stderr, "completeOutput(%s): pagecount err=%v size got=%d want=%d\n", p, e1, got.Size, want.Size)
		}
		return e1 == nil && abs64(got.Size-want.Size) <= 64
	}
	return got.Size == want.Size
}

func abs64(v int64) int64 {
	if v < 0 {
		return -v
	}
	return v
}
